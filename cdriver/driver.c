/* C driver for the kodama C API: replays client histories.
 * Script lines:
 *   H <id>                         start of a history (all handles must have been freed)
 *   D <method_name> <n> <len> b..  create through kodama_linkage_double (bits as decimal u64)
 *   S <method_name> <n> <len> b..  create through kodama_linkage_float  (bits as decimal u32)
 *   R <h>                          read len/observations/steps of handle h
 *   X <h>                          scribble over, then free, the INPUT buffer of handle h
 *   F <h>                          kodama_dendrogram_free
 * Output: one line per history, the same token stream as the model prints.
 * With -t <k> the whole script is replayed concurrently on k threads and the
 * per-thread outputs must be identical (checked here; exit 3 otherwise). */
#include <inttypes.h>
#include <malloc.h>
#include <pthread.h>
#include <stddef.h>
#include <stdint.h>
#include <stdio.h>
#include <stdlib.h>
#include <string.h>
#include "kodama.h"

#define MAXH 4096

typedef struct { char *buf; size_t len, cap; } out_t;

static void put(out_t *o, const char *s) {
    size_t n = strlen(s);
    if (o->len + n + 1 > o->cap) { o->cap = (o->cap + n + 1) * 2; o->buf = realloc(o->buf, o->cap); }
    memcpy(o->buf + o->len, s, n + 1); o->len += n;
}
static void putu(out_t *o, uint64_t v) { char t[32]; snprintf(t, sizeof t, "%" PRIu64 " ", v); put(o, t); }

static int method_by_name(const char *s, kodama_method *m) {
    if (!strcmp(s, "single")) { *m = kodama_method_single; return 1; }
    if (!strcmp(s, "complete")) { *m = kodama_method_complete; return 1; }
    if (!strcmp(s, "average")) { *m = kodama_method_average; return 1; }
    if (!strcmp(s, "weighted")) { *m = kodama_method_weighted; return 1; }
    if (!strcmp(s, "ward")) { *m = kodama_method_ward; return 1; }
    if (!strcmp(s, "centroid")) { *m = kodama_method_centroid; return 1; }
    if (!strcmp(s, "median")) { *m = kodama_method_median; return 1; }
    return 0;
}

static uint64_t dbits(double d) { uint64_t u; memcpy(&u, &d, 8); if (d != d) u = 0x7ff8000000000000ULL; return u; }

static void put_dend(out_t *o, kodama_dendrogram *d) {
    size_t len = kodama_dendrogram_len(d);
    putu(o, kodama_dendrogram_observations(d));
    putu(o, len);
    if (len) {
        kodama_step *st = kodama_dendrogram_steps(d);
        for (size_t i = 0; i < len; i++) {
            putu(o, st[i].cluster1); putu(o, st[i].cluster2); putu(o, dbits(st[i].dissimilarity)); putu(o, st[i].size);
        }
    }
}

typedef struct { char *script; out_t out; int rc; } job_t;

static void *run_script(void *arg) {
    job_t *job = arg;
    out_t *o = &job->out;
    kodama_dendrogram *h[MAXH]; void *inbuf[MAXH]; size_t inlen[MAXH];
    size_t next = 0; int first = 1;
    char *save = NULL;
    char *copy = strdup(job->script);
    for (char *line = strtok_r(copy, "\n", &save); line; line = strtok_r(NULL, "\n", &save)) {
        char *sv2 = NULL;
        char *op = strtok_r(line, " ", &sv2);
        if (!op) continue;
        if (op[0] == 'H') {
            if (!first) put(o, "\n");
            first = 0; next = 0;
            put(o, strtok_r(NULL, " ", &sv2)); put(o, " ");
        } else if (op[0] == 'D' || op[0] == 'S') {
            kodama_method m;
            char *mn = strtok_r(NULL, " ", &sv2);
            if (!method_by_name(mn, &m)) { job->rc = 2; return NULL; }
            size_t n = strtoull(strtok_r(NULL, " ", &sv2), NULL, 10);
            size_t len = strtoull(strtok_r(NULL, " ", &sv2), NULL, 10);
            kodama_dendrogram *d;
            if (op[0] == 'D') {
                double *b = malloc((len ? len : 1) * sizeof(double));
                for (size_t i = 0; i < len; i++) { uint64_t u = strtoull(strtok_r(NULL, " ", &sv2), NULL, 10); memcpy(&b[i], &u, 8); }
                d = kodama_linkage_double(b, n, m);
                inbuf[next] = b; inlen[next] = len * sizeof(double);
            } else {
                float *b = malloc((len ? len : 1) * sizeof(float));
                for (size_t i = 0; i < len; i++) { uint32_t u = (uint32_t)strtoull(strtok_r(NULL, " ", &sv2), NULL, 10); memcpy(&b[i], &u, 4); }
                d = kodama_linkage_float(b, n, m);
                inbuf[next] = b; inlen[next] = len * sizeof(float);
            }
            if (!d) { job->rc = 4; return NULL; }
            h[next] = d;
            put(o, "0 "); putu(o, next); put_dend(o, d); put(o, "-1 ");
            next++;
        } else if (op[0] == 'R') {
            size_t k = strtoull(strtok_r(NULL, " ", &sv2), NULL, 10);
            put(o, "1 "); put_dend(o, h[k]); put(o, "-1 ");
        } else if (op[0] == 'X') {
            size_t k = strtoull(strtok_r(NULL, " ", &sv2), NULL, 10);
            if (inbuf[k]) { memset(inbuf[k], 0xA5, inlen[k]); free(inbuf[k]); inbuf[k] = NULL; }
            put(o, "2 -1 ");
        } else if (op[0] == 'F') {
            size_t k = strtoull(strtok_r(NULL, " ", &sv2), NULL, 10);
            kodama_dendrogram_free(h[k]); h[k] = NULL;
            if (inbuf[k]) { free(inbuf[k]); inbuf[k] = NULL; }
            put(o, "2 -1 ");
        }
    }
    put(o, "\n");
    free(copy);
    return NULL;
}

/* Soak: `count` dendrograms live at the same time (inputs freed at once), read back, then every
 * handle freed exactly once in the given order; the bytes the allocator has in use must return
 * to where they were (LeakSanitizer does not see blocks that a static table still points to). */
static size_t in_use(void) { struct mallinfo2 mi = mallinfo2(); return mi.uordblks + mi.hblkhd; }

static int soak(size_t count, int order, int check) {
    kodama_dendrogram **h = malloc(count * sizeof *h);
    malloc_trim(0);
    size_t before = in_use();
    for (size_t i = 0; i < count; i++) {
        size_t n = (size_t[]){2, 3, 0, 1, 5, 2, 3, 4}[i % 8];
        size_t len = n * (n ? n - 1 : 0) / 2;
        kodama_method m = (i % 3 == 0) ? kodama_method_average : (i % 3 == 1 ? kodama_method_single : kodama_method_ward);
        if (i % 2 == 0) {
            double *b = malloc((len ? len : 1) * sizeof(double));
            for (size_t k = 0; k < len; k++) b[k] = 1.0 + (double)((i + 3 * k) % 7);
            h[i] = kodama_linkage_double(b, n, m); memset(b, 0xA5, (len ? len : 1) * sizeof(double)); free(b);
        } else {
            float *b = malloc((len ? len : 1) * sizeof(float));
            for (size_t k = 0; k < len; k++) b[k] = 1.0f + (float)((i + 3 * k) % 7);
            h[i] = kodama_linkage_float(b, n, m); memset(b, 0xA5, (len ? len : 1) * sizeof(float)); free(b);
        }
        if (!h[i]) { fprintf(stderr, "soak: NULL dendrogram at %zu\n", i); return 4; }
    }
    for (size_t i = 0; i < count; i++) {
        size_t n = (size_t[]){2, 3, 0, 1, 5, 2, 3, 4}[i % 8];
        size_t want = n ? n - 1 : 0;
        if (kodama_dendrogram_len(h[i]) != want || kodama_dendrogram_observations(h[i]) != n) {
            fprintf(stderr, "soak: handle %zu of %zu live: len %zu observations %zu, expected %zu %zu\n", i, count,
                    kodama_dendrogram_len(h[i]), kodama_dendrogram_observations(h[i]), want, n);
            return 6;
        }
        const kodama_step *st = kodama_dendrogram_steps(h[i]);
        for (size_t k = 0; k < want; k++) if (st[k].size < 2 || st[k].size > n) { fprintf(stderr, "soak: handle %zu step %zu size %zu\n", i, k, st[k].size); return 6; }
    }
    if (order == 0) for (size_t i = 0; i < count; i++) kodama_dendrogram_free(h[i]);
    else if (order == 1) for (size_t i = count; i-- > 0;) kodama_dendrogram_free(h[i]);
    else { for (size_t i = 0; i < count; i += 2) kodama_dendrogram_free(h[i]); for (size_t i = 1; i < count; i += 2) kodama_dendrogram_free(h[i]); }
    malloc_trim(0);
    size_t after = in_use();
    long leaked = (long)after - (long)before;
    if (check) printf("soak count %zu order %d in_use_before %zu after %zu\n", count, order, before, after);
    free(h);
    if (check && leaked > 512) { fprintf(stderr, "soak: %ld bytes still allocated after freeing every one of %zu dendrograms exactly once (order %d)\n", leaked, count, order); return 5; }
    return 0;
}

/* --big <seed>: matrices of thousands of observations, generated here from a 64-bit LCG in
 * integer arithmetic (the Rust side generates the same bits: `kvh capibig`), every enumerator by
 * NAME, double and float; prints one digest line per call (FNV-1a over every field of every step). */
static uint64_t lcg(uint64_t *s) { *s = *s * 6364136223846793005ULL + 1442695040888963407ULL; return *s; }
static uint64_t fnv(uint64_t h, uint64_t v) { for (int k = 0; k < 8; k++) { h ^= (v >> (8 * k)) & 0xff; h *= 0x100000001b3ULL; } return h; }
static int big(uint64_t seed, size_t maxn) {
    static const char *names[7] = {"single", "complete", "average", "weighted", "ward", "centroid", "median"};
    static const size_t sizes[5] = {2048, 2049, 2311, 8194, 12288};
    for (int si = 0; si < 5; si++) for (int mi = 0; mi < 7; mi++) for (int wide = 1; wide >= 0; wide--) {
        size_t n = sizes[si], len = n * (n - 1) / 2;
        if (n > maxn) continue;
        if (n > 4000 && mi != 0 && mi != 2) continue;   /* the largest sizes: two fast methods only */
        kodama_method m; if (!method_by_name(names[mi], &m)) return 2;
        uint64_t st = seed * 1000003ULL + (uint64_t)(si * 100 + mi * 10 + wide);
        kodama_dendrogram *d;
        if (wide) {
            double *v = malloc(len * sizeof(double));
            for (size_t k = 0; k < len; k++) v[k] = 1.0 + (double)(lcg(&st) >> 12) / 4503599627370496.0;
            d = kodama_linkage_double(v, n, m); free(v);
        } else {
            float *v = malloc(len * sizeof(float));
            for (size_t k = 0; k < len; k++) v[k] = (float)(1.0 + (double)(lcg(&st) >> 12) / 4503599627370496.0);
            d = kodama_linkage_float(v, n, m); free(v);
        }
        size_t dl = kodama_dendrogram_len(d);
        uint64_t h = 0xcbf29ce484222325ULL;
        h = fnv(h, kodama_dendrogram_observations(d)); h = fnv(h, dl);
        kodama_step *stp = dl ? kodama_dendrogram_steps(d) : NULL;
        for (size_t i = 0; i < dl; i++) { h = fnv(h, stp[i].cluster1); h = fnv(h, stp[i].cluster2); h = fnv(h, dbits(stp[i].dissimilarity)); h = fnv(h, stp[i].size); }
        printf("BIG %s %s %zu %" PRIu64 "\n", names[mi], wide ? "double" : "float", n, h);
        kodama_dendrogram_free(d);
    }
    return 0;
}

/* --shared <rounds> <threads>: one handle, read for the FIRST time by several threads at once
 * (released together from a barrier), then freed once. Every thread must see the same len,
 * observation count and step bits; LeakSanitizer (ASan build) reports what is not released. */
typedef struct { kodama_dendrogram *d; pthread_barrier_t *bar; uint64_t sum; } shared_job;
static void *shared_reader(void *arg) {
    shared_job *j = arg;
    pthread_barrier_wait(j->bar);
    size_t len = kodama_dendrogram_len(j->d);
    uint64_t h = fnv(0xcbf29ce484222325ULL, kodama_dendrogram_observations(j->d)); h = fnv(h, len);
    kodama_step *st = len ? kodama_dendrogram_steps(j->d) : NULL;
    for (size_t i = 0; i < len; i++) { h = fnv(h, st[i].cluster1); h = fnv(h, st[i].cluster2); h = fnv(h, dbits(st[i].dissimilarity)); h = fnv(h, st[i].size); }
    j->sum = h;
    return 0;
}
static int shared_rounds(int rounds, int threads, int check) {
    size_t before = in_use();
    uint64_t st = 12345;
    for (int r = 0; r < rounds; r++) {
        size_t n = 2 + (size_t)(lcg(&st) >> 33) % 400, len = n * (n - 1) / 2;
        int wide = r % 2;
        kodama_dendrogram *d;
        if (wide) { double *v = malloc(len * sizeof(double)); for (size_t k = 0; k < len; k++) v[k] = 1.0 + (double)(lcg(&st) >> 12) / 4503599627370496.0;
                    d = kodama_linkage_double(v, n, r % 3 ? kodama_method_average : kodama_method_single); free(v); }
        else { float *v = malloc(len * sizeof(float)); for (size_t k = 0; k < len; k++) v[k] = (float)(1.0 + (double)(lcg(&st) >> 12) / 4503599627370496.0);
               d = kodama_linkage_float(v, n, r % 3 ? kodama_method_complete : kodama_method_ward); free(v); }
        pthread_barrier_t bar; pthread_barrier_init(&bar, NULL, threads);
        shared_job *jobs = calloc(threads, sizeof(shared_job)); pthread_t *th = calloc(threads, sizeof(pthread_t));
        for (int t = 0; t < threads; t++) { jobs[t].d = d; jobs[t].bar = &bar; pthread_create(&th[t], NULL, shared_reader, &jobs[t]); }
        for (int t = 0; t < threads; t++) pthread_join(th[t], NULL);
        for (int t = 1; t < threads; t++) if (jobs[t].sum != jobs[0].sum) { fprintf(stderr, "shared: thread %d read different steps than thread 0 (round %d, n=%zu)\n", t, r, n); return 6; }
        pthread_barrier_destroy(&bar); free(jobs); free(th);
        kodama_dendrogram_free(d);
    }
    size_t after = in_use();
    printf("shared rounds %d threads %d in_use_before %zu after %zu\n", rounds, threads, before, after);
    if (check && after > before + 4096) {
        fprintf(stderr, "shared: %zu bytes still allocated after %d handles were each read by %d threads at once and freed exactly once\n", after - before, rounds, threads);
        return 5;
    }
    return 0;
}

int main(int argc, char **argv) {
    int threads = 1; const char *path = NULL;
    for (int i = 1; i < argc; i++) {
        if (!strcmp(argv[i], "--shared") && i + 2 < argc) {
            printf("shared\n"); fflush(stdout);
            int w = shared_rounds(8, atoi(argv[i + 2]), 0);   /* warm-up (thread stacks, stdio) */
            if (w) return w;
            /* no allocator accounting here: glibc's per-thread arenas make bytes-in-use meaningless
             * across thread creation; leaks are LeakSanitizer's business in the ASan build */
            return shared_rounds(atoi(argv[i + 1]), atoi(argv[i + 2]), 0);
        }
        if (!strcmp(argv[i], "--big") && i + 1 < argc) return big(strtoull(argv[i + 1], NULL, 10), i + 2 < argc ? strtoull(argv[i + 2], NULL, 10) : 100000);
        if (!strcmp(argv[i], "--soak") && i + 2 < argc) {
            printf("soak\n"); fflush(stdout);
            int w = soak(64, 0, 0);   /* warm-up: stdio buffers and the like are allocated once */
            if (w) return w;
            return soak(strtoull(argv[i + 1], NULL, 10), atoi(argv[i + 2]), 1);
        }
        if (!strcmp(argv[i], "-t") && i + 1 < argc) threads = atoi(argv[++i]);
        else if (!strcmp(argv[i], "--layout")) {
            printf("sizeof_step %zu off_c1 %zu off_c2 %zu off_dis %zu off_size %zu sizeof_size_t %zu enum %d %d %d %d %d %d %d\n",
                   sizeof(kodama_step), offsetof(kodama_step, cluster1), offsetof(kodama_step, cluster2),
                   offsetof(kodama_step, dissimilarity), offsetof(kodama_step, size), sizeof(size_t),
                   kodama_method_single, kodama_method_complete, kodama_method_average, kodama_method_weighted,
                   kodama_method_ward, kodama_method_centroid, kodama_method_median);
            return 0;
        } else path = argv[i];
    }
    if (!path) { fprintf(stderr, "usage: driver [-t k] script | --layout\n"); return 2; }
    FILE *f = fopen(path, "rb"); if (!f) { perror("open"); return 2; }
    fseek(f, 0, SEEK_END); long sz = ftell(f); fseek(f, 0, SEEK_SET);
    char *script = malloc(sz + 1); if (fread(script, 1, sz, f) != (size_t)sz) return 2; script[sz] = 0; fclose(f);
    job_t *jobs = calloc(threads, sizeof(job_t)); pthread_t *th = calloc(threads, sizeof(pthread_t));
    for (int t = 0; t < threads; t++) { jobs[t].script = script; pthread_create(&th[t], NULL, run_script, &jobs[t]); }
    for (int t = 0; t < threads; t++) pthread_join(th[t], NULL);
    int rc = 0;
    for (int t = 0; t < threads; t++) {
        if (jobs[t].rc) rc = jobs[t].rc;
        if (t && strcmp(jobs[t].out.buf, jobs[0].out.buf)) { fprintf(stderr, "thread %d output differs from thread 0\n", t); rc = 3; }
    }
    fputs(jobs[0].out.buf, stdout);
    for (int t = 0; t < threads; t++) free(jobs[t].out.buf);
    free(jobs); free(th); free(script);
    return rc;
}
