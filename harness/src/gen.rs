//! Input generators.  Every choice derives from the one PRNG passed in.
use crate::common::*;

pub const FAMILIES: [&str; 19] = [
    "uniform", "lattice", "allequal", "allzero", "duppoints", "negative", "sorted",
    "revsorted", "collinear", "pow2", "huge", "tiny", "neartie", "euclid", "signed", "staircase",
    "negzero", "tiechain", "rowconst",
];
/// families that are valid input only for some methods (never drawn blindly)
pub const SPECIAL_FAMILIES: [&str; 9] = ["rampdips", "maxmag", "hugechain", "subnormal", "star", "decgap", "hugeone", "decgapdups", "nearlimit"];

/// sizes next to the powers of two at which word / block / narrow-integer shortcuts change behaviour
pub const BOUNDARY_SIZES: [u64; 18] = [31, 32, 33, 63, 64, 65, 127, 128, 129, 131, 132, 135, 191, 192, 193, 255, 256, 257];
pub fn boundary_size(rng: &mut Rng, cap: u64) -> u64 {
    let ok: Vec<u64> = BOUNDARY_SIZES.iter().cloned().filter(|&b| b <= cap).collect();
    if ok.is_empty() { cap } else { ok[rng.below(ok.len() as u64) as usize] }
}

fn len_of(n: usize) -> usize { n * n.saturating_sub(1) / 2 }

/// Matrix values as f64 (converted to the target width by the caller).
pub fn matrix_f64(rng: &mut Rng, n: usize, fam: &str, wide: bool) -> Vec<f64> {
    let len = len_of(n);
    let mut v: Vec<f64> = Vec::with_capacity(len);
    match fam {
        "uniform" => {
            let scale = [1.0, 10.0, 1000.0, 0.001][rng.below(4) as usize];
            for _ in 0..len { v.push((rng.unit() * 0.98 + 0.01) * scale); }
        }
        "lattice" => {
            let k = rng.range(1, 3);
            let base = rng.below(2) as f64; // with or without zeros
            for _ in 0..len { v.push(base + rng.below(k + 1) as f64); }
        }
        "allequal" => {
            let c = [1.0, 0.7, 3.0, 0.1, 2.1, 1.7, 0.9][rng.below(7) as usize];
            for _ in 0..len { v.push(c); }
        }
        "allzero" => { for _ in 0..len { v.push(0.0); } }
        "duppoints" => {
            let g = rng.range(2, 4);
            let pts: Vec<(f64, f64)> = (0..n).map(|_| (rng.below(g) as f64, rng.below(g) as f64)).collect();
            for (i, j) in pairs(n) {
                let (dx, dy) = (pts[i].0 - pts[j].0, pts[i].1 - pts[j].1);
                v.push((dx * dx + dy * dy).sqrt());
            }
        }
        "negative" => { for _ in 0..len { v.push(rng.unit() * 2.0 - 1.0); } }
        "signed" => {
            // small signed integers: exact zeros next to negative and positive values
            let k = rng.range(1, 3) as i64;
            for _ in 0..len { v.push((rng.below(2 * k as u64 + 1) as i64 - k) as f64); }
        }
        "staircase" => {
            // d(i,j) = (n-j)(n+1) + (n-i): every cached nearest neighbour goes stale
            for i in 0..n { for j in i + 1..n { v.push(((n - j) * (n + 1) + (n - i)) as f64); } }
        }
        "sorted" | "revsorted" => {
            let mut x = rng.unit();
            for _ in 0..len { x += rng.unit() * 0.5 + 0.01; v.push(x); }
            if fam == "revsorted" { v.reverse(); }
        }
        "collinear" => {
            let r = [1.5, 2.0, 1.1, 3.0][rng.below(4) as usize];
            let mut pts = Vec::with_capacity(n);
            let mut x = 1.0f64;
            let cap = if wide { 1e100 } else { 1e12 };
            for _ in 0..n { pts.push(x); x *= r; if x > cap { x = 1.0 + rng.unit(); } }
            if rng.below(2) == 0 { pts.reverse(); }
            for (i, j) in pairs(n) { v.push((pts[i] - pts[j]).abs()); }
        }
        "pow2" => {
            let span = if wide { 60 } else { 12 };
            for _ in 0..len {
                let e = rng.below(2 * span + 1) as i32 - span as i32;
                v.push(2f64.powi(e));
            }
        }
        "huge" => {
            let s = if wide { 1e150 } else { 1e15 };
            for _ in 0..len { v.push((rng.unit() * 0.9 + 0.1) * s); }
        }
        "tiny" => {
            let s = if wide { 1e-150 } else { 1e-15 };
            for _ in 0..len { v.push((rng.unit() * 0.9 + 0.1) * s); }
        }
        "negzero" => {
            // negative zero next to positive zero and positive values (-0.0 >= 0.0, but its bit
            // pattern is the largest of all non-NaN patterns below -0.0 .. : sorting by bits shows)
            let k = rng.range(1, 3);
            for _ in 0..len { v.push(match rng.below(k + 3) { 0 => -0.0, 1 => 0.0, x => (x - 1) as f64 * 0.5 }); }
        }
        "tiechain" => {
            // a chain of near-ties: neighbours within ~1e-13 relative, far ends apart; everything
            // else well separated (a tolerant, non-transitive comparison anywhere shows)
            let eps = if wide { 2e-13 } else { 2e-7 };
            let paired = rng.below(2) == 0;
            for (i, j) in pairs(n) {
                let link = if paired { i % 2 == 0 && j == i + 1 } else { j == i + 1 };
                v.push(if link { 1.0 + (((37 * i) % 101) as f64) * eps } else { 5.0 });
            }
        }
        "rowconst" => {
            // d(i,j) = n - min(i,j): every row constant, the nearest-neighbour chain runs through
            // all points and every link is chosen among exact ties
            for (i, _j) in pairs(n) { v.push((n - i) as f64); }
        }
        "maxmag" => {
            // finite values next to the largest finite one (their sum overflows; single / complete
            // linkage never add, so this is valid input for them)
            let (lo, hi) = if wide { (1e307, 1.7e308) } else { (1e37, 3.3e38) };
            // ... and entries exactly equal to the largest finite value (finite input: the
            // sentinel of the generic algorithm's queue must not collide with it)
            let mx = if wide { f64::MAX } else { f32::MAX as f64 };
            let pmax = [0u64, 2, 3, 1][rng.below(4) as usize];
            for _ in 0..len {
                if pmax > 0 && rng.below(pmax) == 0 { v.push(mx); } else { v.push(lo + rng.unit() * (hi - lo)); }
            }
        }
        "subnormal" => {
            // finite values below the smallest normal number (and a few ordinary ones): valid input,
            // single / complete only select them, the arithmetic methods average them
            let tiny = if wide { f64::MIN_POSITIVE } else { f32::MIN_POSITIVE as f64 };
            let least = if wide { 5e-324 } else { 1.4e-45 };
            for _ in 0..len {
                v.push(match rng.below(5) { 0 => least * (1 + rng.below(7)) as f64, 1 => tiny * rng.unit(), 2 => 0.0, 3 => tiny * (1.0 + rng.unit()), _ => rng.unit() });
            }
        }
        "star" => {
            // one hub: every observation is close to the last one (by slightly different amounts) and
            // far from all the others, so each merge makes nearly every cached nearest neighbour stale
            for (i, j) in pairs(n) {
                v.push(if j == n - 1 { 1.0 + i as f64 * 1e-6 } else { 20.0 + (i * 100 + j) as f64 * 1e-9 });
            }
        }
        "hugechain" => {
            // collinear points in geometric progression whose largest coordinates are next to the
            // largest finite value: one long nearest-neighbour chain, and the arithmetic updates
            // (average, weighted) overflow to +inf on the far entries - still a finite input
            let top = if wide { f64::MAX } else { f32::MAX as f64 };
            let x: Vec<f64> = (0..n).map(|i| 0.9 * top * 1.25f64.powi(-(i as i32))).collect();
            for (i, j) in pairs(n) { v.push((x[i] - x[j]).abs()); }
        }
        "decgap" => {
            // points on a line, in index order, with strictly decreasing gaps (small integers, exact
            // in both widths, no ties between neighbours): the nearest neighbour of every point is the
            // next one, so a nearest-neighbour chain started at 0 runs through all n points before
            // the first merge and is then unwound from the far end
            let mut x = vec![0.0f64; n];
            for k in 1..n { x[k] = x[k - 1] + (2 * n - (k - 1)) as f64; }
            for (i, j) in pairs(n) { v.push((x[j] - x[i]).abs()); }
        }
        "decgapdups" => {
            // the first half as `decgap` (one chain through all of them), the second half exact copies
            // of the last point of that chain: pairwise dissimilarity exactly 0 at the far end of a long
            // nearest-neighbour chain
            let k = (n + 1) / 2;
            let mut x = vec![0.0f64; n];
            for i in 1..n { x[i] = if i < k { x[i - 1] + (2 * n - (i - 1)) as f64 } else { x[k - 1] }; }
            for (i, j) in pairs(n) { v.push((x[j] - x[i]).abs()); }
        }
        "nearlimit" => {
            // as large as the domain of the squared methods allows at this size: n times a square
            // stays below MAX / 8, so every weighted sum Ward forms is finite - while the plain sum of
            // all n(n-1)/2 squares is not
            let mx = if wide { f64::MAX } else { f32::MAX as f64 };
            let top = (mx / (8.0 * n.max(1) as f64)).sqrt();
            for _ in 0..len { v.push(top * (0.5 + 0.5 * rng.unit())); }
        }
        "hugeone" => {
            // ordinary entries and ONE entry whose square overflows (valid finite input; with Ward
            // the last merge is reported at +inf, nothing panics)
            let big = if wide { 1e200 } else { 1e30 };
            for _ in 0..len { v.push(rng.unit() * 3.0 + 0.5); }
            if len > 0 { let k = rng.below(len as u64) as usize; v[k] = big * (1.0 + rng.unit()); }
        }
        "rampdips" => {
            // points on a line with growing gaps, except a close pair every k-th point: the raw
            // merge order of Prim / the NN-chain is then almost, but not entirely, sorted
            // (adaptive "nearly sorted" paths in the step ordering)
            let k = [7usize, 20, 50, 100][rng.below(4) as usize];
            let mut x = vec![0.0f64; n];
            for i in 1..n { x[i] = x[i - 1] + if (i - 1) % k == k - 1 { 0.25 } else { i as f64 }; }
            for (i, j) in pairs(n) { v.push((x[j] - x[i]).abs()); }
        }
        "neartie" => {
            let base = [1.0, 0.7, 1.7, 2.1, 0.9, 3.3][rng.below(6) as usize];
            for _ in 0..len {
                let k = rng.below(5) as i64 - 2;
                let x = if wide {
                    f64::from_bits((base as f64).to_bits().wrapping_add(k as u64))
                } else {
                    f32::from_bits((base as f32).to_bits().wrapping_add(k as u32)) as f64
                };
                v.push(x);
            }
        }
        _ /* euclid */ => {
            let dim = rng.range(1, 4) as usize;
            let clustered = rng.below(2) == 0;
            let pts: Vec<Vec<f64>> = (0..n).map(|i| {
                (0..dim).map(|_| {
                    let c = if clustered { ((i % 3) * 10) as f64 } else { 0.0 };
                    c + rng.unit() * 4.0
                }).collect()
            }).collect();
            for (i, j) in pairs(n) {
                let mut s = 0.0;
                for k in 0..dim { let d = pts[i][k] - pts[j][k]; s += d * d; }
                v.push(s.sqrt());
            }
        }
    }
    v
}

pub fn to_bits(v: &[f64], wide: bool) -> Vec<u64> {
    if wide { v.iter().map(|x| x.to_bits64()).collect() }
    else { v.iter().map(|&x| (x as f32).to_bits64()).collect() }
}

#[derive(Clone, Debug)]
pub struct AlgoCase {
    pub algo: u8,
    pub method: u8,
    pub wide: bool,
    pub n: u64,
    pub bits: Vec<u64>,
    pub family: &'static str,
}

impl AlgoCase {
    pub fn key(&self) -> u64 {
        let mut d = vec![self.algo as u64, self.method as u64, self.wide as u64, self.n];
        d.extend_from_slice(&self.bits);
        hash64(&d)
    }
    pub fn describe(&self) -> String {
        format!("{} {} {} n={} family={} bits={}",
            ALGO_NAMES[self.algo as usize], METHOD_NAMES[self.method as usize],
            if self.wide { "f64" } else { "f32" }, self.n, self.family, coq_list(&self.bits))
    }
    /// rough cost of evaluating the model on this case (list walks included)
    pub fn model_cost(&self) -> u64 {
        let n = self.n.max(1);
        let walk = n * n / 2;
        let ops = match self.algo { 4 => n * n * n, _ => 4 * n * n };
        let soft = if self.wide { 1 } else { 40 };
        ops * walk / 8 + ops * soft * 20
    }
}

fn pick_family(rng: &mut Rng) -> &'static str {
    // tie-heavy families weighted up
    const W: [(&str, u64); 20] = [
        ("uniform", 4), ("lattice", 5), ("allequal", 2), ("allzero", 1), ("duppoints", 3),
        ("negative", 1), ("sorted", 1), ("revsorted", 1), ("collinear", 2), ("pow2", 1),
        ("huge", 1), ("tiny", 1), ("neartie", 3), ("euclid", 3), ("signed", 3), ("staircase", 1),
        ("negzero", 2), ("tiechain", 1), ("rowconst", 1), ("rampdips", 1),
    ];
    let total: u64 = W.iter().map(|w| w.1).sum();
    let mut r = rng.below(total);
    for (f, w) in W.iter() { if r < *w { return f; } r -= *w; }
    "uniform"
}

/// Size distribution for model-evaluated cases.
fn pick_n(rng: &mut Rng, algo: u8, wide: bool, thorough: bool) -> u64 {
    let cap: u64 = match (algo, wide, thorough) {
        (4, true, false) => 14, (4, true, true) => 22,
        (4, false, false) => 7, (4, false, true) => 10,
        (_, true, false) => 26, (_, true, true) => 44,
        (_, false, false) => 9, (_, false, true) => 14,
    };
    match rng.below(10) {
        0 => rng.below(4),                 // 0..3
        1..=5 => rng.range(3, cap.min(10)),
        6..=8 => rng.range(cap.min(8), cap),
        _ => cap,
    }
}

/// In-domain fresh-call cases for the algorithm correspondence and oracles.
pub fn algo_cases(rng: &mut Rng, count: usize, thorough: bool) -> Vec<AlgoCase> {
    let mut out = Vec::new();
    // systematic part: every (algo, method, width) on n in 0..=4 with a lattice
    for algo in 0..5u8 { for method in 0..7u8 { if !accepts(algo, method) { continue; }
        for &wide in &[true, false] {
            for n in 0..=4u64 {
                let fam = if n % 2 == 0 { "lattice" } else { "uniform" };
                let v = matrix_f64(rng, n as usize, fam, wide);
                out.push(AlgoCase { algo, method, wide, n, bits: to_bits(&v, wide), family: fam });
            }
        }
    }}
    while out.len() < count {
        let algo = rng.below(5) as u8;
        let method = loop { let m = rng.below(7) as u8; if accepts(algo, m) { break m; } };
        let wide = rng.below(4) != 0;
        let n = pick_n(rng, algo, wide, thorough);
        let fam = pick_family(rng);
        // single / complete: also values next to the largest finite one
        let fam = if method <= 1 && rng.below(20) == 0 { "maxmag" } else { fam };
        let v = matrix_f64(rng, n as usize, fam, wide);
        out.push(AlgoCase { algo, method, wide, n, bits: to_bits(&v, wide), family: fam });
    }
    // finite input with entries equal to the largest finite value, every entry point, single /
    // complete (which never add): [1, MAX, MAX] made the generic algorithm spin before 26f6ac5
    for algo in 0u8..5 {
        for method in 0u8..2 {
            if !accepts(algo, method) { continue; }
            for &wide in &[true, false] {
                let mx = if wide { f64::MAX } else { f32::MAX as f64 };
                let v = vec![1.0, mx, mx];
                out.push(AlgoCase { algo, method, wide, n: 3, bits: to_bits(&v, wide), family: "maxmag" });
                let n = rng.range(4, 9);
                let v = matrix_f64(rng, n as usize, "maxmag", wide);
                out.push(AlgoCase { algo, method, wide, n, bits: to_bits(&v, wide), family: "maxmag" });
            }
        }
    }
    // tie-saturated mid-size cases for the sort path (slices above the
    // insertion-sort threshold of the stable sort)
    let extra = if thorough { 24 } else { 8 };
    for k in 0..extra {
        let algo = [1u8, 2, 0, 3][k % 4];
        let method = if algo == 1 { 0 } else { [0u8, 1, 3, 2][(k / 4) % 4] };
        let n = rng.range(34, if thorough { 48 } else { 40 });
        let fam = if k % 2 == 0 { "lattice" } else { "duppoints" };
        let v = matrix_f64(rng, n as usize, fam, true);
        out.push(AlgoCase { algo, method, wide: true, n, bits: to_bits(&v, true), family: fam });
    }
    // a few cases beyond 64 observations (word-size effects in bitmaps, block sizes):
    // the model is evaluated on them too, so keep them few
    let big = if thorough { 8 } else { 4 };
    for k in 0..big {
        let (algo, method) = [(1u8, 0u8), (2, 1), (3, 5), (0, 2), (2, 4), (3, 0), (0, 0), (2, 3)][k % 8];
        let n = rng.range(65, if thorough { 80 } else { 70 });
        let fam = if k % 2 == 0 { "uniform" } else { "lattice" };
        let v = matrix_f64(rng, n as usize, fam, true);
        out.push(AlgoCase { algo, method, wide: true, n, bits: to_bits(&v, true), family: fam });
    }
    out
}

/// Malformed and boundary shapes (len, n) for every entry point.
#[derive(Clone, Debug)]
pub struct ShapeCase { pub algo: u8, pub method: u8, pub wide: bool, pub n: u64, pub len: usize }

pub fn shape_cases(rng: &mut Rng, count: usize) -> Vec<ShapeCase> {
    let mut out = Vec::new();
    let extremes = [u64::MAX, 1u64 << 63, (1u64 << 63) + 1, u64::MAX - 1, 1u64 << 62, (1u64 << 59) + 7];
    for algo in 0..5u8 {
        let method = match algo { 1 => 0, 2 => 4, 0 => 5, 3 => 1, _ => 6 };
        for &n in &extremes { for &len in &[0usize, 1, 3] {
            out.push(ShapeCase { algo, method, wide: true, n, len });
        }}
        for (n, len) in [(0u64, 0usize), (1, 0), (0, 1), (1, 1), (2, 0), (2, 1), (2, 2), (3, 2), (3, 3), (3, 4), (4, 6), (4, 5), (5, 6), (4, 7)] {
            out.push(ShapeCase { algo, method, wide: algo % 2 == 0, n, len });
        }
    }
    while out.len() < count {
        let algo = rng.below(5) as u8;
        let method = loop { let m = rng.below(7) as u8; if accepts(algo, m) { break m; } };
        let n = rng.below(14);
        let good = (n * n.saturating_sub(1) / 2) as i64;
        let len = match rng.below(6) {
            0 => good, 1 => good + 1, 2 => (good - 1).max(0), 3 => good + n as i64,
            4 => ((n + 1) * n / 2) as i64, _ => rng.below(40) as i64,
        } as usize;
        out.push(ShapeCase { algo, method, wide: rng.below(3) != 0, n, len });
    }
    out
}

/// One call of a reuse history.
#[derive(Clone, Debug)]
pub struct HistCall { pub algo: u8, pub method: u8, pub n: u64, pub bits: Vec<u64>, pub kind: &'static str }

#[derive(Clone, Debug)]
pub struct History { pub wide: bool, pub calls: Vec<HistCall> }

pub fn history(rng: &mut Rng, thorough: bool) -> History {
    let wide = rng.below(10) < 7;
    let maxn: u64 = if wide { if thorough { 20 } else { 13 } } else { if thorough { 9 } else { 7 } };
    let len = rng.range(2, if thorough { 10 } else { 6 });
    let mut calls = Vec::new();
    let mut n = rng.range(2, maxn);
    for _ in 0..len {
        // size walk: stay / shrink / grow / degenerate
        n = match rng.below(8) {
            0 => n,
            1 | 2 => rng.range(2.min(n), n.max(2)),          // shrink (or stay)
            3 | 4 => rng.range(n, maxn),                      // grow
            5 => rng.below(2),                                // 0 or 1
            _ => rng.range(2, maxn),
        };
        let algo = rng.below(5) as u8;
        let method = loop { let m = rng.below(7) as u8; if accepts(algo, m) { break m; } };
        let r = rng.below(100);
        // the length of the previous (valid) call's matrix with another observation count: a shape
        // that was right a moment ago on this very state
        let prev_valid: Option<(u64, usize)> = calls.last().and_then(|c: &HistCall| {
            if c.kind != "malformed" && c.kind != "nan" && c.n >= 3 && c.bits.len() as u64 == c.n * (c.n - 1) / 2 { Some((c.n, c.bits.len())) } else { None } });
        if r >= 94 && prev_valid.is_some() {
            let (pn, plen) = prev_valid.unwrap();
            let n2 = match rng.below(5) { 0 => pn - 1, 1 => pn - 2, 2 => 2, 3 => rng.below(2), _ => pn + 1 };
            let v: Vec<f64> = (0..plen).map(|k| 1.0 + (k % 5) as f64 * 0.5).collect();
            n = n2.min(maxn);
            calls.push(HistCall { algo, method, n: n2, bits: to_bits(&v, wide), kind: "malformed" });
        } else if r < 10 {
            // malformed shape: panics in the shape check
            let good = (n * n.saturating_sub(1) / 2) as usize;
            let len = if rng.below(2) == 0 { good + 1 } else { good.saturating_sub(1).max(if good == 0 { 1 } else { 0 }) };
            let len = if len == good { good + 2 } else { len };
            let v: Vec<f64> = (0..len).map(|k| 1.0 + (k % 3) as f64).collect();
            calls.push(HistCall { algo, method, n, bits: to_bits(&v, wide), kind: "malformed" });
        } else if r < 16 && n >= 3 && (algo == 1 || algo == 2 || algo == 4) {
            // NaN inside: the relabel sort panics after the scratch state was used
            let mut v = matrix_f64(rng, n as usize, "uniform", wide);
            let k = rng.below(v.len() as u64) as usize;
            v[k] = f64::NAN;
            if rng.below(2) == 0 { let k2 = rng.below(v.len() as u64) as usize; v[k2] = f64::NAN; }
            calls.push(HistCall { algo, method, n, bits: to_bits(&v, wide), kind: "nan" });
        } else {
            let fam = match rng.below(11) { 0..=3 => "lattice", 4 => "duppoints", 5 => "allequal", 6 => "neartie", 7 => "euclid", 8 => "signed", _ => "uniform" };
            let v = matrix_f64(rng, n as usize, fam, wide);
            calls.push(HistCall { algo, method, n, bits: to_bits(&v, wide), kind: fam });
        }
    }
    History { wide, calls }
}
