//! Component-level correspondence: operation sequences on Active, LinkageHeap
//! and LinkageUnionFind (re-exported under cfg(kodama_verif)).
use std::collections::{BTreeMap, HashMap, HashSet};

use crate::common::*;
use crate::streams::*;

#[cfg(kodama_verif)]
mod real {
    use super::*;
    use kodama::verif::{Active, LinkageHeap, LinkageUnionFind};

    fn pk(r: Result<Vec<i128>, (u64, String)>) -> Vec<i128> {
        match r { Ok(v) => v, Err((k, _)) => vec![1, k as i128] }
    }

    pub fn active_seq(rng: &mut Rng, thorough: bool) -> (Vec<Vec<i128>>, Vec<i128>) {
        let mut a = Active::new();
        let mut len = 0u64;
        let (mut ops, mut out) = (vec![], vec![]);
        let nops = rng.range(4, if thorough { 60 } else { 30 });
        for k in 0..nops {
            let kind = if k == 0 { 0 } else { rng.below(12) };
            tick_global(&format!("Active op sequence so far {:?}, next op kind {}", ops, kind));
            let idx = |rng: &mut Rng, len: u64| -> u64 { if rng.below(8) == 0 { len + rng.below(3) } else { rng.below(len.max(1)) } };
            let (op, res): (Vec<i128>, Vec<i128>) = match kind {
                0 => { len = match rng.below(12) { 0 => rng.range(60, if thorough { 200 } else { 140 }), 1 => [63u64, 64, 65, 127, 128, 129, 192][rng.below(if thorough { 7 } else { 6 }) as usize], _ => rng.below(if thorough { 24 } else { 12 }) }; a.reset(len as usize); (vec![0, len as i128], vec![0]) }
                1..=4 => { let i = idx(rng, len); (vec![1, i as i128], pk(catch(|| { a.remove(i as usize); vec![0] }))) }
                5 | 6 => { let i = idx(rng, len); (vec![2, i as i128], pk(catch(|| vec![0, a.contains(i as usize) as i128]))) }
                7 | 8 => (vec![3], pk(catch(|| { let mut v = vec![0]; v.extend(a.iter().map(|x| x as i128)); v }))),
                _ => {
                    let (lo, hi) = (idx(rng, len + 1), idx(rng, len + 1));
                    match rng.below(4) {
                        0 => (vec![4, 0, 0, 0, 0], pk(catch(|| { let mut v = vec![0]; v.extend(a.range(..).map(|x| x as i128)); v }))),
                        1 => (vec![4, 1, lo as i128, 0, 0], pk(catch(|| { let mut v = vec![0]; v.extend(a.range(lo as usize..).map(|x| x as i128)); v }))),
                        2 => (vec![4, 0, 0, 2, hi as i128], pk(catch(|| { let mut v = vec![0]; v.extend(a.range(..hi as usize).map(|x| x as i128)); v }))),
                        _ => (vec![4, 1, lo as i128, 2, hi as i128], pk(catch(|| { let mut v = vec![0]; v.extend(a.range(lo as usize..hi as usize).map(|x| x as i128)); v }))),
                    }
                }
            };
            let panicked = res.first() == Some(&1);
            ops.push(op); out.extend(res); out.push(-1);
            // a panic may leave the component half-updated: the sequence ends there
            if panicked { break; }
        }
        (ops, out)
    }

    pub fn uf_seq(rng: &mut Rng, thorough: bool) -> (Vec<Vec<i128>>, Vec<i128>) {
        let mut u = LinkageUnionFind::new();
        let mut len = 0u64;
        let mut next = 0u64;
        // shadow of the parent array, only to know the next fresh label exactly (a
        // union of two labels with the same root is a no-op and consumes no label)
        let mut shadow: Vec<u64> = vec![];
        let sfind = |sh: &Vec<u64>, mut x: u64| -> u64 { while sh[x as usize] != x { x = sh[x as usize]; } x };
        let (mut ops, mut out) = (vec![], vec![]);
        let nops = rng.range(4, if thorough { 60 } else { 30 });
        for k in 0..nops {
            let kind = if k == 0 { 0 } else { rng.below(10) };
            tick_global(&format!("LinkageUnionFind op sequence so far {:?}, next op kind {}", ops, kind));
            let size = if len == 0 { 0 } else { 2 * len - 1 };
            let idx = |rng: &mut Rng| -> u64 { if rng.below(10) == 0 { size + rng.below(2) } else { rng.below(size.max(1)) } };
            let (op, res): (Vec<i128>, Vec<i128>) = match kind {
                0 => {
                    len = rng.below(if thorough { 16 } else { 9 }); next = len; u.reset(len as usize);
                    shadow = (0..if len == 0 { 0 } else { 2 * len - 1 }).collect();
                    (vec![0, len as i128], vec![0])
                }
                1..=4 => { let c = idx(rng); (vec![1, c as i128], pk(catch(|| vec![0, u.find(c as usize) as i128]))) }
                _ => {
                    // labels below the next fresh parent (any node, root or not): parents stay
                    // strictly above children, so `find` terminates; rarely an out-of-range label
                    let pick = |rng: &mut Rng| -> u64 { if rng.below(12) == 0 { size + rng.below(2) } else { rng.below(next.max(1)) } };
                    let (x, y) = (pick(rng), pick(rng));
                    if x < size && y < size && next < size && sfind(&shadow, x) != sfind(&shadow, y) {
                        shadow[x as usize] = next; shadow[y as usize] = next; next += 1;
                    }
                    (vec![2, x as i128, y as i128], pk(catch(|| { u.union(x as usize, y as usize); vec![0] })))
                }
            };
            let panicked = res.first() == Some(&1);
            ops.push(op); out.extend(res); out.push(-1);
            // a panic may leave the component half-updated: the sequence ends there
            if panicked { break; }
        }
        (ops, out)
    }

    pub fn heap_seq(rng: &mut Rng, thorough: bool) -> (Vec<Vec<i128>>, Vec<i128>) {
        let mut h: LinkageHeap<f64> = LinkageHeap::new();
        let mut len = 0u64;
        let (mut ops, mut out) = (vec![], vec![]);
        let nops = rng.range(4, if thorough { 70 } else { 35 });
        let val = |rng: &mut Rng| -> f64 { [0.5, 1.0, 1.0, 2.0, 3.0, 0.25, 7.0, 1.5][rng.below(8) as usize] + if rng.below(3) == 0 { rng.below(4) as f64 } else { 0.0 } };
        for k in 0..nops {
            let kind = if k == 0 { 0 } else if k == 1 { 1 } else { rng.below(14) };
            tick_global(&format!("LinkageHeap op sequence so far {:?}, next op kind {}", ops, kind));
            let idx = |rng: &mut Rng, len: u64| -> u64 { if rng.below(12) == 0 { len + rng.below(2) } else { rng.below(len.max(1)) } };
            let (op, res): (Vec<i128>, Vec<i128>) = match kind {
                0 => { len = rng.below(if thorough { 20 } else { 11 }); h.reset(len as usize); (vec![0, len as i128], vec![0]) }
                1 => {
                    let nv = if rng.below(4) == 0 { rng.below(len + 1) } else { len };
                    let vals: Vec<f64> = (0..nv).map(|_| val(rng)).collect();
                    let mut op: Vec<i128> = vec![1]; op.extend(vals.iter().map(|v| v.to_bits() as i128));
                    (op, pk(catch(|| { h.heapify(|d| { for (i, v) in vals.iter().enumerate() { if i < d.len() { d[i] = *v; } } }); vec![0] })))
                }
                2..=4 => (vec![2], pk(catch(|| match h.pop() { Some(x) => vec![0, 1, x as i128], None => vec![0, 0] }))),
                5 | 6 => (vec![3], pk(catch(|| match h.peek() { Some(x) => vec![0, 1, x as i128], None => vec![0, 0] }))),
                7 | 8 => { let o = idx(rng, len); (vec![4, o as i128], pk(catch(|| vec![0, h.priority(o as usize).to_bits() as i128]))) }
                9..=12 => { let o = idx(rng, len); let v = val(rng); (vec![5, o as i128, v.to_bits() as i128], pk(catch(|| { h.set_priority(o as usize, v); vec![0] }))) }
                _ => (vec![6], vec![0, h.len() as i128]),
            };
            let panicked = res.first() == Some(&1);
            ops.push(op); out.extend(res); out.push(-1);
            // a panic may leave the component half-updated: the sequence ends there
            if panicked { break; }
        }
        (ops, out)
    }
}

pub fn stream_comp(opt: &HashMap<String, String>) -> i32 {
    let seed = opt_u64(opt, "seed", 1);
    let thorough = opt_str(opt, "tier", "quick") == "thorough";
    let count = opt_u64(opt, "count", if thorough { 3000 } else { 600 }) as usize;
    let shards = opt_u64(opt, "shards", 16) as usize;
    let dir = opt_str(opt, "out", "build/streams");
    let mut rng = Rng::new(seed.wrapping_mul(0x1000_0001).wrapping_add(37));
    let mut sh = Shards::new(dir, "comp", shards);
    let mut hist_kind = BTreeMap::new(); let mut hist_out = BTreeMap::new();
    let mut distinct = HashSet::new();
    let mut samples: Vec<String> = vec![];
    #[cfg(kodama_verif)]
    for i in 0..count {
        let (name, (ops, out)) = match i % 3 {
            0 => ("activeops", real::active_seq(&mut rng, thorough)),
            1 => ("ufops", real::uf_seq(&mut rng, thorough)),
            _ => ("heapops", real::heap_seq(&mut rng, thorough)),
        };
        tick_global(&format!("component sequence {} #{}", name, i));
        let coq = format!("{} [{}]", name, ops.iter().map(|o| format!("[{}]", join(o, ";"))).collect::<Vec<_>>().join(";"));
        sh.add(&format!("q{}", i), ops.len() as u64, coq.clone(), &out);
        bump(&mut hist_kind, name);
        let mut j = 0;
        for o in &ops {
            let mut k = j; while out[k] != -1 { k += 1; }
            bump(&mut hist_out, &format!("{}:{}:{}", name, o[0], if out[j] == 0 { "ok".to_string() } else { format!("panic{}", out.get(j + 1).unwrap_or(&0)) }));
            j = k + 1;
        }
        distinct.insert(hash64(&ops.iter().flat_map(|o| o.iter().map(|&x| x as u64).collect::<Vec<_>>()).collect::<Vec<_>>()));
        if samples.len() < 3 && ops.len() <= 8 { samples.push(format!("{} -> {}", coq, join(&out, " "))); }
    }
    #[cfg(not(kodama_verif))]
    { let _ = (&mut rng, count, thorough); eprintln!("comp stream needs --cfg kodama_verif"); return 3; }
    sh.write(HEADER);
    let meta = format!(
        "{{\"stream\":\"comp\",\"profile\":{},\"seed\":{},\"evaluations\":{},\"distinct\":{},\"distinct_nontrivial\":{},\"kinds\":{},\"op_outcomes\":{},\"samples\":[{}]}}",
        json_str(profile_name()), seed, count, distinct.len(), distinct.len(), json_hist(&hist_kind), json_hist(&hist_out),
        samples.iter().map(|s| json_str(s)).collect::<Vec<_>>().join(","));
    std::fs::write(format!("{}/comp_{}_meta.json", dir, profile_name()), meta).unwrap();
    0
}
