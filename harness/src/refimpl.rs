//! Independently written reference: naive Lance-Williams clustering on a full
//! square matrix in f64 (alpha/beta/gamma form), replay of returned
//! dendrograms, direct cluster criteria from the original matrix.
use crate::common::*;

#[derive(Clone)]
pub struct Full { pub n: usize, pub d: Vec<f64> }   // (2n-1) x (2n-1) over labels

impl Full {
    pub fn new(n: usize, cond: &[f64], squared: bool) -> Full {
        let w = 2 * n.max(1) - 1;
        let mut d = vec![f64::NAN; w * w];
        let mut k = 0;
        for i in 0..n { for j in i + 1..n {
            let v = if squared { cond[k] * cond[k] } else { cond[k] };
            d[i * w + j] = v; d[j * w + i] = v; k += 1;
        }}
        Full { n, d }
    }
    fn w(&self) -> usize { 2 * self.n.max(1) - 1 }
    pub fn get(&self, a: usize, b: usize) -> f64 { self.d[a * self.w() + b] }
    pub fn set(&mut self, a: usize, b: usize, v: f64) { let w = self.w(); self.d[a * w + b] = v; self.d[b * w + a] = v; }
}

/// d(k, i u j) = ai d(k,i) + aj d(k,j) + beta d(i,j) + gamma |d(k,i) - d(k,j)|
pub fn lw(method: u8, dki: f64, dkj: f64, dij: f64, ni: f64, nj: f64, nk: f64) -> f64 {
    // single / complete: the Lance-Williams coefficients (1/2, 1/2, 0, -+1/2) are min / max; computed
    // as such so that the reference does not overflow on entries next to the largest finite value
    if method == 0 { return dki.min(dkj); }
    if method == 1 { return dki.max(dkj); }
    let (ai, aj, beta, gamma) = match method {
        0 => (0.5, 0.5, 0.0, -0.5),
        1 => (0.5, 0.5, 0.0, 0.5),
        2 => (ni / (ni + nj), nj / (ni + nj), 0.0, 0.0),
        3 => (0.5, 0.5, 0.0, 0.0),
        4 => ((ni + nk) / (ni + nj + nk), (nj + nk) / (ni + nj + nk), -nk / (ni + nj + nk), 0.0),
        5 => (ni / (ni + nj), nj / (ni + nj), -(ni * nj) / ((ni + nj) * (ni + nj)), 0.0),
        _ => (0.5, 0.5, -0.25, 0.0),
    };
    ai * dki + aj * dkj + beta * dij + gamma * (dki - dkj).abs()
}

pub struct Replay {
    pub full: Full,
    pub live: Vec<usize>,          // live labels
    pub size: Vec<usize>,          // size by label
    pub members: Vec<Vec<usize>>,  // observations by label
    pub next: usize,
}

impl Replay {
    pub fn new(n: usize, cond: &[f64], method: u8) -> Replay {
        let mut size = vec![1usize; 2 * n.max(1) - 1];
        for s in size.iter_mut().skip(n) { *s = 0; }
        let mut members: Vec<Vec<usize>> = (0..2 * n.max(1) - 1).map(|_| vec![]).collect();
        for i in 0..n { members[i] = vec![i]; }
        Replay { full: Full::new(n, cond, on_squares(method)), live: (0..n).collect(), size, members, next: n }
    }
    pub fn is_live(&self, l: usize) -> bool { self.live.contains(&l) }
    /// smallest and second smallest current dissimilarity (over live pairs)
    pub fn min2(&self) -> (f64, f64, (usize, usize)) {
        let (mut m1, mut m2, mut arg) = (f64::INFINITY, f64::INFINITY, (0, 0));
        for (x, &a) in self.live.iter().enumerate() { for &b in &self.live[x + 1..] {
            let v = self.full.get(a, b);
            if v < m1 { m2 = m1; m1 = v; arg = (a, b); } else if v < m2 { m2 = v; }
        }}
        (m1, m2, arg)
    }
    pub fn merge(&mut self, method: u8, a: usize, b: usize) -> usize {
        let new = self.next;
        let dab = self.full.get(a, b);
        let (na, nb) = (self.size[a] as f64, self.size[b] as f64);
        let others: Vec<usize> = self.live.iter().cloned().filter(|&x| x != a && x != b).collect();
        for &k in &others {
            let v = lw(method, self.full.get(k, a), self.full.get(k, b), dab, na, nb, self.size[k] as f64);
            self.full.set(k, new, v);
        }
        self.size[new] = self.size[a] + self.size[b];
        let mut m = self.members[a].clone(); m.extend_from_slice(&self.members[b]); m.sort();
        self.members[new] = m;
        self.live = others; self.live.push(new);
        self.next += 1;
        new
    }
}

/// Naive reference clustering (global minimum each step, first in label order).
/// Returns steps (a, b, height, size) in merge order plus the smallest
/// certified margin: min over steps of (second smallest - smallest).
pub fn reference(n: usize, cond: &[f64], method: u8) -> (Vec<(usize, usize, f64, usize)>, f64) {
    let mut r = Replay::new(n, cond, method);
    let mut steps = vec![];
    let mut margin = f64::INFINITY;
    for _ in 1..n {
        let (m1, m2, (a, b)) = r.min2();
        if m2 - m1 < margin { margin = m2 - m1; }
        let new = r.merge(method, a, b);
        steps.push((a.min(b), a.max(b), m1, r.size[new]));
    }
    (steps, margin)
}

/// Direct criterion from the ORIGINAL matrix for methods where it is a closed
/// form over cross pairs (single, complete, average, centroid^2, ward^2).
pub fn direct_criterion(n: usize, cond: &[f64], method: u8, a: &[usize], b: &[usize]) -> Option<f64> {
    let at = |i: usize, j: usize| -> f64 {
        if i == j { return 0.0; }
        let (r, c) = if i < j { (i, j) } else { (j, i) };
        cond[(2 * n - r - 3) * r / 2 + c - 1]
    };
    let cross = |f: &dyn Fn(f64) -> f64| -> Vec<f64> { let mut v = vec![]; for &i in a { for &j in b { v.push(f(at(i, j))); } } v };
    match method {
        0 => Some(cross(&|x| x).into_iter().fold(f64::INFINITY, f64::min)),
        1 => Some(cross(&|x| x).into_iter().fold(f64::NEG_INFINITY, f64::max)),
        2 => { let v = cross(&|x| x); Some(v.iter().sum::<f64>() / v.len() as f64) }
        4 | 5 => {
            let (na, nb) = (a.len() as f64, b.len() as f64);
            let sab: f64 = cross(&|x| x * x).iter().sum();
            let mut saa = 0.0; for &i in a { for &j in a { saa += at(i, j) * at(i, j); } }
            let mut sbb = 0.0; for &i in b { for &j in b { sbb += at(i, j) * at(i, j); } }
            let cen = sab / (na * nb) - saa / (2.0 * na * na) - sbb / (2.0 * nb * nb);
            Some(if method == 5 { cen } else { 2.0 * na * nb / (na + nb) * cen })
        }
        _ => None,
    }
}
