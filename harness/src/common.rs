//! Shared pieces: PRNG, float bit conversion, panic capture, run of the real
//! entry points, canonical token rendering.
use std::cell::RefCell;
use std::panic::{self, AssertUnwindSafe};

use kodama::{Dendrogram, Float, LinkageState, Method, MethodChain};

// ---------------------------------------------------------------- PRNG
#[derive(Clone)]
pub struct Rng(pub u64);
impl Rng {
    pub fn new(seed: u64) -> Rng {
        Rng(seed ^ 0x9E37_79B9_7F4A_7C15)
    }
    pub fn next(&mut self) -> u64 {
        // splitmix64
        self.0 = self.0.wrapping_add(0x9E37_79B9_7F4A_7C15);
        let mut z = self.0;
        z = (z ^ (z >> 30)).wrapping_mul(0xBF58_476D_1CE4_E5B9);
        z = (z ^ (z >> 27)).wrapping_mul(0x94D0_49BB_1331_11EB);
        z ^ (z >> 31)
    }
    pub fn below(&mut self, n: u64) -> u64 {
        if n == 0 { 0 } else { self.next() % n }
    }
    pub fn range(&mut self, lo: u64, hi: u64) -> u64 {
        lo + self.below(hi - lo + 1)
    }
    pub fn unit(&mut self) -> f64 {
        (self.next() >> 11) as f64 / (1u64 << 53) as f64
    }
    pub fn fork(&mut self) -> Rng {
        Rng(self.next())
    }
}

// ---------------------------------------------------------------- floats
pub trait Bits: Float + std::fmt::Debug + Send + 'static {
    const WIDE: bool;
    fn from_bits64(b: u64) -> Self;
    fn to_bits64(self) -> u64; // NaN canonicalised
    fn from_f64(v: f64) -> Self;
    fn as_f64(self) -> f64;
}
impl Bits for f64 {
    const WIDE: bool = true;
    fn from_bits64(b: u64) -> f64 { f64::from_bits(b) }
    fn to_bits64(self) -> u64 {
        if self.is_nan() { 0x7ff8_0000_0000_0000 } else { self.to_bits() }
    }
    fn from_f64(v: f64) -> f64 { v }
    fn as_f64(self) -> f64 { self }
}
impl Bits for f32 {
    const WIDE: bool = false;
    fn from_bits64(b: u64) -> f32 { f32::from_bits(b as u32) }
    fn to_bits64(self) -> u64 {
        if self.is_nan() { 0x7fc0_0000 } else { self.to_bits() as u64 }
    }
    fn from_f64(v: f64) -> f32 { v as f32 }
    fn as_f64(self) -> f64 { self as f64 }
}

// ---------------------------------------------------------------- panics
thread_local! {
    static LAST_PANIC: RefCell<String> = RefCell::new(String::new());
}

pub fn install_panic_hook() {
    panic::set_hook(Box::new(|info| {
        let msg = if let Some(s) = info.payload().downcast_ref::<&str>() {
            s.to_string()
        } else if let Some(s) = info.payload().downcast_ref::<String>() {
            s.clone()
        } else {
            "?".to_string()
        };
        LAST_PANIC.with(|p| *p.borrow_mut() = msg);
    }));
}

pub fn last_panic() -> String { LAST_PANIC.with(|p| p.borrow().clone()) }

/// Panic classes shared with the model (Render.v panic_code).
pub fn classify_panic(msg: &str) -> u64 {
    if msg.contains("capacity overflow") { 6 }
    else if msg.contains("NaNs not allowed") { 4 }
    else if msg.contains("with overflow") { 5 }
    else if msg.contains("index out of bounds") || msg.contains("out of range") { 1 }
    else if msg.contains("assertion") { 2 }
    else if msg.contains("Option::unwrap()") || msg.contains("at least one active") { 3 }
    else { 9 }
}

pub fn catch<R>(f: impl FnOnce() -> R) -> Result<R, (u64, String)> {
    LAST_PANIC.with(|p| p.borrow_mut().clear());
    match panic::catch_unwind(AssertUnwindSafe(f)) {
        Ok(r) => Ok(r),
        Err(_) => {
            let msg = LAST_PANIC.with(|p| p.borrow().clone());
            Err((classify_panic(&msg), msg))
        }
    }
}

// ---------------------------------------------------------------- entry points
pub const METHODS: [Method; 7] = [
    Method::Single, Method::Complete, Method::Average, Method::Weighted,
    Method::Ward, Method::Centroid, Method::Median,
];
pub const METHOD_NAMES: [&str; 7] =
    ["single", "complete", "average", "weighted", "ward", "centroid", "median"];
pub const ALGO_NAMES: [&str; 5] = ["linkage", "mst", "nnchain", "generic", "primitive"];

pub fn accepts(algo: u8, method: u8) -> bool {
    match algo {
        1 => method == 0,
        2 => method <= 4,
        _ => true,
    }
}
pub fn on_squares(method: u8) -> bool { method >= 4 }
pub fn sorts(method: u8) -> bool { method <= 4 }

fn chain_of(m: u8) -> MethodChain {
    match m {
        0 => MethodChain::Single, 1 => MethodChain::Complete, 2 => MethodChain::Average,
        3 => MethodChain::Weighted, 4 => MethodChain::Ward,
        _ => panic!("harness: not a chain method"),
    }
}

/// Call the allocating wrapper.
pub fn call_fresh<T: Bits>(algo: u8, method: u8, m: &mut [T], n: usize) -> Dendrogram<T> {
    let me = METHODS[method as usize];
    match algo {
        0 => kodama::linkage(m, n, me),
        1 => kodama::mst(m, n),
        2 => kodama::nnchain(m, n, chain_of(method)),
        3 => kodama::generic(m, n, me),
        _ => kodama::primitive(m, n, me),
    }
}

/// Call the `_with` form.
pub fn call_with<T: Bits>(
    algo: u8, method: u8, st: &mut LinkageState<T>, m: &mut [T], n: usize,
    d: &mut Dendrogram<T>,
) {
    let me = METHODS[method as usize];
    match algo {
        0 => kodama::linkage_with(st, m, n, me, d),
        1 => kodama::mst_with(st, m, n, d),
        2 => kodama::nnchain_with(st, m, n, chain_of(method), d),
        3 => kodama::generic_with(st, m, n, me, d),
        _ => kodama::primitive_with(st, m, n, me, d),
    }
}

// ---------------------------------------------------------------- outcomes
#[derive(Clone, Debug, PartialEq)]
pub struct StepB { pub c1: usize, pub c2: usize, pub bits: u64, pub size: usize }

#[derive(Clone, Debug, PartialEq)]
pub enum Outcome {
    Ok { obs: usize, steps: Vec<StepB>, after: Vec<u64>, acc: u64 },
    Panic(u64, String),
}

pub fn steps_of<T: Bits>(d: &Dendrogram<T>) -> Vec<StepB> {
    d.steps().iter().map(|s| StepB {
        c1: s.cluster1, c2: s.cluster2, bits: s.dissimilarity.to_bits64(), size: s.size,
    }).collect()
}

#[cfg(kodama_verif)]
pub fn acc_reset() { kodama::verif::reset_access_count(); }
#[cfg(kodama_verif)]
pub fn acc_get() -> u64 { kodama::verif::access_count() }
#[cfg(not(kodama_verif))]
pub fn acc_reset() {}
#[cfg(not(kodama_verif))]
pub fn acc_get() -> u64 { 0 }

pub fn describe_call(kind: &str, wide: bool, algo: u8, method: u8, n: u64, bits: &[u64]) -> String {
    let b = if bits.len() <= 300 { coq_list(bits) } else { format!("({} entries, hash {:x})", bits.len(), hash64(bits)) };
    format!("{} {} {} {} n={} bits={}", kind, ALGO_NAMES[algo as usize], METHOD_NAMES[method as usize], if wide { "f64" } else { "f32" }, n, b)
}

pub fn run_fresh<T: Bits>(algo: u8, method: u8, n: u64, bits: &[u64]) -> Outcome {
    tick_global(&describe_call("fresh call", T::WIDE, algo, method, n, bits));
    let mut m: Vec<T> = bits.iter().map(|&b| T::from_bits64(b)).collect();
    acc_reset();
    let r = catch(|| call_fresh::<T>(algo, method, &mut m, n as usize));
    let acc = acc_get();
    match r {
        Ok(d) => Outcome::Ok {
            obs: d.observations(), steps: steps_of(&d),
            after: m.iter().map(|x| x.to_bits64()).collect(), acc,
        },
        Err((c, msg)) => Outcome::Panic(c, msg),
    }
}

pub fn run_fresh_w(wide: bool, algo: u8, method: u8, n: u64, bits: &[u64]) -> Outcome {
    if wide { run_fresh::<f64>(algo, method, n, bits) } else { run_fresh::<f32>(algo, method, n, bits) }
}

/// Token stream, identical in layout to Render.v render_run.
pub fn tokens(o: &Outcome) -> Vec<i128> {
    match o {
        Outcome::Ok { obs, steps, after, .. } => {
            let mut t: Vec<i128> = vec![0, *obs as i128, steps.len() as i128];
            for s in steps {
                t.extend_from_slice(&[s.c1 as i128, s.c2 as i128, s.bits as i128, s.size as i128]);
            }
            t.push(after.len() as i128);
            t.extend(after.iter().map(|&b| b as i128));
            t
        }
        Outcome::Panic(c, _) => vec![1, *c as i128],
    }
}

pub fn join<T: std::fmt::Display>(v: &[T], sep: &str) -> String {
    v.iter().map(|x| x.to_string()).collect::<Vec<_>>().join(sep)
}

pub fn coq_list(v: &[u64]) -> String {
    format!("[{}]", join(v, ";"))
}

pub fn pairs(n: usize) -> Vec<(usize, usize)> {
    let mut v = Vec::with_capacity(n * n.saturating_sub(1) / 2);
    for i in 0..n { for j in i + 1..n { v.push((i, j)); } }
    v
}

pub fn hash64(data: &[u64]) -> u64 {
    let mut h: u64 = 0xcbf29ce484222325;
    for &d in data {
        for k in 0..8 {
            h ^= (d >> (8 * k)) & 0xff;
            h = h.wrapping_mul(0x100000001b3);
        }
    }
    h
}

// ---------------------------------------------------------------- hang watchdog
use std::sync::Mutex;
use std::time::Instant;
pub static PROGRESS: Mutex<Option<(Instant, String)>> = Mutex::new(None);
/// record what is about to run; the main thread aborts the process when this
/// goes stale (the implementation hangs)
pub fn tick_global(what: &str) {
    if let Ok(mut g) = PROGRESS.lock() { *g = Some((Instant::now(), what.to_string())); }
}
