//! Counting global allocator and the allocation-trace stream (C20).
use std::alloc::{GlobalAlloc, Layout, System};
use std::collections::{BTreeMap, HashMap, HashSet};
use std::sync::atomic::{AtomicBool, AtomicU64, AtomicUsize, Ordering};

use kodama::{Dendrogram, LinkageState};

use crate::common::*;
use crate::gen::*;
use crate::streams::*;

const MAXEV: usize = 8192;
static ENABLED: AtomicBool = AtomicBool::new(false);
static NEV: AtomicUsize = AtomicUsize::new(0);
static CUR: AtomicU64 = AtomicU64::new(0);
static PEAK: AtomicU64 = AtomicU64::new(0);
#[allow(clippy::declare_interior_mutable_const)]
const ZERO: AtomicU64 = AtomicU64::new(0);
static EVENTS: [AtomicU64; MAXEV] = [ZERO; MAXEV];

pub struct Counting;

fn record(size: usize) {
    let i = NEV.fetch_add(1, Ordering::SeqCst);
    if i < MAXEV { EVENTS[i].store(size as u64, Ordering::SeqCst); }
}
fn bump(delta: i64) {
    let c = if delta >= 0 { CUR.fetch_add(delta as u64, Ordering::SeqCst) + delta as u64 } else { CUR.fetch_sub((-delta) as u64, Ordering::SeqCst) - (-delta) as u64 };
    PEAK.fetch_max(c, Ordering::SeqCst);
}

unsafe impl GlobalAlloc for Counting {
    unsafe fn alloc(&self, l: Layout) -> *mut u8 {
        if ENABLED.load(Ordering::SeqCst) { record(l.size()); bump(l.size() as i64); }
        System.alloc(l)
    }
    unsafe fn alloc_zeroed(&self, l: Layout) -> *mut u8 {
        if ENABLED.load(Ordering::SeqCst) { record(l.size()); bump(l.size() as i64); }
        System.alloc_zeroed(l)
    }
    unsafe fn dealloc(&self, p: *mut u8, l: Layout) {
        if ENABLED.load(Ordering::SeqCst) { bump(-(l.size() as i64)); }
        System.dealloc(p, l)
    }
    unsafe fn realloc(&self, p: *mut u8, l: Layout, new: usize) -> *mut u8 {
        if ENABLED.load(Ordering::SeqCst) { record(new); bump(new as i64 - l.size() as i64); }
        System.realloc(p, l, new)
    }
}

pub fn start() {
    NEV.store(0, Ordering::SeqCst); CUR.store(0, Ordering::SeqCst); PEAK.store(0, Ordering::SeqCst);
    ENABLED.store(true, Ordering::SeqCst);
}
/// (allocation request sizes in order, peak live bytes)
pub fn stop() -> (Vec<u64>, u64) {
    ENABLED.store(false, Ordering::SeqCst);
    let n = NEV.load(Ordering::SeqCst).min(MAXEV);
    ((0..n).map(|i| EVENTS[i].load(Ordering::SeqCst)).collect(), PEAK.load(Ordering::SeqCst))
}

pub struct AllocCall { pub algo: u8, pub method: u8, pub n: u64, pub family: &'static str }

fn run_hist<T: Bits>(rng: &mut Rng, calls: &[AllocCall], cold: bool) -> Vec<(Vec<u64>, u64, bool)> {
    let mut st: LinkageState<T> = LinkageState::new();
    let mut d: Dendrogram<T> = Dendrogram::new(0);
    let mut out = vec![];
    for c in calls {
        let v = matrix_f64(rng, c.n as usize, c.family, T::WIDE);
        tick_global(&format!("alloc stream {} {} n={} family={}", ALGO_NAMES[c.algo as usize], METHOD_NAMES[c.method as usize], c.n, c.family));
        let mut m: Vec<T> = v.iter().map(|&x| T::from_f64(x)).collect();
        if cold {
            start();
            let r = catch(|| call_fresh::<T>(c.algo, c.method, &mut m, c.n as usize));
            let (ev, peak) = stop();
            out.push((ev, peak, r.is_ok()));
        } else {
            start();
            let r = catch(|| call_with::<T>(c.algo, c.method, &mut st, &mut m, c.n as usize, &mut d));
            let (ev, peak) = stop();
            out.push((ev, peak, r.is_ok()));
        }
    }
    out
}

/// alloc stream: cold calls and warm histories; tokens per call: sizes..., -2, peak (cold only), -1
pub fn stream_alloc(opt: &HashMap<String, String>) -> i32 {
    let seed = opt_u64(opt, "seed", 1);
    let thorough = opt_str(opt, "tier", "quick") == "thorough";
    let count = opt_u64(opt, "count", if thorough { 500 } else { 160 }) as usize;
    let shards = opt_u64(opt, "shards", 8) as usize;
    let dir = opt_str(opt, "out", "build/streams");
    let mut rng = Rng::new(seed.wrapping_mul(0x1000_0001).wrapping_add(29));
    let mut sh = Shards::new(dir, "alloc", shards);
    let mut hist_n = BTreeMap::new(); let mut hist_kind = BTreeMap::new(); let mut hist_allocs = BTreeMap::new();
    let mut distinct = HashSet::new(); let mut nontrivial = HashSet::new();
    let mut samples: Vec<String> = vec![];
    let mut worst_cold = 0.0f64; let mut worst_warm_allocs = 0usize; let mut worst_warm_bytes = 0.0f64;
    let mut violations: Vec<String> = vec![];
    let specials: [u64; 26] = [0, 1, 2, 3, 4, 5, 8, 9, 20, 21, 22, 64, 100, 128, 129, 130, 131, 200, 257, 500, 513, 600, 1000, 1025, 2050, 3000];
    let big = if thorough { 3000 } else { 1000 };
    for i in 0..count {
        let wide = rng.below(2) == 0;
        let cold = i % 3 == 0;
        let len = if cold { 1 } else { rng.range(2, if thorough { 8 } else { 5 }) };
        let mut calls: Vec<AllocCall> = vec![];
        for _ in 0..len {
            let algo = rng.below(5) as u8;
            let method = loop { let m = rng.below(7) as u8; if accepts(algo, m) { break m; } };
            let cap = if algo == 4 { 150 } else { big };
            let n = if rng.below(3) == 0 { specials[rng.below(26) as usize].min(cap) } else { rng.range(0, cap.min(400)) };
            let fam = ["uniform", "lattice", "collinear", "sorted", "revsorted", "duppoints", "rampdips", "rampdips", "tiechain"][rng.below(9) as usize];
            calls.push(AllocCall { algo, method, n, family: fam });
        }
        if !cold && i % 20 == 1 {
            // dedicated warm histories on long, nearly sorted merge sequences (adaptive paths of
            // the step ordering only show at hundreds of steps), through the entry points
            // whose raw merge order is not sorted
            calls.clear();
            calls.push(AllocCall { algo: 1, method: 0, n: 1100, family: "uniform" });
            for k in 0..6u64 {
                let (algo, method) = [(1u8, 0u8), (2, 0), (0, 0), (2, 1), (0, 2), (2, 4)][((i / 20) as usize + k as usize) % 6];
                let n = [600u64, 513, 1000, 777, 1100, 530][k as usize];
                calls.push(AllocCall { algo, method, n, family: if k % 3 == 2 { "sorted" } else { "rampdips" } });
            }
        }
        if !cold && i % 20 == 2 {
            // a long history of the same warm call (a caller clustering many matrices in a loop):
            // anything that accumulates from call to call needs dozens of calls to show
            calls.clear();
            let (algo, method) = [(1u8, 0u8), (2, 1), (3, 5), (0, 2), (4, 3), (2, 4), (0, 0), (3, 0)][(i / 20) % 8];
            let n = if algo == 4 { 20 } else { [50u64, 24, 70][(i / 20) % 3] };
            for _ in 0..(if thorough { 530 } else { 270 }) { calls.push(AllocCall { algo, method, n, family: "uniform" }); }
        }
        if !cold && i % 20 == 3 {
            // sizes beyond 2048 steps also in the quick tier (the random sizes stop at `big`): warm
            // calls after a larger one, through the entry points that are at most quadratic
            calls.clear();
            calls.push(AllocCall { algo: 1, method: 0, n: 2600, family: "uniform" });
            for k in 0..5u64 {
                let (algo, method) = [(1u8, 0u8), (2, 0), (0, 4), (2, 1), (0, 5), (3, 6), (0, 2)][((i / 20) as usize + k as usize) % 7];
                let n = [2050u64, 2051, 2049, 2300, 2600][k as usize];
                calls.push(AllocCall { algo, method, n, family: if k % 2 == 0 { "uniform" } else { "rampdips" } });
            }
        }
        let outs = if wide { run_hist::<f64>(&mut rng, &calls, cold) } else { run_hist::<f32>(&mut rng, &calls, cold) };
        let mut exp: Vec<i128> = vec![];
        let mut maxn_seen = 0u64;
        for (c, (ev, peak, ok)) in calls.iter().zip(&outs) {
            exp.extend(ev.iter().map(|&x| x as i128));
            exp.push(-2);
            if cold { exp.push(*peak as i128); }
            exp.push(-1);
            crate::streams::bump(&mut hist_n, &format!("{:04}", (c.n / 50) * 50));
            crate::streams::bump(&mut hist_kind, if cold { "cold" } else if c.n <= maxn_seen { "warm" } else { "growing" });
            crate::streams::bump(&mut hist_allocs, &format!("{:02}", ev.len().min(20)));
            // the property itself, on the real allocator
            if !ok { violations.push(format!("call panicked: {} n={}", ALGO_NAMES[c.algo as usize], c.n)); }
            if cold {
                let bound = 512 * c.n + 4096;
                worst_cold = worst_cold.max(*peak as f64 / bound as f64);
                if *peak > bound { violations.push(format!("C20 cold peak {} bytes > 512n+4096 = {} :: {} {} {} n={}", peak, bound, ALGO_NAMES[c.algo as usize], METHOD_NAMES[c.method as usize], if wide { "f64" } else { "f32" }, c.n)); }
            } else if c.n <= maxn_seen && maxn_seen >= 2 {
                let total: u64 = ev.iter().sum();
                worst_warm_allocs = worst_warm_allocs.max(ev.len());
                worst_warm_bytes = worst_warm_bytes.max(total as f64 / (64 * c.n + 1024) as f64);
                if ev.len() > 1 || total > 64 * c.n + 1024 {
                    violations.push(format!("C20 warm call performs {} allocations ({} bytes; allowed 1, {} bytes) :: {}_with {} {} n={} family={} after sizes up to {}",
                        ev.len(), total, 64 * c.n + 1024, ALGO_NAMES[c.algo as usize], METHOD_NAMES[c.method as usize], if wide { "f64" } else { "f32" }, c.n, c.family, maxn_seen));
                }
            }
            if !cold { maxn_seen = maxn_seen.max(c.n); }
        }
        let coq = format!("allochist {} {} [{}]", if wide { 8 } else { 4 }, if cold { 1 } else { 0 },
            calls.iter().map(|c| format!("({},{})", c.n, if c.algo == 1 || sorts(c.method) { 1 } else { 0 })).collect::<Vec<_>>().join(";"));
        sh.add(&format!("m{}", i), calls.iter().map(|c| c.n).sum::<u64>() + 1, coq.clone(), &exp);
        let k = hash64(&calls.iter().flat_map(|c| vec![c.algo as u64, c.method as u64, c.n, wide as u64, cold as u64]).collect::<Vec<_>>());
        distinct.insert(k);
        if calls.iter().any(|c| c.n >= 3) { nontrivial.insert(k); }
        if samples.len() < 3 && calls.iter().all(|c| c.n < 300) && (i % 7 == 1 || i == 0) { samples.push(format!("{} -> {}", coq, join(&exp, " "))); }
    }
    sh.write(HEADER);
    let meta = format!(
        "{{\"stream\":\"alloc\",\"profile\":{},\"seed\":{},\"evaluations\":{},\"distinct\":{},\"distinct_nontrivial\":{},\"sizes\":{},\"kinds\":{},\"allocations_per_call\":{},\"worst_cold_peak_over_bound\":{:.4},\"worst_warm_allocs\":{},\"worst_warm_bytes_over_bound\":{:.4},\"violations\":[{}],\"samples\":[{}]}}",
        json_str(profile_name()), seed, count, distinct.len(), nontrivial.len(), json_hist(&hist_n), json_hist(&hist_kind), json_hist(&hist_allocs),
        worst_cold, worst_warm_allocs, worst_warm_bytes,
        violations.iter().take(20).map(|s| json_str(s)).collect::<Vec<_>>().join(","),
        samples.iter().map(|s| json_str(s)).collect::<Vec<_>>().join(","));
    std::fs::write(format!("{}/alloc_{}_meta.json", dir, profile_name()), meta).unwrap();
    0
}
