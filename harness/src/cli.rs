//! Expected behaviour of the `locations` tool, computed sequentially with the
//! same formula: Haversine matrix in row-major upper-triangle order, then
//! `linkage`.
use std::collections::HashMap;
use std::io::Write;

use crate::common::*;
use crate::streams::{opt_str};

fn haversine(a: (f64, f64), b: (f64, f64)) -> f64 {
    const EARTH_RADIUS: f64 = 3958.756;
    let (lat1, lon1, lat2, lon2) = (a.0.to_radians(), a.1.to_radians(), b.0.to_radians(), b.1.to_radians());
    let delta_lat = lat2 - lat1;
    let delta_lon = lon2 - lon1;
    let x = (delta_lat / 2.0).sin().powi(2) + lat1.cos() * lat2.cos() * (delta_lon / 2.0).sin().powi(2);
    2.0 * EARTH_RADIUS * x.sqrt().atan()
}

/// minimal CSV reader for City,Region,Country,Latitude,Longitude without quoted commas
fn read_coords(path: &str) -> Vec<(f64, f64)> {
    let s = std::fs::read_to_string(path).expect("csv");
    let mut out = vec![];
    for (i, line) in s.lines().enumerate() {
        if i == 0 || line.trim().is_empty() { continue; }
        let f: Vec<&str> = line.split(',').collect();
        let n = f.len();
        out.push((f[n - 2].trim().parse::<f64>().expect("lat"), f[n - 1].trim().parse::<f64>().expect("lon")));
    }
    out
}

/// kvh cliexpect --csv F --method NAME [--save F2]
/// prints: "<n> <steps>" then one line per step "c1 c2 bits size"
pub fn run(opt: &HashMap<String, String>) -> i32 {
    let pts = read_coords(opt_str(opt, "csv", ""));
    let name = opt_str(opt, "method", "single");
    let method = match METHOD_NAMES.iter().position(|&m| m == name) { Some(k) => k as u8, None => { println!("invalid-method"); return 0; } };
    let n = pts.len();
    let mut m: Vec<f64> = Vec::with_capacity(n * n.saturating_sub(1) / 2);
    for i in 0..n { for j in i + 1..n { m.push(haversine(pts[i], pts[j])); } }
    if let Some(p) = opt.get("save") {
        let mut f = std::fs::File::create(p).unwrap();
        for x in &m { f.write_all(&x.to_bits().to_le_bytes()).unwrap(); }
    }
    let d = kodama::linkage(&mut m, n, METHODS[method as usize]);
    println!("{} {}", n, d.len());
    for s in d.steps() { println!("{} {} {} {}", s.cluster1, s.cluster2, s.dissimilarity.to_bits64(), s.size); }
    0
}
