//! Correspondence streams: generate cases, run the implementation, write the
//! same cases as Coq terms plus the expected token streams.
use std::collections::{BTreeMap, HashMap, HashSet};
use std::fs;
use std::io::Write;

use crate::common::*;
use crate::gen::*;

pub fn opt_u64(opt: &HashMap<String, String>, k: &str, d: u64) -> u64 {
    opt.get(k).map(|s| s.parse().expect("number")).unwrap_or(d)
}
pub fn opt_str<'a>(opt: &'a HashMap<String, String>, k: &str, d: &'a str) -> &'a str {
    opt.get(k).map(|s| s.as_str()).unwrap_or(d)
}

pub fn profile_code() -> u64 { if cfg!(debug_assertions) { 0 } else { 1 } }
pub fn profile_name() -> &'static str { if cfg!(debug_assertions) { "debug" } else { "release" } }

pub struct Shards {
    dir: String,
    stream: String,
    v: Vec<Vec<String>>,
    exp: Vec<Vec<String>>,
    load: Vec<u64>,
}

impl Shards {
    pub fn new(dir: &str, stream: &str, k: usize) -> Shards {
        Shards { dir: dir.to_string(), stream: stream.to_string(),
                 v: vec![vec![]; k], exp: vec![vec![]; k], load: vec![0; k] }
    }
    /// add a case to the least loaded shard
    pub fn add(&mut self, id: &str, cost: u64, coq: String, expected: &[i128]) {
        let k = (0..self.load.len()).min_by_key(|&i| self.load[i]).unwrap();
        self.load[k] += cost.max(1);
        self.v[k].push(format!("(* {} *) Eval vm_compute in {}.", id, coq));
        self.exp[k].push(format!("{} {}", id, join(expected, " ")));
    }
    pub fn write(&self, header: &str) {
        fs::create_dir_all(&self.dir).unwrap();
        for k in 0..self.v.len() {
            let base = format!("{}/{}_{}_{}", self.dir, self.stream, profile_name(), k);
            let mut f = fs::File::create(format!("{}.v", base)).unwrap();
            writeln!(f, "{}", header).unwrap();
            for l in &self.v[k] { writeln!(f, "{}", l).unwrap(); }
            let mut f = fs::File::create(format!("{}.exp", base)).unwrap();
            for l in &self.exp[k] { writeln!(f, "{}", l).unwrap(); }
        }
    }
}

pub fn json_str(s: &str) -> String {
    let mut o = String::from("\"");
    for c in s.chars() {
        match c {
            '"' => o.push_str("\\\""), '\\' => o.push_str("\\\\"),
            '\n' => o.push_str("\\n"), c if (c as u32) < 32 => o.push(' '),
            c => o.push(c),
        }
    }
    o.push('"');
    o
}

pub fn json_hist(h: &BTreeMap<String, u64>) -> String {
    let items: Vec<String> = h.iter().map(|(k, v)| format!("{}:{}", json_str(k), v)).collect();
    format!("{{{}}}", items.join(","))
}

pub fn bump(h: &mut BTreeMap<String, u64>, k: &str) { *h.entry(k.to_string()).or_insert(0) += 1; }

pub const HEADER: &str = "Require Import KV.Run.Cases.\nLocal Open Scope Z_scope.";

/// algo stream: in-domain fresh calls through the allocating wrappers.
pub fn stream_algo(opt: &HashMap<String, String>) -> i32 {
    let seed = opt_u64(opt, "seed", 1);
    let thorough = opt_str(opt, "tier", "quick") == "thorough";
    let count = opt_u64(opt, "count", if thorough { 2400 } else { 640 }) as usize;
    let shards = opt_u64(opt, "shards", 16) as usize;
    let dir = opt_str(opt, "out", "build/streams");
    let mut rng = Rng::new(seed.wrapping_mul(0x1000_0001).wrapping_add(11));
    let cases = algo_cases(&mut rng, count, thorough);
    let mut sh = Shards::new(dir, "algo", shards);
    let mut hist_fam = BTreeMap::new(); let mut hist_n = BTreeMap::new();
    let mut hist_m = BTreeMap::new(); let mut hist_a = BTreeMap::new();
    let mut hist_w = BTreeMap::new(); let mut hist_out = BTreeMap::new();
    let mut distinct = HashSet::new(); let mut nontrivial = HashSet::new();
    let mut ties = 0u64;
    let mut samples: Vec<String> = vec![];
    // heaviest first so that the greedy shard balancing works
    let mut order: Vec<usize> = (0..cases.len()).collect();
    order.sort_by_key(|&i| std::cmp::Reverse(cases[i].model_cost()));
    for &i in &order {
        let c = &cases[i];
        let out = run_fresh_w(c.wide, c.algo, c.method, c.n, &c.bits);
        let id = format!("a{}", i);
        let coq = format!("{} {} {} {} {} {}", if c.wide { "case64" } else { "case32" },
            profile_code(), c.algo, c.method, c.n, coq_list(&c.bits));
        sh.add(&id, c.model_cost(), coq, &tokens(&out));
        bump(&mut hist_fam, c.family); bump(&mut hist_n, &format!("{:02}", c.n));
        bump(&mut hist_m, METHOD_NAMES[c.method as usize]); bump(&mut hist_a, ALGO_NAMES[c.algo as usize]);
        bump(&mut hist_w, if c.wide { "f64" } else { "f32" });
        let ok = matches!(out, Outcome::Ok { .. });
        bump(&mut hist_out, if ok { "ok" } else { "panic" });
        distinct.insert(c.key());
        if ok && c.n >= 3 { nontrivial.insert(c.key()); }
        let mut s: Vec<u64> = c.bits.clone(); s.sort(); s.dedup();
        if s.len() < c.bits.len() { ties += 1; }
        if samples.len() < 4 && c.n >= 3 && c.n <= 5 { samples.push(format!("{} -> {}", c.describe(), join(&tokens(&out), " "))); }
    }
    sh.write(HEADER);
    let meta = format!(
        "{{\"stream\":\"algo\",\"profile\":{},\"seed\":{},\"evaluations\":{},\"distinct\":{},\"distinct_nontrivial\":{},\"with_ties\":{},\"families\":{},\"sizes\":{},\"methods\":{},\"algos\":{},\"widths\":{},\"outcomes\":{},\"samples\":[{}]}}",
        json_str(profile_name()), seed, cases.len(), distinct.len(), nontrivial.len(), ties,
        json_hist(&hist_fam), json_hist(&hist_n), json_hist(&hist_m), json_hist(&hist_a),
        json_hist(&hist_w), json_hist(&hist_out),
        samples.iter().map(|s| json_str(s)).collect::<Vec<_>>().join(","));
    fs::write(format!("{}/algo_{}_meta.json", dir, profile_name()), meta).unwrap();
    0
}

/// shape stream: malformed and boundary (len, n), every entry point.
pub fn stream_shape(opt: &HashMap<String, String>) -> i32 {
    let seed = opt_u64(opt, "seed", 1);
    let thorough = opt_str(opt, "tier", "quick") == "thorough";
    let count = opt_u64(opt, "count", if thorough { 1500 } else { 400 }) as usize;
    let shards = opt_u64(opt, "shards", 8) as usize;
    let dir = opt_str(opt, "out", "build/streams");
    let mut rng = Rng::new(seed.wrapping_mul(0x1000_0001).wrapping_add(13));
    let cases = shape_cases(&mut rng, count);
    let mut sh = Shards::new(dir, "shape", shards);
    let mut hist_out = BTreeMap::new();
    let mut distinct = HashSet::new();
    let mut malformed = HashSet::new();
    let mut samples: Vec<String> = vec![];
    for (i, c) in cases.iter().enumerate() {
        let vals: Vec<f64> = (0..c.len).map(|k| 1.0 + ((k * 7 + i) % 5) as f64).collect();
        let bits = to_bits(&vals, c.wide);
        let out = run_fresh_w(c.wide, c.algo, c.method, c.n, &bits);
        let id = format!("s{}", i);
        let coq = format!("{} {} {} {} {} {}", if c.wide { "case64" } else { "case32" },
            profile_code(), c.algo, c.method, c.n, coq_list(&bits));
        sh.add(&id, (c.len as u64 + 1) * 10, coq, &tokens(&out));
        let good = c.n < (1 << 32) && (c.n * c.n.saturating_sub(1) / 2) as usize == c.len;
        let label = match &out { Outcome::Ok { .. } => "ok".to_string(), Outcome::Panic(k, _) => format!("panic{}", k) };
        bump(&mut hist_out, &format!("{}:{}", if good { "wellformed" } else { "malformed" }, label));
        let key = hash64(&[c.algo as u64, c.method as u64, c.wide as u64, c.n, c.len as u64]);
        distinct.insert(key);
        if !good { malformed.insert(key); }
        if samples.len() < 5 && !good && i % 37 == 0 { samples.push(format!("{} {} n={} len={} -> {}", ALGO_NAMES[c.algo as usize], METHOD_NAMES[c.method as usize], c.n, c.len, label)); }
    }
    sh.write(HEADER);
    let meta = format!(
        "{{\"stream\":\"shape\",\"profile\":{},\"seed\":{},\"evaluations\":{},\"distinct\":{},\"distinct_nontrivial\":{},\"outcomes\":{},\"samples\":[{}]}}",
        json_str(profile_name()), seed, cases.len(), distinct.len(), malformed.len(), json_hist(&hist_out),
        samples.iter().map(|s| json_str(s)).collect::<Vec<_>>().join(","));
    fs::write(format!("{}/shape_{}_meta.json", dir, profile_name()), meta).unwrap();
    0
}

// ------------------------------------------------------------------ histories
use kodama::{Dendrogram, LinkageState};

pub fn run_history<T: Bits>(h: &History) -> Vec<Outcome> {
    let mut st: LinkageState<T> = LinkageState::new();
    let mut d: Dendrogram<T> = Dendrogram::new(0);
    let mut outs = Vec::new();
    for (k, c) in h.calls.iter().enumerate() {
        tick_global(&format!("call #{} of the reuse history {}", k, history_coq(h)));
        let mut m: Vec<T> = c.bits.iter().map(|&b| T::from_bits64(b)).collect();
        acc_reset();
        let r = catch(|| call_with::<T>(c.algo, c.method, &mut st, &mut m, c.n as usize, &mut d));
        let acc = acc_get();
        outs.push(match r {
            Ok(()) => Outcome::Ok { obs: d.observations(), steps: steps_of(&d),
                                    after: m.iter().map(|x| x.to_bits64()).collect(), acc },
            Err((k, msg)) => Outcome::Panic(k, msg),
        });
    }
    outs
}

pub fn history_coq(h: &History) -> String {
    let calls: Vec<String> = h.calls.iter().map(|c| format!("({},{},{},{})", c.algo, c.method, c.n, coq_list(&c.bits))).collect();
    format!("{} {} [{}]", if h.wide { "hist64" } else { "hist32" }, profile_code(), calls.join(";"))
}

pub fn history_tokens(outs: &[Outcome]) -> Vec<i128> {
    let mut t = Vec::new();
    for o in outs { t.extend(tokens(o)); t.push(-1); }
    t
}

pub fn stream_hist(opt: &HashMap<String, String>) -> i32 {
    let seed = opt_u64(opt, "seed", 1);
    let thorough = opt_str(opt, "tier", "quick") == "thorough";
    let count = opt_u64(opt, "count", if thorough { 1500 } else { 260 }) as usize;
    let shards = opt_u64(opt, "shards", 16) as usize;
    let dir = opt_str(opt, "out", "build/streams");
    let mut rng = Rng::new(seed.wrapping_mul(0x1000_0001).wrapping_add(17));
    let mut sh = Shards::new(dir, "hist", shards);
    let mut hist_kind = BTreeMap::new(); let mut hist_len = BTreeMap::new(); let mut hist_out = BTreeMap::new();
    let mut hist_shape = BTreeMap::new();
    let mut distinct = HashSet::new(); let mut nontrivial = HashSet::new();
    let mut samples: Vec<String> = vec![];
    let mut calls_total = 0u64;
    for i in 0..count {
        let h = history(&mut rng, thorough);
        let outs = if h.wide { run_history::<f64>(&h) } else { run_history::<f32>(&h) };
        let cost: u64 = h.calls.iter().map(|c| AlgoCase { algo: c.algo, method: c.method, wide: h.wide, n: c.n, bits: vec![], family: "" }.model_cost()).sum();
        sh.add(&format!("h{}", i), cost, history_coq(&h), &history_tokens(&outs));
        bump(&mut hist_len, &format!("{:02}", h.calls.len()));
        let mut key = vec![h.wide as u64];
        let mut grew = false; let mut shrank = false; let mut prev: Option<u64> = None; let mut panics = 0;
        for (c, o) in h.calls.iter().zip(&outs) {
            calls_total += 1;
            bump(&mut hist_kind, c.kind);
            bump(&mut hist_out, &match o { Outcome::Ok { .. } => "ok".to_string(), Outcome::Panic(k, _) => { panics += 1; format!("panic{}", k) } });
            key.push(c.algo as u64); key.push(c.method as u64); key.push(c.n); key.extend_from_slice(&c.bits);
            if let Some(p) = prev { if c.n > p { grew = true; } if c.n < p { shrank = true; } }
            prev = Some(c.n);
        }
        bump(&mut hist_shape, &format!("grew={} shrank={} panics={}", grew, shrank, panics.min(2)));
        let k = hash64(&key);
        distinct.insert(k);
        if (grew || shrank) && outs.iter().filter(|o| matches!(o, Outcome::Ok { steps, .. } if steps.len() >= 2)).count() >= 2 { nontrivial.insert(k); }
        if samples.len() < 3 && h.calls.len() <= 3 && h.calls.iter().all(|c| c.n <= 4) {
            samples.push(format!("{} -> {}", history_coq(&h), join(&history_tokens(&outs), " ")));
        }
    }
    sh.write(HEADER);
    let meta = format!(
        "{{\"stream\":\"hist\",\"profile\":{},\"seed\":{},\"evaluations\":{},\"calls\":{},\"distinct\":{},\"distinct_nontrivial\":{},\"call_kinds\":{},\"lengths\":{},\"outcomes\":{},\"size_walks\":{},\"samples\":[{}]}}",
        json_str(profile_name()), seed, count, calls_total, distinct.len(), nontrivial.len(),
        json_hist(&hist_kind), json_hist(&hist_len), json_hist(&hist_out), json_hist(&hist_shape),
        samples.iter().map(|s| json_str(s)).collect::<Vec<_>>().join(","));
    fs::write(format!("{}/hist_{}_meta.json", dir, profile_name()), meta).unwrap();
    0
}

// ------------------------------------------------------------------ dendrogram container ops
use kodama::Step;

fn dend_ops<T: Bits>(rng: &mut Rng, thorough: bool) -> (Vec<Vec<i128>>, Vec<i128>) {
    let mut regs: [Dendrogram<T>; 2] = [Dendrogram::new(0), Dendrogram::new(0)];
    let mut ops: Vec<Vec<i128>> = vec![];
    let mut out: Vec<i128> = vec![];
    let nops = rng.range(6, if thorough { 60 } else { 30 });
    let fl = |rng: &mut Rng| -> T {
        match rng.below(12) {
            0 => T::from_f64(0.0), 1 => T::from_f64(-1.5), 2 => T::from_f64(f64::INFINITY),
            3 => T::from_f64(f64::NAN),
            _ => T::from_f64([0.5, 1.0, 1.25, 2.0, 3.0, 0.1, 0.7][rng.below(7) as usize]),
        }
    };
    let mut n_cur = [0u64; 2];
    for _ in 0..nops {
        let r = rng.below(2) as usize;
        let mut kind = rng.below(20);
        let full = regs[r].len() + 1 >= n_cur[r] as usize;
        if full && (2..=9).contains(&kind) && rng.below(6) != 0 { kind = [0, 1, 10, 12, 14, 16, 18, 19, 13, 11][rng.below(10) as usize]; }
        if regs[r].is_empty() && (10..=13).contains(&kind) && rng.below(6) != 0 { kind = rng.range(2, 9); }
        let mut res: Vec<i128>;
        let op: Vec<i128>;
        match kind {
            0 => { let n = if rng.below(5) == 0 { rng.below(3) } else { rng.range(3, 9) }; n_cur[r] = n; regs[r] = Dendrogram::new(n as usize); op = vec![0, r as i128, n as i128]; res = vec![0]; }
            1 => { let n = if rng.below(5) == 0 { rng.below(3) } else { rng.range(3, 9) }; n_cur[r] = n; regs[r].reset(n as usize); op = vec![1, r as i128, n as i128]; res = vec![0]; }
            2..=9 => {
                let (c1, c2, sz) = (rng.below(12) as usize, rng.below(12) as usize, rng.below(9) as usize);
                let x = fl(rng);
                op = vec![2, r as i128, c1 as i128, c2 as i128, x.to_bits64() as i128, sz as i128];
                res = match catch(|| regs[r].push(Step::new(c1, c2, x, sz))) { Ok(()) => vec![0], Err((k, _)) => vec![1, k as i128] };
            }
            10 | 11 => {
                let i = if rng.below(5) == 0 { rng.below(9) as usize } else { rng.below((regs[r].len() as u64).max(1)) as usize };
                op = vec![3, r as i128, i as i128];
                res = match catch(|| regs[r][i].clone()) { Ok(s) => vec![2, s.cluster1 as i128, s.cluster2 as i128, s.dissimilarity.to_bits64() as i128, s.size as i128], Err((k, _)) => vec![1, k as i128] };
            }
            12 => {
                let (i, c1, c2) = (if rng.below(5) == 0 { rng.below(9) as usize } else { rng.below((regs[r].len() as u64).max(1)) as usize }, rng.below(12) as usize, rng.below(12) as usize);
                op = vec![4, r as i128, i as i128, c1 as i128, c2 as i128];
                res = match catch(|| regs[r][i].set_clusters(c1, c2)) { Ok(()) => vec![0], Err((k, _)) => vec![1, k as i128] };
            }
            13 => {
                let i = if rng.below(5) == 0 { rng.below(9) as usize } else { rng.below((regs[r].len() as u64).max(1)) as usize }; let x = fl(rng);
                op = vec![5, r as i128, i as i128, x.to_bits64() as i128];
                res = match catch(|| regs[r][i].dissimilarity = x) { Ok(()) => vec![0], Err((k, _)) => vec![1, k as i128] };
            }
            14 | 15 => {
                let l = if rng.below(5) == 0 { rng.below(20) as usize } else { rng.below((n_cur[r] + regs[r].len() as u64).max(1)) as usize };
                op = vec![6, r as i128, l as i128];
                res = match catch(|| regs[r].cluster_size(l)) { Ok(v) => vec![3, v as i128], Err((k, _)) => vec![1, k as i128] };
            }
            16 => { op = vec![7, r as i128]; res = vec![3, regs[r].len() as i128]; }
            17 => { op = vec![8, r as i128]; res = vec![3, regs[r].observations() as i128]; }
            _ => {
                // epsilon around the actual differences
                let mut diffs: Vec<f64> = regs[0].steps().iter().zip(regs[1].steps()).map(|(a, b)| (a.dissimilarity.as_f64() - b.dissimilarity.as_f64()).abs()).filter(|d| d.is_finite()).collect();
                diffs.push(0.0);
                let d = diffs[rng.below(diffs.len() as u64) as usize];
                let e = match rng.below(6) { 0 => 0.0, 1 => d, 2 => d * 0.999, 3 => d * 1.001 + 1e-12, 4 => 10.0, _ => -0.5 };
                let eps = T::from_f64(e);
                op = vec![9, eps.to_bits64() as i128];
                res = vec![4, regs[0].eq_with_epsilon(&regs[1], eps) as i128];
            }
        }
        // mirror most pushes into the other register with a small perturbation so
        // that eq_with_epsilon sees comparable dendrograms
        ops.push(op.clone());
        res.push(-1);
        out.extend(res);
        if op[0] == 2 && rng.below(3) != 0 {
            let o = 1 - r;
            if n_cur[o] != n_cur[r] && rng.below(2) == 0 { continue; }
            let x = T::from_bits64(op[4] as u64);
            let y = match rng.below(4) { 0 => x, 1 => T::from_f64(x.as_f64() + 0.25), 2 => T::from_f64(x.as_f64() * (1.0 + 1e-7)), _ => T::from_f64(x.as_f64() - 0.001) };
            let (c1, c2, sz) = (op[2] as usize, op[3] as usize, if rng.below(8) == 0 { op[5] as usize + 1 } else { op[5] as usize });
            let op2 = vec![2, o as i128, c1 as i128, c2 as i128, y.to_bits64() as i128, sz as i128];
            let mut res2: Vec<i128> = match catch(|| regs[o].push(Step::new(c1, c2, y, sz))) { Ok(()) => vec![0], Err((k, _)) => vec![1, k as i128] };
            ops.push(op2); res2.push(-1); out.extend(res2);
        }
    }
    (ops, out)
}

pub fn stream_dend(opt: &HashMap<String, String>) -> i32 {
    let seed = opt_u64(opt, "seed", 1);
    let thorough = opt_str(opt, "tier", "quick") == "thorough";
    let count = opt_u64(opt, "count", if thorough { 4000 } else { 800 }) as usize;
    let shards = opt_u64(opt, "shards", 16) as usize;
    let dir = opt_str(opt, "out", "build/streams");
    let mut rng = Rng::new(seed.wrapping_mul(0x1000_0001).wrapping_add(19));
    let mut sh = Shards::new(dir, "dend", shards);
    let mut hist_ops = BTreeMap::new(); let mut hist_out = BTreeMap::new();
    let mut distinct = HashSet::new(); let mut nontrivial = HashSet::new();
    let mut samples: Vec<String> = vec![];
    let mut nops = 0u64;
    const NAMES: [&str; 10] = ["new", "reset", "push", "index", "set_clusters", "set_dissimilarity", "cluster_size", "len", "observations", "eq_with_epsilon"];
    for i in 0..count {
        let wide = rng.below(4) != 0;
        let (ops, out) = if wide { dend_ops::<f64>(&mut rng, thorough) } else { dend_ops::<f32>(&mut rng, thorough) };
        let coq = format!("{} [{}]", if wide { "dend64" } else { "dend32" }, ops.iter().map(|o| format!("[{}]", join(o, ";"))).collect::<Vec<_>>().join(";"));
        sh.add(&format!("d{}", i), ops.len() as u64 * if wide { 1 } else { 30 }, coq.clone(), &out);
        for o in &ops { bump(&mut hist_ops, NAMES[o[0] as usize]); nops += 1; }
        let mut pushes_ok = 0;
        let mut j = 0;
        for o in &ops {
            // walk the outputs in step with the ops
            let mut k = j; while out[k] != -1 { k += 1; }
            let tag = out[j];
            bump(&mut hist_out, &format!("{}:{}", NAMES[o[0] as usize], match tag { 0 => "ok".to_string(), 1 => format!("panic{}", out[j + 1]), 2 => "step".to_string(), 3 => "nat".to_string(), _ => format!("bool{}", out[j + 1]) }));
            if o[0] == 2 && tag == 0 { pushes_ok += 1; }
            j = k + 1;
        }
        let key = hash64(&ops.iter().flat_map(|o| o.iter().map(|&x| x as u64).collect::<Vec<_>>()).collect::<Vec<_>>());
        distinct.insert(key);
        if pushes_ok >= 2 { nontrivial.insert(key); }
        if samples.len() < 2 && ops.len() <= 9 { samples.push(format!("{} -> {}", coq, join(&out, " "))); }
    }
    sh.write(HEADER);
    let meta = format!(
        "{{\"stream\":\"dend\",\"profile\":{},\"seed\":{},\"evaluations\":{},\"operations\":{},\"distinct\":{},\"distinct_nontrivial\":{},\"ops\":{},\"outcomes\":{},\"samples\":[{}]}}",
        json_str(profile_name()), seed, count, nops, distinct.len(), nontrivial.len(), json_hist(&hist_ops), json_hist(&hist_out),
        samples.iter().map(|s| json_str(s)).collect::<Vec<_>>().join(","));
    fs::write(format!("{}/dend_{}_meta.json", dir, profile_name()), meta).unwrap();
    0
}

// ------------------------------------------------------------------ C API histories
/// Client histories for the C API.  Expected outputs come from calling the Rust
/// `linkage` directly (C15: the C API returns exactly that).
pub fn stream_capi(opt: &HashMap<String, String>) -> i32 {
    let seed = opt_u64(opt, "seed", 1);
    let thorough = opt_str(opt, "tier", "quick") == "thorough";
    let count = opt_u64(opt, "count", if thorough { 1200 } else { 300 }) as usize;
    let shards = opt_u64(opt, "shards", 16) as usize;
    let dir = opt_str(opt, "out", "build/streams");
    let mut rng = Rng::new(seed.wrapping_mul(0x1000_0001).wrapping_add(23));
    let mut sh = Shards::new(dir, "capi", shards);
    let mut script = String::new();
    let mut hist_ops = BTreeMap::new(); let mut hist_n = BTreeMap::new(); let mut hist_m = BTreeMap::new();
    let mut distinct = HashSet::new(); let mut nontrivial = HashSet::new();
    let mut samples: Vec<String> = vec![];
    for i in 0..count {
        let id = format!("c{}", i);
        script.push_str(&format!("H {}\n", id));
        let mut ops: Vec<String> = vec![];       // Coq side
        let mut exp: Vec<i128> = vec![];
        let mut live: Vec<usize> = vec![];
        let mut has_input: Vec<bool> = vec![];
        let mut results: Vec<Vec<i128>> = vec![];
        let mut key: Vec<u64> = vec![];
        let nops = rng.range(2, if thorough { 14 } else { 8 });
        let mut creates = 0;
        let mut cost = 0u64;
        for _ in 0..nops {
            let kind = if live.is_empty() { 0 } else { rng.below(7) };
            match kind {
                0 | 1 | 2 => {
                    let wide = rng.below(3) != 0;
                    let method = rng.below(7) as u8;
                    let n = match rng.below(8) { 0 => 0, 1 => 1, 2 => 2, _ => rng.range(3, if wide { if thorough { 40 } else { 22 } } else { 8 }) };
                    let fam = ["uniform", "lattice", "duppoints", "euclid", "allequal", "negzero", "signed", "subnormal"][rng.below(8) as usize];
                    // single / complete never add: values next to the largest finite one are valid input
                    let fam = if method <= 1 && rng.below(6) == 0 { "maxmag" } else { fam };
                    // Ward on one entry whose square overflows: the result contains +inf and is still
                    // exactly what the Rust entry point returns
                    let fam = if method == 4 && n >= 3 && rng.below(3) == 0 { "hugeone" } else { fam };
                    let v = matrix_f64(&mut rng, n as usize, fam, wide);
                    let bits = to_bits(&v, wide);
                    let out = run_fresh_w(wide, 0, method, n, &bits);
                    let steps = match out { Outcome::Ok { steps, .. } => steps, Outcome::Panic(..) => vec![] };
                    // widen the float results exactly
                    let mut r: Vec<i128> = vec![n as i128, steps.len() as i128];
                    for s in &steps {
                        let b = if wide { s.bits } else { (f32::from_bits(s.bits as u32) as f64).to_bits64() };
                        r.extend_from_slice(&[s.c1 as i128, s.c2 as i128, b as i128, s.size as i128]);
                    }
                    let h = results.len();
                    script.push_str(&format!("{} {} {} {} {}\n", if wide { "D" } else { "S" }, METHOD_NAMES[method as usize], n, bits.len(), join(&bits, " ")));
                    ops.push(format!("[{};{};{}{}]", if wide { 0 } else { 5 }, method, n, bits.iter().map(|b| format!(";{}", b)).collect::<String>()));
                    exp.push(0); exp.push(h as i128); exp.extend(r.iter()); exp.push(-1);
                    results.push(r); live.push(h); has_input.push(true);
                    creates += 1;
                    cost += AlgoCase { algo: 0, method, wide, n, bits: vec![], family: "" }.model_cost();
                    bump(&mut hist_ops, "create"); bump(&mut hist_n, &format!("{:02}", n)); bump(&mut hist_m, METHOD_NAMES[method as usize]);
                    key.extend_from_slice(&[method as u64, n, wide as u64, hash64(&bits)]);
                }
                3 | 4 => {
                    let h = live[rng.below(live.len() as u64) as usize];
                    script.push_str(&format!("R {}\n", h));
                    ops.push(format!("[1;{}]", h));
                    exp.push(1); exp.extend(results[h].iter()); exp.push(-1);
                    bump(&mut hist_ops, "read"); key.extend_from_slice(&[101, h as u64]);
                }
                5 => {
                    let h = live[rng.below(live.len() as u64) as usize];
                    script.push_str(&format!("X {}\n", h));
                    ops.push(format!("[2;{}]", h));
                    exp.push(2); exp.push(-1);
                    has_input[h] = false;
                    bump(&mut hist_ops, "scribble_free_input"); key.extend_from_slice(&[102, h as u64]);
                }
                _ => {
                    let k = rng.below(live.len() as u64) as usize;
                    let h = live.remove(k);
                    script.push_str(&format!("F {}\n", h));
                    ops.push(format!("[3;{}]", h));
                    exp.push(2); exp.push(-1);
                    bump(&mut hist_ops, "free"); key.extend_from_slice(&[103, h as u64]);
                }
            }
        }
        // every history ends by reading and freeing what is still live
        for h in live.clone() {
            script.push_str(&format!("R {}\nF {}\n", h, h));
            ops.push(format!("[1;{}]", h)); exp.push(1); exp.extend(results[h].iter()); exp.push(-1);
            ops.push(format!("[3;{}]", h)); exp.push(2); exp.push(-1);
        }
        let coq = format!("capiops {} [{}]", profile_code(), ops.join(";"));
        sh.add(&id, cost.max(1), coq.clone(), &exp);
        let k = hash64(&key);
        distinct.insert(k);
        if creates >= 2 { nontrivial.insert(k); }
        if samples.len() < 2 && ops.len() <= 6 && coq.len() < 700 { samples.push(format!("{} -> {}", coq, join(&exp, " "))); }
    }
    sh.write(HEADER);
    fs::write(format!("{}/capi_script.txt", dir), script).unwrap();
    let meta = format!(
        "{{\"stream\":\"capi\",\"profile\":{},\"seed\":{},\"evaluations\":{},\"distinct\":{},\"distinct_nontrivial\":{},\"ops\":{},\"sizes\":{},\"methods\":{},\"samples\":[{}]}}",
        json_str(profile_name()), seed, count, distinct.len(), nontrivial.len(), json_hist(&hist_ops), json_hist(&hist_n), json_hist(&hist_m),
        samples.iter().map(|s| json_str(s)).collect::<Vec<_>>().join(","));
    fs::write(format!("{}/capi_{}_meta.json", dir, profile_name()), meta).unwrap();
    0
}

// ------------------------------------------------------------------ access counts (C14)
pub fn stream_cost(opt: &HashMap<String, String>) -> i32 {
    let seed = opt_u64(opt, "seed", 1);
    let thorough = opt_str(opt, "tier", "quick") == "thorough";
    let count = opt_u64(opt, "count", if thorough { 900 } else { 300 }) as usize;
    let shards = opt_u64(opt, "shards", 16) as usize;
    let dir = opt_str(opt, "out", "build/streams");
    let mut rng = Rng::new(seed.wrapping_mul(0x1000_0001).wrapping_add(31));
    let mut sh = Shards::new(dir, "cost", shards);
    let mut hist_n = BTreeMap::new(); let mut hist_f = BTreeMap::new(); let mut hist_a = BTreeMap::new();
    let mut distinct = HashSet::new(); let mut nontrivial = HashSet::new();
    let mut samples: Vec<String> = vec![]; let mut worst = 0.0f64;
    let mut cases = vec![];
    for i in 0..count {
        let algo = [0u8, 2, 1, 0, 2][i % 5];
        let method = if algo == 1 { 0 } else { rng.below(5) as u8 };
        let wide = rng.below(5) != 0;
        let cap: u64 = match (wide, thorough) { (true, false) => 44, (true, true) => 90, (false, false) => 10, (false, true) => 14 };
        let n = if i % 9 == 0 { rng.below(5) } else { rng.range(8.min(cap), cap) };
        let fam = ["sorted", "revsorted", "allequal", "lattice", "collinear", "uniform", "neartie", "duppoints", "euclid", "staircase", "rowconst", "tiechain", "hugechain"][rng.below(13) as usize];
        // next to the largest finite value Ward's squares overflow (outside its domain)
        let fam = if fam == "hugechain" && method == 4 { "collinear" } else { fam };
        let v = matrix_f64(&mut rng, n as usize, fam, wide);
        cases.push(AlgoCase { algo, method, wide, n, bits: to_bits(&v, wide), family: FAMILIES.iter().chain(SPECIAL_FAMILIES.iter()).find(|&&f| f == fam).unwrap() });
    }
    let mut order: Vec<usize> = (0..cases.len()).collect();
    order.sort_by_key(|&i| std::cmp::Reverse(cases[i].model_cost()));
    for &i in &order {
        let c = &cases[i];
        let out = run_fresh_w(c.wide, c.algo, c.method, c.n, &c.bits);
        let mut t = tokens(&out);
        if let Outcome::Ok { acc, .. } = &out {
            t.push(*acc as i128);
            if c.n >= 8 { worst = worst.max(*acc as f64 / (10 * c.n * c.n + 50 * c.n) as f64); }
        }
        let coq = format!("{} {} {} {} {} {}", if c.wide { "cost64" } else { "cost32" }, profile_code(), c.algo, c.method, c.n, coq_list(&c.bits));
        sh.add(&format!("k{}", i), c.model_cost(), coq, &t);
        bump(&mut hist_n, &format!("{:02}", c.n)); bump(&mut hist_f, c.family); bump(&mut hist_a, &format!("{}:{}", ALGO_NAMES[c.algo as usize], METHOD_NAMES[c.method as usize]));
        distinct.insert(c.key());
        if c.n >= 8 { nontrivial.insert(c.key()); }
        if samples.len() < 3 && c.n == 8 { samples.push(format!("{} {} n=8 {} -> count {}", ALGO_NAMES[c.algo as usize], METHOD_NAMES[c.method as usize], c.family, t.last().unwrap())); }
    }
    sh.write(HEADER);
    let meta = format!(
        "{{\"stream\":\"cost\",\"profile\":{},\"seed\":{},\"evaluations\":{},\"distinct\":{},\"distinct_nontrivial\":{},\"sizes\":{},\"families\":{},\"entries\":{},\"worst_count_over_bound\":{:.4},\"hook_active\":{},\"samples\":[{}]}}",
        json_str(profile_name()), seed, cases.len(), distinct.len(), nontrivial.len(), json_hist(&hist_n), json_hist(&hist_f), json_hist(&hist_a), worst, cfg!(kodama_verif),
        samples.iter().map(|s| json_str(s)).collect::<Vec<_>>().join(","));
    fs::write(format!("{}/cost_{}_meta.json", dir, profile_name()), meta).unwrap();
    0
}
