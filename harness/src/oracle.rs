//! Independent oracles: executable statements of the properties evaluated on
//! the implementation's outputs.  Used to SEARCH for failing inputs; a check
//! never passes because of them.
use std::collections::{HashMap, HashSet};
use std::sync::{Arc, Mutex};
use std::time::{Duration, Instant};

use crate::common::*;
use crate::gen::*;
use crate::refimpl::*;
use crate::streams::{json_str, opt_str, opt_u64};

pub struct Report {
    pub evaluations: u64,
    pub nontrivial: HashSet<u64>,
    pub violations: Vec<String>,
    pub samples: Vec<String>,
    pub extra: Vec<(String, String)>,
}

impl Report {
    pub fn new() -> Report {
        Report { evaluations: 0, nontrivial: HashSet::new(), violations: vec![], samples: vec![], extra: vec![] }
    }
    pub fn violation(&mut self, s: String) { if self.violations.len() < 25 { self.violations.push(s); } }
    pub fn sample(&mut self, s: String) { if self.samples.len() < 3 { self.samples.push(s); } }
    pub fn print(&self) -> i32 {
        let v: Vec<String> = self.violations.iter().map(|s| format!("{{\"desc\":{}}}", json_str(s))).collect();
        let s: Vec<String> = self.samples.iter().map(|s| json_str(s)).collect();
        let e: Vec<String> = self.extra.iter().map(|(k, v)| format!(",{}:{}", json_str(k), v)).collect();
        println!("{{\"ok\":{},\"evaluations\":{},\"distinct_nontrivial\":{},\"violations\":[{}],\"samples\":[{}]{}}}",
            self.violations.is_empty(), self.evaluations, self.nontrivial.len(), v.join(","), s.join(","), e.join(""));
        if self.violations.is_empty() { 0 } else { 1 }
    }
}

/// progress marker for the hang watchdog
pub type Progress = Arc<Mutex<(Instant, String)>>;
pub fn tick(p: &Progress, what: &str) { let mut g = p.lock().unwrap(); g.0 = Instant::now(); g.1 = what.to_string(); }

pub struct Ctx { pub seed: u64, pub big: bool, pub prop: String, pub progress: Progress, pub cases: Vec<AlgoCase> }

pub fn run(opt: &HashMap<String, String>) -> i32 {
    let name = opt_str(opt, "oracle", "").to_string();
    let seed = opt_u64(opt, "seed", 1);
    let thorough = opt_str(opt, "tier", "quick") == "thorough";
    let enlarge = opt_u64(opt, "enlarge", 0) == 1;
    let prop = opt_str(opt, "prop", "").to_string();
    let cases = opt.get("cases").map(|p| parse_cases(p)).unwrap_or_default();
    let progress: Progress = Arc::new(Mutex::new((Instant::now(), "start".to_string())));
    let ctx = Ctx { seed, big: thorough || enlarge, prop: prop.clone(), progress: progress.clone(), cases };
    let limit = Duration::from_secs(opt_u64(opt, "hang-secs", 40));
    let (tx, rx) = std::sync::mpsc::channel();
    std::thread::Builder::new().stack_size(64 << 20).spawn(move || {
        crate::common::install_panic_hook();
        let mut rep = Report::new();
        let ok = dispatch(&name, &ctx, &mut rep);
        let _ = tx.send((ok, rep));
    }).unwrap();
    loop {
        match rx.recv_timeout(Duration::from_millis(200)) {
            Ok((true, rep)) => return rep.print(),
            Ok((false, _)) => { eprintln!("unknown oracle"); return 2; }
            Err(std::sync::mpsc::RecvTimeoutError::Timeout) => {
                let g = progress.lock().unwrap();
                if g.0.elapsed() > limit {
                    let mut rep = Report::new();
                    rep.evaluations = 1;
                    rep.violation(format!("{} hang: no result within {} s on case: {}", prop, limit.as_secs(), g.1));
                    let rc = rep.print();
                    std::process::exit(rc);
                }
            }
            Err(_) => { eprintln!("oracle thread died"); return 3; }
        }
    }
}

fn dispatch(name: &str, ctx: &Ctx, rep: &mut Report) -> bool {
    match name {
        "shape_sweep" => shape_sweep(rep, ctx.seed, ctx.big, &ctx.progress),
        "wf" => { sweep(ctx, rep, &check_wf); long_histories(ctx, rep); wrap_histories(ctx, rep); }
        "monotone" => { sweep(ctx, rep, &check_monotone); wrap_histories(ctx, rep); }
        "criterion" => sweep(ctx, rep, &check_replay),
        "greedy" => sweep(ctx, rep, &check_replay),
        "safety" => { sweep(ctx, rep, &check_safety); long_histories(ctx, rep); wrap_histories(ctx, rep); }
        "single_exact" => sweep_single(ctx, rep),
        "agree" => agree(ctx, rep),
        "scale" => scale(ctx, rep),
        "order" => order_only(ctx, rep),
        "permute" => permute(ctx, rep),
        "slot_probe" => slot_probe(ctx, rep),
        "cost" => cost(ctx, rep),
        "reuse" => reuse(ctx, rep),
        "container" => { container(ctx, rep); container_large(ctx, rep); container_clustering(ctx, rep); }
        _ => return false,
    }
    true
}

/// cases handed over by check.py (disagreements of the correspondence):
/// lines "<stream> case64 pf al me n [b;b;...]"
fn parse_cases(path: &str) -> Vec<AlgoCase> {
    let mut out = vec![];
    if let Ok(s) = std::fs::read_to_string(path) {
        for line in s.lines() {
            let t: Vec<&str> = line.split_whitespace().collect();
            if t.len() < 7 || !(t[1] == "case64" || t[1] == "case32") { continue; }
            let bits: Vec<u64> = t[6].trim_matches(|c| c == '[' || c == ']').split(';').filter(|x| !x.is_empty()).filter_map(|x| x.parse().ok()).collect();
            if let (Ok(al), Ok(me), Ok(n)) = (t[3].parse::<u8>(), t[4].parse::<u8>(), t[5].parse::<u64>()) {
                out.push(AlgoCase { algo: al, method: me, wide: t[1] == "case64", n, bits, family: "disagreement" });
            }
        }
    }
    out
}

// ------------------------------------------------------------------ helpers
pub fn vals_of(c: &AlgoCase) -> Vec<f64> {
    c.bits.iter().map(|&b| if c.wide { f64::from_bits(b) } else { f32::from_bits(b as u32) as f64 }).collect()
}
pub fn height(c: &AlgoCase, s: &StepB) -> f64 {
    if c.wide { f64::from_bits(s.bits) } else { f32::from_bits(s.bits as u32) as f64 }
}
fn tol(c: &AlgoCase) -> f64 { if c.wide { 1e-9 } else { 1e-3 } }
fn scale_of(v: &[f64]) -> f64 { v.iter().fold(0.0f64, |m, x| m.max(x.abs())).max(f64::MIN_POSITIVE) }

/// Rust-only case generator: larger sizes than the model-evaluated stream.
fn oracle_cases(ctx: &Ctx, count: usize, maxn: u64, maxn_prim: u64) -> Vec<AlgoCase> {
    let mut rng = Rng::new(ctx.seed.wrapping_mul(7919) ^ hash64(&[ctx.prop.len() as u64, ctx.prop.bytes().map(|b| b as u64).sum()]));
    let mut out = ctx.cases.clone();
    // also shrunk variants of handed-over cases: first k observations
    for c in ctx.cases.iter().take(20) {
        for keep in [3u64, 4, 5, 6, 8] {
            if keep < c.n {
                let n = c.n as usize; let k = keep as usize;
                let mut bits = vec![];
                let mut idx = 0;
                for i in 0..n { for j in i + 1..n { if i < k && j < k { bits.push(c.bits[idx]); } idx += 1; } }
                if idx == c.bits.len() { out.push(AlgoCase { n: keep, bits, ..c.clone() }); }
            }
        }
    }
    while out.len() < count + ctx.cases.len() {
        let algo = rng.below(5) as u8;
        let method = loop { let m = rng.below(7) as u8; if accepts(algo, m) { break m; } };
        let wide = rng.below(3) != 0;
        let cap = if algo == 4 { maxn_prim } else { maxn };
        let n = match rng.below(12) { 0 => rng.below(4), 1..=5 => rng.range(2, cap.min(24)), 6..=8 => rng.range(cap.min(16), cap.min(80)), 9 | 10 => boundary_size(&mut rng, cap), _ => rng.range(cap / 2, cap) };
        let fam = FAMILIES[rng.below(FAMILIES.len() as u64) as usize];
        let fam = if rng.below(3) == 0 { ["lattice", "duppoints", "neartie", "allequal"][rng.below(4) as usize] } else { fam };
        // single / complete never add: values up to and including the largest finite one are in domain
        let fam = if method <= 1 && rng.below(12) == 0 { "maxmag" } else { fam };
        let mut v = matrix_f64(&mut rng, n as usize, fam, wide);
        if rng.below(5) == 0 && fam != "maxmag" { rescale(&mut rng, &mut v, wide); }
        out.push(AlgoCase { algo, method, wide, n, bits: to_bits(&v, wide), family: fam });
    }
    out
}

/// Cases beyond the random sweep: sizes at which word-size (64), block-size (128) and
/// narrow-integer (cluster sizes >= 256, cubes of sizes >= 2^32) shortcuts change behaviour.
fn extra_cases(ctx: &Ctx) -> Vec<AlgoCase> {
    let mut rng = Rng::new(ctx.seed.wrapping_mul(104729) ^ 0xE7A);
    let mut out = vec![];
    let mut push = |rng: &mut Rng, algo: u8, method: u8, n: u64, fam: &'static str| {
        if accepts(algo, method) { let v = matrix_f64(rng, n as usize, fam, true); out.push(AlgoCase { algo, method, wide: true, n, bits: to_bits(&v, true), family: fam }); }
    };
    let sizes: &[u64] = if ctx.big { &[128, 129, 132, 135, 192, 256, 257, 320] } else { &[128, 132, 192] };
    for &n in sizes {
        // single linkage through the MST path and the others
        for algo in [0u8, 1, 2, 3] { push(&mut rng, algo, 0, n, if n % 2 == 0 { "uniform" } else { "lattice" }); }
        // the generic algorithm with every method (its initial scan and heap at these sizes)
        for method in 0..7u8 { push(&mut rng, 3, method, n, "uniform"); }
        for method in [1u8, 2, 4] { push(&mut rng, 2, method, n, "uniform"); }
    }
    // step counts just above a power of two (n - 1 = 2^k + 1) and geometric inputs, whose raw merge
    // order is far from sorted: hand-written merge / run sorts have their corner cases there
    let plus2: &[u64] = if ctx.big { &[34, 66, 130, 258, 514, 1026] } else { &[34, 66, 130, 258] };
    for &n in plus2 {
        for fam in ["collinear", "rampdips", "euclid"] {
            for algo in [1u8, 0, 2] { push(&mut rng, algo, 0, n, fam); }
            if n <= 258 { push(&mut rng, 2, 1, n, fam); push(&mut rng, 2, 2, n, fam); }
        }
    }
    // one nearest-neighbour chain through all points, longer than any fixed-size buffer one would
    // pick for it (256, 512): every method that runs on the chain, through nnchain and linkage
    for &n in (if ctx.big { &[258u64, 300, 515, 1030][..] } else { &[258u64, 300, 515][..] }) {
        for method in 0..5u8 { push(&mut rng, 2, method, n, "decgap"); }
        for method in 1..5u8 { if n <= 300 || method == 1 { push(&mut rng, 0, method, n, "decgap"); } }
    }
    // a hub matrix: the generic algorithm repairs a quadratic number of stale candidates on it
    for &n in (if ctx.big { &[100u64, 130, 300][..] } else { &[100u64, 130][..] }) {
        for method in 0..7u8 { push(&mut rng, 3, method, n, "star"); }
        push(&mut rng, 0, 6, n, "star"); push(&mut rng, 0, 5, n, "star"); push(&mut rng, 2, 2, n, "star");
    }
    if ctx.prop == "C02" || ctx.prop == "C12" {
        // clusters of more than 1625 members: |AB|^3 >= 2^32 (only the recurrence reference is used there)
        let big: &[u64] = if ctx.big { &[1650, 2049, 2600] } else { &[1650, 2049] };
        for (k, &n) in big.iter().enumerate() {
            for method in [5u8, 4, 2, 6] { if (k + method as usize) % 2 == 0 || ctx.big { push(&mut rng, 0, method, n, "uniform"); } }
        }
    }
    if ctx.prop == "C12" {
        // Ward and median at the top of their domain for the size (see the family): finite heights
        for &n in (if ctx.big { &[40u64, 64, 200, 700][..] } else { &[40u64, 64, 200][..] }) {
            for method in [4u8, 6] { for algo in [0u8, 2, 3, 4] {
                if algo == 4 && n > 64 { continue; }
                if accepts(algo, method) {
                    for wide in [true, false] {
                        let v = matrix_f64(&mut rng, n as usize, "nearlimit", wide);
                        out.push(AlgoCase { algo, method, wide, n, bits: to_bits(&v, wide), family: "nearlimit" });
                    }
                }
            }}
        }
    }
    out
}

type Checker = dyn Fn(&Ctx, &AlgoCase, &Outcome) -> Option<String>;

fn sweep(ctx: &Ctx, rep: &mut Report, check: &Checker) {
    let heavy = ctx.prop == "C02" || ctx.prop == "C03";
    let (count, maxn, maxp) = match (ctx.big, heavy) {
        (false, false) => (700, 160, 48), (true, false) => (3000, 400, 110),
        (false, true) => (500, 70, 40), (true, true) => (2000, 160, 80),
    };
    // every case runs twice: through the allocating wrapper and through the
    // `_with` form on objects shared by all cases (sizes vary from case to case)
    let mut st64: kodama::LinkageState<f64> = kodama::LinkageState::new();
    let mut d64: kodama::Dendrogram<f64> = kodama::Dendrogram::new(0);
    let mut st32: kodama::LinkageState<f32> = kodama::LinkageState::new();
    let mut d32: kodama::Dendrogram<f32> = kodama::Dendrogram::new(0);
    let mut cases = oracle_cases(ctx, count, maxn, maxp);
    cases.extend(extra_cases(ctx));
    for c in cases {
        tick(&ctx.progress, &c.describe());
        let out = run_fresh_w(c.wide, c.algo, c.method, c.n, &c.bits);
        rep.evaluations += 1;
        if c.n >= 3 { rep.nontrivial.insert(c.key()); }
        if let Some(v) = check(ctx, &c, &out) {
            rep.violation(format!("{} violated: {} :: {}", ctx.prop, v, shorten(&c)));
        }
        tick(&ctx.progress, &format!("(reused state) {}", c.describe()));
        let out2 = if c.wide { run_reused::<f64>(&mut st64, &mut d64, c.algo, c.method, c.n, &c.bits) }
                   else { run_reused::<f32>(&mut st32, &mut d32, c.algo, c.method, c.n, &c.bits) };
        rep.evaluations += 1;
        if let Some(v) = check(ctx, &c, &out2) {
            rep.violation(format!("{} violated on a reused LinkageState/Dendrogram (previous calls of this sweep, other sizes): {} :: {}_with {}", ctx.prop, v, ALGO_NAMES[c.algo as usize], shorten(&c)));
        }
        if c.n == 4 { rep.sample(format!("{} -> {}", c.describe(), join(&tokens(&out), " "))); }
    }
}

fn shorten(c: &AlgoCase) -> String {
    let d = c.describe();
    if d.len() > 1800 { format!("{}... (n={}, {} entries; hash {:x})", &d[..1800], c.n, c.bits.len(), c.key()) } else { d }
}

// ------------------------------------------------------------------ C01
pub fn wf_steps(n: usize, steps: &[StepB]) -> Option<String> {
    if n <= 1 { return if steps.is_empty() { None } else { Some(format!("n={} but {} steps", n, steps.len())) }; }
    if steps.len() != n - 1 { return Some(format!("{} steps for n={}", steps.len(), n)); }
    let mut used = vec![false; 2 * n - 1];
    let mut size = vec![1usize; 2 * n - 1];
    for (i, s) in steps.iter().enumerate() {
        if !(s.c1 < s.c2) { return Some(format!("step {}: labels not ordered/distinct ({}, {})", i, s.c1, s.c2)); }
        if s.c2 >= n + i { return Some(format!("step {}: label {} >= n+i={}", i, s.c2, n + i)); }
        if used[s.c1] || used[s.c2] { return Some(format!("step {}: label reused ({}, {})", i, s.c1, s.c2)); }
        used[s.c1] = true; used[s.c2] = true;
        size[n + i] = size[s.c1] + size[s.c2];
        if s.size != size[n + i] { return Some(format!("step {}: size {} != {}+{}", i, s.size, size[s.c1], size[s.c2])); }
    }
    if steps[n - 2].size != n { return Some("last size != n".to_string()); }
    None
}

fn check_wf(_: &Ctx, c: &AlgoCase, o: &Outcome) -> Option<String> {
    match o {
        Outcome::Ok { steps, .. } => wf_steps(c.n as usize, steps),
        Outcome::Panic(k, m) => Some(format!("panic class {} ({})", k, m)),
    }
}

// ------------------------------------------------------------------ C05
fn check_monotone(_: &Ctx, c: &AlgoCase, o: &Outcome) -> Option<String> {
    if !sorts(c.method) { return None; }
    if let Outcome::Ok { steps, .. } = o {
        for i in 1..steps.len() {
            let (a, b) = (height(c, &steps[i - 1]), height(c, &steps[i]));
            if !(a <= b) { return Some(format!("inversion at step {}: {:e} then {:e}", i, a, b)); }
        }
    }
    None
}

// ------------------------------------------------------------------ C12
fn check_safety(_: &Ctx, c: &AlgoCase, o: &Outcome) -> Option<String> {
    match o {
        Outcome::Panic(k, m) => Some(format!("panic class {} ({}) in {} profile", k, m, crate::streams::profile_name())),
        Outcome::Ok { steps, obs, .. } => {
            if c.n <= 1 && (!steps.is_empty() || *obs != 0) { return Some("n <= 1 must give the empty dendrogram".to_string()); }
            let nonneg = vals_of(c).iter().all(|&x| x >= 0.0);
            for (i, s) in steps.iter().enumerate() {
                let h = height(c, s);
                if !h.is_finite() { return Some(format!("step {} height {:e} not finite", i, h)); }
                if nonneg && h < 0.0 { return Some(format!("step {} height {:e} negative on non-negative input", i, h)); }
            }
            None
        }
    }
}

// ------------------------------------------------------------------ C02 / C03
/// Replay the returned steps on the independent reference matrix: the height
/// must be the reference dissimilarity of the merged pair (C02) and minimal
/// among all current pairs (C03), both up to the property's tolerance.
fn check_replay(ctx: &Ctx, c: &AlgoCase, o: &Outcome) -> Option<String> {
    let steps = match o { Outcome::Ok { steps, .. } => steps, Outcome::Panic(..) => return None };
    let n = c.n as usize;
    if n < 2 || wf_steps(n, steps).is_some() { return None; }  // malformed output is C01's business
    let v = vals_of(c);
    let sc = scale_of(&v);
    let sq = on_squares(c.method);
    // tolerance accumulates over the depth of nested updates
    let t = tol(c) * (1.0 + (n as f64).log2());
    let close = |h: f64, r: f64| -> bool {
        // r is in the squared domain for squared methods
        if sq { (h * h - r).abs() <= t * sc * sc || (h - r.max(0.0).sqrt()).abs() <= t * sc } else { (h - r).abs() <= t * sc }
    };
    let mut rp = Replay::new(n, &v, c.method);
    for (i, s) in steps.iter().enumerate() {
        let h = height(c, s);
        let dref = rp.full.get(s.c1, s.c2);
        if ctx.prop == "C02" {
            if !close(h, dref) { return Some(format!("step {}: height {:e} but reference criterion {:e}{}", i, h, if sq { dref.max(0.0).sqrt() } else { dref }, "")); }
            if n > 400 { rp.merge(c.method, s.c1, s.c2); continue; }
            if let Some(dd) = direct_criterion(n, &v, c.method, &rp.members[s.c1], &rp.members[s.c2]) {
                if !close(h, dd) { return Some(format!("step {}: height {:e} but criterion from the original matrix {:e}", i, h, if sq { dd.max(0.0).sqrt() } else { dd })); }
            }
        } else {
            let (m1, _, arg) = rp.min2();
            let bad = if sq { dref - m1 > t * sc * sc && dref.max(0.0).sqrt() - m1.max(0.0).sqrt() > t * sc } else { dref - m1 > t * sc };
            if bad { return Some(format!("step {} merges ({}, {}) at {:e} but clusters {:?} are closer: {:e}", i, s.c1, s.c2, if sq { dref.max(0.0).sqrt() } else { dref }, arg, if sq { m1.max(0.0).sqrt() } else { m1 })); }
        }
        rp.merge(c.method, s.c1, s.c2);
    }
    None
}

// ------------------------------------------------------------------ C04
fn uf_find(p: &mut Vec<usize>, mut x: usize) -> usize { while p[x] != x { p[x] = p[p[x]]; x = p[x]; } x }

fn partition_canon(p: &mut Vec<usize>, n: usize) -> Vec<usize> {
    // canonical labelling: component id = smallest member
    let mut small = vec![usize::MAX; p.len()];
    for i in 0..n { let r = uf_find(p, i); if i < small[r] { small[r] = i; } }
    (0..n).map(|i| { let r = uf_find(p, i); small[r] }).collect()
}

fn check_single_exact(c: &AlgoCase, o: &Outcome, all_heights: bool) -> Option<String> {
    let steps = match o { Outcome::Ok { steps, .. } => steps, Outcome::Panic(k, m) => return Some(format!("panic {} {}", k, m)) };
    let n = c.n as usize;
    if n < 2 { return None; }
    if wf_steps(n, steps).is_some() { return None; }
    let v = vals_of(c);
    // Prim on the dense graph, independent of the crate
    let at = |i: usize, j: usize| -> f64 { let (r, cc) = if i < j { (i, j) } else { (j, i) }; v[(2 * n - r - 3) * r / 2 + cc - 1] };
    let mut intree = vec![false; n]; let mut key = vec![f64::INFINITY; n]; intree[0] = true;
    for j in 1..n { key[j] = at(0, j); }
    let mut w = vec![];
    for _ in 1..n {
        let mut best = usize::MAX;
        for j in 0..n { if !intree[j] && (best == usize::MAX || key[j] < key[best]) { best = j; } }
        intree[best] = true; w.push(key[best]);
        for j in 0..n { if !intree[j] { let d = at(best, j); if d < key[j] { key[j] = d; } } }
    }
    w.sort_by(|a, b| a.partial_cmp(b).unwrap());
    let mut hs: Vec<f64> = steps.iter().map(|s| height(c, s)).collect();
    let hs_sorted = { let mut x = hs.clone(); x.sort_by(|a, b| a.partial_cmp(b).unwrap()); x };
    for i in 0..w.len() {
        if w[i].to_bits() != hs_sorted[i].to_bits() && !(w[i] == 0.0 && hs_sorted[i] == 0.0) {
            return Some(format!("sorted height #{} is {:e} but the MST weight is {:e}", i, hs_sorted[i], w[i]));
        }
    }
    // cuts: for (a sample of) occurring heights, steps <= h vs threshold graph
    hs.dedup();
    let pick: Vec<f64> = if all_heights || hs.len() <= 12 { hs.clone() } else { (0..12).map(|k| hs[k * (hs.len() - 1) / 11]).collect() };
    for &h in &pick {
        let mut p1: Vec<usize> = (0..2 * n - 1).collect();
        for (i, s) in steps.iter().enumerate() {
            if height(c, s) <= h { let (a, b) = (uf_find(&mut p1, s.c1), uf_find(&mut p1, s.c2)); p1[a] = n + i; p1[b] = n + i; }
        }
        // a step above h may reference a cluster label created by a step <= h: resolved through p1 already
        let mut p2: Vec<usize> = (0..n).collect();
        for i in 0..n { for j in i + 1..n { if at(i, j) <= h { let (a, b) = (uf_find(&mut p2, i), uf_find(&mut p2, j)); if a != b { p2[a] = b; } } } }
        if partition_canon(&mut p1, n) != partition_canon(&mut p2, n) {
            return Some(format!("cut at height {:e} differs from the threshold-graph components", h));
        }
    }
    None
}

fn sweep_single(ctx: &Ctx, rep: &mut Report) {
    let mut rng = Rng::new(ctx.seed ^ 0xC04);
    let count = if ctx.big { 1200 } else { 320 };
    let mut cases: Vec<AlgoCase> = ctx.cases.iter().filter(|c| c.method == 0).cloned().collect();
    for i in 0..count {
        let algo = (i % 5) as u8;
        let wide = i % 3 != 0;
        let cap: u64 = match (algo, ctx.big) { (4, false) => 40, (4, true) => 90, (_, false) => 150, (_, true) => 500 };
        let n = if i % 10 == 0 { rng.range(2, 5) } else if i % 10 == 3 || i % 10 == 7 { boundary_size(&mut rng, cap.max(40)) } else { rng.range(2, cap) };
        let fam = ["lattice", "duppoints", "uniform", "negative", "allequal", "neartie", "euclid", "collinear", "pow2", "allzero", "negzero", "uniform", "maxmag"][rng.below(13) as usize];
        let v = matrix_f64(&mut rng, n as usize, fam, wide);
        cases.push(AlgoCase { algo, method: 0, wide, n, bits: to_bits(&v, wide), family: fam });
    }
    // a few big ones (thousands) through the quadratic entry points
    // beyond 4096 and 8192 observations: two-level (64 x 64) bitmaps and the like change words there
    let bigs: &[u64] = if ctx.big { &[1500, 2500, 4000, 4100, 4161, 4500, 8200] } else { &[1200, 4100, 4161] };
    for (k, &n) in bigs.iter().enumerate() {
        let fam = if k % 2 == 0 { "lattice" } else { "uniform" };
        let v = matrix_f64(&mut rng, n as usize, fam, true);
        cases.push(AlgoCase { algo: (k % 2) as u8, method: 0, wide: true, n, bits: to_bits(&v, true), family: fam });
    }
    let mut st64: kodama::LinkageState<f64> = kodama::LinkageState::new();
    let mut d64: kodama::Dendrogram<f64> = kodama::Dendrogram::new(0);
    let mut st32: kodama::LinkageState<f32> = kodama::LinkageState::new();
    let mut d32: kodama::Dendrogram<f32> = kodama::Dendrogram::new(0);
    for c in cases {
        tick(&ctx.progress, &format!("{} single n={} {}", ALGO_NAMES[c.algo as usize], c.n, c.family));
        let out = run_fresh_w(c.wide, c.algo, 0, c.n, &c.bits);
        rep.evaluations += 1;
        if c.n >= 3 { rep.nontrivial.insert(c.key()); }
        if let Some(v) = check_single_exact(&c, &out, c.n <= 60) {
            rep.violation(format!("C04 violated: {} :: {}", v, shorten(&c)));
        }
        if c.n <= 600 {
            // the same input through the `_with` form on objects reused across the sweep; before an
            // mst / linkage call the shared state is first used for a single-linkage call on a
            // matrix whose entries are all far BELOW the real ones (-1e9), for at least as many
            // observations: whatever scratch value survives a reset is then smaller than every
            // real key and shows in the heights
            if c.algo <= 1 && c.n >= 2 {
                let pn = c.n + (c.key() % 3);
                let poison = vec![-1e9f64; (pn * (pn - 1) / 2) as usize];
                let pb = to_bits(&poison, c.wide);
                let _ = if c.wide { run_reused::<f64>(&mut st64, &mut d64, 1, 0, pn, &pb) } else { run_reused::<f32>(&mut st32, &mut d32, 1, 0, pn, &pb) };
            }
            let out2 = if c.wide { run_reused::<f64>(&mut st64, &mut d64, c.algo, 0, c.n, &c.bits) } else { run_reused::<f32>(&mut st32, &mut d32, c.algo, 0, c.n, &c.bits) };
            rep.evaluations += 1;
            if let Some(v) = check_single_exact(&c, &out2, c.n <= 60) {
                rep.violation(format!("C04 violated on a reused LinkageState/Dendrogram (previous calls of this sweep, other sizes): {} :: {}_with {}", v, ALGO_NAMES[c.algo as usize], shorten(&c)));
            }
        }
        if c.n == 4 { rep.sample(format!("{} -> {}", c.describe(), join(&tokens(&out), " "))); }
    }
}

/// Move a matrix to another place on the magnitude axis (a power of two, so the structure of the
/// input - order, ties, ratios - is untouched): an absolute tolerance or threshold anywhere in the
/// code shows up at small or large magnitudes only.
fn rescale(rng: &mut Rng, v: &mut Vec<f64>, wide: bool) -> i32 {
    let sc = scale_of(v);
    if !(1e-6..=1e6).contains(&sc) { return 0; }
    let ks: &[i32] = if wide { &[-60, -200, -30, 40, 150, -100] } else { &[-30, -20, 20, -25] };
    let k = ks[rng.below(ks.len() as u64) as usize];
    let f = 2f64.powi(k);
    for x in v.iter_mut() { *x *= f; }
    k
}

// ------------------------------------------------------------------ C06
/// well separated matrix: a shuffled arithmetic progression (distinct, equal gaps)
fn separated_matrix(rng: &mut Rng, n: usize, kind: u64) -> Vec<f64> {
    let len = n * (n - 1) / 2;
    match kind {
        0 => { let mut v: Vec<f64> = (0..len).map(|k| 1.0 + k as f64 / len as f64).collect();
               for i in (1..len).rev() { let j = rng.below(i as u64 + 1) as usize; v.swap(i, j); } v }
        1 => matrix_f64(rng, n, "euclid", true),
        3 => {
            // points on a line with strictly shrinking gaps: the nearest neighbour of each point is
            // the next one, so a nearest-neighbour chain runs through (a large part of) all points
            let s = 50.0 + rng.unit() * 100.0;
            let xs: Vec<f64> = (0..n).map(|i| s * ((1 + i) as f64).ln()).collect();
            let mut lab: Vec<usize> = (0..n).collect();
            if rng.below(2) == 0 { for i in (1..n).rev() { let j = rng.below(i as u64 + 1) as usize; lab.swap(i, j); } }
            let mut v = Vec::with_capacity(len);
            for a in 0..n { for b in a + 1..n { v.push((xs[lab[a]] - xs[lab[b]]).abs()); } }
            v
        }
        4 | 5 => {
            // two widely separated scales in one matrix (ratio far below sqrt(MIN_POSITIVE)): groups
            // whose members are 1e-60 (f32: 1e-8) apart, at 1e120 (f32: 1e16) from each other; every
            // entry and every square is a normal number, so this is ordinary valid input
            let (lo, hi) = if kind == 4 { (1e-60, 1e120) } else { (1e-8, 1e16) };
            let g = 2 + rng.below(3) as usize;
            let mut us: Vec<f64> = (0..len).map(|k| 1.0 + 0.25 * (k as f64 + rng.unit() * 0.5) / len as f64).collect();
            for i in (1..len).rev() { let j = rng.below(i as u64 + 1) as usize; us.swap(i, j); }
            let mut v = Vec::with_capacity(len); let mut k = 0;
            for a in 0..n { for b in a + 1..n { v.push(if a % g == b % g { lo } else { hi } * us[k]); k += 1; } }
            v
        }
        6 => {
            // distinct signed values and exactly one zero (+0.0 or -0.0): "dissimilarities" need not be
            // non-negative, and a zero is not the smallest possible entry then
            let mut v: Vec<f64> = (0..len).map(|k| (k as f64 - len as f64 / 3.0 + 0.25) / len as f64).collect();
            for i in (1..len).rev() { let j = rng.below(i as u64 + 1) as usize; v.swap(i, j); }
            // the zero replaces the value nearest to it (keeps all gaps)
            let z = (0..len).min_by(|&a, &b| v[a].abs().partial_cmp(&v[b].abs()).unwrap()).unwrap();
            v[z] = if rng.below(2) == 0 { 0.0 } else { -0.0 };
            v
        }
        _ => matrix_f64(rng, n, "uniform", true),
    }
}

/// smallest RELATIVE gap between the minimum and the runner-up over the steps of the reference run,
/// and between consecutive sorted heights (for inputs that mix magnitudes)
fn relative_margin(n: usize, cond: &[f64], method: u8) -> f64 {
    let mut r = Replay::new(n, cond, method);
    let mut worst = f64::INFINITY; let mut hs = vec![];
    for _ in 1..n {
        let (m1, m2, (a, b)) = r.min2();
        if m2.is_finite() { worst = worst.min((m2 - m1) / m2.abs().max(f64::MIN_POSITIVE)); }
        hs.push(m1);
        r.merge(method, a, b);
    }
    if sorts(method) { hs.sort_by(|a, b| a.partial_cmp(b).unwrap()); for i in 1..hs.len() { worst = worst.min((hs[i] - hs[i - 1]) / hs[i].abs().max(f64::MIN_POSITIVE)); } }
    worst
}

fn margins_ok(reference: &[(usize, usize, f64, usize)], margin: f64, need: f64, method: u8) -> bool {
    if !(margin > need) { return false; }
    let mut hs: Vec<f64> = reference.iter().map(|s| s.2).collect();
    if sorts(method) { hs.sort_by(|a, b| a.partial_cmp(b).unwrap()); for i in 1..hs.len() { if hs[i] - hs[i - 1] <= need { return false; } } }
    true
}

fn agree(ctx: &Ctx, rep: &mut Report) {
    let mut rng = Rng::new(ctx.seed ^ 0xC06);
    let count = if ctx.big { 900 } else { 260 };
    let mut certified = 0u64; let mut skipped = 0u64;
    for i in 0..count {
        let method = (i % 7) as u8;
        let wide = i % 4 != 0;
        let cap: u64 = match (wide, ctx.big) { (true, false) => 60, (true, true) => 220, (false, false) => 14, (false, true) => 24 };
        // a band of larger sizes (word-size / block-size effects) also in the quick tier
        let n = if wide && i % 9 == 4 { rng.range(64, if ctx.big { 300 } else { 150 }) as usize }
                else if wide && i % 9 == 7 { if i % 2 == 0 { boundary_size(&mut rng, 257) as usize } else { rng.range(130, if ctx.big { 400 } else { 280 }) as usize } }
                else { rng.range(2, cap) as usize };
        let kind = if i % 8 == 5 { if wide { 4 } else { 5 } } else if i % 8 == 3 && !on_squares(method) { 6 } else { rng.below(4) };
        // long nearest-neighbour chains need enough points
        let n = if kind == 3 && wide { n.max(rng.range(66, if ctx.big { 260 } else { 140 }) as usize) } else { n };
        let n = if kind >= 4 { n.clamp(4, 60) } else { n };
        let mut v0 = separated_matrix(&mut rng, n, kind);
        if i % 3 == 1 && kind < 4 { rescale(&mut rng, &mut v0, wide); }
        let rel_kind = kind == 4 || kind == 5;
        let bits = to_bits(&v0, wide);
        let base = AlgoCase { algo: 0, method, wide, n: n as u64, bits, family: "separated" };
        let v = vals_of(&base);
        let sc = scale_of(&v);
        let need = if wide { 1e-10 } else { 2e-3 } * if on_squares(method) { sc * sc } else { sc };
        let (reference, margin) = reference(n, &v, method);
        tick(&ctx.progress, &base.describe());
        // mixed magnitudes: certify by relative gaps, compare heights relatively
        let rel = rel_kind;
        let rel_need = if wide { 1e-9 } else { 2e-3 };
        if rel { if !(relative_margin(n, &v, method) > rel_need) { skipped += 1; continue; } }
        else if !margins_ok(&reference, margin, need, method) { skipped += 1; continue; }
        certified += 1;
        let t = (if wide { 1e-9 } else { 1e-3 }) * sc * (1.0 + (n as f64).log2());
        for algo in 0..5u8 {
            if !accepts(algo, method) { continue; }
            if algo == 4 && n > 90 { continue; }   // primitive is cubic
            let c = AlgoCase { algo, ..base.clone() };
            let out = run_fresh_w(wide, algo, method, n as u64, &c.bits);
            rep.evaluations += 1;
            if n >= 3 { rep.nontrivial.insert(c.key()); }
            let steps = match &out { Outcome::Ok { steps, .. } => steps.clone(), Outcome::Panic(k, m) => { rep.violation(format!("C06 violated: panic {} {} :: {}", k, m, shorten(&c))); continue; } };
            // the reference in relabelled form: sorted methods are emitted by increasing height
            let mut order: Vec<usize> = (0..reference.len()).collect();
            if sorts(method) { order.sort_by(|&a, &b| reference[a].2.partial_cmp(&reference[b].2).unwrap()); }
            let mut relabel: HashMap<usize, usize> = HashMap::new();
            let mut bad: Option<String> = None;
            if steps.len() != reference.len() { bad = Some("different number of steps".to_string()); }
            else { for (pos, &ri) in order.iter().enumerate() {
                let (a, b, h, sz) = reference[ri];
                let ra = if a < n { a } else { *relabel.get(&a).unwrap_or(&usize::MAX) };
                let rb = if b < n { b } else { *relabel.get(&b).unwrap_or(&usize::MAX) };
                relabel.insert(n + ri, n + pos);
                let (x, y) = (ra.min(rb), ra.max(rb));
                let s = &steps[pos];
                let hh = if on_squares(method) { h.max(0.0).sqrt() } else { h };
                if (s.c1, s.c2, s.size) != (x, y, sz) { bad = Some(format!("step {}: ({}, {}, size {}) but the reference merges ({}, {}, size {})", pos, s.c1, s.c2, s.size, x, y, sz)); break; }
                let tol = if rel { (if wide { 1e-9 } else { 1e-3 }) * hh.abs() * (1.0 + (n as f64).log2()) } else { t };
                if (height(&c, s) - hh).abs() > tol { bad = Some(format!("step {}: height {:e} vs reference {:e}", pos, height(&c, s), hh)); break; }
            } }
            if let Some(b) = bad { rep.violation(format!("C06 violated: {} :: {}", b, shorten(&c))); }
            if n == 4 && algo == 0 { rep.sample(format!("{} -> {}", c.describe(), join(&tokens(&out), " "))); }
        }
    }
    rep.extra.push(("margin_certified".to_string(), certified.to_string()));
    rep.extra.push(("margin_rejected".to_string(), skipped.to_string()));
}

// ------------------------------------------------------------------ C09
fn scale_bits(bits: &[u64], wide: bool, k: i32) -> Vec<u64> {
    bits.iter().map(|&b| if wide { (f64::from_bits(b) * 2f64.powi(k)).to_bits() } else { (f32::from_bits(b as u32) * 2f32.powi(k)).to_bits() as u64 }).collect()
}

fn scale(ctx: &Ctx, rep: &mut Report) {
    let mut rng = Rng::new(ctx.seed ^ 0xC09);
    let count = if ctx.big { 1500 } else { 400 };
    let mut cases = ctx.cases.clone();
    while cases.len() < count + ctx.cases.len() {
        let algo = rng.below(5) as u8;
        let method = loop { let m = rng.below(7) as u8; if accepts(algo, m) { break m; } };
        let wide = rng.below(3) != 0;
        let cap = if algo == 4 { 30 } else if ctx.big { 120 } else { 60 };
        let n = rng.range(2, cap);
        let fam = ["uniform", "lattice", "duppoints", "euclid", "neartie", "allequal", "collinear"][rng.below(7) as usize];
        let mut v = matrix_f64(&mut rng, n as usize, fam, wide);
        // keep inside [2^-10, 2^10] so that every tested factor stays in the safe range
        let sc = scale_of(&v);
        if sc > 1000.0 { for x in v.iter_mut() { *x /= sc / 1000.0; } }
        if !wide { for x in v.iter_mut() { if *x != 0.0 && x.abs() < 1e-3 { *x = 1e-3; } } }
        cases.push(AlgoCase { algo, method, wide, n, bits: to_bits(&v, wide), family: fam });
    }
    for c in cases {
        // fixed factors plus factors drawn from the whole safe range (squares included): an
        // absolute constant anywhere on the magnitude axis is straddled by some case
        let mut ks: Vec<i32> = if c.wide { vec![1, -1, 10, -10, 60, -60, 100, -100] } else { vec![1, -1, 7, -7, 18, -18] };
        let span: i64 = if c.wide { 480 } else { 52 };
        for _ in 0..4 { ks.push((rng.below(2 * span as u64 + 1) as i64 - span) as i32); }
        let ks: &[i32] = &ks;
        tick(&ctx.progress, &c.describe());
        let base = run_fresh_w(c.wide, c.algo, c.method, c.n, &c.bits);
        let bs = match &base { Outcome::Ok { steps, .. } => steps.clone(), Outcome::Panic(..) => continue };
        // the safe range of the property: no intermediate value may overflow or leave the normal
        // range. Squared methods square the entries; sums carry factors up to 2n; differences of
        // quantities of magnitude X are 0 or at least about ulp(X), hence the margin of 2^-80 (f32: 2^-40)
        // below the smallest non-zero entry.
        let vals = vals_of(&c);
        let hi = vals.iter().fold(0.0f64, |m, x| m.max(x.abs()));
        let lo = vals.iter().filter(|x| **x != 0.0).fold(f64::INFINITY, |m, x| m.min(x.abs()));
        let e = if on_squares(c.method) { 2.0 } else { 1.0 };
        let (emax, emin) = if c.wide { (1023.0, -1022.0) } else { (127.0, -126.0) };
        let arithmetic = c.method >= 2;
        let in_safe_range = |k: i32| -> bool {
            if !arithmetic || hi == 0.0 { return true; }
            let top = e * (hi.log2() + k as f64) + ((4 * c.n.max(1)) as f64).log2();
            let bottom = e * (lo.log2() + k as f64) - (if c.wide { 80.0 } else { 40.0 });
            top < emax - 4.0 && bottom > emin
        };
        for &k in ks {
            if !in_safe_range(k) || !in_safe_range(0) { continue; }
            let sb = scale_bits(&c.bits, c.wide, k);
            // the scaled input must be exactly representable back (no under/overflow)
            if scale_bits(&sb, c.wide, -k) != c.bits { continue; }
            let out = run_fresh_w(c.wide, c.algo, c.method, c.n, &sb);
            rep.evaluations += 1;
            if c.n >= 3 { rep.nontrivial.insert(c.key() ^ (k as u64)); }
            let os = match &out { Outcome::Ok { steps, .. } => steps.clone(), Outcome::Panic(kk, m) => { rep.violation(format!("C09 violated: panic {} {} at factor 2^{} :: {}", kk, m, k, shorten(&c))); continue; } };
            let expect: Vec<StepB> = bs.iter().map(|s| StepB { bits: scale_bits(&[s.bits], c.wide, k)[0], ..s.clone() }).collect();
            // skip if a height left the representable range
            if scale_bits(&expect.iter().map(|s| s.bits).collect::<Vec<_>>(), c.wide, -k) != bs.iter().map(|s| s.bits).collect::<Vec<_>>() { continue; }
            if os != expect {
                let i = (0..os.len().min(expect.len())).find(|&i| os[i] != expect[i]).unwrap_or(0);
                rep.violation(format!("C09 violated: factor 2^{}: step {} is {:?} but scaling the unscaled result gives {:?} :: {}", k, i, os.get(i), expect.get(i), shorten(&c)));
            }
        }
        if c.n == 4 { rep.sample(format!("{} x 2^k for k in {:?}", c.describe(), ks)); }
    }
}

// ------------------------------------------------------------------ C10
fn apply_g(x: f64, g: u8, wide: bool) -> f64 {
    // 5..7: maps that compress the values into a tiny absolute range / expand them (an absolute
    // tolerance or threshold anywhere in the code shows up under these)
    let (tiny, base, step, big) = if wide { (2f64.powi(-60), 2f64.powi(-55), 2f64.powi(-62), 2f64.powi(40)) } else { (2f64.powi(-30), 2f64.powi(-25), 2f64.powi(-32), 2f64.powi(20)) };
    match g { 0 => 3.0 * x + 1.0, 1 => x * x * x, 2 => (x / 4.0).exp(), 3 => (x + 2.0).ln(), 5 => x * tiny, 6 => base + x * step, 7 => x * big, _ => x }
}

fn order_case(rep: &mut Report, c: &AlgoCase, gbits: &[u64], gname: &str, map: &dyn Fn(u64) -> u64) {
    let base = run_fresh_w(c.wide, c.algo, c.method, c.n, &c.bits);
    let out = run_fresh_w(c.wide, c.algo, c.method, c.n, gbits);
    rep.evaluations += 1;
    if c.n >= 3 { rep.nontrivial.insert(c.key() ^ hash64(gbits)); }
    match (&base, &out) {
        (Outcome::Ok { steps: bs, .. }, Outcome::Ok { steps: os, .. }) => {
            let expect: Vec<StepB> = bs.iter().map(|s| StepB { bits: map(s.bits), ..s.clone() }).collect();
            if *os != expect {
                let i = (0..os.len().min(expect.len())).find(|&i| os[i] != expect[i]).unwrap_or(0);
                rep.violation(format!("C10 violated: under g={} step {} is {:?} but g of the original step is {:?} :: {} gbits={}", gname, i, os.get(i), expect.get(i), shorten(c), coq_list(gbits)));
            }
        }
        (Outcome::Ok { .. }, Outcome::Panic(k, m)) => rep.violation(format!("C10 violated: panic {} {} under g={} :: {}", k, m, gname, shorten(c))),
        _ => {}
    }
}

fn order_only(ctx: &Ctx, rep: &mut Report) {
    let mut rng = Rng::new(ctx.seed ^ 0xC10);
    let count = if ctx.big { 1200 } else { 350 };
    let mut cases: Vec<AlgoCase> = ctx.cases.iter().filter(|c| c.method <= 1).cloned().collect();
    while cases.len() < count {
        let algo = rng.below(5) as u8;
        let method = if algo == 1 { 0 } else { rng.below(2) as u8 };
        let wide = rng.below(3) != 0;
        let cap = if algo == 4 { 30 } else if ctx.big { 100 } else { 50 };
        let n = rng.range(2, cap);
        let fam = ["uniform", "lattice", "duppoints", "euclid", "allequal", "sorted", "revsorted", "signed", "negative", "neartie", "neartie", "negzero", "tiechain", "maxmag"][rng.below(14) as usize];
        let v = matrix_f64(&mut rng, n as usize, fam, wide);
        cases.push(AlgoCase { algo, method, wide, n, bits: to_bits(&v, wide), family: fam });
    }
    for c in cases {
        tick(&ctx.progress, &c.describe());
        let v = vals_of(&c);
        for g in 0..9u8 {
            // table value -> g(value), in the case's width
            let mut keys: Vec<u64> = c.bits.clone(); keys.sort(); keys.dedup();
            let mut table: HashMap<u64, u64> = HashMap::new();
            if g == 4 {
                // rank transform
                let mut sorted: Vec<f64> = v.clone(); sorted.sort_by(|a, b| a.partial_cmp(b).unwrap()); sorted.dedup();
                for (&b, &x) in c.bits.iter().zip(&v) { let r = sorted.iter().position(|&y| y == x).unwrap() as f64; table.insert(b, to_bits(&[r], c.wide)[0]); }
            } else if g == 8 {
                // two scales: the largest value far above sqrt(MAX / n), all the others a full exponent
                // range below it and next to each other (an "exact" rescaling by the largest entry
                // pushes them into the subnormals)
                let mut sorted: Vec<f64> = v.clone(); sorted.sort_by(|a, b| a.partial_cmp(b).unwrap()); sorted.dedup();
                let (lo, step, hi) = if c.wide { (1e-160, 1e-12, 1e160) } else { (1e-24, 1e-5, 1e20) };
                let top = sorted.len() - 1;
                for (&b, &x) in c.bits.iter().zip(&v) {
                    let r = sorted.iter().position(|&y| y == x).unwrap();
                    let gx = if r == top && top > 0 { hi } else { lo * (1.0 + r as f64 * step) };
                    table.insert(b, to_bits(&[gx], c.wide)[0]);
                }
            } else {
                for (&b, &x) in c.bits.iter().zip(&v) { table.insert(b, to_bits(&[apply_g(x, g, c.wide)], c.wide)[0]); }
            }
            // g must be strictly increasing and injective on the values after rounding
            let mut pairs: Vec<(f64, f64)> = c.bits.iter().zip(&v).map(|(b, &x)| { let gb = table[b]; (x, if c.wide { f64::from_bits(gb) } else { f32::from_bits(gb as u32) as f64 }) }).collect();
            pairs.sort_by(|a, b| a.0.partial_cmp(&b.0).unwrap());
            let mut ok = pairs.iter().all(|p| p.1.is_finite());
            for w in pairs.windows(2) { if w[0].0 < w[1].0 && !(w[0].1 < w[1].1) { ok = false; } if w[0].0 == w[1].0 && w[0].1 != w[1].1 { ok = false; } }
            if !ok { continue; }
            let gbits: Vec<u64> = c.bits.iter().map(|b| table[b]).collect();
            let t2 = table.clone();
            order_case(rep, &c, &gbits, ["3x+1", "x^3", "exp(x/4)", "ln(x+2)", "rank", "x*2^-60|-30", "2^-55+x*2^-62|2^-25+x*2^-32", "x*2^40|20", "two-scale 1e-160..1e160|1e-24..1e20"][g as usize], &move |b| *t2.get(&b).unwrap_or(&u64::MAX));
        }
        if c.n == 4 { rep.sample(format!("{} under g in 3x+1, x^3, exp, ln, rank, tiny scale, tiny affine, big scale", c.describe())); }
    }
    // exhaustively all weak orderings of the entries for n <= 4 (sampled for n = 5)
    let mut weak = 0u64;
    for n in 2..=4u64 {
        let len = (n * (n - 1) / 2) as usize;
        let mut assign = vec![0usize; len];
        loop {
            // `assign` as a surjection onto 0..max: a weak ordering
            let mx = *assign.iter().max().unwrap();
            let surj = (0..=mx).all(|r| assign.contains(&r));
            if surj {
                weak += 1;
                for algo in 0..5u8 { for method in 0..2u8 { if !accepts(algo, method) { continue; }
                    let wide = (weak + algo as u64) % 2 == 0;
                    let a: Vec<f64> = assign.iter().map(|&r| r as f64).collect();
                    let b: Vec<f64> = assign.iter().map(|&r| ((r * r) as f64) * 0.37 + 5.0).collect();
                    let c = AlgoCase { algo, method, wide, n, bits: to_bits(&a, wide), family: "weakorder" };
                    let gb = to_bits(&b, wide);
                    let table: HashMap<u64, u64> = c.bits.iter().cloned().zip(gb.iter().cloned()).collect();
                    order_case(rep, &c, &gb, "r^2*0.37+5", &move |x| *table.get(&x).unwrap_or(&u64::MAX));
                }}
            }
            // next assignment in base len
            let mut i = 0;
            loop { if i == len { break; } assign[i] += 1; if assign[i] < len { break; } assign[i] = 0; i += 1; }
            if i == len { break; }
        }
    }
    rep.extra.push(("weak_orderings_enumerated".to_string(), weak.to_string()));
}

// ------------------------------------------------------------------ C11
fn permute(ctx: &Ctx, rep: &mut Report) {
    let mut rng = Rng::new(ctx.seed ^ 0xC11);
    let count = if ctx.big { 700 } else { 220 };
    let mut certified = 0u64;
    for i in 0..count {
        let method = (i % 7) as u8;
        let wide = i % 4 != 0;
        let cap: u64 = match (wide, ctx.big) { (true, false) => 50, (true, true) => 200, (false, false) => 12, (false, true) => 20 };
        // a band of larger sizes (word-size and block-size effects: 64, 128, ...) also in the quick tier
        let n = if wide && i % 9 == 4 { rng.range(64, if ctx.big { 300 } else { 150 }) as usize }
                else if wide && (i % 9 == 7 || i % 9 == 1) { if i % 2 == 0 { boundary_size(&mut rng, 257).max(3) as usize } else { rng.range(130, if ctx.big { 400 } else { 280 }) as usize } }
                else { rng.range(3, cap) as usize };
        let kind = if i % 8 == 3 && !on_squares(method) { 6 } else { rng.below(4) };
        let n = if kind == 6 { n.clamp(4, 60) } else { n };
        let mut v0 = separated_matrix(&mut rng, n, kind);
        if i % 3 == 1 && kind != 6 { rescale(&mut rng, &mut v0, wide); }
        let bits = to_bits(&v0, wide);
        let probe = AlgoCase { algo: 0, method, wide, n: n as u64, bits: bits.clone(), family: "separated" };
        let v = vals_of(&probe);
        let sc = scale_of(&v);
        let need = if wide { 1e-10 } else { 2e-3 } * if on_squares(method) { sc * sc } else { sc };
        let (reference, margin) = reference(n, &v, method);
        tick(&ctx.progress, &probe.describe());
        if !margins_ok(&reference, margin, need, method) { continue; }
        // all heights must be separated too, since the set family is compared by height
        certified += 1;
        let t = (if wide { 1e-9 } else { 1e-3 }) * sc * (1.0 + (n as f64).log2());
        let perms: Vec<Vec<usize>> = vec![
            (0..n).rev().collect(),
            (0..n).map(|k| (k + 1) % n).collect(),
            { let mut p: Vec<usize> = (0..n).collect(); p.swap(0, n - 1); p },
            { let mut p: Vec<usize> = (0..n).collect(); for k in (1..n).rev() { let j = rng.below(k as u64 + 1) as usize; p.swap(k, j); } p },
        ];
        for algo in 0..5u8 {
            if !accepts(algo, method) { continue; }
            if algo == 4 && n > 90 { continue; }   // primitive is cubic
            let c = AlgoCase { algo, ..probe.clone() };
            let fam0 = match family_of(&c, &run_fresh_w(wide, algo, method, n as u64, &bits)) { Some(f) => f, None => continue };
            for p in &perms {
                // matrix of the renumbered observations: new index i is old observation p[i]
                let mut pb = Vec::with_capacity(bits.len());
                for a in 0..n { for b in a + 1..n {
                    let (x, y) = (p[a].min(p[b]), p[a].max(p[b]));
                    pb.push(bits[(2 * n - x - 3) * x / 2 + y - 1]);
                }}
                let out = run_fresh_w(wide, algo, method, n as u64, &pb);
                rep.evaluations += 1;
                rep.nontrivial.insert(hash64(&pb) ^ algo as u64);
                let pc = AlgoCase { bits: pb.clone(), ..c.clone() };
                let fam1 = match family_of(&pc, &out) { Some(f) => f, None => { rep.violation(format!("C11 violated: permuted run failed :: {}", shorten(&pc))); continue; } };
                // map back: new index i -> old p[i]
                let mut back: Vec<(Vec<usize>, f64)> = fam1.into_iter().map(|(s, h)| { let mut m: Vec<usize> = s.iter().map(|&i| p[i]).collect(); m.sort(); (m, h) }).collect();
                back.sort_by(|a, b| a.0.cmp(&b.0));
                let mut f0 = fam0.clone(); f0.sort_by(|a, b| a.0.cmp(&b.0));
                let same = f0.len() == back.len() && f0.iter().zip(&back).all(|(a, b)| a.0 == b.0 && (a.1 - b.1).abs() <= t);
                if !same { rep.violation(format!("C11 violated: hierarchy changes under permutation {:?} :: {}", if n <= 12 { format!("{:?}", p) } else { "(long)".to_string() }, shorten(&c))); }
            }
        }
        if n == 4 { rep.sample(format!("{} under reversal/rotation/swap/random renumbering", probe.describe())); }
    }
    rep.extra.push(("margin_certified".to_string(), certified.to_string()));
}

/// clusters as sets of observations with their merge heights
fn family_of(c: &AlgoCase, o: &Outcome) -> Option<Vec<(Vec<usize>, f64)>> {
    let steps = match o { Outcome::Ok { steps, .. } => steps, _ => return None };
    let n = c.n as usize;
    if wf_steps(n, steps).is_some() { return None; }
    let mut members: Vec<Vec<usize>> = (0..n).map(|i| vec![i]).collect();
    let mut out = vec![];
    for s in steps {
        let mut m = members[s.c1].clone(); m.extend_from_slice(&members[s.c2]); m.sort();
        out.push((m.clone(), height(c, s)));
        members.push(m);
    }
    Some(out)
}

// ------------------------------------------------------------------ C07
fn run_reused<T: Bits>(st: &mut kodama::LinkageState<T>, d: &mut kodama::Dendrogram<T>, algo: u8, method: u8, n: u64, bits: &[u64]) -> Outcome {
    tick_global(&describe_call("call on a reused LinkageState/Dendrogram (used before for other sizes)", T::WIDE, algo, method, n, bits));
    let mut m: Vec<T> = bits.iter().map(|&b| T::from_bits64(b)).collect();
    match catch(|| call_with::<T>(algo, method, st, &mut m, n as usize, d)) {
        Ok(()) => Outcome::Ok { obs: d.observations(), steps: steps_of(d), after: m.iter().map(|x| x.to_bits64()).collect(), acc: 0 },
        Err((k, msg)) => Outcome::Panic(k, msg),
    }
}

/// The cubic primitive algorithm at a few thousand observations, f32: positions computed through
/// float arithmetic stop being exact there (f32 has 24 bits; (2n-1)^2 exceeds 2^24 from n = 2049, the
/// matrix length exceeds it from n = 5794). One call costs tens of seconds, so only the ends of
/// the first rows are probed, and only in the release profile.
fn slot_probe_big_primitive(ctx: &Ctx, rep: &mut Report) {
    if crate::streams::profile_name() != "release" { return; }
    let probes: Vec<(u64, usize, usize, bool)> = if ctx.big { vec![(4098, 0, 4097, false), (4100, 1, 4099, false), (4100, 2, 4099, false), (4098, 0, 4097, true)] } else { vec![(4098, 0, 4097, false)] };
    for (n, i, j, wide) in probes {
        let len = (n * (n - 1) / 2) as usize;
        let k = (i as u64 * (2 * n - i as u64 - 1) / 2) as usize + (j - i - 1);
        let mut v: Vec<f64> = (0..len).map(|x| 100.0 + (x % 1000) as f64).collect();
        v[k] = 0.25;
        tick(&ctx.progress, &format!("slot probe primitive n={} pair=({}, {})", n, i, j));
        let c = AlgoCase { algo: 4, method: 0, wide, n, bits: to_bits(&v, wide), family: "probe" };
        // the watchdogs allow 40 s per call: a helper thread keeps them quiet for up to 5 minutes
        let done = Arc::new(std::sync::atomic::AtomicBool::new(false));
        let (d2, p2) = (done.clone(), ctx.progress.clone());
        let what = format!("slot probe primitive n={} pair=({}, {}) (cubic: tens of seconds)", n, i, j);
        let hb = std::thread::spawn(move || {
            for _ in 0..60 {
                std::thread::sleep(Duration::from_secs(5));
                if d2.load(std::sync::atomic::Ordering::SeqCst) { break; }
                tick(&p2, &what); tick_global(&what);
            }
        });
        let out = run_fresh_w(wide, 4, 0, n, &c.bits);
        done.store(true, std::sync::atomic::Ordering::SeqCst);
        let _ = hb.join();
        rep.evaluations += 1;
        rep.nontrivial.insert(hash64(&[n, k as u64, 4, wide as u64]));
        match &out {
            Outcome::Panic(kk, m) => rep.violation(format!("C07 violated: panic {} {} on probe primitive n={} slot={}", kk, m, n, k)),
            Outcome::Ok { steps, .. } => {
                if steps.is_empty() || (steps[0].c1, steps[0].c2) != (i, j) || height(&c, &steps[0]) != 0.25 {
                    rep.violation(format!("C07 violated: n={} slot {} is pair ({}, {}) but the first step of primitive single {} merges ({}, {}) at {:e}",
                        n, k, i, j, if wide { "f64" } else { "f32" }, steps.get(0).map(|s| s.c1).unwrap_or(0), steps.get(0).map(|s| s.c2).unwrap_or(0), steps.get(0).map(|s| height(&c, s)).unwrap_or(f64::NAN)));
                }
            }
        }
    }
}

fn slot_probe(ctx: &Ctx, rep: &mut Report) {
    slot_probe_big_primitive(ctx, rep);
    let mut rng = Rng::new(ctx.seed ^ 0xC07);
    // half of the probes go through the `_with` forms on objects shared by all
    // probes (sizes change from probe to probe)
    let mut st64: kodama::LinkageState<f64> = kodama::LinkageState::new();
    let mut d64: kodama::Dendrogram<f64> = kodama::Dendrogram::new(0);
    let mut st32: kodama::LinkageState<f32> = kodama::LinkageState::new();
    let mut d32: kodama::Dendrogram<f32> = kodama::Dendrogram::new(0);
    let mut probe_no = 0u64;
    let sizes: Vec<u64> = if ctx.big { vec![2, 3, 4, 5, 6, 7, 9, 12, 17, 33, 64, 100, 257, 700, 1500, 3000] } else { vec![2, 3, 4, 5, 6, 8, 11, 16, 31, 64, 150, 400, 1000] };
    for &n in &sizes {
        let len = (n * (n - 1) / 2) as usize;
        let prs = pairs(n as usize);
        let slots: Vec<usize> = if len <= 60 { (0..len).collect() } else { let mut s: Vec<usize> = vec![0, 1, len - 1, len - 2, n as usize - 2, n as usize - 1, n as usize]; for _ in 0..(if ctx.big { 24 } else { 10 }) { s.push(rng.below(len as u64) as usize); } s };
        for &k in &slots {
            let k2 = if len >= 2 { let mut x = rng.below(len as u64) as usize; if x == k { x = (x + 1) % len; } Some(x) } else { None };
            let mut v: Vec<f64> = (0..len).map(|i| 100.0 + i as f64).collect();
            v[k] = 1.0;
            if let Some(x) = k2 { v[x] = 2.0; }
            // the same probe below zero: every other entry is exactly 0.0 (or -0.0), the two probed
            // slots are negative - dissimilarities need not be positive, and "nothing is closer than
            // zero" shortcuts show only here
            if n <= 64 {
                let mut w: Vec<f64> = (0..len).map(|i| if i % 3 == 0 { -0.0 } else { 0.0 }).collect();
                w[k] = -2.0;
                if let Some(x) = k2 { w[x] = -1.0; }
                let prs0 = &prs;
                for algo in 0..5u8 {
                    // (not the methods that square the entries: they order by magnitude)
                    let methods: Vec<u8> = if n <= 16 { (0..4).filter(|&m| accepts(algo, m)).collect() } else { vec![0] };
                    for method in methods {
                        let wide = (k + algo as usize) % 2 == 0;
                        let c = AlgoCase { algo, method, wide, n, bits: to_bits(&w, wide), family: "probe0" };
                        let out = run_fresh_w(wide, algo, method, n, &c.bits);
                        rep.evaluations += 1;
                        if let Outcome::Ok { steps, .. } = &out {
                            let (i, j) = prs0[k];
                            if steps.is_empty() || (steps[0].c1, steps[0].c2) != (i, j) || height(&c, &steps[0]) != -2.0 {
                                rep.violation(format!("C07 violated: n={} slot {} is pair ({}, {}) with the unique smallest entry -2 (all other entries 0 or -1) but the first step of {} {} {} merges ({}, {}) at {:e}",
                                    n, k, i, j, ALGO_NAMES[algo as usize], METHOD_NAMES[method as usize], if wide { "f64" } else { "f32" },
                                    steps.get(0).map(|s| s.c1).unwrap_or(0), steps.get(0).map(|s| s.c2).unwrap_or(0), steps.get(0).map(|s| height(&c, s)).unwrap_or(f64::NAN)));
                            } else if method == 0 && steps.len() >= 2 {
                                if let Some(x) = k2 {
                                    let (p, q) = prs0[x];
                                    let lab = |o: usize| if o == i || o == j { n as usize } else { o };
                                    let want = (lab(p).min(lab(q)), lab(p).max(lab(q)));
                                    if (steps[1].c1, steps[1].c2) != want || height(&c, &steps[1]) != -1.0 {
                                        rep.violation(format!("C07 violated: n={} (entries 0 except -2 at slot {} and -1 at slot {} = pair ({}, {})): second step of {} single is ({}, {}) at {:e}, expected {:?} at -1",
                                            n, k, x, p, q, ALGO_NAMES[algo as usize], steps[1].c1, steps[1].c2, height(&c, &steps[1]), want));
                                    }
                                }
                            }
                        } else if let Outcome::Panic(kk, m) = &out { rep.violation(format!("C07 violated: panic {} {} on zero-background probe n={} slot={}", kk, m, n, k)); }
                    }
                }
            }
            // the probed slot holds the IEEE negative zero, everything else is positive: -0.0 is the
            // unique smallest entry (it compares equal to +0.0 and below every positive value), whatever
            // its bit pattern looks like as an integer
            if n <= 64 {
                let mut z = v.clone(); z[k] = -0.0;
                for algo in 0..5u8 {
                    let methods: Vec<u8> = if n <= 16 { (0..4).filter(|&m| accepts(algo, m)).collect() } else { vec![if accepts(algo, 1) { 1 } else { 0 }] };
                    for method in methods {
                        let wide = (k + algo as usize) % 2 == 1;
                        let c = AlgoCase { algo, method, wide, n, bits: to_bits(&z, wide), family: "probe-0" };
                        let out = run_fresh_w(wide, algo, method, n, &c.bits);
                        rep.evaluations += 1;
                        match &out {
                            Outcome::Ok { steps, .. } => {
                                let (i, j) = prs[k];
                                if steps.is_empty() || (steps[0].c1, steps[0].c2) != (i, j) || height(&c, &steps[0]) != 0.0 {
                                    rep.violation(format!("C07 violated: n={} slot {} is pair ({}, {}) and holds -0.0, the unique smallest entry (all others >= 2) but the first step of {} {} {} merges ({}, {}) at {:e}",
                                        n, k, i, j, ALGO_NAMES[algo as usize], METHOD_NAMES[method as usize], if wide { "f64" } else { "f32" },
                                        steps.get(0).map(|s| s.c1).unwrap_or(0), steps.get(0).map(|s| s.c2).unwrap_or(0), steps.get(0).map(|s| height(&c, s)).unwrap_or(f64::NAN)));
                                }
                            }
                            Outcome::Panic(kk, m) => rep.violation(format!("C07 violated: panic {} {} on negative-zero probe n={} slot={}", kk, m, n, k)),
                        }
                    }
                }
            }
            for algo in 0..5u8 {
                if algo == 4 && n > 150 { continue; }
                let methods: Vec<u8> = if n <= 16 { (0..7).filter(|&m| accepts(algo, m)).collect() } else { vec![0] };
                for method in methods {
                    let wide = (k + algo as usize) % 3 != 0 || n > 1000;
                    let c = AlgoCase { algo, method, wide, n, bits: to_bits(&v, wide), family: "probe" };
                    tick(&ctx.progress, &format!("slot probe n={} k={} {}", n, k, ALGO_NAMES[algo as usize]));
                    probe_no += 1;
                    let reused = probe_no % 2 == 1;
                    let out = if !reused { run_fresh_w(wide, algo, method, n, &c.bits) }
                              else if wide { run_reused::<f64>(&mut st64, &mut d64, algo, method, n, &c.bits) }
                              else { run_reused::<f32>(&mut st32, &mut d32, algo, method, n, &c.bits) };
                    rep.evaluations += 1;
                    rep.nontrivial.insert(hash64(&[n, k as u64, algo as u64, method as u64]));
                    let steps = match &out { Outcome::Ok { steps, .. } => steps, Outcome::Panic(kk, m) => { rep.violation(format!("C07 violated: panic {} {} on probe n={} slot={}", kk, m, n, k)); continue; } };
                    if steps.is_empty() { rep.violation(format!("C07 violated: no steps for probe n={}", n)); continue; }
                    let (i, j) = prs[k];
                    let s0 = &steps[0];
                    if (s0.c1, s0.c2) != (i, j) || height(&c, s0) != 1.0 {
                        rep.violation(format!("C07 violated: n={} slot {} is pair ({}, {}) but the first step of {}{} {} {} merges ({}, {}) at {:e}",
                            n, k, i, j, ALGO_NAMES[algo as usize], if reused { "_with (state reused from earlier probes of other sizes)" } else { "" }, METHOD_NAMES[method as usize], if wide { "f64" } else { "f32" }, s0.c1, s0.c2, height(&c, s0)));
                        continue;
                    }
                    if method == 0 && steps.len() >= 2 {
                        if let Some(x) = k2 {
                            let (p, q) = prs[x];
                            let s1 = &steps[1];
                            let lab = |o: usize| if o == i || o == j { n as usize } else { o };
                            let want = (lab(p).min(lab(q)), lab(p).max(lab(q)));
                            if (s1.c1, s1.c2) != want || height(&c, s1) != 2.0 {
                                rep.violation(format!("C07 violated: n={} slot2={} pair=({}, {}): second step of {}{} single is ({}, {}) at {:e}, expected {:?} at 2",
                                    n, x, p, q, ALGO_NAMES[algo as usize], if reused { "_with (reused state)" } else { "" }, s1.c1, s1.c2, height(&c, s1), want));
                            }
                        }
                    }
                    if n == 4 && k == 3 && algo == 0 && method == 0 { rep.sample(format!("{} -> {}", c.describe(), join(&tokens(&out), " "))); }
                }
            }
        }
    }
}

// ------------------------------------------------------------------ C14
fn cost(ctx: &Ctx, rep: &mut Report) {
    let mut rng = Rng::new(ctx.seed ^ 0xC14);
    let sizes: Vec<u64> = if ctx.big { vec![8, 9, 13, 21, 34, 55, 89, 144, 233, 256, 300, 377, 610, 1000] } else { vec![8, 10, 16, 27, 45, 80, 140, 250, 256, 300, 420] };
    let mut worst = 0.0f64;
    let mut cases: Vec<AlgoCase> = ctx.cases.iter().filter(|c| c.method <= 4 && c.algo <= 2 && c.n >= 8).cloned().collect();
    for &n in &sizes {
        for fam in ["sorted", "revsorted", "allequal", "lattice", "collinear", "uniform", "neartie", "duppoints", "euclid", "staircase", "hugechain", "rampdips"] {
            for method in 0..5u8 { for &algo in &[0u8, 2, 1] {
                if !accepts(algo, method) { continue; }
                // next to the largest finite value Ward's squares overflow (outside its domain)
                if fam == "hugechain" && method == 4 { continue; }
                if algo == 1 && fam != "uniform" && fam != "lattice" { continue; }
                let wide = rng.below(4) != 0;
                let v = matrix_f64(&mut rng, n as usize, fam, wide);
                cases.push(AlgoCase { algo, method, wide, n, bits: to_bits(&v, wide), family: if fam == "sorted" { "sorted" } else if fam == "revsorted" { "revsorted" } else if fam == "staircase" { "staircase" } else if fam == "hugechain" { "hugechain" } else { "other" } });
            }}
        }
    }
    // a long nearest-neighbour chain (geometric progression on a line) plus a tight pair off the line,
    // one of whose members is observation 0: the pair is merged first, through a short chain, and its
    // survivor then stays off the long chain for the rest of the run
    for &n in &sizes {
        if n < 16 { continue; }
        for &(ratio, j) in &[(1.1f64, 2usize), (1.3, 5), (1.05, 3)] {
            let nn = n as usize;
            let h = ratio.powi((0.8 * n as f64) as i32);
            let mut pts: Vec<(f64, f64)> = vec![(0.0, 0.0); nn];
            let mut e = nn as i32 - 3;
            for i in 0..nn { if i == 0 { pts[i] = (0.0, h); } else if i == j { pts[i] = (1e-6 * h, h); } else { pts[i] = (ratio.powi(e), 0.0); e -= 1; } }
            let mut v = Vec::with_capacity(nn * (nn - 1) / 2);
            for a in 0..nn { for b in a + 1..nn { let (dx, dy) = (pts[a].0 - pts[b].0, pts[a].1 - pts[b].1); v.push((dx * dx + dy * dy).sqrt()); } }
            if !v.iter().all(|x| x.is_finite()) { continue; }
            for method in 0..5u8 { for &algo in &[0u8, 2] {
                if !accepts(algo, method) { continue; }
                if method == 4 && v.iter().any(|x| *x > 1e150) { continue; }
                let wide = !(ratio == 1.05 && n <= 300 && method == 2);
                if !wide && v.iter().any(|x| *x > 1e30) { continue; }
                cases.push(AlgoCase { algo, method, wide, n, bits: to_bits(&v, wide), family: "satellite" });
            }}
        }
    }
    // a block of exact duplicates at the far end of one long chain (zero is the floor of the squared
    // methods: "merge duplicates at once" shortcuts must keep the chain they were found through)
    for &n in &sizes {
        if n < 16 { continue; }
        for method in 0..5u8 { for &algo in &[0u8, 2] {
            if !accepts(algo, method) { continue; }
            let wide = (n + method as u64) % 3 != 0;
            let v = matrix_f64(&mut rng, n as usize, "decgapdups", wide);
            cases.push(AlgoCase { algo, method, wide, n, bits: to_bits(&v, wide), family: "decgapdups" });
        }}
    }
    for c in cases {
        tick(&ctx.progress, &c.describe());
        let out = run_fresh_w(c.wide, c.algo, c.method, c.n, &c.bits);
        rep.evaluations += 1;
        rep.nontrivial.insert(c.key());
        if let Outcome::Ok { acc, .. } = out {
            let bound = 10 * c.n * c.n + 50 * c.n;
            let ratio = acc as f64 / bound as f64;
            if ratio > worst { worst = ratio; }
            if acc > bound { rep.violation(format!("C14 violated: {} matrix accesses > 10n^2+50n = {} :: {}", acc, bound, shorten(&c))); }
            if c.n == 8 { rep.sample(format!("{} {} n=8 {}: {} accesses (bound {})", ALGO_NAMES[c.algo as usize], METHOD_NAMES[c.method as usize], c.family, acc, bound)); }
        }
    }
    rep.extra.push(("worst_ratio_to_bound".to_string(), format!("{:.4}", worst)));
    rep.extra.push(("hook_active".to_string(), format!("{}", cfg!(kodama_verif))));
}

// ------------------------------------------------------------------ C08
/// What a call on reused objects must satisfy for the property being checked: C08 - equal to the
/// same call on fresh objects; C12 - no panic (where the fresh call does not panic) and finite
/// heights; C05 - no inversion; C01 / C19 - well formed. Anything else is not this property's business.
fn reused_call_violates(ctx: &Ctx, c: &AlgoCase, warm: &Outcome, fresh: &Outcome) -> Option<String> {
    match ctx.prop.as_str() {
        "C12" => match (warm, fresh) {
            (Outcome::Panic(k, m), Outcome::Ok { .. }) => Some(format!("panic class {} ({})", k, m)),
            _ => check_safety(ctx, c, warm),
        },
        "C05" => check_monotone(ctx, c, warm),
        "C01" | "C19" => check_wf(ctx, c, warm),
        _ => {
            let same = match (warm, fresh) {
                (Outcome::Ok { steps: a, obs: oa, .. }, Outcome::Ok { steps: b, obs: ob, .. }) => a == b && oa == ob,
                (Outcome::Panic(..), Outcome::Panic(..)) => true,
                _ => false,
            };
            if same { None } else { Some(format!("differs from the same call on fresh objects: reused={} fresh={}",
                join(&tokens(warm), " ").chars().take(160).collect::<String>(), join(&tokens(fresh), " ").chars().take(160).collect::<String>())) }
        }
    }
}

/// Long histories of the SAME entry point on one LinkageState / Dendrogram (what a caller that
/// clusters many matrices in a loop does): anything that accumulates from call to call - counters,
/// sizes, capacities - needs dozens of calls to show. Every call is compared with a fresh call.
fn long_histories(ctx: &Ctx, rep: &mut Report) {
    let mut rng = Rng::new(ctx.seed ^ 0x10C8);
    let rounds = if ctx.big { 160 } else { 90 };
    for (algo, method) in [(1u8, 0u8), (0, 0), (0, 2), (2, 1), (2, 4), (3, 5), (3, 0), (4, 3), (0, 6)] {
        for &wide in &[true, false] {
            for &n in &[70u64, 24, 5] {
                if algo == 4 && n > 30 { continue; }
                let mut st64: kodama::LinkageState<f64> = kodama::LinkageState::new();
                let mut d64: kodama::Dendrogram<f64> = kodama::Dendrogram::new(0);
                let mut st32: kodama::LinkageState<f32> = kodama::LinkageState::new();
                let mut d32: kodama::Dendrogram<f32> = kodama::Dendrogram::new(0);
                for k in 0..rounds {
                    let fam = ["uniform", "euclid", "lattice"][k % 3];
                    let v = matrix_f64(&mut rng, n as usize, fam, wide);
                    let bits = to_bits(&v, wide);
                    tick(&ctx.progress, &format!("long history call {} {} {} n={}", k, ALGO_NAMES[algo as usize], METHOD_NAMES[method as usize], n));
                    let warm = if wide { run_reused::<f64>(&mut st64, &mut d64, algo, method, n, &bits) } else { run_reused::<f32>(&mut st32, &mut d32, algo, method, n, &bits) };
                    let fresh = run_fresh_w(wide, algo, method, n, &bits);
                    rep.evaluations += 1;
                    let cc = AlgoCase { algo, method, wide, n, bits: bits.clone(), family: "history" };
                    if let Some(why) = reused_call_violates(ctx, &cc, &warm, &fresh) {
                        rep.violation(format!("{} violated: call #{} of {} consecutive {}_with {} {} calls (n={}, new matrix each call) on one LinkageState/Dendrogram: {}",
                            ctx.prop, k + 1, rounds, ALGO_NAMES[algo as usize], METHOD_NAMES[method as usize], if wide { "f64" } else { "f32" }, n, why));
                        break;
                    }
                }
            }
        }
    }
}

/// Histories that are long enough for narrow counters, stamps and epochs kept inside the reused
/// objects to wrap (256 and 65536 calls), with a few much larger problems placed one period apart,
/// at the wrap itself and just around it; all other calls are tiny. Every call is compared with a
/// fresh call.
fn wrap_histories(ctx: &Ctx, rep: &mut Report) {
    let mut rng = Rng::new(ctx.seed ^ 0x3A9);
    let schedules: Vec<(usize, Vec<usize>)> = vec![
        (600, vec![40, 296, 552]), (600, vec![256, 512]), (600, vec![255, 511]), (600, vec![257, 513]), (300, vec![128, 129]),
        (66000, vec![100, 65636]), (66000, vec![65536]),
    ];
    for (si, (total, bigs)) in schedules.iter().enumerate() {
        let combos: &[(u8, u8)] = if *total > 1000 { &[(1, 0), (2, 2)] } else { &[(1, 0), (0, 0), (2, 1), (2, 4), (0, 2), (3, 0), (3, 6)] };
        for &(algo, method) in combos {
            for &wide in (if *total > 1000 { &[true][..] } else { &[true, false][..] }) {
                let mut st64: kodama::LinkageState<f64> = kodama::LinkageState::new();
                let mut d64: kodama::Dendrogram<f64> = kodama::Dendrogram::new(0);
                let mut st32: kodama::LinkageState<f32> = kodama::LinkageState::new();
                let mut d32: kodama::Dendrogram<f32> = kodama::Dendrogram::new(0);
                let small = matrix_f64(&mut rng, 4, "uniform", wide);
                let small_bits = to_bits(&small, wide);
                let small_fresh = run_fresh_w(wide, algo, method, 4, &small_bits);
                for call in 1..=*total {
                    let big = bigs.contains(&call);
                    if call % 512 == 0 || big { tick(&ctx.progress, &format!("wrap history schedule {} call {} {} {}", si, call, ALGO_NAMES[algo as usize], METHOD_NAMES[method as usize])); }
                    let (n, bits, fresh) = if big {
                        let v = matrix_f64(&mut rng, 60, "euclid", wide); let b = to_bits(&v, wide);
                        let f = run_fresh_w(wide, algo, method, 60, &b); (60u64, b, f)
                    } else { (4u64, small_bits.clone(), small_fresh.clone()) };
                    let warm = if wide { run_reused_quiet::<f64>(&mut st64, &mut d64, algo, method, n, &bits) } else { run_reused_quiet::<f32>(&mut st32, &mut d32, algo, method, n, &bits) };
                    rep.evaluations += 1;
                    let cc = AlgoCase { algo, method, wide, n, bits: bits.clone(), family: "history" };
                    if let Some(why) = reused_call_violates(ctx, &cc, &warm, &fresh) {
                        rep.violation(format!("{} violated: call #{} (n={}) of a history of {} calls on one LinkageState/Dendrogram - {}_with {} {}, n=4 except n=60 at calls {:?}: {}",
                            ctx.prop, call, n, total, ALGO_NAMES[algo as usize], METHOD_NAMES[method as usize], if wide { "f64" } else { "f32" }, bigs, why));
                        break;
                    }
                }
            }
        }
    }
}

fn run_reused_quiet<T: Bits>(st: &mut kodama::LinkageState<T>, d: &mut kodama::Dendrogram<T>, algo: u8, method: u8, n: u64, bits: &[u64]) -> Outcome {
    let mut m: Vec<T> = bits.iter().map(|&b| T::from_bits64(b)).collect();
    match catch(|| call_with::<T>(algo, method, st, &mut m, n as usize, d)) {
        Ok(()) => Outcome::Ok { obs: d.observations(), steps: steps_of(d), after: m.iter().map(|x| x.to_bits64()).collect(), acc: 0 },
        Err((k, msg)) => Outcome::Panic(k, msg),
    }
}

fn reuse(ctx: &Ctx, rep: &mut Report) {
    long_histories(ctx, rep);
    wrap_histories(ctx, rep);
    let mut rng = Rng::new(ctx.seed ^ 0xC08);
    let count = if ctx.big { 4000 } else { 600 };
    let mut all: Vec<(History, Vec<Outcome>)> = vec![];
    for i in 0..count {
        let h = history(&mut rng, true);
        tick(&ctx.progress, &format!("history {}", i));
        let outs = if h.wide { crate::streams::run_history::<f64>(&h) } else { crate::streams::run_history::<f32>(&h) };
        for (k, (c, o)) in h.calls.iter().zip(&outs).enumerate() {
            rep.evaluations += 1;
            let fresh = run_fresh_w(h.wide, c.algo, c.method, c.n, &c.bits);
            let same = match (o, &fresh) {
                (Outcome::Ok { steps: a, obs: oa, after: ma, .. }, Outcome::Ok { steps: b, obs: ob, after: mb, .. }) => a == b && oa == ob && ma == mb,
                (Outcome::Panic(..), Outcome::Panic(..)) => true,
                _ => false,
            };
            if !same {
                rep.violation(format!("C08 violated: call #{} of a history on a reused state differs from the same call on fresh objects: reused={} fresh={} :: history {}",
                    k, join(&tokens(o), " "), join(&tokens(&fresh), " "), crate::streams::history_coq(&h)));
                break;
            }
        }
        if h.calls.len() >= 3 { rep.nontrivial.insert(hash64(&h.calls.iter().flat_map(|c| vec![c.algo as u64, c.method as u64, c.n, hash64(&c.bits)]).collect::<Vec<_>>())); }
        if i < 2 { rep.sample(crate::streams::history_coq(&h)); }
        if i < 64 { all.push((h, outs)); }
    }
    // concurrency: the same histories on 16 threads at once must give the same bits
    let shared = Arc::new(all);
    let mut handles = vec![];
    for t in 0..16usize {
        let sh = shared.clone();
        handles.push(std::thread::spawn(move || {
            crate::common::install_panic_hook();
            let mut bad = vec![];
            for r in 0..sh.len() {
                let (h, outs) = &sh[(r + t * 5) % sh.len()];
                let again = if h.wide { crate::streams::run_history::<f64>(h) } else { crate::streams::run_history::<f32>(h) };
                let same = again.len() == outs.len() && again.iter().zip(outs.iter()).all(|(a, b)| tokens(a) == tokens(b));
                if !same { bad.push(crate::streams::history_coq(h)); }
            }
            bad
        }));
    }
    let mut threaded = 0u64;
    for hnd in handles { match hnd.join() { Ok(bad) => { threaded += shared.len() as u64; for b in bad { rep.violation(format!("C08 violated: history gives different bits when run concurrently on 16 threads :: {}", b)); } } Err(_) => rep.violation("C08 violated: worker thread panicked".to_string()) } }
    rep.evaluations += threaded;
    rep.extra.push(("histories_on_16_threads".to_string(), threaded.to_string()));
    // ... and larger problems of DIFFERENT sizes at the same moment, each thread on its own state,
    // dendrogram and matrix (anything shared behind the scenes - a process-wide cache keyed by the
    // size, say - is hit by calls that start within nanoseconds of each other)
    let sizes: [u64; 6] = [512, 520, 528, 536, 600, 1030];
    let mut refs: Vec<(u64, Vec<u64>, Outcome, Outcome)> = vec![];
    for &n in &sizes {
        let v = matrix_f64(&mut rng, n as usize, "uniform", true);
        let bits = to_bits(&v, true);
        tick(&ctx.progress, &format!("concurrent sizes: reference n={}", n));
        let r1 = run_fresh_w(true, 1, 0, n, &bits);
        let r2 = run_fresh_w(true, 0, 2, n, &bits);
        refs.push((n, bits, r1, r2));
    }
    let refs = Arc::new(refs);
    let rounds = if ctx.big { 2000 } else { 800 };
    let mut handles = vec![];
    for t in 0..16usize {
        let rf = refs.clone();
        handles.push(std::thread::spawn(move || {
            crate::common::install_panic_hook();
            let mut st: kodama::LinkageState<f64> = kodama::LinkageState::new();
            let mut d: kodama::Dendrogram<f64> = kodama::Dendrogram::new(0);
            let mut bad: Vec<String> = vec![];
            for r in 0..rounds {
                // mostly one size per thread (so that the threads differ), now and then another one
                let (n, bits, r1, r2) = &rf[if r % 7 == 6 { (t + r) % 6 } else { t % 6 }];
                let average = r % 16 == 5;
                let out = run_reused_quiet::<f64>(&mut st, &mut d, if average { 0 } else { 1 }, if average { 2 } else { 0 }, *n, bits);
                if tokens(&out) != tokens(if average { r2 } else { r1 }) && bad.len() < 3 {
                    bad.push(format!("thread {} call #{}: {} n={} differs from the single-threaded fresh call{}", t, r + 1, if average { "linkage_with average" } else { "mst_with" }, n,
                        match &out { Outcome::Panic(k, m) => format!(" (panic {} {})", k, m), _ => String::new() }));
                }
            }
            bad
        }));
    }
    let mut conc = 0u64;
    for hnd in handles { match hnd.join() { Ok(bad) => { conc += rounds as u64; for b in bad { rep.violation(format!("C08 violated: 16 threads clustering matrices of different sizes (512 .. 1030) at once, each on its own objects :: {}", b)); } } Err(_) => rep.violation("C08 violated: worker thread panicked".to_string()) } }
    rep.evaluations += conc;
    rep.extra.push(("concurrent_calls_of_different_sizes".to_string(), conc.to_string()));
}

// ------------------------------------------------------------------ C19
/// independent statement of the container contract, checked on the public API
fn container(ctx: &Ctx, rep: &mut Report) {
    use kodama::{Dendrogram, Step};
    let mut rng = Rng::new(ctx.seed ^ 0xC19);
    let rounds = if ctx.big { 6000 } else { 1500 };
    'rounds: for r in 0..rounds {
        tick(&ctx.progress, &format!("container round {}", r));
        let n = rng.below(9) as usize;
        let mut d: Dendrogram<f64> = if r % 2 == 0 { Dendrogram::new(n) } else { let mut x = Dendrogram::new(rng.below(9) as usize); x.reset(n); x };
        rep.evaluations += 1;
        if d.len() != 0 || d.observations() != n { rep.violation(format!("C19 violated: new/reset({}) gives len {} observations {}", n, d.len(), d.observations())); }
        // capacity: exactly n-1 pushes
        let cap = n.saturating_sub(1);
        let mut sizes: Vec<usize> = vec![];
        for k in 0..cap + 2 {
            let (c1, c2, sz) = (rng.below(20) as usize, rng.below(20) as usize, 1 + rng.below(9) as usize);
            // non-NaN dissimilarities include the infinities (clustering returns them for +inf input)
            let x = match rng.below(14) { 0 => f64::INFINITY, 1 => f64::NEG_INFINITY, _ => (rng.below(50) as f64) * 0.25 };
            let res = catch(|| d.push(Step::new(c1, c2, x, sz)));
            rep.evaluations += 1;
            if (k < cap) != res.is_ok() { rep.violation(format!("C19 violated: Dendrogram for n={}: push #{} {}", n, k + 1, if res.is_ok() { "accepted beyond n-1" } else { "rejected" })); continue 'rounds; }
            if res.is_ok() {
                sizes.push(sz);
                let s = &d[k];
                if (s.cluster1, s.cluster2) != (c1.min(c2), c1.max(c2)) || s.size != sz || s.dissimilarity != x {
                    rep.violation(format!("C19 violated: Step::new({}, {}, {}, {}) stored as ({}, {}, {}, {})", c1, c2, x, sz, s.cluster1, s.cluster2, s.dissimilarity, s.size));
                }
            }
        }
        for label in 0..n + d.len() {
            let want = if label < n { 1 } else { sizes[label - n] };
            match catch(|| d.cluster_size(label)) {
                Ok(v) if v == want => {}
                other => rep.violation(format!("C19 violated: cluster_size({}) on n={} len={} gives {:?}, expected {}", label, n, d.len(), other.map_err(|e| e.1), want)),
            }
            rep.evaluations += 1;
        }
        if d.len() > 0 {
            let i = rng.below(d.len() as u64) as usize;
            let (a, b) = (rng.below(30) as usize, rng.below(30) as usize);
            d[i].set_clusters(a, b);
            if (d[i].cluster1, d[i].cluster2) != (a.min(b), a.max(b)) { rep.violation(format!("C19 violated: set_clusters({}, {}) stored ({}, {})", a, b, d[i].cluster1, d[i].cluster2)); }
        }
        // eq_with_epsilon against its statement, on dendrograms of possibly different length / n
        let n2 = if rng.below(3) == 0 { rng.below(9) as usize } else { n };
        let mut e: Dendrogram<f64> = Dendrogram::new(n2);
        let len2 = if rng.below(3) == 0 { rng.below(n2.max(1) as u64) as usize } else { d.len().min(n2.saturating_sub(1)) };
        for k in 0..len2 {
            let (c1, c2, x, sz) = if k < d.len() { (d[k].cluster1, d[k].cluster2, d[k].dissimilarity, d[k].size) } else { (1, 2, 1.0, 2) };
            let x2 = match rng.below(16) { 0..=2 => x + 0.5, 3..=5 => x - 0.125, 6..=8 => x * (1.0 + 1e-9), 9 => f64::INFINITY, 10 => -x, _ => x };
            let x2 = if x2.is_nan() { x } else { x2 };
            let (c1, sz) = (if rng.below(12) == 0 { c1 + 1 } else { c1 }, if rng.below(12) == 0 { sz + 1 } else { sz });
            let _ = catch(|| e.push(Step::new(c1, c2, x2, sz)));
        }
        for eps in [0.0, 0.125, 0.5, 1e-9, 0.4999, 3.0, f64::MAX, f64::INFINITY] {
            // "differing by at most epsilon": equal values (equal infinities too) differ by 0
            let want = d.len() == e.len() && d.steps().iter().zip(e.steps()).all(|(s, t)|
                s.cluster1 == t.cluster1 && s.cluster2 == t.cluster2 && s.size == t.size
                && (s.dissimilarity == t.dissimilarity || (s.dissimilarity - t.dissimilarity).abs() <= eps));
            let got = d.eq_with_epsilon(&e, eps);
            rep.evaluations += 1;
            rep.nontrivial.insert(hash64(&[r as u64, eps.to_bits()]));
            if got != want {
                rep.violation(format!("C19 violated: eq_with_epsilon(eps={}) is {} but the statement gives {}: left n={} steps={:?} right n={} steps={:?}", eps, got, want, n, steps_of(&d), n2, steps_of(&e)));
            }
            if r == 3 && eps == 0.125 { rep.sample(format!("n={} steps={:?} vs n={} steps={:?} eps={} -> {}", n, steps_of(&d), n2, steps_of(&e), eps, got)); }
        }
    }
}

/// cluster_size on dendrograms RETURNED by the clustering functions - fresh objects and, above all,
/// objects reused over walks of sizes that stay, shrink, grow a little and jump (to 2a-1, 2a, 3a
/// observations after a call with a): the recorded size of every label must be the number of
/// observations beneath it, counted independently by replaying the steps.
fn container_clustering(ctx: &Ctx, rep: &mut Report) {
    let mut rng = Rng::new(ctx.seed ^ 0x19C);
    let walks = if ctx.big { 400 } else { 120 };
    for w in 0..walks {
        let wide = w % 3 != 0;
        let algo = (w % 5) as u8;
        let mut st64: kodama::LinkageState<f64> = kodama::LinkageState::new();
        let mut d64: kodama::Dendrogram<f64> = kodama::Dendrogram::new(0);
        let mut st32: kodama::LinkageState<f32> = kodama::LinkageState::new();
        let mut d32: kodama::Dendrogram<f32> = kodama::Dendrogram::new(0);
        let mut n = rng.range(2, 12);
        for call in 0..6 {
            let method = loop { let m = rng.below(7) as u8; if accepts(algo, m) { break m; } };
            // tie-heavy matrices too: with values that are not dyadic (0.1, 0.7, ...) rounding makes the
            // averaged heights of a constant matrix differ in the last bit, and sorting then reorders the merges
            let v = matrix_f64(&mut rng, n as usize, ["uniform", "lattice", "euclid", "allequal", "neartie", "duppoints"][(call + w / 5) % 6], wide);
            let bits = to_bits(&v, wide);
            tick(&ctx.progress, &format!("container: clustering walk {} call {} n={}", w, call, n));
            let out = if wide { run_reused::<f64>(&mut st64, &mut d64, algo, method, n, &bits) } else { run_reused::<f32>(&mut st32, &mut d32, algo, method, n, &bits) };
            rep.evaluations += 1;
            if let Outcome::Ok { steps, .. } = &out {
                // independent count of the observations beneath every label
                let nn = n as usize;
                let mut beneath: Vec<usize> = vec![1; nn];
                let mut ok = true;
                for s in steps.iter() {
                    if s.c1 >= beneath.len() || s.c2 >= beneath.len() { ok = false; break; }
                    beneath.push(beneath[s.c1] + beneath[s.c2]);
                }
                if ok {
                    for (label, &want) in beneath.iter().enumerate() {
                        let got = if wide { catch(|| d64.cluster_size(label)) } else { catch(|| d32.cluster_size(label)) };
                        if got.as_ref().ok() != Some(&want) {
                            rep.violation(format!("C19 violated: cluster_size({}) = {:?} but {} observations lie beneath that label :: {}_with {} {} n={} (call #{} on a reused LinkageState/Dendrogram; sizes of the earlier calls in this walk were smaller)",
                                label, got.map_err(|e| e.1), want, ALGO_NAMES[algo as usize], METHOD_NAMES[method as usize], if wide { "f64" } else { "f32" }, n, call + 1));
                            break;
                        }
                    }
                    rep.nontrivial.insert(hash64(&[w as u64, call as u64, n]));
                }
            }
            // next size: stay / shrink / grow a little / jump
            n = match (w + call) % 6 { 0 => n, 1 => rng.range(2, n.max(2)), 2 => n + rng.range(1, 3), 3 => 2 * n - 1, 4 => 2 * n + rng.below(3), _ => 3 * n };
            let cap = if algo == 4 { 40 } else { 160 };
            if n > cap { n = rng.range(2, 8); }
        }
    }
}

/// larger containers: labels and sizes beyond 2^8 / 2^16 / 2^24 (f32 exactness), capacity after
/// resets to smaller / equal / larger sizes, tolerance boundaries
fn container_large(ctx: &Ctx, rep: &mut Report) {
    use kodama::{Dendrogram, Step};
    let mut rng = Rng::new(ctx.seed ^ 0xC19B);
    let sizes_n: &[usize] = if ctx.big { &[300, 70001, 140000] } else { &[300, 70001] };
    for &n in sizes_n {
        tick(&ctx.progress, &format!("large container n={}", n));
        let mut d: Dendrogram<f64> = Dendrogram::new(n);
        let mut want: Vec<usize> = vec![];
        for k in 0..n - 1 {
            // chain: the cluster made by step k-1 (label n+k-1) joins observation k+1
            let (c1, c2) = if k == 0 { (0, 1) } else { (n + k - 1, k + 1) };
            let sz = k + 2;
            if catch(|| d.push(Step::new(c1, c2, k as f64 * 0.5, sz))).is_err() { rep.violation(format!("C19 violated: Dendrogram for n={}: push #{} rejected", n, k + 1)); return; }
            want.push(sz);
        }
        rep.evaluations += n as u64;
        if catch(|| d.push(Step::new(0, 1, 0.0, 2))).is_ok() { rep.violation(format!("C19 violated: Dendrogram for n={}: push #{} accepted beyond n-1", n, n)); }
        if d.len() != n - 1 || d.observations() != n { rep.violation(format!("C19 violated: n={} after n-1 pushes: len {} observations {}", n, d.len(), d.observations())); }
        for label in (0..2 * n - 1).step_by(if n > 1000 { 7 } else { 1 }).chain([n - 1, n, n + 255, n + 256, n + 65535, n + 65536, 2 * n - 2].iter().cloned().filter(|&l| l < 2 * n - 1)) {
            let w = if label < n { 1 } else { want[label - n] };
            match catch(|| d.cluster_size(label)) {
                Ok(v) if v == w => {}
                other => { rep.violation(format!("C19 violated: cluster_size({}) on the chain dendrogram of n={} gives {:?}, expected {}", label, n, other.map_err(|e| e.1), w)); break; }
            }
            rep.evaluations += 1;
        }
        // stored fields of steps with large labels
        for k in [0usize, 255, 256, 65535, 65536, n - 2] { if k < n - 1 {
            let s = &d[k]; let (c1, c2) = if k == 0 { (0, 1) } else { (n + k - 1, k + 1) };
            if (s.cluster1, s.cluster2) != (c1.min(c2), c1.max(c2)) || s.size != k + 2 { rep.violation(format!("C19 violated: step {} of the chain dendrogram n={} stored as ({}, {}, size {})", k, n, s.cluster1, s.cluster2, s.size)); }
        }}
        // resets: smaller, equal, larger
        for &m in &[n / 3, n / 3, n, 5usize, 0, 1, 2] {
            d.reset(m);
            rep.evaluations += 1;
            if d.len() != 0 || d.observations() != m { rep.violation(format!("C19 violated: reset({}) after a dendrogram of n={} gives len {} observations {}", m, n, d.len(), d.observations())); }
            let cap = m.saturating_sub(1);
            let probe = cap.min(40);
            for k in 0..probe { let _ = catch(|| d.push(Step::new(k, k + 1, 1.0, 2))); }
            if d.len() != probe { rep.violation(format!("C19 violated: after reset({}) only {} of {} pushes were accepted", m, d.len(), probe)); }
            if probe == cap && catch(|| d.push(Step::new(0, 1, 1.0, 2))).is_ok() { rep.violation(format!("C19 violated: after reset({}) (previously n={}) push #{} accepted beyond n-1", m, n, cap + 1)); }
        }
    }
    // Step::new / set_clusters with large and equal labels
    for (a, b) in [(1usize << 31, (1usize << 31) + 1), ((1usize << 32) + 5, 7), (usize::MAX, 0), (usize::MAX - 1, usize::MAX), (9, 9), ((1usize << 33), (1usize << 33))] {
        let s = Step::new(a, b, 1.0f64, 2);
        if (s.cluster1, s.cluster2) != (a.min(b), a.max(b)) { rep.violation(format!("C19 violated: Step::new({}, {}) stored ({}, {})", a, b, s.cluster1, s.cluster2)); }
        let mut t = Step::new(0, 1, 1.0f64, 2); t.set_clusters(b, a);
        if (t.cluster1, t.cluster2) != (a.min(b), a.max(b)) { rep.violation(format!("C19 violated: set_clusters({}, {}) stored ({}, {})", b, a, t.cluster1, t.cluster2)); }
        rep.evaluations += 2;
    }
    // eq_with_epsilon: differences exactly at, just below and just above epsilon; sizes / labels that differ only beyond f32 precision
    let base: Vec<(usize, usize, f64, usize)> = vec![(0, 1, 1.0, 2), (2, 3, 2.5, 16777216), (4, 16777217, 4.0, 3)];
    for (field, delta, eps, want) in [
        (2usize, 0.5f64, 0.5f64, true), (2, 0.5, 0.4999999999999999, false), (2, 0.25, 0.25, true), (2, 0.0, 0.0, true), (2, 2.220446049250313e-16, 0.0, false), (2, 2.220446049250313e-16, 2.220446049250313e-16, true),
        (3, 1.0, 10.0, false), (1, 1.0, 10.0, false), (0, 1.0, 10.0, false),
    ] {
        for pos in 0..base.len() {
            let mut l: Dendrogram<f64> = Dendrogram::new(4); let mut r: Dendrogram<f64> = Dendrogram::new(4);
            for (k, &(c1, c2, x, sz)) in base.iter().enumerate() {
                l.push(Step::new(c1, c2, x, sz));
                let (mut c1r, mut c2r, mut xr, mut szr) = (c1, c2, x, sz);
                if k == pos { match field { 0 => c1r += delta as usize, 1 => c2r += delta as usize, 2 => xr += delta, _ => szr += delta as usize } }
                r.push(Step::new(c1r, c2r, xr, szr));
            }
            // the statement, evaluated on what was stored
            let _ = want;
            let expect = l.len() == r.len() && l.steps().iter().zip(r.steps()).all(|(s, t)|
                s.cluster1 == t.cluster1 && s.cluster2 == t.cluster2 && s.size == t.size && (s.dissimilarity - t.dissimilarity).abs() <= eps);
            let got = l.eq_with_epsilon(&r, eps);
            rep.evaluations += 1;
            if got != expect { rep.violation(format!("C19 violated: eq_with_epsilon(eps={:e}) is {} but the statement gives {}: step {} differs in field {} by {:e}: {:?} vs {:?}", eps, got, expect, pos, field, delta, steps_of(&l), steps_of(&r))); }
        }
    }
    let _ = &mut rng;
}

// ------------------------------------------------------------------ C13
fn wellformed(n: u64, len: usize) -> bool {
    n < (1u64 << 32) && (n * n.saturating_sub(1) / 2) as usize == len
}

/// every (len, n) in a box plus extreme n, all entry points, fresh and `_with`
fn shape_sweep(rep: &mut Report, seed: u64, big: bool, progress: &Progress) {
    let mut rng = Rng::new(seed ^ 0xC13);
    let max_len = if big { 2000 } else { 320 };
    let max_n = 64u64;
    let vals: Vec<f64> = (0..max_len + 1).map(|k| 1.0 + ((k * 7) % 11) as f64).collect();
    let mut st64: kodama::LinkageState<f64> = kodama::LinkageState::new();
    let mut d64: kodama::Dendrogram<f64> = kodama::Dendrogram::new(0);
    let mut st32: kodama::LinkageState<f32> = kodama::LinkageState::new();
    let mut d32: kodama::Dendrogram<f32> = kodama::Dendrogram::new(0);
    let mut ns: Vec<u64> = (0..=max_n).collect();
    ns.extend_from_slice(&[u64::MAX, 1u64 << 63, u64::MAX - 1, (1u64 << 63) + 1, 1u64 << 62, 1u64 << 60]);
    for len in 0..=max_len {
        tick(progress, &format!("shape sweep len={}", len));
        for &n in &ns {
            let algo = rng.below(5) as u8;
            for da in 0..(if len <= 40 { 5 } else { 2 }) {
                let algo = (algo + da) % 5;
                let method = loop { let m = rng.below(7) as u8; if accepts(algo, m) { break m; } };
                let wide = rng.below(3) != 0;
                let use_with = rng.below(2) == 0;
                let good = wellformed(n, len);
                if good && n > 40 { continue; }
                // malformed shapes are rejected whatever the slice contains: every fourth one holds an
                // entry whose square overflows, an infinity, a subnormal or a negative zero (value-dependent
                // paths that run before the shape check)
                let special: Option<(usize, f64)> = if !good && len > 0 && rng.below(4) == 0 {
                    let x = match rng.below(5) { 0 | 1 => if wide { 1e200 } else { 3e19 }, 2 => f64::INFINITY, 3 => if wide { 5e-324 } else { 1.4e-45 }, _ => -0.0 };
                    Some((rng.below(len as u64) as usize, x))
                } else { None };
                let res: Result<usize, (u64, String)> = if wide {
                    let mut m: Vec<f64> = vals[..len].to_vec();
                    if let Some((i, x)) = special { m[i] = x; }
                    if use_with && n < (1 << 40) { catch(|| { call_with::<f64>(algo, method, &mut st64, &mut m, n as usize, &mut d64); d64.len() }) }
                    else { catch(|| call_fresh::<f64>(algo, method, &mut m, n as usize).len()) }
                } else {
                    let mut m: Vec<f32> = vals[..len].iter().map(|&x| x as f32).collect();
                    if let Some((i, x)) = special { m[i] = x as f32; }
                    if use_with && n < (1 << 40) { catch(|| { call_with::<f32>(algo, method, &mut st32, &mut m, n as usize, &mut d32); d32.len() }) }
                    else { catch(|| call_fresh::<f32>(algo, method, &mut m, n as usize).len()) }
                };
                rep.evaluations += 1;
                if !good { rep.nontrivial.insert(hash64(&[algo as u64, n, len as u64, use_with as u64])); }
                match (&res, good) {
                    (Ok(k), false) => rep.violation(format!(
                        "C13 malformed shape accepted: {}{} {} {} n={} len={} returned a dendrogram with {} steps",
                        ALGO_NAMES[algo as usize], if use_with { "_with" } else { "" }, METHOD_NAMES[method as usize],
                        if wide { "f64" } else { "f32" }, n, len, k)),
                    (Err((c, msg)), true) => rep.violation(format!(
                        "C13 well-formed shape rejected: {} {} n={} len={} panic{} {}",
                        ALGO_NAMES[algo as usize], METHOD_NAMES[method as usize], n, len, c, msg)),
                    _ => {}
                }
                // right after a VALID call on the shared state: the same slice with other observation
                // counts (a shape that was right a moment ago on this very state must not be remembered)
                if good && use_with && res.is_ok() && n >= 2 {
                    for n2 in [n - 1, n.saturating_sub(2), 2, 1, 0, n + 1] {
                        if n2 == n || wellformed(n2, len) { continue; }
                        let algo2 = (algo + (n2 % 5) as u8) % 5;
                        let method2 = loop { let m = rng.below(7) as u8; if accepts(algo2, m) { break m; } };
                        let r2: Result<usize, (u64, String)> = if wide {
                            let mut m: Vec<f64> = vals[..len].to_vec();
                            catch(|| { call_with::<f64>(algo2, method2, &mut st64, &mut m, n2 as usize, &mut d64); d64.len() })
                        } else {
                            let mut m: Vec<f32> = vals[..len].iter().map(|&x| x as f32).collect();
                            catch(|| { call_with::<f32>(algo2, method2, &mut st32, &mut m, n2 as usize, &mut d32); d32.len() })
                        };
                        rep.evaluations += 1;
                        if let Ok(k) = r2 {
                            rep.violation(format!("C13 malformed shape accepted: {}_with {} {} n={} len={} returned a dendrogram with {} steps (on a LinkageState whose previous call was the valid n={} len={})",
                                ALGO_NAMES[algo2 as usize], METHOD_NAMES[method2 as usize], if wide { "f64" } else { "f32" }, n2, len, k, n, len));
                        }
                        // restore: the next valid probe starts from a state that saw this length as valid
                        if wide { let mut m: Vec<f64> = vals[..len].to_vec(); let _ = catch(|| call_with::<f64>(algo, method, &mut st64, &mut m, n as usize, &mut d64)); }
                        else { let mut m: Vec<f32> = vals[..len].iter().map(|&x| x as f32).collect(); let _ = catch(|| call_with::<f32>(algo, method, &mut st32, &mut m, n as usize, &mut d32)); }
                    }
                }
                if len == 3 && (n == 3 || n == 4) && da == 0 {
                    rep.sample(format!("{}{} n={} len={} -> {}", ALGO_NAMES[algo as usize], if use_with { "_with" } else { "" }, n, len,
                        match &res { Ok(k) => format!("ok {} steps", k), Err((c, _)) => format!("panic class {}", c) }));
                }
            }
        }
    }
    // over-long slices whose surplus entries are NaN (a shape check that looks at the contents), at the
    // end, at the start and in the middle: a malformed shape stays malformed whatever it contains
    for n in 2u64..=24 {
        let good = (n * (n - 1) / 2) as usize;
        for extra in 1usize..=3 {
            for place in 0..3 {
                let mut m: Vec<f64> = (0..good).map(|k| 1.0 + ((k * 7) % 11) as f64).collect();
                for e in 0..extra { let pos = match place { 0 => m.len(), 1 => 0, _ => m.len() / 2 }; m.insert(pos, if e % 2 == 0 { f64::NAN } else { -f64::NAN }); }
                let algo = ((n as usize + extra + place) % 5) as u8;
                let method = loop { let mm = rng.below(7) as u8; if accepts(algo, mm) { break mm; } };
                let wide = (n + place as u64) % 2 == 0;
                tick(progress, &format!("malformed shape {} {} {} n={} len={} (= n(n-1)/2 + {} entries, the surplus ones NaN): the call must be rejected by the shape check, it was not - the call went on to cluster a matrix containing NaN",
                    ALGO_NAMES[algo as usize], METHOD_NAMES[method as usize], if wide { "f64" } else { "f32" }, n, m.len(), extra));
                let res: Result<usize, (u64, String)> = if wide { let mut mm = m.clone(); catch(|| call_fresh::<f64>(algo, method, &mut mm, n as usize).len()) }
                    else { let mut mm: Vec<f32> = m.iter().map(|&x| x as f32).collect(); catch(|| call_fresh::<f32>(algo, method, &mut mm, n as usize).len()) };
                rep.evaluations += 1;
                if let Ok(k) = res {
                    rep.violation(format!("C13 malformed shape accepted: {} {} {} n={} len={} (= n(n-1)/2 + {} entries, the surplus ones NaN) returned a dendrogram with {} steps",
                        ALGO_NAMES[algo as usize], METHOD_NAMES[method as usize], if wide { "f64" } else { "f32" }, n, m.len(), extra, k));
                }
            }
        }
    }
    // lengths that collide with n(n-1)/2 modulo 2^8, 2^16 or 2^32 (a shape check computed in a
    // narrower or wrapping integer accepts them), and off-by-a-few lengths at larger n
    let mut pairs: Vec<(u64, usize)> = vec![];
    let cand_n: Vec<u64> = {
        let mut v: Vec<u64> = vec![23, 24, 33, 65, 91, 129, 257, 362, 363, 364, 513, 1000, 1449, 2896, 4097, 65537, 92682, 92683, 92684, 100000, 131073];
        for _ in 0..(if big { 120 } else { 40 }) { v.push(rng.range(65, 120000)); }
        v
    };
    let cap_len = if big { 400000usize } else { 70000 };
    for &n in &cand_n {
        tick(progress, &format!("shape sweep n={}", n));
        let exact = n * (n - 1) / 2;
        for k in [8u32, 16, 32] {
            let l = (exact % (1u64 << k)) as usize;
            if (l as u64) != exact && l <= cap_len { pairs.push((n, l)); }
            let l2 = ((n * (n - 1)) % (1u64 << k) / 2) as usize;
            if (l2 as u64) != exact && l2 <= cap_len { pairs.push((n, l2)); }
        }
        if exact <= cap_len as u64 { for d in [1u64, 2, n / 2, n - 1] { pairs.push((n, (exact + d) as usize)); if exact >= d { pairs.push((n, (exact - d) as usize)); } } }
    }
    // off-by-one lengths where the exact length is no longer representable in f32 (>= 2^24): a
    // shape check evaluated in the matrix's float type accepts them
    for &(n, wide) in &[(5794u64, false), (5800, false), (5800, true), (4097, false)] {
        let exact = (n * (n - 1) / 2) as usize;
        for len in [exact + 1, exact - 1] {
            for algo in [1u8, 0] {
                let res = if wide { let mut m: Vec<f64> = vec![1.5; len]; catch(|| call_fresh::<f64>(algo, 0, &mut m, n as usize).len()) }
                          else { let mut m: Vec<f32> = vec![1.5; len]; catch(|| call_fresh::<f32>(algo, 0, &mut m, n as usize).len()) };
                rep.evaluations += 1;
                rep.nontrivial.insert(hash64(&[algo as u64, n, len as u64, 9]));
                if let Ok(k) = res {
                    rep.violation(format!("C13 malformed shape accepted: {} single {} n={} len={} (n(n-1)/2 = {}) returned a dendrogram with {} steps",
                        ALGO_NAMES[algo as usize], if wide { "f64" } else { "f32" }, n, len, exact, k));
                }
            }
        }
    }
    let big_vals: Vec<f64> = (0..cap_len + 200000).map(|k| 1.0 + ((k * 7) % 11) as f64).collect();
    for (n, len) in pairs {
        if wellformed(n, len) || len > big_vals.len() { continue; }
        for algo in 0..5u8 {
            let method = loop { let m = rng.below(7) as u8; if accepts(algo, m) { break m; } };
            let mut m: Vec<f64> = big_vals[..len].to_vec();
            let res = catch(|| call_fresh::<f64>(algo, method, &mut m, n as usize).len());
            rep.evaluations += 1;
            rep.nontrivial.insert(hash64(&[algo as u64, n, len as u64, 7]));
            if let Ok(k) = res {
                rep.violation(format!("C13 malformed shape accepted: {} {} f64 n={} len={} (n(n-1)/2 = {}) returned a dendrogram with {} steps",
                    ALGO_NAMES[algo as usize], METHOD_NAMES[method as usize], n, len, n * (n - 1) / 2, k));
            }
        }
    }
}

// ------------------------------------------------------------------ C12: the band next to sqrt(MAX)
/// One case per process (a call that does not return must not take the others with it):
/// entries whose squares are finite but whose pairwise sums of squares overflow
/// (0.63 .. 0.90 times sqrt(MAX)), for the three methods that work on squares, and the same
/// shape at a safe magnitude as a control. Prints `BAND <description> :: <outcome>`.
pub fn band(opt: &HashMap<String, String>) -> i32 {
    let idx = opt_u64(opt, "index", 0) as usize;
    let mut cases: Vec<(bool, u8, u8, bool)> = vec![];
    for &wide in &[true, false] { for &method in &[4u8, 5, 6] { for algo in 0u8..5 {
        if !accepts(algo, method) { continue; }
        for &control in &[false, true] { cases.push((wide, method, algo, control)); }
    }}}
    if opt.contains_key("count") { println!("{}", cases.len()); return 0; }
    let (wide, method, algo, control) = cases[idx % cases.len()];
    let top = if wide { f64::MAX.sqrt() } else { (f32::MAX as f64).sqrt() };
    let scale = if control { if wide { 1e150 } else { 1e15 } } else { top };
    let fr = [0.90, 0.81, 0.72, 0.63, 0.855, 0.765];
    let v: Vec<f64> = fr.iter().map(|f| f * scale).collect();
    let desc = format!("{} {} {} n=4 entries={}x[0.90,0.81,0.72,0.63,0.855,0.765] ({})",
        ALGO_NAMES[algo as usize], METHOD_NAMES[method as usize], if wide { "f64" } else { "f32" },
        if control { if wide { "1e150" } else { "1e15" } } else { "sqrt(MAX)" }, if control { "control" } else { "band" });
    if opt.contains_key("describe") { println!("BAND {}", desc); return 0; }
    tick_global(&desc);
    let out = run_fresh_w(wide, algo, method, 4, &to_bits(&v, wide));
    let outcome = match &out {
        Outcome::Panic(k, m) => format!("panic {} {}", k, m),
        Outcome::Ok { steps, .. } => {
            let c = AlgoCase { algo, method, wide, n: 4, bits: vec![], family: "band" };
            if steps.iter().all(|s| height(&c, s).is_finite()) { "ok-finite".to_string() } else { "nonfinite-height".to_string() }
        }
    };
    println!("BAND {} :: {}", desc, outcome);
    0
}

// ------------------------------------------------------------------ C15 / C17: thousands of observations through the C API
/// The Rust side of `driver --big <seed>`: the same matrices (64-bit LCG, integer arithmetic),
/// `kodama::linkage` for every method, the digest the C driver computes from what the C API returns
/// (float results widened exactly, observation count = the n passed in).
pub fn capibig(opt: &HashMap<String, String>) -> i32 {
    let seed = opt_u64(opt, "seed", 1);
    fn lcg(s: &mut u64) -> u64 { *s = s.wrapping_mul(6364136223846793005).wrapping_add(1442695040888963407); *s }
    fn fnv(mut h: u64, v: u64) -> u64 { for k in 0..8 { h ^= (v >> (8 * k)) & 0xff; h = h.wrapping_mul(0x100000001b3); } h }
    for (si, &n) in [2048u64, 2049, 2311, 8194, 12288].iter().enumerate() { for mi in 0..7u8 { for wide in [true, false] {
        if n > opt_u64(opt, "maxn", 100000) { continue; }
        // the two largest sizes (capacity-doubling bands of the step buffer): two fast methods only
        if n > 4000 && mi != 0 && mi != 2 { continue; }
        let len = (n * (n - 1) / 2) as usize;
        let mut st = seed.wrapping_mul(1000003).wrapping_add((si * 100 + mi as usize * 10 + wide as usize) as u64);
        let vals: Vec<f64> = (0..len).map(|_| 1.0 + (lcg(&mut st) >> 12) as f64 / 4503599627370496.0).collect();
        let bits = to_bits(&vals, wide);
        tick_global(&format!("capibig {} {} n={}", METHOD_NAMES[mi as usize], if wide { "double" } else { "float" }, n));
        let out = run_fresh_w(wide, 0, mi, n, &bits);
        let steps = match out { Outcome::Ok { steps, .. } => steps, Outcome::Panic(k, m) => { println!("BIG {} {} {} panic {} {}", METHOD_NAMES[mi as usize], if wide { "double" } else { "float" }, n, k, m); continue; } };
        let mut h = 0xcbf29ce484222325u64;
        h = fnv(h, n); h = fnv(h, steps.len() as u64);
        for s in &steps {
            let b = if wide { s.bits } else { (f32::from_bits(s.bits as u32) as f64).to_bits() };
            h = fnv(h, s.c1 as u64); h = fnv(h, s.c2 as u64); h = fnv(h, b); h = fnv(h, s.size as u64);
        }
        println!("BIG {} {} {} {}", METHOD_NAMES[mi as usize], if wide { "double" } else { "float" }, n, h);
    }}}
    0
}
