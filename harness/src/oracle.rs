//! Independent oracles: executable statements of the properties evaluated on
//! the implementation's outputs.  Used to SEARCH for failing inputs; a check
//! never passes because of them.
use std::collections::{HashMap, HashSet};

use crate::common::*;
use crate::gen::*;
use crate::streams::{json_str, opt_str, opt_u64};

pub struct Report {
    pub evaluations: u64,
    pub nontrivial: HashSet<u64>,
    pub violations: Vec<String>,
    pub samples: Vec<String>,
    pub extra: Vec<(String, String)>,
}

impl Report {
    pub fn new() -> Report {
        Report { evaluations: 0, nontrivial: HashSet::new(), violations: vec![], samples: vec![], extra: vec![] }
    }
    pub fn violation(&mut self, s: String) { if self.violations.len() < 25 { self.violations.push(s); } }
    pub fn sample(&mut self, s: String) { if self.samples.len() < 3 { self.samples.push(s); } }
    pub fn print(&self) -> i32 {
        let v: Vec<String> = self.violations.iter().map(|s| format!("{{\"desc\":{}}}", json_str(s))).collect();
        let s: Vec<String> = self.samples.iter().map(|s| json_str(s)).collect();
        let e: Vec<String> = self.extra.iter().map(|(k, v)| format!(",{}:{}", json_str(k), v)).collect();
        println!("{{\"ok\":{},\"evaluations\":{},\"distinct_nontrivial\":{},\"violations\":[{}],\"samples\":[{}]{}}}",
            self.violations.is_empty(), self.evaluations, self.nontrivial.len(), v.join(","), s.join(","), e.join(""));
        if self.violations.is_empty() { 0 } else { 1 }
    }
}

pub fn run(opt: &HashMap<String, String>) -> i32 {
    let name = opt_str(opt, "oracle", "");
    let seed = opt_u64(opt, "seed", 1);
    let thorough = opt_str(opt, "tier", "quick") == "thorough";
    let enlarge = opt_u64(opt, "enlarge", 0) == 1;
    let mut rep = Report::new();
    match name {
        "shape_sweep" => shape_sweep(&mut rep, seed, thorough || enlarge),
        _ => { eprintln!("unknown oracle {}", name); return 2; }
    }
    rep.print()
}

// ------------------------------------------------------------------ C13
fn wellformed(n: u64, len: usize) -> bool {
    n < (1u64 << 32) && (n * n.saturating_sub(1) / 2) as usize == len
}

/// every (len, n) in a box plus extreme n, all entry points, fresh and `_with`
fn shape_sweep(rep: &mut Report, seed: u64, big: bool) {
    let mut rng = Rng::new(seed ^ 0xC13);
    let max_len = if big { 2000 } else { 320 };
    let max_n = 64u64;
    let vals: Vec<f64> = (0..max_len + 1).map(|k| 1.0 + ((k * 7) % 11) as f64).collect();
    let mut st64: kodama::LinkageState<f64> = kodama::LinkageState::new();
    let mut d64: kodama::Dendrogram<f64> = kodama::Dendrogram::new(0);
    let mut st32: kodama::LinkageState<f32> = kodama::LinkageState::new();
    let mut d32: kodama::Dendrogram<f32> = kodama::Dendrogram::new(0);
    let mut ns: Vec<u64> = (0..=max_n).collect();
    ns.extend_from_slice(&[u64::MAX, 1u64 << 63, u64::MAX - 1, (1u64 << 63) + 1, 1u64 << 62, 1u64 << 60]);
    for len in 0..=max_len {
        for &n in &ns {
            let algo = rng.below(5) as u8;
            // rotate entry points deterministically so that all of them see all shapes over the sweep
            for da in 0..(if len <= 40 { 5 } else { 2 }) {
                let algo = (algo + da) % 5;
                let method = loop { let m = rng.below(7) as u8; if accepts(algo, m) { break m; } };
                let wide = rng.below(3) != 0;
                let use_with = rng.below(2) == 0;
                let good = wellformed(n, len);
                if good && n > 40 { continue; } // well-formed big cases are the algo stream's job
                let res: Result<usize, (u64, String)> = if wide {
                    let mut m: Vec<f64> = vals[..len].to_vec();
                    if use_with && n < (1 << 40) { catch(|| { call_with::<f64>(algo, method, &mut st64, &mut m, n as usize, &mut d64); d64.len() }) }
                    else { catch(|| call_fresh::<f64>(algo, method, &mut m, n as usize).len()) }
                } else {
                    let mut m: Vec<f32> = vals[..len].iter().map(|&x| x as f32).collect();
                    if use_with && n < (1 << 40) { catch(|| { call_with::<f32>(algo, method, &mut st32, &mut m, n as usize, &mut d32); d32.len() }) }
                    else { catch(|| call_fresh::<f32>(algo, method, &mut m, n as usize).len()) }
                };
                rep.evaluations += 1;
                if !good { rep.nontrivial.insert(hash64(&[algo as u64, n, len as u64, use_with as u64])); }
                match (&res, good) {
                    (Ok(k), false) => rep.violation(format!(
                        "C13 malformed shape accepted: {}{} {} {} n={} len={} returned a dendrogram with {} steps",
                        ALGO_NAMES[algo as usize], if use_with { "_with" } else { "" }, METHOD_NAMES[method as usize],
                        if wide { "f64" } else { "f32" }, n, len, k)),
                    (Err((c, msg)), true) => rep.violation(format!(
                        "C13 well-formed shape rejected: {} {} n={} len={} panic{} {}",
                        ALGO_NAMES[algo as usize], METHOD_NAMES[method as usize], n, len, c, msg)),
                    _ => {}
                }
                if len == 3 && (n == 3 || n == 4) && da == 0 {
                    rep.sample(format!("{}{} n={} len={} -> {}", ALGO_NAMES[algo as usize], if use_with { "_with" } else { "" }, n, len,
                        match &res { Ok(k) => format!("ok {} steps", k), Err((c, _)) => format!("panic class {}", c) }));
                }
            }
        }
    }
}
