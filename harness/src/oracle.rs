//! Independent oracles (failing-input search).  Filled in per property.
use std::collections::HashMap;
pub fn run(_opt: &HashMap<String, String>) -> i32 { 0 }
