//! kvh: correspondence and oracle harness for diffeo/kodama.
mod common;
mod gen;
mod streams;
mod oracle;
mod refimpl;
mod cli;
mod comp;
mod allocs;

#[global_allocator]
static GLOBAL: allocs::Counting = allocs::Counting;

use std::collections::HashMap;

fn main() {
    common::install_panic_hook();
    let args: Vec<String> = std::env::args().collect();
    if args.len() < 2 {
        eprintln!("usage: kvh <stream|oracle> [--key value]...");
        std::process::exit(2);
    }
    let cmd = args[1].clone();
    let mut opt: HashMap<String, String> = HashMap::new();
    let mut i = 2;
    while i + 1 < args.len() {
        opt.insert(args[i].trim_start_matches("--").to_string(), args[i + 1].clone());
        i += 2;
    }
    // run the command on a worker; abort with exit code 4 when a call into the
    // implementation does not return (hang) - the description of the case goes to stdout
    let cmd2 = cmd.clone();
    let (tx, rx) = std::sync::mpsc::channel();
    common::tick_global("start");
    std::thread::Builder::new().stack_size(256 << 20).spawn(move || {
        common::install_panic_hook();
        // a panic of the harness itself (not of a call into the implementation, which is caught
        // where it is made) is reported with its message
        let code = match std::panic::catch_unwind(std::panic::AssertUnwindSafe(|| run_cmd(&cmd2, &opt))) {
            Ok(c) => c,
            Err(_) => { eprintln!("harness panicked: {}", common::last_panic()); 3 }
        };
        let _ = tx.send(code);
    }).unwrap();
    let limit = std::time::Duration::from_secs(45);
    loop {
        match rx.recv_timeout(std::time::Duration::from_millis(200)) {
            Ok(code) => std::process::exit(code),
            Err(std::sync::mpsc::RecvTimeoutError::Timeout) => {
                let g = common::PROGRESS.lock().unwrap();
                if let Some((t, what)) = &*g {
                    if t.elapsed() > limit {
                        println!("HANG: no return within {} s from: {}", limit.as_secs(), what);
                        std::process::exit(4);
                    }
                }
            }
            Err(_) => { eprintln!("worker died"); std::process::exit(3); }
        }
    }
}

fn run_cmd(cmd: &str, opt: &HashMap<String, String>) -> i32 {
    let opt = opt.clone();
    let code = match cmd {
        "algo" => streams::stream_algo(&opt),
        "shape" => streams::stream_shape(&opt),
        "hist" => streams::stream_hist(&opt),
        "dend" => streams::stream_dend(&opt),
        "capi" => streams::stream_capi(&opt),
        "cost" => streams::stream_cost(&opt),
        "alloc" => allocs::stream_alloc(&opt),
        "comp" => comp::stream_comp(&opt),
        "oracle" => oracle::run(&opt),
        "cliexpect" => cli::run(&opt),
        "band" => oracle::band(&opt),
        "capibig" => oracle::capibig(&opt),
        _ => { eprintln!("unknown command {}", cmd); 2 }
    };
    code
}
