//! kvh: correspondence and oracle harness for diffeo/kodama.
mod common;
mod gen;
mod streams;
mod oracle;
mod refimpl;
mod cli;
mod allocs;

#[global_allocator]
static GLOBAL: allocs::Counting = allocs::Counting;

use std::collections::HashMap;

fn main() {
    common::install_panic_hook();
    let args: Vec<String> = std::env::args().collect();
    if args.len() < 2 {
        eprintln!("usage: kvh <stream|oracle> [--key value]...");
        std::process::exit(2);
    }
    let cmd = args[1].clone();
    let mut opt: HashMap<String, String> = HashMap::new();
    let mut i = 2;
    while i + 1 < args.len() {
        opt.insert(args[i].trim_start_matches("--").to_string(), args[i + 1].clone());
        i += 2;
    }
    let code = match cmd.as_str() {
        "algo" => streams::stream_algo(&opt),
        "shape" => streams::stream_shape(&opt),
        "hist" => streams::stream_hist(&opt),
        "dend" => streams::stream_dend(&opt),
        "capi" => streams::stream_capi(&opt),
        "cost" => streams::stream_cost(&opt),
        "alloc" => allocs::stream_alloc(&opt),
        "oracle" => oracle::run(&opt),
        "cliexpect" => cli::run(&opt),
        _ => { eprintln!("unknown command {}", cmd); 2 }
    };
    std::process::exit(code);
}
