(* C13 - malformed shapes are rejected, never silently clustered. *)
Require Import KV.Model.Prelude KV.Model.Condensed KV.Model.Methods KV.Model.State
  KV.Model.Dendrogram KV.Model.Linkage KV.Proofs.ShapeCheck KV.Proofs.ShapeFirst.

Local Open Scope N_scope.

(* The shape check decides len = n(n-1)/2 exactly, in both build profiles
   (checked and wrapping 64-bit arithmetic), for every n < 2^32. *)
Theorem C13_shape_check_sound : forall (p : profile) (n len : N),
  n < two32 ->
  (wf_shape n len /\ shape_check p n len = Ok (if n <=? 1 then 0 else n))
  \/ (~ wf_shape n len /\ exists k, shape_check p n len = Panic k).
Proof. exact shape_check_sound. Qed.
Print Assumptions C13_shape_check_sound.

(* Every entry point (5 algorithms x 7 methods, `_with` forms on ANY scratch
   state and the allocating wrappers), any float type, both profiles: a
   malformed (len, n) yields a panic and no dendrogram. *)
Theorem C13_malformed_rejected : forall (T : Type) (F : fops T) (p : profile) (a : algo)
  (meth : method) (m : list T) (n : N),
  n < two32 -> ~ wf_shape n (N.of_nat (length m)) ->
  (forall s d, exists k, run_with F p a meth s d m n = Panic k)
  /\ exists k, run_fresh F p a meth m n = Panic k.
Proof. exact malformed_rejected. Qed.
Print Assumptions C13_malformed_rejected.

Theorem C13_profiles_agree : forall n len : N,
  n < two32 -> shape_check Debug n len = shape_check Release n len.
Proof. exact shape_check_profile_independent. Qed.
Print Assumptions C13_profiles_agree.

(* Non-vacuity and the documented boundary of the hypothesis n < 2^32. *)
Example C13_wrap_boundary :
  shape_check Release 18446744073709551615 1 = Ok 18446744073709551615
  /\ exists k, shape_check Debug 18446744073709551615 1 = Panic k.
Proof. exact shape_wrap_witness. Qed.
Print Assumptions C13_wrap_boundary.
