(* C02 - merge heights equal the documented criterion (PARTIAL: exact-rational
   one-merge identities for all seven formulas; the invariant over whole runs
   and the float-vs-exact tolerance are not theorems). *)
Require Import KV.Model.Prelude KV.Model.Methods KV.Proofs.Criteria.
From Coq Require Import QArith Qminmax.
Local Open Scope Q_scope.

(* The formulas are the ones of src/method.rs: tools/translators.py
   regenerates them from the source on every run and Coq re-checks
   gen_formula = formula (Gen/Formulas.v). *)
Theorem C02_single_is_min : forall (a b md : Q) (sa sb sx : nat),
  upd_of QF Single a b md sa sb sx == Qmin a b.
Proof. exact single_is_min. Qed.
Print Assumptions C02_single_is_min.

Theorem C02_complete_is_max : forall (a b md : Q) (sa sb sx : nat),
  upd_of QF Complete a b md sa sb sx == Qmax a b.
Proof. exact complete_is_max. Qed.
Print Assumptions C02_complete_is_max.

(* mean over cross pairs of the union from the means of the parts *)
Theorem C02_average_is_mean : forall (Sa Sb md : Q) (na nb nx sx : nat),
  (0 < na)%nat -> (0 < nb)%nat -> (0 < nx)%nat ->
  upd_of QF Average (Sa / (qn na * qn nx)) (Sb / (qn nb * qn nx)) md na nb sx
  == (Sa + Sb) / (qn (na + nb) * qn nx).
Proof. exact average_is_mean. Qed.
Print Assumptions C02_average_is_mean.

Theorem C02_weighted_is_halved_mean : forall (a b md : Q) (sa sb sx : nat),
  upd_of QF Weighted a b md sa sb sx == (a + b) / 2.
Proof. exact weighted_is_halved_mean. Qed.
Print Assumptions C02_weighted_is_halved_mean.

(* squared-dissimilarity criteria as a symmetric bilinear form B:
   D(u,v) = B(u,v) - B(u,u)/2 - B(v,v)/2; merging u, v with weights s, t *)
Theorem C02_centroid : forall (Buu Bvv Bww Buv Buw Bvw : Q) (na nb sx : nat),
  (0 < na)%nat -> (0 < nb)%nat ->
  let s := qn na / qn (na + nb) in let t := qn nb / qn (na + nb) in
  upd_of QF Centroid (Dq Buw Buu Bww) (Dq Bvw Bvv Bww) (Dq Buv Buu Bvv) na nb sx
  == Dq (Bmw Buw Bvw s t) (Bmm Buu Bvv Buv s t) Bww.
Proof. exact centroid_is_centroid. Qed.
Print Assumptions C02_centroid.

Theorem C02_median : forall (Buu Bvv Bww Buv Buw Bvw : Q) (sa sb sx : nat),
  upd_of QF Median (Dq Buw Buu Bww) (Dq Bvw Bvv Bww) (Dq Buv Buu Bvv) sa sb sx
  == Dq (Bmw Buw Bvw (1 # 2) (1 # 2)) (Bmm Buu Bvv Buv (1 # 2) (1 # 2)) Bww.
Proof. exact median_is_midpoint. Qed.
Print Assumptions C02_median.

Theorem C02_ward : forall (Buu Bvv Bww Buv Buw Bvw : Q) (na nb nx : nat),
  (0 < na)%nat -> (0 < nb)%nat -> (0 < nx)%nat ->
  let s := qn na / qn (na + nb) in let t := qn nb / qn (na + nb) in
  upd_of QF Ward (Wq na nx (Dq Buw Buu Bww)) (Wq nb nx (Dq Bvw Bvv Bww)) (Wq na nb (Dq Buv Buu Bvv)) na nb nx
  == Wq (na + nb) nx (Dq (Bmw Buw Bvw s t) (Bmm Buu Bvv Buv s t) Bww).
Proof. exact ward_is_variance_increase. Qed.
Print Assumptions C02_ward.
