(* C02 - merge heights equal the documented criterion.
   Part A: exact-rational one-merge identities for all seven formulas.
   Part B: the working-matrix update of one merge (update3) applies the formula
           to exactly the cells of the surviving cluster and nothing else.
   Part C: whole runs of primitive_with: every recorded height IS the criterion
           of the two clusters merged - for single/complete over any carrier
           with a strict weak order, for the five arithmetic methods in exact
           rational arithmetic.
   Not theorems: the float-vs-exact rounding tolerance (sampled by the
   `criterion` oracle), and the same statement for the three fast algorithms
   (tied to primitive by C06's correspondence and oracles). *)
Require Import KV.Model.Prelude KV.Model.Condensed KV.Model.Dendrogram KV.Model.Active KV.Model.Methods KV.Model.State
  KV.Model.Primitive KV.Proofs.Criteria KV.Proofs.ActiveRefine KV.Proofs.PrimitiveGreedy KV.Proofs.UpdateSpec
  KV.Proofs.SortProofs KV.Proofs.LWInvariant KV.Proofs.CriteriaRun.
From Coq Require Import QArith Qminmax Permutation.
Local Open Scope Q_scope.

(* The formulas are the ones of src/method.rs: tools/translators.py
   regenerates them from the source on every run and Coq re-checks
   gen_formula = formula (Gen/Formulas.v). *)
Theorem C02_single_is_min : forall (a b md : Q) (sa sb sx : nat),
  upd_of QF Single a b md sa sb sx == Qmin a b.
Proof. exact single_is_min. Qed.
Print Assumptions C02_single_is_min.

Theorem C02_complete_is_max : forall (a b md : Q) (sa sb sx : nat),
  upd_of QF Complete a b md sa sb sx == Qmax a b.
Proof. exact complete_is_max. Qed.
Print Assumptions C02_complete_is_max.

(* mean over cross pairs of the union from the means of the parts *)
Theorem C02_average_is_mean : forall (Sa Sb md : Q) (na nb nx sx : nat),
  (0 < na)%nat -> (0 < nb)%nat -> (0 < nx)%nat ->
  upd_of QF Average (Sa / (qn na * qn nx)) (Sb / (qn nb * qn nx)) md na nb sx
  == (Sa + Sb) / (qn (na + nb) * qn nx).
Proof. exact average_is_mean. Qed.
Print Assumptions C02_average_is_mean.

Theorem C02_weighted_is_halved_mean : forall (a b md : Q) (sa sb sx : nat),
  upd_of QF Weighted a b md sa sb sx == (a + b) / 2.
Proof. exact weighted_is_halved_mean. Qed.
Print Assumptions C02_weighted_is_halved_mean.

(* squared-dissimilarity criteria as a symmetric bilinear form B:
   D(u,v) = B(u,v) - B(u,u)/2 - B(v,v)/2; merging u, v with weights s, t *)
Theorem C02_centroid : forall (Buu Bvv Bww Buv Buw Bvw : Q) (na nb sx : nat),
  (0 < na)%nat -> (0 < nb)%nat ->
  let s := qn na / qn (na + nb) in let t := qn nb / qn (na + nb) in
  upd_of QF Centroid (Dq Buw Buu Bww) (Dq Bvw Bvv Bww) (Dq Buv Buu Bvv) na nb sx
  == Dq (Bmw Buw Bvw s t) (Bmm Buu Bvv Buv s t) Bww.
Proof. exact centroid_is_centroid. Qed.
Print Assumptions C02_centroid.

Theorem C02_median : forall (Buu Bvv Bww Buv Buw Bvw : Q) (sa sb sx : nat),
  upd_of QF Median (Dq Buw Buu Bww) (Dq Bvw Bvv Bww) (Dq Buv Buu Bvv) sa sb sx
  == Dq (Bmw Buw Bvw (1 # 2) (1 # 2)) (Bmm Buu Bvv Buv (1 # 2) (1 # 2)) Bww.
Proof. exact median_is_midpoint. Qed.
Print Assumptions C02_median.

Theorem C02_ward : forall (Buu Bvv Bww Buv Buw Bvw : Q) (na nb nx : nat),
  (0 < na)%nat -> (0 < nb)%nat -> (0 < nx)%nat ->
  let s := qn na / qn (na + nb) in let t := qn nb / qn (na + nb) in
  upd_of QF Ward (Wq na nx (Dq Buw Buu Bww)) (Wq nb nx (Dq Bvw Bvv Bww)) (Wq na nb (Dq Buv Buu Bvv)) na nb nx
  == Wq (na + nb) nx (Dq (Bmw Buw Bvw s t) (Bmm Buu Bvv Buv s t) Bww).
Proof. exact ward_is_variance_increase. Qed.
Print Assumptions C02_ward.

(* ---- Part B: one merge updates exactly the row of the surviving cluster ---- *)
Local Close Scope Q_scope.
Theorem C02_update3 : forall (T : Type) (K : kops T) (p : profile) (meth : method)
  (s : lstate T) (M M' : cmat T) (L : list nat) (a b : nat) (dist : T) (sa sb : nat),
  AInv (st_active s) L -> wf_mat M -> length (a_next (st_active s)) = m_obs M ->
  In a L -> In b L -> a < b ->
  update3 K p meth s M a b dist sa sb = Ok M' ->
  wf_mat M' /\ m_obs M' = m_obs M
  /\ (forall x, In x L -> x <> a -> x <> b ->
        exists va vb sx, wcell M x a = Some va /\ wcell M x b = Some vb
          /\ (if uses_size_x meth then vget (st_sizes s) x else Ok 0) = Ok sx
          /\ wcell M' x b = Some (k_upd K va vb dist sa sb sx))
  /\ (forall r c, r < c -> c < m_obs M ->
        (forall x, In x L -> x <> a -> x <> b -> (r, c) <> (Nat.min x b, Nat.max x b)) ->
        mcell M' r c = mcell M r c).
Proof. exact update3_spec. Qed.
Print Assumptions C02_update3.

(* ---- Part C: whole runs ---- *)
(* generic: any symmetric relation satisfying the one-merge law of the update
   formula holds between the two merged clusters at every recorded height *)
Theorem C02_primitive_criterion : forall (T : Type) (K : kops T) (p : profile) (meth : method),
  (forall a b c, k_ltb K a b = true -> k_ltb K b c = true -> k_ltb K a c = true) ->
  (forall a, k_ltb K a a = false) ->
  forall crit : mtree -> mtree -> T -> Prop,
  (forall A B v, crit A B v -> crit B A v) ->
  (forall X A B va vb md, crit X A va -> crit X B vb -> crit A B md ->
     crit X (Node A B) (k_upd K va vb md (tsize A) (tsize B) (if uses_size_x meth then tsize X else 0))) ->
  forall s d m n s' d' m' M0,
  primitive_with K p meth s d m n = Ok (s', d', m') ->
  prologue p (square_all K m) n = Ok M0 ->
  (forall x y v, x <> y -> x < m_obs M0 -> y < m_obs M0 -> wcell M0 x y = Some v -> crit (Leaf x) (Leaf y) v) ->
  exists raw tr L' mem',
    mtrace (seq 0 (m_obs M0)) Leaf tr L' mem'
    /\ Forall2 (fun st (ab : mtree * mtree) => crit (fst ab) (snd ab) (s_dis st)) raw tr
    /\ length raw = m_obs M0 - 1
    /\ Permutation (heights d') (map (k_rt K) (map (@s_dis T) raw))
    /\ (requires_sorting meth = false -> heights d' = map (k_rt K) (map (@s_dis T) raw)).
Proof. exact primitive_criterion. Qed.
Print Assumptions C02_primitive_criterion.

Theorem C02_single_run : forall (T : Type) (F : fops T) (p : profile),
  (forall a, f_ltb F a a = false) ->
  (forall a b c, f_ltb F a b = true -> f_ltb F b c = true -> f_ltb F a c = true) ->
  (forall a b c, f_ltb F a b = false -> f_ltb F b c = false -> f_ltb F a c = false) ->
  forall s d m n s' d' m' M0,
  primitive_with (kops_of F Single) p Single s d m n = Ok (s', d', m') ->
  prologue p m n = Ok M0 ->
  exists raw tr L' mem',
    mtrace (seq 0 (m_obs M0)) Leaf tr L' mem'
    /\ Forall2 (fun st (ab : mtree * mtree) =>
                  is_min_over (f_ltb F) (cell_or (f_inf F) M0) (fst ab) (snd ab) (s_dis st)) raw tr
    /\ length raw = m_obs M0 - 1
    /\ Permutation (heights d') (map (@s_dis T) raw).
Proof. exact single_run. Qed.
Print Assumptions C02_single_run.

Theorem C02_complete_run : forall (T : Type) (F : fops T) (p : profile),
  (forall a, f_ltb F a a = false) ->
  (forall a b c, f_ltb F a b = true -> f_ltb F b c = true -> f_ltb F a c = true) ->
  (forall a b c, f_ltb F a b = false -> f_ltb F b c = false -> f_ltb F a c = false) ->
  forall s d m n s' d' m' M0,
  primitive_with (kops_of F Complete) p Complete s d m n = Ok (s', d', m') ->
  prologue p m n = Ok M0 ->
  exists raw tr L' mem',
    mtrace (seq 0 (m_obs M0)) Leaf tr L' mem'
    /\ Forall2 (fun st (ab : mtree * mtree) =>
                  is_max_over (f_ltb F) (cell_or (f_inf F) M0) (fst ab) (snd ab) (s_dis st)) raw tr
    /\ length raw = m_obs M0 - 1
    /\ Permutation (heights d') (map (@s_dis T) raw).
Proof. exact complete_run. Qed.
Print Assumptions C02_complete_run.

Local Open Scope Q_scope.
Theorem C02_average_run : forall (p : profile) (rt : Q -> Q) s d m n s' d' m' M0,
  primitive_with (kops_of (QFr rt) Average) p Average s d m n = Ok (s', d', m') ->
  prologue p m n = Ok M0 ->
  exists raw tr L' mem',
    mtrace (seq 0 (m_obs M0)) Leaf tr L' mem'
    /\ Forall2 (fun st (ab : mtree * mtree) =>
         s_dis st == cross_sum (dd M0) (fst ab) (snd ab) / (qn (tsize (fst ab)) * qn (tsize (snd ab)))) raw tr
    /\ length raw = (m_obs M0 - 1)%nat
    /\ Permutation (heights d') (map (@s_dis Q) raw).
Proof. exact average_run. Qed.
Print Assumptions C02_average_run.

Theorem C02_weighted_run : forall (p : profile) (rt : Q -> Q) s d m n s' d' m' M0,
  primitive_with (kops_of (QFr rt) Weighted) p Weighted s d m n = Ok (s', d', m') ->
  prologue p m n = Ok M0 ->
  exists raw tr L' mem',
    mtrace (seq 0 (m_obs M0)) Leaf tr L' mem'
    /\ Forall2 (fun st (ab : mtree * mtree) => s_dis st == bil (dd M0) (hw (fst ab)) (hw (snd ab))) raw tr
    /\ length raw = (m_obs M0 - 1)%nat
    /\ Permutation (heights d') (map (@s_dis Q) raw).
Proof. exact weighted_run. Qed.
Print Assumptions C02_weighted_run.

Theorem C02_centroid_run : forall (p : profile) (rt : Q -> Q) s d m n s' d' m' M0,
  primitive_with (kops_of (QFr rt) Centroid) p Centroid s d m n = Ok (s', d', m') ->
  prologue p (squares m) n = Ok M0 ->
  exists raw tr L' mem',
    mtrace (seq 0 (m_obs M0)) Leaf tr L' mem'
    /\ Forall2 (fun st (ab : mtree * mtree) => s_dis st == Dw (dd M0) uw (fst ab) (snd ab)) raw tr
    /\ length raw = (m_obs M0 - 1)%nat
    /\ heights d' = map rt (map (@s_dis Q) raw).
Proof. exact centroid_run. Qed.
Print Assumptions C02_centroid_run.

Theorem C02_median_run : forall (p : profile) (rt : Q -> Q) s d m n s' d' m' M0,
  primitive_with (kops_of (QFr rt) Median) p Median s d m n = Ok (s', d', m') ->
  prologue p (squares m) n = Ok M0 ->
  exists raw tr L' mem',
    mtrace (seq 0 (m_obs M0)) Leaf tr L' mem'
    /\ Forall2 (fun st (ab : mtree * mtree) => s_dis st == Dw (dd M0) hw (fst ab) (snd ab)) raw tr
    /\ length raw = (m_obs M0 - 1)%nat
    /\ heights d' = map rt (map (@s_dis Q) raw).
Proof. exact median_run. Qed.
Print Assumptions C02_median_run.

Theorem C02_ward_run : forall (p : profile) (rt : Q -> Q) s d m n s' d' m' M0,
  primitive_with (kops_of (QFr rt) Ward) p Ward s d m n = Ok (s', d', m') ->
  prologue p (squares m) n = Ok M0 ->
  exists raw tr L' mem',
    mtrace (seq 0 (m_obs M0)) Leaf tr L' mem'
    /\ Forall2 (fun st (ab : mtree * mtree) =>
         s_dis st == Wq (tsize (fst ab)) (tsize (snd ab)) (Dw (dd M0) uw (fst ab) (snd ab))) raw tr
    /\ length raw = (m_obs M0 - 1)%nat
    /\ Permutation (heights d') (map rt (map (@s_dis Q) raw)).
Proof. exact ward_run. Qed.
Print Assumptions C02_ward_run.

(* the uniform-weight form of `average` is the mean over the cross pairs *)
Theorem C02_average_is_cross_mean : forall (d0 : nat -> nat -> Q) (A B : mtree),
  bil d0 (uw A) (uw B) == cross_sum d0 A B / (qn (tsize A) * qn (tsize B)).
Proof. exact average_is_cross_mean. Qed.
Print Assumptions C02_average_is_cross_mean.

(* non-vacuity: the hypotheses are met by concrete runs of the model over Q
   (6 observations, all seven methods return Ok in both profiles) *)
Definition ex_m : list Q := [5; 9; 2; 7; 11; 4; 8; 3; 10; 6; 12; 1; 13; 15; 14].
Definition is_ok {A} (r : res A) : bool := match r with Ok _ => true | _ => false end.
Example C02_runs_exist :
  forallb (fun meth => forallb (fun p =>
      is_ok (primitive_with (kops_of (QFr (fun x => x)) meth) p meth (st_new Q) (d_new Q 0) ex_m 6)
      && is_ok (prologue p (square_all (kops_of (QFr (fun x => x)) meth) ex_m) 6)) [Debug; Release])
    [Single; Complete; Average; Weighted; Ward; Centroid; Median] = true.
Proof. vm_compute. reflexivity. Qed.

(* ---- Part D: the same through nnchain_with (what `linkage` runs for complete,
   average, weighted, ward): every recorded height is the criterion of the two
   clusters merged - complete over any strict weak order, average / weighted /
   ward in exact rational arithmetic ---- *)
Require Import KV.Model.Chain KV.Proofs.ShapeCheck KV.Proofs.ChainIter KV.Proofs.ChainCriterion KV.Proofs.ChainInstances.
Local Close Scope Q_scope.

Theorem C02_nnchain_criterion : forall (T : Type) (K : kops T) (p : profile) (meth : method),
  (forall a, k_ltb K a a = false) ->
  (forall a b c, k_ltb K a b = true -> k_ltb K b c = true -> k_ltb K a c = true) ->
  (forall a b c, k_ltb K a b = false -> k_ltb K b c = false -> k_ltb K a c = false) ->
  (forall va vb md sa sb sx, size_ok meth sa sb sx ->
     k_ltb K va md = false -> k_ltb K vb md = false ->
     k_ltb K (k_upd K va vb md sa sb sx) va = false \/ k_ltb K (k_upd K va vb md sa sb sx) vb = false) ->
  forall crit : mtree -> mtree -> T -> Prop,
  (forall A B v, crit A B v -> crit B A v) ->
  (forall X A B va vb md, crit X A va -> crit X B vb -> crit A B md ->
     crit X (Node A B) (k_upd K va vb md (tsize A) (tsize B) (if uses_size_x meth then tsize X else 0))) ->
  (uses_sizes_ab meth = false ->
     forall va vb md sa sb sa' sb' sx, k_upd K va vb md sa sb sx = k_upd K va vb md sa' sb' sx) ->
  forall s d m n s' d' m' M0,
  (n < two32)%N -> wf_shape n (N.of_nat (length m)) ->
  nnchain_with K p meth s d m n = Ok (s', d', m') ->
  prologue p (square_all K m) n = Ok M0 ->
  (forall x y v, x <> y -> x < m_obs M0 -> y < m_obs M0 -> wcell M0 x y = Some v -> crit (Leaf x) (Leaf y) v) ->
  exists raw tr L' mem',
    mtrace (seq 0 (m_obs M0)) Leaf tr L' mem'
    /\ Forall2 (fun st (ab : mtree * mtree) => crit (fst ab) (snd ab) (s_dis st)) raw tr
    /\ length raw = m_obs M0 - 1
    /\ Permutation (heights d') (map (k_rt K) (map (@s_dis T) raw)).
Proof. exact nnchain_criterion. Qed.
Print Assumptions C02_nnchain_criterion.

Theorem C02_nnchain_complete : forall (T : Type) (F : fops T) (p : profile),
  (forall a, f_ltb F a a = false) ->
  (forall a b c, f_ltb F a b = true -> f_ltb F b c = true -> f_ltb F a c = true) ->
  (forall a b c, f_ltb F a b = false -> f_ltb F b c = false -> f_ltb F a c = false) ->
  forall s d (m : list T) (n : N) s' d' m' M0,
  (n < two32)%N -> wf_shape n (N.of_nat (length m)) ->
  nnchain_with (kops_of F Complete) p Complete s d m n = Ok (s', d', m') ->
  prologue p m n = Ok M0 ->
  exists raw tr L' mem',
    mtrace (seq 0 (m_obs M0)) Leaf tr L' mem'
    /\ Forall2 (fun st (ab : mtree * mtree) =>
                  is_max_over (f_ltb F) (cell_or (f_inf F) M0) (fst ab) (snd ab) (s_dis st)) raw tr
    /\ length raw = m_obs M0 - 1
    /\ Permutation (heights d') (map (@s_dis T) raw).
Proof. exact nnchain_complete_criterion. Qed.
Print Assumptions C02_nnchain_complete.

Theorem C02_nnchain_Q : forall (p : profile) (rt : Q -> Q) (meth : method) s d (m : list Q) (n : N) s' d' m' M0,
  meth = Average \/ meth = Weighted \/ meth = Ward ->
  (n < two32)%N -> wf_shape n (N.of_nat (length m)) ->
  nnchain_with (kops_of (QFr rt) meth) p meth s d m n = Ok (s', d', m') ->
  prologue p (square_all (kops_of (QFr rt) meth) m) n = Ok M0 ->
  exists raw tr L' mem',
    mtrace (seq 0 (m_obs M0)) Leaf tr L' mem'
    /\ Forall2 (fun st (ab : mtree * mtree) => crit_of meth M0 (fst ab) (snd ab) (s_dis st)) raw tr
    /\ length raw = m_obs M0 - 1
    /\ Permutation (heights d') (map (k_rt (kops_of (QFr rt) meth)) (map (@s_dis Q) raw)).
Proof. exact nnchain_criterion_Q. Qed.
Print Assumptions C02_nnchain_Q.

(* non-vacuity: nnchain over Q returns on a concrete input *)
Example C02_nnchain_runs_exist :
  forallb (fun meth => is_ok (nnchain_with (kops_of (QFr (fun x => x)) meth) Debug meth (st_new Q) (d_new Q 0) ex_m 6))
    [Complete; Average; Weighted; Ward] = true.
Proof. vm_compute. reflexivity. Qed.

(* ---- Part E: the same through generic_with (what `linkage` runs for centroid
   and median) - generic in the criterion, and for ALL seven methods in exact
   rational arithmetic with an infinite sentinel (carrier option Q, None =
   max_value = +infinity; Proofs/QInf.v) ---- *)
Require Import KV.Model.Generic KV.Proofs.GenericInv KV.Proofs.GenericCriterion KV.Proofs.QInf.

Theorem C02_generic_criterion : forall (T : Type) (K : kops T) (p : profile) (meth : method),
  (forall a, k_ltb K a a = false) ->
  (forall a b c, k_ltb K a b = true -> k_ltb K b c = true -> k_ltb K a c = true) ->
  (forall a b c, k_ltb K a b = false -> k_ltb K b c = false -> k_ltb K a c = false) ->
  (forall a, k_eqb K a a = true) ->
  (forall va vb md sa sb sx, k_ltb K va (k_inf K) = true -> k_ltb K vb (k_inf K) = true -> k_ltb K md (k_inf K) = true ->
     k_ltb K (k_upd K va vb md sa sb sx) (k_inf K) = true) ->
  forall crit : mtree -> mtree -> T -> Prop,
  (forall A B v, crit A B v -> crit B A v) ->
  (forall X A B va vb md, crit X A va -> crit X B vb -> crit A B md ->
     crit X (Node A B) (k_upd K va vb md (tsize A) (tsize B) (if uses_size_x meth then tsize X else 0))) ->
  (uses_sizes_ab meth = false ->
     forall va vb md sa sb sa' sb' sx, k_upd K va vb md sa sb sx = k_upd K va vb md sa' sb' sx) ->
  forall s d m n s' d' m' M0,
  Forall (fun v => k_ltb K v (k_inf K) = true) (square_all K m) ->
  generic_with K p meth s d m n = Ok (s', d', m') ->
  prologue p (square_all K m) n = Ok M0 ->
  (forall x y v, x <> y -> x < m_obs M0 -> y < m_obs M0 -> wcell M0 x y = Some v -> crit (Leaf x) (Leaf y) v) ->
  exists raw tr L' mem',
    mtrace (seq 0 (m_obs M0)) Leaf tr L' mem'
    /\ Forall2 (fun st (ab : mtree * mtree) => crit (fst ab) (snd ab) (s_dis st)) raw tr
    /\ length raw = m_obs M0 - 1
    /\ Permutation (heights d') (map (k_rt K) (map (@s_dis T) raw)).
Proof. exact generic_criterion. Qed.
Print Assumptions C02_generic_criterion.

Theorem C02_generic_QI : forall (p : profile) (rt : Q -> Q) (meth : method) s d (mq : list Q) (n : N) s' d' m' M0,
  generic_with (kops_of (QI rt) meth) p meth s d (map Some mq) n = Ok (s', d', m') ->
  prologue p (square_all (kops_of (QI rt) meth) (map Some mq)) n = Ok M0 ->
  exists raw tr L' mem',
    mtrace (seq 0 (m_obs M0)) Leaf tr L' mem'
    /\ Forall2 (fun st (ab : mtree * mtree) => critI meth M0 (fst ab) (snd ab) (s_dis st)) raw tr
    /\ length raw = m_obs M0 - 1
    /\ Permutation (heights d') (map (k_rt (kops_of (QI rt) meth)) (map (@s_dis qi) raw)).
Proof. exact generic_QI_criterion. Qed.
Print Assumptions C02_generic_QI.

(* reading of critI: a finite value that is the closed-form criterion *)
Theorem C02_critI_reading : forall (meth : method) (M0 : cmat qi) A B v,
  critI meth M0 A B v <-> exists q, v = Some q /\ crit_of meth (Mq M0) A B q.
Proof. intros; reflexivity. Qed.

(* non-vacuity: generic over option Q returns on a concrete input for every method *)
Example C02_generic_QI_runs_exist :
  forallb (fun meth => is_ok (generic_with (kops_of (QI (fun x => x)) meth) Debug meth (st_new qi) (d_new qi 0) (map Some ex_m) 6))
    [Single; Complete; Average; Weighted; Ward; Centroid; Median] = true.
Proof. vm_compute. reflexivity. Qed.
