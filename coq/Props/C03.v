(* C03 - each step merges a closest pair (PARTIAL: theorem for the primitive
   algorithm, in terms of the working matrix; the other algorithms and the
   relation between the working matrix and the criterion are not theorems). *)
Require Import KV.Model.Prelude KV.Model.Condensed KV.Model.Active KV.Model.Dendrogram
  KV.Model.Methods KV.Model.State KV.Model.Primitive KV.Proofs.ActiveRefine KV.Proofs.PrimitiveGreedy.

(* argmin: with >= 2 live clusters it returns a live pair a < b and its working
   dissimilarity v such that NO live pair is strictly smaller (ties: any
   minimal pair is admissible; the code picks the row-major first). Needs only
   that `<` is transitive and irreflexive - true of IEEE `<`, NaNs included. *)
Theorem C03_argmin_minimal : forall (T : Type) (K : kops T) (p : profile),
  (forall a b c, k_ltb K a b = true -> k_ltb K b c = true -> k_ltb K a c = true) ->
  (forall a, k_ltb K a a = false) ->
  forall (M : cmat T), wf_mat M -> forall (act : active) (L : list nat),
  AInv act L -> length (a_next act) = m_obs M -> 2 <= length L ->
  exists a b v, argmin K p M act = Ok (Some (a, b, v))
    /\ In a L /\ In b L /\ a < b /\ mcell M a b = Some v
    /\ forall x y w, In x L -> In y L -> x < y -> mcell M x y = Some w -> k_ltb K w v = false.
Proof. exact argmin_some. Qed.
Print Assumptions C03_argmin_minimal.

(* every iteration of primitive_with, all 7 methods, any float type: a greedy
   step on the current working matrix, re-establishing the loop invariant *)
Theorem C03_primitive_iteration_greedy : forall (T : Type) (K : kops T) (p : profile),
  (forall a b c, k_ltb K a b = true -> k_ltb K b c = true -> k_ltb K a c = true) ->
  (forall a, k_ltb K a a = false) ->
  forall meth s d M i s' d' M' L,
  PInv s M L -> prim_iter K p meth (s, d, M) i = Ok (s', d', M') ->
  exists a b v sz,
    In a L /\ In b L /\ a < b /\ mcell M a b = Some v
    /\ (forall x y w, In x L -> In y L -> x < y -> mcell M x y = Some w -> k_ltb K w v = false)
    /\ d_steps d' = d_steps d ++ [step_new a b v sz]
    /\ PInv s' M' (without a L).
Proof. exact prim_iter_greedy. Qed.
Print Assumptions C03_primitive_iteration_greedy.

Theorem C03_invariant_holds_initially : forall (T : Type) (K : kops T) (s : lstate T) (M : cmat T),
  wf_mat M -> PInv (st_reset K s (m_obs M)) M (seq 0 (m_obs M)).
Proof. exact prim_init. Qed.
Print Assumptions C03_invariant_holds_initially.

Theorem C03_invariant_preserved : forall (T : Type) (K : kops T) (p : profile),
  (forall a b c, k_ltb K a b = true -> k_ltb K b c = true -> k_ltb K a c = true) ->
  (forall a, k_ltb K a a = false) ->
  forall meth (idx : list nat) s d M L s' d' M',
  PInv s M L -> mfold (prim_iter K p meth) idx (s, d, M) = Ok (s', d', M') ->
  exists L', PInv s' M' L'.
Proof. exact prim_fold_inv. Qed.
Print Assumptions C03_invariant_preserved.
