(* C03 - each step merges a closest pair (PARTIAL: theorems for the primitive
   algorithm - on the working matrix for any carrier, and w.r.t. the
   closed-form criterion of the method in exact arithmetic; the other
   algorithms and the rounding tolerance are not theorems). *)
Require Import KV.Model.Prelude KV.Model.Condensed KV.Model.Active KV.Model.Dendrogram
  KV.Model.Methods KV.Model.State KV.Model.Primitive KV.Proofs.ActiveRefine KV.Proofs.PrimitiveGreedy
  KV.Proofs.UpdateSpec KV.Proofs.SortProofs KV.Proofs.Criteria KV.Proofs.LWInvariant KV.Proofs.CriteriaRun.
From Coq Require Import QArith Permutation.
Local Close Scope Q_scope.

(* argmin: with >= 2 live clusters it returns a live pair a < b and its working
   dissimilarity v such that NO live pair is strictly smaller (ties: any
   minimal pair is admissible; the code picks the row-major first). Needs only
   that `<` is transitive and irreflexive - true of IEEE `<`, NaNs included. *)
Theorem C03_argmin_minimal : forall (T : Type) (K : kops T) (p : profile),
  (forall a b c, k_ltb K a b = true -> k_ltb K b c = true -> k_ltb K a c = true) ->
  (forall a, k_ltb K a a = false) ->
  forall (M : cmat T), wf_mat M -> forall (act : active) (L : list nat),
  AInv act L -> length (a_next act) = m_obs M -> 2 <= length L ->
  exists a b v, argmin K p M act = Ok (Some (a, b, v))
    /\ In a L /\ In b L /\ a < b /\ mcell M a b = Some v
    /\ forall x y w, In x L -> In y L -> x < y -> mcell M x y = Some w -> k_ltb K w v = false.
Proof. exact argmin_some. Qed.
Print Assumptions C03_argmin_minimal.

(* every iteration of primitive_with, all 7 methods, any float type: a greedy
   step on the current working matrix, re-establishing the loop invariant *)
Theorem C03_primitive_iteration_greedy : forall (T : Type) (K : kops T) (p : profile),
  (forall a b c, k_ltb K a b = true -> k_ltb K b c = true -> k_ltb K a c = true) ->
  (forall a, k_ltb K a a = false) ->
  forall meth s d M i s' d' M' L,
  PInv s M L -> prim_iter K p meth (s, d, M) i = Ok (s', d', M') ->
  exists a b v sz,
    In a L /\ In b L /\ a < b /\ mcell M a b = Some v
    /\ (forall x y w, In x L -> In y L -> x < y -> mcell M x y = Some w -> k_ltb K w v = false)
    /\ d_steps d' = d_steps d ++ [step_new a b v sz]
    /\ PInv s' M' (without a L).
Proof. exact prim_iter_greedy. Qed.
Print Assumptions C03_primitive_iteration_greedy.

Theorem C03_invariant_holds_initially : forall (T : Type) (K : kops T) (s : lstate T) (M : cmat T),
  wf_mat M -> PInv (st_reset K s (m_obs M)) M (seq 0 (m_obs M)).
Proof. exact prim_init. Qed.
Print Assumptions C03_invariant_holds_initially.

Theorem C03_invariant_preserved : forall (T : Type) (K : kops T) (p : profile),
  (forall a b c, k_ltb K a b = true -> k_ltb K b c = true -> k_ltb K a c = true) ->
  (forall a, k_ltb K a a = false) ->
  forall meth (idx : list nat) s d M L s' d' M',
  PInv s M L -> mfold (prim_iter K p meth) idx (s, d, M) = Ok (s', d', M') ->
  exists L', PInv s' M' L'.
Proof. exact prim_fold_inv. Qed.
Print Assumptions C03_invariant_preserved.

(* whole runs, generic in the criterion: the raw steps of primitive_with are a
   GREEDY agglomeration - each joins two live clusters at their criterion
   value, and no two clusters live at that moment have a strictly smaller
   criterion value (ties: any minimal pair is admissible) *)
Theorem C03_primitive_greedy : forall (T : Type) (K : kops T) (p : profile) (meth : method),
  (forall a b c, k_ltb K a b = true -> k_ltb K b c = true -> k_ltb K a c = true) ->
  (forall a, k_ltb K a a = false) ->
  forall crit : mtree -> mtree -> T -> Prop,
  (forall A B v, crit A B v -> crit B A v) ->
  (forall X A B va vb md, crit X A va -> crit X B vb -> crit A B md ->
     crit X (Node A B) (k_upd K va vb md (tsize A) (tsize B) (if uses_size_x meth then tsize X else 0))) ->
  forall s d m n s' d' m' M0,
  primitive_with K p meth s d m n = Ok (s', d', m') ->
  prologue p (square_all K m) n = Ok M0 ->
  (forall x y v, x <> y -> x < m_obs M0 -> y < m_obs M0 -> wcell M0 x y = Some v -> crit (Leaf x) (Leaf y) v) ->
  exists raw,
    gtrace K crit (seq 0 (m_obs M0)) Leaf raw
    /\ length raw = m_obs M0 - 1
    /\ Permutation (heights d') (map (k_rt K) (map (@s_dis T) raw))
    /\ (requires_sorting meth = false -> heights d' = map (k_rt K) (map (@s_dis T) raw)).
Proof. exact primitive_greedy. Qed.
Print Assumptions C03_primitive_greedy.

(* the reading of gtrace (pinned so that the definition cannot drift) *)
Theorem C03_gtrace_inv : forall (T : Type) (K : kops T) (crit : mtree -> mtree -> T -> Prop)
  L mem st rest, gtrace K crit L mem (st :: rest) ->
  exists a b v sz, st = step_new a b v sz /\ In a L /\ In b L /\ a < b
    /\ crit (mem a) (mem b) v
    /\ (forall x y, In x L -> In y L -> x <> y -> exists w, crit (mem x) (mem y) w /\ k_ltb K w v = false)
    /\ gtrace K crit (without a L) (upd_mem mem a b) rest.
Proof.
  intros T K crit L mem st rest H. inversion H; subst.
  eexists _, _, _, _. split; [reflexivity|]. repeat (split; [assumption|]). assumption.
Qed.
Print Assumptions C03_gtrace_inv.

(* all seven methods in exact rational arithmetic, criterion in closed form
   (CriteriaRun.crit_of: min / max over cross pairs, mean over cross pairs,
   dyadic-weight form, squared centre distances, Ward's variance increase) *)
Theorem C03_primitive_greedy_Q : forall (p : profile) (rt : Q -> Q) (meth : method) s d m n s' d' m' M0,
  primitive_with (kops_of (QFr rt) meth) p meth s d m n = Ok (s', d', m') ->
  prologue p (square_all (kops_of (QFr rt) meth) m) n = Ok M0 ->
  exists raw,
    gtrace (kops_of (QFr rt) meth) (crit_of meth M0) (seq 0 (m_obs M0)) Leaf raw
    /\ length raw = m_obs M0 - 1
    /\ Permutation (heights d') (map (k_rt (kops_of (QFr rt) meth)) (map (@s_dis Q) raw))
    /\ (requires_sorting meth = false -> heights d' = map (k_rt (kops_of (QFr rt) meth)) (map (@s_dis Q) raw)).
Proof. exact primitive_greedy_Q. Qed.
Print Assumptions C03_primitive_greedy_Q.

(* the iteration theorem on the two float carriers of the correspondence check
   (IEEE `<` is transitive and irreflexive, NaNs included: Proofs/FloatOrder.v) *)
Require Import KV.Run.F64 KV.Run.F32 KV.Proofs.FloatInstances.
From Flocq Require Import IEEE754.BinarySingleNaN.
Theorem C03_primitive_iteration_greedy_f64 : forall (p : profile) meth s d M i s' d' M' L,
  PInv s M L -> prim_iter (kops_of F64 meth) p meth (s, d, M) i = Ok (s', d', M') ->
  exists a b v sz,
    In a L /\ In b L /\ a < b /\ mcell M a b = Some v
    /\ (forall x y w, In x L -> In y L -> x < y -> mcell M x y = Some w -> PrimFloat.ltb w v = false)
    /\ d_steps d' = d_steps d ++ [step_new a b v sz]
    /\ PInv s' M' (without a L).
Proof. exact prim_iter_greedy_f64. Qed.
Print Assumptions C03_primitive_iteration_greedy_f64.

Theorem C03_primitive_iteration_greedy_f32 : forall (p : profile) meth s d M i s' d' M' L,
  PInv s M L -> prim_iter (kops_of F32 meth) p meth (s, d, M) i = Ok (s', d', M') ->
  exists a b v sz,
    In a L /\ In b L /\ a < b /\ mcell M a b = Some v
    /\ (forall x y w, In x L -> In y L -> x < y -> mcell M x y = Some w -> Bltb w v = false)
    /\ d_steps d' = d_steps d ++ [step_new a b v sz]
    /\ PInv s' M' (without a L).
Proof. exact prim_iter_greedy_f32. Qed.
Print Assumptions C03_primitive_iteration_greedy_f32.

(* ---- the binary heap of the generic algorithm (src/queue.rs): heap order ----
   the top has minimal priority; pop, set_priority and heapify keep / establish
   the order (strict weak order on the priorities) *)
Require Import KV.Model.Heap KV.Proofs.HeapInv.
Theorem C03_heap_top_min : forall (T : Type) (ltb : T -> T -> bool),
  (forall a, ltb a a = false) ->
  (forall a b c, ltb a b = false -> ltb b c = false -> ltb a c = false) ->
  forall (n : nat) (h : heap T), HInv n h -> HOrd ltb h ->
  forall k v v0, pp h k = Some v -> pp h 0 = Some v0 -> ltb v v0 = false.
Proof. exact top_min. Qed.
Print Assumptions C03_heap_top_min.

Theorem C03_heap_pop_ordered : forall (T : Type) (ltb : T -> T -> bool),
  (forall a, ltb a a = false) ->
  (forall a b c, ltb a b = true -> ltb b c = true -> ltb a c = true) ->
  forall (n : nat) (h : heap T) (f : nat) (h' : heap T),
  HInv n h -> HOrd ltb h -> h_pop ltb h = Ok (Some f, h') -> HOrd ltb h'.
Proof. exact pop_ord. Qed.
Print Assumptions C03_heap_pop_ordered.

Theorem C03_heap_set_priority_ordered : forall (T : Type) (ltb : T -> T -> bool),
  (forall a, ltb a a = false) ->
  (forall a b c, ltb a b = true -> ltb b c = true -> ltb a c = true) ->
  (forall a b c, ltb a b = false -> ltb b c = false -> ltb a c = false) ->
  forall (n : nat) (h : heap T) (o : nat) (v : T) (h' : heap T),
  HInv n h -> HOrd ltb h -> inh h o -> h_set_priority ltb h o v = Ok h' -> HOrd ltb h'.
Proof. exact set_priority_ord. Qed.
Print Assumptions C03_heap_set_priority_ordered.

Theorem C03_heapify_ordered : forall (T : Type) (ltb : T -> T -> bool),
  (forall a, ltb a a = false) ->
  (forall a b c, ltb a b = true -> ltb b c = true -> ltb a c = true) ->
  forall (n : nat) (h0 : heap T) (pr : list T) (h' : heap T),
  HInv n h0 -> length (h_heap h0) = n -> length pr = n ->
  h_heapify_post ltb h0 pr = Ok h' -> HOrd ltb h'.
Proof. exact heapify_post_ord. Qed.
Print Assumptions C03_heapify_ordered.

(* ---- the generic algorithm (src/generic.rs), whole runs ----
   Every merge of generic_with is a GLOBAL minimum of the criterion over all
   pairs of live clusters.  Generic in the carrier and the criterion; needed of
   the update formula: where the code does not re-check a changed cell against
   the row's priority, the new value is not below the old ones. *)
Require Import KV.Model.Generic KV.Proofs.GenericGreedy KV.Proofs.GenericGreedyInstances KV.Proofs.QInf.
Theorem C03_generic_greedy : forall (T : Type) (K : kops T) (p : profile) (meth : method),
  (forall a, k_ltb K a a = false) ->
  (forall a b c, k_ltb K a b = true -> k_ltb K b c = true -> k_ltb K a c = true) ->
  (forall a b c, k_ltb K a b = false -> k_ltb K b c = false -> k_ltb K a c = false) ->
  (forall a, k_eqb K a a = true) ->
  (forall va vb md sa sb sx,
     k_ltb K va (k_inf K) = true -> k_ltb K vb (k_inf K) = true -> k_ltb K md (k_inf K) = true ->
     k_ltb K (k_upd K va vb md sa sb sx) (k_inf K) = true) ->
  (below_kind_of meth = BelowRename ->
     forall va vb md sa sb sx, (uses_sizes_ab meth = true -> 0 < sa /\ 0 < sb) ->
     k_ltb K va md = false -> k_ltb K vb md = false ->
     k_ltb K (k_upd K va vb md sa sb sx) va = false \/ k_ltb K (k_upd K va vb md sa sb sx) vb = false) ->
  (tracks_candidates meth = false ->
     forall va vb md sa sb sx, k_ltb K (k_upd K va vb md sa sb sx) vb = false) ->
  (forall u v, k_eqb K u v = true -> k_ltb K v u = false) ->
  forall crit : mtree -> mtree -> T -> Prop,
  (forall A B v, crit A B v -> crit B A v) ->
  (forall X A B va vb md, crit X A va -> crit X B vb -> crit A B md ->
     crit X (Node A B) (k_upd K va vb md (tsize A) (tsize B) (if uses_size_x meth then tsize X else 0))) ->
  (uses_sizes_ab meth = false ->
     forall va vb md sa sb sa' sb' sx, k_upd K va vb md sa sb sx = k_upd K va vb md sa' sb' sx) ->
  forall s d m n s' d' m' M0,
  Forall (fun v => k_ltb K v (k_inf K) = true) (square_all K m) ->
  generic_with K p meth s d m n = Ok (s', d', m') ->
  prologue p (square_all K m) n = Ok M0 ->
  (forall x y v, x <> y -> x < m_obs M0 -> y < m_obs M0 -> wcell M0 x y = Some v -> crit (Leaf x) (Leaf y) v) ->
  exists raw,
    gtrace K crit (seq 0 (m_obs M0)) Leaf raw
    /\ length raw = m_obs M0 - 1
    /\ Permutation (heights d') (map (k_rt K) (map (@s_dis T) raw))
    /\ (requires_sorting meth = false -> heights d' = map (k_rt K) (map (@s_dis T) raw)).
Proof. exact generic_greedy. Qed.
Print Assumptions C03_generic_greedy.

(* single / complete through `generic`, any carrier with a strict weak order *)
Theorem C03_generic_selection_greedy : forall (T : Type) (F : fops T) (p : profile),
  (forall a, f_ltb F a a = false) ->
  (forall a b c, f_ltb F a b = true -> f_ltb F b c = true -> f_ltb F a c = true) ->
  (forall a b c, f_ltb F a b = false -> f_ltb F b c = false -> f_ltb F a c = false) ->
  (forall a, f_eqb F a a = true) ->
  (forall u v, f_eqb F u v = true -> f_ltb F v u = false) ->
  forall meth s d (m : list T) (n : N) s' d' m' M0,
  meth = Single \/ meth = Complete ->
  Forall (fun v => f_ltb F v (f_inf F) = true) m ->
  generic_with (kops_of F meth) p meth s d m n = Ok (s', d', m') ->
  prologue p m n = Ok M0 ->
  exists raw,
    gtrace (kops_of F meth) (sel_crit F meth M0) (seq 0 (m_obs M0)) Leaf raw
    /\ length raw = m_obs M0 - 1
    /\ Permutation (heights d') (map (@s_dis T) raw).
Proof. exact generic_selection_greedy. Qed.
Print Assumptions C03_generic_selection_greedy.

(* exact rationals with the infinite sentinel: all seven methods *)
Theorem C03_generic_greedy_QI : forall (p : profile) (rt : Q -> Q) (meth : method)
  s d (mq : list Q) (n : N) s' d' m' M0,
  generic_with (kops_of (QI rt) meth) p meth s d (map Some mq) n = Ok (s', d', m') ->
  prologue p (square_all (kops_of (QI rt) meth) (map Some mq)) n = Ok M0 ->
  exists raw,
    gtrace (kops_of (QI rt) meth) (critI meth M0) (seq 0 (m_obs M0)) Leaf raw
    /\ length raw = m_obs M0 - 1
    /\ Permutation (heights d') (map (k_rt (kops_of (QI rt) meth)) (map (@s_dis qi) raw))
    /\ (requires_sorting meth = false -> heights d' = map (k_rt (kops_of (QI rt) meth)) (map (@s_dis qi) raw)).
Proof. exact generic_QI_greedy. Qed.
Print Assumptions C03_generic_greedy_QI.

(* ---- Method::Single through EVERY entry point (mst and nnchain are not greedy step by step,
   but their RETURNED dendrogram is): replaying the returned steps in order - current clusters
   = classes of the label function labi after j steps - when step j is applied no two
   observations in different current clusters are closer than its height (ties included), and
   with pairwise distinct heights the height is realised by a pair between the two merged
   clusters, i.e. the merged pair is a closest pair at exactly its single-linkage
   dissimilarity ---- *)
Require Import KV.Model.Linkage KV.Proofs.RelabelWF KV.Proofs.CriteriaRun KV.Proofs.AgreeSingle KV.Proofs.SingleReplay.
Local Close Scope Q_scope.

Theorem C03_single_replay_greedy : forall (T : Type) (F : fops T) (p : profile),
  (forall a, f_ltb F a a = false) ->
  (forall a b c, f_ltb F a b = true -> f_ltb F b c = true -> f_ltb F a c = true) ->
  (forall a b c, f_ltb F a b = false -> f_ltb F b c = false -> f_ltb F a c = false) ->
  (forall a b, f_eqb F a b = true -> f_ltb F b a = false) ->
  (forall a, f_eqb F a a = true) ->
  forall (a : algo) s d (m : list T) n s' d' m' M0, (n < two32)%N ->
  run_with F p a Single s d m n = Ok (s', d', m') ->
  prologue p m n = Ok M0 -> 1 <= m_obs M0 ->
  Forall (fun v => f_ltb F v (f_inf F) = true) m ->
  (forall j t, nth_error (d_steps d') j = Some t ->
     forall x y, x < m_obs M0 -> y < m_obs M0 ->
       labi (m_obs M0) (d_steps d') j x <> labi (m_obs M0) (d_steps d') j y ->
       f_ltb F (cell_or (f_inf F) M0 x y) (s_dis t) = false)
  /\ (strictly F (heights d') ->
      forall j t, nth_error (d_steps d') j = Some t ->
      exists x y, x < m_obs M0 /\ y < m_obs M0
        /\ labi (m_obs M0) (d_steps d') j x = s_c1 t /\ labi (m_obs M0) (d_steps d') j y = s_c2 t
        /\ f_ltb F (s_dis t) (cell_or (f_inf F) M0 x y) = false).
Proof. exact single_replay_greedy. Qed.
Print Assumptions C03_single_replay_greedy.

Theorem C03_single_replay_greedy_f64 : forall (p : profile) (a : algo) s d (m : list PrimFloat.float) (n : N) s' d' m' M0,
  (n < two32)%N ->
  run_with F64 p a Single s d m n = Ok (s', d', m') ->
  prologue p m n = Ok M0 -> 1 <= m_obs M0 ->
  Forall (fun v => PrimFloat.ltb v PrimFloat.infinity = true) m ->
  (forall j t, nth_error (d_steps d') j = Some t ->
     forall x y, x < m_obs M0 -> y < m_obs M0 ->
       labi (m_obs M0) (d_steps d') j x <> labi (m_obs M0) (d_steps d') j y ->
       PrimFloat.ltb (MstPrim.dcell (kops_of F64 Single) M0 x y) (s_dis t) = false)
  /\ (strictly F64 (heights d') ->
      forall j t, nth_error (d_steps d') j = Some t ->
      exists x y, x < m_obs M0 /\ y < m_obs M0
        /\ labi (m_obs M0) (d_steps d') j x = s_c1 t /\ labi (m_obs M0) (d_steps d') j y = s_c2 t
        /\ PrimFloat.ltb (s_dis t) (MstPrim.dcell (kops_of F64 Single) M0 x y) = false).
Proof. exact single_replay_greedy_f64. Qed.
Print Assumptions C03_single_replay_greedy_f64.

Theorem C03_single_replay_greedy_f32 : forall (p : profile) (a : algo) s d (m : list f32) (n : N) s' d' m' M0,
  (n < two32)%N ->
  run_with F32 p a Single s d m n = Ok (s', d', m') ->
  prologue p m n = Ok M0 -> 1 <= m_obs M0 ->
  Forall (fun v => f_ltb F32 v (f_inf F32) = true) m ->
  (forall j t, nth_error (d_steps d') j = Some t ->
     forall x y, x < m_obs M0 -> y < m_obs M0 ->
       labi (m_obs M0) (d_steps d') j x <> labi (m_obs M0) (d_steps d') j y ->
       f_ltb F32 (MstPrim.dcell (kops_of F32 Single) M0 x y) (s_dis t) = false)
  /\ (strictly F32 (heights d') ->
      forall j t, nth_error (d_steps d') j = Some t ->
      exists x y, x < m_obs M0 /\ y < m_obs M0
        /\ labi (m_obs M0) (d_steps d') j x = s_c1 t /\ labi (m_obs M0) (d_steps d') j y = s_c2 t
        /\ f_ltb F32 (s_dis t) (MstPrim.dcell (kops_of F32 Single) M0 x y) = false).
Proof. exact single_replay_greedy_f32. Qed.
Print Assumptions C03_single_replay_greedy_f32.
