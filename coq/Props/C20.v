(* C20 - auxiliary memory is linear in n; `_with` amortises. (Allocation model:
   std's RawVec growth and stable-sort scratch policies are MODELLED.) *)
Require Import KV.Model.Prelude KV.Model.Alloc KV.Proofs.AllocProofs.

Local Open Scope N_scope.

(* cold call through an allocating wrapper: everything it ever requests
   (scratch vectors, the n-1 steps, the sort buffer) sums to at most
   512 n + 4096 bytes - for every n, both float widths, every method/entry
   point (the trace does not depend on the input values) *)
Theorem C20_cold_peak : forall (n szT : N) (sorts : bool),
  n <= 250000 -> (szT = 4 \/ szT = 8) -> total (cold_call n szT sorts) <= 512 * n + 4096.
Proof. exact cold_peak. Qed.
Print Assumptions C20_cold_peak.

(* warm call: at most one allocation (the sort buffer) of at most 64 n + 1024
   bytes, capacities unchanged *)
Theorem C20_warm_call : forall (c : caps) (n szT : N) (sorts : bool),
  n <= 250000 -> enough c n ->
  fst (with_call c n szT sorts) = c
  /\ (length (snd (with_call c n szT sorts)) <= 1)%nat
  /\ total (snd (with_call c n szT sorts)) <= 64 * n + 1024.
Proof. exact warm_call. Qed.
Print Assumptions C20_warm_call.

(* ... after ANY history of calls in which a size n' >= n was clustered *)
Theorem C20_warm_after_history : forall (calls : list (N * N * bool)) (c : caps) (n' n szT : N) (sorts : bool),
  (exists szT' sorts', In (n', szT', sorts') calls) -> 2 <= n' -> n <= n' -> n <= 250000 ->
  let c' := run_calls c calls in
  enough c' n
  /\ (length (snd (with_call c' n szT sorts)) <= 1)%nat
  /\ total (snd (with_call c' n szT sorts)) <= 64 * n + 1024.
Proof. exact warm_after_history. Qed.
Print Assumptions C20_warm_after_history.

Theorem C20_caps_monotone : forall (c : caps) (n szT : N) (sorts : bool),
  le_caps c (fst (with_call c n szT sorts)) /\ (2 <= n -> enough (fst (with_call c n szT sorts)) n).
Proof. exact with_call_caps. Qed.
Print Assumptions C20_caps_monotone.

Example C20_nonvacuous :
  let c := fst (with_call caps0 300 8 true) in
  enough c 300 /\ enough c 200 /\ snd (with_call c 200 8 true) = [6368] /\ snd (with_call c 100 8 true) = [].
Proof. exact warm_nonvacuous. Qed.
Print Assumptions C20_nonvacuous.
