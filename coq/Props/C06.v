(* C06 - algorithms agree with each other (PARTIAL: the dispatch of linkage and
   the independence from scratch state are theorems; agreement between
   different algorithms is established by correspondence + reference oracle). *)
Require Import KV.Model.Prelude KV.Model.Methods KV.Model.State KV.Model.Dendrogram
  KV.Model.Linkage KV.Model.History KV.Model.Mst KV.Model.Chain KV.Model.Generic
  KV.Proofs.Small KV.Proofs.Purity.

(* linkage IS mst (single), nnchain (complete/average/weighted/ward) or
   generic (centroid/median) - so its result is identical to theirs *)
Theorem C06_linkage_is_dispatch : forall (T : Type) (F : fops T) (p : profile) (meth : method)
  (s : lstate T) (d : dend T) (m : list T) (n : N),
  linkage_with F p meth s d m n =
  match meth with
  | Single => mst_with (kops_of F Single) p s d m n
  | Complete | Average | Weighted | Ward => nnchain_with (kops_of F meth) p meth s d m n
  | Centroid | Median => generic_with (kops_of F meth) p meth s d m n
  end.
Proof. exact linkage_dispatch. Qed.
Print Assumptions C06_linkage_is_dispatch.

Theorem C06_wrappers_equal_with_forms : forall (T : Type) (p : profile) (F : fops T) (a : algo)
  (meth : method) (m : list T) (n : N), d_new_ok n = true ->
  forall s d, out_of (run_fresh F p a meth m n) = out_of (run_with F p a meth s d m n).
Proof. exact wrapper_is_with_fresh. Qed.
Print Assumptions C06_wrappers_equal_with_forms.

(* ---- generic = primitive on tie-free runs (Proofs/AgreePG.v) ----
   Whenever, at every iteration of the primitive (naive Lance-Williams) run, the
   minimum of the working matrix over the pairs of live clusters is attained by
   one pair only, generic_with returns THE SAME dendrogram (labels, sizes,
   order, heights - equal, not merely close).  Any carrier; the hypotheses on
   the order / update formula are those of C03_generic_greedy. *)
Require Import KV.Model.Condensed KV.Model.Active KV.Model.Primitive KV.Proofs.ActiveRefine KV.Proofs.UpdateSpec
  KV.Proofs.AgreePG KV.Proofs.AgreeInstances KV.Proofs.QInf.
From Coq Require Import QArith.
Local Close Scope Q_scope.

(* the tie-freeness condition, pinned *)
Theorem C06_min_unique_def : forall (T : Type) (K : kops T) (M : cmat T) (L : list nat),
  min_unique K M L <->
  (forall x y x' y' v w, In x L -> In y L -> x < y -> In x' L -> In y' L -> x' < y' -> (x, y) <> (x', y') ->
     wcell M x y = Some v -> wcell M x' y' = Some w ->
     (forall u1 u2 u, In u1 L -> In u2 L -> u1 < u2 -> wcell M u1 u2 = Some u -> k_ltb K u v = false) ->
     k_ltb K v w = true).
Proof. intros; reflexivity. Qed.
Print Assumptions C06_min_unique_def.

Theorem C06_tie_free_from_def : forall (T : Type) (K : kops T) (p : profile) (meth : method) i k sp dp Mp,
  tie_free_from K p meth i k sp dp Mp <->
  (forall j s d M L', j < k -> mfold (prim_iter K p meth) (seq i j) (sp, dp, Mp) = Ok (s, d, M) ->
     AInv (st_active s) L' -> min_unique K M L').
Proof. intros; reflexivity. Qed.
Print Assumptions C06_tie_free_from_def.

Theorem C06_primitive_generic_agree : forall (T : Type) (K : kops T) (p : profile) (meth : method),
  (forall a, k_ltb K a a = false) ->
  (forall a b c, k_ltb K a b = true -> k_ltb K b c = true -> k_ltb K a c = true) ->
  (forall a b c, k_ltb K a b = false -> k_ltb K b c = false -> k_ltb K a c = false) ->
  (forall a, k_eqb K a a = true) ->
  (forall u v, k_eqb K u v = true -> k_ltb K v u = false) ->
  (forall va vb md sa sb sx,
     k_ltb K va (k_max K) = true -> k_ltb K vb (k_max K) = true -> k_ltb K md (k_max K) = true ->
     k_ltb K (k_upd K va vb md sa sb sx) (k_max K) = true) ->
  (below_kind_of meth = BelowRename ->
     forall va vb md sa sb sx, (uses_sizes_ab meth = true -> 0 < sa /\ 0 < sb) ->
     k_ltb K (k_upd K va vb md sa sb sx) va = false \/ k_ltb K (k_upd K va vb md sa sb sx) vb = false) ->
  (tracks_candidates meth = false ->
     forall va vb md sa sb sx, k_ltb K (k_upd K va vb md sa sb sx) vb = false) ->
  (uses_sizes_ab meth = false ->
     forall va vb md sa sb sa' sb' sx, k_upd K va vb md sa sb sx = k_upd K va vb md sa' sb' sx) ->
  forall s1 d1 s2 d2 m n sp dp mp sg dg mg M0,
  Forall (fun v => k_ltb K v (k_max K) = true) (square_all K m) ->
  prologue p (square_all K m) n = Ok M0 ->
  primitive_with K p meth s1 d1 m n = Ok (sp, dp, mp) ->
  generic_with K p meth s2 d2 m n = Ok (sg, dg, mg) ->
  tie_free_from K p meth 0 (m_obs M0 - 1) (st_reset K s1 (m_obs M0)) (d_reset d1 (m_obs M0)) M0 ->
  dp = dg.
Proof. exact primitive_generic_agree. Qed.
Print Assumptions C06_primitive_generic_agree.

Theorem C06_selection_primitive_generic_agree : forall (T : Type) (F : fops T) (p : profile),
  (forall a, f_ltb F a a = false) ->
  (forall a b c, f_ltb F a b = true -> f_ltb F b c = true -> f_ltb F a c = true) ->
  (forall a b c, f_ltb F a b = false -> f_ltb F b c = false -> f_ltb F a c = false) ->
  (forall a, f_eqb F a a = true) ->
  (forall u v, f_eqb F u v = true -> f_ltb F v u = false) ->
  forall meth s1 d1 s2 d2 (m : list T) (n : N) sp dp mp sg dg mg M0,
  meth = Single \/ meth = Complete ->
  Forall (fun v => f_ltb F v (f_max F) = true) m ->
  prologue p m n = Ok M0 ->
  primitive_with (kops_of F meth) p meth s1 d1 m n = Ok (sp, dp, mp) ->
  generic_with (kops_of F meth) p meth s2 d2 m n = Ok (sg, dg, mg) ->
  tie_free_from (kops_of F meth) p meth 0 (m_obs M0 - 1)
    (st_reset (kops_of F meth) s1 (m_obs M0)) (d_reset d1 (m_obs M0)) M0 ->
  dp = dg.
Proof. exact selection_primitive_generic_agree. Qed.
Print Assumptions C06_selection_primitive_generic_agree.

(* exact rationals with the infinite sentinel: every method but Ward *)
Theorem C06_QI_primitive_generic_agree : forall (p : profile) (rt : Q -> Q) (meth : method), meth <> Ward ->
  forall s1 d1 s2 d2 (mq : list Q) (n : N) sp dp mp sg dg mg M0,
  prologue p (square_all (kops_of (QI rt) meth) (map Some mq)) n = Ok M0 ->
  primitive_with (kops_of (QI rt) meth) p meth s1 d1 (map Some mq) n = Ok (sp, dp, mp) ->
  generic_with (kops_of (QI rt) meth) p meth s2 d2 (map Some mq) n = Ok (sg, dg, mg) ->
  tie_free_from (kops_of (QI rt) meth) p meth 0 (m_obs M0 - 1)
    (st_reset (kops_of (QI rt) meth) s1 (m_obs M0)) (d_reset d1 (m_obs M0)) M0 ->
  dp = dg.
Proof. exact QI_primitive_generic_agree. Qed.
Print Assumptions C06_QI_primitive_generic_agree.
