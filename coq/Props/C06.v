(* C06 - algorithms agree with each other (PARTIAL: the dispatch of linkage and
   the independence from scratch state are theorems; agreement between
   different algorithms is established by correspondence + reference oracle). *)
Require Import KV.Model.Prelude KV.Model.Methods KV.Model.State KV.Model.Dendrogram
  KV.Model.Linkage KV.Model.History KV.Model.Mst KV.Model.Chain KV.Model.Generic
  KV.Proofs.Small KV.Proofs.Purity.

(* linkage IS mst (single), nnchain (complete/average/weighted/ward) or
   generic (centroid/median) - so its result is identical to theirs *)
Theorem C06_linkage_is_dispatch : forall (T : Type) (F : fops T) (p : profile) (meth : method)
  (s : lstate T) (d : dend T) (m : list T) (n : N),
  linkage_with F p meth s d m n =
  match meth with
  | Single => mst_with (kops_of F Single) p s d m n
  | Complete | Average | Weighted | Ward => nnchain_with (kops_of F meth) p meth s d m n
  | Centroid | Median => generic_with (kops_of F meth) p meth s d m n
  end.
Proof. exact linkage_dispatch. Qed.
Print Assumptions C06_linkage_is_dispatch.

Theorem C06_wrappers_equal_with_forms : forall (T : Type) (p : profile) (F : fops T) (a : algo)
  (meth : method) (m : list T) (n : N), d_new_ok n = true ->
  forall s d, out_of (run_fresh F p a meth m n) = out_of (run_with F p a meth s d m n).
Proof. exact wrapper_is_with_fresh. Qed.
Print Assumptions C06_wrappers_equal_with_forms.

(* ---- generic = primitive on tie-free runs (Proofs/AgreePG.v) ----
   Whenever, at every iteration of the primitive (naive Lance-Williams) run, the
   minimum of the working matrix over the pairs of live clusters is attained by
   one pair only, generic_with returns THE SAME dendrogram (labels, sizes,
   order, heights - equal, not merely close).  Any carrier; the hypotheses on
   the order / update formula are those of C03_generic_greedy. *)
Require Import KV.Model.Condensed KV.Model.Active KV.Model.Primitive KV.Proofs.ActiveRefine KV.Proofs.UpdateSpec
  KV.Proofs.AgreePG KV.Proofs.AgreeInstances KV.Proofs.QInf.
From Coq Require Import QArith.
Local Close Scope Q_scope.

(* the tie-freeness condition, pinned *)
Theorem C06_min_unique_def : forall (T : Type) (K : kops T) (M : cmat T) (L : list nat),
  min_unique K M L <->
  (forall x y x' y' v w, In x L -> In y L -> x < y -> In x' L -> In y' L -> x' < y' -> (x, y) <> (x', y') ->
     wcell M x y = Some v -> wcell M x' y' = Some w ->
     (forall u1 u2 u, In u1 L -> In u2 L -> u1 < u2 -> wcell M u1 u2 = Some u -> k_ltb K u v = false) ->
     k_ltb K v w = true).
Proof. intros; reflexivity. Qed.
Print Assumptions C06_min_unique_def.

Theorem C06_tie_free_from_def : forall (T : Type) (K : kops T) (p : profile) (meth : method) i k sp dp Mp,
  tie_free_from K p meth i k sp dp Mp <->
  (forall j s d M L', j < k -> mfold (prim_iter K p meth) (seq i j) (sp, dp, Mp) = Ok (s, d, M) ->
     AInv (st_active s) L' -> min_unique K M L').
Proof. intros; reflexivity. Qed.
Print Assumptions C06_tie_free_from_def.

Theorem C06_primitive_generic_agree : forall (T : Type) (K : kops T) (p : profile) (meth : method),
  (forall a, k_ltb K a a = false) ->
  (forall a b c, k_ltb K a b = true -> k_ltb K b c = true -> k_ltb K a c = true) ->
  (forall a b c, k_ltb K a b = false -> k_ltb K b c = false -> k_ltb K a c = false) ->
  (forall a, k_eqb K a a = true) ->
  (forall u v, k_eqb K u v = true -> k_ltb K v u = false) ->
  (forall va vb md sa sb sx,
     k_ltb K va (k_inf K) = true -> k_ltb K vb (k_inf K) = true -> k_ltb K md (k_inf K) = true ->
     k_ltb K (k_upd K va vb md sa sb sx) (k_inf K) = true) ->
  (below_kind_of meth = BelowRename ->
     forall va vb md sa sb sx, (uses_sizes_ab meth = true -> 0 < sa /\ 0 < sb) ->
     k_ltb K va md = false -> k_ltb K vb md = false ->
     k_ltb K (k_upd K va vb md sa sb sx) va = false \/ k_ltb K (k_upd K va vb md sa sb sx) vb = false) ->
  (tracks_candidates meth = false ->
     forall va vb md sa sb sx, k_ltb K (k_upd K va vb md sa sb sx) vb = false) ->
  (uses_sizes_ab meth = false ->
     forall va vb md sa sb sa' sb' sx, k_upd K va vb md sa sb sx = k_upd K va vb md sa' sb' sx) ->
  forall s1 d1 s2 d2 m n sp dp mp sg dg mg M0,
  Forall (fun v => k_ltb K v (k_inf K) = true) (square_all K m) ->
  prologue p (square_all K m) n = Ok M0 ->
  primitive_with K p meth s1 d1 m n = Ok (sp, dp, mp) ->
  generic_with K p meth s2 d2 m n = Ok (sg, dg, mg) ->
  tie_free_from K p meth 0 (m_obs M0 - 1) (st_reset K s1 (m_obs M0)) (d_reset d1 (m_obs M0)) M0 ->
  dp = dg.
Proof. exact primitive_generic_agree. Qed.
Print Assumptions C06_primitive_generic_agree.

Theorem C06_selection_primitive_generic_agree : forall (T : Type) (F : fops T) (p : profile),
  (forall a, f_ltb F a a = false) ->
  (forall a b c, f_ltb F a b = true -> f_ltb F b c = true -> f_ltb F a c = true) ->
  (forall a b c, f_ltb F a b = false -> f_ltb F b c = false -> f_ltb F a c = false) ->
  (forall a, f_eqb F a a = true) ->
  (forall u v, f_eqb F u v = true -> f_ltb F v u = false) ->
  forall meth s1 d1 s2 d2 (m : list T) (n : N) sp dp mp sg dg mg M0,
  meth = Single \/ meth = Complete ->
  Forall (fun v => f_ltb F v (f_inf F) = true) m ->
  prologue p m n = Ok M0 ->
  primitive_with (kops_of F meth) p meth s1 d1 m n = Ok (sp, dp, mp) ->
  generic_with (kops_of F meth) p meth s2 d2 m n = Ok (sg, dg, mg) ->
  tie_free_from (kops_of F meth) p meth 0 (m_obs M0 - 1)
    (st_reset (kops_of F meth) s1 (m_obs M0)) (d_reset d1 (m_obs M0)) M0 ->
  dp = dg.
Proof. exact selection_primitive_generic_agree. Qed.
Print Assumptions C06_selection_primitive_generic_agree.

(* exact rationals with the infinite sentinel: all seven methods *)
Theorem C06_QI_primitive_generic_agree : forall (p : profile) (rt : Q -> Q) (meth : method)
  s1 d1 s2 d2 (mq : list Q) (n : N) sp dp mp sg dg mg M0,
  prologue p (square_all (kops_of (QI rt) meth) (map Some mq)) n = Ok M0 ->
  primitive_with (kops_of (QI rt) meth) p meth s1 d1 (map Some mq) n = Ok (sp, dp, mp) ->
  generic_with (kops_of (QI rt) meth) p meth s2 d2 (map Some mq) n = Ok (sg, dg, mg) ->
  tie_free_from (kops_of (QI rt) meth) p meth 0 (m_obs M0 - 1)
    (st_reset (kops_of (QI rt) meth) s1 (m_obs M0)) (d_reset d1 (m_obs M0)) M0 ->
  dp = dg.
Proof. exact QI_primitive_generic_agree. Qed.
Print Assumptions C06_QI_primitive_generic_agree.

(* ---- nnchain = primitive on tie-free inputs: the same hierarchy at the same
   heights (Proofs/RnnConfluence.v, AgreeChain.v) ----
   nnchain does not merge in the greedy order; both runs are maximal sequences
   of merges of strict reciprocal nearest neighbours, and all such sequences
   create the same nodes when the criterion is reducible. *)
Require Import KV.Model.Chain KV.Proofs.LWInvariant KV.Proofs.SortProofs KV.Proofs.RnnConfluence KV.Proofs.AgreeChain
  KV.Proofs.AgreeChainInstances KV.Proofs.ChainIter KV.Proofs.Criteria KV.Proofs.CriteriaRun.
From Coq Require Import Permutation.

(* the abstract theorem: maximal strict-RNN merge sequences are confluent *)
Theorem C06_rnn_confluence : forall (T : Type) (ltb : T -> T -> bool),
  (forall a, ltb a a = false) ->
  (forall a b c, ltb a b = true -> ltb b c = true -> ltb a c = true) ->
  (forall a b c, ltb a b = false -> ltb b c = false -> ltb a c = false) ->
  forall crit : mtree -> mtree -> T -> Prop,
  (forall A B v, crit A B v -> crit B A v) ->
  (forall X A B va vb md, crit X A va -> crit X B vb -> crit A B md -> exists w, crit X (Node A B) w) ->
  (forall X A B va vb md w, crit X A va -> crit X B vb -> crit A B md -> crit X (Node A B) w ->
     ltb md va = true -> ltb md vb = true -> ltb w va = false \/ ltb w vb = false) ->
  forall S ns2, rseq ltb crit S ns2 -> SInv crit S -> forall ns1, rseq ltb crit S ns1 -> Permutation ns1 ns2.
Proof. exact rnn_confluence. Qed.
Print Assumptions C06_rnn_confluence.

(* the notions, pinned *)
Theorem C06_rnn_defs : forall (T : Type) (ltb : T -> T -> bool) (crit : mtree -> mtree -> T -> Prop)
  (S : list mtree) (A B : mtree),
  (srnn ltb crit S A B <->
     In A S /\ In B S /\ A <> B
     /\ exists v, crit A B v
          /\ forall X w, In X S -> X <> A -> X <> B -> (crit A X w \/ crit B X w) -> ltb v w = true)
  /\ (SInv crit S <->
        NoDup (flat_map leaves S) /\ forall X Y, In X S -> In Y S -> X <> Y -> exists w, crit X Y w)
  /\ after A B S = mk A B :: remove mtree_eq_dec A (remove mtree_eq_dec B S)
  /\ mk A B = (if maxleaf A <? maxleaf B then Node A B else Node B A).
Proof. intros; split; [|split; [|split]]; try reflexivity; split; intros Hx; exact Hx. Qed.
Print Assumptions C06_rnn_defs.

Theorem C06_nnchain_primitive_same_hierarchy : forall (T : Type) (K : kops T) (p : profile) (meth : method),
  (forall a, k_ltb K a a = false) ->
  (forall a b c, k_ltb K a b = true -> k_ltb K b c = true -> k_ltb K a c = true) ->
  (forall a b c, k_ltb K a b = false -> k_ltb K b c = false -> k_ltb K a c = false) ->
  (forall va vb md sa sb sx, size_ok meth sa sb sx ->
     k_ltb K va md = false -> k_ltb K vb md = false ->
     k_ltb K (k_upd K va vb md sa sb sx) va = false \/ k_ltb K (k_upd K va vb md sa sb sx) vb = false) ->
  forall crit : mtree -> mtree -> T -> Prop,
  (forall A B v, crit A B v -> crit B A v) ->
  (forall X A B va vb md, crit X A va -> crit X B vb -> crit A B md ->
     crit X (Node A B) (k_upd K va vb md (tsize A) (tsize B) (if uses_size_x meth then tsize X else 0))) ->
  (uses_sizes_ab meth = false ->
     forall va vb md sa sb sa' sb' sx, k_upd K va vb md sa sb sx = k_upd K va vb md sa' sb' sx) ->
  (forall A B v w, crit A B v -> crit A B w -> k_ltb K v w = false /\ k_ltb K w v = false) ->
  forall s1 d1 s2 d2 m n sp dp mp sc dc mc M0,
  prologue p (square_all K m) n = Ok M0 ->
  (forall x y v, x <> y -> x < m_obs M0 -> y < m_obs M0 -> wcell M0 x y = Some v -> crit (Leaf x) (Leaf y) v) ->
  primitive_with K p meth s1 d1 m n = Ok (sp, dp, mp) ->
  nnchain_with K p meth s2 d2 m n = Ok (sc, dc, mc) ->
  distinct_from K (prim_iter K p meth) 0 (m_obs M0 - 1) (st_reset K s1 (m_obs M0)) (d_reset d1 (m_obs M0)) M0 ->
  distinct_from K (chain_iter K p meth) 0 (m_obs M0 - 1)
    (st_with_chain (st_reset K s2 (m_obs M0)) []) (d_reset d2 (m_obs M0)) M0 ->
  exists raw_p raw_c,
    length raw_p = m_obs M0 - 1 /\ length raw_c = m_obs M0 - 1
    /\ Permutation (heights dp) (map (k_rt K) (map (@s_dis T) raw_p))
    /\ Permutation (heights dc) (map (k_rt K) (map (@s_dis T) raw_c))
    /\ Permutation (nodes_of Leaf raw_p) (nodes_of Leaf raw_c)
    /\ (forall N v w, In (N, v) (node_heights Leaf raw_p) -> In (N, w) (node_heights Leaf raw_c) ->
          k_ltb K v w = false /\ k_ltb K w v = false).
Proof. exact nnchain_primitive_same_hierarchy. Qed.
Print Assumptions C06_nnchain_primitive_same_hierarchy.

(* tie-freeness of a run, pinned *)
Theorem C06_distinct_from_def : forall (T : Type) (K : kops T) iter i k (s : lstate T) (d : dend T) (M : cmat T),
  distinct_from K iter i k s d M <->
  (forall j s' d' M' L', j < k -> mfold iter (seq i j) (s, d, M) = Ok (s', d', M') ->
     AInv (st_active s') L' ->
     forall x y x' y' v w, In x L' -> In y L' -> x <> y -> In x' L' -> In y' L' -> x' <> y' ->
       ~ (x = x' /\ y = y') -> ~ (x = y' /\ y = x') ->
       wcell M' x y = Some v -> wcell M' x' y' = Some w -> k_ltb K v w = true \/ k_ltb K w v = true).
Proof. intros; split; intros Hx; exact Hx. Qed.
Print Assumptions C06_distinct_from_def.

(* single / complete, any carrier with a strict weak order *)
Theorem C06_selection_nnchain_primitive : forall (T : Type) (F : fops T) (p : profile),
  (forall a, f_ltb F a a = false) ->
  (forall a b c, f_ltb F a b = true -> f_ltb F b c = true -> f_ltb F a c = true) ->
  (forall a b c, f_ltb F a b = false -> f_ltb F b c = false -> f_ltb F a c = false) ->
  forall meth s1 d1 s2 d2 (m : list T) n sp dp mp sc dc mc M0,
  meth = Single \/ meth = Complete ->
  prologue p m n = Ok M0 ->
  primitive_with (kops_of F meth) p meth s1 d1 m n = Ok (sp, dp, mp) ->
  nnchain_with (kops_of F meth) p meth s2 d2 m n = Ok (sc, dc, mc) ->
  distinct_from (kops_of F meth) (prim_iter (kops_of F meth) p meth) 0 (m_obs M0 - 1)
    (st_reset (kops_of F meth) s1 (m_obs M0)) (d_reset d1 (m_obs M0)) M0 ->
  distinct_from (kops_of F meth) (chain_iter (kops_of F meth) p meth) 0 (m_obs M0 - 1)
    (st_with_chain (st_reset (kops_of F meth) s2 (m_obs M0)) []) (d_reset d2 (m_obs M0)) M0 ->
  exists raw_p raw_c,
    length raw_p = m_obs M0 - 1 /\ length raw_c = m_obs M0 - 1
    /\ Permutation (heights dp) (map (@s_dis T) raw_p)
    /\ Permutation (heights dc) (map (@s_dis T) raw_c)
    /\ Permutation (nodes_of Leaf raw_p) (nodes_of Leaf raw_c)
    /\ (forall N v w, In (N, v) (node_heights Leaf raw_p) -> In (N, w) (node_heights Leaf raw_c) ->
          f_ltb F v w = false /\ f_ltb F w v = false).
Proof. exact selection_nnchain_primitive_same_hierarchy. Qed.
Print Assumptions C06_selection_nnchain_primitive.

(* average / weighted / ward in exact rational arithmetic: all hypotheses discharged *)
Theorem C06_Q_nnchain_primitive : forall (p : profile) (rt : Q -> Q) meth s1 d1 s2 d2 (m : list Q) n sp dp mp sc dc mc M0,
  meth = Average \/ meth = Weighted \/ meth = Ward ->
  prologue p (square_all (kops_of (QFr rt) meth) m) n = Ok M0 ->
  primitive_with (kops_of (QFr rt) meth) p meth s1 d1 m n = Ok (sp, dp, mp) ->
  nnchain_with (kops_of (QFr rt) meth) p meth s2 d2 m n = Ok (sc, dc, mc) ->
  distinct_from (kops_of (QFr rt) meth) (prim_iter (kops_of (QFr rt) meth) p meth) 0 (m_obs M0 - 1)
    (st_reset (kops_of (QFr rt) meth) s1 (m_obs M0)) (d_reset d1 (m_obs M0)) M0 ->
  distinct_from (kops_of (QFr rt) meth) (chain_iter (kops_of (QFr rt) meth) p meth) 0 (m_obs M0 - 1)
    (st_with_chain (st_reset (kops_of (QFr rt) meth) s2 (m_obs M0)) []) (d_reset d2 (m_obs M0)) M0 ->
  exists raw_p raw_c,
    length raw_p = m_obs M0 - 1 /\ length raw_c = m_obs M0 - 1
    /\ Permutation (heights dp) (map (k_rt (kops_of (QFr rt) meth)) (map (@s_dis Q) raw_p))
    /\ Permutation (heights dc) (map (k_rt (kops_of (QFr rt) meth)) (map (@s_dis Q) raw_c))
    /\ Permutation (nodes_of Leaf raw_p) (nodes_of Leaf raw_c)
    /\ (forall N v w, In (N, v) (node_heights Leaf raw_p) -> In (N, w) (node_heights Leaf raw_c) ->
          f_ltb QF v w = false /\ f_ltb QF w v = false).
Proof. exact Q_nnchain_primitive_same_hierarchy. Qed.
Print Assumptions C06_Q_nnchain_primitive.

(* ---- Method::Single: all five entry points cut into the same partitions at
   every threshold, ties included (the identity permutation in
   C11_single_perm_invariant; both are the threshold components of C04) ---- *)
Require Import KV.Model.Linkage KV.Proofs.RelabelWF KV.Proofs.MstCuts KV.Proofs.PermSingle.
Theorem C06_single_all_entry_points_same_cuts : forall (T : Type) (F : fops T) (p : profile),
  (forall a, f_ltb F a a = false) ->
  (forall a b c, f_ltb F a b = true -> f_ltb F b c = true -> f_ltb F a c = true) ->
  (forall a b c, f_ltb F a b = false -> f_ltb F b c = false -> f_ltb F a c = false) ->
  (forall a b, f_eqb F a b = true -> f_ltb F b a = false) ->
  (forall a, f_eqb F a a = true) ->
  forall (a a' : algo) s1 d1 s2 d2 (m : list T) n sr dr mr sr' dr' mr' M0,
  run_with F p a Single s1 d1 m n = Ok (sr, dr, mr) ->
  run_with F p a' Single s2 d2 m n = Ok (sr', dr', mr') ->
  prologue p m n = Ok M0 -> 1 <= m_obs M0 ->
  Forall (fun v => f_ltb F v (f_inf F) = true) m -> Forall (fun v => f_ltb F v (f_inf F) = true) m ->
  forall t : T, exists j j', cut_at (kops_of F Single) t j (heights dr) /\ cut_at (kops_of F Single) t j' (heights dr')
    /\ forall x y, x < m_obs M0 -> y < m_obs M0 ->
        (labi (m_obs M0) (d_steps dr') j' x = labi (m_obs M0) (d_steps dr') j' y
         <-> labi (m_obs M0) (d_steps dr) j x = labi (m_obs M0) (d_steps dr) j y).
Proof.
  intros T F p H1 H2 H3 H4 H5 a a' s1 d1 s2 d2 m n sr dr mr sr' dr' mr' M0 Hr Hr' HM0 Hn Hmax Hinf t.
  exact (@single_perm_invariant T F p H1 H2 H3 H4 H5 a a' (fun x => x) s1 d1 s2 d2 m m n sr dr mr sr' dr' mr' M0 M0
           Hr Hr' HM0 HM0 eq_refl Hn Hmax Hinf Hmax Hinf (fun x Hx => Hx) (fun x y _ _ E => E)
           (fun y Hy => ex_intro _ y (conj Hy eq_refl)) (fun x y _ _ => eq_refl) t).
Qed.
Print Assumptions C06_single_all_entry_points_same_cuts.

(* ---- the same LABELLED dendrogram ---- *)
Require Import KV.Proofs.DendUnique KV.Proofs.AgreeSingle KV.Proofs.AgreeChainFinal KV.Proofs.AgreeChainInstances.

(* a well-formed stepwise dendrogram is determined by the partitions of the observations
   after each prefix of its steps *)
Theorem C06_dendrogram_determined_by_prefix_partitions : forall (T : Type) (n : nat) (D D' : list (step T)),
  1 <= n -> wf_dend n D -> wf_dend n D' ->
  (forall j x y, j <= n - 1 -> x < n -> y < n ->
     (labi n D j x = labi n D j y <-> labi n D' j x = labi n D' j y)) ->
  forall i t t', nth_error D i = Some t -> nth_error D' i = Some t' ->
    s_c1 t = s_c1 t' /\ s_c2 t = s_c2 t' /\ s_size t = s_size t'.
Proof. exact dend_unique. Qed.
Print Assumptions C06_dendrogram_determined_by_prefix_partitions.

(* readings, pinned: pairwise distinct heights; order-equivalence *)
Theorem C06_strictly_def : forall (T : Type) (F : fops T) (hs : list T),
  strictly F hs <-> forall i k a b, i < k -> nth_error hs i = Some a -> nth_error hs k = Some b -> f_ltb F a b = true.
Proof. intros. reflexivity. Qed.
Theorem C06_eqv_def : forall (T : Type) (ltb : T -> T -> bool) (a b : T),
  eqv ltb a b <-> (ltb a b = false /\ ltb b a = false).
Proof. intros. reflexivity. Qed.

(* Method::Single, ANY two of the five entry points (linkage, mst, nnchain, generic, primitive),
   any carrier whose `<` is a strict weak order, finite input: if the heights returned by one
   are pairwise distinct, the other returns the same labels and sizes in the same step order,
   and heights that are order-equivalent position by position *)
Theorem C06_single_all_entry_points_same_dendrogram : forall (T : Type) (F : fops T) (p : profile),
  (forall a, f_ltb F a a = false) ->
  (forall a b c, f_ltb F a b = true -> f_ltb F b c = true -> f_ltb F a c = true) ->
  (forall a b c, f_ltb F a b = false -> f_ltb F b c = false -> f_ltb F a c = false) ->
  (forall a b, f_eqb F a b = true -> f_ltb F b a = false) ->
  (forall a, f_eqb F a a = true) ->
  forall (a1 a2 : algo) s1 d1 s2 d2 (m : list T) n sr1 dr1 mr1 sr2 dr2 mr2 M0,
  (n < two32)%N ->
  run_with F p a1 Single s1 d1 m n = Ok (sr1, dr1, mr1) ->
  run_with F p a2 Single s2 d2 m n = Ok (sr2, dr2, mr2) ->
  prologue p m n = Ok M0 -> 1 <= m_obs M0 ->
  Forall (fun v => f_ltb F v (f_inf F) = true) m ->
  strictly F (heights dr1) ->
  length (d_steps dr1) = length (d_steps dr2)
  /\ forall i t t', nth_error (d_steps dr1) i = Some t -> nth_error (d_steps dr2) i = Some t' ->
       s_c1 t = s_c1 t' /\ s_c2 t = s_c2 t' /\ s_size t = s_size t' /\ eqv (f_ltb F) (s_dis t) (s_dis t').
Proof. exact single_same_dendrogram. Qed.
Print Assumptions C06_single_all_entry_points_same_dendrogram.

(* nnchain = primitive, the labelled dendrogram, for any reducible criterion: under the
   hypotheses of C06_nnchain_primitive_same_hierarchy plus pairwise distinct returned heights *)
Theorem C06_nnchain_primitive_same_dendrogram : forall (T : Type) (K : kops T) (p : profile) (meth : method),
  (forall a, k_ltb K a a = false) ->
  (forall a b c, k_ltb K a b = true -> k_ltb K b c = true -> k_ltb K a c = true) ->
  (forall a b c, k_ltb K a b = false -> k_ltb K b c = false -> k_ltb K a c = false) ->
  (forall a b, k_eqb K a b = true -> k_ltb K b a = false) ->
  (forall va vb md sa sb sx, ChainIter.size_ok meth sa sb sx ->
     k_ltb K va md = false -> k_ltb K vb md = false ->
     k_ltb K (k_upd K va vb md sa sb sx) va = false \/ k_ltb K (k_upd K va vb md sa sb sx) vb = false) ->
  forall crit : mtree -> mtree -> T -> Prop,
  (forall A B v, crit A B v -> crit B A v) ->
  (forall X A B va vb md, crit X A va -> crit X B vb -> crit A B md ->
     crit X (Node A B) (k_upd K va vb md (tsize A) (tsize B) (if uses_size_x meth then tsize X else 0))) ->
  (uses_sizes_ab meth = false ->
     forall va vb md sa sb sa' sb' sx, k_upd K va vb md sa sb sx = k_upd K va vb md sa' sb' sx) ->
  (forall A B v w, crit A B v -> crit A B w -> k_ltb K v w = false /\ k_ltb K w v = false) ->
  requires_sorting meth = true ->
  forall s1 d1 s2 d2 m n sp dp mp sc dc mc M0,
  prologue p (square_all K m) n = Ok M0 -> 1 <= m_obs M0 ->
  (forall x y v, x <> y -> x < m_obs M0 -> y < m_obs M0 -> wcell M0 x y = Some v -> crit (Leaf x) (Leaf y) v) ->
  primitive_with K p meth s1 d1 m n = Ok (sp, dp, mp) ->
  nnchain_with K p meth s2 d2 m n = Ok (sc, dc, mc) ->
  distinct_from K (prim_iter K p meth) 0 (m_obs M0 - 1) (st_reset K s1 (m_obs M0)) (d_reset d1 (m_obs M0)) M0 ->
  distinct_from K (chain_iter K p meth) 0 (m_obs M0 - 1)
    (st_with_chain (st_reset K s2 (m_obs M0)) []) (d_reset d2 (m_obs M0)) M0 ->
  (forall x y, k_ltb K (k_rt K x) (k_rt K y) = true -> k_ltb K x y = true) ->
  strictly_lt K (heights dp) ->
  length (d_steps dp) = length (d_steps dc)
  /\ forall i t t', nth_error (d_steps dp) i = Some t -> nth_error (d_steps dc) i = Some t' ->
       s_c1 t = s_c1 t' /\ s_c2 t = s_c2 t' /\ s_size t = s_size t'
       /\ exists h h', s_dis t = k_rt K h /\ s_dis t' = k_rt K h' /\ eqv (k_ltb K) h h'.
Proof. exact nnchain_primitive_same_dendrogram. Qed.
Print Assumptions C06_nnchain_primitive_same_dendrogram.

(* instances: complete (and single) over any strict weak order; average / weighted / ward over Q *)
Theorem C06_selection_nnchain_primitive_same_dendrogram : forall (T : Type) (F : fops T) (p : profile),
  (forall a, f_ltb F a a = false) ->
  (forall a b c, f_ltb F a b = true -> f_ltb F b c = true -> f_ltb F a c = true) ->
  (forall a b c, f_ltb F a b = false -> f_ltb F b c = false -> f_ltb F a c = false) ->
  (forall a b, f_eqb F a b = true -> f_ltb F b a = false) ->
  forall meth s1 d1 s2 d2 (m : list T) n sp dp mp sc dc mc M0,
  meth = Single \/ meth = Complete ->
  prologue p m n = Ok M0 -> 1 <= m_obs M0 ->
  primitive_with (kops_of F meth) p meth s1 d1 m n = Ok (sp, dp, mp) ->
  nnchain_with (kops_of F meth) p meth s2 d2 m n = Ok (sc, dc, mc) ->
  distinct_from (kops_of F meth) (prim_iter (kops_of F meth) p meth) 0 (m_obs M0 - 1)
    (st_reset (kops_of F meth) s1 (m_obs M0)) (d_reset d1 (m_obs M0)) M0 ->
  distinct_from (kops_of F meth) (chain_iter (kops_of F meth) p meth) 0 (m_obs M0 - 1)
    (st_with_chain (st_reset (kops_of F meth) s2 (m_obs M0)) []) (d_reset d2 (m_obs M0)) M0 ->
  strictly_lt (kops_of F meth) (heights dp) ->
  length (d_steps dp) = length (d_steps dc)
  /\ forall i t t', nth_error (d_steps dp) i = Some t -> nth_error (d_steps dc) i = Some t' ->
       s_c1 t = s_c1 t' /\ s_c2 t = s_c2 t' /\ s_size t = s_size t' /\ eqv (f_ltb F) (s_dis t) (s_dis t').
Proof. intros T F p H1 H2 H3 H4. exact (@selection_nnchain_primitive_same_dendrogram T F p H1 H2 H3 H4). Qed.
Print Assumptions C06_selection_nnchain_primitive_same_dendrogram.

Theorem C06_Q_nnchain_primitive_same_dendrogram : forall (p : profile) (rt : Q -> Q) meth s1 d1 s2 d2 (m : list Q) n sp dp mp sc dc mc M0,
  meth = Average \/ meth = Weighted \/ meth = Ward ->
  prologue p (square_all (kops_of (QFr rt) meth) m) n = Ok M0 -> 1 <= m_obs M0 ->
  primitive_with (kops_of (QFr rt) meth) p meth s1 d1 m n = Ok (sp, dp, mp) ->
  nnchain_with (kops_of (QFr rt) meth) p meth s2 d2 m n = Ok (sc, dc, mc) ->
  distinct_from (kops_of (QFr rt) meth) (prim_iter (kops_of (QFr rt) meth) p meth) 0 (m_obs M0 - 1)
    (st_reset (kops_of (QFr rt) meth) s1 (m_obs M0)) (d_reset d1 (m_obs M0)) M0 ->
  distinct_from (kops_of (QFr rt) meth) (chain_iter (kops_of (QFr rt) meth) p meth) 0 (m_obs M0 - 1)
    (st_with_chain (st_reset (kops_of (QFr rt) meth) s2 (m_obs M0)) []) (d_reset d2 (m_obs M0)) M0 ->
  (forall x y, f_ltb QF (k_rt (kops_of (QFr rt) meth) x) (k_rt (kops_of (QFr rt) meth) y) = true -> f_ltb QF x y = true) ->
  strictly_lt (kops_of (QFr rt) meth) (heights dp) ->
  length (d_steps dp) = length (d_steps dc)
  /\ forall i t t', nth_error (d_steps dp) i = Some t -> nth_error (d_steps dc) i = Some t' ->
       s_c1 t = s_c1 t' /\ s_c2 t = s_c2 t' /\ s_size t = s_size t'
       /\ exists h h', s_dis t = k_rt (kops_of (QFr rt) meth) h /\ s_dis t' = k_rt (kops_of (QFr rt) meth) h' /\ eqv (f_ltb QF) h h'.
Proof. exact Q_nnchain_primitive_same_dendrogram. Qed.
Print Assumptions C06_Q_nnchain_primitive_same_dendrogram.

(* non-vacuity of C06_single_all_entry_points_same_dendrogram: exact rationals with an
   infinite sentinel satisfy the order laws, and on a concrete matrix with distinct
   entries mst and generic both return, the heights are pairwise distinct, and (as the
   theorem says) the step lists coincide *)
Require Import KV.Proofs.QInf KV.Proofs.GenericGreedyInstances.
Definition C06_mq : list qi := map (fun z => Some (inject_Z z)) [3; 1; 4; 5; 9; 2]%Z.
Example C06_single_hypotheses_satisfiable :
  let F0 := QI (fun x => x) in
  (forall a, f_ltb F0 a a = false)
  /\ (forall a b c, f_ltb F0 a b = true -> f_ltb F0 b c = true -> f_ltb F0 a c = true)
  /\ (forall a b c, f_ltb F0 a b = false -> f_ltb F0 b c = false -> f_ltb F0 a c = false)
  /\ (forall a b, f_eqb F0 a b = true -> f_ltb F0 b a = false)
  /\ (forall a, f_eqb F0 a a = true)
  /\ exists sr1 dr1 mr1 sr2 dr2 mr2 M0,
       run_with F0 Debug AMst Single (st_new qi) (d_new qi 0) C06_mq 4 = Ok (sr1, dr1, mr1)
       /\ run_with F0 Debug AGeneric Single (st_new qi) (d_new qi 0) C06_mq 4 = Ok (sr2, dr2, mr2)
       /\ prologue Debug C06_mq 4 = Ok M0 /\ 1 <= m_obs M0
       /\ Forall (fun v => f_ltb F0 v (f_inf F0) = true) C06_mq
       /\ strictly F0 (heights dr1)
       /\ d_steps dr1 = d_steps dr2.
Proof.
  cbv zeta. split; [exact qi_irrefl|]. split; [exact qi_trans|]. split; [exact qi_negtrans|].
  split; [exact qi_eqb_le|]. split; [exact qi_eqb_refl|].
  eexists _, _, _, _, _, _, _. split; [vm_compute; reflexivity|]. split; [vm_compute; reflexivity|].
  split; [vm_compute; reflexivity|]. split; [cbn; lia|].
  split; [repeat constructor|].
  split; [|reflexivity].
  intros [|[|[|i]]] [|[|[|k]]] a b Hik Ha Hb; cbn in Ha, Hb; try lia; try discriminate;
    try (destruct k; discriminate); try (destruct i; discriminate);
    inversion Ha; inversion Hb; subst; reflexivity.
Qed.

(* ---- Method::Single on the two float carriers of the correspondence check ---- *)
Require Import KV.Run.F64 KV.Run.F32 KV.Proofs.FloatInstances.
From Flocq Require Import IEEE754.BinarySingleNaN.

Theorem C06_f64_single_all_entry_points_same_dendrogram : forall (p : profile) (a1 a2 : algo) s1 d1 s2 d2
  (m : list PrimFloat.float) (n : N) sr1 dr1 mr1 sr2 dr2 mr2 M0,
  (n < two32)%N ->
  run_with F64 p a1 Single s1 d1 m n = Ok (sr1, dr1, mr1) ->
  run_with F64 p a2 Single s2 d2 m n = Ok (sr2, dr2, mr2) ->
  prologue p m n = Ok M0 -> 1 <= m_obs M0 ->
  Forall (fun v => PrimFloat.ltb v PrimFloat.infinity = true) m ->
  strictly F64 (heights dr1) ->
  length (d_steps dr1) = length (d_steps dr2)
  /\ forall i t t', nth_error (d_steps dr1) i = Some t -> nth_error (d_steps dr2) i = Some t' ->
       s_c1 t = s_c1 t' /\ s_c2 t = s_c2 t' /\ s_size t = s_size t' /\ eqv PrimFloat.ltb (s_dis t) (s_dis t').
Proof. exact single_same_dendrogram_f64. Qed.
Print Assumptions C06_f64_single_all_entry_points_same_dendrogram.

Theorem C06_f32_single_all_entry_points_same_dendrogram : forall (p : profile) (a1 a2 : algo) s1 d1 s2 d2
  (m : list f32) (n : N) sr1 dr1 mr1 sr2 dr2 mr2 M0,
  (n < two32)%N ->
  run_with F32 p a1 Single s1 d1 m n = Ok (sr1, dr1, mr1) ->
  run_with F32 p a2 Single s2 d2 m n = Ok (sr2, dr2, mr2) ->
  prologue p m n = Ok M0 -> 1 <= m_obs M0 ->
  Forall (fun v => f_ltb F32 v (f_inf F32) = true) m ->
  strictly F32 (heights dr1) ->
  length (d_steps dr1) = length (d_steps dr2)
  /\ forall i t t', nth_error (d_steps dr1) i = Some t -> nth_error (d_steps dr2) i = Some t' ->
       s_c1 t = s_c1 t' /\ s_c2 t = s_c2 t' /\ s_size t = s_size t' /\ eqv (f_ltb F32) (s_dis t) (s_dis t').
Proof. exact single_same_dendrogram_f32. Qed.
Print Assumptions C06_f32_single_all_entry_points_same_dendrogram.
