(* C06 - algorithms agree with each other (PARTIAL: the dispatch of linkage and
   the independence from scratch state are theorems; agreement between
   different algorithms is established by correspondence + reference oracle). *)
Require Import KV.Model.Prelude KV.Model.Methods KV.Model.State KV.Model.Dendrogram
  KV.Model.Linkage KV.Model.History KV.Model.Mst KV.Model.Chain KV.Model.Generic
  KV.Proofs.Small KV.Proofs.Purity.

(* linkage IS mst (single), nnchain (complete/average/weighted/ward) or
   generic (centroid/median) - so its result is identical to theirs *)
Theorem C06_linkage_is_dispatch : forall (T : Type) (F : fops T) (p : profile) (meth : method)
  (s : lstate T) (d : dend T) (m : list T) (n : N),
  linkage_with F p meth s d m n =
  match meth with
  | Single => mst_with (kops_of F Single) p s d m n
  | Complete | Average | Weighted | Ward => nnchain_with (kops_of F meth) p meth s d m n
  | Centroid | Median => generic_with (kops_of F meth) p meth s d m n
  end.
Proof. exact linkage_dispatch. Qed.
Print Assumptions C06_linkage_is_dispatch.

Theorem C06_wrappers_equal_with_forms : forall (T : Type) (p : profile) (F : fops T) (a : algo)
  (meth : method) (m : list T) (n : N), d_new_ok n = true ->
  forall s d, out_of (run_fresh F p a meth m n) = out_of (run_with F p a meth s d m n).
Proof. exact wrapper_is_with_fresh. Qed.
Print Assumptions C06_wrappers_equal_with_forms.
