(* C08 - results are a pure function of the input: reuse, history never matter. *)
Require Import KV.Model.Prelude KV.Model.Active KV.Model.Heap KV.Model.UnionFind
  KV.Model.Dendrogram KV.Model.Methods KV.Model.State KV.Model.Linkage KV.Model.History
  KV.Proofs.ResetCanon KV.Proofs.Purity.

(* LinkageState::reset yields the same state from ANY previous state: vectors
   of any length holding any values (stale data of larger/smaller problems,
   leftovers of a call that panicked half-way).  The model keeps the code's
   exact clear/resize/overwrite sequence per field, including the resets that
   resize WITHOUT clearing (Active, LinkageHeap, LinkageUnionFind). *)
Theorem C08_reset_canonical : forall (T : Type) (K : kops T) (s1 s2 : lstate T) (size : nat),
  st_reset K s1 size = st_reset K s2 size.
Proof. exact reset_canonical. Qed.
Print Assumptions C08_reset_canonical.

Theorem C08_dend_reset_canonical : forall (T : Type) (d1 d2 : dend T) (n : nat),
  d_reset d1 n = d_reset d2 n.
Proof. exact @d_reset_canonical. Qed.
Print Assumptions C08_dend_reset_canonical.

(* All five `_with` entry points, every method, float type, profile, n and
   matrix (malformed ones included): same observable outcome from any two
   scratch states and dendrogram objects. *)
Theorem C08_with_pure : forall (T : Type) (p : profile) (F : fops T) (a : algo) (meth : method)
  (s1 s2 : lstate T) (d1 d2 : dend T) (m : list T) (n : N),
  out_of (run_with F p a meth s1 d1 m n) = out_of (run_with F p a meth s2 d2 m n).
Proof. exact with_pure. Qed.
Print Assumptions C08_with_pure.

(* Unbounded histories: every call of every finite sequence of calls sharing
   one LinkageState/Dendrogram (starting from any state) gives exactly the
   outcome of the same call on fresh objects. *)
Theorem C08_history_pure : forall (T : Type) (p : profile) (F : fops T) (calls : list (call T))
  (s0 : lstate T) (d0 : dend T),
  history_outputs F p calls s0 d0 = fresh_outputs p F calls.
Proof. exact history_pure. Qed.
Print Assumptions C08_history_pure.

Theorem C08_wrapper_is_with_fresh : forall (T : Type) (p : profile) (F : fops T) (a : algo)
  (meth : method) (m : list T) (n : N), d_new_ok n = true ->
  forall s d, out_of (run_fresh F p a meth m n) = out_of (run_with F p a meth s d m n).
Proof. exact wrapper_is_with_fresh. Qed.
Print Assumptions C08_wrapper_is_with_fresh.

(* Non-vacuity: a concrete dirty state (wrong lengths, garbage, a corrupted
   linked list and heap) is reset to the canonical state for size 3. *)
Definition dirty : lstate nat :=
  {| st_sizes := [7; 7; 7; 7; 7];
     st_active := {| a_start := 4; a_prev := [9; 9]; a_next := [0; 0; 0; 0; 5; 1; 1] |};
     st_min := [3];
     st_set := {| u_parents := [5; 5; 5; 5; 5; 5; 5; 5; 5]; u_next := 8 |};
     st_chain := [1; 2; 3; 4; 5; 6];
     st_queue := {| h_heap := [2; 0]; h_obs := [1; 9; 0; 4]; h_prio := [0; 0; 0; 0; 0; 0]; h_removed := [true; true] |};
     st_nearest := [] |}.
Definition natK : kops nat :=
  {| k_ltb := Nat.ltb; k_eqb := Nat.eqb; k_max := 1000; k_inf := 2000;
     k_upd := fun a b _ _ _ _ => Nat.min a b; k_sq := fun x => x; k_rt := fun x => x |}.
Example C08_dirty_state_is_reset :
  st_reset natK dirty 3 = st_reset natK (st_new nat) 3
  /\ st_sizes (st_reset natK dirty 3) = [1; 1; 1]
  /\ a_next (st_active (st_reset natK dirty 3)) = [1; 2; 3]
  /\ h_prio (st_queue (st_reset natK dirty 3)) = [2000; 2000; 2000]
  /\ u_parents (st_set (st_reset natK dirty 3)) = [0; 1; 2; 3; 4].
Proof. repeat split; reflexivity. Qed.
Print Assumptions C08_dirty_state_is_reset.
