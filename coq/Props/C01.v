(* C01 - every result is a well-formed stepwise dendrogram. *)
Require Import KV.Model.Prelude KV.Model.Condensed KV.Model.UnionFind KV.Model.Dendrogram KV.Model.Methods
  KV.Model.State KV.Model.Primitive KV.Model.Mst KV.Model.Linkage
  KV.Proofs.Shape KV.Proofs.Small KV.Proofs.DendContract KV.Proofs.Forest KV.Proofs.RelabelWF
  KV.Proofs.PrimitiveWF KV.Proofs.MstWF KV.Proofs.SortProofs.

(* wf_dend n steps (Proofs/RelabelWF.v): n-1 steps; step j has labels
   c1 < c2 < n+j that occur in no earlier step, and size = csize c1 + csize c2
   with csize l = 1 for l < n and the size recorded by step l-n otherwise. *)
Definition C01_full : Prop :=
  forall (T : Type) (F : fops T) (p : profile) (a : algo) (meth : method) s d m n s' d' m',
    run_with F p a meth s d m n = Ok (s', d', m') -> wf_dend (d_obs d') (d_steps d').

(* relabel - shared by all five entry points: ANY forest of raw merge steps
   (n-1 edges over n observations, each joining two different components when
   processed in the given order) is turned into a well-formed dendrogram, in
   whatever order the stable sort puts them; no panic other than the sort's NaN
   panic; heights = the sorted heights. *)
Theorem C01_relabel_wf : forall (T : Type) (ltb eqb : T -> T -> bool) (u : ufind) (d : dend T)
  (sorting : bool) (steps0 : list (step T)),
  let n := d_obs d in
  1 <= n -> length (d_steps d) = n - 1 ->
  (forall s, In s (d_steps d) -> s_c1 s < n /\ s_c2 s < n) ->
  all_nontrivial eq (edges (d_steps d)) ->
  (if sorting then sort_steps ltb eqb (d_steps d) = Ok steps0 else steps0 = d_steps d) ->
  exists u' d', relabel ltb eqb u d sorting = Ok (u', d')
    /\ wf_dend n (d_steps d') /\ d_obs d' = n
    /\ map (@s_dis T) (d_steps d') = map (@s_dis T) steps0.
Proof. exact relabel_wf. Qed.
Print Assumptions C01_relabel_wf.

(* primitive: all 7 methods, any float type whose `<` is transitive and
   irreflexive (IEEE), both profiles, any prior state, EVERY input (ties, zeros,
   duplicates, negative values, even NaN/inf): an Ok result is well formed *)
Theorem C01_primitive_wf : forall (T : Type) (K : kops T) (p : profile),
  (forall a b c, k_ltb K a b = true -> k_ltb K b c = true -> k_ltb K a c = true) ->
  (forall a, k_ltb K a a = false) ->
  forall meth s d m n s' d' m',
  primitive_with K p meth s d m n = Ok (s', d', m') -> wf_dend (d_obs d') (d_steps d').
Proof. exact primitive_wf. Qed.
Print Assumptions C01_primitive_wf.

(* mst, and hence linkage with the single method: no hypothesis at all *)
Theorem C01_mst_wf : forall (T : Type) (K : kops T) (p : profile) s d m n s' d' m',
  mst_with K p s d m n = Ok (s', d', m') -> wf_dend (d_obs d') (d_steps d').
Proof. exact mst_wf. Qed.
Print Assumptions C01_mst_wf.

Theorem C01_linkage_single_wf : forall (T : Type) (F : fops T) (p : profile) s d m n s' d' m',
  run_with F p ALinkage Single s d m n = Ok (s', d', m') -> wf_dend (d_obs d') (d_steps d').
Proof. intros T F p s d m n s' d' m' H. exact (mst_wf _ _ _ _ _ _ H). Qed.
Print Assumptions C01_linkage_single_wf.

(* all entry points (also nnchain / generic, for which well-formedness itself
   is not yet proved): the observation count and the number of steps *)
Theorem C01_shape : forall (T : Type) (F : fops T) (p : profile) (a : algo) (meth : method)
  s d m n s' d' m',
  (n < two32)%N -> run_with F p a meth s d m n = Ok (s', d', m') ->
  d_obs d' = obs_of_n n /\ length (d_steps d') = obs_of_n n - 1.
Proof. exact run_shape. Qed.
Print Assumptions C01_shape.

Theorem C01_empty_small : forall (T : Type) (F : fops T) (p : profile) (a : algo) (meth : method)
  (s : lstate T) (d : dend T) (n : N), (n <= 1)%N ->
  run_with F p a meth s d [] n = Ok (s, {| d_steps := []; d_obs := 0 |}, []).
Proof. exact empty_small. Qed.
Print Assumptions C01_empty_small.

(* consequences of wf_dend the property text lists: the last step has the size
   of the recorded sizes' sum chain; non-vacuity on a concrete dendrogram *)
Example C01_wf_example :
  wf_dend 4 [{| s_c1 := 1; s_c2 := 3; s_dis := 5; s_size := 2 |};
             {| s_c1 := 0; s_c2 := 4; s_dis := 7; s_size := 3 |};
             {| s_c1 := 2; s_c2 := 5; s_dis := 9; s_size := 4 |}].
Proof.
  split; [reflexivity|]. intros j t Ht.
  destruct j as [|[|[|j]]]; cbn in Ht; try (destruct j; discriminate); inversion Ht; subst t;
    (split; [cbn; lia|]); (split; [cbn; lia|]); (split; [|reflexivity]);
    intros i t' Hi Ht'; destruct i as [|[|i]]; try lia; cbn in Ht'; inversion Ht'; subst t'; cbn; lia.
Qed.
Print Assumptions C01_wf_example.

(* ---- nnchain (what `linkage` runs for complete, average, weighted, ward) ----
   Under a strict weak order on the carrier and reducibility of the update
   formula, nnchain_with on ANY well-formed input, from any prior state, in
   both profiles: the nearest-neighbour chain always consists of distinct live
   clusters, the inner loop stops within its fuel at a reciprocal pair, every
   merge joins two distinct live clusters, and the result is a well-formed
   dendrogram (or the sort's NaN panic). *)
Require Import KV.Model.Chain KV.Proofs.ShapeCheck KV.Proofs.ChainIter KV.Proofs.ChainInstances
  KV.Proofs.Criteria KV.Proofs.CriteriaRun.
From Coq Require Import QArith.
Local Close Scope Q_scope.

Theorem C01_nnchain_reducible_wf : forall (T : Type) (K : kops T) (p : profile) (meth : method),
  (forall a, k_ltb K a a = false) ->
  (forall a b c, k_ltb K a b = true -> k_ltb K b c = true -> k_ltb K a c = true) ->
  (forall a b c, k_ltb K a b = false -> k_ltb K b c = false -> k_ltb K a c = false) ->
  (forall va vb md sa sb sx, size_ok meth sa sb sx ->
     k_ltb K va md = false -> k_ltb K vb md = false ->
     k_ltb K (k_upd K va vb md sa sb sx) va = false \/ k_ltb K (k_upd K va vb md sa sb sx) vb = false) ->
  forall s d (m : list T) (n : N),
  (n < two32)%N -> wf_shape n (N.of_nat (length m)) ->
  (exists s' d' m', nnchain_with K p meth s d m n = Ok (s', d', m') /\ wf_dend (d_obs d') (d_steps d'))
  \/ nnchain_with K p meth s d m n = Panic PNaN.
Proof. exact nnchain_total_wf. Qed.
Print Assumptions C01_nnchain_reducible_wf.

Theorem C01_nnchain_complete_wf : forall (T : Type) (F : fops T) (p : profile),
  (forall a, f_ltb F a a = false) ->
  (forall a b c, f_ltb F a b = true -> f_ltb F b c = true -> f_ltb F a c = true) ->
  (forall a b c, f_ltb F a b = false -> f_ltb F b c = false -> f_ltb F a c = false) ->
  forall s d (m : list T) (n : N),
  (n < two32)%N -> wf_shape n (N.of_nat (length m)) ->
  (exists s' d' m', nnchain_with (kops_of F Complete) p Complete s d m n = Ok (s', d', m') /\ wf_dend (d_obs d') (d_steps d'))
  \/ nnchain_with (kops_of F Complete) p Complete s d m n = Panic PNaN.
Proof. exact nnchain_complete_total_wf. Qed.
Print Assumptions C01_nnchain_complete_wf.

Theorem C01_nnchain_single_wf : forall (T : Type) (F : fops T) (p : profile),
  (forall a, f_ltb F a a = false) ->
  (forall a b c, f_ltb F a b = true -> f_ltb F b c = true -> f_ltb F a c = true) ->
  (forall a b c, f_ltb F a b = false -> f_ltb F b c = false -> f_ltb F a c = false) ->
  forall s d (m : list T) (n : N),
  (n < two32)%N -> wf_shape n (N.of_nat (length m)) ->
  (exists s' d' m', nnchain_with (kops_of F Single) p Single s d m n = Ok (s', d', m') /\ wf_dend (d_obs d') (d_steps d'))
  \/ nnchain_with (kops_of F Single) p Single s d m n = Panic PNaN.
Proof. exact nnchain_single_total_wf. Qed.
Print Assumptions C01_nnchain_single_wf.

(* average / weighted / ward in exact rational arithmetic *)
Theorem C01_nnchain_Q_wf : forall (p : profile) (rt : Q -> Q) (meth : method) s d (m : list Q) (n : N),
  meth = Average \/ meth = Weighted \/ meth = Ward ->
  (n < two32)%N -> wf_shape n (N.of_nat (length m)) ->
  (exists s' d' m', nnchain_with (kops_of (QFr rt) meth) p meth s d m n = Ok (s', d', m') /\ wf_dend (d_obs d') (d_steps d'))
  \/ nnchain_with (kops_of (QFr rt) meth) p meth s d m n = Panic PNaN.
Proof. exact nnchain_Q_total_wf. Qed.
Print Assumptions C01_nnchain_Q_wf.

(* ---- on the float carriers of the correspondence check: linkage, mst and
   nnchain with single or complete linkage on any NaN-free well-formed matrix
   return a well-formed dendrogram (the NaN panic cannot be excluded here
   only because the statement does not need it) ---- *)
Require Import KV.Model.Linkage KV.Run.F64 KV.Run.F32 KV.Proofs.FloatInstances.
From Flocq Require Import IEEE754.BinarySingleNaN.
Theorem C01_selection_wf_f64 : forall (p : profile) (a : algo) (meth : method) s d (m : list PrimFloat.float) (n : N),
  a = ALinkage \/ a = AMst \/ a = ANnchain -> meth = Single \/ meth = Complete ->
  (n < two32)%N -> wf_shape n (N.of_nat (length m)) ->
  Forall (fun v => PrimFloat.is_nan v = false) m ->
  (exists s' d' m', run_with F64 p a meth s d m n = Ok (s', d', m') /\ wf_dend (d_obs d') (d_steps d'))
  \/ run_with F64 p a meth s d m n = Panic PNaN.
Proof. exact selection_total_wf_f64. Qed.
Print Assumptions C01_selection_wf_f64.

Theorem C01_selection_wf_f32 : forall (p : profile) (a : algo) (meth : method) s d (m : list f32) (n : N),
  a = ALinkage \/ a = AMst \/ a = ANnchain -> meth = Single \/ meth = Complete ->
  (n < two32)%N -> wf_shape n (N.of_nat (length m)) ->
  Forall (fun v => BinarySingleNaN.is_nan v = false) m ->
  (exists s' d' m', run_with F32 p a meth s d m n = Ok (s', d', m') /\ wf_dend (d_obs d') (d_steps d'))
  \/ run_with F32 p a meth s d m n = Panic PNaN.
Proof. exact selection_total_wf_f32. Qed.
Print Assumptions C01_selection_wf_f32.

(* ---- generic (what linkage runs for centroid / median): well formed whenever
   it returns, under a strict weak order, reflexive `==`, and an update that
   keeps values below the max_value sentinel ---- *)
Require Import KV.Model.Generic KV.Proofs.GenericInv.
Theorem C01_generic_wf : forall (T : Type) (K : kops T) (p : profile) (meth : method),
  (forall a, k_ltb K a a = false) ->
  (forall a b c, k_ltb K a b = true -> k_ltb K b c = true -> k_ltb K a c = true) ->
  (forall a b c, k_ltb K a b = false -> k_ltb K b c = false -> k_ltb K a c = false) ->
  (forall a, k_eqb K a a = true) ->
  (forall va vb md sa sb sx, k_ltb K va (k_inf K) = true -> k_ltb K vb (k_inf K) = true -> k_ltb K md (k_inf K) = true ->
     k_ltb K (k_upd K va vb md sa sb sx) (k_inf K) = true) ->
  forall s d (m : list T) (n : N),
  (n < two32)%N -> wf_shape n (N.of_nat (length m)) ->
  Forall (fun v => k_ltb K v (k_inf K) = true) (square_all K m) ->
  (exists s' d' m', generic_with K p meth s d m n = Ok (s', d', m') /\ wf_dend (d_obs d') (d_steps d'))
  \/ generic_with K p meth s d m n = Panic PNaN.
Proof. exact generic_total_wf. Qed.
Print Assumptions C01_generic_wf.

(* ---- "Hence every label in [0, 2n-2) is consumed exactly once, the last step has size n" ----
   consequences of well-formedness alone (Proofs/ClusterSizes.v), hence of every theorem above *)
Require Import KV.Proofs.DendUnique KV.Proofs.ClusterSizes.

Theorem C01_every_label_consumed_once : forall (T : Type) (n : nat) (D : list (step T)), wf_dend n D -> 2 <= n ->
  NoDup (flat_map (fun t => [s_c1 t; s_c2 t]) D)
  /\ forall l, l < 2 * n - 2 <-> In l (flat_map (fun t => [s_c1 t; s_c2 t]) D).
Proof. exact every_label_consumed_once. Qed.
Print Assumptions C01_every_label_consumed_once.

Theorem C01_last_step_has_size_n : forall (T : Type) (n : nat) (D : list (step T)), wf_dend n D -> 2 <= n ->
  forall t, nth_error D (n - 2) = Some t ->
  (forall x, x < n -> labi n D (n - 1) x = 2 * n - 2) /\ s_size t = n.
Proof. exact last_step_size. Qed.
Print Assumptions C01_last_step_has_size_n.
