(* C01 - well-formed stepwise dendrogram (PARTIAL: shape and label order are
   theorems; "distinct, not yet merged clusters" and "size = sum of sizes" are
   not yet proved - see C01_full). *)
Require Import KV.Model.Prelude KV.Model.Condensed KV.Model.Dendrogram KV.Model.Methods
  KV.Model.State KV.Model.Linkage KV.Proofs.Shape KV.Proofs.Small KV.Proofs.DendContract.

(* the full statement (not proved): every Ok result is a well-formed stepwise
   dendrogram *)
Definition wf_dend {T} (n : nat) (steps : list (step T)) : Prop :=
  length steps = n - 1
  /\ forall i s, nth_error steps i = Some s ->
       s_c1 s < s_c2 s /\ s_c2 s < n + i
       /\ (forall j t, j < i -> nth_error steps j = Some t ->
             s_c1 t <> s_c1 s /\ s_c2 t <> s_c1 s /\ s_c1 t <> s_c2 s /\ s_c2 t <> s_c2 s)
       /\ s_size s = (if s_c1 s <? n then 1 else match nth_error steps (s_c1 s - n) with Some t => s_size t | None => 0 end)
                   + (if s_c2 s <? n then 1 else match nth_error steps (s_c2 s - n) with Some t => s_size t | None => 0 end).
Definition C01_full : Prop :=
  forall (T : Type) (F : fops T) (p : profile) (a : algo) (meth : method) s d m n s' d' m',
    (n < two32)%N -> run_with F p a meth s d m n = Ok (s', d', m') ->
    wf_dend (d_obs d') (d_steps d').

(* proved part 1: for n observations (n < 2^32) every Ok result of every entry
   point records n observations (0 for n <= 1) and has exactly n-1 steps *)
Theorem C01_shape_partial : forall (T : Type) (F : fops T) (p : profile) (a : algo) (meth : method)
  s d m n s' d' m',
  (n < two32)%N -> run_with F p a meth s d m n = Ok (s', d', m') ->
  d_obs d' = obs_of_n n /\ length (d_steps d') = obs_of_n n - 1.
Proof. exact run_shape. Qed.
Print Assumptions C01_shape_partial.

(* proved part 2: n <= 1 gives the empty dendrogram, from any state *)
Theorem C01_empty_small : forall (T : Type) (F : fops T) (p : profile) (a : algo) (meth : method)
  (s : lstate T) (d : dend T) (n : N), (n <= 1)%N ->
  run_with F p a meth s d [] n = Ok (s, {| d_steps := []; d_obs := 0 |}, []).
Proof. exact empty_small. Qed.
Print Assumptions C01_empty_small.

(* proved part 3: labels are stored smaller first by the two constructors the
   algorithms use *)
Theorem C01_labels_sorted : forall (T : Type) (s : step T) (c1 c2 : nat),
  let s' := step_set_clusters s c1 c2 in
  s_c1 s' = Nat.min c1 c2 /\ s_c2 s' = Nat.max c1 c2 /\ s_dis s' = s_dis s /\ s_size s' = s_size s.
Proof. exact set_clusters_sorted. Qed.
Print Assumptions C01_labels_sorted.
