(* C18 - locations CLI (the parts that are logic). *)
Require Import KV.Model.Prelude KV.Model.Methods KV.Model.Cli KV.Model.Condensed
  KV.Spec.Pairs KV.Proofs.CliProofs.
From Coq Require Import String.

Theorem C18_pairs_rowmajor : forall n, cli_pairs n = pairs n.
Proof. exact cli_pairs_rowmajor. Qed.
Print Assumptions C18_pairs_rowmajor.

Theorem C18_cli_slot : forall n r c, r < c -> c < n ->
  nth_error (cli_pairs n) (cidx_nat n r c) = Some (r, c).
Proof. exact cli_slot. Qed.
Print Assumptions C18_cli_slot.

Theorem C18_le_roundtrip : forall ws : list N,
  Forall (fun w => (w < 2 ^ 64)%N) ws -> decode_le (encode_le ws) = Some ws.
Proof. exact le_roundtrip. Qed.
Print Assumptions C18_le_roundtrip.

Theorem C18_decode_rejects_ragged : forall bs : list N,
  (N.of_nat (List.length bs) mod 8 <> 0)%N -> decode_le bs = None.
Proof. exact decode_rejects_ragged. Qed.
Print Assumptions C18_decode_rejects_ragged.

Theorem C18_method_parse : forall (s : string) (m : method),
  parse_method s = Some m <-> s = method_name_lc m.
Proof. exact method_parse. Qed.
Print Assumptions C18_method_parse.

Theorem C18_invalid_method_exits_nonzero : forall s : string,
  (forall m, s <> method_name_lc m) -> exit_status (Some s) = 1.
Proof. exact invalid_method_exits_nonzero. Qed.
Print Assumptions C18_invalid_method_exits_nonzero.

Example C18_nonvacuous :
  cli_pairs 4 = [(0,1);(0,2);(0,3);(1,2);(1,3);(2,3)]
  /\ decode_le (encode_le [4607182418800017408%N; 1%N]) = Some [4607182418800017408%N; 1%N]
  /\ exit_status (Some "bogus"%string) = 1 /\ exit_status (Some "ward"%string) = 0 /\ exit_status None = 0.
Proof. repeat split; vm_compute; reflexivity. Qed.
Print Assumptions C18_nonvacuous.
