(* C17 - Rust FFI, both C headers and the Go bindings agree on ABI and names. *)
Require Import KV.Model.Abi KV.Model.Methods KV.Proofs.AbiProofs.
From Coq Require Import List String.
Import ListNotations.

(* The facts below are about `model_abi`; on every run the translator
   (tools/translators.py abi) regenerates the same record from
   kodama-capi/src/lib.rs, kodama-capi/include/kodama.h, go-kodama/kodama.h and
   go-kodama/kodama.go and Coq re-checks `gen_abi = model_abi` (Gen/AbiFacts.v). *)
Theorem C17_enum_agree : enum_agree model_abi.
Proof. exact model_enum_agree. Qed.
Print Assumptions C17_enum_agree.

Theorem C17_struct_agree : struct_agree model_abi.
Proof. exact model_struct_agree. Qed.
Print Assumptions C17_struct_agree.

Theorem C17_proto_agree : proto_agree model_abi.
Proof. exact model_proto_agree. Qed.
Print Assumptions C17_proto_agree.

Theorem C17_go_len_agree : go_len_agree model_abi.
Proof. exact model_go_len_agree. Qed.
Print Assumptions C17_go_len_agree.

Theorem C17_variants_are_methods :
  variants = map method_name [Single; Complete; Average; Weighted; Ward; Centroid; Median].
Proof. exact variants_are_methods. Qed.
Print Assumptions C17_variants_are_methods.
