(* C12 - total and terminating on the valid domain; outputs finite (PARTIAL:
   the theorems below; absence of panics for n >= 2 and finiteness for the
   arithmetic methods are not yet proved). *)
Require Import KV.Model.Prelude KV.Model.Condensed KV.Model.Methods KV.Model.State KV.Model.Dendrogram
  KV.Model.Linkage KV.Model.History KV.Proofs.Small KV.Proofs.ShapeCheck KV.Proofs.OrderOnly KV.Proofs.Shape.

(* n = 0 and n = 1: every entry point returns normally with the empty
   dendrogram, both profiles, any state *)
Theorem C12_empty_small : forall (T : Type) (F : fops T) (p : profile) (a : algo) (meth : method)
  (s : lstate T) (d : dend T) (n : N), (n <= 1)%N ->
  run_with F p a meth s d [] n = Ok (s, {| d_steps := []; d_obs := 0 |}, []).
Proof. exact empty_small. Qed.
Print Assumptions C12_empty_small.

(* a well-formed shape passes the shape check in both profiles (no overflow
   for n < 2^32) *)
Theorem C12_wellformed_shape_accepted : forall (p : profile) (n len : N),
  (n < two32)%N -> wf_shape n len -> shape_check p n len = Ok (if (n <=? 1)%N then 0%N else n).
Proof. exact shape_check_ok. Qed.
Print Assumptions C12_wellformed_shape_accepted.

(* single / complete: every reported dissimilarity is an input entry or a
   sentinel, hence finite / non-negative whenever the inputs are and no
   sentinel is reported *)
Theorem C12_selection_outputs_are_inputs : forall (T : Type) (V : T -> Prop) (F : fops T) (p : profile),
  V (f_max F) -> V (f_inf F) ->
  forall (a : algo) (meth : method) (m : list T) (n : N) (s : lstate T) (d : dend T),
  meth = Single \/ meth = Complete -> Forall V m ->
  out_in_V V (out_of (run_with F p a meth s d m n)).
Proof. exact selection_closed. Qed.
Print Assumptions C12_selection_outputs_are_inputs.

(* whenever a call returns, it returns exactly n-1 steps *)
Theorem C12_result_shape : forall (T : Type) (F : fops T) (p : profile) (a : algo) (meth : method)
  s d m n s' d' m',
  (n < two32)%N -> run_with F p a meth s d m n = Ok (s', d', m') ->
  d_obs d' = obs_of_n n /\ length (d_steps d') = obs_of_n n - 1.
Proof. exact run_shape. Qed.
Print Assumptions C12_result_shape.
