(* C12 - total and terminating on the valid domain; outputs finite (PARTIAL:
   the theorems below; absence of panics for nnchain/generic with n >= 2 and
   finiteness for the arithmetic methods are not theorems). *)
Require Import KV.Model.Prelude KV.Model.Condensed KV.Model.Methods KV.Model.State KV.Model.Dendrogram
  KV.Model.Linkage KV.Model.History KV.Model.Mst KV.Model.Primitive KV.Proofs.Small KV.Proofs.ShapeCheck KV.Proofs.OrderOnly KV.Proofs.Shape
  KV.Proofs.MstTotal KV.Proofs.PrimitiveTotal.

(* n = 0 and n = 1: every entry point returns normally with the empty
   dendrogram, both profiles, any state *)
Theorem C12_empty_small : forall (T : Type) (F : fops T) (p : profile) (a : algo) (meth : method)
  (s : lstate T) (d : dend T) (n : N), (n <= 1)%N ->
  run_with F p a meth s d [] n = Ok (s, {| d_steps := []; d_obs := 0 |}, []).
Proof. exact empty_small. Qed.
Print Assumptions C12_empty_small.

(* a well-formed shape passes the shape check in both profiles (no overflow
   for n < 2^32) *)
Theorem C12_wellformed_shape_accepted : forall (p : profile) (n len : N),
  (n < two32)%N -> wf_shape n len -> shape_check p n len = Ok (if (n <=? 1)%N then 0%N else n).
Proof. exact shape_check_ok. Qed.
Print Assumptions C12_wellformed_shape_accepted.

(* single / complete: every reported dissimilarity is an input entry or a
   sentinel, hence finite / non-negative whenever the inputs are and no
   sentinel is reported *)
Theorem C12_selection_outputs_are_inputs : forall (T : Type) (V : T -> Prop) (F : fops T) (p : profile),
  V (f_max F) -> V (f_inf F) ->
  forall (a : algo) (meth : method) (m : list T) (n : N) (s : lstate T) (d : dend T),
  meth = Single \/ meth = Complete -> Forall V m ->
  out_in_V V (out_of (run_with F p a meth s d m n)).
Proof. exact selection_closed. Qed.
Print Assumptions C12_selection_outputs_are_inputs.

(* whenever a call returns, it returns exactly n-1 steps *)
Theorem C12_result_shape : forall (T : Type) (F : fops T) (p : profile) (a : algo) (meth : method)
  s d m n s' d' m',
  (n < two32)%N -> run_with F p a meth s d m n = Ok (s', d', m') ->
  d_obs d' = obs_of_n n /\ length (d_steps d') = obs_of_n n - 1.
Proof. exact run_shape. Qed.
Print Assumptions C12_result_shape.

(* mst and primitive are TOTAL on well-formed input: for any prior state, any
   carrier, both profiles, the call returns a result or raises the documented
   NaN panic - no index out of bounds, no failed unwrap, no overflow, no
   capacity error, and the loops' fuel is never exhausted *)
Theorem C12_mst_total : forall (T : Type) (K : kops T) (p : profile)
  (s : lstate T) (d : dend T) (m : list T) (n : N),
  (n < two32)%N -> wf_shape n (N.of_nat (length m)) ->
  (exists r, mst_with K p s d m n = Ok r) \/ mst_with K p s d m n = Panic PNaN.
Proof. exact mst_total. Qed.
Print Assumptions C12_mst_total.

Theorem C12_primitive_total : forall (T : Type) (K : kops T) (p : profile),
  (forall a b c, k_ltb K a b = true -> k_ltb K b c = true -> k_ltb K a c = true) ->
  (forall a, k_ltb K a a = false) ->
  forall (meth : method) (s : lstate T) (d : dend T) (m : list T) (n : N),
  (n < two32)%N -> wf_shape n (N.of_nat (length m)) ->
  (exists r, primitive_with K p meth s d m n = Ok r) \/ primitive_with K p meth s d m n = Panic PNaN.
Proof. exact primitive_total. Qed.
Print Assumptions C12_primitive_total.

(* primitive on the two float carriers of the correspondence check: the order
   hypotheses hold for IEEE `<`, NaNs included (Proofs/FloatOrder.v) *)
Require Import KV.Run.F64 KV.Run.F32 KV.Proofs.FloatInstances.
Theorem C12_primitive_total_f64 : forall (p : profile) (meth : method) s d (m : list PrimFloat.float) (n : N),
  (n < two32)%N -> wf_shape n (N.of_nat (length m)) ->
  (exists r, primitive_with (kops_of F64 meth) p meth s d m n = Ok r)
  \/ primitive_with (kops_of F64 meth) p meth s d m n = Panic PNaN.
Proof. exact primitive_total_f64. Qed.
Print Assumptions C12_primitive_total_f64.

Theorem C12_primitive_total_f32 : forall (p : profile) (meth : method) s d (m : list f32) (n : N),
  (n < two32)%N -> wf_shape n (N.of_nat (length m)) ->
  (exists r, primitive_with (kops_of F32 meth) p meth s d m n = Ok r)
  \/ primitive_with (kops_of F32 meth) p meth s d m n = Panic PNaN.
Proof. exact primitive_total_f32. Qed.
Print Assumptions C12_primitive_total_f32.

(* nnchain (what linkage runs for complete / average / weighted / ward): total
   under a strict weak order and reducibility of the update formula - in
   particular the unbounded inner `loop` of src/chain.rs terminates (the model
   gives it |matrix|+2 iterations of fuel and the proof shows they suffice) *)
Require Import KV.Model.Chain KV.Proofs.ChainIter.
Theorem C12_nnchain_total : forall (T : Type) (K : kops T) (p : profile) (meth : method),
  (forall a, k_ltb K a a = false) ->
  (forall a b c, k_ltb K a b = true -> k_ltb K b c = true -> k_ltb K a c = true) ->
  (forall a b c, k_ltb K a b = false -> k_ltb K b c = false -> k_ltb K a c = false) ->
  (forall va vb md sa sb sx, size_ok meth sa sb sx ->
     k_ltb K va md = false -> k_ltb K vb md = false ->
     k_ltb K (k_upd K va vb md sa sb sx) va = false \/ k_ltb K (k_upd K va vb md sa sb sx) vb = false) ->
  forall s d (m : list T) (n : N),
  (n < two32)%N -> wf_shape n (N.of_nat (length m)) ->
  (exists r, nnchain_with K p meth s d m n = Ok r) \/ nnchain_with K p meth s d m n = Panic PNaN.
Proof. exact nnchain_total. Qed.
Print Assumptions C12_nnchain_total.
