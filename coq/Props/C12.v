(* C12 - total and terminating on the valid domain; outputs finite (PARTIAL:
   the theorems below; absence of panics for nnchain/generic with n >= 2 and
   finiteness for the arithmetic methods are not theorems). *)
Require Import KV.Model.Prelude KV.Model.Condensed KV.Model.Methods KV.Model.State KV.Model.Dendrogram
  KV.Model.Linkage KV.Model.History KV.Model.Mst KV.Model.Primitive KV.Proofs.Small KV.Proofs.ShapeCheck KV.Proofs.OrderOnly KV.Proofs.Shape
  KV.Proofs.MstTotal KV.Proofs.PrimitiveTotal.

(* n = 0 and n = 1: every entry point returns normally with the empty
   dendrogram, both profiles, any state *)
Theorem C12_empty_small : forall (T : Type) (F : fops T) (p : profile) (a : algo) (meth : method)
  (s : lstate T) (d : dend T) (n : N), (n <= 1)%N ->
  run_with F p a meth s d [] n = Ok (s, {| d_steps := []; d_obs := 0 |}, []).
Proof. exact empty_small. Qed.
Print Assumptions C12_empty_small.

(* a well-formed shape passes the shape check in both profiles (no overflow
   for n < 2^32) *)
Theorem C12_wellformed_shape_accepted : forall (p : profile) (n len : N),
  (n < two32)%N -> wf_shape n len -> shape_check p n len = Ok (if (n <=? 1)%N then 0%N else n).
Proof. exact shape_check_ok. Qed.
Print Assumptions C12_wellformed_shape_accepted.

(* single / complete: every reported dissimilarity is an input entry or a
   sentinel, hence finite / non-negative whenever the inputs are and no
   sentinel is reported *)
Theorem C12_selection_outputs_are_inputs : forall (T : Type) (V : T -> Prop) (F : fops T) (p : profile),
  V (f_max F) -> V (f_inf F) ->
  forall (a : algo) (meth : method) (m : list T) (n : N) (s : lstate T) (d : dend T),
  meth = Single \/ meth = Complete -> Forall V m ->
  out_in_V V (out_of (run_with F p a meth s d m n)).
Proof. exact selection_closed. Qed.
Print Assumptions C12_selection_outputs_are_inputs.

(* whenever a call returns, it returns exactly n-1 steps *)
Theorem C12_result_shape : forall (T : Type) (F : fops T) (p : profile) (a : algo) (meth : method)
  s d m n s' d' m',
  (n < two32)%N -> run_with F p a meth s d m n = Ok (s', d', m') ->
  d_obs d' = obs_of_n n /\ length (d_steps d') = obs_of_n n - 1.
Proof. exact run_shape. Qed.
Print Assumptions C12_result_shape.

(* mst and primitive are TOTAL on well-formed input: for any prior state, any
   carrier, both profiles, the call returns a result or raises the documented
   NaN panic - no index out of bounds, no failed unwrap, no overflow, no
   capacity error, and the loops' fuel is never exhausted *)
Theorem C12_mst_total : forall (T : Type) (K : kops T) (p : profile)
  (s : lstate T) (d : dend T) (m : list T) (n : N),
  (n < two32)%N -> wf_shape n (N.of_nat (length m)) ->
  (exists r, mst_with K p s d m n = Ok r) \/ mst_with K p s d m n = Panic PNaN.
Proof. exact mst_total. Qed.
Print Assumptions C12_mst_total.

Theorem C12_primitive_total : forall (T : Type) (K : kops T) (p : profile),
  (forall a b c, k_ltb K a b = true -> k_ltb K b c = true -> k_ltb K a c = true) ->
  (forall a, k_ltb K a a = false) ->
  forall (meth : method) (s : lstate T) (d : dend T) (m : list T) (n : N),
  (n < two32)%N -> wf_shape n (N.of_nat (length m)) ->
  (exists r, primitive_with K p meth s d m n = Ok r) \/ primitive_with K p meth s d m n = Panic PNaN.
Proof. exact primitive_total. Qed.
Print Assumptions C12_primitive_total.

(* primitive on the two float carriers of the correspondence check: the order
   hypotheses hold for IEEE `<`, NaNs included (Proofs/FloatOrder.v) *)
Require Import KV.Run.F64 KV.Run.F32 KV.Proofs.FloatInstances.
Theorem C12_primitive_total_f64 : forall (p : profile) (meth : method) s d (m : list PrimFloat.float) (n : N),
  (n < two32)%N -> wf_shape n (N.of_nat (length m)) ->
  (exists r, primitive_with (kops_of F64 meth) p meth s d m n = Ok r)
  \/ primitive_with (kops_of F64 meth) p meth s d m n = Panic PNaN.
Proof. exact primitive_total_f64. Qed.
Print Assumptions C12_primitive_total_f64.

Theorem C12_primitive_total_f32 : forall (p : profile) (meth : method) s d (m : list f32) (n : N),
  (n < two32)%N -> wf_shape n (N.of_nat (length m)) ->
  (exists r, primitive_with (kops_of F32 meth) p meth s d m n = Ok r)
  \/ primitive_with (kops_of F32 meth) p meth s d m n = Panic PNaN.
Proof. exact primitive_total_f32. Qed.
Print Assumptions C12_primitive_total_f32.

(* nnchain (what linkage runs for complete / average / weighted / ward): total
   under a strict weak order and reducibility of the update formula - in
   particular the unbounded inner `loop` of src/chain.rs terminates (the model
   gives it |matrix|+2 iterations of fuel and the proof shows they suffice) *)
Require Import KV.Model.Chain KV.Proofs.ChainIter.
Theorem C12_nnchain_total : forall (T : Type) (K : kops T) (p : profile) (meth : method),
  (forall a, k_ltb K a a = false) ->
  (forall a b c, k_ltb K a b = true -> k_ltb K b c = true -> k_ltb K a c = true) ->
  (forall a b c, k_ltb K a b = false -> k_ltb K b c = false -> k_ltb K a c = false) ->
  (forall va vb md sa sb sx, size_ok meth sa sb sx ->
     k_ltb K va md = false -> k_ltb K vb md = false ->
     k_ltb K (k_upd K va vb md sa sb sx) va = false \/ k_ltb K (k_upd K va vb md sa sb sx) vb = false) ->
  forall s d (m : list T) (n : N),
  (n < two32)%N -> wf_shape n (N.of_nat (length m)) ->
  (exists r, nnchain_with K p meth s d m n = Ok r) \/ nnchain_with K p meth s d m n = Panic PNaN.
Proof. exact nnchain_total. Qed.
Print Assumptions C12_nnchain_total.

(* ---- the generic algorithm (what linkage runs for centroid / median) and its
   binary heap (src/queue.rs) ----
   Heap: on a heap whose position map is the inverse of its array, every
   operation on a contained observation returns (no index panic, no failed
   `removed` assertion, the sift loops stay within their fuel) and keeps that
   invariant and the heap order. *)
Require Import KV.Model.Heap KV.Model.Generic KV.Proofs.RelabelWF KV.Proofs.HeapInv KV.Proofs.GenericInv KV.Proofs.GenericInstances.

Theorem C12_heap_pop : forall (T : Type) (ltb : T -> T -> bool) (n : nat) (h : heap T),
  HInv n h -> length (h_heap h) <> 0 ->
  exists first h', nth_error (h_heap h) 0 = Some first /\ h_pop ltb h = Ok (Some first, h') /\ HInv n h'
    /\ h_prio h' = h_prio h
    /\ length (h_heap h') = length (h_heap h) - 1
    /\ (forall x, inh h' x <-> inh h x /\ x <> first)
    /\ (forall x, x <> first -> nth_error (h_removed h') x = nth_error (h_removed h) x).
Proof. exact pop_spec. Qed.
Print Assumptions C12_heap_pop.

Theorem C12_heap_set_priority : forall (T : Type) (ltb : T -> T -> bool) (n : nat) (h : heap T) (o : nat) (v : T),
  HInv n h -> inh h o ->
  exists h', h_set_priority ltb h o v = Ok h' /\ HInv n h'
    /\ h_prio h' = set_nth (h_prio h) o v /\ h_removed h' = h_removed h
    /\ length (h_heap h') = length (h_heap h) /\ (forall x, inh h' x <-> inh h x).
Proof. exact set_priority_spec. Qed.
Print Assumptions C12_heap_set_priority.

(* generic_with, under a strict weak order, a reflexive `==`, and an update
   formula that keeps values below the max_value sentinel (no overflow): on
   every well-formed input whose entries are below max_value it returns a
   well-formed dendrogram or the NaN panic - the repair loop terminates within
   its fuel, the popped cluster is never the last one, its candidate is a live
   partner above it *)
Theorem C12_generic_total_wf : forall (T : Type) (K : kops T) (p : profile) (meth : method),
  (forall a, k_ltb K a a = false) ->
  (forall a b c, k_ltb K a b = true -> k_ltb K b c = true -> k_ltb K a c = true) ->
  (forall a b c, k_ltb K a b = false -> k_ltb K b c = false -> k_ltb K a c = false) ->
  (forall a, k_eqb K a a = true) ->
  (forall va vb md sa sb sx, k_ltb K va (k_inf K) = true -> k_ltb K vb (k_inf K) = true -> k_ltb K md (k_inf K) = true ->
     k_ltb K (k_upd K va vb md sa sb sx) (k_inf K) = true) ->
  forall s d (m : list T) (n : N),
  (n < two32)%N -> wf_shape n (N.of_nat (length m)) ->
  Forall (fun v => k_ltb K v (k_inf K) = true) (square_all K m) ->
  (exists s' d' m', generic_with K p meth s d m n = Ok (s', d', m') /\ wf_dend (d_obs d') (d_steps d'))
  \/ generic_with K p meth s d m n = Panic PNaN.
Proof. exact generic_total_wf. Qed.
Print Assumptions C12_generic_total_wf.

(* all five entry points with single / complete on the float carriers: NaN-free
   input with entries below f64::MAX / f32::MAX *)
Theorem C12_selection_total_all_f64 : forall (p : profile) (a : algo) (meth : method) s d (m : list PrimFloat.float) (n : N),
  meth = Single \/ meth = Complete ->
  (n < two32)%N -> wf_shape n (N.of_nat (length m)) ->
  Forall (fun v => PrimFloat.ltb v (f_inf F64) = true) m ->
  (exists s' d' m', run_with F64 p a meth s d m n = Ok (s', d', m') /\ wf_dend (d_obs d') (d_steps d'))
  \/ run_with F64 p a meth s d m n = Panic PNaN.
Proof. exact selection_total_wf_all_f64. Qed.
Print Assumptions C12_selection_total_all_f64.

Theorem C12_selection_total_all_f32 : forall (p : profile) (a : algo) (meth : method) s d (m : list f32) (n : N),
  meth = Single \/ meth = Complete ->
  (n < two32)%N -> wf_shape n (N.of_nat (length m)) ->
  Forall (fun v => Flocq.IEEE754.BinarySingleNaN.Bltb v (f_inf F32) = true) m ->
  (exists s' d' m', run_with F32 p a meth s d m n = Ok (s', d', m') /\ wf_dend (d_obs d') (d_steps d'))
  \/ run_with F32 p a meth s d m n = Panic PNaN.
Proof. exact selection_total_wf_all_f32. Qed.
Print Assumptions C12_selection_total_all_f32.

(* generic with ALL seven methods in exact rational arithmetic with an infinite
   sentinel (carrier option Q; every hypothesis of C12_generic_total_wf is
   discharged there) *)
Require Import KV.Proofs.QInf.
From Coq Require Import QArith.
Local Close Scope Q_scope.
Theorem C12_generic_QI_total_wf : forall (p : profile) (rt : Q -> Q) (meth : method) s d (mq : list Q) (n : N),
  (n < two32)%N -> wf_shape n (N.of_nat (length mq)) ->
  (exists s' d' m', generic_with (kops_of (QI rt) meth) p meth s d (map Some mq) n = Ok (s', d', m')
                     /\ wf_dend (d_obs d') (d_steps d'))
  \/ generic_with (kops_of (QI rt) meth) p meth s d (map Some mq) n = Panic PNaN.
Proof. exact generic_QI_total_wf. Qed.
Print Assumptions C12_generic_QI_total_wf.

(* ---- non-negative outputs for non-negative inputs (Proofs/NonNeg.v) ----
   For Ward, centroid and median the formula subtracts; the result stays >= 0
   because the merged pair is never farther than the cells it is combined with
   (a global minimum in primitive / generic, reciprocal nearest neighbours in
   nnchain).  Exact rational arithmetic; `rt` is the square-root post-pass,
   assumed only to map non-negative to non-negative. *)
Require Import KV.Proofs.NonNeg KV.Proofs.NonNegInstances KV.Proofs.Criteria KV.Proofs.CriteriaRun KV.Proofs.QInf KV.Proofs.SortProofs.
From Coq Require Import QArith.

Theorem C12_nonneg_primitive_Q : forall (p : profile) (rt : Q -> Q),
  (forall q, (0 <= q)%Q -> (0 <= rt q)%Q) ->
  forall meth s d (m : list Q) n s' d' m',
  Forall (fun v => (0 <= v)%Q) m ->
  primitive_with (kops_of (QFr rt) meth) p meth s d m n = Ok (s', d', m') ->
  Forall (fun v => (0 <= v)%Q) (heights d').
Proof. exact primitive_nonneg_Q. Qed.
Print Assumptions C12_nonneg_primitive_Q.

Theorem C12_nonneg_nnchain_Q : forall (p : profile) (rt : Q -> Q),
  (forall q, (0 <= q)%Q -> (0 <= rt q)%Q) ->
  forall meth s d (m : list Q) n s' d' m',
  meth = Single \/ meth = Complete \/ meth = Average \/ meth = Weighted \/ meth = Ward ->
  Forall (fun v => (0 <= v)%Q) m ->
  nnchain_with (kops_of (QFr rt) meth) p meth s d m n = Ok (s', d', m') ->
  Forall (fun v => (0 <= v)%Q) (heights d').
Proof. exact nnchain_nonneg_Q. Qed.
Print Assumptions C12_nonneg_nnchain_Q.

Theorem C12_nonneg_generic_QI : forall (p : profile) (rt : Q -> Q),
  (forall q, (0 <= q)%Q -> (0 <= rt q)%Q) ->
  forall meth s d (mq : list Q) n s' d' m',
  Forall (fun v => (0 <= v)%Q) mq ->
  generic_with (kops_of (QI rt) meth) p meth s d (map Some mq) n = Ok (s', d', m') ->
  Forall (fun v => exists q, v = Some q /\ (0 <= q)%Q) (heights d').
Proof. exact generic_nonneg_QI. Qed.
Print Assumptions C12_nonneg_generic_QI.

(* the update formulas keep non-negativity under the premise the algorithms
   establish (the merged pair is not farther than the two cells) *)
Theorem C12_update_nonneg : forall meth (va vb md : Q) (sa sb sx : nat),
  ((uses_sizes_ab meth = true -> (0 < sa)%nat /\ (0 < sb)%nat) /\ (uses_size_x meth = true -> (0 < sx)%nat)) ->
  (0 <= va)%Q -> (0 <= vb)%Q -> (0 <= md)%Q -> (md <= va)%Q -> (md <= vb)%Q ->
  (0 <= upd_of QF meth va vb md sa sb sx)%Q.
Proof. exact upd_nonneg. Qed.
Print Assumptions C12_update_nonneg.

(* ---- the full statement is FALSE of the faithful model at the edge of its stated domain
   ("finite values whose squares neither overflow nor underflow"): entries between about 0.63
   and 1.0 times sqrt(f64::MAX) have finite squares, but the weighted sums of the squares
   overflow. On the matrix below (0.63 .. 0.90 times 1.34e154, four observations, Ward) the
   model - like the implementation, see known_findings.txt and the band probe of the C12 check -
   panics with the NaN panic through primitive, returns an infinite height through linkage and
   runs out of fuel (the implementation does not return) through generic. ---- *)
Require Import KV.Model.Linkage.
From Coq Require Import Floats.
Local Close Scope Q_scope.
Definition C12_band : list PrimFloat.float :=
  [0x1.ca3d8e6d80cbbp+511; 0x1.9c6a99c8f3ea8p+511; 0x1.6e97a52467095p+511;
   0x1.40c4b07fda283p+511; 0x1.b354141b3a5b1p+511; 0x1.85811f76ad79fp+511]%float.
Example C12_overflow_band_refuted :
  Forall (fun x => PrimFloat.ltb (x * x) infinity = true /\ PrimFloat.ltb 1 (x * x) = true)%float C12_band
  /\ run_with F64 Debug APrimitive Ward (st_new _) (d_new _ 0) C12_band 4 = Panic PNaN
  /\ run_with F64 Release APrimitive Ward (st_new _) (d_new _ 0) C12_band 4 = Panic PNaN
  /\ (exists s d mm, run_with F64 Debug ALinkage Ward (st_new _) (d_new _ 0) C12_band 4 = Ok (s, d, mm)
        /\ In infinity (heights d))
  /\ run_with F64 Debug AGeneric Ward (st_new _) (d_new _ 0) C12_band 4 = OutOfFuel.
Proof.
  split; [repeat constructor|]. split; [vm_compute; reflexivity|]. split; [vm_compute; reflexivity|].
  split; [|vm_compute; reflexivity].
  eexists _, _, _. split; [vm_compute; reflexivity|]. cbn. right. right. left. reflexivity.
Qed.
