(* C11 - renumbering the observations (PARTIAL: symmetry of the update
   formulas in the two merged clusters is a theorem; equivariance of whole
   runs under permutation is established by oracle search only). *)
Require Import KV.Model.Prelude KV.Model.Methods KV.Proofs.Symmetry.

(* Which of the two merged clusters keeps its index (`b`, the larger one)
   depends on the numbering; the five arithmetic formulas give the identical
   value when the roles are swapped, given only that + and x commute (IEEE:
   bit for bit). *)
Theorem C11_upd_symmetric : forall (T : Type) (F : fops T),
  (forall x y, f_add F x y = f_add F y x) -> (forall x y, f_mul F x y = f_mul F y x) ->
  forall (meth : method) (a b md : T) (sa sb sx : nat),
  meth = Average \/ meth = Weighted \/ meth = Ward \/ meth = Centroid \/ meth = Median ->
  upd_of F meth a b md sa sb sx = upd_of F meth b a md sb sa sx.
Proof. exact upd_symmetric. Qed.
Print Assumptions C11_upd_symmetric.
