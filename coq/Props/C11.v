(* C11 - renumbering the observations (PARTIAL: symmetry of the update
   formulas in the two merged clusters is a theorem; equivariance of whole
   runs under permutation is established by oracle search only). *)
Require Import KV.Model.Prelude KV.Model.Methods KV.Proofs.Symmetry.

(* Which of the two merged clusters keeps its index (`b`, the larger one)
   depends on the numbering; the five arithmetic formulas give the identical
   value when the roles are swapped, given only that + and x commute (IEEE:
   bit for bit). *)
Theorem C11_upd_symmetric : forall (T : Type) (F : fops T),
  (forall x y, f_add F x y = f_add F y x) -> (forall x y, f_mul F x y = f_mul F y x) ->
  forall (meth : method) (a b md : T) (sa sb sx : nat),
  meth = Average \/ meth = Weighted \/ meth = Ward \/ meth = Centroid \/ meth = Median ->
  upd_of F meth a b md sa sb sx = upd_of F meth b a md sb sa sx.
Proof. exact upd_symmetric. Qed.
Print Assumptions C11_upd_symmetric.

(* ---- whole runs of primitive_with (Proofs/PermPrimitive.v) ----
   M0' is M0 with rows and columns permuted by the bijection pi.  If the run on
   M0 is tie-free (at every iteration the minimum over the pairs of live
   clusters is attained once), the two runs merge, step by step, clusters
   consisting of corresponding observations at EQUAL heights, and the returned
   height sequences are equal.  Needed of the carrier: `<` transitive and
   irreflexive, and an update formula symmetric in the two merged clusters
   (C11_upd_symmetric above). *)
Require Import KV.Model.Condensed KV.Model.Active KV.Model.Dendrogram KV.Model.State KV.Model.Primitive
  KV.Proofs.ActiveRefine KV.Proofs.UpdateSpec KV.Proofs.SortProofs KV.Proofs.LWInvariant
  KV.Proofs.AgreePG KV.Proofs.PermPrimitive KV.Proofs.PermInstances KV.Proofs.QInf.
From Coq Require Import QArith Permutation.
Local Close Scope Q_scope.

(* the notions used, pinned *)
Theorem C11_defs : forall (pi sg : nat -> nat) (L' L : list nat) (A' A : mtree) (ab' ab : mtree * mtree),
  (bij sg L' L <->
     (forall x', In x' L' -> In (sg x') L)
     /\ (forall x' y', In x' L' -> In y' L' -> sg x' = sg y' -> x' = y')
     /\ (forall x, In x L -> exists x', In x' L' /\ sg x' = x))
  /\ (lcorr pi A' A <-> Permutation (map pi (leaves A')) (leaves A))
  /\ (pair_corr pi ab' ab <-> lcorr pi (Node (fst ab') (snd ab')) (Node (fst ab) (snd ab))).
Proof. intros; split; [|split]; (split; intros Hx; exact Hx). Qed.
Print Assumptions C11_defs.

Theorem C11_primitive_perm_invariant : forall (T : Type) (K : kops T) (p : profile) (meth : method),
  (forall a, k_ltb K a a = false) ->
  (forall a b c, k_ltb K a b = true -> k_ltb K b c = true -> k_ltb K a c = true) ->
  (uses_sizes_ab meth = false ->
     forall va vb md sa sb sa' sb' sx, k_upd K va vb md sa sb sx = k_upd K va vb md sa' sb' sx) ->
  (forall va vb md sa sb sx, k_upd K va vb md sa sb sx = k_upd K vb va md sb sa sx) ->
  forall (pi : nat -> nat) s1 d1 s2 d2 m m' n sp dp mp sp' dp' mp' M0 M0',
  prologue p (square_all K m) n = Ok M0 ->
  prologue p (square_all K m') n = Ok M0' ->
  m_obs M0' = m_obs M0 ->
  bij pi (seq 0 (m_obs M0)) (seq 0 (m_obs M0)) ->
  (forall x y, x < m_obs M0 -> y < m_obs M0 -> x <> y -> wcell M0' x y = wcell M0 (pi x) (pi y)) ->
  primitive_with K p meth s1 d1 m n = Ok (sp, dp, mp) ->
  primitive_with K p meth s2 d2 m' n = Ok (sp', dp', mp') ->
  tie_free_from K p meth 0 (m_obs M0 - 1) (st_reset K s1 (m_obs M0)) (d_reset d1 (m_obs M0)) M0 ->
  heights dp' = heights dp
  /\ exists tr' tr Lf' Lf memf' memf,
       mtrace (seq 0 (m_obs M0)) Leaf tr' Lf' memf' /\ mtrace (seq 0 (m_obs M0)) Leaf tr Lf memf
       /\ Forall2 (pair_corr pi) tr' tr /\ length tr = m_obs M0 - 1.
Proof. exact primitive_perm_invariant. Qed.
Print Assumptions C11_primitive_perm_invariant.

(* the five arithmetic methods, any carrier with commutative + and x *)
Theorem C11_arith_primitive_perm_invariant : forall (T : Type) (F : fops T) (p : profile),
  (forall a, f_ltb F a a = false) ->
  (forall a b c, f_ltb F a b = true -> f_ltb F b c = true -> f_ltb F a c = true) ->
  (forall x y, f_add F x y = f_add F y x) -> (forall x y, f_mul F x y = f_mul F y x) ->
  forall meth (pi : nat -> nat) s1 d1 s2 d2 m m' n sp dp mp sp' dp' mp' M0 M0',
  meth = Average \/ meth = Weighted \/ meth = Ward \/ meth = Centroid \/ meth = Median ->
  prologue p (square_all (kops_of F meth) m) n = Ok M0 ->
  prologue p (square_all (kops_of F meth) m') n = Ok M0' ->
  m_obs M0' = m_obs M0 ->
  bij pi (seq 0 (m_obs M0)) (seq 0 (m_obs M0)) ->
  (forall x y, x < m_obs M0 -> y < m_obs M0 -> x <> y -> wcell M0' x y = wcell M0 (pi x) (pi y)) ->
  primitive_with (kops_of F meth) p meth s1 d1 m n = Ok (sp, dp, mp) ->
  primitive_with (kops_of F meth) p meth s2 d2 m' n = Ok (sp', dp', mp') ->
  tie_free_from (kops_of F meth) p meth 0 (m_obs M0 - 1) (st_reset (kops_of F meth) s1 (m_obs M0)) (d_reset d1 (m_obs M0)) M0 ->
  heights dp' = heights dp
  /\ exists tr' tr Lf' Lf memf' memf,
       mtrace (seq 0 (m_obs M0)) Leaf tr' Lf' memf' /\ mtrace (seq 0 (m_obs M0)) Leaf tr Lf memf
       /\ Forall2 (pair_corr pi) tr' tr /\ length tr = m_obs M0 - 1.
Proof. exact arith_primitive_perm_invariant. Qed.
Print Assumptions C11_arith_primitive_perm_invariant.

(* single / complete, any carrier with a total order *)
Theorem C11_selection_primitive_perm_invariant : forall (T : Type) (F : fops T) (p : profile),
  (forall a, f_ltb F a a = false) ->
  (forall a b c, f_ltb F a b = true -> f_ltb F b c = true -> f_ltb F a c = true) ->
  (forall a b, f_ltb F a b = false -> f_ltb F b a = false -> a = b) ->
  forall meth (pi : nat -> nat) s1 d1 s2 d2 m m' n sp dp mp sp' dp' mp' M0 M0',
  meth = Single \/ meth = Complete ->
  prologue p (square_all (kops_of F meth) m) n = Ok M0 ->
  prologue p (square_all (kops_of F meth) m') n = Ok M0' ->
  m_obs M0' = m_obs M0 ->
  bij pi (seq 0 (m_obs M0)) (seq 0 (m_obs M0)) ->
  (forall x y, x < m_obs M0 -> y < m_obs M0 -> x <> y -> wcell M0' x y = wcell M0 (pi x) (pi y)) ->
  primitive_with (kops_of F meth) p meth s1 d1 m n = Ok (sp, dp, mp) ->
  primitive_with (kops_of F meth) p meth s2 d2 m' n = Ok (sp', dp', mp') ->
  tie_free_from (kops_of F meth) p meth 0 (m_obs M0 - 1) (st_reset (kops_of F meth) s1 (m_obs M0)) (d_reset d1 (m_obs M0)) M0 ->
  heights dp' = heights dp
  /\ exists tr' tr Lf' Lf memf' memf,
       mtrace (seq 0 (m_obs M0)) Leaf tr' Lf' memf' /\ mtrace (seq 0 (m_obs M0)) Leaf tr Lf memf
       /\ Forall2 (pair_corr pi) tr' tr /\ length tr = m_obs M0 - 1.
Proof. exact selection_primitive_perm_invariant. Qed.
Print Assumptions C11_selection_primitive_perm_invariant.

(* exact rationals with the infinite sentinel: all hypotheses discharged *)
Theorem C11_QI_primitive_perm_invariant : forall (p : profile) (rt : Q -> Q) meth (pi : nat -> nat)
  s1 d1 s2 d2 m m' n sp dp mp sp' dp' mp' M0 M0',
  meth = Average \/ meth = Weighted \/ meth = Ward \/ meth = Centroid \/ meth = Median ->
  prologue p (square_all (kops_of (QI rt) meth) m) n = Ok M0 ->
  prologue p (square_all (kops_of (QI rt) meth) m') n = Ok M0' ->
  m_obs M0' = m_obs M0 ->
  bij pi (seq 0 (m_obs M0)) (seq 0 (m_obs M0)) ->
  (forall x y, x < m_obs M0 -> y < m_obs M0 -> x <> y -> wcell M0' x y = wcell M0 (pi x) (pi y)) ->
  primitive_with (kops_of (QI rt) meth) p meth s1 d1 m n = Ok (sp, dp, mp) ->
  primitive_with (kops_of (QI rt) meth) p meth s2 d2 m' n = Ok (sp', dp', mp') ->
  tie_free_from (kops_of (QI rt) meth) p meth 0 (m_obs M0 - 1) (st_reset (kops_of (QI rt) meth) s1 (m_obs M0)) (d_reset d1 (m_obs M0)) M0 ->
  heights dp' = heights dp
  /\ exists tr' tr Lf' Lf memf' memf,
       mtrace (seq 0 (m_obs M0)) Leaf tr' Lf' memf' /\ mtrace (seq 0 (m_obs M0)) Leaf tr Lf memf
       /\ Forall2 (pair_corr pi) tr' tr /\ length tr = m_obs M0 - 1.
Proof. exact QI_primitive_perm_invariant. Qed.
Print Assumptions C11_QI_primitive_perm_invariant.

(* ---- Method::Single, every entry point, ties included (Proofs/PermSingle.v) ----
   M0' is M0 with rows and columns permuted by the bijection pi.  For any two
   entry points (the same or different ones) and every threshold t, cutting the
   two returned dendrograms after their steps of height <= t gives partitions
   that correspond under pi.  No tie-freeness is needed: both partitions are
   the components of isomorphic threshold graphs (C04). *)
Require Import KV.Model.Linkage KV.Proofs.RelabelWF KV.Proofs.MstCuts KV.Proofs.CriteriaRun KV.Proofs.PermSingle.

Theorem C11_single_perm_invariant : forall (T : Type) (F : fops T) (p : profile),
  (forall a, f_ltb F a a = false) ->
  (forall a b c, f_ltb F a b = true -> f_ltb F b c = true -> f_ltb F a c = true) ->
  (forall a b c, f_ltb F a b = false -> f_ltb F b c = false -> f_ltb F a c = false) ->
  (forall a b, f_eqb F a b = true -> f_ltb F b a = false) ->
  (forall a, f_eqb F a a = true) ->
  forall (a a' : algo) (pi : nat -> nat) s1 d1 s2 d2 (m m' : list T) n sr dr mr sr' dr' mr' M0 M0',
  run_with F p a Single s1 d1 m n = Ok (sr, dr, mr) ->
  run_with F p a' Single s2 d2 m' n = Ok (sr', dr', mr') ->
  prologue p m n = Ok M0 -> prologue p m' n = Ok M0' -> m_obs M0' = m_obs M0 -> 1 <= m_obs M0 ->
  Forall (fun v => f_ltb F v (f_inf F) = true) m -> Forall (fun v => f_ltb F v (f_inf F) = true) m ->
  Forall (fun v => f_ltb F v (f_inf F) = true) m' -> Forall (fun v => f_ltb F v (f_inf F) = true) m' ->
  (forall x, x < m_obs M0 -> pi x < m_obs M0) ->
  (forall x y, x < m_obs M0 -> y < m_obs M0 -> pi x = pi y -> x = y) ->
  (forall y, y < m_obs M0 -> exists x, x < m_obs M0 /\ pi x = y) ->
  (forall x y, x < m_obs M0 -> y < m_obs M0 -> cell_or (f_inf F) M0' x y = cell_or (f_inf F) M0 (pi x) (pi y)) ->
  forall t : T, exists j j', cut_at (kops_of F Single) t j (heights dr) /\ cut_at (kops_of F Single) t j' (heights dr')
    /\ forall x y, x < m_obs M0 -> y < m_obs M0 ->
        (labi (m_obs M0) (d_steps dr') j' x = labi (m_obs M0) (d_steps dr') j' y
         <-> labi (m_obs M0) (d_steps dr) j (pi x) = labi (m_obs M0) (d_steps dr) j (pi y)).
Proof. exact single_perm_invariant. Qed.
Print Assumptions C11_single_perm_invariant.
