(* C16 - C dendrograms own their storage (logic part: the handle store is a map
   that holds no reference to any input buffer). *)
Require Import KV.Model.Prelude KV.Model.Methods KV.Model.Capi KV.Proofs.CapiProofs.

(* one client operation against the abstract map *)
Theorem C16_step_spec : forall (T D : Type) (F : fops T) (widen : T -> D) (p : profile)
  (st : nat * store D) (o : cop T), fresh_ok st ->
  let '(st', out) := cstep F widen p st o in
  match o with
  | CCreate meth buf n =>
      match capi_linkage F widen p meth buf n with
      | Ok (d, _) => out = CHandle (fst st) d /\ lookup (snd st') (fst st) = Some d
                     /\ (forall h, h <> fst st -> lookup (snd st') h = lookup (snd st) h)
      | _ => out = CAbort /\ st' = st
      end
  | CRead h => st' = st /\ (out = match lookup (snd st) h with Some d => CValue d | None => CInvalid end)
  | CScribble _ => st' = st /\ out = CDone
  | CFree h =>
      match lookup (snd st) h with
      | Some _ => lookup (snd st') h = None /\ (forall h', h' <> h -> lookup (snd st') h' = lookup (snd st) h')
      | None => st' = st /\ out = CInvalid
      end
  end.
Proof. exact cstep_map_spec. Qed.
Print Assumptions C16_step_spec.

(* over ALL client histories (any number of live handles, creates, reads,
   overwriting/freeing of input buffers, frees of other handles): a handle keeps
   exactly the steps computed at its creation until it is freed *)
Theorem C16_handle_stable : forall (T D : Type) (F : fops T) (widen : T -> D) (p : profile)
  (ops : list (cop T)) (st : nat * store D) (h : nat) (d : cdend D),
  fresh_ok st -> lookup (snd st) h = Some d -> existsb (frees h) ops = false ->
  lookup (snd (fst (fold_left (fun acc o => let '(st, outs) := acc in
                          let '(st', out) := cstep F widen p st o in (st', outs ++ [out]))
            ops (st, @nil (cout D))))) h = Some d.
Proof. exact handle_stable. Qed.
Print Assumptions C16_handle_stable.

(* freeing every live handle leaves nothing behind *)
Theorem C16_free_all_empty : forall (D : Type) (ks : list nat) (s : store D),
  (forall x, lookup s x <> None -> In x ks) ->
  forall h, lookup (fold_left (fun s k => remove s k) ks s) h = None.
Proof. exact free_all_empty. Qed.
Print Assumptions C16_free_all_empty.
