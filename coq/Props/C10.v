(* C10 - single and complete linkage depend only on the order of the values. *)
Require Import KV.Model.Prelude KV.Model.Methods KV.Model.State KV.Model.Dendrogram
  KV.Model.Linkage KV.Model.History KV.Proofs.OrderOnly.

(* For ANY map g between two float carriers (the same type, or f32 vs f64)
   that preserves `<` and `==` on the set V of values that may occur (the
   matrix entries and the two sentinels max_value / infinity, which g must map
   to the sentinels), every entry point (5 algorithms, `_with` on ANY scratch
   state on either side), every n, every tie pattern: running on (map g m)
   gives exactly the g-image of running on m - same labels, sizes, step order,
   same panics; every dissimilarity is g of the original one.  A strictly
   increasing function that is injective on the matrix values and keeps them
   below the sentinel satisfies the hypotheses. *)
Theorem C10_order_only : forall (T1 T2 : Type) (g : T1 -> T2) (V : T1 -> Prop)
  (F1 : fops T1) (F2 : fops T2) (p : profile),
  (forall x y, V x -> V y -> f_ltb F2 (g x) (g y) = f_ltb F1 x y) ->
  (forall x y, V x -> V y -> f_eqb F2 (g x) (g y) = f_eqb F1 x y) ->
  V (f_max F1) /\ f_max F2 = g (f_max F1) ->
  V (f_inf F1) /\ f_inf F2 = g (f_inf F1) ->
  forall (a : algo) (meth : method) (m : list T1) (n : N)
    (s1 : lstate T1) (d1 : dend T1) (s2 : lstate T2) (d2 : dend T2),
  meth = Single \/ meth = Complete -> Forall V m ->
  out_of (run_with F2 p a meth s2 d2 (map g m) n)
  = map_out g (out_of (run_with F1 p a meth s1 d1 m n)).
Proof. exact order_only. Qed.
Print Assumptions C10_order_only.

(* Non-vacuity: a concrete carrier (nat with sentinels 1000 / 2000), the
   strictly increasing g x = 3x+1 on values below 300, a tied matrix. *)
Definition natF : fops nat :=
  {| f_ltb := Nat.ltb; f_eqb := Nat.eqb; f_add := Nat.add; f_sub := Nat.sub; f_mul := Nat.mul;
     f_div := Nat.div; f_sqrt := fun x => x; f_abs := fun x => x; f_of_nat := fun n => n;
     f_half := 0; f_quarter := 0; f_inf := 2000; f_max := 1000 |}.
Definition g3 (x : nat) : nat := if x <? 300 then 3 * x + 1 else x.
Definition V3 (x : nat) : Prop := x < 300 \/ x = 1000 \/ x = 2000.

Example C10_hypotheses_satisfiable :
  (forall x y, V3 x -> V3 y -> f_ltb natF (g3 x) (g3 y) = f_ltb natF x y)
  /\ (forall x y, V3 x -> V3 y -> f_eqb natF (g3 x) (g3 y) = f_eqb natF x y)
  /\ (V3 (f_max natF) /\ f_max natF = g3 (f_max natF))
  /\ (V3 (f_inf natF) /\ f_inf natF = g3 (f_inf natF))
  /\ Forall V3 [5; 2; 5; 2; 7; 5]
  /\ out_of (run_with natF Debug ALinkage Complete (st_new nat) (d_new nat 0) (map g3 [5; 2; 5; 2; 7; 5]) 4)
     = map_out g3 (out_of (run_with natF Debug ALinkage Complete (st_new nat) (d_new nat 0) [5; 2; 5; 2; 7; 5] 4)).
Proof.
  assert (G : forall x, V3 x -> (x < 300 /\ g3 x = 3 * x + 1) \/ (300 <= x /\ g3 x = x /\ 1000 <= x)).
  { intros x Hx. unfold g3. destruct (Nat.ltb_spec x 300); [left; split; [assumption|reflexivity]|].
    right. unfold V3 in Hx. lia. }
  split; [|split; [|split; [|split; [|split]]]].
  - intros x y Hx Hy. cbn [f_ltb natF].
    destruct (G x Hx) as [[Hx1 ->]|(Hx1 & -> & Hx2)], (G y Hy) as [[Hy1 ->]|(Hy1 & -> & Hy2)];
      match goal with |- (?A <? ?B) = _ => destruct (Nat.ltb_spec A B), (Nat.ltb_spec x y); try reflexivity; exfalso; lia end.
  - intros x y Hx Hy. cbn [f_eqb natF].
    destruct (G x Hx) as [[Hx1 ->]|(Hx1 & -> & Hx2)], (G y Hy) as [[Hy1 ->]|(Hy1 & -> & Hy2)];
      match goal with |- (?A =? ?B) = _ => destruct (Nat.eqb_spec A B), (Nat.eqb_spec x y); try reflexivity; exfalso; lia end.
  - split; [right; left; reflexivity|reflexivity].
  - split; [right; right; reflexivity|reflexivity].
  - repeat constructor; unfold V3; lia.
  - vm_compute. reflexivity.
Qed.
Print Assumptions C10_hypotheses_satisfiable.
