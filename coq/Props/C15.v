(* C15 - the C API returns exactly what Rust `linkage` returns, for every n. *)
Require Import KV.Model.Prelude KV.Model.Condensed KV.Model.Dendrogram KV.Model.Methods
  KV.Model.State KV.Model.Linkage KV.Model.Capi KV.Proofs.CapiProofs.

Local Open Scope N_scope.

(* The defect that was repaired in /repo (fix: commit ffeac80): the shipped
   length computation aborted for observations = 0 in builds with overflow
   checks and returned 0 in release builds. *)
Theorem C15_unfixed_refuted :
  capi_len_unfixed Debug 0 = Panic POverflow /\ capi_len_unfixed Release 0 = Ok 0.
Proof. exact capi_len_unfixed_refuted. Qed.
Print Assumptions C15_unfixed_refuted.

(* After the fix the matrix length is n(n-1)/2 in both build profiles, for
   every n < 2^32 (n = 0 and n = 1 included). *)
Theorem C15_capi_len_ok : forall (p : profile) (n : N),
  n < two32 -> capi_len p n = Ok (n * (n - 1) / 2).
Proof. exact capi_len_ok. Qed.
Print Assumptions C15_capi_len_ok.

Theorem C15_fix_conservative : forall (p : profile) (n : N),
  1 <= n -> capi_len p n = capi_len_unfixed p n.
Proof. exact capi_len_fix_conservative. Qed.
Print Assumptions C15_fix_conservative.

Local Close Scope N_scope.

(* Both entry points (T = f64 with widen = id, T = f32 with exact widening),
   every method, both profiles, every valid matrix: the handle holds the steps
   of the Rust `linkage` field for field, the dissimilarity widened, and the
   observation count passed in; the process aborts exactly when `linkage`
   panics. *)
Theorem C15_capi_steps : forall (T D : Type) (F : fops T) (widen : T -> D) (p : profile)
  (meth : method) (m : list T) (n : N),
  (n < two32)%N -> N.of_nat (length m) = (n * (n - 1) / 2)%N ->
  match run_fresh F p ALinkage meth m n with
  | Ok (_, d, m') =>
      capi_linkage F widen p meth m n
      = Ok ({| c_steps := map (widen_step widen) (d_steps d); c_obs := n |}, m')
  | Panic k => capi_linkage F widen p meth m n = Panic k
  | OutOfFuel => capi_linkage F widen p meth m n = OutOfFuel
  end.
Proof. exact capi_steps. Qed.
Print Assumptions C15_capi_steps.

Example C15_zero_and_one_observation :
  capi_len Debug 0 = Ok 0%N /\ capi_len Release 0 = Ok 0%N /\ capi_len Debug 1 = Ok 0%N
  /\ capi_len Release 200 = Ok 19900%N.
Proof. repeat split; vm_compute; reflexivity. Qed.
Print Assumptions C15_zero_and_one_observation.
