(* C07 - condensed layout: entry k is the k-th pair in row-major
   upper-triangle order. *)
Require Import KV.Model.Prelude KV.Model.Condensed KV.Spec.Pairs KV.Proofs.CondensedIdx.

(* For EVERY n and every pair r < c < n the index expression of
   condensed.rs is the position of (r, c) in (0,1),(0,2),...,(n-2,n-1). *)
Theorem C07_cidx_is_position : forall n r c : nat,
  r < c -> c < n -> nth_error (pairs n) (cidx_nat n r c) = Some (r, c).
Proof. exact cidx_is_position. Qed.
Print Assumptions C07_cidx_is_position.

Theorem C07_pairs_length : forall n, length (pairs n) = n * (n - 1) / 2.
Proof. exact pairs_length. Qed.
Print Assumptions C07_pairs_length.

(* ... hence a bijection between {r < c < n} and the slots [0, n(n-1)/2). *)
Theorem C07_cidx_injective : forall n r c r' c' : nat,
  r < c -> c < n -> r' < c' -> c' < n ->
  cidx_nat n r c = cidx_nat n r' c' -> (r, c) = (r', c').
Proof. exact cidx_injective. Qed.
Print Assumptions C07_cidx_injective.

Theorem C07_cidx_surjective : forall n k : nat,
  k < n * (n - 1) / 2 -> exists r c, r < c /\ c < n /\ cidx_nat n r c = k.
Proof. exact cidx_surjective. Qed.
Print Assumptions C07_cidx_surjective.

(* The machine evaluation (64-bit wrapping arithmetic, as in a release build)
   never under- or overflows for n < 2^32 and equals the mathematical value, so
   checked and unchecked builds read the same slot. *)
Theorem C07_cidx_no_wrap : forall n r c : nat,
  r < c -> c < n -> (N.of_nat n < two32)%N ->
  cidx_wrap (N.of_nat n) (N.of_nat r) (N.of_nat c) = N.of_nat (cidx_nat n r c).
Proof. exact cidx_wrap_exact. Qed.
Print Assumptions C07_cidx_no_wrap.

(* On a correctly sized matrix `dis[[r, c]]` resolves, in both profiles,
   without panic, to exactly that slot. *)
Theorem C07_slot : forall (T : Type) (p : profile) (M : cmat T) (r c : nat),
  r < c -> c < m_obs M -> length (m_data M) = m_obs M * (m_obs M - 1) / 2 ->
  mslot p M r c = Ok (cidx_nat (m_obs M) r c).
Proof. exact @mslot_ok. Qed.
Print Assumptions C07_slot.

Example C07_nonvacuous : nth_error (pairs 5) (cidx_nat 5 1 3) = Some (1, 3) /\ pairs 4 = [(0,1);(0,2);(0,3);(1,2);(1,3);(2,3)].
Proof. split; reflexivity. Qed.
Print Assumptions C07_nonvacuous.

(* ---- the observable consequence, Method::Single, EVERY entry point (linkage, mst, nnchain,
   generic, primitive), any carrier whose `<` is a strict weak order, finite input ---- *)
Require Import KV.Model.Methods KV.Model.State KV.Model.Dendrogram KV.Model.Linkage
  KV.Proofs.RelabelWF KV.Proofs.CriteriaRun KV.Proofs.AgreeSingle KV.Proofs.SlotProbe.

(* the cell of the pair (a, b), a < b, IS entry number cidx(a, b) of the input slice *)
Theorem C07_cell_is_entry : forall (T : Type) (p : profile) (m : list T) n (M0 : cmat T) (a b : nat) (dflt : T),
  prologue p m n = Ok M0 -> a < b ->
  cell_or dflt M0 a b = match nth_error m (cidx_nat (m_obs M0) a b) with Some v => v | None => dflt end.
Proof. exact cell_is_entry. Qed.
Print Assumptions C07_cell_is_entry.

(* if the entry of the pair (a, b) is strictly smaller than every other entry, the first returned
   step merges exactly a and b, at a value that compares equal to that entry *)
Theorem C07_single_first_step : forall (T : Type) (F : fops T) (p : profile),
  (forall a, f_ltb F a a = false) ->
  (forall a b c, f_ltb F a b = true -> f_ltb F b c = true -> f_ltb F a c = true) ->
  (forall a b c, f_ltb F a b = false -> f_ltb F b c = false -> f_ltb F a c = false) ->
  (forall a b, f_eqb F a b = true -> f_ltb F b a = false) ->
  (forall a, f_eqb F a a = true) ->
  forall (a0 : algo) s d (m : list T) n s' d' m' M0 (a b : nat), (n < two32)%N ->
  run_with F p a0 Single s d m n = Ok (s', d', m') ->
  prologue p m n = Ok M0 ->
  Forall (fun v => f_ltb F v (f_inf F) = true) m ->
  a < b -> b < m_obs M0 ->
  (forall x y, x < y -> y < m_obs M0 -> ~ (x = a /\ y = b) ->
     f_ltb F (cell_or (f_inf F) M0 a b) (cell_or (f_inf F) M0 x y) = true) ->
  exists t, nth_error (d_steps d') 0 = Some t /\ s_c1 t = a /\ s_c2 t = b
    /\ eqv (f_ltb F) (s_dis t) (cell_or (f_inf F) M0 a b).
Proof. exact single_first_step_probe. Qed.
Print Assumptions C07_single_first_step.

(* ... and the second step then joins the clusters containing the pair (c, e) of the second-smallest
   entry, at a value that compares equal to that entry *)
Theorem C07_single_second_step : forall (T : Type) (F : fops T) (p : profile),
  (forall a, f_ltb F a a = false) ->
  (forall a b c, f_ltb F a b = true -> f_ltb F b c = true -> f_ltb F a c = true) ->
  (forall a b c, f_ltb F a b = false -> f_ltb F b c = false -> f_ltb F a c = false) ->
  (forall a b, f_eqb F a b = true -> f_ltb F b a = false) ->
  (forall a, f_eqb F a a = true) ->
  forall (a0 : algo) s d (m : list T) n s' d' m' M0 (a b c e : nat), (n < two32)%N ->
  run_with F p a0 Single s d m n = Ok (s', d', m') ->
  prologue p m n = Ok M0 ->
  Forall (fun v => f_ltb F v (f_inf F) = true) m ->
  a < b -> b < m_obs M0 -> c < e -> e < m_obs M0 -> ~ (c = a /\ e = b) ->
  (forall x y, x < y -> y < m_obs M0 -> ~ (x = a /\ y = b) ->
     f_ltb F (cell_or (f_inf F) M0 a b) (cell_or (f_inf F) M0 x y) = true) ->
  (forall x y, x < y -> y < m_obs M0 -> ~ ((x = a /\ y = b) \/ (x = c /\ y = e)) ->
     f_ltb F (cell_or (f_inf F) M0 c e) (cell_or (f_inf F) M0 x y) = true) ->
  exists t1, nth_error (d_steps d') 1 = Some t1
    /\ labi (m_obs M0) (d_steps d') 1 c <> labi (m_obs M0) (d_steps d') 1 e
    /\ labi (m_obs M0) (d_steps d') 2 c = labi (m_obs M0) (d_steps d') 2 e
    /\ ((s_c1 t1 = labi (m_obs M0) (d_steps d') 1 c /\ s_c2 t1 = labi (m_obs M0) (d_steps d') 1 e)
        \/ (s_c1 t1 = labi (m_obs M0) (d_steps d') 1 e /\ s_c2 t1 = labi (m_obs M0) (d_steps d') 1 c))
    /\ eqv (f_ltb F) (s_dis t1) (cell_or (f_inf F) M0 c e).
Proof. exact single_second_step_probe. Qed.
Print Assumptions C07_single_second_step.

(* the two float carriers of the correspondence check, every finite input *)
Require Import KV.Run.F64 KV.Run.F32 KV.Proofs.MstPrim KV.Proofs.FloatInstances.

Theorem C07_single_first_step_f64 : forall (p : profile) (a0 : algo) s d (m : list PrimFloat.float) (n : N) s' d' m' M0 (a b : nat),
  (n < two32)%N ->
  run_with F64 p a0 Single s d m n = Ok (s', d', m') ->
  prologue p m n = Ok M0 ->
  Forall (fun v => f_ltb F64 v (f_inf F64) = true) m ->
  a < b -> b < m_obs M0 ->
  (forall x y, x < y -> y < m_obs M0 -> ~ (x = a /\ y = b) ->
     f_ltb F64 (dcell (kops_of F64 Single) M0 a b) (dcell (kops_of F64 Single) M0 x y) = true) ->
  exists t, nth_error (d_steps d') 0 = Some t /\ s_c1 t = a /\ s_c2 t = b
    /\ eqv (f_ltb F64) (s_dis t) (dcell (kops_of F64 Single) M0 a b).
Proof. exact single_first_step_probe_f64. Qed.
Print Assumptions C07_single_first_step_f64.

Theorem C07_single_first_step_f32 : forall (p : profile) (a0 : algo) s d (m : list f32) (n : N) s' d' m' M0 (a b : nat),
  (n < two32)%N ->
  run_with F32 p a0 Single s d m n = Ok (s', d', m') ->
  prologue p m n = Ok M0 ->
  Forall (fun v => f_ltb F32 v (f_inf F32) = true) m ->
  a < b -> b < m_obs M0 ->
  (forall x y, x < y -> y < m_obs M0 -> ~ (x = a /\ y = b) ->
     f_ltb F32 (dcell (kops_of F32 Single) M0 a b) (dcell (kops_of F32 Single) M0 x y) = true) ->
  exists t, nth_error (d_steps d') 0 = Some t /\ s_c1 t = a /\ s_c2 t = b
    /\ eqv (f_ltb F32) (s_dis t) (dcell (kops_of F32 Single) M0 a b).
Proof. exact single_first_step_probe_f32. Qed.
Print Assumptions C07_single_first_step_f32.

Theorem C07_single_second_step_f64 : forall (p : profile) (a0 : algo) s d (m : list PrimFloat.float) (n : N) s' d' m' M0 (a b c e : nat),
  (n < two32)%N ->
  run_with F64 p a0 Single s d m n = Ok (s', d', m') ->
  prologue p m n = Ok M0 ->
  Forall (fun v => f_ltb F64 v (f_inf F64) = true) m ->
  a < b -> b < m_obs M0 -> c < e -> e < m_obs M0 -> ~ (c = a /\ e = b) ->
  (forall x y, x < y -> y < m_obs M0 -> ~ (x = a /\ y = b) ->
     f_ltb F64 (dcell (kops_of F64 Single) M0 a b) (dcell (kops_of F64 Single) M0 x y) = true) ->
  (forall x y, x < y -> y < m_obs M0 -> ~ ((x = a /\ y = b) \/ (x = c /\ y = e)) ->
     f_ltb F64 (dcell (kops_of F64 Single) M0 c e) (dcell (kops_of F64 Single) M0 x y) = true) ->
  exists t1, nth_error (d_steps d') 1 = Some t1
    /\ labi (m_obs M0) (d_steps d') 1 c <> labi (m_obs M0) (d_steps d') 1 e
    /\ labi (m_obs M0) (d_steps d') 2 c = labi (m_obs M0) (d_steps d') 2 e
    /\ ((s_c1 t1 = labi (m_obs M0) (d_steps d') 1 c /\ s_c2 t1 = labi (m_obs M0) (d_steps d') 1 e)
        \/ (s_c1 t1 = labi (m_obs M0) (d_steps d') 1 e /\ s_c2 t1 = labi (m_obs M0) (d_steps d') 1 c))
    /\ eqv (f_ltb F64) (s_dis t1) (dcell (kops_of F64 Single) M0 c e).
Proof. exact single_second_step_probe_f64. Qed.
Print Assumptions C07_single_second_step_f64.

Theorem C07_single_second_step_f32 : forall (p : profile) (a0 : algo) s d (m : list f32) (n : N) s' d' m' M0 (a b c e : nat),
  (n < two32)%N ->
  run_with F32 p a0 Single s d m n = Ok (s', d', m') ->
  prologue p m n = Ok M0 ->
  Forall (fun v => f_ltb F32 v (f_inf F32) = true) m ->
  a < b -> b < m_obs M0 -> c < e -> e < m_obs M0 -> ~ (c = a /\ e = b) ->
  (forall x y, x < y -> y < m_obs M0 -> ~ (x = a /\ y = b) ->
     f_ltb F32 (dcell (kops_of F32 Single) M0 a b) (dcell (kops_of F32 Single) M0 x y) = true) ->
  (forall x y, x < y -> y < m_obs M0 -> ~ ((x = a /\ y = b) \/ (x = c /\ y = e)) ->
     f_ltb F32 (dcell (kops_of F32 Single) M0 c e) (dcell (kops_of F32 Single) M0 x y) = true) ->
  exists t1, nth_error (d_steps d') 1 = Some t1
    /\ labi (m_obs M0) (d_steps d') 1 c <> labi (m_obs M0) (d_steps d') 1 e
    /\ labi (m_obs M0) (d_steps d') 2 c = labi (m_obs M0) (d_steps d') 2 e
    /\ ((s_c1 t1 = labi (m_obs M0) (d_steps d') 1 c /\ s_c2 t1 = labi (m_obs M0) (d_steps d') 1 e)
        \/ (s_c1 t1 = labi (m_obs M0) (d_steps d') 1 e /\ s_c2 t1 = labi (m_obs M0) (d_steps d') 1 c))
    /\ eqv (f_ltb F32) (s_dis t1) (dcell (kops_of F32 Single) M0 c e).
Proof. exact single_second_step_probe_f32. Qed.
Print Assumptions C07_single_second_step_f32.

Require Import KV.Model.Primitive KV.Model.Generic KV.Proofs.Criteria KV.Proofs.CriteriaRun KV.Proofs.QInf KV.Model.Chain KV.Proofs.FirstStepInstances KV.Proofs.FirstStepCarrier.
From Coq Require Import QArith.
Local Close Scope Q_scope.

(* ---- the first-step consequence for the other methods (FirstStep.v) ----
   through primitive: single, complete, centroid, median on binary64 / binary32, every input;
   all seven methods in exact rational arithmetic; through generic: all seven over option Q *)
Theorem C07_primitive_first_step_f64 : forall (p : profile) meth s d (m : list PrimFloat.float) n s' d' m' M0 (a b : nat) v,
  meth = Single \/ meth = Complete \/ meth = Centroid \/ meth = Median ->
  primitive_with (kops_of F64 meth) p meth s d m n = Ok (s', d', m') ->
  prologue p (square_all (kops_of F64 meth) m) n = Ok M0 ->
  a < b -> b < m_obs M0 ->
  UpdateSpec.wcell M0 a b = Some v ->
  (forall x y w, x < y -> y < m_obs M0 -> (x, y) <> (a, b) -> UpdateSpec.wcell M0 x y = Some w -> PrimFloat.ltb v w = true) ->
  exists t, nth_error (d_steps d') 0 = Some t /\ s_c1 t = a /\ s_c2 t = b /\ s_size t = 2
    /\ s_dis t = k_rt (kops_of F64 meth) v.
Proof. exact primitive_first_step_f64. Qed.
Print Assumptions C07_primitive_first_step_f64.

Theorem C07_primitive_first_step_f32 : forall (p : profile) meth s d (m : list f32) n s' d' m' M0 (a b : nat) v,
  meth = Single \/ meth = Complete \/ meth = Centroid \/ meth = Median ->
  primitive_with (kops_of F32 meth) p meth s d m n = Ok (s', d', m') ->
  prologue p (square_all (kops_of F32 meth) m) n = Ok M0 ->
  a < b -> b < m_obs M0 ->
  UpdateSpec.wcell M0 a b = Some v ->
  (forall x y w, x < y -> y < m_obs M0 -> (x, y) <> (a, b) -> UpdateSpec.wcell M0 x y = Some w -> f_ltb F32 v w = true) ->
  exists t, nth_error (d_steps d') 0 = Some t /\ s_c1 t = a /\ s_c2 t = b /\ s_size t = 2
    /\ s_dis t = k_rt (kops_of F32 meth) v.
Proof. exact primitive_first_step_f32. Qed.
Print Assumptions C07_primitive_first_step_f32.

Theorem C07_primitive_first_step_Q : forall (p : profile) (rt : Q -> Q) meth s d (m : list Q) n s' d' m' (M0 : cmat Q) (a b : nat) (v : Q),
  primitive_with (kops_of (QFr rt) meth) p meth s d m n = Ok (s', d', m') ->
  prologue p (square_all (kops_of (QFr rt) meth) m) n = Ok M0 ->
  a < b -> b < m_obs M0 ->
  UpdateSpec.wcell M0 a b = Some v ->
  (forall x y w, x < y -> y < m_obs M0 -> (x, y) <> (a, b) -> UpdateSpec.wcell M0 x y = Some w -> (v < w)%Q) ->
  exists t, nth_error (d_steps d') 0 = Some t /\ s_c1 t = a /\ s_c2 t = b /\ s_size t = 2
    /\ s_dis t = k_rt (kops_of (QFr rt) meth) v.
Proof. exact primitive_first_step_Q. Qed.
Print Assumptions C07_primitive_first_step_Q.

Theorem C07_generic_first_step_QI : forall (p : profile) (rt : Q -> Q) meth s d (mq : list Q) n s' d' m' (M0 : cmat qi) (a b : nat) (v : Q),
  generic_with (kops_of (QI rt) meth) p meth s d (map Some mq) n = Ok (s', d', m') ->
  prologue p (square_all (kops_of (QI rt) meth) (map Some mq)) n = Ok M0 ->
  a < b -> b < m_obs M0 ->
  UpdateSpec.wcell M0 a b = Some (Some v) ->
  (forall x y w, x < y -> y < m_obs M0 -> (x, y) <> (a, b) -> UpdateSpec.wcell M0 x y = Some (Some w) -> (v < w)%Q) ->
  exists t, nth_error (d_steps d') 0 = Some t /\ s_c1 t = a /\ s_c2 t = b /\ s_size t = 2
    /\ s_dis t = k_rt (kops_of (QI rt) meth) (Some v).
Proof. exact generic_first_step_QI. Qed.
Print Assumptions C07_generic_first_step_QI.

(* ... and through nnchain: single / complete on binary64 / binary32 (NaN-free input), average /
   weighted / ward in exact rational arithmetic. Here the unique smallest pair is in general NOT the
   first pair the algorithm merges; it is the first step of the returned (sorted) dendrogram. *)
Theorem C07_nnchain_first_step_f64 : forall (p : profile) meth s d (m : list PrimFloat.float) (n : N) s' d' m' M0 (a b : nat) v,
  meth = Single \/ meth = Complete ->
  nnchain_with (kops_of F64 meth) p meth s d m n = Ok (s', d', m') ->
  prologue p m n = Ok M0 ->
  Forall (fun w => PrimFloat.is_nan w = false) m ->
  a < b -> b < m_obs M0 ->
  UpdateSpec.wcell M0 a b = Some v ->
  (forall x y w, x < y -> y < m_obs M0 -> (x, y) <> (a, b) -> UpdateSpec.wcell M0 x y = Some w -> PrimFloat.ltb v w = true) ->
  exists t, nth_error (d_steps d') 0 = Some t /\ s_c1 t = a /\ s_c2 t = b /\ s_size t = 2 /\ s_dis t = v.
Proof. exact nnchain_first_step_f64. Qed.
Print Assumptions C07_nnchain_first_step_f64.

Theorem C07_nnchain_first_step_f32 : forall (p : profile) meth s d (m : list f32) (n : N) s' d' m' M0 (a b : nat) v,
  meth = Single \/ meth = Complete ->
  nnchain_with (kops_of F32 meth) p meth s d m n = Ok (s', d', m') ->
  prologue p m n = Ok M0 ->
  Forall (fun w => BinarySingleNaN.is_nan w = false) m ->
  a < b -> b < m_obs M0 ->
  UpdateSpec.wcell M0 a b = Some v ->
  (forall x y w, x < y -> y < m_obs M0 -> (x, y) <> (a, b) -> UpdateSpec.wcell M0 x y = Some w -> f_ltb F32 v w = true) ->
  exists t, nth_error (d_steps d') 0 = Some t /\ s_c1 t = a /\ s_c2 t = b /\ s_size t = 2 /\ s_dis t = v.
Proof. exact nnchain_first_step_f32. Qed.
Print Assumptions C07_nnchain_first_step_f32.

Theorem C07_nnchain_first_step_Q : forall (p : profile) (rt : Q -> Q) meth s d (m : list Q) n s' d' m' (M0 : cmat Q) (a b : nat) (v : Q),
  meth = Average \/ meth = Weighted \/ meth = Ward ->
  nnchain_with (kops_of (QFr rt) meth) p meth s d m n = Ok (s', d', m') ->
  prologue p (square_all (kops_of (QFr rt) meth) m) n = Ok M0 ->
  a < b -> b < m_obs M0 ->
  UpdateSpec.wcell M0 a b = Some v ->
  (forall x y w, x < y -> y < m_obs M0 -> (x, y) <> (a, b) -> UpdateSpec.wcell M0 x y = Some w -> (v < w)%Q) ->
  exists t, nth_error (d_steps d') 0 = Some t /\ s_c1 t = a /\ s_c2 t = b /\ s_size t = 2
    /\ s_dis t = k_rt (kops_of (QFr rt) meth) v.
Proof. exact nnchain_first_step_Q. Qed.
Print Assumptions C07_nnchain_first_step_Q.

(* what the user calls: linkage(.., Method::Complete) on binary64 / binary32 *)
Theorem C07_linkage_complete_first_step_f64 : forall (p : profile) s d (m : list PrimFloat.float) (n : N) s' d' m' M0 (a b : nat) v,
  run_with F64 p ALinkage Complete s d m n = Ok (s', d', m') ->
  prologue p m n = Ok M0 ->
  Forall (fun w => PrimFloat.is_nan w = false) m ->
  a < b -> b < m_obs M0 ->
  UpdateSpec.wcell M0 a b = Some v ->
  (forall x y w, x < y -> y < m_obs M0 -> (x, y) <> (a, b) -> UpdateSpec.wcell M0 x y = Some w -> PrimFloat.ltb v w = true) ->
  exists t, nth_error (d_steps d') 0 = Some t /\ s_c1 t = a /\ s_c2 t = b /\ s_size t = 2 /\ s_dis t = v.
Proof. exact linkage_complete_first_step_f64. Qed.
Print Assumptions C07_linkage_complete_first_step_f64.

Theorem C07_linkage_complete_first_step_f32 : forall (p : profile) s d (m : list f32) (n : N) s' d' m' M0 (a b : nat) v,
  run_with F32 p ALinkage Complete s d m n = Ok (s', d', m') ->
  prologue p m n = Ok M0 ->
  Forall (fun w => BinarySingleNaN.is_nan w = false) m ->
  a < b -> b < m_obs M0 ->
  UpdateSpec.wcell M0 a b = Some v ->
  (forall x y w, x < y -> y < m_obs M0 -> (x, y) <> (a, b) -> UpdateSpec.wcell M0 x y = Some w -> f_ltb F32 v w = true) ->
  exists t, nth_error (d_steps d') 0 = Some t /\ s_c1 t = a /\ s_c2 t = b /\ s_size t = 2 /\ s_dis t = v.
Proof. exact linkage_complete_first_step_f32. Qed.
Print Assumptions C07_linkage_complete_first_step_f32.

(* what the user calls, in exact arithmetic over option Q (None = +infinity), for the six methods
   other than single (single: C07_single_first_step, every entry point): linkage runs nnchain for
   complete / average / weighted / ward and generic for centroid / median *)
Theorem C07_linkage_first_step_QI : forall (p : profile) (rt : Q -> Q) meth s d (mq : list Q) n s' d' m' (M0 : cmat qi) (a b : nat) (v : Q),
  meth <> Single ->
  linkage_with (QI rt) p meth s d (map Some mq) n = Ok (s', d', m') ->
  prologue p (square_all (kops_of (QI rt) meth) (map Some mq)) n = Ok M0 ->
  a < b -> b < m_obs M0 ->
  UpdateSpec.wcell M0 a b = Some (Some v) ->
  (forall x y w, x < y -> y < m_obs M0 -> (x, y) <> (a, b) -> UpdateSpec.wcell M0 x y = Some (Some w) -> (v < w)%Q) ->
  exists t, nth_error (d_steps d') 0 = Some t /\ s_c1 t = a /\ s_c2 t = b /\ s_size t = 2
    /\ s_dis t = k_rt (kops_of (QI rt) meth) (Some v).
Proof. exact linkage_first_step_QI. Qed.
Print Assumptions C07_linkage_first_step_QI.

(* non-vacuity: a concrete rational matrix (d01 = 3, d02 = 1, d12 = 2) meets the hypotheses *)
Example C07_first_step_hypotheses_satisfiable :
  let m := [3; 1; 2]%Q in
  (exists r, nnchain_with (kops_of (QFr (fun q => q)) Average) Release Average (st_new Q) (d_new Q 0) m 3 = Ok r)
  /\ exists M0, prologue Release (square_all (kops_of (QFr (fun q => q)) Average) m) 3 = Ok M0
       /\ 0 < 2 /\ 2 < m_obs M0 /\ UpdateSpec.wcell M0 0 2 = Some 1%Q
       /\ (forall x y w, x < y -> y < m_obs M0 -> (x, y) <> (0, 2) -> UpdateSpec.wcell M0 x y = Some w -> (1 < w)%Q).
Proof.
  cbv zeta. split; [eexists; vm_compute; reflexivity|].
  eexists. split; [vm_compute; reflexivity|]. cbn [m_obs]. split; [lia|]. split; [lia|]. split; [reflexivity|].
  intros x y w Hxy Hy Hne Hw.
  destruct x as [|[|x]]; destruct y as [|[|[|y]]]; try lia.
  - vm_compute in Hw. inversion Hw. reflexivity.
  - exfalso. apply Hne. reflexivity.
  - vm_compute in Hw. inversion Hw. reflexivity.
Qed.

From Coq Require Import Floats.

(* ... and a concrete binary64 matrix (d01 = 3, d02 = 0.5, d12 = 2; centroid, which squares the
   entries: 9, 0.25, 4) meets the hypotheses of C07_primitive_first_step_f64 *)
Example C07_first_step_f64_hypotheses_satisfiable :
  let m := [3%float; 0.5%float; 2%float] in
  (exists r, primitive_with (kops_of F64 Centroid) Release Centroid (st_new PrimFloat.float) (d_new PrimFloat.float 0) m 3 = Ok r)
  /\ exists M0, prologue Release (square_all (kops_of F64 Centroid) m) 3 = Ok M0
       /\ 0 < 2 /\ 2 < m_obs M0 /\ UpdateSpec.wcell M0 0 2 = Some 0.25%float
       /\ (forall x y w, x < y -> y < m_obs M0 -> (x, y) <> (0, 2) -> UpdateSpec.wcell M0 x y = Some w -> PrimFloat.ltb 0.25%float w = true).
Proof.
  cbv zeta. split; [eexists; vm_compute; reflexivity|].
  eexists. split; [vm_compute; reflexivity|]. cbn [m_obs]. split; [lia|]. split; [lia|]. split; [vm_compute; reflexivity|].
  intros x y w Hxy Hy Hne Hw.
  destruct x as [|[|x]]; destruct y as [|[|[|y]]]; try lia.
  - vm_compute in Hw. inversion Hw. vm_compute. reflexivity.
  - exfalso. apply Hne. reflexivity.
  - vm_compute in Hw. inversion Hw. vm_compute. reflexivity.
Qed.
