(* C07 - condensed layout: entry k is the k-th pair in row-major
   upper-triangle order. *)
Require Import KV.Model.Prelude KV.Model.Condensed KV.Spec.Pairs KV.Proofs.CondensedIdx.

(* For EVERY n and every pair r < c < n the index expression of
   condensed.rs is the position of (r, c) in (0,1),(0,2),...,(n-2,n-1). *)
Theorem C07_cidx_is_position : forall n r c : nat,
  r < c -> c < n -> nth_error (pairs n) (cidx_nat n r c) = Some (r, c).
Proof. exact cidx_is_position. Qed.
Print Assumptions C07_cidx_is_position.

Theorem C07_pairs_length : forall n, length (pairs n) = n * (n - 1) / 2.
Proof. exact pairs_length. Qed.
Print Assumptions C07_pairs_length.

(* ... hence a bijection between {r < c < n} and the slots [0, n(n-1)/2). *)
Theorem C07_cidx_injective : forall n r c r' c' : nat,
  r < c -> c < n -> r' < c' -> c' < n ->
  cidx_nat n r c = cidx_nat n r' c' -> (r, c) = (r', c').
Proof. exact cidx_injective. Qed.
Print Assumptions C07_cidx_injective.

Theorem C07_cidx_surjective : forall n k : nat,
  k < n * (n - 1) / 2 -> exists r c, r < c /\ c < n /\ cidx_nat n r c = k.
Proof. exact cidx_surjective. Qed.
Print Assumptions C07_cidx_surjective.

(* The machine evaluation (64-bit wrapping arithmetic, as in a release build)
   never under- or overflows for n < 2^32 and equals the mathematical value, so
   checked and unchecked builds read the same slot. *)
Theorem C07_cidx_no_wrap : forall n r c : nat,
  r < c -> c < n -> (N.of_nat n < two32)%N ->
  cidx_wrap (N.of_nat n) (N.of_nat r) (N.of_nat c) = N.of_nat (cidx_nat n r c).
Proof. exact cidx_wrap_exact. Qed.
Print Assumptions C07_cidx_no_wrap.

(* On a correctly sized matrix `dis[[r, c]]` resolves, in both profiles,
   without panic, to exactly that slot. *)
Theorem C07_slot : forall (T : Type) (p : profile) (M : cmat T) (r c : nat),
  r < c -> c < m_obs M -> length (m_data M) = m_obs M * (m_obs M - 1) / 2 ->
  mslot p M r c = Ok (cidx_nat (m_obs M) r c).
Proof. exact @mslot_ok. Qed.
Print Assumptions C07_slot.

Example C07_nonvacuous : nth_error (pairs 5) (cidx_nat 5 1 3) = Some (1, 3) /\ pairs 4 = [(0,1);(0,2);(0,3);(1,2);(1,3);(2,3)].
Proof. split; reflexivity. Qed.
Print Assumptions C07_nonvacuous.
