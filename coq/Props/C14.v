(* C14 - quadratic work (counting model, Model/Cost.v: one count per call of
   matrix_to_condensed_idx, as the cfg(kodama_verif) hook counts). *)
Require Import KV.Model.Prelude KV.Model.Condensed KV.Model.Dendrogram KV.Model.Methods
  KV.Model.State KV.Model.Mst KV.Model.Cost KV.Model.Linkage KV.Proofs.MstCost KV.Proofs.Small.

Local Open Scope N_scope.

(* mst (= linkage with the single method): whenever the call returns, it has
   read the matrix exactly n(n-1)/2 times - for EVERY input, whatever its
   values (ties, adversarial orderings), any float type, both profiles, any
   prior scratch state.  In particular <= 10 n^2 + 50 n. *)
Theorem C14_mst_cost : forall (T : Type) (K : kops T) (p : profile) (s : lstate T) (d : dend T)
  (m : list T) (n : N) s' d' m' cnt,
  mst_with_c K p s d m n = Ok (s', d', m', cnt) ->
  cnt = N.of_nat (d_obs d') * (N.of_nat (d_obs d') - 1) / 2.
Proof. exact mst_cost. Qed.
Print Assumptions C14_mst_cost.

Corollary C14_mst_bound : forall (T : Type) (K : kops T) (p : profile) (s : lstate T) (d : dend T)
  (m : list T) (n : N) s' d' m' cnt,
  mst_with_c K p s d m n = Ok (s', d', m', cnt) ->
  let k := N.of_nat (d_obs d') in cnt <= 10 * k * k + 50 * k.
Proof.
  intros T K p s d m n s' d' m' cnt H. cbn zeta. rewrite (mst_cost _ _ _ _ _ _ H).
  set (k := N.of_nat (d_obs d')).
  apply N.le_trans with (k * (k - 1)).
  - generalize (k * (k - 1)). intros x. apply N.div_le_upper_bound; lia.
  - nia.
Qed.
Print Assumptions C14_mst_bound.

(* linkage routes the single method to mst and the other four to nnchain *)
Theorem C14_dispatch : forall (T : Type) (F : fops T) (p : profile) (meth : method)
  (s : lstate T) (d : dend T) (m : list T) (n : N),
  linkage_with F p meth s d m n =
  match meth with
  | Single => mst_with (kops_of F Single) p s d m n
  | Complete | Average | Weighted | Ward => Chain.nnchain_with (kops_of F meth) p meth s d m n
  | Centroid | Median => Generic.generic_with (kops_of F meth) p meth s d m n
  end.
Proof. exact linkage_dispatch. Qed.
Print Assumptions C14_dispatch.
