(* C14 - quadratic work (counting model, Model/Cost.v: one count per call of
   matrix_to_condensed_idx, as the cfg(kodama_verif) hook counts). *)
Require Import KV.Model.Prelude KV.Model.Condensed KV.Model.Dendrogram KV.Model.Methods
  KV.Model.State KV.Model.Mst KV.Model.Cost KV.Model.Linkage KV.Proofs.MstCost KV.Proofs.Small.

Local Open Scope N_scope.

(* mst (= linkage with the single method): whenever the call returns, it has
   read the matrix exactly n(n-1)/2 times - for EVERY input, whatever its
   values (ties, adversarial orderings), any float type, both profiles, any
   prior scratch state.  In particular <= 10 n^2 + 50 n. *)
Theorem C14_mst_cost : forall (T : Type) (K : kops T) (p : profile) (s : lstate T) (d : dend T)
  (m : list T) (n : N) s' d' m' cnt,
  mst_with_c K p s d m n = Ok (s', d', m', cnt) ->
  cnt = N.of_nat (d_obs d') * (N.of_nat (d_obs d') - 1) / 2.
Proof. exact mst_cost. Qed.
Print Assumptions C14_mst_cost.

Corollary C14_mst_bound : forall (T : Type) (K : kops T) (p : profile) (s : lstate T) (d : dend T)
  (m : list T) (n : N) s' d' m' cnt,
  mst_with_c K p s d m n = Ok (s', d', m', cnt) ->
  let k := N.of_nat (d_obs d') in cnt <= 10 * k * k + 50 * k.
Proof.
  intros T K p s d m n s' d' m' cnt H. cbn zeta. rewrite (mst_cost _ _ _ _ _ _ H).
  set (k := N.of_nat (d_obs d')).
  apply N.le_trans with (k * (k - 1)).
  - generalize (k * (k - 1)). intros x. apply N.div_le_upper_bound; lia.
  - nia.
Qed.
Print Assumptions C14_mst_bound.

(* linkage routes the single method to mst and the other four to nnchain *)
Theorem C14_dispatch : forall (T : Type) (F : fops T) (p : profile) (meth : method)
  (s : lstate T) (d : dend T) (m : list T) (n : N),
  linkage_with F p meth s d m n =
  match meth with
  | Single => mst_with (kops_of F Single) p s d m n
  | Complete | Average | Weighted | Ward => Chain.nnchain_with (kops_of F meth) p meth s d m n
  | Centroid | Median => Generic.generic_with (kops_of F meth) p meth s d m n
  end.
Proof. exact linkage_dispatch. Qed.
Print Assumptions C14_dispatch.

(* ---- nnchain (what linkage runs for complete, average, weighted, ward) ----
   Under a strict weak order on the carrier and reducibility of the update
   formula, on EVERY well-formed input, from any prior state, in both
   profiles, the counting model performs at most 6 n^2 + 10 n matrix accesses
   (<= 10 n^2 + 50 n): the stored chain never exceeds the number of live
   clusters + 2, so the pushes amortise (potential 2 * |live| * |chain|). *)
Require Import KV.Model.Chain KV.Proofs.ShapeCheck KV.Proofs.ChainIter KV.Proofs.ChainCost KV.Proofs.ChainInstances
  KV.Proofs.Criteria KV.Proofs.CriteriaRun.
From Coq Require Import QArith.
Local Close Scope Q_scope.
Local Open Scope N_scope.

Theorem C14_nnchain_cost : forall (T : Type) (K : kops T) (p : profile) (meth : method),
  (forall a, k_ltb K a a = false) ->
  (forall a b c, k_ltb K a b = true -> k_ltb K b c = true -> k_ltb K a c = true) ->
  (forall a b c, k_ltb K a b = false -> k_ltb K b c = false -> k_ltb K a c = false) ->
  (forall va vb md sa sb sx, size_ok meth sa sb sx ->
     k_ltb K va md = false -> k_ltb K vb md = false ->
     k_ltb K (k_upd K va vb md sa sb sx) va = false \/ k_ltb K (k_upd K va vb md sa sb sx) vb = false) ->
  forall s d (m : list T) (n : N) s' d' m' cnt,
  n < two32 -> wf_shape n (N.of_nat (length m)) ->
  nnchain_with_c K p meth s d m n = Ok (s', d', m', cnt) ->
  cnt <= 6 * n * n + 10 * n.
Proof. exact nnchain_cost. Qed.
Print Assumptions C14_nnchain_cost.

Theorem C14_nnchain_selection_bound : forall (T : Type) (F : fops T) (p : profile),
  (forall a, f_ltb F a a = false) ->
  (forall a b c, f_ltb F a b = true -> f_ltb F b c = true -> f_ltb F a c = true) ->
  (forall a b c, f_ltb F a b = false -> f_ltb F b c = false -> f_ltb F a c = false) ->
  forall meth s d (m : list T) (n : N) s' d' m' cnt,
  meth = Single \/ meth = Complete ->
  n < two32 -> wf_shape n (N.of_nat (length m)) ->
  nnchain_with_c (kops_of F meth) p meth s d m n = Ok (s', d', m', cnt) ->
  cnt <= 10 * n * n + 50 * n.
Proof.
  intros T F p H1 H2 H3 meth s d m n s' d' m' cnt Hm Hn Hs H.
  pose proof (@nnchain_selection_cost T F p H1 H2 H3 meth s d m n s' d' m' cnt Hm Hn Hs H). nia.
Qed.
Print Assumptions C14_nnchain_selection_bound.

Theorem C14_nnchain_Q_bound : forall (p : profile) (rt : Q -> Q) (meth : method) s d (m : list Q) (n : N) s' d' m' cnt,
  meth = Average \/ meth = Weighted \/ meth = Ward ->
  n < two32 -> wf_shape n (N.of_nat (length m)) ->
  nnchain_with_c (kops_of (QFr rt) meth) p meth s d m n = Ok (s', d', m', cnt) ->
  cnt <= 10 * n * n + 50 * n.
Proof.
  intros p rt meth s d m n s' d' m' cnt Hm Hn Hs H.
  pose proof (@nnchain_Q_cost p rt meth s d m n s' d' m' cnt Hm Hn Hs H). nia.
Qed.
Print Assumptions C14_nnchain_Q_bound.
