(* C19 - Dendrogram container contract. *)
Require Import KV.Model.Prelude KV.Model.Dendrogram KV.Model.DendOps KV.Proofs.DendContract.

Theorem C19_push_spec : forall (T : Type) (d : dend T) (s : step T),
  (d_len d < d_obs d - 1 /\ d_push d s = Ok {| d_steps := d_steps d ++ [s]; d_obs := d_obs d |})
  \/ (~ d_len d < d_obs d - 1 /\ d_push d s = Panic PAssert).
Proof. exact push_spec. Qed.
Print Assumptions C19_push_spec.

(* exactly n-1 pushes are accepted after reset(n) / new(n); the next panics
   (immediately for n <= 1) *)
Theorem C19_pushes_after_reset : forall (T : Type) (d0 : dend T) (n : nat) (ss : list (step T)),
  (length ss <= n - 1 /\ mfold (@d_push T) ss (d_reset d0 n) = Ok {| d_steps := ss; d_obs := n |})
  \/ (n - 1 < length ss /\ mfold (@d_push T) ss (d_reset d0 n) = Panic PAssert).
Proof. exact pushes_after_reset. Qed.
Print Assumptions C19_pushes_after_reset.

Theorem C19_reset_spec : forall (T : Type) (d : dend T) (n : nat),
  d_len (d_reset d n) = 0 /\ d_obs (d_reset d n) = n.
Proof. exact reset_spec. Qed.
Print Assumptions C19_reset_spec.

Theorem C19_step_new_sorted : forall (T : Type) (c1 c2 : nat) (x : T) (sz : nat),
  let s := step_new c1 c2 x sz in
  s_c1 s = Nat.min c1 c2 /\ s_c2 s = Nat.max c1 c2 /\ s_dis s = x /\ s_size s = sz.
Proof. exact step_new_sorted. Qed.
Print Assumptions C19_step_new_sorted.

Theorem C19_set_clusters_sorted : forall (T : Type) (s : step T) (c1 c2 : nat),
  let s' := step_set_clusters s c1 c2 in
  s_c1 s' = Nat.min c1 c2 /\ s_c2 s' = Nat.max c1 c2 /\ s_dis s' = s_dis s /\ s_size s' = s_size s.
Proof. exact set_clusters_sorted. Qed.
Print Assumptions C19_set_clusters_sorted.

Theorem C19_cluster_size_spec : forall (T : Type) (d : dend T) (label : nat),
  (label < d_obs d /\ d_cluster_size d label = Ok 1)
  \/ (d_obs d <= label /\ exists s, nth_error (d_steps d) (label - d_obs d) = Some s
                                    /\ d_cluster_size d label = Ok (s_size s))
  \/ (d_obs d <= label /\ d_len d <= label - d_obs d /\ d_cluster_size d label = Panic PIndex).
Proof. exact cluster_size_spec. Qed.
Print Assumptions C19_cluster_size_spec.

(* eq_with_epsilon is true exactly when lengths agree and every pair of
   corresponding steps has identical labels and size and dissimilarities that
   are == or whose ROUNDED difference |d1 (-) d2| is not > eps.  (Holds for any
   float values; for non-NaN values and eps >= 0 this is the property's
   "differ by at most eps" read in floating point.) *)
Theorem C19_eq_eps_spec : forall (T : Type) (eqb ltb : T -> T -> bool) (sub : T -> T -> T)
  (abs : T -> T) (d1 d2 : dend T) (eps : T),
  d_eq_eps eqb ltb sub abs d1 d2 eps = true
  <-> length (d_steps d1) = length (d_steps d2)
      /\ Forall2 (fun s1 s2 => step_close eqb ltb sub abs s1 s2 eps = true) (d_steps d1) (d_steps d2).
Proof. exact eq_eps_spec. Qed.
Print Assumptions C19_eq_eps_spec.

(* over ALL operation sequences on the public API *)
Theorem C19_capacity_invariant : forall (T : Type) (eqb ltb : T -> T -> bool) (sub : T -> T -> T)
  (abs : T -> T) (ops : list (dop T)),
  let st := fst (drun eqb ltb sub abs ops) in Inv (fst st) /\ Inv (snd st).
Proof. exact capacity_invariant. Qed.
Print Assumptions C19_capacity_invariant.

Example C19_nonvacuous :
  mfold (@d_push nat) [step_new 1 0 5 2; step_new 2 3 7 3] (d_reset (d_new nat 0) 3)
    = Ok {| d_steps := [{| s_c1 := 0; s_c2 := 1; s_dis := 5; s_size := 2 |};
                        {| s_c1 := 2; s_c2 := 3; s_dis := 7; s_size := 3 |}]; d_obs := 3 |}
  /\ mfold (@d_push nat) [step_new 1 0 5 2] (d_reset (d_new nat 0) 1) = Panic PAssert.
Proof. split; reflexivity. Qed.
Print Assumptions C19_nonvacuous.

(* ---- "... which for any dendrogram returned by a clustering function equals the number of
   observations beneath that label" ---- *)
Require Import KV.Model.Methods KV.Model.State KV.Model.Primitive KV.Model.Mst
  KV.Proofs.RelabelWF KV.Proofs.DendUnique KV.Proofs.ClusterSizes KV.Proofs.PrimitiveWF KV.Proofs.MstWF.

(* in ANY well-formed stepwise dendrogram (what C01 establishes of returned dendrograms): after j
   steps every label in use carries exactly as many observations as cluster_size reports, and the
   size recorded by step j is the number of observations carried to label n + j *)
Theorem C19_members_csize : forall (T : Type) (n : nat) (D : list (step T)), wf_dend n D ->
  forall j, j <= length D -> forall l,
    (l < n + j /\ forall i t, i < j -> nth_error D i = Some t -> s_c1 t <> l /\ s_c2 t <> l) ->
    length (filter (fun x => labi n D j x =? l) (seq 0 n)) = csize n D l.
Proof. exact members_csize. Qed.
Print Assumptions C19_members_csize.

Theorem C19_size_is_member_count : forall (T : Type) (n : nat) (D : list (step T)), wf_dend n D ->
  forall j t, nth_error D j = Some t ->
    s_size t = length (filter (fun x => labi n D (S j) x =? n + j) (seq 0 n)).
Proof. exact size_is_member_count. Qed.
Print Assumptions C19_size_is_member_count.

(* instances with no hypothesis on the input at all: primitive (7 methods) and mst / linkage-single,
   any carrier whose `<` is transitive and irreflexive, any prior state, both profiles *)
Theorem C19_primitive_sizes : forall (T : Type) (K : kops T) (p : profile),
  (forall a b c, k_ltb K a b = true -> k_ltb K b c = true -> k_ltb K a c = true) ->
  (forall a, k_ltb K a a = false) ->
  forall meth s d m n s' d' m' j t,
  primitive_with K p meth s d m n = Ok (s', d', m') -> nth_error (d_steps d') j = Some t ->
  s_size t = length (filter (fun x => labi (d_obs d') (d_steps d') (S j) x =? d_obs d' + j) (seq 0 (d_obs d'))).
Proof.
  intros T K p H1 H2 meth s d m n s' d' m' j t H Ht.
  exact (@size_is_member_count T (d_obs d') (d_steps d') (@primitive_wf T K p H1 H2 meth s d m n s' d' m' H) j t Ht).
Qed.
Print Assumptions C19_primitive_sizes.

Theorem C19_mst_sizes : forall (T : Type) (K : kops T) (p : profile) s d m n s' d' m' j t,
  mst_with K p s d m n = Ok (s', d', m') -> nth_error (d_steps d') j = Some t ->
  s_size t = length (filter (fun x => labi (d_obs d') (d_steps d') (S j) x =? d_obs d' + j) (seq 0 (d_obs d'))).
Proof.
  intros T K p s d m n s' d' m' j t H Ht.
  exact (@size_is_member_count T (d_obs d') (d_steps d') (@mst_wf T K p s d m n s' d' m' H) j t Ht).
Qed.
Print Assumptions C19_mst_sizes.
