(* C04 - single linkage is exact.
   Theorems: (1) bit-exactness - single linkage only ever reports input entries
   (all entry points); (2) mst_with (= linkage with Method::Single) is Prim's
   algorithm: every recorded step attaches an outside observation at the
   weight of a minimum edge crossing the cut; (3) cuts = threshold components,
   for the raw steps and for the RETURNED dendrogram with its labels, for every
   threshold; (4) the same min-over-cross-pairs characterisation for
   primitive (C02_single_run).
   (5) the second sentence of the property: through each of the five entry
   points the returned heights are, up to order and bit for bit, the edge
   weights of a minimum spanning tree of the complete graph on the
   observations (end of this file): a spanning tree with those weights exists,
   and at every threshold it has at least as many edges of weight <= t as any
   other spanning tree - which over an ordered field is minimal total weight
   (C04_dominated_sum, C04_min_total_weight_Q). Carrier-generic (strict weak
   order) and instantiated on binary64 / binary32 for every finite input. *)
Require Import KV.Model.Prelude KV.Model.Condensed KV.Model.Methods KV.Model.State KV.Model.Dendrogram
  KV.Model.Mst KV.Model.Linkage KV.Model.History KV.Proofs.OrderOnly KV.Proofs.ActiveRefine KV.Proofs.SortProofs
  KV.Proofs.RelabelWF KV.Proofs.PrimThreshold KV.Proofs.MstPrim KV.Proofs.MstCuts.
From Coq Require Import Permutation Relations.

(* every reported dissimilarity (and every cell left in the matrix) of single
   (and complete) linkage, through every entry point and from any scratch
   state, is literally one of the input entries or a sentinel: no arithmetic,
   no rounding - for f32 and f64, any magnitude, any number of ties *)
Theorem C04_heights_are_input_entries : forall (T : Type) (V : T -> Prop) (F : fops T) (p : profile),
  V (f_max F) -> V (f_inf F) ->
  forall (a : algo) (meth : method) (m : list T) (n : N) (s : lstate T) (d : dend T),
  meth = Single \/ meth = Complete -> Forall V m ->
  out_in_V V (out_of (run_with F p a meth s d m n)).
Proof. exact selection_closed. Qed.
Print Assumptions C04_heights_are_input_entries.

(* ---- Prim's algorithm ---- *)
(* reading of a Prim trace (pinned so that the definition cannot drift): the
   step attaches x, recorded against the previously attached vertex c, at a
   weight v that is attained by an edge from the tree to x and is not above
   any edge from the tree to the outside *)
Theorem C04_ptrace_inv : forall (T : Type) (ltb : T -> T -> bool) (d0 : nat -> nat -> T)
  Tr c L st rest, ptrace ltb d0 Tr c L (st :: rest) ->
  exists x v sz, st = step_new x c v sz /\ In x L
    /\ (exists t, In t Tr /\ v = d0 t x)
    /\ (forall t y, In t Tr -> In y L -> ltb (d0 t y) v = false)
    /\ ptrace ltb d0 (x :: Tr) x (without x L) rest.
Proof.
  intros T ltb d0 Tr c L st rest H. inversion H; subst.
  eexists _, _, _. split; [reflexivity|]. repeat (split; [assumption|]). assumption.
Qed.
Print Assumptions C04_ptrace_inv.

Theorem C04_mst_is_prim : forall (T : Type) (K : kops T) (p : profile),
  (forall a, k_ltb K a a = false) ->
  (forall a b c, k_ltb K a b = true -> k_ltb K b c = true -> k_ltb K a c = true) ->
  (forall a b c, k_ltb K a b = false -> k_ltb K b c = false -> k_ltb K a c = false) ->
  forall s d m n s' d' m' M0,
  mst_with K p s d m n = Ok (s', d', m') ->
  prologue p m n = Ok M0 ->
  (forall x y, x <> y -> x < m_obs M0 -> y < m_obs M0 -> k_ltb K (dcell K M0 x y) (k_inf K) = true) ->
  exists raw,
    ptrace (k_ltb K) (dcell K M0) [0] 0 (seq 1 (m_obs M0 - 1)) raw
    /\ length raw = m_obs M0 - 1
    /\ Permutation (heights d') (map (@s_dis T) raw).
Proof. exact mst_prim. Qed.
Print Assumptions C04_mst_is_prim.

(* ---- cuts = threshold components ---- *)
(* abstract: any Prim trace, any threshold *)
Theorem C04_prim_threshold : forall (T : Type) (ltb : T -> T -> bool),
  (forall a b c, ltb a b = false -> ltb b c = false -> ltb a c = false) ->
  forall d0 : nat -> nat -> T, (forall x y, d0 x y = d0 y x) ->
  forall (t : T) x0 L raw, ptrace ltb d0 [x0] x0 L raw ->
  forall x y, link ltb t raw x y <-> conn ltb d0 (x0 :: L) t x y.
Proof. exact threshold_components. Qed.
Print Assumptions C04_prim_threshold.

(* the returned dendrogram: for EVERY threshold t there is a cut position j
   (the returned heights are sorted) such that the first j steps are exactly
   those of height <= t, and applying them - labels as in C01: labi - puts two
   observations under the same label iff they are connected in the graph that
   joins observations whose input dissimilarity is <= t *)
Theorem C04_cuts_are_threshold_components : forall (T : Type) (K : kops T) (p : profile),
  (forall a, k_ltb K a a = false) ->
  (forall a b c, k_ltb K a b = true -> k_ltb K b c = true -> k_ltb K a c = true) ->
  (forall a b c, k_ltb K a b = false -> k_ltb K b c = false -> k_ltb K a c = false) ->
  (forall a b, k_eqb K a b = true -> k_ltb K b a = false) ->
  forall s d m n s' d' m' M0,
  mst_with K p s d m n = Ok (s', d', m') ->
  prologue p m n = Ok M0 ->
  (forall x y, x <> y -> x < m_obs M0 -> y < m_obs M0 -> k_ltb K (dcell K M0 x y) (k_inf K) = true) ->
  forall t : T, exists j, j <= m_obs M0 - 1 /\ cut_at K t j (heights d')
    /\ forall x y, x < m_obs M0 -> y < m_obs M0 ->
        (labi (m_obs M0) (d_steps d') j x = labi (m_obs M0) (d_steps d') j y
         <-> conn (k_ltb K) (dcell K M0) (0 :: seq 1 (m_obs M0 - 1)) t x y).
Proof. exact mst_cuts_all. Qed.
Print Assumptions C04_cuts_are_threshold_components.

(* non-vacuity: an integer-valued carrier satisfies all hypotheses, and the
   model returns Ok on a matrix with ties *)
Definition KZ : kops Z :=
  {| k_ltb := Z.ltb; k_eqb := Z.eqb; k_max := 1000000%Z; k_inf := 1000000%Z;
     k_upd := fun a b _ _ _ _ => if Z.ltb a b then a else b; k_sq := fun x => x; k_rt := fun x => x |}.
Example C04_hypotheses_satisfiable :
  (forall a, k_ltb KZ a a = false)
  /\ (forall a b c, k_ltb KZ a b = true -> k_ltb KZ b c = true -> k_ltb KZ a c = true)
  /\ (forall a b c, k_ltb KZ a b = false -> k_ltb KZ b c = false -> k_ltb KZ a c = false)
  /\ (forall a b, k_eqb KZ a b = true -> k_ltb KZ b a = false)
  /\ exists r M0, mst_with KZ Debug (st_new Z) (d_new Z 0) [3; 1; 4; 1; 5; 9; 2; 6; 5; 3]%Z 5 = Ok r
        /\ prologue Debug [3; 1; 4; 1; 5; 9; 2; 6; 5; 3]%Z 5 = Ok M0
        /\ forallb (fun x => forallb (fun y => (x =? y) || Z.ltb (dcell KZ M0 x y) (k_inf KZ)) (seq 0 5)) (seq 0 5) = true.
Proof.
  cbn [KZ k_ltb k_eqb].
  split; [intros a; apply Z.ltb_irrefl|].
  split; [intros a b c H1 H2; apply Z.ltb_lt in H1, H2; apply Z.ltb_lt; lia|].
  split; [intros a b c H1 H2; apply Z.ltb_ge in H1, H2; apply Z.ltb_ge; lia|].
  split; [intros a b H; apply Z.eqb_eq in H; apply Z.ltb_ge; lia|].
  eexists _, _. split; [vm_compute; reflexivity|]. split; [vm_compute; reflexivity|]. vm_compute. reflexivity.
Qed.

(* ---- the same on the two float carriers the model is evaluated on in the
   correspondence check (order laws discharged in Proofs/FloatOrder.v through
   Flocq; transfer through the NaN-free subtype and C10's abstraction theorem
   in Proofs/SubCarrier.v) ---- *)
Require Import KV.Run.F64 KV.Run.F32 KV.Proofs.FloatInstances.
From Flocq Require Import IEEE754.BinarySingleNaN.
(* non-vacuity on binary64: a concrete run with ties meets the hypotheses *)
Definition C04_f64_nonvacuous := f64_run_exists.

Theorem C04_f64_cuts_are_threshold_components : forall (p : profile) (a : algo) s d
  (m : list PrimFloat.float) (n : N) s' d' m' M0,
  a = ALinkage \/ a = AMst ->
  run_with F64 p a Single s d m n = Ok (s', d', m') ->
  prologue p m n = Ok M0 ->
  Forall (fun v => PrimFloat.ltb v PrimFloat.infinity = true) m ->
  forall t : PrimFloat.float, PrimFloat.is_nan t = false ->
  exists j, j <= m_obs M0 - 1 /\ cut_at (kops_of F64 Single) t j (heights d')
    /\ forall x y, x < m_obs M0 -> y < m_obs M0 ->
        (labi (m_obs M0) (d_steps d') j x = labi (m_obs M0) (d_steps d') j y
         <-> conn PrimFloat.ltb (dcell (kops_of F64 Single) M0) (0 :: seq 1 (m_obs M0 - 1)) t x y).
Proof. exact mst_cuts_f64. Qed.
Print Assumptions C04_f64_cuts_are_threshold_components.

Theorem C04_f32_cuts_are_threshold_components : forall (p : profile) (a : algo) s d
  (m : list f32) (n : N) s' d' m' M0,
  a = ALinkage \/ a = AMst ->
  run_with F32 p a Single s d m n = Ok (s', d', m') ->
  prologue p m n = Ok M0 ->
  Forall (fun v => Bltb v (B754_infinity false) = true) m ->
  forall t : f32, BinarySingleNaN.is_nan t = false ->
  exists j, j <= m_obs M0 - 1 /\ cut_at (kops_of F32 Single) t j (heights d')
    /\ forall x y, x < m_obs M0 -> y < m_obs M0 ->
        (labi (m_obs M0) (d_steps d') j x = labi (m_obs M0) (d_steps d') j y
         <-> conn (@Bltb 24 128) (dcell (kops_of F32 Single) M0) (0 :: seq 1 (m_obs M0 - 1)) t x y).
Proof. exact mst_cuts_f32. Qed.
Print Assumptions C04_f32_cuts_are_threshold_components.


(* ---- Method::Single through nnchain, generic and primitive (Proofs/
   SingleThreshold.v, SingleCuts.v) ----
   Each of the three loops merges (weak) reciprocal nearest neighbours under the
   single-linkage criterion; for any such trace the classes joined by the raw
   steps of weight <= t are the components of the threshold graph at t, for
   every t and under any pattern of ties.  Sort + relabel as for mst. *)
Require Import KV.Model.Primitive KV.Model.Chain KV.Model.Generic KV.Proofs.LWInvariant KV.Proofs.CriteriaRun
  KV.Proofs.SingleThreshold KV.Proofs.SingleCuts.

(* the abstract theorem on traces *)
Theorem C04_rnn_trace_threshold_components : forall (T : Type) (ltb : T -> T -> bool),
  (forall a b c, ltb a b = false -> ltb b c = false -> ltb a c = false) ->
  forall d0 : nat -> nat -> T, (forall x y, d0 x y = d0 y x) ->
  forall (V : list nat) (n : nat) (raw : list (step T)),
  V = seq 0 n -> sltrace ltb d0 (seq 0 n) Leaf raw -> length raw + 1 = n ->
  forall t x y, In x V -> In y V -> (link ltb t raw x y <-> conn ltb d0 V t x y).
Proof. exact sl_threshold_components. Qed.
Print Assumptions C04_rnn_trace_threshold_components.

(* what a trace is, pinned *)
Theorem C04_sltrace_inv : forall (T : Type) (ltb : T -> T -> bool) (d0 : nat -> nat -> T) L mem st rest,
  sltrace ltb d0 L mem (st :: rest) ->
  exists a b v sz, st = step_new a b v sz /\ In a L /\ In b L /\ a < b
    /\ is_min_over ltb d0 (mem a) (mem b) v
    /\ (forall x, In x L -> x <> a -> x <> b -> forall x' y',
          In x' (leaves (mem a)) \/ In x' (leaves (mem b)) -> In y' (leaves (mem x)) -> ltb (d0 x' y') v = false)
    /\ sltrace ltb d0 (without a L) (upd_mem mem a b) rest.
Proof.
  intros T ltb d0 L mem st rest H. inversion H; subst.
  eexists _, _, _, _. split; [reflexivity|]. repeat (split; [assumption|]). assumption.
Qed.
Print Assumptions C04_sltrace_inv.

Theorem C04_primitive_single_cuts : forall (T : Type) (F : fops T) (p : profile),
  (forall a, f_ltb F a a = false) ->
  (forall a b c, f_ltb F a b = true -> f_ltb F b c = true -> f_ltb F a c = true) ->
  (forall a b c, f_ltb F a b = false -> f_ltb F b c = false -> f_ltb F a c = false) ->
  (forall a b, f_eqb F a b = true -> f_ltb F b a = false) ->
  forall s d m n s' d' m' M0,
  primitive_with (kops_of F Single) p Single s d m n = Ok (s', d', m') -> prologue p m n = Ok M0 -> 1 <= m_obs M0 ->
  forall t : T, exists j, j <= m_obs M0 - 1 /\ cut_at (kops_of F Single) t j (heights d')
    /\ forall x y, x < m_obs M0 -> y < m_obs M0 ->
        (labi (m_obs M0) (d_steps d') j x = labi (m_obs M0) (d_steps d') j y
         <-> conn (f_ltb F) (cell_or (f_inf F) M0) (seq 0 (m_obs M0)) t x y).
Proof. exact primitive_single_cuts_all. Qed.
Print Assumptions C04_primitive_single_cuts.

Theorem C04_nnchain_single_cuts : forall (T : Type) (F : fops T) (p : profile),
  (forall a, f_ltb F a a = false) ->
  (forall a b c, f_ltb F a b = true -> f_ltb F b c = true -> f_ltb F a c = true) ->
  (forall a b c, f_ltb F a b = false -> f_ltb F b c = false -> f_ltb F a c = false) ->
  (forall a b, f_eqb F a b = true -> f_ltb F b a = false) ->
  forall s d m n s' d' m' M0,
  nnchain_with (kops_of F Single) p Single s d m n = Ok (s', d', m') -> prologue p m n = Ok M0 -> 1 <= m_obs M0 ->
  forall t : T, exists j, j <= m_obs M0 - 1 /\ cut_at (kops_of F Single) t j (heights d')
    /\ forall x y, x < m_obs M0 -> y < m_obs M0 ->
        (labi (m_obs M0) (d_steps d') j x = labi (m_obs M0) (d_steps d') j y
         <-> conn (f_ltb F) (cell_or (f_inf F) M0) (seq 0 (m_obs M0)) t x y).
Proof. exact nnchain_single_cuts_all. Qed.
Print Assumptions C04_nnchain_single_cuts.

Theorem C04_generic_single_cuts : forall (T : Type) (F : fops T) (p : profile),
  (forall a, f_ltb F a a = false) ->
  (forall a b c, f_ltb F a b = true -> f_ltb F b c = true -> f_ltb F a c = true) ->
  (forall a b c, f_ltb F a b = false -> f_ltb F b c = false -> f_ltb F a c = false) ->
  (forall a b, f_eqb F a b = true -> f_ltb F b a = false) ->
  (forall a, f_eqb F a a = true) ->
  forall s d m n s' d' m' M0,
  Forall (fun v => f_ltb F v (f_inf F) = true) m ->
  generic_with (kops_of F Single) p Single s d m n = Ok (s', d', m') -> prologue p m n = Ok M0 -> 1 <= m_obs M0 ->
  forall t : T, exists j, j <= m_obs M0 - 1 /\ cut_at (kops_of F Single) t j (heights d')
    /\ forall x y, x < m_obs M0 -> y < m_obs M0 ->
        (labi (m_obs M0) (d_steps d') j x = labi (m_obs M0) (d_steps d') j y
         <-> conn (f_ltb F) (cell_or (f_inf F) M0) (seq 0 (m_obs M0)) t x y).
Proof. exact generic_single_cuts_all. Qed.
Print Assumptions C04_generic_single_cuts.

(* ... and on the two float carriers: all five entry points are now covered *)
Theorem C04_f64_single_cuts_other_entry_points : forall (p : profile) (a : algo) s d
  (m : list PrimFloat.float) (n : N) s' d' m' M0,
  a = ANnchain \/ a = AGeneric \/ a = APrimitive ->
  run_with F64 p a Single s d m n = Ok (s', d', m') ->
  prologue p m n = Ok M0 -> 1 <= m_obs M0 ->
  Forall (fun v => PrimFloat.ltb v (f_inf F64) = true) m ->
  forall t : PrimFloat.float, PrimFloat.is_nan t = false ->
  exists j, j <= m_obs M0 - 1 /\ cut_at (kops_of F64 Single) t j (heights d')
    /\ forall x y, x < m_obs M0 -> y < m_obs M0 ->
        (labi (m_obs M0) (d_steps d') j x = labi (m_obs M0) (d_steps d') j y
         <-> conn PrimFloat.ltb (dcell (kops_of F64 Single) M0) (seq 0 (m_obs M0)) t x y).
Proof. exact single_cuts_f64. Qed.
Print Assumptions C04_f64_single_cuts_other_entry_points.

Theorem C04_f32_single_cuts_other_entry_points : forall (p : profile) (a : algo) s d
  (m : list f32) (n : N) s' d' m' M0,
  a = ANnchain \/ a = AGeneric \/ a = APrimitive ->
  run_with F32 p a Single s d m n = Ok (s', d', m') ->
  prologue p m n = Ok M0 -> 1 <= m_obs M0 ->
  Forall (fun v => Bltb v (f_inf F32) = true) m ->
  forall t : f32, BinarySingleNaN.is_nan t = false ->
  exists j, j <= m_obs M0 - 1 /\ cut_at (kops_of F32 Single) t j (heights d')
    /\ forall x y, x < m_obs M0 -> y < m_obs M0 ->
        (labi (m_obs M0) (d_steps d') j x = labi (m_obs M0) (d_steps d') j y
         <-> conn (@Bltb 24 128) (dcell (kops_of F32 Single) M0) (seq 0 (m_obs M0)) t x y).
Proof. exact single_cuts_f32. Qed.
Print Assumptions C04_f32_single_cuts_other_entry_points.

(* ---- the heights are the edge weights of a minimum spanning tree ---- *)
Require Import KV.Proofs.SpanningTrees KV.Proofs.MstWeights KV.Proofs.MstWeightsRun KV.Proofs.DominatedSum KV.Proofs.MstWeightsInstances.
From Coq Require Import QArith.

(* readings, pinned: a spanning tree of the complete graph on the vertex list V is a list of
   |V| - 1 pairs of vertices whose symmetric-transitive closure connects all of V *)
Theorem C04_spanning_reading : forall (V : list nat) (E : list (nat * nat)),
  spanning V E <->
  (length E + 1 = length V
   /\ (forall e, In e E -> In (fst e) V /\ In (snd e) V)
   /\ forall x y, In x V -> In y V -> clos_refl_sym_trans nat (fun a b => In (a, b) E \/ In (b, a) E) x y)%nat.
Proof. intros V E. reflexivity. Qed.
Print Assumptions C04_spanning_reading.

(* hs is, up to order, the list of weights d0 a b of the edges of a spanning tree E, and no
   spanning tree has more edges of weight <= t than hs has entries <= t, for any t *)
Theorem C04_mst_weights_reading : forall (T : Type) (ltb : T -> T -> bool) (d0 : nat -> nat -> T) (n : nat) (hs : list T),
  mst_weights ltb d0 n hs <->
  exists E, spanning (seq 0 n) E
    /\ Permutation hs (map (fun e => d0 (fst e) (snd e)) E)
    /\ forall E', spanning (seq 0 n) E' -> forall t : T,
         (length (filter (fun v => negb (ltb t v)) (map (fun e => d0 (fst e) (snd e)) E'))
          <= length (filter (fun v => negb (ltb t v)) hs))%nat.
Proof. intros. reflexivity. Qed.
Print Assumptions C04_mst_weights_reading.

(* Kruskal's bound (pure graph theory): inside any spanning tree, the edges selected by a
   predicate number at most |P| for every edge list P whose connectivity covers theirs *)
Theorem C04_kruskal_bound : forall (V : list nat) (E' P : list (nat * nat)) (f : nat * nat -> bool),
  NoDup V -> spanning V E' -> (forall e, In e P -> In (fst e) V /\ In (snd e) V) ->
  (forall a b, In (a, b) (filter f E') -> econn P a b) ->
  (length (filter f E') <= length P)%nat.
Proof. exact kruskal_bound. Qed.
Print Assumptions C04_kruskal_bound.

(* why the threshold-count form is minimality: over Q, same length and never more entries
   <= t means a sum that is not larger *)
Theorem C04_dominated_sum : forall (n : nat) (A B : list Q), length A = n -> length B = n ->
  (forall t, In t B -> (length (filter (fun v => Qle_bool v t) B) <= length (filter (fun v => Qle_bool v t) A))%nat) ->
  (fold_right Qplus 0 A <= fold_right Qplus 0 B)%Q.
Proof. exact dominated_sum. Qed.
Print Assumptions C04_dominated_sum.

(* mst_with (= linkage with Method::Single), any carrier with a strict weak order *)
Theorem C04_mst_heights_are_mst_weights : forall (T : Type) (K : kops T) (p : profile),
  (forall a, k_ltb K a a = false) ->
  (forall a b c, k_ltb K a b = true -> k_ltb K b c = true -> k_ltb K a c = true) ->
  (forall a b c, k_ltb K a b = false -> k_ltb K b c = false -> k_ltb K a c = false) ->
  forall s d m n s' d' m' M0,
  mst_with K p s d m n = Ok (s', d', m') ->
  prologue p m n = Ok M0 -> (1 <= m_obs M0)%nat ->
  (forall x y, x <> y -> (x < m_obs M0)%nat -> (y < m_obs M0)%nat -> k_ltb K (dcell K M0 x y) (k_inf K) = true) ->
  mst_weights (k_ltb K) (dcell K M0) (m_obs M0) (heights d').
Proof. exact mst_weights_mst. Qed.
Print Assumptions C04_mst_heights_are_mst_weights.

(* primitive, nnchain, generic with Method::Single *)
Theorem C04_primitive_heights_are_mst_weights : forall (T : Type) (F : fops T) (p : profile),
  (forall a, f_ltb F a a = false) ->
  (forall a b c, f_ltb F a b = true -> f_ltb F b c = true -> f_ltb F a c = true) ->
  (forall a b c, f_ltb F a b = false -> f_ltb F b c = false -> f_ltb F a c = false) ->
  forall s d m n s' d' m' M0,
  primitive_with (kops_of F Single) p Single s d m n = Ok (s', d', m') -> prologue p m n = Ok M0 -> (1 <= m_obs M0)%nat ->
  mst_weights (f_ltb F) (cell_or (f_inf F) M0) (m_obs M0) (heights d').
Proof. exact primitive_weights_mst. Qed.
Print Assumptions C04_primitive_heights_are_mst_weights.

Theorem C04_nnchain_heights_are_mst_weights : forall (T : Type) (F : fops T) (p : profile),
  (forall a, f_ltb F a a = false) ->
  (forall a b c, f_ltb F a b = true -> f_ltb F b c = true -> f_ltb F a c = true) ->
  (forall a b c, f_ltb F a b = false -> f_ltb F b c = false -> f_ltb F a c = false) ->
  forall s d m n s' d' m' M0,
  nnchain_with (kops_of F Single) p Single s d m n = Ok (s', d', m') -> prologue p m n = Ok M0 -> (1 <= m_obs M0)%nat ->
  mst_weights (f_ltb F) (cell_or (f_inf F) M0) (m_obs M0) (heights d').
Proof. exact nnchain_weights_mst. Qed.
Print Assumptions C04_nnchain_heights_are_mst_weights.

Theorem C04_generic_heights_are_mst_weights : forall (T : Type) (F : fops T) (p : profile),
  (forall a, f_ltb F a a = false) ->
  (forall a b c, f_ltb F a b = true -> f_ltb F b c = true -> f_ltb F a c = true) ->
  (forall a b c, f_ltb F a b = false -> f_ltb F b c = false -> f_ltb F a c = false) ->
  (forall a, f_eqb F a a = true) ->
  (forall u v, f_eqb F u v = true -> f_ltb F v u = false) ->
  forall s d m n s' d' m' M0,
  Forall (fun v => f_ltb F v (f_inf F) = true) m ->
  generic_with (kops_of F Single) p Single s d m n = Ok (s', d', m') -> prologue p m n = Ok M0 -> (1 <= m_obs M0)%nat ->
  mst_weights (f_ltb F) (cell_or (f_inf F) M0) (m_obs M0) (heights d').
Proof. exact generic_weights_mst. Qed.
Print Assumptions C04_generic_heights_are_mst_weights.

(* exact rational arithmetic: minimal total weight *)
Theorem C04_min_total_weight_Q : forall (p : profile) (rt : Q -> Q) s d (m : list Q) n s' d' m' M0,
  primitive_with (kops_of (QFr rt) Single) p Single s d m n = Ok (s', d', m')
  \/ nnchain_with (kops_of (QFr rt) Single) p Single s d m n = Ok (s', d', m') ->
  prologue p m n = Ok M0 -> (1 <= m_obs M0)%nat ->
  exists E, spanning (seq 0 (m_obs M0)) E
    /\ Permutation (heights d') (map (fun e => cell_or 0%Q M0 (fst e) (snd e)) E)
    /\ forall E', spanning (seq 0 (m_obs M0)) E' ->
         (fold_right Qplus 0 (heights d') <= fold_right Qplus 0 (map (fun e => cell_or 0%Q M0 (fst e) (snd e)) E'))%Q.
Proof.
  intros p rt s d m n s' d' m' M0 [H|H] HM0 Hn.
  - exact (@primitive_single_min_total_Q p rt s d m n s' d' m' M0 H HM0 Hn).
  - exact (@nnchain_single_min_total_Q p rt s d m n s' d' m' M0 H HM0 Hn).
Qed.
Print Assumptions C04_min_total_weight_Q.

(* the two float carriers: every finite input, all five entry points *)
Theorem C04_f64_heights_are_mst_weights : forall (p : profile) (a : algo) s d
  (m : list PrimFloat.float) (n : N) s' d' m' M0,
  run_with F64 p a Single s d m n = Ok (s', d', m') ->
  prologue p m n = Ok M0 -> (1 <= m_obs M0)%nat ->
  Forall (fun v => PrimFloat.ltb v PrimFloat.infinity = true) m ->
  mst_weights PrimFloat.ltb (dcell (kops_of F64 Single) M0) (m_obs M0) (heights d').
Proof. exact mst_weights_f64. Qed.
Print Assumptions C04_f64_heights_are_mst_weights.

Theorem C04_f32_heights_are_mst_weights : forall (p : profile) (a : algo) s d
  (m : list f32) (n : N) s' d' m' M0,
  run_with F32 p a Single s d m n = Ok (s', d', m') ->
  prologue p m n = Ok M0 -> (1 <= m_obs M0)%nat ->
  Forall (fun v => Bltb v (f_inf F32) = true) m ->
  mst_weights (@Bltb 24 128) (dcell (kops_of F32 Single) M0) (m_obs M0) (heights d').
Proof. exact mst_weights_f32. Qed.
Print Assumptions C04_f32_heights_are_mst_weights.

(* non-vacuity: the path 0 - 1 - 2 is a spanning tree on three vertices; a star is another *)
Example C04_spanning_exists : spanning (seq 0 3) [(0, 1); (1, 2)]%nat /\ spanning (seq 0 3) [(0, 1); (0, 2)]%nat.
Proof.
  split; (split; [reflexivity|]; split;
    [intros e [<-|[<-|[]]]; cbn; auto 6|]).
  - assert (H01 : econn [(0, 1); (1, 2)]%nat 0%nat 1%nat) by apply econn_head.
    assert (H12 : econn [(0, 1); (1, 2)]%nat 1%nat 2%nat) by (apply econn_tail; apply econn_head).
    assert (H0 : forall y, In y (seq 0 3) -> econn [(0, 1); (1, 2)]%nat 0%nat y).
    { intros y [<-|[<-|[<-|[]]]]; [apply econn_refl|exact H01|eapply econn_trans; eassumption]. }
    intros x y Hx Hy. eapply econn_trans; [apply econn_sym; exact (H0 x Hx)|exact (H0 y Hy)].
  - assert (H01 : econn [(0, 1); (0, 2)]%nat 0%nat 1%nat) by apply econn_head.
    assert (H02 : econn [(0, 1); (0, 2)]%nat 0%nat 2%nat) by (apply econn_tail; apply econn_head).
    assert (H0 : forall y, In y (seq 0 3) -> econn [(0, 1); (0, 2)]%nat 0%nat y).
    { intros y [<-|[<-|[<-|[]]]]; [apply econn_refl|exact H01|exact H02]. }
    intros x y Hx Hy. eapply econn_trans; [apply econn_sym; exact (H0 x Hx)|exact (H0 y Hy)].
Qed.
