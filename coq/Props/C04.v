(* C04 - single linkage is exact (PARTIAL: bit-exactness - single linkage only
   ever reports input entries - and order-only dependence are theorems; "cuts =
   threshold components" and "heights = MST weights" are not yet proved). *)
Require Import KV.Model.Prelude KV.Model.Methods KV.Model.State KV.Model.Dendrogram
  KV.Model.Linkage KV.Model.History KV.Proofs.OrderOnly.

(* every reported dissimilarity (and every cell left in the matrix) of single
   (and complete) linkage, through every entry point and from any scratch
   state, is literally one of the input entries or a sentinel: no arithmetic,
   no rounding - for f32 and f64, any magnitude, any number of ties *)
Theorem C04_heights_are_input_entries : forall (T : Type) (V : T -> Prop) (F : fops T) (p : profile),
  V (f_max F) -> V (f_inf F) ->
  forall (a : algo) (meth : method) (m : list T) (n : N) (s : lstate T) (d : dend T),
  meth = Single \/ meth = Complete -> Forall V m ->
  out_in_V V (out_of (run_with F p a meth s d m n)).
Proof. exact selection_closed. Qed.
Print Assumptions C04_heights_are_input_entries.
