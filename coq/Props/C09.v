(* C09 - scale equivariance (PARTIAL: for single/complete it is the order-only
   theorem; for the arithmetic methods a conditional equivariance theorem whose
   hypotheses - the scaling map commutes with the float operations on the
   values that occur - are NOT discharged for IEEE floats). *)
Require Import KV.Model.Prelude KV.Model.Methods KV.Model.State KV.Model.Dendrogram
  KV.Model.Linkage KV.Model.History KV.Model.Primitive KV.Model.Mst KV.Model.Chain KV.Model.Generic
  KV.Proofs.OrderOnly.

(* single / complete: any comparison-preserving map (x -> x * 2^k is one while
   values stay below the sentinel) commutes with every entry point *)
Theorem C09_selection_methods : forall (T1 T2 : Type) (g : T1 -> T2) (V : T1 -> Prop)
  (F1 : fops T1) (F2 : fops T2) (p : profile),
  (forall x y, V x -> V y -> f_ltb F2 (g x) (g y) = f_ltb F1 x y) ->
  (forall x y, V x -> V y -> f_eqb F2 (g x) (g y) = f_eqb F1 x y) ->
  V (f_max F1) /\ f_max F2 = g (f_max F1) ->
  V (f_inf F1) /\ f_inf F2 = g (f_inf F1) ->
  forall (a : algo) (meth : method) (m : list T1) (n : N)
    (s1 : lstate T1) (d1 : dend T1) (s2 : lstate T2) (d2 : dend T2),
  meth = Single \/ meth = Complete -> Forall V m ->
  out_of (run_with F2 p a meth s2 d2 (map g m) n) = map_out g (out_of (run_with F1 p a meth s1 d1 m n)).
Proof. exact order_only. Qed.
Print Assumptions C09_selection_methods.

(* all methods, conditional: if g commutes with the comparisons, the sentinels,
   the update formula, the square pre-pass and the sqrt post-pass on a set V of
   values closed under them, it commutes with the whole run (labels, sizes,
   order and panics unchanged; every dissimilarity mapped through g) *)
Theorem C09_generic_equivariance_partial : forall (T1 T2 : Type) (g : T1 -> T2) (V : T1 -> Prop)
  (K1 : kops T1) (K2 : kops T2) (p : profile),
  (forall x y, V x -> V y -> k_ltb K2 (g x) (g y) = k_ltb K1 x y) ->
  (forall x y, V x -> V y -> k_eqb K2 (g x) (g y) = k_eqb K1 x y) ->
  V (k_max K1) /\ k_max K2 = g (k_max K1) ->
  V (k_inf K1) /\ k_inf K2 = g (k_inf K1) ->
  (forall a b md sa sb sx, V a -> V b -> V md ->
     V (k_upd K1 a b md sa sb sx) /\ k_upd K2 (g a) (g b) (g md) sa sb sx = g (k_upd K1 a b md sa sb sx)) ->
  (forall x, V x -> V (k_sq K1 x) /\ k_sq K2 (g x) = g (k_sq K1 x)) ->
  (forall x, V x -> V (k_rt K1 x) /\ k_rt K2 (g x) = g (k_rt K1 x)) ->
  forall (meth : method) (m : list T1) (n : N), Forall V m ->
  out_of (generic_with K2 p meth (st_new T2) (d_new T2 0) (map g m) n)
  = map_out g (out_of (generic_with K1 p meth (st_new T1) (d_new T1 0) m n)).
Proof. exact generic_equivariant. Qed.
Print Assumptions C09_generic_equivariance_partial.

Theorem C09_nnchain_equivariance_partial : forall (T1 T2 : Type) (g : T1 -> T2) (V : T1 -> Prop)
  (K1 : kops T1) (K2 : kops T2) (p : profile),
  (forall x y, V x -> V y -> k_ltb K2 (g x) (g y) = k_ltb K1 x y) ->
  (forall x y, V x -> V y -> k_eqb K2 (g x) (g y) = k_eqb K1 x y) ->
  V (k_max K1) /\ k_max K2 = g (k_max K1) ->
  V (k_inf K1) /\ k_inf K2 = g (k_inf K1) ->
  (forall a b md sa sb sx, V a -> V b -> V md ->
     V (k_upd K1 a b md sa sb sx) /\ k_upd K2 (g a) (g b) (g md) sa sb sx = g (k_upd K1 a b md sa sb sx)) ->
  (forall x, V x -> V (k_sq K1 x) /\ k_sq K2 (g x) = g (k_sq K1 x)) ->
  (forall x, V x -> V (k_rt K1 x) /\ k_rt K2 (g x) = g (k_rt K1 x)) ->
  forall (meth : method) (m : list T1) (n : N), Forall V m ->
  out_of (nnchain_with K2 p meth (st_new T2) (d_new T2 0) (map g m) n)
  = map_out g (out_of (nnchain_with K1 p meth (st_new T1) (d_new T1 0) m n)).
Proof. exact nnchain_equivariant. Qed.
Print Assumptions C09_nnchain_equivariance_partial.

Theorem C09_primitive_equivariance_partial : forall (T1 T2 : Type) (g : T1 -> T2) (V : T1 -> Prop)
  (K1 : kops T1) (K2 : kops T2) (p : profile),
  (forall x y, V x -> V y -> k_ltb K2 (g x) (g y) = k_ltb K1 x y) ->
  (forall x y, V x -> V y -> k_eqb K2 (g x) (g y) = k_eqb K1 x y) ->
  V (k_max K1) /\ k_max K2 = g (k_max K1) ->
  V (k_inf K1) /\ k_inf K2 = g (k_inf K1) ->
  (forall a b md sa sb sx, V a -> V b -> V md ->
     V (k_upd K1 a b md sa sb sx) /\ k_upd K2 (g a) (g b) (g md) sa sb sx = g (k_upd K1 a b md sa sb sx)) ->
  (forall x, V x -> V (k_sq K1 x) /\ k_sq K2 (g x) = g (k_sq K1 x)) ->
  (forall x, V x -> V (k_rt K1 x) /\ k_rt K2 (g x) = g (k_rt K1 x)) ->
  forall (meth : method) (m : list T1) (n : N), Forall V m ->
  out_of (primitive_with K2 p meth (st_new T2) (d_new T2 0) (map g m) n)
  = map_out g (out_of (primitive_with K1 p meth (st_new T1) (d_new T1 0) m n)).
Proof. exact primitive_equivariant. Qed.
Print Assumptions C09_primitive_equivariance_partial.

(* ---- all methods, all entry points, UNCONDITIONALLY, in an idealised binary
   floating-point arithmetic (Proofs/XReal.v): radix 2, any precision p >= 1,
   round to nearest even, unbounded exponent range (Flocq's FLX format on the
   reals), infinite sentinel for infinity()/max_value().  Scaling every input by
   2^e (any integer e) leaves labels, sizes, order and panics unchanged and
   multiplies every reported dissimilarity by exactly 2^e; the matrix left
   behind is scaled by 2^e (by 4^e for the methods working on squares).
   The idealisation leaves out exactly overflow and underflow. *)
Require Import KV.Model.Condensed KV.Proofs.XReal.
From Coq Require Import Reals ZArith Lra.
From Flocq Require Import Core.

(* the carrier, pinned *)
Theorem C09_XF_def : forall prec : Z,
  XF prec =
  {| f_ltb := x_ltb; f_eqb := x_eqb;
     f_add := xlift2 (fun x y => rnd prec (x + y)%R); f_sub := xlift2 (fun x y => rnd prec (x - y)%R);
     f_mul := xlift2 (fun x y => rnd prec (x * y)%R); f_div := xlift2 (fun x y => rnd prec (x / y)%R);
     f_sqrt := xlift1 (fun x => rnd prec (sqrt x)); f_abs := xlift1 Rabs;
     f_of_nat := fun n => Some (rnd prec (INR n));
     f_half := Some (/ 2)%R; f_quarter := Some (/ 4)%R;
     f_inf := None; f_max := None |}
  /\ (forall x, rnd prec x = round radix2 (FLX_exp prec) ZnearestE x)
  /\ (forall e x, sc e (Some x) = Some (x * bpow radix2 e)%R) /\ (forall e, sc e None = None).
Proof. intros; repeat split. Qed.
Print Assumptions C09_XF_def.

Theorem C09_scale_out_def : forall e eM (r : res (dend XReal.xr * list XReal.xr)),
  scale_out e eM r =
  match r with
  | Ok (d, m) => Ok ({| d_steps := map (fun s => {| s_c1 := s_c1 s; s_c2 := s_c2 s; s_dis := sc e (s_dis s); s_size := s_size s |}) (d_steps d);
                       d_obs := d_obs d |}, map (sc eM) m)
  | Panic k => Panic k
  | OutOfFuel => OutOfFuel
  end.
Proof. intros e eM [[d m]| |]; reflexivity. Qed.
Print Assumptions C09_scale_out_def.

Theorem C09_scale_equivariance_unbounded_exponent : forall (prec : Z), Prec_gt_0 prec ->
  forall (p : profile) (a : algo) (meth : method) (e : Z)
    (s1 : lstate XReal.xr) (d1 : dend XReal.xr) (s2 : lstate XReal.xr) (d2 : dend XReal.xr) (m : list XReal.xr) (n : N),
  out_of (run_with (XF prec) p a meth s1 d1 (map (sc e) m) n)
  = scale_out e (match a with AMst => e | _ => if on_squares meth then (2 * e)%Z else e end)
      (out_of (run_with (XF prec) p a meth s2 d2 m n)).
Proof. intros prec _. exact (@scale_equivariance prec). Qed.
Print Assumptions C09_scale_equivariance_unbounded_exponent.

(* the ingredients: rounding commutes with scaling; every update formula
   (regenerated from src/method.rs: Gen/Formulas.v) is homogeneous of degree 1
   in the three dissimilarities and of degree 0 in everything else - an absolute
   constant, threshold or tolerance in a formula makes `deg` fail *)
Theorem C09_round_scales : forall (prec : Z), Prec_gt_0 prec ->
  forall x e, rnd prec (x * bpow radix2 e) = (rnd prec x * bpow radix2 e)%R.
Proof. intros prec _. exact (@rnd_scale prec). Qed.
Print Assumptions C09_round_scales.

Theorem C09_formulas_homogeneous : forall meth, deg (formula meth) = Some 1.
Proof. exact formulas_degree_one. Qed.
Print Assumptions C09_formulas_homogeneous.

Theorem C09_update_scales : forall (prec : Z), Prec_gt_0 prec ->
  forall meth k a b md sa sb sx,
  upd_of (XF prec) meth (sc k a) (sc k b) (sc k md) sa sb sx = sc k (upd_of (XF prec) meth a b md sa sb sx).
Proof. intros prec _. exact (@upd_scale prec). Qed.
Print Assumptions C09_update_scales.

(* scaling is not the identity: the statement is not vacuous *)
Example C09_sc_example : sc 1 (Some 3%R) = Some 6%R.
Proof. cbn. f_equal. lra. Qed.
