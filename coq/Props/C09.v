(* C09 - scale equivariance (PARTIAL: for single/complete it is the order-only
   theorem; for the arithmetic methods a conditional equivariance theorem whose
   hypotheses - the scaling map commutes with the float operations on the
   values that occur - are NOT discharged for IEEE floats). *)
Require Import KV.Model.Prelude KV.Model.Methods KV.Model.State KV.Model.Dendrogram
  KV.Model.Linkage KV.Model.History KV.Model.Primitive KV.Model.Mst KV.Model.Chain KV.Model.Generic
  KV.Proofs.OrderOnly.

(* single / complete: any comparison-preserving map (x -> x * 2^k is one while
   values stay below the sentinel) commutes with every entry point *)
Theorem C09_selection_methods : forall (T1 T2 : Type) (g : T1 -> T2) (V : T1 -> Prop)
  (F1 : fops T1) (F2 : fops T2) (p : profile),
  (forall x y, V x -> V y -> f_ltb F2 (g x) (g y) = f_ltb F1 x y) ->
  (forall x y, V x -> V y -> f_eqb F2 (g x) (g y) = f_eqb F1 x y) ->
  V (f_max F1) /\ f_max F2 = g (f_max F1) ->
  V (f_inf F1) /\ f_inf F2 = g (f_inf F1) ->
  forall (a : algo) (meth : method) (m : list T1) (n : N)
    (s1 : lstate T1) (d1 : dend T1) (s2 : lstate T2) (d2 : dend T2),
  meth = Single \/ meth = Complete -> Forall V m ->
  out_of (run_with F2 p a meth s2 d2 (map g m) n) = map_out g (out_of (run_with F1 p a meth s1 d1 m n)).
Proof. exact order_only. Qed.
Print Assumptions C09_selection_methods.

(* all methods, conditional: if g commutes with the comparisons, the sentinels,
   the update formula, the square pre-pass and the sqrt post-pass on a set V of
   values closed under them, it commutes with the whole run (labels, sizes,
   order and panics unchanged; every dissimilarity mapped through g) *)
Theorem C09_generic_equivariance_partial : forall (T1 T2 : Type) (g : T1 -> T2) (V : T1 -> Prop)
  (K1 : kops T1) (K2 : kops T2) (p : profile),
  (forall x y, V x -> V y -> k_ltb K2 (g x) (g y) = k_ltb K1 x y) ->
  (forall x y, V x -> V y -> k_eqb K2 (g x) (g y) = k_eqb K1 x y) ->
  V (k_max K1) /\ k_max K2 = g (k_max K1) ->
  V (k_inf K1) /\ k_inf K2 = g (k_inf K1) ->
  (forall a b md sa sb sx, V a -> V b -> V md ->
     V (k_upd K1 a b md sa sb sx) /\ k_upd K2 (g a) (g b) (g md) sa sb sx = g (k_upd K1 a b md sa sb sx)) ->
  (forall x, V x -> V (k_sq K1 x) /\ k_sq K2 (g x) = g (k_sq K1 x)) ->
  (forall x, V x -> V (k_rt K1 x) /\ k_rt K2 (g x) = g (k_rt K1 x)) ->
  forall (meth : method) (m : list T1) (n : N), Forall V m ->
  out_of (generic_with K2 p meth (st_new T2) (d_new T2 0) (map g m) n)
  = map_out g (out_of (generic_with K1 p meth (st_new T1) (d_new T1 0) m n)).
Proof. exact generic_equivariant. Qed.
Print Assumptions C09_generic_equivariance_partial.

Theorem C09_nnchain_equivariance_partial : forall (T1 T2 : Type) (g : T1 -> T2) (V : T1 -> Prop)
  (K1 : kops T1) (K2 : kops T2) (p : profile),
  (forall x y, V x -> V y -> k_ltb K2 (g x) (g y) = k_ltb K1 x y) ->
  (forall x y, V x -> V y -> k_eqb K2 (g x) (g y) = k_eqb K1 x y) ->
  V (k_max K1) /\ k_max K2 = g (k_max K1) ->
  V (k_inf K1) /\ k_inf K2 = g (k_inf K1) ->
  (forall a b md sa sb sx, V a -> V b -> V md ->
     V (k_upd K1 a b md sa sb sx) /\ k_upd K2 (g a) (g b) (g md) sa sb sx = g (k_upd K1 a b md sa sb sx)) ->
  (forall x, V x -> V (k_sq K1 x) /\ k_sq K2 (g x) = g (k_sq K1 x)) ->
  (forall x, V x -> V (k_rt K1 x) /\ k_rt K2 (g x) = g (k_rt K1 x)) ->
  forall (meth : method) (m : list T1) (n : N), Forall V m ->
  out_of (nnchain_with K2 p meth (st_new T2) (d_new T2 0) (map g m) n)
  = map_out g (out_of (nnchain_with K1 p meth (st_new T1) (d_new T1 0) m n)).
Proof. exact nnchain_equivariant. Qed.
Print Assumptions C09_nnchain_equivariance_partial.

Theorem C09_primitive_equivariance_partial : forall (T1 T2 : Type) (g : T1 -> T2) (V : T1 -> Prop)
  (K1 : kops T1) (K2 : kops T2) (p : profile),
  (forall x y, V x -> V y -> k_ltb K2 (g x) (g y) = k_ltb K1 x y) ->
  (forall x y, V x -> V y -> k_eqb K2 (g x) (g y) = k_eqb K1 x y) ->
  V (k_max K1) /\ k_max K2 = g (k_max K1) ->
  V (k_inf K1) /\ k_inf K2 = g (k_inf K1) ->
  (forall a b md sa sb sx, V a -> V b -> V md ->
     V (k_upd K1 a b md sa sb sx) /\ k_upd K2 (g a) (g b) (g md) sa sb sx = g (k_upd K1 a b md sa sb sx)) ->
  (forall x, V x -> V (k_sq K1 x) /\ k_sq K2 (g x) = g (k_sq K1 x)) ->
  (forall x, V x -> V (k_rt K1 x) /\ k_rt K2 (g x) = g (k_rt K1 x)) ->
  forall (meth : method) (m : list T1) (n : N), Forall V m ->
  out_of (primitive_with K2 p meth (st_new T2) (d_new T2 0) (map g m) n)
  = map_out g (out_of (primitive_with K1 p meth (st_new T1) (d_new T1 0) m n)).
Proof. exact primitive_equivariant. Qed.
Print Assumptions C09_primitive_equivariance_partial.
