(* C05 - no inversions for single, complete, average, weighted and Ward. *)
Require Import KV.Model.Prelude KV.Model.UnionFind KV.Model.Dendrogram KV.Model.Methods
  KV.Model.State KV.Model.Linkage KV.Proofs.SortProofs KV.Proofs.Monotone.
From Coq Require Import Sorting.Sorted.

Set Implicit Arguments.

(* x <= y as the float comparison sees it (false when either is NaN) *)
Definition fle {T} (F : fops T) (x y : T) : Prop := le_t (kops_of F Single) x y.

Section C05.
Variable T : Type.
Variable F : fops T.
Variable p : profile.

Lemma le_t_any meth x y : le_t (kops_of F meth) x y <-> fle F x y.
Proof. unfold fle, le_t. destruct meth; cbn; tauto. Qed.

Lemma sorted_any meth l : Sorted (le_t (kops_of F meth)) l <-> Sorted (fle F) l.
Proof.
  split; induction 1 as [|x l Hs IH Hd]; constructor; try assumption;
    destruct Hd; constructor; apply (le_t_any meth); assumption.
Qed.

(* Every Ok result of every entry point (5 algorithms, `_with` on any state),
   for single / complete / average / weighted, every input whatsoever (ties,
   non-metric, any magnitude), any float type: consecutive step heights are
   <= in the float order, exactly - unconditional. *)
Lemma rt_id meth : on_squares meth = false ->
  forall x y, le_t (kops_of F meth) x y -> le_t (kops_of F meth) (k_rt (kops_of F meth) x) (k_rt (kops_of F meth) y).
Proof. intros H x y Hxy. cbn [kops_of k_rt]. rewrite H. exact Hxy. Qed.

Theorem C05_no_inversions_4 (a : algo) (meth : method) s d m n s' d' m' :
  meth = Single \/ meth = Complete \/ meth = Average \/ meth = Weighted ->
  run_with F p a meth s d m n = Ok (s', d', m') -> Sorted (fle F) (heights d').
Proof.
  intros Hm H.
  assert (Hs : requires_sorting meth = true) by (destruct Hm as [->|[->|[->| ->]]]; reflexivity).
  assert (Hq : on_squares meth = false) by (destruct Hm as [->|[->|[->| ->]]]; reflexivity).
  destruct a; cbn [run_with] in H.
  - unfold linkage_with in H. destruct Hm as [->|[->|[->| ->]]]; cbn [chain_capable] in H.
    + apply (sorted_any Single). exact (@mst_monotone T (kops_of F Single) p s d m n s' d' m' H).
    + apply (sorted_any Complete). exact (@nnchain_monotone T (kops_of F Complete) p (rt_id Hq) Complete s d m n s' d' m' Hs H).
    + apply (sorted_any Average). exact (@nnchain_monotone T (kops_of F Average) p (rt_id Hq) Average s d m n s' d' m' Hs H).
    + apply (sorted_any Weighted). exact (@nnchain_monotone T (kops_of F Weighted) p (rt_id Hq) Weighted s d m n s' d' m' Hs H).
  - apply (sorted_any Single). exact (@mst_monotone T (kops_of F Single) p s d m n s' d' m' H).
  - apply (sorted_any meth). exact (@nnchain_monotone T (kops_of F meth) p (rt_id Hq) meth s d m n s' d' m' Hs H).
  - apply (sorted_any meth). exact (@generic_monotone T (kops_of F meth) p (rt_id Hq) meth s d m n s' d' m' Hs H).
  - apply (sorted_any meth). exact (@primitive_monotone T (kops_of F meth) p (rt_id Hq) meth s d m n s' d' m' Hs H).
Qed.

(* Ward: same, provided sqrt is monotone on the (squared) heights that occur -
   true of a correctly rounded sqrt on values >= -0; stated as a hypothesis
   here (PARTIAL: that the raw Ward heights are >= -0 is not proved). *)
Theorem C05_no_inversions_ward_partial (a : algo) s d m n s' d' m' :
  (forall x y, fle F x y -> fle F (f_sqrt F x) (f_sqrt F y)) ->
  run_with F p a Ward s d m n = Ok (s', d', m') -> Sorted (fle F) (heights d').
Proof.
  intros Hsq H.
  assert (Hrt : forall x y, le_t (kops_of F Ward) x y -> le_t (kops_of F Ward) (k_rt (kops_of F Ward) x) (k_rt (kops_of F Ward) y)).
  { intros x y Hxy. cbn [kops_of k_rt on_squares]. apply (le_t_any Ward). apply Hsq. apply (le_t_any Ward). exact Hxy. }
  destruct a; cbn [run_with] in H.
  - unfold linkage_with in H. cbn [chain_capable] in H.
    apply (sorted_any Ward). exact (@nnchain_monotone T (kops_of F Ward) p Hrt Ward s d m n s' d' m' eq_refl H).
  - apply (sorted_any Single). exact (@mst_monotone T (kops_of F Single) p s d m n s' d' m' H).
  - apply (sorted_any Ward). exact (@nnchain_monotone T (kops_of F Ward) p Hrt Ward s d m n s' d' m' eq_refl H).
  - apply (sorted_any Ward). exact (@generic_monotone T (kops_of F Ward) p Hrt Ward s d m n s' d' m' eq_refl H).
  - apply (sorted_any Ward). exact (@primitive_monotone T (kops_of F Ward) p Hrt Ward s d m n s' d' m' eq_refl H).
Qed.

End C05.

Check C05_no_inversions_4 : forall (T : Type) (F : fops T) (p : profile) (a : algo) (meth : method)
  s d m n s' d' m',
  meth = Single \/ meth = Complete \/ meth = Average \/ meth = Weighted ->
  run_with F p a meth s d m n = Ok (s', d', m') -> Sorted (fle F) (heights d').
Print Assumptions C05_no_inversions_4.
Print Assumptions C05_no_inversions_ward_partial.

(* the sort is a permutation (no height is invented or lost) and centroid /
   median are emitted in merge order *)
Theorem C05_sort_is_permutation : forall (T : Type) (ltb eqb : T -> T -> bool) l l',
  (forall a b, pcmp ltb eqb a b = Some Gt -> pcmp ltb eqb b a = Some Lt) ->
  sort_steps ltb eqb l = Ok l' -> Sorted (le_step ltb eqb) l' /\ Permutation.Permutation l l'.
Proof. intros T ltb eqb l l' Hg. exact (@sort_steps_ok T ltb eqb Hg l l'). Qed.
Print Assumptions C05_sort_is_permutation.

Theorem C05_unsorted_methods_keep_order : forall (T : Type) (K : kops T) (u u' : ufind) (d d' : dend T),
  relabel (k_ltb K) (k_eqb K) u d false = Ok (u', d') -> heights d' = heights d.
Proof. exact unsorted_methods_keep_order. Qed.
Print Assumptions C05_unsorted_methods_keep_order.

(* ---- Ward on the two float carriers of the correspondence check.
   The correctly rounded IEEE square root preserves `<=` (as partial_cmp sees it)
   between any two values whose roots are not NaN (Proofs/FloatOrder.v: Bsqrt_le
   through Flocq's Bsqrt_correct). Hence: a dendrogram returned by ANY entry point
   with ANY of the five monotone methods has no inversion unless it contains a NaN
   height - and a NaN height can only be the root of a negative squared Ward height,
   which is C12's business (finite, non-negative outputs). No other hypothesis. ---- *)
Require Import KV.Run.F64 KV.Run.F32 KV.Proofs.FloatOrder KV.Model.Primitive KV.Model.Chain KV.Model.Generic KV.Model.Mst.
From Flocq Require Import IEEE754.BinarySingleNaN.

Theorem C05_sqrt_le_f64 : forall x y : PrimFloat.float,
  PrimFloat.is_nan (PrimFloat.sqrt x) = false -> PrimFloat.is_nan (PrimFloat.sqrt y) = false ->
  PrimFloat.ltb x y = true \/ PrimFloat.eqb x y = true ->
  PrimFloat.ltb (PrimFloat.sqrt x) (PrimFloat.sqrt y) = true
  \/ (PrimFloat.ltb (PrimFloat.sqrt x) (PrimFloat.sqrt y) = false /\ PrimFloat.eqb (PrimFloat.sqrt x) (PrimFloat.sqrt y) = true).
Proof. exact f64_sqrt_le. Qed.
Print Assumptions C05_sqrt_le_f64.

Section WardFloat.
Variable T : Type.
Variable F : fops T.
Variable p : profile.
Variable nan : T -> bool.
Hypothesis sqrt_le : forall x y, nan (f_sqrt F x) = false -> nan (f_sqrt F y) = false ->
  f_ltb F x y = true \/ f_eqb F x y = true ->
  f_ltb F (f_sqrt F x) (f_sqrt F y) = true \/ (f_ltb F (f_sqrt F x) (f_sqrt F y) = false /\ f_eqb F (f_sqrt F x) (f_sqrt F y) = true).

Lemma ward_rt_on : forall x y, nan (k_rt (kops_of F Ward) x) = false -> nan (k_rt (kops_of F Ward) y) = false ->
  le_t (kops_of F Ward) x y -> le_t (kops_of F Ward) (k_rt (kops_of F Ward) x) (k_rt (kops_of F Ward) y).
Proof.
  cbn [kops_of k_rt on_squares]. intros x y Nx Ny Hxy. unfold le_t, pcmp in *. cbn [kops_of k_ltb k_eqb] in *.
  assert (H : f_ltb F x y = true \/ f_eqb F x y = true).
  { destruct (f_ltb F x y); [left; reflexivity|]. destruct (f_eqb F x y); [right; reflexivity|].
    destruct (f_ltb F y x); destruct Hxy; discriminate. }
  destruct (sqrt_le x y Nx Ny H) as [E|[E1 E2]]; [rewrite E; left; reflexivity|rewrite E1, E2; right; reflexivity].
Qed.

Theorem no_inversions_ward_nan_free (a : algo) s d m n s' d' m' :
  run_with F p a Ward s d m n = Ok (s', d', m') ->
  Forall (fun h => nan h = false) (heights d') -> Sorted (fle F) (heights d').
Proof.
  intros H HP.
  destruct a; cbn [run_with] in H.
  - unfold linkage_with in H. cbn [chain_capable] in H.
    apply (sorted_any F Ward). exact (@nnchain_monotone_on T (kops_of F Ward) p _ ward_rt_on Ward s d m n s' d' m' eq_refl H HP).
  - apply (sorted_any F Single). exact (@mst_monotone T (kops_of F Single) p s d m n s' d' m' H).
  - apply (sorted_any F Ward). exact (@nnchain_monotone_on T (kops_of F Ward) p _ ward_rt_on Ward s d m n s' d' m' eq_refl H HP).
  - apply (sorted_any F Ward). exact (@generic_monotone_on T (kops_of F Ward) p _ ward_rt_on Ward s d m n s' d' m' eq_refl H HP).
  - apply (sorted_any F Ward). exact (@primitive_monotone_on T (kops_of F Ward) p _ ward_rt_on Ward s d m n s' d' m' eq_refl H HP).
Qed.
End WardFloat.

Theorem C05_no_inversions_5_f64 : forall (p : profile) (a : algo) (meth : method) s d m n s' d' m',
  meth = Single \/ meth = Complete \/ meth = Average \/ meth = Weighted \/ meth = Ward ->
  run_with F64 p a meth s d m n = Ok (s', d', m') ->
  Forall (fun h => PrimFloat.is_nan h = false) (heights d') -> Sorted (fle F64) (heights d').
Proof.
  intros p a meth s d m n s' d' m' [H|[H|[H|[H|H]]]] Hrun HP.
  - apply (@C05_no_inversions_4 _ F64 p a meth s d m n s' d' m'); [left; exact H|exact Hrun].
  - apply (@C05_no_inversions_4 _ F64 p a meth s d m n s' d' m'); [right; left; exact H|exact Hrun].
  - apply (@C05_no_inversions_4 _ F64 p a meth s d m n s' d' m'); [right; right; left; exact H|exact Hrun].
  - apply (@C05_no_inversions_4 _ F64 p a meth s d m n s' d' m'); [right; right; right; exact H|exact Hrun].
  - subst meth. exact (@no_inversions_ward_nan_free _ F64 p PrimFloat.is_nan f64_sqrt_le a s d m n s' d' m' Hrun HP).
Qed.
Print Assumptions C05_no_inversions_5_f64.

Theorem C05_no_inversions_5_f32 : forall (p : profile) (a : algo) (meth : method) s d m n s' d' m',
  meth = Single \/ meth = Complete \/ meth = Average \/ meth = Weighted \/ meth = Ward ->
  run_with F32 p a meth s d m n = Ok (s', d', m') ->
  Forall (fun h : f32 => is_nan h = false) (heights d') -> Sorted (fle F32) (heights d').
Proof.
  intros p a meth s d m n s' d' m' [H|[H|[H|[H|H]]]] Hrun HP.
  - apply (@C05_no_inversions_4 _ F32 p a meth s d m n s' d' m'); [left; exact H|exact Hrun].
  - apply (@C05_no_inversions_4 _ F32 p a meth s d m n s' d' m'); [right; left; exact H|exact Hrun].
  - apply (@C05_no_inversions_4 _ F32 p a meth s d m n s' d' m'); [right; right; left; exact H|exact Hrun].
  - apply (@C05_no_inversions_4 _ F32 p a meth s d m n s' d' m'); [right; right; right; exact H|exact Hrun].
  - subst meth. exact (@no_inversions_ward_nan_free _ F32 p (@is_nan 24 128) (@Bsqrt_le 24 128 eq_refl eq_refl) a s d m n s' d' m' Hrun HP).
Qed.
Print Assumptions C05_no_inversions_5_f32.
