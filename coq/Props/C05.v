(* C05 - no inversions for single, complete, average, weighted and Ward. *)
Require Import KV.Model.Prelude KV.Model.UnionFind KV.Model.Dendrogram KV.Model.Methods
  KV.Model.State KV.Model.Linkage KV.Proofs.SortProofs KV.Proofs.Monotone.
From Coq Require Import Sorting.Sorted.

Set Implicit Arguments.

(* x <= y as the float comparison sees it (false when either is NaN) *)
Definition fle {T} (F : fops T) (x y : T) : Prop := le_t (kops_of F Single) x y.

Section C05.
Variable T : Type.
Variable F : fops T.
Variable p : profile.

Lemma le_t_any meth x y : le_t (kops_of F meth) x y <-> fle F x y.
Proof. unfold fle, le_t. destruct meth; cbn; tauto. Qed.

Lemma sorted_any meth l : Sorted (le_t (kops_of F meth)) l <-> Sorted (fle F) l.
Proof.
  split; induction 1 as [|x l Hs IH Hd]; constructor; try assumption;
    destruct Hd; constructor; apply (le_t_any meth); assumption.
Qed.

(* Every Ok result of every entry point (5 algorithms, `_with` on any state),
   for single / complete / average / weighted, every input whatsoever (ties,
   non-metric, any magnitude), any float type: consecutive step heights are
   <= in the float order, exactly - unconditional. *)
Lemma rt_id meth : on_squares meth = false ->
  forall x y, le_t (kops_of F meth) x y -> le_t (kops_of F meth) (k_rt (kops_of F meth) x) (k_rt (kops_of F meth) y).
Proof. intros H x y Hxy. cbn [kops_of k_rt]. rewrite H. exact Hxy. Qed.

Theorem C05_no_inversions_4 (a : algo) (meth : method) s d m n s' d' m' :
  meth = Single \/ meth = Complete \/ meth = Average \/ meth = Weighted ->
  run_with F p a meth s d m n = Ok (s', d', m') -> Sorted (fle F) (heights d').
Proof.
  intros Hm H.
  assert (Hs : requires_sorting meth = true) by (destruct Hm as [->|[->|[->| ->]]]; reflexivity).
  assert (Hq : on_squares meth = false) by (destruct Hm as [->|[->|[->| ->]]]; reflexivity).
  destruct a; cbn [run_with] in H.
  - unfold linkage_with in H. destruct Hm as [->|[->|[->| ->]]]; cbn [chain_capable] in H.
    + apply (sorted_any Single). exact (@mst_monotone T (kops_of F Single) p s d m n s' d' m' H).
    + apply (sorted_any Complete). exact (@nnchain_monotone T (kops_of F Complete) p (rt_id Hq) Complete s d m n s' d' m' Hs H).
    + apply (sorted_any Average). exact (@nnchain_monotone T (kops_of F Average) p (rt_id Hq) Average s d m n s' d' m' Hs H).
    + apply (sorted_any Weighted). exact (@nnchain_monotone T (kops_of F Weighted) p (rt_id Hq) Weighted s d m n s' d' m' Hs H).
  - apply (sorted_any Single). exact (@mst_monotone T (kops_of F Single) p s d m n s' d' m' H).
  - apply (sorted_any meth). exact (@nnchain_monotone T (kops_of F meth) p (rt_id Hq) meth s d m n s' d' m' Hs H).
  - apply (sorted_any meth). exact (@generic_monotone T (kops_of F meth) p (rt_id Hq) meth s d m n s' d' m' Hs H).
  - apply (sorted_any meth). exact (@primitive_monotone T (kops_of F meth) p (rt_id Hq) meth s d m n s' d' m' Hs H).
Qed.

(* Ward: same, provided sqrt is monotone on the (squared) heights that occur -
   true of a correctly rounded sqrt on values >= -0; stated as a hypothesis
   here (PARTIAL: that the raw Ward heights are >= -0 is not proved). *)
Theorem C05_no_inversions_ward_partial (a : algo) s d m n s' d' m' :
  (forall x y, fle F x y -> fle F (f_sqrt F x) (f_sqrt F y)) ->
  run_with F p a Ward s d m n = Ok (s', d', m') -> Sorted (fle F) (heights d').
Proof.
  intros Hsq H.
  assert (Hrt : forall x y, le_t (kops_of F Ward) x y -> le_t (kops_of F Ward) (k_rt (kops_of F Ward) x) (k_rt (kops_of F Ward) y)).
  { intros x y Hxy. cbn [kops_of k_rt on_squares]. apply (le_t_any Ward). apply Hsq. apply (le_t_any Ward). exact Hxy. }
  destruct a; cbn [run_with] in H.
  - unfold linkage_with in H. cbn [chain_capable] in H.
    apply (sorted_any Ward). exact (@nnchain_monotone T (kops_of F Ward) p Hrt Ward s d m n s' d' m' eq_refl H).
  - apply (sorted_any Single). exact (@mst_monotone T (kops_of F Single) p s d m n s' d' m' H).
  - apply (sorted_any Ward). exact (@nnchain_monotone T (kops_of F Ward) p Hrt Ward s d m n s' d' m' eq_refl H).
  - apply (sorted_any Ward). exact (@generic_monotone T (kops_of F Ward) p Hrt Ward s d m n s' d' m' eq_refl H).
  - apply (sorted_any Ward). exact (@primitive_monotone T (kops_of F Ward) p Hrt Ward s d m n s' d' m' eq_refl H).
Qed.

End C05.

Check C05_no_inversions_4 : forall (T : Type) (F : fops T) (p : profile) (a : algo) (meth : method)
  s d m n s' d' m',
  meth = Single \/ meth = Complete \/ meth = Average \/ meth = Weighted ->
  run_with F p a meth s d m n = Ok (s', d', m') -> Sorted (fle F) (heights d').
Print Assumptions C05_no_inversions_4.
Print Assumptions C05_no_inversions_ward_partial.

(* the sort is a permutation (no height is invented or lost) and centroid /
   median are emitted in merge order *)
Theorem C05_sort_is_permutation : forall (T : Type) (ltb eqb : T -> T -> bool) l l',
  (forall a b, pcmp ltb eqb a b = Some Gt -> pcmp ltb eqb b a = Some Lt) ->
  sort_steps ltb eqb l = Ok l' -> Sorted (le_step ltb eqb) l' /\ Permutation.Permutation l l'.
Proof. intros T ltb eqb l l' Hg. exact (@sort_steps_ok T ltb eqb Hg l l'). Qed.
Print Assumptions C05_sort_is_permutation.

Theorem C05_unsorted_methods_keep_order : forall (T : Type) (K : kops T) (u u' : ufind) (d d' : dend T),
  relabel (k_ltb K) (k_eqb K) u d false = Ok (u', d') -> heights d' = heights d.
Proof. exact unsorted_methods_keep_order. Qed.
Print Assumptions C05_unsorted_methods_keep_order.
