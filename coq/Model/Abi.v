(* ABI facts of the C API, both headers, the Rust FFI definitions and the Go
   bindings (C17).  `model_abi` is what the model expects; the translator
   regenerates the same record from the four source files on every run
   (Gen/AbiFacts.v) and Coq checks the two coincide. *)
From Coq Require Import List String Ascii.
Import ListNotations.
Open Scope string_scope.

Record abi := {
  hdr_enum : list string;        (* enumerators of kodama_method, kodama-capi/include/kodama.h *)
  gohdr_enum : list string;      (* same, go-kodama/kodama.h *)
  rust_enum : list string;       (* variants of #[repr(C)] enum kodama_method *)
  rust_into : list (string * string);   (* kodama_method::X => Method::Y *)
  go_consts : list string;       (* iota block *)
  go_switch : list (string * string);   (* case MethodX: return C.kodama_method_y *)
  hdr_fields : list (string * string);  (* kodama_step: (type, name) *)
  gohdr_fields : list (string * string);
  rust_fields : list (string * string);
  go_conv : list (string * string);     (* Go field <- C field *)
  hdr_protos : list (string * list string * string);   (* name, argument types, return type *)
  gohdr_protos : list (string * list string * string);
  rust_protos : list (string * list string * string);
  go_len : string                (* expectedLen expression *)
}.

Definition variants : list string :=
  ["Single"; "Complete"; "Average"; "Weighted"; "Ward"; "Centroid"; "Median"].

Definition lower_ascii (c : ascii) : ascii :=
  let n := nat_of_ascii c in
  if andb (Nat.leb 65 n) (Nat.leb n 90) then ascii_of_nat (n + 32) else c.
Fixpoint lower (s : string) : string :=
  match s with EmptyString => EmptyString | String c t => String (lower_ascii c) (lower t) end.

Definition c_enumerator (v : string) : string := "kodama_method_" ++ lower v.
Definition go_const (v : string) : string := "Method" ++ v.

Definition step_fields : list (string * string) :=
  [("usize", "cluster1"); ("usize", "cluster2"); ("f64", "dissimilarity"); ("usize", "size")].

(* prototypes sorted by name (declaration order is not part of the ABI) *)
Definition protos (steps_ret : string) : list (string * list string * string) :=
  [("kodama_dendrogram_free", ["*mut dend"], "unit");
   ("kodama_dendrogram_len", ["*const dend"], "usize");
   ("kodama_dendrogram_observations", ["*const dend"], "usize");
   ("kodama_dendrogram_steps", ["*const dend"], steps_ret);
   ("kodama_linkage_double", ["*mut f64"; "usize"; "method"], "*mut dend");
   ("kodama_linkage_float", ["*mut f32"; "usize"; "method"], "*mut dend")].

Definition model_abi : abi := {|
  hdr_enum := map c_enumerator variants;
  gohdr_enum := map c_enumerator variants;
  rust_enum := variants;
  rust_into := map (fun v => (v, v)) variants;
  go_consts := map go_const variants;
  go_switch := map (fun v => (go_const v, c_enumerator v)) variants;
  hdr_fields := step_fields;
  gohdr_fields := step_fields;
  rust_fields := step_fields;
  go_conv := [("Cluster1", "cluster1"); ("Cluster2", "cluster2"); ("Dissimilarity", "dissimilarity"); ("Size", "size")];
  hdr_protos := protos "*mut step";
  gohdr_protos := protos "*mut step";
  (* the one known, ABI-neutral difference: Rust returns *const kodama_step *)
  rust_protos := protos "*const step";
  go_len := "(observations*(observations-1))/2"
|}.

(* pointer const-ness is not part of the C ABI *)
Definition strip_const (t : string) : string :=
  if String.eqb t "*const step" then "*mut step"
  else if String.eqb t "*const dend" then "*mut dend" else t.
Definition abi_neutral (p : string * list string * string) : string * list string * string :=
  let '(n, args, r) := p in (n, map strip_const args, strip_const r).
