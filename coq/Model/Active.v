(* Model of src/active.rs: linked list of live indices over two vectors. *)
Require Import KV.Model.Prelude.

Set Implicit Arguments.

Record active := { a_start : nat; a_prev : list nat; a_next : list nat }.

Definition a_new : active := {| a_start := 0; a_prev := []; a_next := [] |}.

(* for i in 0..len { v[i] = f i } on a vector already of length >= len *)
Definition overwrite {A} (f : nat -> A) (len : nat) (l : list A) : list A :=
  fold_left (fun acc i => set_nth acc i (f i)) (seq 0 len) l.

(* Active::reset: resize WITHOUT clear, then overwrite every cell. *)
Definition a_reset (a : active) (len : nat) : active :=
  {| a_start := 0;
     a_prev := overwrite (fun i => i) len (vresize (a_prev a) len 0);
     a_next := overwrite (fun i => i + 1) len (vresize (a_next a) len 0) |}.

Definition a_contains (a : active) (i : nat) : res bool :=
  do nx <- vget (a_next a) i; Ok (0 <? nx).

Definition a_remove (a : active) (i : nat) : res active :=
  do c <- a_contains a i;
  if negb c then Ok a
  else if i =? a_start a then
    do ni <- vget (a_next a) i;
    do nx <- vset (a_next a) i 0;
    Ok {| a_start := ni; a_prev := a_prev a; a_next := nx |}
  else
    do _ <- assert_ (a_start a <? i);
    do pi <- vget (a_prev a) (i - 1);
    do ni <- vget (a_next a) i;
    do pv <- vset (a_prev a) (ni - 1) pi;
    do nx1 <- vset (a_next a) pi ni;
    do nx2 <- vset nx1 i 0;
    Ok {| a_start := a_start a; a_prev := pv; a_next := nx2 |}.

(* ActiveRange iteration from cur up to (excluding) end_. *)
Fixpoint a_walk (fuel : nat) (next : list nat) (cur end_ : nat) : res (list nat) :=
  if (end_ <=? cur) || (length next <=? cur) then Ok []
  else match fuel with
       | O => OutOfFuel
       | S f =>
           do nx <- vget next cur;
           do rest <- a_walk f next nx end_;
           Ok (cur :: rest)
       end.

Definition a_iter (a : active) : res (list nat) :=
  a_walk (S (length (a_next a))) (a_next a) (a_start a) (length (a_next a)).

Inductive bound := Unb | Incl (i : nat) | Excl (i : nat).

(* while start < len && !contains(start) { start += 1 } *)
Fixpoint a_skip_dead (fuel : nat) (next : list nat) (start : nat) : res nat :=
  if length next <=? start then Ok start
  else match fuel with
       | O => OutOfFuel
       | S f =>
           do nx <- vget next start;
           if 0 <? nx then Ok start else a_skip_dead f next (S start)
       end.

Definition a_range (a : active) (lo hi : bound) : res (list nat) :=
  let len := length (a_next a) in
  let start0 := match lo with Unb => a_start a | Incl i => i | Excl i => i + 1 end in
  let end_ := match hi with Unb => len | Incl i => i + 1 | Excl i => i end in
  do _ <- assert_ (start0 <=? len);
  do _ <- assert_ (end_ <=? len);
  let start1 := if start0 <? a_start a then a_start a else start0 in
  do start2 <- a_skip_dead (S len) (a_next a) start1;
  a_walk (S len) (a_next a) start2 end_.

(* the three ranges every update loop uses *)
Definition a_below (a : active) (x : nat) := a_range a Unb (Excl x).       (* ..x *)
Definition a_between (a : active) (x y : nat) :=                          (* x..y skip 1 *)
  do l <- a_range a (Incl x) (Excl y); Ok (tl l).
Definition a_above (a : active) (x : nat) :=                              (* x.. skip 1 *)
  do l <- a_range a (Incl x) Unb; Ok (tl l).
