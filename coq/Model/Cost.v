(* Counting model for C14: mst_with and nnchain_with with a counter that is
   incremented exactly where the code calls matrix_to_condensed_idx (one per
   Index, one per IndexMut).  Same control flow as Model/Mst.v and
   Model/Chain.v; the counter is the only addition. *)
Require Import KV.Model.Prelude KV.Model.Condensed KV.Model.Active KV.Model.Heap
  KV.Model.UnionFind KV.Model.Dendrogram KV.Model.Methods KV.Model.State
  KV.Model.Mst KV.Model.Chain.

Set Implicit Arguments.

Section Cost.
Variable T : Type.
Variable K : kops T.
Variable p : profile.

(* ---- mst: one read per scanned observation ---------------------------- *)
Definition mst_iter_c (M : cmat T) (acc : lstate T * dend T * nat * N) (i : nat)
  : res (lstate T * dend T * nat * N) :=
  let '(s, d, cluster, cnt) := acc in
  do xs1 <- a_range (st_active s) Unb (Excl cluster);
  do xs2 <- a_range (st_active s) (Incl cluster) Unb;
  do '(s', d', c') <- mst_iter K p M (s, d, cluster) i;
  Ok (s', d', c', (cnt + N.of_nat (length xs1) + N.of_nat (length xs2))%N).

Definition mst_with_c (s : lstate T) (d : dend T) (m : list T) (n : N)
  : res (lstate T * dend T * list T * N) :=
  do M <- prologue p m n;
  let d0 := d_reset d (m_obs M) in
  if m_obs M =? 0 then Ok (s, d0, m, 0%N)
  else
    let s0 := st_reset K s (m_obs M) in
    do act <- a_remove (st_active s0) 0;
    let s0' := st_with_active s0 act in
    do '(s1, d1, _, cnt) <- mfold (mst_iter_c M) (seq 0 (m_obs M - 1)) (s0', d0, 0, 0%N);
    do '(u, d2) <- relabel (k_ltb K) (k_eqb K) (st_set s1) d1 true;
    Ok (st_with_set s1 u, d2, m, cnt).

(* ---- nnchain ----------------------------------------------------------- *)
(* `if dis[[r,c]] < min { min = dis[[r,c]]; .. }`: one access, two when taken *)
Definition nn_scan_c (M : cmat T) (r c : nat -> nat) (acc : T * nat * N) (x : nat)
  : res (T * nat * N) :=
  let '(mn, who, cnt) := acc in
  do v <- mget p M (r x) (c x);
  Ok (if k_ltb K v mn then (v, x, (cnt + 2)%N) else (mn, who, (cnt + 1)%N)).

Fixpoint chain_grow_c (fuel : nat) (s : lstate T) (M : cmat T)
  (chain : list nat) (a b : nat) (mn : T) (cnt : N) : res (list nat * nat * nat * T * N) :=
  match fuel with
  | O => OutOfFuel
  | S f =>
      let chain1 := chain ++ [b] in
      do xs1 <- a_below (st_active s) b;
      do acc1 <- mfold (nn_scan_c M (fun x => x) (fun _ => b)) xs1 (mn, a, cnt);
      do xs2 <- a_above (st_active s) b;
      do '(mn2, a2, cnt2) <- mfold (nn_scan_c M (fun _ => b) (fun x => x)) xs2 acc1;
      let b' := a2 in
      do a' <- vlast chain1 1;
      do prev <- vlast chain1 2;
      if b' =? prev then Ok (chain1, a', b', mn2, cnt2)
      else chain_grow_c f s M chain1 a' b' mn2 cnt2
  end.

Definition chain_start_c (s : lstate T) (M : cmat T) (cnt : N) : res (list nat * nat * nat * T * N) :=
  if length (st_chain s) <? 4 then
    do live <- a_iter (st_active s);
    do a <- opt_unwrap (hd_error live);
    do b <- opt_unwrap (nth_error live 1);
    do mn <- mget p M a b;
    do xs <- a_above (st_active s) b;
    do '(mn', b', c') <- mfold (nn_scan_c M (fun _ => a) (fun x => x)) xs (mn, b, (cnt + 1)%N);
    Ok ([a], a, b', mn', c')
  else
    let c1 := removelast (removelast (st_chain s)) in
    do b <- vlast c1 1;
    let c2 := removelast c1 in
    do a <- vlast c2 1;
    do mn <- (if a <? b then mget p M a b else mget p M b a);
    Ok (c2, a, b, mn, (cnt + 1)%N).

Definition chain_iter_c (meth : method) (acc : lstate T * dend T * cmat T * N) (_ : nat)
  : res (lstate T * dend T * cmat T * N) :=
  let '(s, d, M, cnt) := acc in
  do '(chain0, a0, b0, mn0, cnt0) <- chain_start_c s M cnt;
  do '(chain1, a1, b1, mn1, cnt1) <- chain_grow_c (chain_fuel M) s M chain0 a0 b0 mn0 cnt0;
  let '(a, b) := if b1 <? a1 then (b1, a1) else (a1, b1) in
  let s1 := st_with_chain s chain1 in
  do dist <- (if uses_size_x meth then mget p M a b else Ok mn1);
  let cnt2 := (if uses_size_x meth then cnt1 + 1 else cnt1)%N in
  do '(sa, sb) <- sizes_ab meth s1 a b;
  do xs1 <- a_below (st_active s1) a;
  do xs2 <- a_between (st_active s1) a b;
  do xs3 <- a_above (st_active s1) b;
  do M' <- update3 K p meth s1 M a b dist sa sb;
  do '(s2, d') <- st_merge s1 d a b mn1;
  Ok (s2, d', M', (cnt2 + 2 * N.of_nat (length xs1 + length xs2 + length xs3))%N).

Definition nnchain_with_c (meth : method) (s : lstate T) (d : dend T) (m : list T) (n : N)
  : res (lstate T * dend T * list T * N) :=
  let m1 := square_all K m in
  do M <- prologue p m1 n;
  let d0 := d_reset d (m_obs M) in
  if m_obs M =? 0 then Ok (s, d0, m1, 0%N)
  else
    let s0 := st_with_chain (st_reset K s (m_obs M)) [] in
    do '(s1, d1, M1, cnt) <- mfold (chain_iter_c meth) (seq 0 (m_obs M - 1)) (s0, d0, M, 0%N);
    do '(u, d2) <- relabel (k_ltb K) (k_eqb K) (st_set s1) d1 (requires_sorting meth);
    Ok (st_with_set s1 u, sqrt_all K d2, m_data M1, cnt).

End Cost.
