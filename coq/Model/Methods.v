(* Model of src/method.rs and src/float.rs: float operations and the seven
   Lance-Williams update formulas as expression trees. *)
Require Import KV.Model.Prelude.

Set Implicit Arguments.

Inductive method := Single | Complete | Average | Weighted | Ward | Centroid | Median.

Definition method_eqb (a b : method) : bool :=
  match a, b with
  | Single, Single | Complete, Complete | Average, Average | Weighted, Weighted
  | Ward, Ward | Centroid, Centroid | Median, Median => true
  | _, _ => false
  end.

(* The Float trait. *)
Record fops (T : Type) := {
  f_ltb : T -> T -> bool;
  f_eqb : T -> T -> bool;
  f_add : T -> T -> T;
  f_sub : T -> T -> T;
  f_mul : T -> T -> T;
  f_div : T -> T -> T;
  f_sqrt : T -> T;
  f_abs : T -> T;
  f_of_nat : nat -> T;      (* from_usize *)
  f_half : T;               (* from_float(0.5) *)
  f_quarter : T;            (* from_float(0.25) *)
  f_inf : T;                (* infinity() *)
  f_max : T                 (* max_value() *)
}.

(* Expression trees for the bodies of src/method.rs.  Variables: Va = the
   by-value argument `a`, Vb = the old `*b`, Vmd = merged_dist; Sa/Sb/Sx =
   T::from_usize(size_a/size_b/size_x). *)
Inductive fexp :=
| Va | Vb | Vmd | Sa | Sb | Sx | Half | Quarter
| Add (x y : fexp) | Sub (x y : fexp) | Mul (x y : fexp) | Div (x y : fexp)
| IfLt (c1 c2 t e : fexp).    (* if c1 < c2 { t } else { e } *)

Definition formula (m : method) : fexp :=
  match m with
  | Single => IfLt Va Vb Va Vb
  | Complete => IfLt Vb Va Va Vb          (* a > *b *)
  | Average => Div (Add (Mul Sa Va) (Mul Sb Vb)) (Add Sa Sb)
  | Weighted => Mul Half (Add Va Vb)
  | Ward => Div (Sub (Add (Mul (Add Sx Sa) Va) (Mul (Add Sx Sb) Vb)) (Mul Sx Vmd))
                (Add (Add Sa Sb) Sx)
  | Centroid => Sub (Div (Add (Mul Sa Va) (Mul Sb Vb)) (Add Sa Sb))
                    (Div (Mul (Mul Sa Sb) Vmd) (Mul (Add Sa Sb) (Add Sa Sb)))
  | Median => Sub (Mul Half (Add Va Vb)) (Mul Vmd Quarter)
  end.

Section Eval.
Variable T : Type.
Variable F : fops T.

Fixpoint feval (e : fexp) (a b md : T) (sa sb sx : nat) : T :=
  let ev e := feval e a b md sa sb sx in
  match e with
  | Va => a | Vb => b | Vmd => md
  | Sa => f_of_nat F sa | Sb => f_of_nat F sb | Sx => f_of_nat F sx
  | Half => f_half F | Quarter => f_quarter F
  | Add x y => f_add F (ev x) (ev y)
  | Sub x y => f_sub F (ev x) (ev y)
  | Mul x y => f_mul F (ev x) (ev y)
  | Div x y => f_div F (ev x) (ev y)
  | IfLt c1 c2 t e => if f_ltb F (ev c1) (ev c2) then ev t else ev e
  end.

Definition upd_of (m : method) (a b md : T) (sa sb sx : nat) : T :=
  feval (formula m) a b md sa sb sx.

End Eval.

(* Tables of src/lib.rs. *)
Definition requires_sorting (m : method) : bool :=
  match m with Centroid | Median => false | _ => true end.

Definition on_squares (m : method) : bool :=
  match m with Ward | Centroid | Median => true | _ => false end.

Definition chain_capable (m : method) : bool :=    (* into_method_chain is Some *)
  match m with Centroid | Median => false | _ => true end.

(* Which state the formula needs (only these are read by the code). *)
Definition uses_sizes_ab (m : method) : bool :=
  match m with Average | Ward | Centroid => true | _ => false end.
Definition uses_size_x (m : method) : bool :=
  match m with Ward => true | _ => false end.

(* What the algorithms need from the float type: comparisons, sentinels and
   the (already method-specialised) update; `k_sq`/`k_rt` are the square
   pre-pass and sqrt post-pass (identity unless on_squares). *)
Record kops (T : Type) := {
  k_ltb : T -> T -> bool;
  k_eqb : T -> T -> bool;
  k_max : T;
  k_inf : T;
  k_upd : T -> T -> T -> nat -> nat -> nat -> T;
  k_sq : T -> T;
  k_rt : T -> T
}.

Definition kops_of {T} (F : fops T) (m : method) : kops T :=
  {| k_ltb := f_ltb F; k_eqb := f_eqb F; k_max := f_max F; k_inf := f_inf F;
     k_upd := upd_of F m;
     k_sq := fun x => if on_squares m then f_mul F x x else x;
     k_rt := fun x => if on_squares m then f_sqrt F x else x |}.
