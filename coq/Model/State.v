(* Model of LinkageState (src/lib.rs): scratch vectors, reset, merge, and the
   three-range Lance-Williams update shared by primitive.rs and chain.rs. *)
Require Import KV.Model.Prelude KV.Model.Condensed KV.Model.Active KV.Model.Heap
  KV.Model.UnionFind KV.Model.Dendrogram KV.Model.Methods.

Set Implicit Arguments.

Record lstate (T : Type) := {
  st_sizes : list nat;
  st_active : active;
  st_min : list T;
  st_set : ufind;
  st_chain : list nat;
  st_queue : heap T;
  st_nearest : list nat }.

Section State.
Variable T : Type.
Variable K : kops T.
Variable p : profile.

Definition st_new : lstate T :=
  {| st_sizes := []; st_active := a_new; st_min := []; st_set := u_new;
     st_chain := []; st_queue := h_new T; st_nearest := [] |}.

(* clear() + resize(size, x) *)
Definition clear_resize {A} (l : list A) (size : nat) (x : A) : list A :=
  vresize (@nil A) size x.

Definition st_reset (s : lstate T) (size : nat) : lstate T :=
  {| st_sizes := clear_resize (st_sizes s) size 1;
     st_active := a_reset (st_active s) size;
     st_min := clear_resize (st_min s) size (k_inf K);
     st_set := u_reset (st_set s) size;
     st_chain := clear_resize (st_chain s) size 0;
     st_queue := h_reset (k_inf K) (st_queue s) size;
     st_nearest := clear_resize (st_nearest s) size 0 |}.

Definition st_with_sizes (s : lstate T) v := {| st_sizes := v; st_active := st_active s; st_min := st_min s; st_set := st_set s; st_chain := st_chain s; st_queue := st_queue s; st_nearest := st_nearest s |}.
Definition st_with_active (s : lstate T) v := {| st_sizes := st_sizes s; st_active := v; st_min := st_min s; st_set := st_set s; st_chain := st_chain s; st_queue := st_queue s; st_nearest := st_nearest s |}.
Definition st_with_min (s : lstate T) v := {| st_sizes := st_sizes s; st_active := st_active s; st_min := v; st_set := st_set s; st_chain := st_chain s; st_queue := st_queue s; st_nearest := st_nearest s |}.
Definition st_with_set (s : lstate T) v := {| st_sizes := st_sizes s; st_active := st_active s; st_min := st_min s; st_set := v; st_chain := st_chain s; st_queue := st_queue s; st_nearest := st_nearest s |}.
Definition st_with_chain (s : lstate T) v := {| st_sizes := st_sizes s; st_active := st_active s; st_min := st_min s; st_set := st_set s; st_chain := v; st_queue := st_queue s; st_nearest := st_nearest s |}.
Definition st_with_queue (s : lstate T) v := {| st_sizes := st_sizes s; st_active := st_active s; st_min := st_min s; st_set := st_set s; st_chain := st_chain s; st_queue := v; st_nearest := st_nearest s |}.
Definition st_with_nearest (s : lstate T) v := {| st_sizes := st_sizes s; st_active := st_active s; st_min := st_min s; st_set := st_set s; st_chain := st_chain s; st_queue := st_queue s; st_nearest := v |}.

(* LinkageState::merge *)
Definition st_merge (s : lstate T) (d : dend T) (c1 c2 : nat) (x : T)
  : res (lstate T * dend T) :=
  do s1 <- vget (st_sizes s) c1;
  do s2 <- vget (st_sizes s) c2;
  do sz <- vset (st_sizes s) c2 (s1 + s2);
  do act <- a_remove (st_active s) c1;
  do sz2 <- vget sz c2;
  do d' <- d_push d (step_new c1 c2 x sz2);
  Ok (st_with_active (st_with_sizes s sz) act, d').

(* One cell update: method::m(dis[[r1,c1]], &mut dis[[r2,c2]], ...) *)
Definition upd_cell (meth : method) (sizes : list nat) (M : cmat T)
  (r1 c1 r2 c2 x : nat) (dist : T) (sa sb : nat) : res (cmat T) :=
  do va <- mget p M r1 c1;
  do vb <- mget p M r2 c2;
  do sx <- (if uses_size_x meth then vget sizes x else Ok 0);
  mset p M r2 c2 (k_upd K va vb dist sa sb sx).

(* The three loops `..a`, `a..b` skip 1, `b..` skip 1 of primitive.rs/chain.rs *)
Definition update3 (meth : method) (s : lstate T) (M : cmat T) (a b : nat)
  (dist : T) (sa sb : nat) : res (cmat T) :=
  do xs1 <- a_below (st_active s) a;
  do M1 <- mfold (fun M x => upd_cell meth (st_sizes s) M x a x b x dist sa sb) xs1 M;
  do xs2 <- a_between (st_active s) a b;
  do M2 <- mfold (fun M x => upd_cell meth (st_sizes s) M a x x b x dist sa sb) xs2 M1;
  do xs3 <- a_above (st_active s) b;
  mfold (fun M x => upd_cell meth (st_sizes s) M a x b x x dist sa sb) xs3 M2.

(* sizes read up front by the methods that use them *)
Definition sizes_ab (meth : method) (s : lstate T) (a b : nat) : res (nat * nat) :=
  if uses_sizes_ab meth then
    do sa <- vget (st_sizes s) a; do sb <- vget (st_sizes s) b; Ok (sa, sb)
  else Ok (0, 0).

(* Method::square / Method::sqrt (k_sq / k_rt are the identity unless
   on_squares) *)
Definition square_all (m : list T) : list T := map (k_sq K) m.
Definition sqrt_all (d : dend T) : dend T :=
  {| d_steps := map (fun s => step_set_dis s (k_rt K (s_dis s))) (d_steps d);
     d_obs := d_obs d |}.

(* Entry prologue common to the four algorithms: shape check, reset. *)
Definition prologue (m : list T) (n : N) : res (cmat T) :=
  do o <- shape_check p n (N.of_nat (length m));
  do obs <- obs_to_nat o;
  Ok {| m_data := m; m_obs := obs |}.

End State.
