(* Model of src/chain.rs (nearest-neighbour chain). *)
Require Import KV.Model.Prelude KV.Model.Condensed KV.Model.Active KV.Model.Heap
  KV.Model.UnionFind KV.Model.Dendrogram KV.Model.Methods KV.Model.State.

Set Implicit Arguments.

Section Chain.
Variable T : Type.
Variable K : kops T.
Variable p : profile.

(* if dis[[r,c]] < min { min = dis[[r,c]]; who = x } *)
Definition nn_scan (M : cmat T) (r c : nat -> nat) (acc : T * nat) (x : nat)
  : res (T * nat) :=
  let '(mn, who) := acc in
  do v <- mget p M (r x) (c x);
  Ok (if k_ltb K v mn then (v, x) else (mn, who)).

Definition vlast (l : list nat) (back : nat) : res nat :=
  (* l[l.len() - back] *)
  vget l (length l - back).

(* the inner `loop { ... }`; returns (chain, a, b, min) at the break *)
Fixpoint chain_grow (fuel : nat) (s : lstate T) (M : cmat T)
  (chain : list nat) (a b : nat) (mn : T) : res (list nat * nat * nat * T) :=
  match fuel with
  | O => OutOfFuel
  | S f =>
      let chain1 := chain ++ [b] in
      do xs1 <- a_below (st_active s) b;
      do acc1 <- mfold (nn_scan M (fun x => x) (fun _ => b)) xs1 (mn, a);
      do xs2 <- a_above (st_active s) b;
      do '(mn2, a2) <- mfold (nn_scan M (fun _ => b) (fun x => x)) xs2 acc1;
      let b' := a2 in
      do a' <- vlast chain1 1;
      do prev <- vlast chain1 2;
      if b' =? prev then Ok (chain1, a', b', mn2)
      else chain_grow f s M chain1 a' b' mn2
  end.

Definition chain_fuel (M : cmat T) : nat := length (m_data M) + 2.

(* start of an iteration: a fresh chain [a] with a nearest neighbour b of the
   first live cluster a, or the kept chain with its top three popped *)
Definition chain_start (s : lstate T) (M : cmat T) : res (list nat * nat * nat * T) :=
  if length (st_chain s) <? 4 then
    do live <- a_iter (st_active s);
    do a <- opt_unwrap (hd_error live);
    do b <- opt_unwrap (nth_error live 1);
    do mn <- mget p M a b;
    do xs <- a_above (st_active s) b;
    do '(mn', b') <- mfold (nn_scan M (fun _ => a) (fun x => x)) xs (mn, b);
    Ok ([a], a, b', mn')
  else
    let c1 := removelast (removelast (st_chain s)) in
    do b <- vlast c1 1;
    let c2 := removelast c1 in
    do a <- vlast c2 1;
    do mn <- (if a <? b then mget p M a b else mget p M b a);
    Ok (c2, a, b, mn).

Definition chain_iter (meth : method) (acc : lstate T * dend T * cmat T) (_ : nat)
  : res (lstate T * dend T * cmat T) :=
  let '(s, d, M) := acc in
  do '(chain0, a0, b0, mn0) <- chain_start s M;
  do '(chain1, a1, b1, mn1) <- chain_grow (chain_fuel M) s M chain0 a0 b0 mn0;
  let '(a, b) := if b1 <? a1 then (b1, a1) else (a1, b1) in
  let s1 := st_with_chain s chain1 in
  do dist <- (if uses_size_x meth then mget p M a b else Ok mn1);  (* ward: let dist = dis[[a,b]] *)
  do '(sa, sb) <- sizes_ab meth s1 a b;
  do M' <- update3 K p meth s1 M a b dist sa sb;
  do '(s2, d') <- st_merge s1 d a b mn1;
  Ok (s2, d', M').

Definition nnchain_with (meth : method) (s : lstate T) (d : dend T) (m : list T) (n : N)
  : res (lstate T * dend T * list T) :=
  let m1 := square_all K m in
  do M <- prologue p m1 n;
  let d0 := d_reset d (m_obs M) in
  if m_obs M =? 0 then Ok (s, d0, m1)
  else
    let s0 := st_with_chain (st_reset K s (m_obs M)) [] in
    do '(s1, d1, M1) <- mfold (chain_iter meth) (seq 0 (m_obs M - 1)) (s0, d0, M);
    do '(u, d2) <- relabel (k_ltb K) (k_eqb K) (st_set s1) d1 (requires_sorting meth);
    Ok (st_with_set s1 u, sqrt_all K d2, m_data M1).

End Chain.
