(* Model of src/queue.rs: binary min-heap of observations keyed by priority. *)
Require Import KV.Model.Prelude KV.Model.Active.

Set Implicit Arguments.

Section Heap.
Variable T : Type.
Variable ltb : T -> T -> bool.   (* a < b *)
Variable maxv : T.               (* T::max_value() *)

Record heap := {
  h_heap : list nat;      (* heap[k] = observation at position k *)
  h_obs : list nat;       (* observations[o] = position of o in heap *)
  h_prio : list T;
  h_removed : list bool }.

Definition h_new : heap :=
  {| h_heap := []; h_obs := []; h_prio := []; h_removed := [] |}.

(* LinkageHeap::reset: four resizes WITHOUT clear, then overwrite. *)
Definition h_reset (h : heap) (len : nat) : heap :=
  {| h_heap := overwrite (fun i => i) len (vresize (h_heap h) len 0);
     h_obs := overwrite (fun i => i) len (vresize (h_obs h) len 0);
     h_prio := overwrite (fun _ => maxv) len (vresize (h_prio h) len maxv);
     h_removed := overwrite (fun _ => false) len (vresize (h_removed h) len false) |}.

(* fn swap(&mut self, o1, o2) *)
Definition h_swap (h : heap) (o1 o2 : nat) : res heap :=
  do p1 <- vget (h_obs h) o1;
  do p2 <- vget (h_obs h) o2;
  (* self.heap.swap(p1, p2) *)
  do x1 <- vget (h_heap h) p1;
  do x2 <- vget (h_heap h) p2;
  let hp := set_nth (set_nth (h_heap h) p1 x2) p2 x1 in
  (* self.observations.swap(o1, o2) *)
  let ob := set_nth (set_nth (h_obs h) o1 p2) o2 p1 in
  Ok {| h_heap := hp; h_obs := ob; h_prio := h_prio h; h_removed := h_removed h |}.

Definition h_parent (h : heap) (o : nat) : res (option nat) :=
  do p <- vget (h_obs h) o;
  if p =? 0 then Ok None
  else do x <- vget (h_heap h) ((p - 1) / 2); Ok (Some x).

Fixpoint h_sift_up (fuel : nat) (h : heap) (o : nat) : res heap :=
  match fuel with
  | O => OutOfFuel
  | S f =>
      do po <- h_parent h o;
      match po with
      | None => Ok h
      | Some po =>
          do ppo <- vget (h_prio h) po;
          do pro <- vget (h_prio h) o;
          if ltb ppo pro then Ok h
          else do h' <- h_swap h o po; h_sift_up f h' o
      end
  end.

Fixpoint h_sift_down (fuel : nat) (h : heap) (o : nat) : res heap :=
  match fuel with
  | O => OutOfFuel
  | S f =>
      do i <- vget (h_obs h) o;
      let left := nth_error (h_heap h) (2 * i + 1) in
      let right := nth_error (h_heap h) (2 * i + 2) in
      do child1 <-
        match left with
        | Some l =>
            do pl <- vget (h_prio h) l;
            do pc <- vget (h_prio h) o;
            Ok (if ltb pl pc then l else o)
        | None => Ok o
        end;
      do child2 <-
        match right with
        | Some r =>
            do pr <- vget (h_prio h) r;
            do pc <- vget (h_prio h) child1;
            Ok (if ltb pr pc then r else child1)
        | None => Ok child1
        end;
      if o =? child2 then Ok h
      else do h' <- h_swap h o child2; h_sift_down f h' o
  end.

Definition h_fuel (h : heap) : nat := S (length (h_heap h)).

Definition h_peek (h : heap) : option nat := nth_error (h_heap h) 0.

Definition h_pop (h : heap) : res (option nat * heap) :=
  match h_heap h with
  | [] => Ok (None, h)
  | _ =>
      do h1 <-
        (if 2 <=? length (h_heap h) then
           do first <- vget (h_heap h) 0;
           do last <- vget (h_heap h) (length (h_heap h) - 1);
           h_swap h first last
         else Ok h);
      do last <- vget (h_heap h1) (length (h_heap h1) - 1);
      let hp := removelast (h_heap h1) in
      do rm <- vset (h_removed h1) last true;
      let h2 := {| h_heap := hp; h_obs := h_obs h1; h_prio := h_prio h1;
                   h_removed := rm |} in
      do h3 <-
        (if 2 <=? length hp then
           do first <- vget hp 0; h_sift_down (h_fuel h2) h2 first
         else Ok h2);
      Ok (Some last, h3)
  end.

Definition h_priority (h : heap) (o : nat) : res T :=
  do r <- vget (h_removed h) o;
  do _ <- assert_ (negb r);
  vget (h_prio h) o.

Definition h_set_priority (h : heap) (o : nat) (p : T) : res heap :=
  do r <- vget (h_removed h) o;
  do _ <- assert_ (negb r);
  do old <- vget (h_prio h) o;
  do pr <- vset (h_prio h) o p;
  let h1 := {| h_heap := h_heap h; h_obs := h_obs h; h_prio := pr;
               h_removed := h_removed h |} in
  if ltb p old then h_sift_up (h_fuel h1) h1 o
  else if ltb old p then h_sift_down (h_fuel h1) h1 o
  else Ok h1.

(* heapify: len := priorities.len(); reset(len); f(&mut priorities);
   for i in (0..len/2).rev() { sift_down(heap[i]) }.
   Split in two so that the caller's closure (which in generic.rs also
   writes `nearest`) can run in between. *)
Definition h_heapify_pre (h : heap) : heap := h_reset h (length (h_prio h)).

Definition h_heapify_post (h0 : heap) (pr : list T) : res heap :=
  let len := length (h_prio h0) in   (* `len` was read before the closure ran *)
  let h1 := {| h_heap := h_heap h0; h_obs := h_obs h0; h_prio := pr;
               h_removed := h_removed h0 |} in
  mfold (fun hh i => do o <- vget (h_heap hh) i; h_sift_down (h_fuel hh) hh o)
        (rev (seq 0 (len / 2))) h1.

Definition h_heapify (h : heap) (f : list T -> res (list T)) : res heap :=
  let h0 := h_heapify_pre h in
  do pr <- f (h_prio h0);
  h_heapify_post h0 pr.

End Heap.
