(* Operation sequences on the public Dendrogram API (two registers so that
   eq_with_epsilon can be exercised). *)
Require Import KV.Model.Prelude KV.Model.Dendrogram.

Set Implicit Arguments.

Section DendOps.
Variable T : Type.
Variables (eqb ltb : T -> T -> bool) (sub : T -> T -> T) (abs : T -> T).

Inductive dop :=
| ONew (r : bool) (n : nat)
| OReset (r : bool) (n : nat)
| OPush (r : bool) (c1 c2 : nat) (x : T) (size : nat)      (* push(Step::new(..)) *)
| OGet (r : bool) (i : nat)                                (* dend[i] *)
| OSetClusters (r : bool) (i c1 c2 : nat)                  (* dend[i].set_clusters(..) *)
| OSetDis (r : bool) (i : nat) (x : T)                     (* dend[i].dissimilarity = x *)
| OClusterSize (r : bool) (label : nat)
| OLen (r : bool)
| OObs (r : bool)
| OEqEps (eps : T).                                        (* reg0.eq_with_epsilon(reg1, eps) *)

Inductive dout :=
| DUnit | DPanic (k : panic_kind) | DStep (s : step T) | DNat (n : nat) | DBool (b : bool).

Definition dstate : Type := dend T * dend T.

Definition reg (st : dstate) (r : bool) : dend T := if r then snd st else fst st.
Definition set_reg (st : dstate) (r : bool) (d : dend T) : dstate :=
  if r then (fst st, d) else (d, snd st).

Definition of_res {A} (st : dstate) (x : res A) (k : A -> dstate * dout) : dstate * dout :=
  match x with
  | Ok a => k a
  | Panic pk => (st, DPanic pk)
  | OutOfFuel => (st, DPanic PIndex)
  end.

Definition dstep (st : dstate) (o : dop) : dstate * dout :=
  match o with
  | ONew r n => (set_reg st r (d_new T n), DUnit)
  | OReset r n => (set_reg st r (d_reset (reg st r) n), DUnit)
  | OPush r c1 c2 x size =>
      of_res st (d_push (reg st r) (step_new c1 c2 x size)) (fun d => (set_reg st r d, DUnit))
  | OGet r i => of_res st (d_get (reg st r) i) (fun s => (st, DStep s))
  | OSetClusters r i c1 c2 =>
      of_res st (do s <- d_get (reg st r) i; d_set (reg st r) i (step_set_clusters s c1 c2))
             (fun d => (set_reg st r d, DUnit))
  | OSetDis r i x =>
      of_res st (do s <- d_get (reg st r) i; d_set (reg st r) i (step_set_dis s x))
             (fun d => (set_reg st r d, DUnit))
  | OClusterSize r label => of_res st (d_cluster_size (reg st r) label) (fun n => (st, DNat n))
  | OLen r => (st, DNat (d_len (reg st r)))
  | OObs r => (st, DNat (d_obs (reg st r)))
  | OEqEps eps => (st, DBool (d_eq_eps eqb ltb sub abs (fst st) (snd st) eps))
  end.

Definition drun (ops : list dop) : dstate * list dout :=
  fold_left (fun acc o => let '(st, outs) := acc in
                          let '(st', out) := dstep st o in (st', outs ++ [out]))
            ops ((d_new T 0, d_new T 0), []).

End DendOps.
