(* Model of src/primitive.rs. *)
Require Import KV.Model.Prelude KV.Model.Condensed KV.Model.Active KV.Model.Heap
  KV.Model.UnionFind KV.Model.Dendrogram KV.Model.Methods KV.Model.State.

Set Implicit Arguments.

Section Primitive.
Variable T : Type.
Variable K : kops T.
Variable p : profile.

Definition argmin_col (M : cmat T) (row : nat) (mn : nat * nat * T) (col : nat)
  : res (nat * nat * T) :=
  do v <- mget p M row col;
  Ok (if k_ltb K v (snd mn) then (row, col, v) else mn).

Definition argmin_row (M : cmat T) (act : active) (mn : nat * nat * T) (row : nat)
  : res (nat * nat * T) :=
  do cols <- a_above act row;
  mfold (argmin_col M row) cols mn.

Definition argmin (M : cmat T) (act : active) : res (option (nat * nat * T)) :=
  do rows <- a_iter act;
  match rows with
  | [] => Ok None
  | row :: _ =>
      do cols <- a_above act row;
      match cols with
      | [] => Ok None
      | col :: _ =>
          do v <- mget p M row col;
          do mn <- mfold (argmin_row M act) rows (row, col, v);
          Ok (Some mn)
      end
  end.

Definition prim_iter (meth : method) (acc : lstate T * dend T * cmat T) (_ : nat)
  : res (lstate T * dend T * cmat T) :=
  let '(s, d, M) := acc in
  do om <- argmin M (st_active s);
  do '(a, b, dist) <- opt_unwrap om;
  do sa <- vget (st_sizes s) a;
  do sb <- vget (st_sizes s) b;
  do M' <- update3 K p meth s M a b dist sa sb;
  do '(s', d') <- st_merge s d a b dist;
  Ok (s', d', M').

Definition primitive_with (meth : method) (s : lstate T) (d : dend T) (m : list T) (n : N)
  : res (lstate T * dend T * list T) :=
  let m1 := square_all K m in
  do M <- prologue p m1 n;
  let d0 := d_reset d (m_obs M) in
  if m_obs M =? 0 then Ok (s, d0, m1)
  else
    let s0 := st_reset K s (m_obs M) in
    do '(s1, d1, M1) <- mfold (prim_iter meth) (seq 0 (m_obs M - 1)) (s0, d0, M);
    do '(u, d2) <- relabel (k_ltb K) (k_eqb K) (st_set s1) d1 (requires_sorting meth);
    Ok (st_with_set s1 u, sqrt_all K d2, m_data M1).

End Primitive.
