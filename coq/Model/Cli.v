(* Model of the logic of kodama-bin/src/locations.rs: pair enumeration of the
   parallel matrix construction, the little-endian f64 file codec, method-name
   parsing and exit status.  Haversine (libm), CSV parsing and rayon are not
   modelled. *)
Require Import KV.Model.Prelude KV.Model.Methods.
From Coq Require Import String.

(* (0..n).flat_map(|i| ((i + 1)..n).map(move |j| (i, j))) *)
Definition cli_pairs (n : nat) : list (nat * nat) :=
  flat_map (fun i => map (fun j => (i, j)) (seq (i + 1) (n - (i + 1)))) (seq 0 n).

(* byteorder LittleEndian::write_f64_into / read_f64_into on the 64-bit
   patterns of the floats; bytes are numbers below 256 *)
Local Open Scope N_scope.

Fixpoint le_bytes (k : nat) (w : N) : list N :=
  match k with O => [] | S k' => (w mod 256) :: le_bytes k' (w / 256) end.

Fixpoint le_value (bs : list N) : N :=
  match bs with [] => 0 | b :: t => b + 256 * le_value t end.

Definition encode_le (ws : list N) : list N := flat_map (le_bytes 8) ws.

(* vec_f64_from_file: `len % 8 != 0` is an error, otherwise len/8 numbers *)
Fixpoint decode_chunks (fuel : nat) (bs : list N) : list N :=
  match fuel with
  | O => []
  | S f => match bs with
           | [] => []
           | _ => le_value (firstn 8 bs) :: decode_chunks f (skipn 8 bs)
           end
  end.

Definition decode_le (bs : list N) : option (list N) :=
  if (N.of_nat (List.length bs) mod 8 =? 0) then Some (decode_chunks (List.length bs) bs) else None.

Local Close Scope N_scope.

(* impl FromStr for Method *)
Local Open Scope string_scope.
Definition method_names : list (string * method) :=
  [("single", Single); ("complete", Complete); ("average", Average); ("weighted", Weighted);
   ("centroid", Centroid); ("median", Median); ("ward", Ward)].

Fixpoint assoc_str {A} (l : list (string * A)) (s : string) : option A :=
  match l with
  | [] => None
  | (k, v) :: t => if String.eqb s k then Some v else assoc_str t s
  end.

Definition parse_method (s : string) : option method := assoc_str method_names s.

(* impl FromStr for MethodChain *)
Definition chain_names : list (string * method) :=
  [("single", Single); ("complete", Complete); ("average", Average); ("weighted", Weighted); ("ward", Ward)].
Definition parse_method_chain (s : string) : option method := assoc_str chain_names s.

(* run(): `--method` absent => Single; an unknown name is an error, and main()
   exits with status 1 on any error *)
Definition cli_method (arg : option string) : option method :=
  match arg with None => Some Single | Some s => parse_method s end.
Definition exit_status (arg : option string) : nat :=
  match cli_method arg with Some _ => 0 | None => 1 end.
