(* Allocation model (C20): capacities of every Vec of LinkageState and of
   Dendrogram.steps, following RawVec's growth policy
   (grow_amortized: max(2*cap, needed, MIN_NON_ZERO_CAP)) and the stable sort's
   scratch policy (heap buffer of max(len - len/2, min(len, 8MB/size), 48)
   elements iff that exceeds the 4 KiB stack buffer).  The policy is std's and
   therefore MODELLED; the counting allocator of the harness must reproduce
   the predicted allocation sizes exactly on every run. *)
Require Import KV.Model.Prelude KV.Model.Methods KV.Model.Linkage.

Local Open Scope N_scope.

Record caps := {
  c_sizes : N; c_prev : N; c_next : N; c_min : N; c_parents : N; c_chain : N;
  c_heap : N; c_obsv : N; c_prio : N; c_removed : N; c_nearest : N; c_steps : N }.

Definition caps0 : caps :=
  {| c_sizes := 0; c_prev := 0; c_next := 0; c_min := 0; c_parents := 0; c_chain := 0;
     c_heap := 0; c_obsv := 0; c_prio := 0; c_removed := 0; c_nearest := 0; c_steps := 0 |}.

Definition min_cap (elem : N) : N := if elem =? 1 then 8 else if elem <=? 1024 then 4 else 1.

(* Vec::reserve up to `need` elements in total: new capacity and the bytes
   requested from the allocator (alloc or realloc), if any *)
Definition grow (cap need elem : N) : N * list N :=
  if need <=? cap then (cap, [])
  else let c := N.max (N.max (2 * cap) need) (min_cap elem) in (c, [c * elem]).

Definition step_bytes : N := 32.       (* size_of::<Step<f32>>() = size_of::<Step<f64>>() *)

(* n-1 single pushes into a cleared vector of capacity cap *)
Fixpoint push_many (k : nat) (len cap : N) : N * list N :=
  match k with
  | O => (cap, [])
  | S k' =>
      let '(cap1, a1) := grow cap (len + 1) step_bytes in
      let '(cap2, a2) := push_many k' (len + 1) cap1 in
      (cap2, a1 ++ a2)
  end.

Definition sort_scratch (sorts : bool) (len : N) : list N :=
  if sorts then
    let alloc_len := N.max (N.max (len - len / 2) (N.min len (8000000 / step_bytes))) 48 in
    if alloc_len <=? 4096 / step_bytes then [] else [alloc_len * step_bytes]
  else [].

Definition usize_b : N := 8.

(* one `_with` call for n observations (after a successful shape check);
   szT = size_of::<T>(); returns new capacities and the allocation requests in
   program order *)
Definition with_call (c : caps) (n szT : N) (sorts : bool) : caps * list N :=
  if n <=? 1 then (c, [])     (* empty matrix: steps.clear() only *)
  else
    let '(sizes, a1) := grow (c_sizes c) n usize_b in
    let '(prev, a2) := grow (c_prev c) n usize_b in
    let '(next, a3) := grow (c_next c) n usize_b in
    let '(mind, a4) := grow (c_min c) n szT in
    let '(parents, a5) := grow (c_parents c) (2 * n - 1) usize_b in
    let '(chain, a6) := grow (c_chain c) n usize_b in
    let '(heap, a7) := grow (c_heap c) n usize_b in
    let '(obsv, a8) := grow (c_obsv c) n usize_b in
    let '(prio, a9) := grow (c_prio c) n szT in
    let '(removed, a10) := grow (c_removed c) n 1 in
    let '(nearest, a11) := grow (c_nearest c) n usize_b in
    let '(steps, a12) := push_many (N.to_nat (n - 1)) 0 (c_steps c) in
    ({| c_sizes := sizes; c_prev := prev; c_next := next; c_min := mind; c_parents := parents;
        c_chain := chain; c_heap := heap; c_obsv := obsv; c_prio := prio; c_removed := removed;
        c_nearest := nearest; c_steps := steps |},
     a1 ++ a2 ++ a3 ++ a4 ++ a5 ++ a6 ++ a7 ++ a8 ++ a9 ++ a10 ++ a11 ++ a12
        ++ sort_scratch sorts (n - 1)).

(* the allocating wrapper: LinkageState::new() allocates nothing,
   Dendrogram::new(n) reserves n steps *)
Definition cold_call (n szT : N) (sorts : bool) : list N :=
  let pre := if n =? 0 then [] else [n * step_bytes] in
  pre ++ snd (with_call {| c_sizes := 0; c_prev := 0; c_next := 0; c_min := 0; c_parents := 0;
                          c_chain := 0; c_heap := 0; c_obsv := 0; c_prio := 0; c_removed := 0;
                          c_nearest := 0; c_steps := n |} n szT sorts).

Definition total (l : list N) : N := fold_right N.add 0 l.

(* live bytes held by the scratch state and the dendrogram *)
Definition held (c : caps) (szT : N) : N :=
  usize_b * (c_sizes c + c_prev c + c_next c + c_parents c + c_chain c + c_heap c + c_obsv c + c_nearest c)
  + szT * (c_min c + c_prio c) + c_removed c + step_bytes * c_steps c.

(* what a call for n observations needs *)
Definition enough (c : caps) (n : N) : Prop :=
  n <= c_sizes c /\ n <= c_prev c /\ n <= c_next c /\ n <= c_min c /\ 2 * n - 1 <= c_parents c
  /\ n <= c_chain c /\ n <= c_heap c /\ n <= c_obsv c /\ n <= c_prio c /\ n <= c_removed c
  /\ n <= c_nearest c /\ n - 1 <= c_steps c.
