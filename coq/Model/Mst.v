(* Model of src/spanning.rs. *)
Require Import KV.Model.Prelude KV.Model.Condensed KV.Model.Active KV.Model.Heap
  KV.Model.UnionFind KV.Model.Dendrogram KV.Model.Methods KV.Model.State.

Set Implicit Arguments.

Section Mst.
Variable T : Type.
Variable K : kops T.
Variable p : profile.

(* let slot = &mut min_dists[x]; method::single(dis[..], slot);
   if *slot < min_dist { min_obs = x; min_dist = *slot } *)
Definition mst_scan (M : cmat T) (r c : nat -> nat) (acc : list T * nat * T) (x : nat)
  : res (list T * nat * T) :=
  let '(mins, min_obs, min_dist) := acc in
  do slot <- vget mins x;
  do v <- mget p M (r x) (c x);
  let slot' := if k_ltb K v slot then v else slot in
  let mins' := set_nth mins x slot' in
  Ok (if k_ltb K slot' min_dist then (mins', x, slot') else (mins', min_obs, min_dist)).

Definition mst_iter (M : cmat T) (acc : lstate T * dend T * nat) (_ : nat)
  : res (lstate T * dend T * nat) :=
  let '(s, d, cluster) := acc in
  do live <- a_iter (st_active s);
  do min_obs <- opt_unwrap (hd_error live);
  do min_dist <- vget (st_min s) min_obs;
  do xs1 <- a_range (st_active s) Unb (Excl cluster);
  do acc1 <- mfold (mst_scan M (fun x => x) (fun _ => cluster)) xs1 (st_min s, min_obs, min_dist);
  do xs2 <- a_range (st_active s) (Incl cluster) Unb;
  do '(mins, min_obs2, min_dist2) <- mfold (mst_scan M (fun _ => cluster) (fun x => x)) xs2 acc1;
  do '(s', d') <- st_merge (st_with_min s mins) d min_obs2 cluster min_dist2;
  Ok (s', d', min_obs2).

Definition mst_with (s : lstate T) (d : dend T) (m : list T) (n : N)
  : res (lstate T * dend T * list T) :=
  do M <- prologue p m n;
  let d0 := d_reset d (m_obs M) in
  if m_obs M =? 0 then Ok (s, d0, m)
  else
    let s0 := st_reset K s (m_obs M) in
    do act <- a_remove (st_active s0) 0;
    let s0' := st_with_active s0 act in
    do '(s1, d1, _) <- mfold (mst_iter M) (seq 0 (m_obs M - 1)) (s0', d0, 0);
    do '(u, d2) <- relabel (k_ltb K) (k_eqb K) (st_set s1) d1 true;
    Ok (st_with_set s1 u, d2, m).

End Mst.
