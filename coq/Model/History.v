(* Reuse histories of `_with` calls sharing one LinkageState and Dendrogram. *)
Require Import KV.Model.Prelude KV.Model.Condensed KV.Model.Active KV.Model.Heap
  KV.Model.UnionFind KV.Model.Dendrogram KV.Model.Methods KV.Model.State KV.Model.Linkage.

Set Implicit Arguments.

Section History.
Variable T : Type.
Variable F : fops T.
Variable p : profile.

(* what the caller observes of a call: panic, or dendrogram + matrix after *)
Definition out_of (r : res (lstate T * dend T * list T)) : res (dend T * list T) :=
  match r with
  | Ok (_, d, m) => Ok (d, m)
  | Panic k => Panic k
  | OutOfFuel => OutOfFuel
  end.

Definition call : Type := algo * method * N * list T.

Definition run_call (c : call) (s : lstate T) (d : dend T) :=
  let '(a, me, n, m) := c in run_with F p a me s d m n.

(* A panicking call leaves the model's objects as they were; the real objects
   are then in an arbitrary state, which `with_pure` shows is irrelevant. *)
Definition hist_step (acc : lstate T * dend T * list (res (dend T * list T))) (c : call) :=
  let '(s, d, outs) := acc in
  let r := run_call c s d in
  match r with
  | Ok (s', d', _) => (s', d', outs ++ [out_of r])
  | _ => (s, d, outs ++ [out_of r])
  end.

Definition run_history (calls : list call) (s0 : lstate T) (d0 : dend T) :=
  fold_left hist_step calls (s0, d0, []).

Definition history_outputs (calls : list call) (s0 : lstate T) (d0 : dend T) :=
  snd (run_history calls s0 d0).

End History.
