(* Model of src/dendrogram.rs. *)
Require Import KV.Model.Prelude.

Set Implicit Arguments.

Record step (T : Type) := { s_c1 : nat; s_c2 : nat; s_dis : T; s_size : nat }.
Record dend (T : Type) := { d_steps : list (step T); d_obs : nat }.

Section Dend.
Variable T : Type.

(* Dendrogram::new allocates capacity for n steps of 32 bytes: a capacity
   overflow panic when 32 n exceeds isize::MAX. *)
Definition d_new_ok (n : N) : bool := (n * 32 <=? 9223372036854775807)%N.

Definition d_new (n : nat) : dend T := {| d_steps := []; d_obs := n |}.
Definition d_reset (d : dend T) (n : nat) : dend T := {| d_steps := []; d_obs := n |}.
Definition d_len (d : dend T) : nat := length (d_steps d).

Definition d_push (d : dend T) (s : step T) : res (dend T) :=
  do _ <- assert_ (d_len d <? d_obs d - 1);   (* saturating_sub(1) *)
  Ok {| d_steps := d_steps d ++ [s]; d_obs := d_obs d |}.

Definition step_new (c1 c2 : nat) (x : T) (sz : nat) : step T :=
  if c2 <? c1 then {| s_c1 := c2; s_c2 := c1; s_dis := x; s_size := sz |}
  else {| s_c1 := c1; s_c2 := c2; s_dis := x; s_size := sz |}.

Definition step_set_clusters (s : step T) (c1 c2 : nat) : step T :=
  if c2 <? c1 then {| s_c1 := c2; s_c2 := c1; s_dis := s_dis s; s_size := s_size s |}
  else {| s_c1 := c1; s_c2 := c2; s_dis := s_dis s; s_size := s_size s |}.

Definition step_set_size (s : step T) (sz : nat) : step T :=
  {| s_c1 := s_c1 s; s_c2 := s_c2 s; s_dis := s_dis s; s_size := sz |}.

Definition step_set_dis (s : step T) (x : T) : step T :=
  {| s_c1 := s_c1 s; s_c2 := s_c2 s; s_dis := x; s_size := s_size s |}.

Definition d_get (d : dend T) (i : nat) : res (step T) := vget (d_steps d) i.

Definition d_set (d : dend T) (i : nat) (s : step T) : res (dend T) :=
  do l <- vset (d_steps d) i s; Ok {| d_steps := l; d_obs := d_obs d |}.

Definition d_cluster_size (d : dend T) (label : nat) : res nat :=
  if label <? d_obs d then Ok 1
  else do s <- d_get d (label - d_obs d); Ok (s_size s).

(* Float-dependent part. *)
Variable eqb : T -> T -> bool.     (* == *)
Variable ltb : T -> T -> bool.     (* <  *)
Variable sub : T -> T -> T.
Variable abs : T -> T.

Definition step_eqb (s1 s2 : step T) : bool :=
  (s_c1 s1 =? s_c1 s2) && (s_c2 s1 =? s_c2 s2)
  && eqb (s_dis s1) (s_dis s2) && (s_size s1 =? s_size s2).

Definition step_eq_eps (s1 s2 : step T) (eps : T) : bool :=
  if step_eqb s1 s2 then true
  else if negb ((s_c1 s1 =? s_c1 s2) && (s_c2 s1 =? s_c2 s2) && (s_size s1 =? s_size s2))
  then false
  else if ltb eps (abs (sub (s_dis s1) (s_dis s2))) then false
  else true.

Fixpoint steps_eq_eps (l1 l2 : list (step T)) (eps : T) : bool :=
  match l1, l2 with
  | s1 :: t1, s2 :: t2 => if step_eq_eps s1 s2 eps then steps_eq_eps t1 t2 eps else false
  | _, _ => true   (* zip stops at the shorter; lengths were compared first *)
  end.

Definition d_eq_eps (d1 d2 : dend T) (eps : T) : bool :=
  if negb (d_len d1 =? d_len d2) then false
  else steps_eq_eps (d_steps d1) (d_steps d2) eps.

End Dend.
