(* Model of src/union.rs: labelled union-find and Dendrogram relabelling. *)
Require Import KV.Model.Prelude KV.Model.Active KV.Model.Dendrogram.

Set Implicit Arguments.

Record ufind := { u_parents : list nat; u_next : nat }.

Definition u_new : ufind := {| u_parents := []; u_next := 0 |}.

Definition u_size (len : nat) : nat := if len =? 0 then 0 else 2 * len - 1.

(* reset: next_parent = len; parents.resize(size, 0) WITHOUT clear; then every
   cell of the (whole) vector is overwritten with its index. *)
Definition u_reset (u : ufind) (len : nat) : ufind :=
  let size := u_size len in
  {| u_parents := overwrite (fun i => i) size (vresize (u_parents u) size 0);
     u_next := len |}.

Definition u_parent (u : ufind) (c : nat) : res (option nat) :=
  do p <- vget (u_parents u) c;
  Ok (if p =? c then None else Some p).

Fixpoint u_root (fuel : nat) (u : ufind) (c : nat) : res nat :=
  match fuel with
  | O => OutOfFuel
  | S f =>
      do p <- u_parent u c;
      match p with None => Ok c | Some p => u_root f u p end
  end.

Fixpoint u_compress (fuel : nat) (u : ufind) (c root : nat) : res ufind :=
  match fuel with
  | O => OutOfFuel
  | S f =>
      do p <- u_parent u c;
      match p with
      | None => Ok u
      | Some p =>
          do ps <- vset (u_parents u) c root;
          u_compress f {| u_parents := ps; u_next := u_next u |} p root
      end
  end.

Definition u_fuel (u : ufind) : nat := S (length (u_parents u)).

Definition u_find (u : ufind) (c : nat) : res (nat * ufind) :=
  do r <- u_root (u_fuel u) u c;
  do u' <- u_compress (u_fuel u) u c r;
  Ok (r, u').

Definition u_union (u : ufind) (c1 c2 : nat) : res ufind :=
  do '(r1, u1) <- u_find u c1;
  do '(r2, u2) <- u_find u1 c2;
  if r1 =? r2 then Ok u2
  else
    do _ <- assert_ (u_next u2 <? length (u_parents u2));
    do p1 <- vset (u_parents u2) c1 (u_next u2);
    do p2 <- vset p1 c2 (u_next u2);
    Ok {| u_parents := p2; u_next := u_next u2 + 1 |}.

Section Relabel.
Variable T : Type.
Variable ltb eqb : T -> T -> bool.

(* f64::partial_cmp *)
Definition pcmp (a b : T) : option comparison :=
  if ltb a b then Some Lt
  else if eqb a b then Some Eq
  else if ltb b a then Some Gt
  else None.

(* Stable insertion of x, which originally preceded every element of l: it
   goes before the first element not smaller than it.  Any stable sort produces
   the same list; a None comparison is the
   expect("NaNs not allowed in dendrogram") panic. *)
Fixpoint sort_insert (x : step T) (l : list (step T)) : res (list (step T)) :=
  match l with
  | [] => Ok [x]
  | y :: t =>
      match pcmp (s_dis x) (s_dis y) with
      | None => Panic PNaN
      | Some Gt => do t' <- sort_insert x t; Ok (y :: t')
      | Some _ => Ok (x :: y :: t)
      end
  end.

(* insert from the right end so that equal elements keep their order *)
Fixpoint sort_steps (l : list (step T)) : res (list (step T)) :=
  match l with
  | [] => Ok []
  | x :: t => do t' <- sort_steps t; sort_insert x t'
  end.

Definition relabel_step (st : ufind * dend T) (i : nat) : res (ufind * dend T) :=
  let '(u, d) := st in
  do s <- d_get d i;
  do '(n1, u1) <- u_find u (s_c1 s);
  do s' <- d_get d i;
  do '(n2, u2) <- u_find u1 (s_c2 s');
  do u3 <- u_union u2 n1 n2;
  do size1 <- d_cluster_size d n1;
  do size2 <- d_cluster_size d n2;
  do s2 <- d_get d i;
  do d1 <- d_set d i (step_set_size (step_set_clusters s2 n1 n2) (size1 + size2));
  Ok (u3, d1).

Definition relabel (u : ufind) (d : dend T) (sorting : bool) : res (ufind * dend T) :=
  let u0 := u_reset u (d_obs d) in
  do steps <- (if sorting then sort_steps (d_steps d) else Ok (d_steps d));
  let d0 := {| d_steps := steps; d_obs := d_obs d |} in
  mfold relabel_step (seq 0 (d_len d0)) (u0, d0).

End Relabel.
