(* Model of src/generic.rs (Muellner's generic algorithm with a heap of
   nearest-neighbour candidates). *)
Require Import KV.Model.Prelude KV.Model.Condensed KV.Model.Active KV.Model.Heap
  KV.Model.UnionFind KV.Model.Dendrogram KV.Model.Methods KV.Model.State.

Set Implicit Arguments.

Section Generic.
Variable T : Type.
Variable K : kops T.
Variable p : profile.

Notation hpriority := (@h_priority T).
Notation hset := (@h_set_priority T (k_ltb K)).

(* initial nearest-neighbour scan of one row (inside the heapify closure) *)
Definition init_col (M : cmat T) (row : nat) (acc : nat * T) (col : nat) : res (nat * T) :=
  let '(mn, mind) := acc in
  do v <- mget p M row col;
  Ok (if k_ltb K v mind then (col, v) else (mn, mind)).

Definition init_row (M : cmat T) (acc : list T * list nat) (row : nat)
  : res (list T * list nat) :=
  let '(dists, nearest) := acc in
  do v0 <- mget p M row (row + 1);
  do '(mn, mind) <- mfold (init_col M row) (seq (row + 1) (m_obs M - (row + 1))) (row + 1, v0);
  do dists' <- vset dists row mind;
  do nearest' <- vset nearest row mn;
  Ok (dists', nearest').

(* `loop { let a = peek; if dis[[a, nearest[a]]] == prio(a) { break } rescan }` *)
Fixpoint repair (fuel : nat) (s : lstate T) (M : cmat T) : res (lstate T) :=
  match fuel with
  | O => OutOfFuel
  | S f =>
      do a <- opt_unwrap (h_peek (st_queue s));
      do na <- vget (st_nearest s) a;
      do v <- mget p M a na;
      do pa <- hpriority (st_queue s) a;
      if k_eqb K v pa then Ok s
      else
        do xs <- a_above (st_active s) a;
        do '(mn, nearest') <-
          mfold (fun (acc : T * list nat) x =>
                   let '(mn, nr) := acc in
                   do v <- mget p M a x;
                   if k_ltb K v mn then do nr' <- vset nr a x; Ok (v, nr')
                   else Ok (mn, nr))
                xs (k_inf K, st_nearest s);
        do q <- hset (st_queue s) a mn;
        repair f (st_with_queue (st_with_nearest s nearest') q) M
  end.

(* per-range bookkeeping after the cell update; `kind` selects the branch the
   method's function in generic.rs takes *)
Inductive below_kind := BelowRename | BelowCheck.     (* centroid/median re-check *)

Definition below_kind_of (m : method) : below_kind :=
  match m with Centroid | Median => BelowCheck | _ => BelowRename end.

Definition tracks_candidates (m : method) : bool :=   (* everything but complete *)
  match m with Complete => false | _ => true end.

Definition gen_below (meth : method) (a b : nat) (dist : T) (sa sb : nat)
  (acc : lstate T * cmat T) (x : nat) : res (lstate T * cmat T) :=
  let '(s, M) := acc in
  do M' <- upd_cell K p meth (st_sizes s) M x a x b x dist sa sb;
  match below_kind_of meth with
  | BelowRename =>
      do nx <- vget (st_nearest s) x;
      if nx =? a then do nr <- vset (st_nearest s) x b; Ok (st_with_nearest s nr, M')
      else Ok (s, M')
  | BelowCheck =>
      do v <- mget p M' x b;
      do px <- hpriority (st_queue s) x;
      if k_ltb K v px then
        do v2 <- mget p M' x b;
        do q <- hset (st_queue s) x v2;
        do nr <- vset (st_nearest s) x b;
        Ok (st_with_nearest (st_with_queue s q) nr, M')
      else
        do nx <- vget (st_nearest s) x;
        if nx =? a then do nr <- vset (st_nearest s) x b; Ok (st_with_nearest s nr, M')
        else Ok (s, M')
  end.

Definition gen_between (meth : method) (a b : nat) (dist : T) (sa sb : nat)
  (acc : lstate T * cmat T) (x : nat) : res (lstate T * cmat T) :=
  let '(s, M) := acc in
  do M' <- upd_cell K p meth (st_sizes s) M a x x b x dist sa sb;
  if tracks_candidates meth then
    do v <- mget p M' x b;
    do px <- hpriority (st_queue s) x;
    if k_ltb K v px then
      do v2 <- mget p M' x b;
      do q <- hset (st_queue s) x v2;
      do nr <- vset (st_nearest s) x b;
      Ok (st_with_nearest (st_with_queue s q) nr, M')
    else Ok (s, M')
  else Ok (s, M').

Definition gen_above (meth : method) (a b : nat) (dist : T) (sa sb : nat)
  (acc : lstate T * cmat T * T) (x : nat) : res (lstate T * cmat T * T) :=
  let '(s, M, mn) := acc in
  do M' <- upd_cell K p meth (st_sizes s) M a x b x x dist sa sb;
  if tracks_candidates meth then
    do v <- mget p M' b x;
    if k_ltb K v mn then
      do v2 <- mget p M' b x;
      do q <- hset (st_queue s) b v2;
      do nr <- vset (st_nearest s) b x;
      do v3 <- mget p M' b x;
      Ok (st_with_nearest (st_with_queue s q) nr, M', v3)
    else Ok (s, M', mn)
  else Ok (s, M', mn).

Definition reads_dist (m : method) : bool :=   (* let dist = dis[[a, b]] in the method fn *)
  match m with Ward | Centroid | Median => true | _ => false end.

Definition gen_update (meth : method) (s : lstate T) (M : cmat T) (a b : nat) (dist0 : T)
  : res (lstate T * cmat T) :=
  do '(sa, sb) <- sizes_ab meth s a b;
  do dist <- (if reads_dist meth then mget p M a b else Ok dist0);
  do xs1 <- a_below (st_active s) a;
  do acc1 <- mfold (gen_below meth a b dist sa sb) xs1 (s, M);
  do xs2 <- a_between (st_active s) a b;
  do '(s2, M2) <- mfold (gen_between meth a b dist sa sb) xs2 acc1;
  do mn <- (if tracks_candidates meth then hpriority (st_queue s2) b else Ok dist0);
  do xs3 <- a_above (st_active s2) b;
  do '(s3, M3, _) <- mfold (gen_above meth a b dist sa sb) xs3 (s2, M2, mn);
  Ok (s3, M3).

Definition gen_fuel (s : lstate T) : nat := 2 * length (st_nearest s) + 4.

Definition gen_iter (meth : method) (acc : lstate T * dend T * cmat T) (_ : nat)
  : res (lstate T * dend T * cmat T) :=
  let '(s, d, M) := acc in
  do s1 <- repair (gen_fuel s) s M;
  do '(oa, q) <- h_pop (k_ltb K) (st_queue s1);
  do a <- opt_unwrap oa;
  let s2 := st_with_queue s1 q in
  do b <- vget (st_nearest s2) a;
  do dist <- mget p M a b;
  do '(s3, M') <- gen_update meth s2 M a b dist;
  do '(s4, d') <- st_merge s3 d a b dist;
  Ok (s4, d', M').

Definition generic_with (meth : method) (s : lstate T) (d : dend T) (m : list T) (n : N)
  : res (lstate T * dend T * list T) :=
  let m1 := square_all K m in
  do M <- prologue p m1 n;
  let d0 := d_reset d (m_obs M) in
  if m_obs M =? 0 then Ok (s, d0, m1)
  else
    let s0 := st_reset K s (m_obs M) in
    let q0 := h_heapify_pre (k_inf K) (st_queue s0) in
    do '(dists, nearest) <-
      mfold (init_row M) (seq 0 (m_obs M - 1)) (h_prio q0, st_nearest s0);
    do q1 <- h_heapify_post (k_ltb K) q0 dists;
    let s1 := st_with_nearest (st_with_queue s0 q1) nearest in
    do '(s2, d1, M1) <- mfold (gen_iter meth) (seq 0 (m_obs M - 1)) (s1, d0, M);
    do '(u, d2) <- relabel (k_ltb K) (k_eqb K) (st_set s2) d1 (requires_sorting meth);
    Ok (st_with_set s2 u, sqrt_all K d2, m_data M1).

End Generic.
