(* Prelude: result monad with panics, list accessors mirroring Vec semantics. *)
From Coq Require Export List Arith NArith ZArith Bool Lia.
Export ListNotations.

Set Implicit Arguments.

(* Classes of Rust panics that the model distinguishes. *)
Inductive panic_kind :=
| PIndex      (* slice/Vec index out of bounds *)
| PAssert     (* assert!/assert_eq!/debug_assert! failed *)
| PUnwrap     (* Option::unwrap / expect on None *)
| PNaN        (* "NaNs not allowed in dendrogram" *)
| POverflow   (* arithmetic overflow in a checked build *)
| PCapacity.  (* capacity overflow when allocating *)

Inductive res (A : Type) : Type :=
| Ok (a : A)
| Panic (k : panic_kind)
| OutOfFuel.
Arguments Ok {A} a.
Arguments Panic {A} k.
Arguments OutOfFuel {A}.

Definition bind {A B} (x : res A) (f : A -> res B) : res B :=
  match x with
  | Ok a => f a
  | Panic k => Panic k
  | OutOfFuel => OutOfFuel
  end.

Notation "'do' x <- e ; f" := (bind e (fun x => f))
  (at level 200, x pattern, e at level 100, f at level 200, right associativity).
Notation "'do' ' p <- e ; f" := (bind e (fun p => f))
  (at level 200, p pattern, e at level 100, f at level 200, right associativity).

(* Build profile: Debug = debug assertions + overflow checks on. *)
Inductive profile := Debug | Release.

Definition assert_ (b : bool) : res unit :=
  if b then Ok tt else Panic PAssert.

(* Vec indexing: v[i] *)
Definition vget {A} (l : list A) (i : nat) : res A :=
  match nth_error l i with
  | Some a => Ok a
  | None => Panic PIndex
  end.

Fixpoint set_nth {A} (l : list A) (i : nat) (v : A) : list A :=
  match l, i with
  | [], _ => []
  | _ :: t, O => v :: t
  | h :: t, S i' => h :: set_nth t i' v
  end.

(* v[i] = x *)
Definition vset {A} (l : list A) (i : nat) (v : A) : res (list A) :=
  if i <? length l then Ok (set_nth l i v) else Panic PIndex.

(* Vec::resize(len, x) without a preceding clear: truncate or extend. *)
Definition vresize {A} (l : list A) (len : nat) (x : A) : list A :=
  firstn len l ++ repeat x (len - length l).

(* Monadic fold over a list. *)
Fixpoint mfold {A S} (f : S -> A -> res S) (l : list A) (s : S) : res S :=
  match l with
  | [] => Ok s
  | x :: t => do s' <- f s x; mfold f t s'
  end.

Definition opt_unwrap {A} (o : option A) : res A :=
  match o with Some a => Ok a | None => Panic PUnwrap end.
