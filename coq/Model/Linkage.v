(* Model of the dispatch in src/lib.rs and of the allocating wrappers. *)
Require Import KV.Model.Prelude KV.Model.Condensed KV.Model.Active KV.Model.Heap
  KV.Model.UnionFind KV.Model.Dendrogram KV.Model.Methods KV.Model.State
  KV.Model.Primitive KV.Model.Mst KV.Model.Chain KV.Model.Generic.

Set Implicit Arguments.

Inductive algo := ALinkage | AMst | ANnchain | AGeneric | APrimitive.

Section Linkage.
Variable T : Type.
Variable F : fops T.
Variable p : profile.

Definition linkage_with (meth : method) (s : lstate T) (d : dend T) (m : list T) (n : N) :=
  let K := kops_of F meth in
  match meth with
  | Single => mst_with K p s d m n
  | _ => if chain_capable meth then nnchain_with K p meth s d m n
         else generic_with K p meth s d m n
  end.

(* Does this entry point accept this method?  (mst has no method parameter and
   is single linkage; nnchain takes a MethodChain.) *)
Definition accepts (a : algo) (meth : method) : bool :=
  match a with
  | AMst => method_eqb meth Single
  | ANnchain => chain_capable meth
  | _ => true
  end.

Definition run_with (a : algo) (meth : method) (s : lstate T) (d : dend T) (m : list T) (n : N)
  : res (lstate T * dend T * list T) :=
  let K := kops_of F meth in
  match a with
  | ALinkage => linkage_with meth s d m n
  | AMst => mst_with (kops_of F Single) p s d m n
  | ANnchain => nnchain_with K p meth s d m n
  | AGeneric => generic_with K p meth s d m n
  | APrimitive => primitive_with K p meth s d m n
  end.

(* The allocating wrappers: LinkageState::new(), Dendrogram::new(n) (which
   can fail with a capacity overflow before anything else happens). *)
Definition run_fresh (a : algo) (meth : method) (m : list T) (n : N)
  : res (lstate T * dend T * list T) :=
  if d_new_ok n then
    run_with a meth (st_new T) (d_new T (N.to_nat (N.min n two32))) m n
  else Panic PCapacity.

End Linkage.
