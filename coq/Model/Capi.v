(* Model of kodama-capi/src/lib.rs: length arithmetic, linkage call, step
   copy with widening, and the store of live dendrogram handles. *)
Require Import KV.Model.Prelude KV.Model.Condensed KV.Model.Dendrogram
  KV.Model.Methods KV.Model.State KV.Model.Linkage.

Set Implicit Arguments.

Local Open Scope N_scope.

(* dis_len = (observations * observations.saturating_sub(1)) / 2  [after the fix] *)
Definition capi_len (p : profile) (n : N) : res N :=
  let m := if n =? 0 then 0 else n - 1 in
  let prod := n * m in
  match p with
  | Debug => if prod <? two64 then Ok (prod / 2) else Panic POverflow
  | Release => Ok ((prod mod two64) / 2)
  end.

(* dis_len = (observations * (observations - 1)) / 2  [the shipped code before
   the fix: the subtraction is checked in a dev-profile build] *)
Definition capi_len_unfixed (p : profile) (n : N) : res N :=
  match p with
  | Debug =>
      if n =? 0 then Panic POverflow
      else let prod := n * (n - 1) in
           if prod <? two64 then Ok (prod / 2) else Panic POverflow
  | Release =>
      let m := if n =? 0 then two64 - 1 else n - 1 in
      Ok (((n * m) mod two64) / 2)
  end.

Local Close Scope N_scope.

Section Capi.
Variable T : Type.          (* float type of the entry point *)
Variable D : Type.          (* c_double *)
Variable F : fops T.
Variable widen : T -> D.    (* `as c_double` (identity for the double entry point) *)

Record cdend := { c_steps : list (step D); c_obs : N }.

Definition widen_step (s : step T) : step D :=
  {| s_c1 := s_c1 s; s_c2 := s_c2 s; s_dis := widen (s_dis s); s_size := s_size s |}.

(* kodama_linkage_double / kodama_linkage_float: `buf` is the caller's buffer
   (the function reads exactly dis_len entries of it); a panic aborts the
   process. Returns the handle contents and the caller's buffer after. *)
Definition capi_linkage (p : profile) (meth : method) (buf : list T) (n : N)
  : res (cdend * list T) :=
  do len <- capi_len p n;
  if (N.of_nat (length buf) <? len)%N then Panic PIndex   (* reading past the buffer: undefined behaviour *)
  else
    let m := firstn (N.to_nat len) buf in
    do '(_, d, m') <- run_fresh F p ALinkage meth m n;
    Ok ({| c_steps := map widen_step (d_steps d); c_obs := n |}, m' ++ skipn (N.to_nat len) buf).

(* ---- handle store --------------------------------------------------- *)
Definition store := list (nat * cdend).     (* live handles *)

Inductive cop :=
| CCreate (meth : method) (buf : list T) (n : N)
| CRead (h : nat)          (* kodama_dendrogram_len/observations/steps *)
| CScribble (h : nat)      (* the client overwrites or frees the INPUT buffer of h *)
| CFree (h : nat).

Inductive cout := CHandle (h : nat) (d : cdend) | CValue (d : cdend) | CDone | CAbort | CInvalid.

Fixpoint lookup (s : store) (h : nat) : option cdend :=
  match s with
  | [] => None
  | (k, d) :: t => if k =? h then Some d else lookup t h
  end.

Fixpoint remove (s : store) (h : nat) : store :=
  match s with
  | [] => []
  | (k, d) :: t => if k =? h then remove t h else (k, d) :: remove t h
  end.

(* state: next fresh handle id, live handles *)
Definition cstep (p : profile) (st : nat * store) (o : cop) : (nat * store) * cout :=
  let '(next, s) := st in
  match o with
  | CCreate meth buf n =>
      match capi_linkage p meth buf n with
      | Ok (d, _) => ((S next, (next, d) :: s), CHandle next d)
      | _ => (st, CAbort)
      end
  | CRead h => match lookup s h with Some d => (st, CValue d) | None => (st, CInvalid) end
  | CScribble _ => (st, CDone)        (* the store holds no reference to any input *)
  | CFree h => match lookup s h with Some _ => ((next, remove s h), CDone) | None => (st, CInvalid) end
  end.

Definition crun (p : profile) (ops : list cop) : (nat * store) * list cout :=
  fold_left (fun acc o => let '(st, outs) := acc in
                          let '(st', out) := cstep p st o in (st', outs ++ [out]))
            ops ((0, []), []).

End Capi.

Arguments CRead {T} h.
Arguments CScribble {T} h.
Arguments CFree {T} h.
Arguments CDone {D}.
Arguments CAbort {D}.
Arguments CInvalid {D}.
