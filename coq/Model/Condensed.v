(* Model of src/condensed.rs: shape check and condensed indexing. *)
Require Import KV.Model.Prelude.

Set Implicit Arguments.

Definition two64 : N := 18446744073709551616%N.
Definition two32 : N := 4294967296%N.

(* CondensedMatrix::new: returns the observation count the matrix records
   (0 for an empty matrix, whatever n <= 1 was passed). *)
Definition shape_check (p : profile) (n len : N) : res N :=
  if (len =? 0)%N then
    (if (n <=? 1)%N then Ok 0%N else Panic PAssert)
  else if (n <? 2)%N then Panic PAssert
  else
    let prod := (n * (n - 1))%N in
    match p with
    | Debug =>
        if (prod <? two64)%N then
          (if (prod / 2 =? len)%N then Ok n else Panic PAssert)
        else Panic POverflow
    | Release =>
        if ((prod mod two64) / 2 =? len)%N then Ok n else Panic PAssert
    end.

(* After a successful shape check the algorithms allocate O(n) scratch; for
   n >= 2^32 (only reachable through the release-mode wrap of the product)
   that is >= 32 GiB: modelled as a capacity panic, never exercised. *)
Definition obs_to_nat (o : N) : res nat :=
  if (o <? two32)%N then Ok (N.to_nat o) else Panic PCapacity.

(* ((2 * n - row - 3) * row / 2) + column - 1 over nat (truncated
   subtraction); used only under row < column < n where nothing truncates. *)
Definition cidx_nat (n r c : nat) : nat := (2 * n - r - 3) * r / 2 + c - 1.

(* The same expression in wrapping 64-bit arithmetic. *)
Definition wsub (a b : N) : N := ((a + two64 - b) mod two64)%N.
Definition cidx_wrap (n r c : N) : N :=
  wsub ((((wsub (wsub ((2 * n) mod two64) r) 3) * r) mod two64 / 2 + c) mod two64) 1.

Record cmat (T : Type) := { m_data : list T; m_obs : nat }.

(* Resolve [[r, c]] to a slot, or the panic the code raises. *)
Definition mslot {T} (p : profile) (M : cmat T) (r c : nat) : res nat :=
  if (r <? c) && (c <? m_obs M) then
    let k := cidx_nat (m_obs M) r c in
    if k <? length (m_data M) then Ok k else Panic PIndex
  else
    match p with
    | Debug => Panic PAssert
    | Release =>
        let k := cidx_wrap (N.of_nat (m_obs M)) (N.of_nat r) (N.of_nat c) in
        if (k <? N.of_nat (length (m_data M)))%N then Ok (N.to_nat k)
        else Panic PIndex
    end.

Definition mget {T} (p : profile) (M : cmat T) (r c : nat) : res T :=
  do k <- mslot p M r c; vget (m_data M) k.

Definition mset {T} (p : profile) (M : cmat T) (r c : nat) (v : T)
  : res (cmat T) :=
  do k <- mslot p M r c;
  Ok {| m_data := set_nth (m_data M) k v; m_obs := m_obs M |}.

(* The index expression as a syntax tree, so that the translator can compare
   the source text of condensed.rs with it. *)
Inductive iexp := IN | IR | IC | IK (k : nat)
| IAdd (a b : iexp) | ISub (a b : iexp) | IMul (a b : iexp) | IDiv (a b : iexp).

Fixpoint ieval (e : iexp) (n r c : nat) : nat :=
  match e with
  | IN => n | IR => r | IC => c | IK k => k
  | IAdd a b => ieval a n r c + ieval b n r c
  | ISub a b => ieval a n r c - ieval b n r c
  | IMul a b => ieval a n r c * ieval b n r c
  | IDiv a b => ieval a n r c / ieval b n r c
  end.

(* ((2 * self.observations() - row - 3) * row / 2) + column - 1 *)
Definition cidx_exp : iexp :=
  ISub (IAdd (IDiv (IMul (ISub (ISub (IMul (IK 2) IN) IR) (IK 3)) IR) (IK 2)) IC) (IK 1).

Lemma cidx_nat_is_exp n r c : cidx_nat n r c = ieval cidx_exp n r c.
Proof. reflexivity. Qed.
