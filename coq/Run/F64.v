(* binary64 instance of the Float operations on Coq's primitive floats, with
   bit-pattern conversion.  Used only to EVALUATE the model in the
   correspondence check (rests on the kernel's primitive floats). *)
Require Import KV.Model.Prelude KV.Model.Methods.
From Coq Require Import Floats Uint63.

Local Open Scope Z_scope.

Definition p52 : Z := 4503599627370496.
Definition p63 : Z := 9223372036854775808.

Definition f64_of_bits (z : Z) : float :=
  let s := Z.testbit z 63 in
  let e := Z.land (Z.shiftr z 52) 2047 in
  let f := Z.land z (p52 - 1) in
  let mag :=
    if e =? 2047 then (if f =? 0 then infinity else nan)
    else if e =? 0 then Z.ldexp (of_uint63 (Uint63.of_Z f)) (-1074)
    else Z.ldexp (of_uint63 (Uint63.of_Z (f + p52))) (e - 1075) in
  if s then PrimFloat.opp mag else mag.

Definition f64_nan_bits : Z := 9221120237041090560. (* 0x7ff8000000000000 *)

Definition f64_to_bits (x : float) : Z :=
  match classify x with
  | NaN => f64_nan_bits
  | PInf => 2047 * p52
  | NInf => p63 + 2047 * p52
  | PZero => 0
  | NZero => p63
  | _ =>
      let s := PrimFloat.ltb x zero in
      let ax := PrimFloat.abs x in
      let '(m, e) := Z.frexp ax in
      let M := Uint63.to_Z (normfr_mantissa m) in
      let mag := if e >=? -1021 then (e + 1022) * p52 + (M - p52)
                 else Z.shiftr M (-1021 - e) in
      if s then p63 + mag else mag
  end.

Definition F64 : fops float :=
  {| f_ltb := PrimFloat.ltb;
     f_eqb := PrimFloat.eqb;
     f_add := PrimFloat.add;
     f_sub := PrimFloat.sub;
     f_mul := PrimFloat.mul;
     f_div := PrimFloat.div;
     f_sqrt := PrimFloat.sqrt;
     f_abs := PrimFloat.abs;
     f_of_nat := fun n => of_uint63 (Uint63.of_Z (Z.of_nat n));
     f_half := 0.5%float;
     f_quarter := 0.25%float;
     f_inf := infinity;
     f_max := f64_of_bits 9218868437227405311 (* 0x7fefffffffffffff *) |}.
