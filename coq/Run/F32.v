(* binary32 instance of the Float operations on Flocq's soft floats
   (BinarySingleNaN.binary_float 24 128), with bit-pattern conversion. *)
Require Import KV.Model.Prelude KV.Model.Methods.
From Flocq Require Import Core.FLX IEEE754.Binary IEEE754.Bits IEEE754.BinarySingleNaN.

Local Open Scope Z_scope.

Definition f32 := BinarySingleNaN.binary_float 24 128.

Local Instance prec24 : FLX.Prec_gt_0 24 := eq_refl.
Local Instance emax128 : Prec_lt_emax 24 128 := eq_refl.

Definition f32_of_bits (z : Z) : f32 := B2BSN 24 128 (b32_of_bits z).

Definition f32_nan_bits : Z := 2143289344. (* 0x7fc00000 *)

Definition f32_to_bits (x : f32) : Z :=
  let sign (s : bool) := if s then 2147483648 else 0 in
  match x with
  | B754_nan => f32_nan_bits
  | B754_zero s => sign s
  | B754_infinity s => sign s + 255 * 8388608
  | B754_finite s mx ex _ =>
      let m := Zpos mx - 8388608 in
      if 0 <=? m then sign s + (ex + 149 + 1) * 8388608 + m
      else sign s + Zpos mx
  end.

Definition F32 : fops f32 :=
  {| f_ltb := Bltb;
     f_eqb := Beqb;
     f_add := Bplus mode_NE;
     f_sub := Bminus mode_NE;
     f_mul := Bmult mode_NE;
     f_div := Bdiv mode_NE;
     f_sqrt := Bsqrt mode_NE;
     f_abs := Babs;
     f_of_nat := fun n => binary_normalize 24 128 _ _ mode_NE (Z.of_nat n) 0 false;
     f_half := f32_of_bits 1056964608;      (* 0x3f000000 *)
     f_quarter := f32_of_bits 1048576000;   (* 0x3e800000 *)
     f_inf := B754_infinity false;
     f_max := f32_of_bits 2139095039        (* 0x7f7fffff *) |}.

(* exact widening binary32 -> binary64 bit pattern (`as f64`) *)
Definition p52 : Z := 4503599627370496.
Definition f32_widen_bits (x : f32) : Z :=
  let sign (s : bool) := if s then 9223372036854775808 else 0 in
  match x with
  | B754_nan => 9221120237041090560
  | B754_zero s => sign s
  | B754_infinity s => sign s + 2047 * p52
  | B754_finite s mx ex _ =>
      (* value = mx * 2^ex with mx < 2^24: always a normal binary64 number *)
      let nb := Z.log2 (Zpos mx) in                 (* mx in [2^nb, 2^(nb+1)) *)
      let frac := Z.shiftl (Zpos mx) (52 - nb) - p52 in
      sign s + (ex + nb + 1023) * p52 + frac
  end.
