(* Rendering of model results as flat token streams (list Z) for the
   correspondence check.  Parametric in the carrier's bit conversion. *)
Require Import KV.Model.Prelude KV.Model.Condensed KV.Model.Active KV.Model.Heap
  KV.Model.UnionFind KV.Model.Dendrogram KV.Model.Methods KV.Model.State
  KV.Model.Linkage.

Local Open Scope Z_scope.

Definition panic_code (k : panic_kind) : Z :=
  match k with
  | PIndex => 1 | PAssert => 2 | PUnwrap => 3 | PNaN => 4 | POverflow => 5 | PCapacity => 6
  end.

Set Implicit Arguments.

Definition zn (n : nat) : Z := Z.of_nat n.

Section Render.
Variable T : Type.
Variable to_bits : T -> Z.

Definition render_step (s : step T) : list Z :=
  [zn (s_c1 s); zn (s_c2 s); to_bits (s_dis s); zn (s_size s)].

Definition render_dend (d : dend T) : list Z :=
  zn (d_obs d) :: zn (length (d_steps d)) :: flat_map render_step (d_steps d).

(* tags: 0 ok, 1 panic, 2 out-of-fuel *)
Definition render_run (r : res (lstate T * dend T * list T)) : list Z :=
  match r with
  | Ok (_, d, m) => 0 :: render_dend d ++ (zn (length m) :: map to_bits m)
  | Panic k => [1; panic_code k]
  | OutOfFuel => [2]
  end.

End Render.

Definition method_of_Z (z : Z) : method :=
  match z with
  | 0 => Single | 1 => Complete | 2 => Average | 3 => Weighted
  | 4 => Ward | 5 => Centroid | _ => Median
  end.

Definition algo_of_Z (z : Z) : algo :=
  match z with
  | 0 => ALinkage | 1 => AMst | 2 => ANnchain | 3 => AGeneric | _ => APrimitive
  end.

Definition profile_of_Z (z : Z) : profile := match z with 0 => Debug | _ => Release end.
