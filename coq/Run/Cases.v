(* Entry points used by generated case files. *)
Require Export KV.Model.Prelude KV.Model.Condensed KV.Model.Active KV.Model.Heap
  KV.Model.UnionFind KV.Model.Dendrogram KV.Model.Methods KV.Model.State
  KV.Model.Linkage KV.Run.Render KV.Run.F64 KV.Run.F32.

Local Open Scope Z_scope.

(* A fresh-call case: profile, algorithm, method, n, matrix bit patterns. *)
Definition case64 (pf al me : Z) (n : Z) (m : list Z) : list Z :=
  render_run f64_to_bits
    (run_fresh F64 (profile_of_Z pf) (algo_of_Z al) (method_of_Z me)
               (map f64_of_bits m) (Z.to_N n)).

Definition case32 (pf al me : Z) (n : Z) (m : list Z) : list Z :=
  render_run f32_to_bits
    (run_fresh F32 (profile_of_Z pf) (algo_of_Z al) (method_of_Z me)
               (map f32_of_bits m) (Z.to_N n)).

(* Reuse histories: a list of `_with` calls sharing one LinkageState and
   Dendrogram.  A panicking call leaves the model's state as it was (the real
   state is then arbitrary; by Props C08 the next result does not depend on
   it).  Each call's rendering is followed by the separator -1. *)
Section Hist.
Set Implicit Arguments.
Variable T : Type.
Variable F : fops T.
Variable of_bits : Z -> T.
Variable to_bits : T -> Z.

Definition hist_step (pf : profile) (acc : lstate T * dend T * list Z) (c : Z * Z * Z * list Z)
  : lstate T * dend T * list Z :=
  let '(s, d, out) := acc in
  let '(al, me, n, m) := c in
  let r := run_with F pf (algo_of_Z al) (method_of_Z me) s d (map of_bits m) (Z.to_N n) in
  let out' := out ++ render_run to_bits r ++ [-1] in
  match r with
  | Ok (s', d', _) => (s', d', out')
  | _ => (s, d, out')
  end.

Definition hist (pf : profile) (calls : list (Z * Z * Z * list Z)) : list Z :=
  let '(_, _, out) := fold_left (hist_step pf) calls (st_new T, d_new T 0, []) in out.
End Hist.

Definition hist64 (pf : Z) calls := hist F64 f64_of_bits f64_to_bits (profile_of_Z pf) calls.
Definition hist32 (pf : Z) calls := hist F32 f32_of_bits f32_to_bits (profile_of_Z pf) calls.
