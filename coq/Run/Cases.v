(* Entry points used by generated case files. *)
Require Export KV.Model.Prelude KV.Model.Condensed KV.Model.Active KV.Model.Heap
  KV.Model.UnionFind KV.Model.Dendrogram KV.Model.Methods KV.Model.State
  KV.Model.Linkage KV.Run.Render KV.Run.F64 KV.Run.F32.

Local Open Scope Z_scope.

(* A fresh-call case: profile, algorithm, method, n, matrix bit patterns. *)
Definition case64 (pf al me : Z) (n : Z) (m : list Z) : list Z :=
  render_run f64_to_bits
    (run_fresh F64 (profile_of_Z pf) (algo_of_Z al) (method_of_Z me)
               (map f64_of_bits m) (Z.to_N n)).

Definition case32 (pf al me : Z) (n : Z) (m : list Z) : list Z :=
  render_run f32_to_bits
    (run_fresh F32 (profile_of_Z pf) (algo_of_Z al) (method_of_Z me)
               (map f32_of_bits m) (Z.to_N n)).

(* Reuse histories (Model/History.v): each call's rendering is followed by
   the separator -1. *)
Require Import KV.Model.History.

Section Hist.
Set Implicit Arguments.
Variable T : Type.
Variable F : fops T.
Variable of_bits : Z -> T.
Variable to_bits : T -> Z.

Definition render_out (r : res (dend T * list T)) : list Z :=
  match r with
  | Ok (d, m) => 0 :: render_dend to_bits d ++ (zn (length m) :: map to_bits m)
  | Panic k => [1; panic_code k]
  | OutOfFuel => [2]
  end.

Definition call_of (c : Z * Z * Z * list Z) : call T :=
  let '(al, me, n, m) := c in (algo_of_Z al, method_of_Z me, Z.to_N n, map of_bits m).

Definition hist (pf : profile) (calls : list (Z * Z * Z * list Z)) : list Z :=
  flat_map (fun o => render_out o ++ [-1])
           (history_outputs F pf (map call_of calls) (st_new T) (d_new T 0)).
End Hist.

Definition hist64 (pf : Z) calls := hist F64 f64_of_bits f64_to_bits (profile_of_Z pf) calls.
Definition hist32 (pf : Z) calls := hist F32 f32_of_bits f32_to_bits (profile_of_Z pf) calls.

(* Dendrogram container operation sequences (Model/DendOps.v). *)
Require Import KV.Model.DendOps.

Section DendRun.
Set Implicit Arguments.
Variable T : Type.
Variable F : fops T.
Variable of_bits : Z -> T.
Variable to_bits : T -> Z.

Definition zb (z : Z) : bool := negb (z =? 0).

Definition dop_of (l : list Z) : dop T :=
  match l with
  | [0; r; n] => ONew T (zb r) (Z.to_nat n)
  | [1; r; n] => OReset T (zb r) (Z.to_nat n)
  | [2; r; c1; c2; x; sz] => OPush (zb r) (Z.to_nat c1) (Z.to_nat c2) (of_bits x) (Z.to_nat sz)
  | [3; r; i] => OGet T (zb r) (Z.to_nat i)
  | [4; r; i; c1; c2] => OSetClusters T (zb r) (Z.to_nat i) (Z.to_nat c1) (Z.to_nat c2)
  | [5; r; i; x] => OSetDis (zb r) (Z.to_nat i) (of_bits x)
  | [6; r; l] => OClusterSize T (zb r) (Z.to_nat l)
  | [7; r] => OLen T (zb r)
  | [8; r] => OObs T (zb r)
  | [9; e] => OEqEps (of_bits e)
  | _ => OLen T false
  end.

Definition render_dout (o : dout T) : list Z :=
  match o with
  | DUnit _ => [0]
  | DPanic _ k => [1; panic_code k]
  | DStep s => 2 :: render_step to_bits s
  | DNat _ n => [3; zn n]
  | DBool _ b => [4; if b then 1 else 0]
  end.

Definition dendops (ops : list (list Z)) : list Z :=
  flat_map (fun o => render_dout o ++ [-1])
    (snd (drun (f_eqb F) (f_ltb F) (f_sub F) (f_abs F) (map dop_of ops))).
End DendRun.

Definition dend64 ops := dendops F64 f64_of_bits f64_to_bits ops.
Definition dend32 ops := dendops F32 f32_of_bits f32_to_bits ops.

(* C API (Model/Capi.v): client histories of create/read/scribble/free. *)
Require Import KV.Model.Capi.

Local Open Scope Z_scope.

Definition render_cdend (d : cdend Z) : list Z :=
  Z.of_N (c_obs d) :: zn (length (c_steps d)) :: flat_map (render_step (fun z => z)) (c_steps d).

Definition render_cout (o : cout Z) : list Z :=
  match o with
  | CHandle h d => 0 :: zn h :: render_cdend d
  | CValue d => 1 :: render_cdend d
  | CDone => [2]
  | CAbort => [3]
  | CInvalid => [4]
  end.

(* the double and float entry points produce `cdend Z` (steps as binary64 bit
   patterns) so that histories may mix them *)
Definition cstep_any (pf : profile) (st : nat * store Z) (o : list Z) : (nat * store Z) * cout Z :=
  match o with
  | 0 :: me :: n :: m =>
      cstep F64 f64_to_bits pf st (CCreate (method_of_Z me) (map f64_of_bits m) (Z.to_N n))
  | 5 :: me :: n :: m =>
      cstep F32 f32_widen_bits pf st (CCreate (method_of_Z me) (map f32_of_bits m) (Z.to_N n))
  | [1; h] => cstep F64 f64_to_bits pf st (CRead (Z.to_nat h))
  | [2; h] => cstep F64 f64_to_bits pf st (CScribble (Z.to_nat h))
  | [3; h] => cstep F64 f64_to_bits pf st (CFree (Z.to_nat h))
  | _ => (st, CInvalid)
  end.

Definition capiops (pf : Z) (ops : list (list Z)) : list Z :=
  let '(_, outs) :=
    fold_left (fun acc o => let '(st, outs) := acc in
                            let '(st', out) := cstep_any (profile_of_Z pf) st o in
                            (st', outs ++ render_cout out ++ [-1]))
              ops ((0%nat, []), []) in outs.

(* Allocation traces (Model/Alloc.v): a history of calls (n, sorts) for one
   float width; cold = every call through an allocating wrapper. *)
Require Import KV.Model.Alloc.

Definition allochist (szT cold : Z) (calls : list (Z * Z)) : list Z :=
  let szT := Z.to_N szT in
  if negb (cold =? 0) then
    flat_map (fun c : Z * Z => let '(n, s) := c in
                let tr := cold_call (Z.to_N n) szT (negb (s =? 0)) in
                map Z.of_N tr ++ [-2; Z.of_N (total tr); -1]) calls
  else
    snd (fold_left (fun (acc : caps * list Z) (c : Z * Z) =>
                      let '(cp, out) := acc in let '(n, s) := c in
                      let '(cp', tr) := with_call cp (Z.to_N n) szT (negb (s =? 0)) in
                      (cp', out ++ map Z.of_N tr ++ [-2; -1]))
                   calls (caps0, [])).

(* Access counts (Model/Cost.v): linkage for the five chain methods, mst,
   nnchain; rendering = the usual run rendering followed by the count. *)
Require Import KV.Model.Cost KV.Model.Mst KV.Model.Chain.

Section CostRun.
Set Implicit Arguments.
Variable T : Type.
Variable F : fops T.
Variable of_bits : Z -> T.
Variable to_bits : T -> Z.

Definition cost_run (pf al me n : Z) (m : list Z) : list Z :=
  let p := profile_of_Z pf in
  let meth := method_of_Z me in
  let mm := map of_bits m in
  let nn := Z.to_N n in
  let r :=
    if d_new_ok nn then
      match algo_of_Z al, meth with
      | AMst, _ | ALinkage, Single =>
          mst_with_c (kops_of F Single) p (st_new T) (d_new T (N.to_nat (N.min nn two32))) mm nn
      | _, _ => nnchain_with_c (kops_of F meth) p meth (st_new T) (d_new T (N.to_nat (N.min nn two32))) mm nn
      end
    else Panic PCapacity in
  match r with
  | Ok (s, d, m', cnt) => render_run to_bits (Ok (s, d, m')) ++ [Z.of_N cnt]
  | Panic k => [1; panic_code k]
  | OutOfFuel => [2]
  end.
End CostRun.

Definition cost64 pf al me n m := cost_run F64 f64_of_bits f64_to_bits pf al me n m.
Definition cost32 pf al me n m := cost_run F32 f32_of_bits f32_to_bits pf al me n m.

(* Component operation sequences (Active, LinkageHeap, LinkageUnionFind through
   the cfg(kodama_verif) re-exports).  A panicking op leaves the model's state
   unchanged.  Tokens per op, separator -1. *)
Section CompRun.
Local Open Scope Z_scope.

Definition res_tokens {A} (r : res A) (k : A -> list Z) : list Z :=
  match r with Ok a => 0 :: k a | Panic pk => [1; panic_code pk] | OutOfFuel => [2] end.

Definition bound_of (kind v : Z) : bound :=
  match kind with 0 => Unb | 1 => Incl (Z.to_nat v) | _ => Excl (Z.to_nat v) end.

(* Active: [0;len] reset, [1;i] remove, [2;i] contains, [3] iter, [4;lk;lo;hk;hi] range *)
Definition active_step (a : active) (o : list Z) : active * list Z :=
  match o with
  | [0; len] => (a_reset a (Z.to_nat len), [0])
  | [1; i] => match a_remove a (Z.to_nat i) with
              | Ok a' => (a', [0]) | Panic pk => (a, [1; panic_code pk]) | OutOfFuel => (a, [2]) end
  | [2; i] => (a, res_tokens (a_contains a (Z.to_nat i)) (fun b => [if b then 1 else 0]))
  | [3] => (a, res_tokens (a_iter a) (map zn))
  | [4; lk; lo; hk; hi] => (a, res_tokens (a_range a (bound_of lk lo) (bound_of hk hi)) (map zn))
  | _ => (a, [9])
  end.

Definition activeops (ops : list (list Z)) : list Z :=
  snd (fold_left (fun (acc : active * list Z) o => let '(a, out) := acc in
                    let '(a', t) := active_step a o in (a', out ++ t ++ [-1])) ops (a_new, [])).

(* union-find: [0;len] reset, [1;c] find, [2;a;b] union *)
Definition uf_step (u : ufind) (o : list Z) : ufind * list Z :=
  match o with
  | [0; len] => (u_reset u (Z.to_nat len), [0])
  | [1; c] => match u_find u (Z.to_nat c) with
              | Ok (r, u') => (u', [0; zn r]) | Panic pk => (u, [1; panic_code pk]) | OutOfFuel => (u, [2]) end
  | [2; a; b] => match u_union u (Z.to_nat a) (Z.to_nat b) with
                 | Ok u' => (u', [0]) | Panic pk => (u, [1; panic_code pk]) | OutOfFuel => (u, [2]) end
  | _ => (u, [9])
  end.

Definition ufops (ops : list (list Z)) : list Z :=
  snd (fold_left (fun (acc : ufind * list Z) o => let '(u, out) := acc in
                    let '(u', t) := uf_step u o in (u', out ++ t ++ [-1])) ops (u_new, [])).

(* heap (f64): [0;len] reset, [1;v..] heapify writing v.. into the first
   priorities, [2] pop, [3] peek, [4;o] priority, [5;o;v] set_priority, [6] len *)
Notation H := (heap PrimFloat.float).
Definition hltb := PrimFloat.ltb.
Definition hmax := f_inf F64.

Definition heap_step (h : H) (o : list Z) : H * list Z :=
  match o with
  | [0; len] => (h_reset hmax h (Z.to_nat len), [0])
  | 1 :: vals =>
      let f (pr : list PrimFloat.float) :=
        Ok (firstn (length pr) (map f64_of_bits vals ++ skipn (length vals) pr)) in
      match h_heapify hltb hmax h f with
      | Ok h' => (h', [0]) | Panic pk => (h, [1; panic_code pk]) | OutOfFuel => (h, [2]) end
  | [2] => match h_pop hltb h with
           | Ok (Some x, h') => (h', [0; 1; zn x]) | Ok (None, h') => (h', [0; 0])
           | Panic pk => (h, [1; panic_code pk]) | OutOfFuel => (h, [2]) end
  | [3] => (h, match h_peek h with Some x => [0; 1; zn x] | None => [0; 0] end)
  | [4; ob] => (h, res_tokens (h_priority h (Z.to_nat ob)) (fun v => [f64_to_bits v]))
  | [5; ob; v] => match h_set_priority hltb h (Z.to_nat ob) (f64_of_bits v) with
                  | Ok h' => (h', [0]) | Panic pk => (h, [1; panic_code pk]) | OutOfFuel => (h, [2]) end
  | [6] => (h, [0; zn (length (h_heap h))])
  | _ => (h, [9])
  end.

Definition heapops (ops : list (list Z)) : list Z :=
  snd (fold_left (fun (acc : H * list Z) o => let '(h, out) := acc in
                    let '(h', t) := heap_step h o in (h', out ++ t ++ [-1])) ops (h_new PrimFloat.float, [])).
End CompRun.
