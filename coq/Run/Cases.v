(* Entry points used by generated case files. *)
Require Export KV.Model.Prelude KV.Model.Condensed KV.Model.Active KV.Model.Heap
  KV.Model.UnionFind KV.Model.Dendrogram KV.Model.Methods KV.Model.State
  KV.Model.Linkage KV.Run.Render KV.Run.F64 KV.Run.F32.

Local Open Scope Z_scope.

(* A fresh-call case: profile, algorithm, method, n, matrix bit patterns. *)
Definition case64 (pf al me : Z) (n : Z) (m : list Z) : list Z :=
  render_run f64_to_bits
    (run_fresh F64 (profile_of_Z pf) (algo_of_Z al) (method_of_Z me)
               (map f64_of_bits m) (Z.to_N n)).

Definition case32 (pf al me : Z) (n : Z) (m : list Z) : list Z :=
  render_run f32_to_bits
    (run_fresh F32 (profile_of_Z pf) (algo_of_Z al) (method_of_Z me)
               (map f32_of_bits m) (Z.to_N n)).
