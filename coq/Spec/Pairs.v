(* Spec: the row-major enumeration of the strict upper triangle. *)
From Coq Require Import List Arith Lia.
Import ListNotations.

(* (0,1),(0,2),...,(0,n-1),(1,2),...,(n-2,n-1) *)
Definition row_pairs (n r : nat) : list (nat * nat) :=
  map (fun c => (r, c)) (seq (S r) (n - 1 - r)).

Definition pairs (n : nat) : list (nat * nat) :=
  flat_map (row_pairs n) (seq 0 n).
