(* C20: bounds on the allocation model. *)
Require Import KV.Model.Prelude KV.Model.Alloc.

Local Open Scope N_scope.

Lemma grow_enough cap need elem : need <= cap -> grow cap need elem = (cap, []).
Proof. intros H. unfold grow. destruct (N.leb_spec need cap); [reflexivity|lia]. Qed.

Lemma push_many_enough k : forall len cap, len + N.of_nat k <= cap -> push_many k len cap = (cap, []).
Proof.
  induction k as [|k IH]; intros len cap H; [reflexivity|].
  cbn [push_many]. rewrite grow_enough by lia. rewrite IH by lia. reflexivity.
Qed.

(* the sort buffer: at most one request, at most 32(n-1) bytes *)
Lemma sort_scratch_bound sorts len :
  len <= 250000 -> (length (sort_scratch sorts len) <= 1)%nat /\ total (sort_scratch sorts len) <= 32 * len.
Proof.
  intros Hl. unfold sort_scratch. destruct sorts; [|cbn; split; lia].
  change (8000000 / step_bytes) with 250000. change (4096 / step_bytes) with 128. unfold step_bytes.
  assert (E : N.min len 250000 = len) by lia. rewrite E.
  set (half := len - len / 2).
  assert (Hh : half <= len) by apply N.le_sub_l. clearbody half.
  destruct (N.leb_spec (N.max (N.max half len) 48) 128); cbn [length total fold_right]; split; lia.
Qed.

(* WARM: a `_with` call on objects already used for at least as many
   observations performs at most one allocation - the sort buffer - of at most
   64 n + 1024 bytes, independent of the input, and leaves the capacities as
   they were. *)
Theorem warm_call (c : caps) (n szT : N) (sorts : bool) :
  n <= 250000 -> enough c n ->
  fst (with_call c n szT sorts) = c
  /\ (length (snd (with_call c n szT sorts)) <= 1)%nat
  /\ total (snd (with_call c n szT sorts)) <= 64 * n + 1024.
Proof.
  intros Hn (H1 & H2 & H3 & H4 & H5 & H6 & H7 & H8 & H9 & H10 & H11 & H12).
  unfold with_call. destruct (N.leb_spec n 1) as [Hs|Hs].
  - cbn. repeat split; lia.
  - rewrite !grow_enough by assumption.
    rewrite push_many_enough by (rewrite N2Nat.id; lia).
    cbn [app fst snd].
    split; [destruct c; reflexivity|].
    pose proof (sort_scratch_bound sorts (n - 1) ltac:(lia)) as [Hl Ht]. split; [exact Hl|lia].
Qed.

(* total of the pushes into a vector that already has capacity for them is 0;
   in a cold call Dendrogram::new reserved n >= n-1 steps *)
Lemma grow_total cap need elem :
  total (snd (grow cap need elem)) <= elem * N.max (N.max (2 * cap) need) (min_cap elem).
Proof.
  unfold grow. destruct (N.leb_spec need cap); cbn; lia.
Qed.

Lemma grow_from_zero need elem : 0 < need ->
  grow 0 need elem = (N.max need (min_cap elem), [N.max need (min_cap elem) * elem]).
Proof.
  intros H. unfold grow. destruct (N.leb_spec need 0); [lia|].
  replace (N.max (2 * 0) need) with need by lia. reflexivity.
Qed.

(* COLD: peak live bytes beyond the caller's matrix of one call through an
   allocating wrapper, for every n, both float widths, sorting or not. *)
Theorem cold_peak (n szT : N) (sorts : bool) :
  n <= 250000 -> (szT = 4 \/ szT = 8) -> total (cold_call n szT sorts) <= 512 * n + 4096.
Proof.
  intros Hn Hsz. unfold cold_call, with_call.
  destruct (N.eqb_spec n 0) as [->|Hn0]; [vm_compute; discriminate|].
  destruct (N.leb_spec n 1) as [Hs|Hs].
  - assert (n = 1) as -> by lia. vm_compute. discriminate.
  - cbn [c_sizes c_prev c_next c_min c_parents c_chain c_heap c_obsv c_prio c_removed c_nearest c_steps].
    rewrite push_many_enough by (rewrite N2Nat.id; lia).
    rewrite !grow_from_zero by lia.
    cbn [fst snd app].
    pose proof (sort_scratch_bound sorts (n - 1) ltac:(lia)) as [_ Ht].
    unfold total in *. cbn [fold_right].
    set (S := fold_right N.add 0 (sort_scratch sorts (n - 1))) in *.
    assert (Hu : min_cap usize_b = 4) by reflexivity.
    assert (H1 : min_cap 1 = 8) by reflexivity.
    assert (Hs4 : min_cap szT = 4) by (destruct Hsz as [->| ->]; reflexivity).
    rewrite Hu, H1, Hs4. unfold usize_b, step_bytes.
    destruct Hsz as [->| ->]; lia.
Qed.

(* capacities never shrink *)
Lemma grow_mono cap need elem : cap <= fst (grow cap need elem) /\ need <= fst (grow cap need elem).
Proof. unfold grow. destruct (N.leb_spec need cap); cbn; lia. Qed.

Example warm_nonvacuous :
  let c := fst (with_call caps0 300 8 true) in
  enough c 300 /\ enough c 200 /\ snd (with_call c 200 8 true) = [6368] /\ snd (with_call c 100 8 true) = [].
Proof. vm_compute. repeat split; try discriminate; reflexivity. Qed.

Lemma push_many_mono k : forall len cap,
  cap <= fst (push_many k len cap) /\ (len + N.of_nat k <= fst (push_many k len cap) \/ k = O).
Proof.
  induction k as [|k IH]; intros len cap; [cbn; split; [lia|right; reflexivity]|].
  cbn [push_many]. destruct (grow cap (len + 1) step_bytes) as [cap1 a1] eqn:G.
  destruct (push_many k (len + 1) cap1) as [cap2 a2] eqn:P. cbn [fst].
  pose proof (grow_mono cap (len + 1) step_bytes) as [G1 G2]. rewrite G in G1, G2. cbn [fst] in G1, G2.
  destruct (IH (len + 1) cap1) as [I1 I2]. rewrite P in I1, I2. cbn [fst] in I1, I2.
  split; [lia|]. left. destruct I2 as [I2| ->]; [lia|]. cbn in *. lia.
Qed.

Definition le_caps (a b : caps) : Prop :=
  c_sizes a <= c_sizes b /\ c_prev a <= c_prev b /\ c_next a <= c_next b /\ c_min a <= c_min b
  /\ c_parents a <= c_parents b /\ c_chain a <= c_chain b /\ c_heap a <= c_heap b
  /\ c_obsv a <= c_obsv b /\ c_prio a <= c_prio b /\ c_removed a <= c_removed b
  /\ c_nearest a <= c_nearest b /\ c_steps a <= c_steps b.

(* a call never shrinks a capacity, and afterwards the objects are big enough
   for the size just clustered *)
Theorem with_call_caps (c : caps) (n szT : N) (sorts : bool) :
  le_caps c (fst (with_call c n szT sorts)) /\ (2 <= n -> enough (fst (with_call c n szT sorts)) n).
Proof.
  unfold with_call. destruct (N.leb_spec n 1) as [Hs|Hs].
  - cbn [fst]. split; [unfold le_caps; repeat split; lia|lia].
  - repeat match goal with
           | |- context [grow ?cap ?need ?elem] =>
               let H := fresh "G" in let c := fresh "cap" in let a := fresh "a" in
               pose proof (grow_mono cap need elem) as H;
               destruct (grow cap need elem) as [c a]; cbn [fst] in H
           end.
    pose proof (push_many_mono (N.to_nat (n - 1)) 0 (c_steps c)) as [P1 P2].
    destruct (push_many (N.to_nat (n - 1)) 0 (c_steps c)) as [cs ap]. cbn [fst] in *.
    rewrite N2Nat.id in P2.
    split.
    + unfold le_caps. cbn [c_sizes c_prev c_next c_min c_parents c_chain c_heap c_obsv c_prio c_removed c_nearest c_steps].
      repeat split; lia.
    + intros _. unfold enough. cbn [c_sizes c_prev c_next c_min c_parents c_chain c_heap c_obsv c_prio c_removed c_nearest c_steps].
      repeat split; lia.
Qed.

Lemma enough_mono (a b : caps) (n : N) : le_caps a b -> enough a n -> enough b n.
Proof. unfold le_caps, enough. intros. repeat split; lia. Qed.

Lemma enough_smaller (c : caps) (n m : N) : m <= n -> enough c n -> enough c m.
Proof. unfold enough. intros. repeat split; lia. Qed.

(* histories of `_with` calls (sizes that stay, shrink and grow; any methods,
   any float width): once a size n' >= 2 has been clustered, every later call
   for n <= n' is warm. *)
Definition run_calls (c : caps) (calls : list (N * N * bool)) : caps :=
  fold_left (fun c x => let '(n, szT, sorts) := x in fst (with_call c n szT sorts)) calls c.

Theorem warm_after_history (calls : list (N * N * bool)) : forall (c : caps) (n' n szT : N) (sorts : bool),
  (exists szT' sorts', In (n', szT', sorts') calls) -> 2 <= n' -> n <= n' -> n <= 250000 ->
  let c' := run_calls c calls in
  enough c' n
  /\ (length (snd (with_call c' n szT sorts)) <= 1)%nat
  /\ total (snd (with_call c' n szT sorts)) <= 64 * n + 1024.
Proof.
  assert (Mono : forall calls c n, enough c n -> enough (run_calls c calls) n).
  { clear. induction calls as [|[[m s] b] calls IH]; intros c n H; [exact H|].
    cbn [run_calls fold_left]. apply IH. eapply enough_mono; [apply with_call_caps|exact H]. }
  induction calls as [|[[m s] b] calls IH]; intros c n' n szT sorts (szT' & sorts' & Hin) Hn' Hle Hbig.
  - destruct Hin.
  - cbn zeta. assert (E : enough (run_calls c ((m, s, b) :: calls)) n).
    { destruct Hin as [Heq|Hin].
      + inversion Heq; subst. cbn [run_calls fold_left]. apply Mono.
        apply enough_smaller with n'; [exact Hle|]. apply with_call_caps. exact Hn'.
      + cbn [run_calls fold_left].
        exact (proj1 (IH (fst (with_call c m s b)) n' n szT sorts (ex_intro _ szT' (ex_intro _ sorts' Hin)) Hn' Hle Hbig)). }
    split; [exact E|]. pose proof (warm_call (run_calls c ((m, s, b) :: calls)) n szT sorts Hbig E) as (_ & W1 & W2).
    split; assumption.
Qed.
