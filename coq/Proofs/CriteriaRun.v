(* C02 for whole runs of the primitive algorithm: instances of the generic
   Lance-Williams invariant (LWInvariant.primitive_criterion).

   - single / complete, for ANY carrier whose comparison is a strict weak
     order: every recorded height is the minimum / maximum dissimilarity over
     the cross pairs of the two clusters merged;
   - average, weighted, centroid, median, ward, in exact rational arithmetic:
     every recorded height is the closed-form criterion of the two clusters
     merged, written with a symmetric bilinear form over weight vectors on the
     original observations (uniform weights 1/|A| for average/centroid/ward,
     the dyadic weights of the merge tree for weighted/median). *)
Require Import KV.Model.Prelude KV.Model.Condensed KV.Model.Dendrogram KV.Model.Methods
  KV.Model.State KV.Model.Primitive
  KV.Proofs.PrimitiveGreedy KV.Proofs.UpdateSpec KV.Proofs.SortProofs KV.Proofs.Criteria KV.Proofs.LWInvariant.
From Coq Require Import QArith Qabs Field Qfield Permutation.

Set Implicit Arguments.
Local Close Scope Q_scope.

(* ------------------------------------------------------------------ *)
(* single / complete *)
Section MinMax.
Variable T : Type.
Variable ltb : T -> T -> bool.
Hypothesis ltb_irrefl : forall a, ltb a a = false.
Hypothesis ltb_trans : forall a b c, ltb a b = true -> ltb b c = true -> ltb a c = true.
Hypothesis ltb_negtrans : forall a b c, ltb a b = false -> ltb b c = false -> ltb a c = false.
Variable d0 : nat -> nat -> T.
Hypothesis d0_sym : forall x y, d0 x y = d0 y x.

(* v is attained on, and is a lower (upper) bound of, the cross pairs *)
Definition is_min_over (A B : mtree) (v : T) : Prop :=
  (exists x y, In x (leaves A) /\ In y (leaves B) /\ v = d0 x y)
  /\ forall x y, In x (leaves A) -> In y (leaves B) -> ltb (d0 x y) v = false.

Definition is_max_over (A B : mtree) (v : T) : Prop :=
  (exists x y, In x (leaves A) /\ In y (leaves B) /\ v = d0 x y)
  /\ forall x y, In x (leaves A) -> In y (leaves B) -> ltb v (d0 x y) = false.

Lemma min_sym A B v : is_min_over A B v -> is_min_over B A v.
Proof.
  intros [(x & y & Hx & Hy & E) Hb]. split.
  - exists y, x. rewrite d0_sym. auto.
  - intros x' y' Hx' Hy'. rewrite d0_sym. apply Hb; assumption.
Qed.

Lemma max_sym A B v : is_max_over A B v -> is_max_over B A v.
Proof.
  intros [(x & y & Hx & Hy & E) Hb]. split.
  - exists y, x. rewrite d0_sym. auto.
  - intros x' y' Hx' Hy'. rewrite d0_sym. apply Hb; assumption.
Qed.

Lemma min_merge X A B va vb :
  is_min_over X A va -> is_min_over X B vb ->
  is_min_over X (Node A B) (if ltb va vb then va else vb).
Proof.
  intros [(xa & ya & Hxa & Hya & Ea) Ha] [(xb & yb & Hxb & Hyb & Eb) Hb]. cbn [leaves].
  destruct (ltb va vb) eqn:C; split.
  - exists xa, ya. split; [exact Hxa|]. split; [apply in_or_app; left; exact Hya|exact Ea].
  - intros x y Hx Hy. apply in_app_or in Hy. destruct Hy as [Hy|Hy]; [apply Ha; assumption|].
    destruct (ltb (d0 x y) va) eqn:C2; [|reflexivity].
    pose proof (@ltb_trans _ _ _ C2 C) as C3. rewrite (Hb x y Hx Hy) in C3. discriminate.
  - exists xb, yb. split; [exact Hxb|]. split; [apply in_or_app; right; exact Hyb|exact Eb].
  - intros x y Hx Hy. apply in_app_or in Hy. destruct Hy as [Hy|Hy]; [|apply Hb; assumption].
    exact (@ltb_negtrans _ _ _ (Ha x y Hx Hy) C).
Qed.

Lemma max_merge X A B va vb :
  is_max_over X A va -> is_max_over X B vb ->
  is_max_over X (Node A B) (if ltb vb va then va else vb).
Proof.
  intros [(xa & ya & Hxa & Hya & Ea) Ha] [(xb & yb & Hxb & Hyb & Eb) Hb]. cbn [leaves].
  destruct (ltb vb va) eqn:C; split.
  - exists xa, ya. split; [exact Hxa|]. split; [apply in_or_app; left; exact Hya|exact Ea].
  - intros x y Hx Hy. apply in_app_or in Hy. destruct Hy as [Hy|Hy]; [apply Ha; assumption|].
    destruct (ltb va (d0 x y)) eqn:C2; [|reflexivity].
    pose proof (@ltb_trans _ _ _ C C2) as C3. rewrite (Hb x y Hx Hy) in C3. discriminate.
  - exists xb, yb. split; [exact Hxb|]. split; [apply in_or_app; right; exact Hyb|exact Eb].
  - intros x y Hx Hy. apply in_app_or in Hy. destruct Hy as [Hy|Hy]; [|apply Hb; assumption].
    exact (@ltb_negtrans _ _ _ C (Ha x y Hx Hy)).
Qed.

End MinMax.

(* the original (post-prologue) dissimilarity as a total symmetric function *)
Definition cell_or {T} (dflt : T) (M : cmat T) (x y : nat) : T :=
  match wcell M x y with Some v => v | None => dflt end.

Lemma cell_or_sym {T} (dflt : T) (M : cmat T) x y : cell_or dflt M x y = cell_or dflt M y x.
Proof. unfold cell_or. rewrite wcell_sym. reflexivity. Qed.

Section MinMaxRun.
Variable T : Type.
Variable F : fops T.
Variable p : profile.
Hypothesis ltb_irrefl : forall a, f_ltb F a a = false.
Hypothesis ltb_trans : forall a b c, f_ltb F a b = true -> f_ltb F b c = true -> f_ltb F a c = true.
Hypothesis ltb_negtrans : forall a b c, f_ltb F a b = false -> f_ltb F b c = false -> f_ltb F a c = false.

Theorem single_run s d m n s' d' m' M0 :
  primitive_with (kops_of F Single) p Single s d m n = Ok (s', d', m') ->
  prologue p m n = Ok M0 ->
  exists raw tr L' mem',
    mtrace (seq 0 (m_obs M0)) Leaf tr L' mem'
    /\ Forall2 (fun st (ab : mtree * mtree) =>
                  is_min_over (f_ltb F) (cell_or (f_inf F) M0) (fst ab) (snd ab) (s_dis st)) raw tr
    /\ length raw = m_obs M0 - 1
    /\ Permutation (heights d') (map (@s_dis T) raw).
Proof.
  intros H HM0.
  assert (Hsq : square_all (kops_of F Single) m = m).
  { unfold square_all. cbn [kops_of k_sq on_squares]. apply map_id. }
  destruct (@primitive_criterion T (kops_of F Single) p Single ltb_trans ltb_irrefl
              (is_min_over (f_ltb F) (cell_or (f_inf F) M0))
              (@min_sym T (f_ltb F) _ (cell_or_sym (f_inf F) M0))
              ltac:(intros X A B va vb md Ha Hb _; exact (@min_merge T (f_ltb F) ltb_trans ltb_negtrans _ X A B va vb Ha Hb))
              s d m n s' d' m' M0 H ltac:(rewrite Hsq; exact HM0)
              ltac:(intros x y v Hxy Hx Hy Hv; split;
                    [exists x, y; cbn [leaves]; split; [left; reflexivity|]; split; [left; reflexivity|];
                     unfold cell_or; rewrite Hv; reflexivity
                    |intros x' y' [<-|[]] [<-|[]]; unfold cell_or; rewrite Hv; apply ltb_irrefl]))
    as (raw & tr & L' & mem' & Htr & HF & Hlen & Hperm & _).
  exists raw, tr, L', mem'. split; [exact Htr|]. split; [exact HF|]. split; [exact Hlen|].
  cbn [kops_of k_rt on_squares] in Hperm. rewrite map_id in Hperm. exact Hperm.
Qed.

Theorem complete_run s d m n s' d' m' M0 :
  primitive_with (kops_of F Complete) p Complete s d m n = Ok (s', d', m') ->
  prologue p m n = Ok M0 ->
  exists raw tr L' mem',
    mtrace (seq 0 (m_obs M0)) Leaf tr L' mem'
    /\ Forall2 (fun st (ab : mtree * mtree) =>
                  is_max_over (f_ltb F) (cell_or (f_inf F) M0) (fst ab) (snd ab) (s_dis st)) raw tr
    /\ length raw = m_obs M0 - 1
    /\ Permutation (heights d') (map (@s_dis T) raw).
Proof.
  intros H HM0.
  assert (Hsq : square_all (kops_of F Complete) m = m).
  { unfold square_all. cbn [kops_of k_sq on_squares]. apply map_id. }
  destruct (@primitive_criterion T (kops_of F Complete) p Complete ltb_trans ltb_irrefl
              (is_max_over (f_ltb F) (cell_or (f_inf F) M0))
              (@max_sym T (f_ltb F) _ (cell_or_sym (f_inf F) M0))
              ltac:(intros X A B va vb md Ha Hb _; exact (@max_merge T (f_ltb F) ltb_trans ltb_negtrans _ X A B va vb Ha Hb))
              s d m n s' d' m' M0 H ltac:(rewrite Hsq; exact HM0)
              ltac:(intros x y v Hxy Hx Hy Hv; split;
                    [exists x, y; cbn [leaves]; split; [left; reflexivity|]; split; [left; reflexivity|];
                     unfold cell_or; rewrite Hv; reflexivity
                    |intros x' y' [<-|[]] [<-|[]]; unfold cell_or; rewrite Hv; apply ltb_irrefl]))
    as (raw & tr & L' & mem' & Htr & HF & Hlen & Hperm & _).
  exists raw, tr, L', mem'. split; [exact Htr|]. split; [exact HF|]. split; [exact Hlen|].
  cbn [kops_of k_rt on_squares] in Hperm. rewrite map_id in Hperm. exact Hperm.
Qed.

End MinMaxRun.

(* ------------------------------------------------------------------ *)
(* the arithmetic criteria, in exact rational arithmetic *)
Local Open Scope Q_scope.

(* the Float operations over Q with an arbitrary function standing for sqrt
   (the update formulas never call it; it is applied once to the final
   heights of the squared-domain methods) *)
Definition QFr (rt : Q -> Q) : fops Q :=
  {| f_ltb := f_ltb QF; f_eqb := f_eqb QF;
     f_add := Qplus; f_sub := Qminus; f_mul := Qmult; f_div := Qdiv;
     f_sqrt := rt; f_abs := Qabs;
     f_of_nat := fun n => inject_Z (Z.of_nat n);
     f_half := 1 # 2; f_quarter := 1 # 4;
     f_inf := 0; f_max := 0 |}.

Lemma upd_QFr rt m a b md sa sb sx : upd_of (QFr rt) m a b md sa sb sx = upd_of QF m a b md sa sb sx.
Proof. destruct m; reflexivity. Qed.

Lemma qlt_irrefl a : f_ltb QF a a = false.
Proof. cbn. rewrite (proj2 (Qle_bool_iff a a) (Qle_refl a)). reflexivity. Qed.

Lemma qlt_iff a b : f_ltb QF a b = true <-> a < b.
Proof.
  cbn. destruct (Qle_bool b a) eqn:E; cbn; split; intros H; try discriminate.
  - apply Qle_bool_iff in E. exfalso. exact (Qlt_not_le _ _ H E).
  - apply Qnot_le_lt. intros C. apply Qle_bool_iff in C. congruence.
  - reflexivity.
Qed.

Lemma qlt_trans a b c : f_ltb QF a b = true -> f_ltb QF b c = true -> f_ltb QF a c = true.
Proof. rewrite !qlt_iff. apply Qlt_trans. Qed.

Lemma qlt_negtrans a b c : f_ltb QF a b = false -> f_ltb QF b c = false -> f_ltb QF a c = false.
Proof.
  intros H1 H2. destruct (f_ltb QF a c) eqn:E; [|reflexivity]. apply qlt_iff in E.
  assert (Hba : b <= a). { apply Qnot_lt_le. intros C. apply qlt_iff in C. congruence. }
  assert (Hcb : c <= b). { apply Qnot_lt_le. intros C. apply qlt_iff in C. congruence. }
  exfalso. apply (Qlt_not_le _ _ E). apply Qle_trans with b; assumption.
Qed.

Section Bil.
Variable d0 : nat -> nat -> Q.
Hypothesis d0_sym : forall x y, d0 x y = d0 y x.

Definition wl := list (nat * Q).

(* sum_y t_y d0(x,y) and the bilinear form sum_x sum_y s_x t_y d0(x,y) *)
Definition row (x : nat) (v : wl) : Q := fold_right (fun yt acc => snd yt * d0 x (fst yt) + acc) 0 v.
Definition bil (u v : wl) : Q := fold_right (fun xs acc => snd xs * row (fst xs) v + acc) 0 u.
Definition scale (s : Q) (u : wl) : wl := map (fun xs => (fst xs, s * snd xs)) u.

Lemma row_nil x : row x [] = 0. Proof. reflexivity. Qed.
Lemma row_cons x yt v : row x (yt :: v) = snd yt * d0 x (fst yt) + row x v. Proof. reflexivity. Qed.
Lemma bil_nil v : bil [] v = 0. Proof. reflexivity. Qed.
Lemma bil_cons xs u v : bil (xs :: u) v = snd xs * row (fst xs) v + bil u v. Proof. reflexivity. Qed.
Lemma scale_cons s xs u : scale s (xs :: u) = (fst xs, s * snd xs) :: scale s u. Proof. reflexivity. Qed.

Lemma row_app x v w : row x (v ++ w) == row x v + row x w.
Proof. induction v as [|yt v IH]; [rewrite row_nil; cbn [app]; ring|]. cbn [app]. rewrite !row_cons, IH. ring. Qed.

Lemma row_scale x t v : row x (scale t v) == t * row x v.
Proof.
  induction v as [|yt v IH]; [cbn [scale map]; rewrite row_nil; ring|].
  rewrite scale_cons, !row_cons, IH. cbn [fst snd]. ring.
Qed.

Lemma bil_app_l u u' v : bil (u ++ u') v == bil u v + bil u' v.
Proof. induction u as [|xs u IH]; [rewrite bil_nil; cbn [app]; ring|]. cbn [app]. rewrite !bil_cons, IH. ring. Qed.

Lemma bil_scale_l s u v : bil (scale s u) v == s * bil u v.
Proof.
  induction u as [|xs u IH]; [cbn [scale map]; rewrite bil_nil; ring|].
  rewrite scale_cons, !bil_cons, IH. cbn [fst snd]. ring.
Qed.

Lemma bil_app_r u v v' : bil u (v ++ v') == bil u v + bil u v'.
Proof.
  induction u as [|xs u IH]; [rewrite !bil_nil; ring|].
  rewrite !bil_cons, IH, row_app. ring.
Qed.

Lemma bil_scale_r t u v : bil u (scale t v) == t * bil u v.
Proof.
  induction u as [|xs u IH]; [rewrite !bil_nil; ring|].
  rewrite !bil_cons, IH, row_scale. ring.
Qed.

Lemma bil_nil_r u : bil u [] == 0.
Proof. induction u as [|xs u IH]; [reflexivity|]. rewrite bil_cons, IH, row_nil. ring. Qed.

Lemma bil_cons_r u x s v : bil u ((x, s) :: v) == s * row x u + bil u v.
Proof.
  induction u as [|yt u IH]; [rewrite !bil_nil, row_nil; ring|].
  rewrite !bil_cons, !row_cons, IH. cbn [fst snd]. rewrite (d0_sym (fst yt) x). ring.
Qed.

Lemma bil_sym u v : bil u v == bil v u.
Proof.
  induction u as [|[x s] u IH]; [rewrite bil_nil, bil_nil_r; reflexivity|].
  rewrite bil_cons_r, bil_cons. cbn [fst snd]. rewrite IH. reflexivity.
Qed.

(* weights: uniform 1/|A| on the leaves, and the dyadic weights of the tree *)
Definition uw (A : mtree) : wl := map (fun x => (x, / qn (tsize A))) (leaves A).
Fixpoint hw (A : mtree) : wl :=
  match A with Leaf i => [(i, 1)] | Node l r => scale (1 # 2) (hw l) ++ scale (1 # 2) (hw r) end.

Lemma tsize_pos A : (0 < tsize A)%nat.
Proof. induction A; cbn [tsize]; lia. Qed.

Lemma tsize_leaves A : tsize A = length (leaves A).
Proof. induction A as [|l IHl r IHr]; cbn [tsize leaves length]; [reflexivity|]. rewrite app_length. lia. Qed.

Definition rsum (l : list nat) (w : wl) : Q := fold_right (fun x acc => row x w + acc) 0 l.

Lemma rsum_nil w : rsum [] w = 0. Proof. reflexivity. Qed.
Lemma rsum_cons x l w : rsum (x :: l) w = row x w + rsum l w. Proof. reflexivity. Qed.

Lemma rsum_app l l' w : rsum (l ++ l') w == rsum l w + rsum l' w.
Proof. induction l as [|x l IH]; [rewrite rsum_nil; cbn [app]; ring|]. cbn [app]. rewrite !rsum_cons, IH. ring. Qed.

Lemma bil_const c l w : bil (map (fun x => (x, c)) l) w == c * rsum l w.
Proof.
  induction l as [|x l IH]; [cbn [map]; rewrite bil_nil, rsum_nil; ring|].
  cbn [map]. rewrite bil_cons, rsum_cons, IH. cbn [fst snd]. ring.
Qed.

Lemma qn_sum_nonzero a b : (0 < a)%nat -> (0 < b)%nat -> ~ qn a + qn b == 0.
Proof.
  intros Ha Hb E. pose proof (qn_pos _ Ha) as Pa. pose proof (qn_pos _ Hb) as Pb.
  assert (P : 0 < qn a + qn b) by (apply Qlt_trans with (qn a); [assumption|]; rewrite <- (Qplus_0_r (qn a)) at 1; apply Qplus_lt_r; assumption).
  rewrite E in P. exact (Qlt_irrefl 0 P).
Qed.

(* merging two clusters mixes their weight vectors with s + t = 1 *)
Definition us (A B : mtree) : Q := qn (tsize A) / qn (tsize A + tsize B).
Definition ut (A B : mtree) : Q := qn (tsize B) / qn (tsize A + tsize B).

Lemma us_ut A B : us A B + ut A B == 1.
Proof.
  unfold us, ut. rewrite qn_add. field. apply qn_sum_nonzero; apply tsize_pos.
Qed.

Lemma uw_mix A B w : bil (uw (Node A B)) w == us A B * bil (uw A) w + ut A B * bil (uw B) w.
Proof.
  unfold uw, us, ut. cbn [tsize leaves]. rewrite map_app, bil_app_l, !bil_const, qn_add.
  pose proof (qn_nonzero _ (tsize_pos A)). pose proof (qn_nonzero _ (tsize_pos B)).
  pose proof (qn_sum_nonzero (tsize_pos A) (tsize_pos B)).
  field. repeat split; assumption.
Qed.

Lemma hw_mix A B w : bil (hw (Node A B)) w == (1 # 2) * bil (hw A) w + (1 # 2) * bil (hw B) w.
Proof. cbn [hw]. rewrite bil_app_l, !bil_scale_l. reflexivity. Qed.

(* consequences of a mix law, by symmetry *)
Section Mix.
Variable W : mtree -> wl.
Variables (A B : mtree) (s t : Q).
Hypothesis mix : forall w, bil (W (Node A B)) w == s * bil (W A) w + t * bil (W B) w.

Lemma mix_r X : bil (W X) (W (Node A B)) == s * bil (W A) (W X) + t * bil (W B) (W X).
Proof. rewrite bil_sym, mix. reflexivity. Qed.

Lemma mix_self : bil (W (Node A B)) (W (Node A B))
  == s * s * bil (W A) (W A) + 2 * s * t * bil (W A) (W B) + t * t * bil (W B) (W B).
Proof.
  rewrite mix. rewrite (bil_sym (W A) (W (Node A B))), (bil_sym (W B) (W (Node A B))), !mix.
  rewrite (bil_sym (W B) (W A)). ring.
Qed.
End Mix.

(* the five criteria *)
Definition crit_average (A B : mtree) (v : Q) : Prop := v == bil (uw A) (uw B).
Definition crit_weighted (A B : mtree) (v : Q) : Prop := v == bil (hw A) (hw B).
Definition Dw (W : mtree -> wl) (A B : mtree) : Q := Dq (bil (W A) (W B)) (bil (W A) (W A)) (bil (W B) (W B)).
Definition crit_centroid (A B : mtree) (v : Q) : Prop := v == Dw uw A B.
Definition crit_median (A B : mtree) (v : Q) : Prop := v == Dw hw A B.
Definition crit_ward (A B : mtree) (v : Q) : Prop := v == Wq (tsize A) (tsize B) (Dw uw A B).

Lemma Dw_sym W A B : Dw W A B == Dw W B A.
Proof. unfold Dw, Dq. rewrite (bil_sym (W A) (W B)). ring. Qed.

(* average is the mean over the cross pairs *)
Definition dsum (x : nat) (l : list nat) : Q := fold_right (fun y acc => d0 x y + acc) 0 l.
Definition cross_sum (A B : mtree) : Q := fold_right (fun x acc => dsum x (leaves B) + acc) 0 (leaves A).

Lemma row_const x c l : row x (map (fun y => (y, c)) l) == c * dsum x l.
Proof.
  induction l as [|y l IH]; [cbn [map dsum fold_right]; rewrite row_nil; ring|].
  cbn [map]. rewrite row_cons, IH. cbn [fst snd dsum fold_right]. fold (dsum x l). ring.
Qed.

Lemma rsum_const c l l' : rsum l (map (fun y => (y, c)) l') == c * fold_right (fun x acc => dsum x l' + acc) 0 l.
Proof.
  induction l as [|x l IH]; [rewrite rsum_nil; cbn [fold_right]; ring|].
  rewrite rsum_cons, IH, row_const. cbn [fold_right]. ring.
Qed.

Theorem average_is_cross_mean A B : bil (uw A) (uw B) == cross_sum A B / (qn (tsize A) * qn (tsize B)).
Proof.
  unfold uw at 1. rewrite bil_const. unfold uw. rewrite rsum_const. unfold cross_sum.
  field. split; apply qn_nonzero; apply tsize_pos.
Qed.

End Bil.

(* the update formulas respect ==  *)
Lemma upd_proper m va va' vb vb' md md' sa sb sx :
  m <> Single -> m <> Complete -> va == va' -> vb == vb' -> md == md' ->
  upd_of QF m va vb md sa sb sx == upd_of QF m va' vb' md' sa sb sx.
Proof.
  intros H1 H2 Ea Eb Em. destruct m; try contradiction; cbn; rewrite Ea, Eb, ?Em; reflexivity.
Qed.

Section ArithRun.
Variable p : profile.
Variable rt : Q -> Q.
Variable M0 : cmat Q.

(* the (for centroid, median, ward: squared) dissimilarity of the input, 0 on the diagonal *)
Definition dd (x y : nat) : Q := if (x =? y)%nat then 0 else cell_or 0 M0 x y.

Lemma dd_sym x y : dd x y = dd y x.
Proof. unfold dd. rewrite Nat.eqb_sym, cell_or_sym. reflexivity. Qed.

Notation B := (bil dd).

Lemma bil_leaf_u x y : B (uw (Leaf x)) (uw (Leaf y)) == dd x y.
Proof. unfold uw. cbn [leaves map tsize]. rewrite bil_cons, bil_nil, row_cons, row_nil. cbn [fst snd]. unfold qn. cbn. field. Qed.

Lemma bil_leaf_h x y : B (hw (Leaf x)) (hw (Leaf y)) == dd x y.
Proof. cbn [hw]. rewrite bil_cons, bil_nil, row_cons, row_nil. cbn [fst snd]. ring. Qed.

Lemma dd_diag x : dd x x = 0.
Proof. unfold dd. rewrite Nat.eqb_refl. reflexivity. Qed.

Lemma dd_cell x y v : x <> y -> wcell M0 x y = Some v -> dd x y = v.
Proof. intros Hxy Hv. unfold dd, cell_or. destruct (Nat.eqb_spec x y); [contradiction|]. rewrite Hv. reflexivity. Qed.

(* symmetry *)
Lemma average_sym A Bt v : crit_average dd A Bt v -> crit_average dd Bt A v.
Proof. unfold crit_average. intros ->. apply bil_sym. exact dd_sym. Qed.
Lemma weighted_sym A Bt v : crit_weighted dd A Bt v -> crit_weighted dd Bt A v.
Proof. unfold crit_weighted. intros ->. apply bil_sym. exact dd_sym. Qed.
Lemma centroid_sym A Bt v : crit_centroid dd A Bt v -> crit_centroid dd Bt A v.
Proof. unfold crit_centroid. intros ->. apply Dw_sym. exact dd_sym. Qed.
Lemma median_sym A Bt v : crit_median dd A Bt v -> crit_median dd Bt A v.
Proof. unfold crit_median. intros ->. apply Dw_sym. exact dd_sym. Qed.
Lemma Wq_comm a b D : Wq a b D == Wq b a D.
Proof.
  unfold Wq. destruct a, b.
  - reflexivity.
  - unfold qn. cbn [Z.of_nat inject_Z]. unfold Qdiv. ring.
  - unfold qn. cbn [Z.of_nat inject_Z]. unfold Qdiv. ring.
  - pose proof (@qn_sum_nonzero (S a) (S b) ltac:(lia) ltac:(lia)).
    field; repeat split; (assumption || (rewrite Qplus_comm; assumption)).
Qed.

Lemma Wq_proper a b D D' : D == D' -> Wq a b D == Wq a b D'.
Proof. intros E. unfold Wq. rewrite E. reflexivity. Qed.

Lemma ward_sym A Bt v : crit_ward dd A Bt v -> crit_ward dd Bt A v.
Proof.
  unfold crit_ward. intros ->. rewrite Wq_comm. apply Wq_proper. apply (Dw_sym dd dd_sym).
Qed.

(* the one-merge laws *)
Lemma average_merge X A Bt va vb md sx :
  crit_average dd X A va -> crit_average dd X Bt vb ->
  crit_average dd X (Node A Bt) (upd_of QF Average va vb md (tsize A) (tsize Bt) sx).
Proof.
  unfold crit_average. intros Ea Eb.
  rewrite (mix_r dd dd_sym uw A Bt (uw_mix dd A Bt) X).
  rewrite (bil_sym dd dd_sym (uw A) (uw X)), (bil_sym dd dd_sym (uw Bt) (uw X)), <- Ea, <- Eb.
  cbn. fold (qn (tsize A)) (qn (tsize Bt)). unfold us, ut. rewrite qn_add.
  pose proof (qn_sum_nonzero (tsize_pos A) (tsize_pos Bt)). field. assumption.
Qed.

Lemma weighted_merge X A Bt va vb md sa sb sx :
  crit_weighted dd X A va -> crit_weighted dd X Bt vb ->
  crit_weighted dd X (Node A Bt) (upd_of QF Weighted va vb md sa sb sx).
Proof.
  unfold crit_weighted. intros Ea Eb.
  rewrite (mix_r dd dd_sym hw A Bt (hw_mix dd A Bt) X).
  rewrite (bil_sym dd dd_sym (hw A) (hw X)), (bil_sym dd dd_sym (hw Bt) (hw X)), <- Ea, <- Eb.
  cbn. field.
Qed.

Lemma Dw_merge W A Bt s t X :
  (forall w, B (W (Node A Bt)) w == s * B (W A) w + t * B (W Bt) w) ->
  Dw dd W X (Node A Bt)
  == Dq (Bmw (B (W A) (W X)) (B (W Bt) (W X)) s t) (Bmm (B (W A) (W A)) (B (W Bt) (W Bt)) (B (W A) (W Bt)) s t) (B (W X) (W X)).
Proof.
  intros mix. unfold Dw, Dq, Bmw, Bmm. rewrite (mix_r dd dd_sym W A Bt mix X), (mix_self dd dd_sym W A Bt mix).
  ring.
Qed.

Lemma centroid_merge X A Bt va vb md sx :
  crit_centroid dd X A va -> crit_centroid dd X Bt vb -> crit_centroid dd A Bt md ->
  crit_centroid dd X (Node A Bt) (upd_of QF Centroid va vb md (tsize A) (tsize Bt) sx).
Proof.
  unfold crit_centroid. intros Ea Eb Em.
  rewrite (@Dw_merge uw A Bt _ _ X (uw_mix dd A Bt)).
  rewrite <- (centroid_is_centroid (B (uw A) (uw A)) (B (uw Bt) (uw Bt)) (B (uw X) (uw X)) (B (uw A) (uw Bt))
                (B (uw A) (uw X)) (B (uw Bt) (uw X)) (tsize A) (tsize Bt) sx (tsize_pos A) (tsize_pos Bt)).
  apply upd_proper; try discriminate.
  - rewrite Ea. apply (Dw_sym dd dd_sym).
  - rewrite Eb. apply (Dw_sym dd dd_sym).
  - exact Em.
Qed.

Lemma median_merge X A Bt va vb md sa sb sx :
  crit_median dd X A va -> crit_median dd X Bt vb -> crit_median dd A Bt md ->
  crit_median dd X (Node A Bt) (upd_of QF Median va vb md sa sb sx).
Proof.
  unfold crit_median. intros Ea Eb Em.
  rewrite (@Dw_merge hw A Bt _ _ X (hw_mix dd A Bt)).
  rewrite <- (median_is_midpoint (B (hw A) (hw A)) (B (hw Bt) (hw Bt)) (B (hw X) (hw X)) (B (hw A) (hw Bt))
                (B (hw A) (hw X)) (B (hw Bt) (hw X)) sa sb sx).
  apply upd_proper; try discriminate.
  - rewrite Ea. apply (Dw_sym dd dd_sym).
  - rewrite Eb. apply (Dw_sym dd dd_sym).
  - exact Em.
Qed.

Lemma ward_merge X A Bt va vb md :
  crit_ward dd X A va -> crit_ward dd X Bt vb -> crit_ward dd A Bt md ->
  crit_ward dd X (Node A Bt) (upd_of QF Ward va vb md (tsize A) (tsize Bt) (tsize X)).
Proof.
  unfold crit_ward. intros Ea Eb Em. cbn [tsize].
  rewrite Wq_comm. rewrite (Wq_proper _ _ (@Dw_merge uw A Bt _ _ X (uw_mix dd A Bt))).
  rewrite <- (ward_is_variance_increase (B (uw A) (uw A)) (B (uw Bt) (uw Bt)) (B (uw X) (uw X)) (B (uw A) (uw Bt))
                (B (uw A) (uw X)) (B (uw Bt) (uw X)) (tsize A) (tsize Bt) (tsize X) (tsize_pos A) (tsize_pos Bt) (tsize_pos X)).
  apply upd_proper; try discriminate.
  - rewrite Ea, Wq_comm. apply Wq_proper. apply (Dw_sym dd dd_sym).
  - rewrite Eb, Wq_comm. apply Wq_proper. apply (Dw_sym dd dd_sym).
  - exact Em.
Qed.

End ArithRun.

(* leaves: the criterion of two singletons is their input dissimilarity *)
Lemma average_leaf M0 x y v : x <> y -> wcell M0 x y = Some v -> crit_average (dd M0) (Leaf x) (Leaf y) v.
Proof. intros Hxy Hv. unfold crit_average. rewrite bil_leaf_u, (dd_cell M0 Hxy Hv). reflexivity. Qed.

Lemma weighted_leaf M0 x y v : x <> y -> wcell M0 x y = Some v -> crit_weighted (dd M0) (Leaf x) (Leaf y) v.
Proof. intros Hxy Hv. unfold crit_weighted. rewrite bil_leaf_h, (dd_cell M0 Hxy Hv). reflexivity. Qed.

Lemma centroid_leaf M0 x y v : x <> y -> wcell M0 x y = Some v -> crit_centroid (dd M0) (Leaf x) (Leaf y) v.
Proof.
  intros Hxy Hv. unfold crit_centroid, Dw, Dq. rewrite !bil_leaf_u, !dd_diag, (dd_cell M0 Hxy Hv). field.
Qed.

Lemma median_leaf M0 x y v : x <> y -> wcell M0 x y = Some v -> crit_median (dd M0) (Leaf x) (Leaf y) v.
Proof.
  intros Hxy Hv. unfold crit_median, Dw, Dq. rewrite !bil_leaf_h, !dd_diag, (dd_cell M0 Hxy Hv). field.
Qed.

Lemma ward_leaf M0 x y v : x <> y -> wcell M0 x y = Some v -> crit_ward (dd M0) (Leaf x) (Leaf y) v.
Proof.
  intros Hxy Hv. unfold crit_ward, Wq, Dw, Dq. rewrite !bil_leaf_u, !dd_diag, (dd_cell M0 Hxy Hv).
  cbn [tsize]. unfold qn. cbn [Z.of_nat inject_Z]. field.
Qed.

Lemma Forall2_imp {A B} (P R : A -> B -> Prop) l l' :
  (forall a b, P a b -> R a b) -> Forall2 P l l' -> Forall2 R l l'.
Proof. intros H F. induction F; constructor; auto. Qed.

Section ArithRuns.
Variable p : profile.
Variable rt : Q -> Q.

Lemma arith_run (meth : method) (crit : cmat Q -> mtree -> mtree -> Q -> Prop) :
  (forall M0 A B v, crit M0 A B v -> crit M0 B A v) ->
  (forall M0 X A B va vb md, crit M0 X A va -> crit M0 X B vb -> crit M0 A B md ->
     crit M0 X (Node A B) (upd_of QF meth va vb md (tsize A) (tsize B) (if uses_size_x meth then tsize X else 0%nat))) ->
  (forall M0 x y v, x <> y -> wcell M0 x y = Some v -> crit M0 (Leaf x) (Leaf y) v) ->
  forall s d m n s' d' m' M0,
  primitive_with (kops_of (QFr rt) meth) p meth s d m n = Ok (s', d', m') ->
  prologue p (square_all (kops_of (QFr rt) meth) m) n = Ok M0 ->
  exists raw tr L' mem',
    mtrace (seq 0 (m_obs M0)) Leaf tr L' mem'
    /\ Forall2 (fun st (ab : mtree * mtree) => crit M0 (fst ab) (snd ab) (s_dis st)) raw tr
    /\ length raw = (m_obs M0 - 1)%nat
    /\ Permutation (heights d') (map (k_rt (kops_of (QFr rt) meth)) (map (@s_dis Q) raw))
    /\ (requires_sorting meth = false -> heights d' = map (k_rt (kops_of (QFr rt) meth)) (map (@s_dis Q) raw)).
Proof.
  intros Hsym Hmerge Hleaf s d m n s' d' m' M0 H HM0.
  apply (@primitive_criterion Q (kops_of (QFr rt) meth) p meth qlt_trans qlt_irrefl (crit M0) (Hsym M0)
           ltac:(intros X A B va vb md Ha Hb Hm; cbn [kops_of k_upd]; rewrite upd_QFr; apply Hmerge; assumption)
           s d m n s' d' m' M0 H HM0).
  intros x y v Hxy _ _ Hv. apply Hleaf; assumption.
Qed.

Definition squares (m : list Q) : list Q := map (fun x => x * x) m.

(* average: the mean over the cross pairs *)
Theorem average_run s d m n s' d' m' M0 :
  primitive_with (kops_of (QFr rt) Average) p Average s d m n = Ok (s', d', m') ->
  prologue p m n = Ok M0 ->
  exists raw tr L' mem',
    mtrace (seq 0 (m_obs M0)) Leaf tr L' mem'
    /\ Forall2 (fun st (ab : mtree * mtree) =>
         s_dis st == cross_sum (dd M0) (fst ab) (snd ab) / (qn (tsize (fst ab)) * qn (tsize (snd ab)))) raw tr
    /\ length raw = (m_obs M0 - 1)%nat
    /\ Permutation (heights d') (map (@s_dis Q) raw).
Proof.
  intros H HM0.
  destruct (@arith_run Average (fun M0 => crit_average (dd M0))
              (fun M0 => @average_sym M0)
              ltac:(intros M1 X A B va vb md Ha Hb _; apply average_merge; assumption)
              average_leaf s d m n s' d' m' M0 H
              ltac:(unfold square_all; cbn [kops_of k_sq on_squares]; rewrite map_id; exact HM0))
    as (raw & tr & L' & mem' & Htr & HF & Hlen & Hperm & _).
  exists raw, tr, L', mem'. split; [exact Htr|]. split; [|split; [exact Hlen|]].
  - eapply Forall2_imp; [|exact HF]. intros st ab Hc. unfold crit_average in Hc. rewrite Hc.
    apply average_is_cross_mean.
  - cbn [kops_of k_rt on_squares] in Hperm. rewrite map_id in Hperm. exact Hperm.
Qed.

(* weighted: the bilinear form at the dyadic weights of the two merge trees *)
Theorem weighted_run s d m n s' d' m' M0 :
  primitive_with (kops_of (QFr rt) Weighted) p Weighted s d m n = Ok (s', d', m') ->
  prologue p m n = Ok M0 ->
  exists raw tr L' mem',
    mtrace (seq 0 (m_obs M0)) Leaf tr L' mem'
    /\ Forall2 (fun st (ab : mtree * mtree) => s_dis st == bil (dd M0) (hw (fst ab)) (hw (snd ab))) raw tr
    /\ length raw = (m_obs M0 - 1)%nat
    /\ Permutation (heights d') (map (@s_dis Q) raw).
Proof.
  intros H HM0.
  destruct (@arith_run Weighted (fun M0 => crit_weighted (dd M0))
              (fun M0 => @weighted_sym M0)
              ltac:(intros M1 X A B va vb md Ha Hb _; apply weighted_merge; assumption)
              weighted_leaf s d m n s' d' m' M0 H
              ltac:(unfold square_all; cbn [kops_of k_sq on_squares]; rewrite map_id; exact HM0))
    as (raw & tr & L' & mem' & Htr & HF & Hlen & Hperm & _).
  exists raw, tr, L', mem'. split; [exact Htr|]. split; [exact HF|]. split; [exact Hlen|].
  cbn [kops_of k_rt on_squares] in Hperm. rewrite map_id in Hperm. exact Hperm.
Qed.

(* centroid / median: squared distance between the (uniformly / dyadically
   weighted) centres, on the squared input; the returned heights are its rt, in
   merge order (these two methods are not sorted) *)
Theorem centroid_run s d m n s' d' m' M0 :
  primitive_with (kops_of (QFr rt) Centroid) p Centroid s d m n = Ok (s', d', m') ->
  prologue p (squares m) n = Ok M0 ->
  exists raw tr L' mem',
    mtrace (seq 0 (m_obs M0)) Leaf tr L' mem'
    /\ Forall2 (fun st (ab : mtree * mtree) => s_dis st == Dw (dd M0) uw (fst ab) (snd ab)) raw tr
    /\ length raw = (m_obs M0 - 1)%nat
    /\ heights d' = map rt (map (@s_dis Q) raw).
Proof.
  intros H HM0.
  destruct (@arith_run Centroid (fun M0 => crit_centroid (dd M0))
              (fun M0 => @centroid_sym M0)
              ltac:(intros M1 X A B va vb md Ha Hb Hm; apply centroid_merge; assumption)
              centroid_leaf s d m n s' d' m' M0 H HM0)
    as (raw & tr & L' & mem' & Htr & HF & Hlen & _ & Heq).
  exists raw, tr, L', mem'. split; [exact Htr|]. split; [exact HF|]. split; [exact Hlen|].
  exact (Heq eq_refl).
Qed.

Theorem median_run s d m n s' d' m' M0 :
  primitive_with (kops_of (QFr rt) Median) p Median s d m n = Ok (s', d', m') ->
  prologue p (squares m) n = Ok M0 ->
  exists raw tr L' mem',
    mtrace (seq 0 (m_obs M0)) Leaf tr L' mem'
    /\ Forall2 (fun st (ab : mtree * mtree) => s_dis st == Dw (dd M0) hw (fst ab) (snd ab)) raw tr
    /\ length raw = (m_obs M0 - 1)%nat
    /\ heights d' = map rt (map (@s_dis Q) raw).
Proof.
  intros H HM0.
  destruct (@arith_run Median (fun M0 => crit_median (dd M0))
              (fun M0 => @median_sym M0)
              ltac:(intros M1 X A B va vb md Ha Hb Hm; apply median_merge; assumption)
              median_leaf s d m n s' d' m' M0 H HM0)
    as (raw & tr & L' & mem' & Htr & HF & Hlen & _ & Heq).
  exists raw, tr, L', mem'. split; [exact Htr|]. split; [exact HF|]. split; [exact Hlen|].
  exact (Heq eq_refl).
Qed.

(* ward: 2|A||B|/(|A|+|B|) times the squared centroid distance *)
Theorem ward_run s d m n s' d' m' M0 :
  primitive_with (kops_of (QFr rt) Ward) p Ward s d m n = Ok (s', d', m') ->
  prologue p (squares m) n = Ok M0 ->
  exists raw tr L' mem',
    mtrace (seq 0 (m_obs M0)) Leaf tr L' mem'
    /\ Forall2 (fun st (ab : mtree * mtree) =>
         s_dis st == Wq (tsize (fst ab)) (tsize (snd ab)) (Dw (dd M0) uw (fst ab) (snd ab))) raw tr
    /\ length raw = (m_obs M0 - 1)%nat
    /\ Permutation (heights d') (map rt (map (@s_dis Q) raw)).
Proof.
  intros H HM0.
  destruct (@arith_run Ward (fun M0 => crit_ward (dd M0))
              (fun M0 => @ward_sym M0)
              ltac:(intros M1 X A B va vb md Ha Hb Hm; apply ward_merge; assumption)
              ward_leaf s d m n s' d' m' M0 H HM0)
    as (raw & tr & L' & mem' & Htr & HF & Hlen & Hperm & _).
  exists raw, tr, L', mem'. split; [exact Htr|]. split; [exact HF|]. split; [exact Hlen|]. exact Hperm.
Qed.

End ArithRuns.

(* ------------------------------------------------------------------ *)
(* C03 + C02 together, all seven methods over Q: the raw steps of
   primitive_with form a greedy agglomeration w.r.t. the closed-form
   criterion of the method *)
Definition crit_of (meth : method) (M0 : cmat Q) : mtree -> mtree -> Q -> Prop :=
  match meth with
  | Single => is_min_over (f_ltb QF) (cell_or 0 M0)
  | Complete => is_max_over (f_ltb QF) (cell_or 0 M0)
  | Average => crit_average (dd M0)
  | Weighted => crit_weighted (dd M0)
  | Ward => crit_ward (dd M0)
  | Centroid => crit_centroid (dd M0)
  | Median => crit_median (dd M0)
  end.

Lemma crit_of_sym meth M0 A B v : crit_of meth M0 A B v -> crit_of meth M0 B A v.
Proof.
  destruct meth; cbn [crit_of].
  - apply min_sym. apply cell_or_sym.
  - apply max_sym. apply cell_or_sym.
  - apply average_sym.
  - apply weighted_sym.
  - apply ward_sym.
  - apply centroid_sym.
  - apply median_sym.
Qed.

Lemma crit_of_merge meth M0 X A B va vb md :
  crit_of meth M0 X A va -> crit_of meth M0 X B vb -> crit_of meth M0 A B md ->
  crit_of meth M0 X (Node A B)
    (upd_of QF meth va vb md (tsize A) (tsize B) (if uses_size_x meth then tsize X else 0%nat)).
Proof.
  destruct meth; cbn [crit_of uses_size_x]; intros Ha Hb Hm.
  - exact (@min_merge Q (f_ltb QF) qlt_trans qlt_negtrans _ X A B va vb Ha Hb).
  - exact (@max_merge Q (f_ltb QF) qlt_trans qlt_negtrans _ X A B va vb Ha Hb).
  - apply average_merge; assumption.
  - apply weighted_merge; assumption.
  - apply ward_merge; assumption.
  - apply centroid_merge; assumption.
  - apply median_merge; assumption.
Qed.

Lemma crit_of_leaf meth M0 x y v : x <> y -> wcell M0 x y = Some v -> crit_of meth M0 (Leaf x) (Leaf y) v.
Proof.
  intros Hxy Hv. destruct meth; cbn [crit_of].
  - split; [exists x, y; cbn [leaves]; split; [left; reflexivity|]; split; [left; reflexivity|]; unfold cell_or; rewrite Hv; reflexivity|].
    intros x' y' [<-|[]] [<-|[]]. unfold cell_or. rewrite Hv. apply qlt_irrefl.
  - split; [exists x, y; cbn [leaves]; split; [left; reflexivity|]; split; [left; reflexivity|]; unfold cell_or; rewrite Hv; reflexivity|].
    intros x' y' [<-|[]] [<-|[]]. unfold cell_or. rewrite Hv. apply qlt_irrefl.
  - apply average_leaf; assumption.
  - apply weighted_leaf; assumption.
  - apply ward_leaf; assumption.
  - apply centroid_leaf; assumption.
  - apply median_leaf; assumption.
Qed.

Theorem primitive_greedy_Q (p : profile) (rt : Q -> Q) (meth : method) s d m n s' d' m' M0 :
  primitive_with (kops_of (QFr rt) meth) p meth s d m n = Ok (s', d', m') ->
  prologue p (square_all (kops_of (QFr rt) meth) m) n = Ok M0 ->
  exists raw,
    gtrace (kops_of (QFr rt) meth) (crit_of meth M0) (seq 0 (m_obs M0)) Leaf raw
    /\ length raw = (m_obs M0 - 1)%nat
    /\ Permutation (heights d') (map (k_rt (kops_of (QFr rt) meth)) (map (@s_dis Q) raw))
    /\ (requires_sorting meth = false -> heights d' = map (k_rt (kops_of (QFr rt) meth)) (map (@s_dis Q) raw)).
Proof.
  intros H HM0.
  apply (@primitive_greedy Q (kops_of (QFr rt) meth) p meth qlt_trans qlt_irrefl (crit_of meth M0)
           (@crit_of_sym meth M0)
           ltac:(intros X A B va vb md Ha Hb Hm; cbn [kops_of k_upd]; rewrite upd_QFr; apply crit_of_merge; assumption)
           s d m n s' d' m' M0 H HM0).
  intros x y v Hxy _ _ Hv. apply crit_of_leaf; assumption.
Qed.
