(* C08: every reset is canonical - its result does not depend on the previous
   contents (any lengths, any garbage) of the scratch vectors. *)
Require Import KV.Model.Prelude KV.Model.Condensed KV.Model.Active KV.Model.Heap
  KV.Model.UnionFind KV.Model.Dendrogram KV.Model.Methods KV.Model.State.

Set Implicit Arguments.

Lemma set_nth_length {A} (l : list A) i v : length (set_nth l i v) = length l.
Proof. revert i; induction l as [|h t IH]; intros [|i]; simpl; auto. Qed.

Lemma vresize_length {A} (l : list A) len x : length (vresize l len x) = len.
Proof.
  unfold vresize. rewrite app_length, firstn_length, repeat_length. lia.
Qed.

Lemma list_ext {A} (l1 l2 : list A) :
  (forall j, nth_error l1 j = nth_error l2 j) -> l1 = l2.
Proof.
  revert l2. induction l1 as [|h t IH]; intros [|h2 t2] H.
  - reflexivity.
  - specialize (H 0). discriminate.
  - specialize (H 0). discriminate.
  - pose proof (H 0) as H0. cbn in H0. inversion H0; subst. f_equal.
    apply IH. intros j. exact (H (S j)).
Qed.

Lemma nth_error_set_nth {A} (l : list A) i v j :
  nth_error (set_nth l i v) j
  = if (j =? i) && (i <? length l) then Some v else nth_error l j.
Proof.
  revert i j. induction l as [|h t IH]; intros i j.
  - cbn [set_nth length]. rewrite Bool.andb_false_r. destruct i; reflexivity.
  - destruct i as [|i], j as [|j]; cbn [set_nth nth_error length]; try reflexivity.
    rewrite IH. reflexivity.
Qed.

(* writing cells a, a+1, ..., a+k-1 of l *)
Lemma overwrite_nth {A} (f : nat -> A) (k a : nat) (l : list A) (j : nat) :
  nth_error (fold_left (fun acc i => set_nth acc i (f i)) (seq a k) l) j
  = if (a <=? j) && (j <? a + k) && (j <? length l) then Some (f j) else nth_error l j.
Proof.
  revert a l. induction k as [|k IH]; intros a l.
  - cbn [seq fold_left].
    destruct (Nat.leb_spec a j), (Nat.ltb_spec j (a + 0)); cbn [andb]; try reflexivity; lia.
  - cbn [seq fold_left]. rewrite IH, set_nth_length, nth_error_set_nth.
    destruct (Nat.leb_spec (S a) j), (Nat.ltb_spec j (S a + k)), (Nat.ltb_spec j (length l)),
      (Nat.leb_spec a j), (Nat.ltb_spec j (a + S k)), (Nat.eqb_spec j a), (Nat.ltb_spec a (length l));
      cbn [andb]; try reflexivity; try lia; subst; try reflexivity.
    all: try (symmetry; apply nth_error_None; lia).
Qed.

Lemma overwrite_canonical {A} (f : nat -> A) (len : nat) (l : list A) :
  length l = len -> overwrite f len l = map f (seq 0 len).
Proof.
  intros Hlen. apply list_ext. intros j. unfold overwrite. rewrite overwrite_nth.
  rewrite nth_error_map. cbn [Nat.add]. rewrite Hlen.
  destruct (Nat.ltb_spec j len) as [Hj|Hj]; cbn [Nat.leb andb].
  - rewrite (nth_error_nth' _ 0) by (rewrite seq_length; exact Hj).
    rewrite seq_nth by exact Hj. reflexivity.
  - rewrite (proj2 (nth_error_None l j)) by lia.
    rewrite (proj2 (nth_error_None (seq 0 len) j)) by (rewrite seq_length; lia). reflexivity.
Qed.

Lemma overwrite_resize {A} (f : nat -> A) (len : nat) (l : list A) (x : A) :
  overwrite f len (vresize l len x) = map f (seq 0 len).
Proof. apply overwrite_canonical, vresize_length. Qed.

(* ---- component resets ------------------------------------------------ *)

Definition a_canonical (len : nat) : active :=
  {| a_start := 0; a_prev := map (fun i => i) (seq 0 len); a_next := map (fun i => i + 1) (seq 0 len) |}.

Theorem a_reset_canonical (a : active) (len : nat) : a_reset a len = a_canonical len.
Proof. unfold a_reset, a_canonical. rewrite !overwrite_resize. reflexivity. Qed.

Definition u_canonical (len : nat) : ufind :=
  {| u_parents := map (fun i => i) (seq 0 (u_size len)); u_next := len |}.

Theorem u_reset_canonical (u : ufind) (len : nat) : u_reset u len = u_canonical len.
Proof. unfold u_reset, u_canonical. rewrite overwrite_resize. reflexivity. Qed.

Section HeapReset.
Variable T : Type.
Variable maxv : T.

Definition h_canonical (len : nat) : heap T :=
  {| h_heap := map (fun i => i) (seq 0 len); h_obs := map (fun i => i) (seq 0 len);
     h_prio := map (fun _ => maxv) (seq 0 len); h_removed := map (fun _ => false) (seq 0 len) |}.

Theorem h_reset_canonical (h : heap T) (len : nat) : h_reset maxv h len = h_canonical len.
Proof. unfold h_reset, h_canonical. rewrite !overwrite_resize. reflexivity. Qed.
End HeapReset.

Section StateReset.
Variable T : Type.
Variable K : kops T.

Definition st_canonical (size : nat) : lstate T :=
  {| st_sizes := vresize [] size 1;
     st_active := a_canonical size;
     st_min := vresize [] size (k_inf K);
     st_set := u_canonical size;
     st_chain := vresize [] size 0;
     st_queue := h_canonical (k_inf K) size;
     st_nearest := vresize [] size 0 |}.

(* For ANY previous state - vectors of any length with any contents, e.g.
   the leftovers of a larger problem or of a call that panicked half-way. *)
Theorem st_reset_is_canonical (s : lstate T) (size : nat) : st_reset K s size = st_canonical size.
Proof.
  unfold st_reset, st_canonical, clear_resize.
  rewrite a_reset_canonical, u_reset_canonical, h_reset_canonical. reflexivity.
Qed.

Corollary reset_canonical (s1 s2 : lstate T) (size : nat) : st_reset K s1 size = st_reset K s2 size.
Proof. rewrite !st_reset_is_canonical. reflexivity. Qed.

End StateReset.

Theorem d_reset_canonical {T} (d1 d2 : dend T) (n : nat) : d_reset d1 n = d_reset d2 n.
Proof. reflexivity. Qed.
