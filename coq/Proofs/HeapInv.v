(* The binary heap of src/queue.rs (LinkageHeap): structural invariant.
   On a heap whose position map is the inverse of its array, every operation
   on a contained observation returns (no index panic, no failed assertion, the
   sift loops stay within their fuel) and keeps the invariant; pop removes
   exactly the first element, set_priority changes exactly one priority. *)
Require Import KV.Model.Prelude KV.Model.Active KV.Model.Heap KV.Proofs.ResetCanon KV.Proofs.ActiveRefine.

Set Implicit Arguments.

Section HeapInv.
Variable T : Type.
Variable ltb : T -> T -> bool.

Notation heap := (heap T).

(* position map inverse to the array; contained observations are not removed *)
Definition HInv (n : nat) (h : heap) : Prop :=
  length (h_obs h) = n /\ length (h_prio h) = n /\ length (h_removed h) = n
  /\ forall k o, nth_error (h_heap h) k = Some o ->
       o < n /\ nth_error (h_obs h) o = Some k /\ nth_error (h_removed h) o = Some false.

Definition inh (h : heap) (o : nat) : Prop := In o (h_heap h).

Lemma inh_pos n h o : HInv n h -> inh h o ->
  exists k, nth_error (h_heap h) k = Some o /\ k < length (h_heap h) /\ o < n
    /\ nth_error (h_obs h) o = Some k /\ nth_error (h_removed h) o = Some false.
Proof.
  intros (_ & _ & _ & H) Hin. apply In_nth_error in Hin. destruct Hin as (k & Hk).
  destruct (H k o Hk) as (A & B & C). exists k. split; [exact Hk|]. split; [apply nth_error_Some; congruence|]. auto.
Qed.

Lemma hinv_inj n h k1 k2 o : HInv n h -> nth_error (h_heap h) k1 = Some o -> nth_error (h_heap h) k2 = Some o -> k1 = k2.
Proof.
  intros (_ & _ & _ & H) H1 H2. destruct (H k1 o H1) as (_ & A & _). destruct (H k2 o H2) as (_ & B & _). congruence.
Qed.

Lemma hinv_len n h : HInv n h -> length (h_heap h) <= n.
Proof.
  intros HI. pose proof HI as (Ho & _ & _ & H).
  (* the heap is an injective list of numbers < n *)
  assert (Hnd : NoDup (h_heap h)).
  { apply NoDup_nth_error. intros i j Hi Hij.
    destruct (nth_error (h_heap h) i) as [o|] eqn:E; [|apply nth_error_None in E; lia].
    symmetry in Hij. exact (@hinv_inj _ _ _ _ _ HI E Hij). }
  assert (Hincl : incl (h_heap h) (seq 0 n)).
  { intros o Hin. apply In_nth_error in Hin. destruct Hin as (k & Hk). apply in_seq. destruct (H k o Hk). lia. }
  pose proof (NoDup_incl_length Hnd Hincl) as Hl. rewrite seq_length in Hl. exact Hl.
Qed.

(* ---- swap ---- *)
Lemma swap_spec n h o1 o2 : HInv n h -> inh h o1 -> inh h o2 ->
  exists h', h_swap h o1 o2 = Ok h' /\ HInv n h'
    /\ h_prio h' = h_prio h /\ h_removed h' = h_removed h
    /\ length (h_heap h') = length (h_heap h)
    /\ (forall o, inh h' o <-> inh h o)
    /\ (forall p1 p2, nth_error (h_obs h) o1 = Some p1 -> nth_error (h_obs h) o2 = Some p2 ->
          nth_error (h_obs h') o1 = Some p2 /\ nth_error (h_obs h') o2 = Some p1
          /\ (forall o, o <> o1 -> o <> o2 -> nth_error (h_obs h') o = nth_error (h_obs h) o)
          /\ (forall k, k <> p1 -> k <> p2 -> nth_error (h_heap h') k = nth_error (h_heap h) k)
          /\ nth_error (h_heap h') p1 = Some o2 /\ nth_error (h_heap h') p2 = Some o1).
Proof.
  intros HI H1 H2. pose proof HI as (Lo & Lp & Lr & H).
  destruct (@inh_pos _ _ _ HI H1) as (p1 & K1 & B1 & N1 & O1 & R1).
  destruct (@inh_pos _ _ _ HI H2) as (p2 & K2 & B2 & N2 & O2 & R2).
  unfold h_swap, vget. rewrite O1, O2. cbn [bind]. rewrite K1, K2. cbn [bind].
  eexists. split; [reflexivity|].
  set (hp := set_nth (set_nth (h_heap h) p1 o2) p2 o1).
  set (ob := set_nth (set_nth (h_obs h) o1 p2) o2 p1).
  assert (Hhp : forall k, nth_error hp k = if k =? p2 then Some o1 else if k =? p1 then Some o2 else nth_error (h_heap h) k).
  { intros k. unfold hp. rewrite !nth_error_set_nth, !set_nth_length.
    destruct (Nat.eqb_spec k p2); [destruct (Nat.ltb_spec p2 (length (h_heap h))); [reflexivity|lia]|].
    destruct (Nat.eqb_spec k p1); [destruct (Nat.ltb_spec p1 (length (h_heap h))); [reflexivity|lia]|]. reflexivity. }
  assert (Hob : forall o, nth_error ob o = if o =? o2 then Some p1 else if o =? o1 then Some p2 else nth_error (h_obs h) o).
  { intros o. unfold ob. rewrite !nth_error_set_nth, !set_nth_length.
    destruct (Nat.eqb_spec o o2); [destruct (Nat.ltb_spec o2 (length (h_obs h))); [reflexivity|lia]|].
    destruct (Nat.eqb_spec o o1); [destruct (Nat.ltb_spec o1 (length (h_obs h))); [reflexivity|lia]|]. reflexivity. }
  assert (Hp_of_o : o1 = o2 -> p1 = p2) by (intros ->; congruence).
  assert (Ho_of_p : p1 = p2 -> o1 = o2) by (intros ->; congruence).
  split.
  { unfold HInv. cbn [h_obs h_prio h_removed h_heap]. unfold ob. rewrite !set_nth_length.
    split; [exact Lo|]. split; [exact Lp|]. split; [exact Lr|].
    intros k o Hk. fold hp in Hk. rewrite Hhp in Hk. fold ob. rewrite Hob.
    destruct (Nat.eqb_spec k p2) as [->|Hk2].
    - inversion Hk; subst o. split; [exact N1|]. split; [|exact R1].
      destruct (Nat.eqb_spec o1 o2) as [E|E]; [f_equal; exact (Hp_of_o E)|].
      rewrite Nat.eqb_refl. reflexivity.
    - destruct (Nat.eqb_spec k p1) as [->|Hk1].
      + inversion Hk; subst o. split; [exact N2|]. split; [|exact R2]. rewrite Nat.eqb_refl. reflexivity.
      + destruct (H k o Hk) as (A & B & C). split; [exact A|]. split; [|exact C].
        destruct (Nat.eqb_spec o o2) as [->|E2]; [exfalso; apply Hk2; congruence|].
        destruct (Nat.eqb_spec o o1) as [->|E1]; [exfalso; apply Hk1; congruence|]. exact B. }
  cbn [h_prio h_removed h_heap h_obs]. split; [reflexivity|]. split; [reflexivity|].
  split; [fold hp; unfold hp; rewrite !set_nth_length; reflexivity|].
  split.
  { intros o. unfold inh. cbn [h_heap]. fold hp. split; intros Hin; apply In_nth_error in Hin; destruct Hin as (k & Hk).
    - rewrite Hhp in Hk. destruct (Nat.eqb_spec k p2); [inversion Hk; subst; exact H1|].
      destruct (Nat.eqb_spec k p1); [inversion Hk; subst; exact H2|]. eapply nth_error_In; exact Hk.
    - destruct (Nat.eq_dec k p1) as [->|E1].
      + rewrite K1 in Hk. inversion Hk; subst o. apply nth_error_In with p2. rewrite Hhp, Nat.eqb_refl. reflexivity.
      + destruct (Nat.eq_dec k p2) as [->|E2].
        * rewrite K2 in Hk. inversion Hk; subst o. apply nth_error_In with p1. rewrite Hhp.
          destruct (Nat.eqb_spec p1 p2) as [E|E]; [f_equal; exact (Ho_of_p E)|]. rewrite Nat.eqb_refl. reflexivity.
        * apply nth_error_In with k. rewrite Hhp. destruct (Nat.eqb_spec k p2); [contradiction|].
          destruct (Nat.eqb_spec k p1); [contradiction|]. exact Hk. }
  intros q1 q2 Q1 Q2. inversion Q1; inversion Q2; subst q1 q2.
  split.
  { rewrite Hob. destruct (Nat.eqb_spec o1 o2) as [E|E]; [f_equal; exact (Hp_of_o E)|]. rewrite Nat.eqb_refl. reflexivity. }
  split; [rewrite Hob, Nat.eqb_refl; reflexivity|].
  split.
  { intros o E1 E2. rewrite Hob. destruct (Nat.eqb_spec o o2); [contradiction|]. destruct (Nat.eqb_spec o o1); [contradiction|]. reflexivity. }
  split.
  { intros k E1 E2. rewrite Hhp. destruct (Nat.eqb_spec k p2); [contradiction|]. destruct (Nat.eqb_spec k p1); [contradiction|]. reflexivity. }
  split.
  { rewrite Hhp. destruct (Nat.eqb_spec p1 p2) as [E|E]; [f_equal; exact (Ho_of_p E)|]. rewrite Nat.eqb_refl. reflexivity. }
  rewrite Hhp, Nat.eqb_refl. reflexivity.
Qed.

(* what every operation below preserves *)
Definition same_frame (h h' : heap) : Prop :=
  h_prio h' = h_prio h /\ h_removed h' = h_removed h
  /\ length (h_heap h') = length (h_heap h) /\ (forall o, inh h' o <-> inh h o).

Lemma same_frame_refl h : same_frame h h.
Proof. repeat split; auto. Qed.

Lemma same_frame_trans h1 h2 h3 : same_frame h1 h2 -> same_frame h2 h3 -> same_frame h1 h3.
Proof.
  intros (A1 & B1 & C1 & D1) (A2 & B2 & C2 & D2). split; [congruence|]. split; [congruence|]. split; [congruence|].
  intros o. rewrite D2. apply D1.
Qed.

(* ---- sift_up: the position of o strictly decreases ---- *)
Lemma sift_up_spec n : forall fuel h o k, HInv n h -> inh h o -> nth_error (h_obs h) o = Some k -> k < fuel ->
  exists h', h_sift_up ltb fuel h o = Ok h' /\ HInv n h' /\ same_frame h h'.
Proof.
  induction fuel as [|fuel IH]; intros h o k HI Hin Hk Hf; [lia|].
  pose proof HI as (Lo & Lp & Lr & H).
  destruct (@inh_pos _ _ _ HI Hin) as (k' & K & B & N & O & R). rewrite Hk in O. inversion O; subst k'.
  cbn [h_sift_up]. unfold h_parent, vget at 1. rewrite Hk. cbn [bind].
  destruct (Nat.eqb_spec k 0) as [Hz|Hz]; cbn [bind].
  - exists h. split; [reflexivity|]. split; [exact HI|apply same_frame_refl].
  - assert (Hpk : (k - 1) / 2 < k) by (apply Nat.div_lt_upper_bound; lia).
    destruct (nth_error (h_heap h) ((k - 1) / 2)) as [po|] eqn:Epo; [|apply nth_error_None in Epo; lia].
    unfold vget at 1. rewrite Epo. cbn [bind].
    destruct (H _ _ Epo) as (Npo & Opo & Rpo).
    unfold vget at 1. destruct (nth_error (h_prio h) po) as [ppo|] eqn:E1; [|apply nth_error_None in E1; lia]. cbn [bind].
    unfold vget at 1. destruct (nth_error (h_prio h) o) as [pro|] eqn:E2; [|apply nth_error_None in E2; lia]. cbn [bind].
    destruct (ltb ppo pro).
    + exists h. split; [reflexivity|]. split; [exact HI|apply same_frame_refl].
    + assert (Hinpo : inh h po) by (eapply nth_error_In; exact Epo).
      destruct (@swap_spec n h o po HI Hin Hinpo) as (h1 & Hsw & HI1 & P1 & R1 & L1 & I1 & Hpos).
      rewrite Hsw. cbn [bind].
      destruct (Hpos _ _ Hk Opo) as (Oo & _).
      destruct (IH h1 o ((k - 1) / 2) HI1 (proj2 (I1 o) Hin) Oo ltac:(lia)) as (h2 & Hs & HI2 & F2).
      exists h2. split; [exact Hs|]. split; [exact HI2|].
      apply same_frame_trans with h1; [|exact F2]. repeat split; auto; apply I1.
Qed.

(* ---- sift_down: the position of o strictly increases ---- *)
Lemma sift_down_spec n : forall fuel h o k, HInv n h -> inh h o -> nth_error (h_obs h) o = Some k ->
  length (h_heap h) - k < fuel ->
  exists h', h_sift_down ltb fuel h o = Ok h' /\ HInv n h' /\ same_frame h h'.
Proof.
  induction fuel as [|fuel IH]; intros h o k HI Hin Hk Hf; [lia|].
  pose proof HI as (Lo & Lp & Lr & H).
  destruct (@inh_pos _ _ _ HI Hin) as (k' & K & B & N & O & R). rewrite Hk in O. inversion O; subst k'.
  cbn [h_sift_down]. unfold vget at 1. rewrite Hk. cbn [bind].
  assert (Hpr : forall x, inh h x -> exists px, nth_error (h_prio h) x = Some px).
  { intros x Hx. destruct (@inh_pos _ _ _ HI Hx) as (kx & _ & _ & Nx & _).
    destruct (nth_error (h_prio h) x) eqn:E; [eexists; reflexivity|apply nth_error_None in E; lia]. }
  destruct (Hpr o Hin) as (pc & Epc).
  (* first child *)
  assert (Hc1 : exists c1, (match nth_error (h_heap h) (2 * k + 1) with
                            | Some l => do pl <- vget (h_prio h) l; do pc <- vget (h_prio h) o; Ok (if ltb pl pc then l else o)
                            | None => Ok o end) = Ok c1
                /\ inh h c1 /\ (c1 = o \/ nth_error (h_heap h) (2 * k + 1) = Some c1)).
  { destruct (nth_error (h_heap h) (2 * k + 1)) as [l|] eqn:El.
    - assert (Hl : inh h l) by (eapply nth_error_In; exact El).
      destruct (Hpr l Hl) as (pl & Epl). unfold vget. rewrite Epl, Epc. cbn [bind].
      destruct (ltb pl pc); eexists; (split; [reflexivity|]); [split; [exact Hl|right; reflexivity]|split; [exact Hin|left; reflexivity]].
    - exists o. split; [reflexivity|]. split; [exact Hin|left; reflexivity]. }
  destruct Hc1 as (c1 & E1 & Hin1 & Hc1). rewrite E1. cbn [bind].
  destruct (Hpr c1 Hin1) as (pc1 & Epc1).
  assert (Hc2 : exists c2, (match nth_error (h_heap h) (2 * k + 2) with
                            | Some r => do pr <- vget (h_prio h) r; do pc <- vget (h_prio h) c1; Ok (if ltb pr pc then r else c1)
                            | None => Ok c1 end) = Ok c2
                /\ inh h c2 /\ (c2 = c1 \/ nth_error (h_heap h) (2 * k + 2) = Some c2)).
  { destruct (nth_error (h_heap h) (2 * k + 2)) as [r|] eqn:Er.
    - assert (Hr : inh h r) by (eapply nth_error_In; exact Er).
      destruct (Hpr r Hr) as (pr & Epr). unfold vget. rewrite Epr, Epc1. cbn [bind].
      destruct (ltb pr pc1); eexists; (split; [reflexivity|]); [split; [exact Hr|right; reflexivity]|split; [exact Hin1|left; reflexivity]].
    - exists c1. split; [reflexivity|]. split; [exact Hin1|left; reflexivity]. }
  destruct Hc2 as (c2 & E2 & Hin2 & Hc2). rewrite E2. cbn [bind].
  destruct (Nat.eqb_spec o c2) as [Heq|Hne].
  - exists h. split; [reflexivity|]. split; [exact HI|apply same_frame_refl].
  - (* c2 sits at a child position *)
    assert (Hchild : exists kc, nth_error (h_heap h) kc = Some c2 /\ k < kc).
    { destruct Hc2 as [->|Hc2]; [|exists (2 * k + 2); split; [exact Hc2|lia]].
      destruct Hc1 as [->|Hc1]; [contradiction|]. exists (2 * k + 1). split; [exact Hc1|lia]. }
    destruct Hchild as (kc & Ekc & Hkc).
    destruct (H _ _ Ekc) as (_ & Oc2 & _).
    destruct (@swap_spec n h o c2 HI Hin Hin2) as (h1 & Hsw & HI1 & P1 & R1 & L1 & I1 & Hpos).
    rewrite Hsw. cbn [bind].
    destruct (Hpos _ _ Hk Oc2) as (Oo & _).
    assert (Hkcl : kc < length (h_heap h)) by (apply nth_error_Some; congruence).
    destruct (IH h1 o kc HI1 (proj2 (I1 o) Hin) Oo ltac:(rewrite L1; lia)) as (h2 & Hs & HI2 & F2).
    exists h2. split; [exact Hs|]. split; [exact HI2|].
    apply same_frame_trans with h1; [|exact F2]. repeat split; auto; apply I1.
Qed.

(* ---- priority / set_priority on a contained observation ---- *)
Lemma priority_spec n h o : HInv n h -> inh h o -> exists v, h_priority h o = Ok v /\ nth_error (h_prio h) o = Some v.
Proof.
  intros HI Hin. destruct (@inh_pos _ _ _ HI Hin) as (k & _ & _ & N & _ & R). pose proof HI as (_ & Lp & _).
  unfold h_priority, vget. rewrite R. cbn [bind negb assert_].
  destruct (nth_error (h_prio h) o) as [v|] eqn:E; [exists v; split; reflexivity|apply nth_error_None in E; lia].
Qed.

Lemma set_priority_spec n h o v : HInv n h -> inh h o ->
  exists h', h_set_priority ltb h o v = Ok h' /\ HInv n h'
    /\ h_prio h' = set_nth (h_prio h) o v /\ h_removed h' = h_removed h
    /\ length (h_heap h') = length (h_heap h) /\ (forall x, inh h' x <-> inh h x).
Proof.
  intros HI Hin. destruct (@inh_pos _ _ _ HI Hin) as (k & K & B & N & O & R). pose proof HI as (Lo & Lp & Lr & H).
  unfold h_set_priority, vget at 1. rewrite R. cbn [bind negb assert_].
  unfold vget at 1. destruct (nth_error (h_prio h) o) as [old|] eqn:E; [|apply nth_error_None in E; lia]. cbn [bind].
  unfold vset. destruct (Nat.ltb_spec o (length (h_prio h))); [|lia]. cbn [bind].
  set (h1 := {| h_heap := h_heap h; h_obs := h_obs h; h_prio := set_nth (h_prio h) o v; h_removed := h_removed h |}).
  assert (HI1 : HInv n h1).
  { unfold HInv, h1. cbn [h_heap h_obs h_prio h_removed]. rewrite set_nth_length. auto. }
  assert (Hin1 : inh h1 o) by exact Hin.
  assert (Hlen : length (h_heap h1) = length (h_heap h)) by reflexivity.
  destruct (ltb v old).
  - destruct (@sift_up_spec n (h_fuel h1) h1 o k HI1 Hin1 O ltac:(unfold h_fuel; rewrite Hlen; lia)) as (h2 & Hs & HI2 & (P & R2 & L2 & I2)).
    exists h2. split; [exact Hs|]. split; [exact HI2|]. split; [exact P|]. split; [exact R2|]. split; [rewrite L2; reflexivity|exact I2].
  - destruct (ltb old v).
    + destruct (@sift_down_spec n (h_fuel h1) h1 o k HI1 Hin1 O ltac:(unfold h_fuel; rewrite Hlen; lia)) as (h2 & Hs & HI2 & (P & R2 & L2 & I2)).
      exists h2. split; [exact Hs|]. split; [exact HI2|]. split; [exact P|]. split; [exact R2|]. split; [rewrite L2; reflexivity|exact I2].
    + exists h1. split; [reflexivity|]. split; [exact HI1|]. repeat split; auto.
Qed.

(* ---- pop: removes and returns the first element ---- *)
Lemma nth_error_removelast {A} (l : list A) k : k < length l - 1 -> nth_error (removelast l) k = nth_error l k.
Proof.
  revert k. induction l as [|x l IH]; intros k Hk; [cbn in Hk; lia|].
  destruct l as [|y l']; [cbn in Hk; lia|]. cbn [removelast]. destruct k as [|k]; [reflexivity|].
  cbn [nth_error]. apply IH. cbn [length] in *. lia.
Qed.

Lemma removelast_len {A} (l : list A) : length (removelast l) = length l - 1.
Proof.
  induction l as [|x l IH]; [reflexivity|]. destruct l as [|y l']; [reflexivity|].
  cbn [removelast length] in *. rewrite IH. lia.
Qed.

Lemma pop_spec n h : HInv n h -> length (h_heap h) <> 0 ->
  exists first h', nth_error (h_heap h) 0 = Some first /\ h_pop ltb h = Ok (Some first, h') /\ HInv n h'
    /\ h_prio h' = h_prio h
    /\ length (h_heap h') = length (h_heap h) - 1
    /\ (forall x, inh h' x <-> inh h x /\ x <> first)
    /\ (forall x, x <> first -> nth_error (h_removed h') x = nth_error (h_removed h) x).
Proof.
  intros HI Hne. pose proof HI as (Lo & Lp & Lr & H).
  destruct (h_heap h) as [|f0 t0] eqn:Eheap; [cbn in Hne; lia|]. clear Hne. rewrite <- Eheap in H.
  assert (E0 : nth_error (h_heap h) 0 = Some f0) by (rewrite Eheap; reflexivity).
  exists f0. unfold h_pop. rewrite Eheap. rewrite <- Eheap.
  assert (Hf0 : inh h f0) by (eapply nth_error_In; exact E0).
  set (len := length (h_heap h)). assert (Hlen : 1 <= len) by (unfold len; rewrite Eheap; cbn; lia).
  destruct (nth_error (h_heap h) (len - 1)) as [l0|] eqn:El; [|apply nth_error_None in El; unfold len in *; lia].
  assert (Hl0 : inh h l0) by (eapply nth_error_In; exact El).
  (* step 1: swap first and last *)
  assert (Hstep1 : exists h1, (if 2 <=? len then do first <- vget (h_heap h) 0; do last <- vget (h_heap h) (len - 1); h_swap h first last else Ok h) = Ok h1
                    /\ HInv n h1 /\ h_prio h1 = h_prio h /\ h_removed h1 = h_removed h
                    /\ length (h_heap h1) = len /\ (forall x, inh h1 x <-> inh h x)
                    /\ nth_error (h_heap h1) (len - 1) = Some f0
                    /\ (forall k, k < len - 1 -> nth_error (h_heap h1) k = if k =? 0 then Some l0 else nth_error (h_heap h) k)).
  { destruct (Nat.leb_spec 2 len) as [H2|H2].
    - unfold vget. rewrite E0, El. cbn [bind].
      destruct (@swap_spec n h f0 l0 HI Hf0 Hl0) as (h1 & Hsw & HI1 & P1 & R1 & L1 & I1 & Hpos).
      destruct (H _ _ E0) as (_ & O0 & _). destruct (H _ _ El) as (_ & Ol & _).
      destruct (Hpos _ _ O0 Ol) as (_ & _ & _ & Hk & Hp1 & Hp2).
      exists h1. split; [exact Hsw|]. split; [exact HI1|]. split; [exact P1|]. split; [exact R1|].
      split; [exact L1|]. split; [exact I1|]. split; [exact Hp2|].
      intros k Hk'. destruct (Nat.eqb_spec k 0) as [->|Hk0]; [exact Hp1|]. apply Hk; lia.
    - exists h. split; [reflexivity|]. split; [exact HI|]. split; [reflexivity|]. split; [reflexivity|].
      split; [reflexivity|]. split; [intros x; reflexivity|].
      assert (len = 1) by lia. replace (len - 1) with 0 by lia. split; [exact E0|]. intros k Hk'. lia. }
  destruct Hstep1 as (h1 & Hs1 & HI1 & P1 & R1 & L1 & I1 & Hlast & Hrest).
  fold len. rewrite Hs1. cbn [bind]. rewrite L1. unfold vget at 1. rewrite Hlast. cbn [bind].
  pose proof HI1 as (Lo1 & Lp1 & Lr1 & H1).
  destruct (H1 _ _ Hlast) as (Nf & Of & Rf).
  unfold vset. destruct (Nat.ltb_spec f0 (length (h_removed h1))); [|lia]. cbn [bind].
  set (h2 := {| h_heap := removelast (h_heap h1); h_obs := h_obs h1; h_prio := h_prio h1;
                h_removed := set_nth (h_removed h1) f0 true |}).
  assert (Hlen2 : length (h_heap h2) = len - 1) by (unfold h2; cbn [h_heap]; rewrite removelast_len, L1; reflexivity).
  assert (Hnth2 : forall k, k < len - 1 -> nth_error (h_heap h2) k = nth_error (h_heap h1) k).
  { intros k Hk. unfold h2. cbn [h_heap]. apply nth_error_removelast. rewrite L1. exact Hk. }
  assert (HI2 : HInv n h2).
  { unfold HInv. unfold h2 at 1 2 3. cbn [h_obs h_prio h_removed]. rewrite set_nth_length.
    split; [exact Lo1|]. split; [exact Lp1|]. split; [exact Lr1|].
    intros k o Hk. assert (Hkl : k < len - 1) by (rewrite <- Hlen2; apply nth_error_Some; congruence).
    rewrite (Hnth2 k Hkl) in Hk. destruct (H1 _ _ Hk) as (A & B & C). unfold h2. cbn [h_obs h_removed].
    split; [exact A|]. split; [exact B|]. rewrite nth_error_set_nth.
    destruct (Nat.eqb_spec o f0) as [->|Hof]; [|exact C].
    exfalso. pose proof (@hinv_inj _ _ _ _ _ HI1 Hk Hlast). lia. }
  assert (Hin2 : forall x, inh h2 x <-> inh h x /\ x <> f0).
  { intros x. unfold inh. split.
    - intros Hin. apply In_nth_error in Hin. destruct Hin as (k & Hk).
      assert (Hkl : k < len - 1) by (rewrite <- Hlen2; apply nth_error_Some; congruence).
      rewrite (Hnth2 k Hkl) in Hk. split; [apply I1; eapply nth_error_In; exact Hk|].
      intros ->. pose proof (@hinv_inj _ _ _ _ _ HI1 Hk Hlast). lia.
    - intros [Hin Hne]. apply I1 in Hin. apply In_nth_error in Hin. destruct Hin as (k & Hk).
      assert (Hkl : k < len) by (rewrite <- L1; apply nth_error_Some; congruence).
      destruct (Nat.eq_dec k (len - 1)) as [->|Hkn]; [rewrite Hlast in Hk; inversion Hk; subst; exfalso; apply Hne; reflexivity|].
      apply nth_error_In with k. rewrite Hnth2 by lia. exact Hk. }
  (* step 3: sift the new first element down *)
  change (removelast (h_heap h1)) with (h_heap h2).
  destruct (Nat.leb_spec 2 (length (h_heap h2))) as [H2|H2].
  - destruct (nth_error (h_heap h2) 0) as [g0|] eqn:Eg; [|apply nth_error_None in Eg; lia].
    unfold vget at 1. rewrite Eg. cbn [bind].
    pose proof HI2 as (_ & _ & _ & H2').
    destruct (H2' _ _ Eg) as (_ & Og & _).
    destruct (@sift_down_spec n (h_fuel h2) h2 g0 0 HI2 ltac:(eapply nth_error_In; exact Eg) Og ltac:(unfold h_fuel; lia))
      as (h3 & Hs & HI3 & (P3 & R3 & L3 & I3)).
    rewrite Hs. cbn [bind]. exists h3. split; [exact E0|]. split; [reflexivity|]. split; [exact HI3|].
    split; [rewrite P3; unfold h2; cbn [h_prio]; exact P1|].
    split; [rewrite L3, Hlen2; reflexivity|].
    split; [intros x; rewrite I3; apply Hin2|].
    intros x Hx. rewrite R3. unfold h2. cbn [h_removed]. rewrite nth_error_set_nth.
    destruct (Nat.eqb_spec x f0); [contradiction|]. rewrite R1. reflexivity.
  - cbn [bind]. exists h2. split; [exact E0|]. split; [reflexivity|]. split; [exact HI2|].
    split; [unfold h2; cbn [h_prio]; exact P1|]. split; [exact Hlen2|]. split; [exact Hin2|].
    intros x Hx. unfold h2. cbn [h_removed]. rewrite nth_error_set_nth.
    destruct (Nat.eqb_spec x f0); [contradiction|]. rewrite R1. reflexivity.
Qed.

(* ---- reset / heapify ---- *)
Lemma canonical_inv (maxv : T) n : HInv n (h_canonical maxv n).
Proof.
  unfold HInv, h_canonical. cbn [h_heap h_obs h_prio h_removed]. rewrite !map_length, !seq_length.
  split; [reflexivity|]. split; [reflexivity|]. split; [reflexivity|].
  intros k o Hk. rewrite nth_error_map in Hk. destruct (nth_error (seq 0 n) k) as [x|] eqn:E; [|discriminate].
  inversion Hk; subst x.
  assert (Hkn : k < n) by (rewrite <- (seq_length n 0); apply nth_error_Some; congruence).
  rewrite (nth_error_nth' _ 0) in E by (rewrite seq_length; exact Hkn). rewrite seq_nth in E by exact Hkn. inversion E; subst o.
  split; [exact Hkn|]. rewrite !nth_error_map, (nth_error_nth' _ 0) by (rewrite seq_length; exact Hkn).
  rewrite seq_nth by exact Hkn. split; reflexivity.
Qed.

Lemma canonical_inh (maxv : T) n o : inh (h_canonical maxv n) o <-> o < n.
Proof. unfold inh, h_canonical. cbn [h_heap]. rewrite map_id, in_seq. lia. Qed.

Lemma heapify_fold_spec n : forall (idx : list nat) h, HInv n h -> (forall i, In i idx -> i < length (h_heap h)) ->
  exists h', mfold (fun hh i => do o <- vget (h_heap hh) i; h_sift_down ltb (h_fuel hh) hh o) idx h = Ok h'
    /\ HInv n h' /\ same_frame h h'.
Proof.
  induction idx as [|i idx IH]; intros h HI Hidx.
  - exists h. split; [reflexivity|]. split; [exact HI|apply same_frame_refl].
  - cbn [mfold]. assert (Hi : i < length (h_heap h)) by (apply Hidx; left; reflexivity).
    destruct (nth_error (h_heap h) i) as [o|] eqn:E; [|apply nth_error_None in E; lia].
    unfold vget at 1. rewrite E. cbn [bind]. pose proof HI as (_ & _ & _ & H). destruct (H _ _ E) as (_ & O & _).
    destruct (@sift_down_spec n (h_fuel h) h o i HI ltac:(eapply nth_error_In; exact E) O ltac:(unfold h_fuel; lia))
      as (h1 & Hs & HI1 & F1).
    rewrite Hs. cbn [bind].
    destruct (IH h1 HI1 ltac:(intros j Hj; destruct F1 as (_ & _ & L1 & _); rewrite L1; apply Hidx; right; exact Hj))
      as (h2 & Hf & HI2 & F2).
    exists h2. split; [exact Hf|]. split; [exact HI2|exact (same_frame_trans F1 F2)].
Qed.

Lemma heapify_post_spec n h0 pr : HInv n h0 -> length (h_heap h0) = n -> length pr = n ->
  exists h', h_heapify_post ltb h0 pr = Ok h' /\ HInv n h' /\ h_prio h' = pr /\ h_removed h' = h_removed h0
    /\ length (h_heap h') = length (h_heap h0) /\ (forall o, inh h' o <-> inh h0 o).
Proof.
  intros HI Hfull Hpr. pose proof HI as (Lo & Lp & Lr & H). unfold h_heapify_post.
  set (h1 := {| h_heap := h_heap h0; h_obs := h_obs h0; h_prio := pr; h_removed := h_removed h0 |}).
  assert (HI1 : HInv n h1) by (unfold HInv, h1; cbn [h_heap h_obs h_prio h_removed]; auto).
  destruct (@heapify_fold_spec n (rev (seq 0 (length (h_prio h0) / 2))) h1 HI1) as (h2 & Hf & HI2 & (P & R & L & I)).
  { intros i Hi. apply in_rev in Hi. apply in_seq in Hi. unfold h1. cbn [h_heap]. rewrite Hfull, Lp in *.
    assert (n / 2 <= n) by (apply Nat.div_le_upper_bound; lia). lia. }
  exists h2. split; [exact Hf|]. split; [exact HI2|]. split; [exact P|]. split; [exact R|]. split; [exact L|exact I].
Qed.

(* ================================================================== *)
(* heap order *)
Hypothesis ltb_irrefl : forall a, ltb a a = false.
Hypothesis ltb_trans : forall a b c, ltb a b = true -> ltb b c = true -> ltb a c = true.
Hypothesis ltb_negtrans : forall a b c, ltb a b = false -> ltb b c = false -> ltb a c = false.

Lemma ltb_asym a b : ltb a b = true -> ltb b a = false.
Proof.
  intros H. destruct (ltb b a) eqn:C; [|reflexivity].
  pose proof (@ltb_trans _ _ _ H C) as C2. rewrite ltb_irrefl in C2. discriminate.
Qed.

(* priority of the observation at position k *)
Definition pp (h : heap) (k : nat) : option T :=
  match nth_error (h_heap h) k with Some o => nth_error (h_prio h) o | None => None end.

(* the element at k is not below its parent *)
Definition ord_at (h : heap) (k : nat) : Prop :=
  k = 0 \/ forall v vp, pp h k = Some v -> pp h ((k - 1) / 2) = Some vp -> ltb v vp = false.

Definition HOrd (h : heap) : Prop := forall k, ord_at h k.

Lemma pp_some n h k : HInv n h -> k < length (h_heap h) -> exists v, pp h k = Some v.
Proof.
  intros (Lo & Lp & Lr & H) Hk. unfold pp.
  destruct (nth_error (h_heap h) k) as [o|] eqn:E; [|apply nth_error_None in E; lia].
  destruct (H _ _ E) as (N & _). destruct (nth_error (h_prio h) o) eqn:E2; [eexists; reflexivity|apply nth_error_None in E2; lia].
Qed.

(* the top has minimal priority *)
Theorem top_min n h : HInv n h -> HOrd h ->
  forall k v v0, pp h k = Some v -> pp h 0 = Some v0 -> ltb v v0 = false.
Proof.
  intros HI HO k. induction k as [k IH] using lt_wf_ind. intros v v0 Hv H0.
  destruct (Nat.eq_dec k 0) as [->|Hk]; [rewrite Hv in H0; inversion H0; apply ltb_irrefl|].
  assert (Hpk : (k - 1) / 2 < k) by (apply Nat.div_lt_upper_bound; lia).
  assert (Hkl : k < length (h_heap h)).
  { unfold pp in Hv. destruct (nth_error (h_heap h) k) eqn:E; [apply nth_error_Some; congruence|discriminate]. }
  destruct (@pp_some n h ((k - 1) / 2) HI ltac:(lia)) as (vp & Hvp).
  destruct (HO k) as [?|Hord]; [contradiction|].
  exact (@ltb_negtrans _ _ _ (Hord v vp Hv Hvp) (IH _ Hpk vp v0 Hvp H0)).
Qed.

(* effect of a swap on the priorities by position *)
Lemma swap_pp n h o1 o2 p1 p2 h' : HInv n h -> inh h o1 -> inh h o2 ->
  nth_error (h_obs h) o1 = Some p1 -> nth_error (h_obs h) o2 = Some p2 ->
  h_swap h o1 o2 = Ok h' ->
  pp h' p1 = pp h p2 /\ pp h' p2 = pp h p1 /\ (forall k, k <> p1 -> k <> p2 -> pp h' k = pp h k).
Proof.
  intros HI H1 H2 O1 O2 Hsw.
  destruct (@swap_spec n h o1 o2 HI H1 H2) as (h1 & Hsw' & _ & P1 & _ & _ & _ & Hpos).
  rewrite Hsw in Hsw'. inversion Hsw'; subst h1.
  destruct (Hpos _ _ O1 O2) as (_ & _ & _ & Hk & Hp1 & Hp2).
  destruct (@inh_pos _ _ _ HI H1) as (k1 & K1 & _ & _ & O1' & _). rewrite O1 in O1'. inversion O1'; subst k1.
  destruct (@inh_pos _ _ _ HI H2) as (k2 & K2 & _ & _ & O2' & _). rewrite O2 in O2'. inversion O2'; subst k2.
  unfold pp. rewrite Hp1, Hp2, K1, K2, P1. split; [reflexivity|]. split; [reflexivity|].
  intros k E1 E2. rewrite (Hk k E1 E2). reflexivity.
Qed.

Lemma pp_at n h k o : HInv n h -> nth_error (h_heap h) k = Some o -> pp h k = nth_error (h_prio h) o.
Proof. intros _ E. unfold pp. rewrite E. reflexivity. Qed.

(* sift_down restores the order below k.  Q is any set of positions closed
   under taking children (all positions for pop / set_priority, the positions
   >= 2i+1 for the i-th step of heapify). *)
Lemma sift_down_ord n (Q : nat -> Prop) :
  (forall j, Q j -> Q (2 * j + 1) /\ Q (2 * j + 2)) ->
  forall fuel h o k h', HInv n h -> inh h o -> nth_error (h_obs h) o = Some k ->
  h_sift_down ltb fuel h o = Ok h' ->
  (forall j, j <> 2 * k + 1 -> j <> 2 * k + 2 -> Q j -> ord_at h j) ->
  (Q k -> k <> 0 -> forall c v vp, c = 2 * k + 1 \/ c = 2 * k + 2 -> pp h c = Some v -> pp h ((k - 1) / 2) = Some vp -> ltb v vp = false) ->
  forall j, Q j -> ord_at h' j.
Proof.
  intros Qc. induction fuel as [|fuel IH]; intros h o k h' HI Hin Hk Hs P1 P3; [discriminate|].
  pose proof HI as (Lo & Lp & Lr & H).
  destruct (@inh_pos _ _ _ HI Hin) as (k' & K & B & N & O & R). rewrite Hk in O. inversion O; subst k'.
  cbn [h_sift_down] in Hs. unfold vget at 1 in Hs. rewrite Hk in Hs. cbn [bind] in Hs.
  assert (Hpr : forall x, inh h x -> exists px, nth_error (h_prio h) x = Some px).
  { intros x Hx. destruct (@inh_pos _ _ _ HI Hx) as (kx & _ & _ & Nx & _).
    destruct (nth_error (h_prio h) x) eqn:E; [eexists; reflexivity|apply nth_error_None in E; lia]. }
  destruct (Hpr o Hin) as (po & Epo).
  assert (Hppk : pp h k = Some po) by (rewrite (@pp_at _ _ _ _ HI K); exact Epo).
  assert (Hpar1 : (2 * k + 1 - 1) / 2 = k) by (replace (2 * k + 1 - 1) with (k * 2) by lia; apply Nat.div_mul; lia).
  assert (Hpar2 : (2 * k + 2 - 1) / 2 = k).
  { replace (2 * k + 2 - 1) with (1 + k * 2) by lia. rewrite Nat.div_add by lia. reflexivity. }
  (* the choice among o, left, right, as facts about priorities *)
  assert (Hsel : exists c2,
     (do child1 <- match nth_error (h_heap h) (2 * k + 1) with
                   | Some l => do pl <- vget (h_prio h) l; do pc <- vget (h_prio h) o; Ok (if ltb pl pc then l else o)
                   | None => Ok o end;
      match nth_error (h_heap h) (2 * k + 2) with
      | Some r => do pr <- vget (h_prio h) r; do pc <- vget (h_prio h) child1; Ok (if ltb pr pc then r else child1)
      | None => Ok child1 end) = Ok c2
     /\ ((c2 = o /\ (forall v, pp h (2 * k + 1) = Some v -> ltb v po = false) /\ (forall v, pp h (2 * k + 2) = Some v -> ltb v po = false))
         \/ (exists kc ks pc2, (kc = 2 * k + 1 /\ ks = 2 * k + 2 \/ kc = 2 * k + 2 /\ ks = 2 * k + 1)
               /\ nth_error (h_heap h) kc = Some c2 /\ pp h kc = Some pc2 /\ ltb pc2 po = true
               /\ (forall v, pp h ks = Some v -> ltb v pc2 = false)))).
  { destruct (nth_error (h_heap h) (2 * k + 1)) as [l|] eqn:El.
    - assert (Hl : inh h l) by (eapply nth_error_In; exact El). destruct (Hpr l Hl) as (pl & Epl).
      assert (Hppl : pp h (2 * k + 1) = Some pl) by (rewrite (@pp_at _ _ _ _ HI El); exact Epl).
      unfold vget at 1 2. rewrite Epl, Epo. cbn [bind].
      destruct (nth_error (h_heap h) (2 * k + 2)) as [r|] eqn:Er.
      + assert (Hr : inh h r) by (eapply nth_error_In; exact Er). destruct (Hpr r Hr) as (pr & Epr).
        assert (Hppr : pp h (2 * k + 2) = Some pr) by (rewrite (@pp_at _ _ _ _ HI Er); exact Epr).
        destruct (ltb pl po) eqn:C1.
        * unfold vget. rewrite Epr, Epl. cbn [bind]. destruct (ltb pr pl) eqn:C2; eexists; (split; [reflexivity|]); right.
          -- exists (2 * k + 2), (2 * k + 1), pr. split; [right; split; reflexivity|]. split; [exact Er|]. split; [exact Hppr|].
             split; [exact (@ltb_trans _ _ _ C2 C1)|]. intros v Hv. rewrite Hppl in Hv. inversion Hv; subst v. exact (ltb_asym C2).
          -- exists (2 * k + 1), (2 * k + 2), pl. split; [left; split; reflexivity|]. split; [exact El|]. split; [exact Hppl|].
             split; [exact C1|]. intros v Hv. rewrite Hppr in Hv. inversion Hv; subst v. exact C2.
        * unfold vget. rewrite Epr, Epo. cbn [bind]. destruct (ltb pr po) eqn:C2; eexists; (split; [reflexivity|]).
          -- right. exists (2 * k + 2), (2 * k + 1), pr. split; [right; split; reflexivity|]. split; [exact Er|]. split; [exact Hppr|].
             split; [exact C2|]. intros v Hv. rewrite Hppl in Hv. inversion Hv; subst v.
             destruct (ltb pl pr) eqn:C3; [|reflexivity]. rewrite (@ltb_trans _ _ _ C3 C2) in C1. discriminate.
          -- left. split; [reflexivity|]. split; intros v Hv; [rewrite Hppl in Hv|rewrite Hppr in Hv]; inversion Hv; subst v; assumption.
      + destruct (ltb pl po) eqn:C1; eexists; (split; [reflexivity|]).
        * right. exists (2 * k + 1), (2 * k + 2), pl. split; [left; split; reflexivity|]. split; [exact El|]. split; [exact Hppl|].
          split; [exact C1|]. intros v Hv. unfold pp in Hv. rewrite Er in Hv. discriminate.
        * left. split; [reflexivity|]. split; intros v Hv; [rewrite Hppl in Hv; inversion Hv; subst v; exact C1|unfold pp in Hv; rewrite Er in Hv; discriminate].
    - cbn [bind].
      destruct (nth_error (h_heap h) (2 * k + 2)) as [r|] eqn:Er.
      + (* a right child without a left child cannot exist in a list *)
        exfalso. assert (2 * k + 2 < length (h_heap h)) by (apply nth_error_Some; congruence).
        apply nth_error_None in El. lia.
      + eexists. split; [reflexivity|]. left. split; [reflexivity|]. split; intros v Hv; unfold pp in Hv; [rewrite El in Hv|rewrite Er in Hv]; discriminate. }
  destruct Hsel as (c2 & Esel & Hcases).
  (* rewrite the computation with the chosen child *)
  destruct (match nth_error (h_heap h) (2 * k + 1) with
            | Some l => do pl <- vget (h_prio h) l; do pc <- vget (h_prio h) o; Ok (if ltb pl pc then l else o)
            | None => Ok o end) as [child1| |] eqn:Ec1; cbn [bind] in Hs, Esel; try discriminate.
  rewrite Esel in Hs. cbn [bind] in Hs.
  destruct Hcases as [(-> & Hl & Hr)|(kc & ks & pc2 & Hkk & Ekc & Hppc & Hlt & Hsib)].
  - rewrite Nat.eqb_refl in Hs. inversion Hs; subst h'.
    intros j Qj. destruct (Nat.eq_dec j (2 * k + 1)) as [->|E1].
    + right. rewrite Hpar1. intros v vp Hv Hvp. rewrite Hppk in Hvp. inversion Hvp; subst vp. exact (Hl v Hv).
    + destruct (Nat.eq_dec j (2 * k + 2)) as [->|E2]; [|exact (P1 j E1 E2 Qj)].
      right. rewrite Hpar2. intros v vp Hv Hvp. rewrite Hppk in Hvp. inversion Hvp; subst vp. exact (Hr v Hv).
  - assert (Hne : o <> c2).
    { intros ->. pose proof (@hinv_inj _ _ _ _ _ HI K Ekc). lia. }
    destruct (Nat.eqb_spec o c2) as [?|_]; [contradiction|].
    assert (Hin2 : inh h c2) by (eapply nth_error_In; exact Ekc).
    destruct (H _ _ Ekc) as (_ & Oc2 & _).
    destruct (h_swap h o c2) as [h1| |] eqn:Hsw; cbn [bind] in Hs; try discriminate.
    destruct (@swap_spec n h o c2 HI Hin Hin2) as (h1' & Hsw' & HI1 & _ & _ & _ & I1 & Hpos).
    rewrite Hsw in Hsw'. inversion Hsw'; subst h1'.
    destruct (Hpos _ _ Hk Oc2) as (Oo & _).
    destruct (@swap_pp n h o c2 k kc h1 HI Hin Hin2 Hk Oc2 Hsw) as (S1 & S2 & S3).
    assert (Hkkc : k < kc) by lia.
    assert (Hparkc : (kc - 1) / 2 = k) by (destruct Hkk as [[-> _]|[-> _]]; assumption).
    assert (Hparks : (ks - 1) / 2 = k) by (destruct Hkk as [[_ ->]|[_ ->]]; assumption).
    apply (IH h1 o kc h' HI1 (proj2 (I1 o) Hin) Oo Hs).
    + (* order outside the children of kc *)
      intros j E1 E2 Qj.
      destruct (Nat.eq_dec j k) as [->|Ejk].
      * destruct (Nat.eq_dec k 0) as [Hk0|Hk0]; [left; exact Hk0|]. right. intros v vp Hv Hvp.
        rewrite S1 in Hv. rewrite S3 in Hvp by (assert ((k - 1) / 2 < k) by (apply Nat.div_lt_upper_bound; lia); lia).
        apply (P3 Qj Hk0 kc v vp); [destruct Hkk as [[-> _]|[-> _]]; auto|exact Hv|exact Hvp].
      * destruct (Nat.eq_dec j kc) as [->|Ejkc].
        -- right. rewrite Hparkc. intros v vp Hv Hvp. rewrite S2, Hppk in Hv. rewrite S1, Hppc in Hvp.
           inversion Hv; inversion Hvp; subst v vp. exact (ltb_asym Hlt).
        -- destruct (Nat.eq_dec j ks) as [->|Ejks].
           ++ right. rewrite Hparks. intros v vp Hv Hvp. rewrite S3 in Hv by lia. rewrite S1, Hppc in Hvp.
              inversion Hvp; subst vp. exact (Hsib v Hv).
           ++ assert (Hj1 : j <> 2 * k + 1) by (destruct Hkk as [[-> ->]|[-> ->]]; lia).
              assert (Hj2 : j <> 2 * k + 2) by (destruct Hkk as [[-> ->]|[-> ->]]; lia).
              destruct (P1 j Hj1 Hj2 Qj) as [Hj0|Hord]; [left; exact Hj0|]. right. intros v vp Hv Hvp.
              rewrite S3 in Hv by assumption.
              assert (Hpj : (j - 1) / 2 <> k /\ (j - 1) / 2 <> kc).
              { destruct (Nat.eq_dec j 0) as [->|Hj0]; [cbn; lia|].
                pose proof (Nat.div_mod (j - 1) 2 ltac:(lia)) as Dm. pose proof (Nat.mod_upper_bound (j - 1) 2 ltac:(lia)). lia. }
              rewrite S3 in Hvp by (destruct Hpj; assumption). exact (Hord v vp Hv Hvp).
    + (* children of kc against the new element at k *)
      intros Qkc _ c v vp Hc Hv Hvp. rewrite Hparkc in Hvp. rewrite S1, Hppc in Hvp. inversion Hvp; subst vp.
      assert (Hck : c <> k /\ c <> kc) by lia. rewrite S3 in Hv by (destruct Hck; assumption).
      assert (Qcc : Q c) by (destruct (Qc kc Qkc); destruct Hc as [->| ->]; assumption).
      assert (Hpc : (c - 1) / 2 = kc).
      { destruct Hc as [->| ->].
        - replace (2 * kc + 1 - 1) with (kc * 2) by lia. apply Nat.div_mul. lia.
        - replace (2 * kc + 2 - 1) with (1 + kc * 2) by lia. rewrite Nat.div_add by lia. reflexivity. }
      destruct (P1 c ltac:(lia) ltac:(lia) Qcc) as [Hc0|Hord]; [lia|].
      apply (Hord v pc2 Hv). rewrite Hpc. exact Hppc.
Qed.

Lemma parent_child k : k <> 0 -> k = 2 * ((k - 1) / 2) + 1 \/ k = 2 * ((k - 1) / 2) + 2.
Proof.
  intros Hk. pose proof (Nat.div_mod (k - 1) 2 ltac:(lia)) as Dm. pose proof (Nat.mod_upper_bound (k - 1) 2 ltac:(lia)). lia.
Qed.

Lemma child_parent j k : j = 2 * k + 1 \/ j = 2 * k + 2 -> (j - 1) / 2 = k.
Proof.
  intros [->| ->].
  - replace (2 * k + 1 - 1) with (k * 2) by lia. apply Nat.div_mul. lia.
  - replace (2 * k + 2 - 1) with (1 + k * 2) by lia. rewrite Nat.div_add by lia. reflexivity.
Qed.

(* sift_up restores the order above k *)
Lemma sift_up_ord n : forall fuel h o k h', HInv n h -> inh h o -> nth_error (h_obs h) o = Some k ->
  h_sift_up ltb fuel h o = Ok h' ->
  (forall j, j <> k -> ord_at h j) ->
  (k <> 0 -> forall c v vp, c = 2 * k + 1 \/ c = 2 * k + 2 -> pp h c = Some v -> pp h ((k - 1) / 2) = Some vp -> ltb v vp = false) ->
  HOrd h'.
Proof.
  induction fuel as [|fuel IH]; intros h o k h' HI Hin Hk Hs P1 P2; [discriminate|].
  pose proof HI as (Lo & Lp & Lr & H).
  destruct (@inh_pos _ _ _ HI Hin) as (k' & K & B & N & O & R). rewrite Hk in O. inversion O; subst k'.
  cbn [h_sift_up] in Hs. unfold h_parent, vget at 1 in Hs. rewrite Hk in Hs. cbn [bind] in Hs.
  destruct (Nat.eqb_spec k 0) as [Hz|Hz]; cbn [bind] in Hs.
  - inversion Hs; subst h'. intros j. destruct (Nat.eq_dec j k) as [->|E]; [left; exact Hz|exact (P1 j E)].
  - set (pk := (k - 1) / 2) in *.
    assert (Hpk : pk < k) by (apply Nat.div_lt_upper_bound; lia).
    destruct (nth_error (h_heap h) pk) as [po|] eqn:Epo; [|apply nth_error_None in Epo; lia].
    unfold vget at 1 in Hs. rewrite Epo in Hs. cbn [bind] in Hs.
    destruct (H _ _ Epo) as (Npo & Opo & Rpo).
    unfold vget at 1 in Hs. destruct (nth_error (h_prio h) po) as [ppo|] eqn:E1; [|apply nth_error_None in E1; lia]. cbn [bind] in Hs.
    unfold vget at 1 in Hs. destruct (nth_error (h_prio h) o) as [pro|] eqn:E2; [|apply nth_error_None in E2; lia]. cbn [bind] in Hs.
    assert (Hppk : pp h k = Some pro) by (rewrite (@pp_at _ _ _ _ HI K); exact E2).
    assert (Hpppk : pp h pk = Some ppo) by (rewrite (@pp_at _ _ _ _ HI Epo); exact E1).
    destruct (ltb ppo pro) eqn:C.
    + inversion Hs; subst h'. intros j. destruct (Nat.eq_dec j k) as [->|E]; [|exact (P1 j E)].
      right. fold pk. intros v vp Hv Hvp. rewrite Hppk in Hv. rewrite Hpppk in Hvp. inversion Hv; inversion Hvp; subst. exact (ltb_asym C).
    + assert (Hinpo : inh h po) by (eapply nth_error_In; exact Epo).
      destruct (h_swap h o po) as [h1| |] eqn:Hsw; cbn [bind] in Hs; try discriminate.
      destruct (@swap_spec n h o po HI Hin Hinpo) as (h1' & Hsw' & HI1 & _ & _ & _ & I1 & Hpos).
      rewrite Hsw in Hsw'. inversion Hsw'; subst h1'.
      destruct (Hpos _ _ Hk Opo) as (Oo & _).
      destruct (@swap_pp n h o po k pk h1 HI Hin Hinpo Hk Opo Hsw) as (S1 & S2 & S3).
      apply (IH h1 o pk h' HI1 (proj2 (I1 o) Hin) Oo Hs).
      * intros j Ej. destruct (Nat.eq_dec j k) as [->|Ejk].
        { right. fold pk. intros v vp Hv Hvp. rewrite S1, Hpppk in Hv. rewrite S2, Hppk in Hvp.
          inversion Hv; inversion Hvp; subst. exact C. }
        destruct (Nat.eq_dec j 0) as [->|Hj0]; [left; reflexivity|].
        destruct (P1 j Ejk) as [?|Hord]; [contradiction|]. right. intros v vp Hv Hvp. rewrite S3 in Hv by assumption.
        destruct (Nat.eq_dec ((j - 1) / 2) k) as [Epj|Epj].
        { (* child of k: its parent is now po *)
          rewrite Epj, S1, Hpppk in Hvp. inversion Hvp; subst vp.
          apply (P2 Hz j v ppo); [pose proof (parent_child Hj0); lia|exact Hv|exact Hpppk]. }
        destruct (Nat.eq_dec ((j - 1) / 2) pk) as [Epk|Epk].
        { (* sibling of k: its parent is now o *)
          rewrite Epk, S2, Hppk in Hvp. inversion Hvp; subst vp.
          apply ltb_negtrans with ppo; [apply (Hord v ppo Hv); rewrite Epk; exact Hpppk|exact C]. }
        rewrite S3 in Hvp by assumption. exact (Hord v vp Hv Hvp).
      * (* children of pk against the grandparent *)
        intros Hpk0 c v vp Hc Hv Hvp.
        assert (Hgp : (pk - 1) / 2 < pk) by (apply Nat.div_lt_upper_bound; lia).
        rewrite S3 in Hvp by lia.
        destruct (P1 pk ltac:(lia)) as [?|Hordpk]; [contradiction|].
        pose proof (Hordpk ppo vp Hpppk Hvp) as Hpg.
        destruct (Nat.eq_dec c k) as [->|Eck]; [rewrite S1, Hpppk in Hv; inversion Hv; subst v; exact Hpg|].
        rewrite S3 in Hv by lia.
        destruct (P1 c Eck) as [?|Hordc]; [lia|].
        apply ltb_negtrans with ppo; [apply (Hordc v ppo Hv); rewrite (@child_parent _ _ Hc); exact Hpppk|exact Hpg].
Qed.

(* ---- the operations keep the heap ordered ---- *)
Lemma sift_down_keeps n fuel h o k h' : HInv n h -> inh h o -> nth_error (h_obs h) o = Some k ->
  length (h_heap h) - k < fuel -> h_sift_down ltb fuel h o = Ok h' -> HInv n h' /\ same_frame h h'.
Proof.
  intros HI Hin Hk Hf Hs. destruct (@sift_down_spec n fuel h o k HI Hin Hk Hf) as (h2 & Hs2 & HI2 & F2).
  rewrite Hs in Hs2. inversion Hs2; subst h2. split; assumption.
Qed.

Theorem set_priority_ord n h o v h' : HInv n h -> HOrd h -> inh h o ->
  h_set_priority ltb h o v = Ok h' -> HOrd h'.
Proof.
  intros HI HO Hin Hs. destruct (@inh_pos _ _ _ HI Hin) as (k & K & B & N & O & R). pose proof HI as (Lo & Lp & Lr & H).
  unfold h_set_priority, vget at 1 in Hs. rewrite R in Hs. cbn [bind negb assert_] in Hs.
  unfold vget at 1 in Hs. destruct (nth_error (h_prio h) o) as [old|] eqn:E; [|apply nth_error_None in E; lia]. cbn [bind] in Hs.
  unfold vset in Hs. destruct (Nat.ltb_spec o (length (h_prio h))); [|lia]. cbn [bind] in Hs.
  set (h1 := {| h_heap := h_heap h; h_obs := h_obs h; h_prio := set_nth (h_prio h) o v; h_removed := h_removed h |}) in *.
  assert (HI1 : HInv n h1) by (unfold HInv, h1; cbn [h_heap h_obs h_prio h_removed]; rewrite set_nth_length; auto).
  assert (Hin1 : inh h1 o) by exact Hin.
  assert (Hppk : pp h k = Some old) by (rewrite (@pp_at _ _ _ _ HI K); exact E).
  assert (Hpp1k : pp h1 k = Some v).
  { unfold pp, h1. cbn [h_heap h_prio]. rewrite K. apply nth_error_set_nth_eq. lia. }
  assert (Hpp1 : forall j, j <> k -> pp h1 j = pp h j).
  { intros j Hj. unfold pp, h1. cbn [h_heap h_prio]. destruct (nth_error (h_heap h) j) as [x|] eqn:Ex; [|reflexivity].
    apply nth_error_set_nth_neq. intros ->. apply Hj. exact (@hinv_inj _ _ _ _ _ HI Ex K). }
  (* facts about the neighbours of k in the old heap *)
  assert (Hup : k <> 0 -> forall vp, pp h ((k - 1) / 2) = Some vp -> ltb old vp = false).
  { intros Hk0 vp Hvp. destruct (HO k) as [?|Hord]; [contradiction|]. exact (Hord old vp Hppk Hvp). }
  assert (Hdown : forall c vc, c = 2 * k + 1 \/ c = 2 * k + 2 -> pp h c = Some vc -> ltb vc old = false).
  { intros c vc Hc Hvc. destruct (HO c) as [?|Hord]; [lia|]. apply (Hord vc old Hvc). rewrite (@child_parent _ _ Hc). exact Hppk. }
  assert (Hpark : forall j, j <> 0 -> (j - 1) / 2 = k -> j = 2 * k + 1 \/ j = 2 * k + 2).
  { intros j Hj0 Ej. pose proof (parent_child Hj0). lia. }
  assert (Hparlt : forall j, j <> 0 -> (j - 1) / 2 < j) by (intros j Hj; apply Nat.div_lt_upper_bound; lia).
  destruct (ltb v old) eqn:C1.
  - refine (@sift_up_ord n (h_fuel h1) h1 o k h' HI1 Hin1 O Hs _ _).
    + intros j Ej. destruct (Nat.eq_dec j 0) as [->|Hj0]; [left; reflexivity|]. right. intros vj vp Hvj Hvp.
      rewrite Hpp1 in Hvj by exact Ej.
      destruct (Nat.eq_dec ((j - 1) / 2) k) as [Epj|Epj].
      * rewrite Epj, Hpp1k in Hvp. inversion Hvp; subst vp.
        pose proof (Hdown j vj (Hpark j Hj0 Epj) Hvj) as Hd.
        destruct (ltb vj v) eqn:C2; [|reflexivity]. rewrite (@ltb_trans _ _ _ C2 C1) in Hd. discriminate.
      * rewrite Hpp1 in Hvp by exact Epj. destruct (HO j) as [?|Hord]; [contradiction|]. exact (Hord vj vp Hvj Hvp).
    + intros Hk0 c vc vp Hc Hvc Hvp. rewrite Hpp1 in Hvc by lia. rewrite Hpp1 in Hvp by (pose proof (Hparlt k Hk0); lia).
      exact (@ltb_negtrans _ _ _ (Hdown c vc Hc Hvc) (Hup Hk0 vp Hvp)).
  - destruct (ltb old v) eqn:C2.
    + intros j0. refine (@sift_down_ord n (fun _ => True) ltac:(intros; split; exact I) (h_fuel h1) h1 o k h' HI1 Hin1 O Hs _ _ j0 I).
      * intros j E1 E2 _. destruct (Nat.eq_dec j 0) as [->|Hj0]; [left; reflexivity|]. right. intros vj vp Hvj Hvp.
        assert (Epj : (j - 1) / 2 <> k) by (intros Ej; pose proof (Hpark j Hj0 Ej); lia).
        rewrite Hpp1 in Hvp by exact Epj.
        destruct (Nat.eq_dec j k) as [->|Ejk].
        -- rewrite Hpp1k in Hvj. inversion Hvj; subst vj. pose proof (Hup Hj0 vp Hvp) as Hu.
           destruct (ltb v vp) eqn:C3; [|reflexivity]. rewrite (@ltb_trans _ _ _ C2 C3) in Hu. discriminate.
        -- rewrite Hpp1 in Hvj by exact Ejk. destruct (HO j) as [?|Hord]; [contradiction|]. exact (Hord vj vp Hvj Hvp).
      * intros _ Hk0 c vc vp Hc Hvc Hvp. rewrite Hpp1 in Hvc by lia. rewrite Hpp1 in Hvp by (pose proof (Hparlt k Hk0); lia).
        exact (@ltb_negtrans _ _ _ (Hdown c vc Hc Hvc) (Hup Hk0 vp Hvp)).
    + inversion Hs; subst h'. intros j. destruct (Nat.eq_dec j 0) as [->|Hj0]; [left; reflexivity|]. right. intros vj vp Hvj Hvp.
      destruct (Nat.eq_dec j k) as [->|Ejk].
      * rewrite Hpp1k in Hvj. inversion Hvj; subst vj. rewrite Hpp1 in Hvp by (pose proof (Hparlt k Hj0); lia).
        exact (@ltb_negtrans _ _ _ C1 (Hup Hj0 vp Hvp)).
      * rewrite Hpp1 in Hvj by exact Ejk. destruct (Nat.eq_dec ((j - 1) / 2) k) as [Epj|Epj].
        -- rewrite Epj, Hpp1k in Hvp. inversion Hvp; subst vp.
           exact (@ltb_negtrans _ _ _ (Hdown j vj (Hpark j Hj0 Epj) Hvj) C2).
        -- rewrite Hpp1 in Hvp by exact Epj. destruct (HO j) as [?|Hord]; [contradiction|]. exact (Hord vj vp Hvj Hvp).
Qed.

Lemma nth_error_removelast_none {A} (l : list A) k : length l - 1 <= k -> nth_error (removelast l) k = None.
Proof. intros Hk. apply nth_error_None. rewrite removelast_len. exact Hk. Qed.

(* pop up to the final sift: the state h2 with the old last element on top *)
Lemma pop_steps n h : HInv n h -> length (h_heap h) <> 0 ->
  exists f0 h2, nth_error (h_heap h) 0 = Some f0 /\ HInv n h2
    /\ length (h_heap h2) = length (h_heap h) - 1
    /\ h_pop ltb h = (do h3 <- (if 2 <=? length (h_heap h2) then do first <- vget (h_heap h2) 0; h_sift_down ltb (h_fuel h2) h2 first else Ok h2);
                       Ok (Some f0, h3))
    /\ (forall j, 0 < j -> j < length (h_heap h) - 1 -> pp h2 j = pp h j)
    /\ (forall j, length (h_heap h) - 1 <= j -> pp h2 j = None).
Proof.
  intros HI Hne. pose proof HI as (Lo & Lp & Lr & H).
  destruct (h_heap h) as [|f0 t0] eqn:Eheap; [cbn in Hne; lia|]. clear Hne. rewrite <- Eheap in H.
  assert (E0 : nth_error (h_heap h) 0 = Some f0) by (rewrite Eheap; reflexivity).
  exists f0. unfold h_pop. rewrite Eheap. rewrite <- Eheap.
  assert (Hf0 : inh h f0) by (eapply nth_error_In; exact E0).
  set (len := length (h_heap h)). assert (Hlen : 1 <= len) by (unfold len; rewrite Eheap; cbn; lia).
  destruct (nth_error (h_heap h) (len - 1)) as [l0|] eqn:El; [|apply nth_error_None in El; unfold len in *; lia].
  assert (Hl0 : inh h l0) by (eapply nth_error_In; exact El).
  assert (Hstep1 : exists h1, (if 2 <=? len then do first <- vget (h_heap h) 0; do last <- vget (h_heap h) (len - 1); h_swap h first last else Ok h) = Ok h1
                    /\ HInv n h1 /\ h_prio h1 = h_prio h
                    /\ length (h_heap h1) = len
                    /\ nth_error (h_heap h1) (len - 1) = Some f0
                    /\ (forall k, 0 < k -> k < len - 1 -> nth_error (h_heap h1) k = nth_error (h_heap h) k)).
  { destruct (Nat.leb_spec 2 len) as [H2|H2].
    - unfold vget. rewrite E0, El. cbn [bind].
      destruct (@swap_spec n h f0 l0 HI Hf0 Hl0) as (h1 & Hsw & HI1 & P1 & R1 & L1 & I1 & Hpos).
      destruct (H _ _ E0) as (_ & O0 & _). destruct (H _ _ El) as (_ & Ol & _).
      destruct (Hpos _ _ O0 Ol) as (_ & _ & _ & Hk & Hp1 & Hp2).
      exists h1. split; [exact Hsw|]. split; [exact HI1|]. split; [exact P1|].
      split; [exact L1|]. split; [exact Hp2|]. intros k Hk0 Hk'. apply Hk; lia.
    - exists h. split; [reflexivity|]. split; [exact HI|]. split; [reflexivity|].
      split; [reflexivity|]. assert (len = 1) by lia. replace (len - 1) with 0 by lia. split; [exact E0|]. intros k Hk0 Hk'. lia. }
  destruct Hstep1 as (h1 & Hs1 & HI1 & P1 & L1 & Hlast & Hrest).
  fold len. rewrite Hs1. cbn [bind]. rewrite L1. unfold vget at 1. rewrite Hlast. cbn [bind].
  pose proof HI1 as (Lo1 & Lp1 & Lr1 & H1).
  destruct (H1 _ _ Hlast) as (Nf & Of & Rf).
  unfold vset. destruct (Nat.ltb_spec f0 (length (h_removed h1))); [|lia]. cbn [bind].
  set (h2 := {| h_heap := removelast (h_heap h1); h_obs := h_obs h1; h_prio := h_prio h1;
                h_removed := set_nth (h_removed h1) f0 true |}).
  assert (Hlen2 : length (h_heap h2) = len - 1) by (unfold h2; cbn [h_heap]; rewrite removelast_len, L1; reflexivity).
  assert (Hnth2 : forall k, k < len - 1 -> nth_error (h_heap h2) k = nth_error (h_heap h1) k).
  { intros k Hk. unfold h2. cbn [h_heap]. apply nth_error_removelast. rewrite L1. exact Hk. }
  assert (HI2 : HInv n h2).
  { unfold HInv. unfold h2 at 1 2 3. cbn [h_obs h_prio h_removed]. rewrite set_nth_length.
    split; [exact Lo1|]. split; [exact Lp1|]. split; [exact Lr1|].
    intros k o Hk. assert (Hkl : k < len - 1) by (rewrite <- Hlen2; apply nth_error_Some; congruence).
    rewrite (Hnth2 k Hkl) in Hk. destruct (H1 _ _ Hk) as (A & B & C). unfold h2. cbn [h_obs h_removed].
    split; [exact A|]. split; [exact B|]. rewrite nth_error_set_nth.
    destruct (Nat.eqb_spec o f0) as [->|Hof]; [|exact C].
    exfalso. pose proof (@hinv_inj _ _ _ _ _ HI1 Hk Hlast). lia. }
  exists h2. split; [exact E0|]. split; [exact HI2|]. split; [exact Hlen2|].
  split; [reflexivity|]. split.
  - intros j Hj0 Hj. unfold pp. rewrite (Hnth2 j Hj), (Hrest j Hj0 Hj). unfold h2. cbn [h_prio]. rewrite P1. reflexivity.
  - intros j Hj. unfold pp. unfold h2 at 1. cbn [h_heap]. rewrite nth_error_removelast_none by (rewrite L1; exact Hj). reflexivity.
Qed.

Theorem pop_ord n h f h' : HInv n h -> HOrd h -> h_pop ltb h = Ok (Some f, h') -> HOrd h'.
Proof.
  intros HI HO Hp.
  destruct (Nat.eq_dec (length (h_heap h)) 0) as [Hz|Hnz].
  { unfold h_pop in Hp. destruct (h_heap h); [discriminate|cbn in Hz; lia]. }
  destruct (@pop_steps n h HI Hnz) as (f0 & h2 & E0 & HI2 & L2 & Hpop & Hmid & Hend).
  rewrite Hpop in Hp.
  assert (Hbase : forall j, j <> 1 -> j <> 2 -> ord_at h2 j).
  { intros j E1 E2. destruct (Nat.eq_dec j 0) as [->|Hj0]; [left; reflexivity|]. right. intros v vp Hv Hvp.
    assert (Hjl : j < length (h_heap h) - 1).
    { destruct (Nat.lt_ge_cases j (length (h_heap h) - 1)) as [?|Hge]; [assumption|]. rewrite (Hend j Hge) in Hv. discriminate. }
    assert (Hpj : 0 < (j - 1) / 2) by (pose proof (parent_child Hj0); lia).
    assert (Hpj2 : (j - 1) / 2 < j) by (apply Nat.div_lt_upper_bound; lia).
    rewrite Hmid in Hv by lia. rewrite Hmid in Hvp by lia.
    destruct (HO j) as [?|Hord]; [contradiction|]. exact (Hord v vp Hv Hvp). }
  destruct (Nat.leb_spec 2 (length (h_heap h2))) as [H2|H2].
  - destruct (nth_error (h_heap h2) 0) as [g0|] eqn:Eg; [|apply nth_error_None in Eg; lia].
    unfold vget at 1 in Hp. rewrite Eg in Hp. cbn [bind] in Hp.
    destruct (h_sift_down ltb (h_fuel h2) h2 g0) as [h3| |] eqn:Hs; cbn [bind] in Hp; try discriminate.
    inversion Hp; subst f h'. pose proof HI2 as (_ & _ & _ & H2'). destruct (H2' _ _ Eg) as (_ & Og & _).
    intros j0. refine (@sift_down_ord n (fun _ => True) ltac:(intros; split; exact I) (h_fuel h2) h2 g0 0 h3 HI2
                         ltac:(eapply nth_error_In; exact Eg) Og Hs _ _ j0 I).
    + intros j E1 E2 _. apply Hbase; lia.
    + intros _ Hk0. contradiction.
  - cbn [bind] in Hp. inversion Hp; subst f h'. intros j.
    destruct (Nat.eq_dec j 0) as [->|Hj0]; [left; reflexivity|]. right. intros v vp Hv Hvp.
    rewrite Hend in Hv by lia. discriminate.
Qed.

(* heapify establishes the order from arbitrary priorities *)
Lemma heapify_fold_ord n : forall m h h', HInv n h ->
  (forall i, i < m -> i < length (h_heap h)) ->
  (forall j, 2 * m + 1 <= j -> ord_at h j) ->
  mfold (fun hh i => do o <- vget (h_heap hh) i; h_sift_down ltb (h_fuel hh) hh o) (rev (seq 0 m)) h = Ok h' ->
  HOrd h'.
Proof.
  induction m as [|m IH]; intros h h' HI Hidx Hinv Hf.
  - cbn in Hf. inversion Hf; subst h'. intros j. destruct (Nat.eq_dec j 0) as [->|Hj]; [left; reflexivity|apply Hinv; lia].
  - rewrite seq_S, rev_app_distr in Hf. cbn [rev app plus mfold] in Hf.
    assert (Hm : m < length (h_heap h)) by (apply Hidx; lia).
    destruct (nth_error (h_heap h) m) as [o|] eqn:E; [|apply nth_error_None in E; lia].
    unfold vget at 1 in Hf. rewrite E in Hf. cbn [bind] in Hf.
    pose proof HI as (_ & _ & _ & H). destruct (H _ _ E) as (_ & O & _).
    assert (Hino : inh h o) by (eapply nth_error_In; exact E).
    destruct (h_sift_down ltb (h_fuel h) h o) as [h1| |] eqn:Hs; cbn [bind] in Hf; try discriminate.
    destruct (@sift_down_keeps n (h_fuel h) h o m h1 HI Hino O ltac:(unfold h_fuel; lia) Hs) as (HI1 & (_ & _ & L1 & _)).
    apply (IH h1 h' HI1); [intros i Hi; rewrite L1; apply Hidx; lia| |exact Hf].
    intros j Hj.
    refine (@sift_down_ord n (fun j => 2 * m + 1 <= j) ltac:(intros j0 Hj0; cbn beta in Hj0 |- *; split; lia) (h_fuel h) h o m h1 HI Hino O Hs _ _ j Hj).
    + intros j' E1 E2 Hj'. apply Hinv. lia.
    + intros Hq. lia.
Qed.

Theorem heapify_post_ord n h0 pr h' : HInv n h0 -> length (h_heap h0) = n -> length pr = n ->
  h_heapify_post ltb h0 pr = Ok h' -> HOrd h'.
Proof.
  intros HI Hfull Hpr Hh. pose proof HI as (Lo & Lp & Lr & H). unfold h_heapify_post in Hh.
  set (h1 := {| h_heap := h_heap h0; h_obs := h_obs h0; h_prio := pr; h_removed := h_removed h0 |}) in *.
  assert (HI1 : HInv n h1) by (unfold HInv, h1; cbn [h_heap h_obs h_prio h_removed]; auto).
  apply (@heapify_fold_ord n (length (h_prio h0) / 2) h1 h' HI1); [| |exact Hh].
  - intros i Hi. unfold h1. cbn [h_heap]. rewrite Hfull. rewrite Lp in Hi.
    assert (n / 2 <= n) by (apply Nat.div_le_upper_bound; lia). lia.
  - intros j Hj. destruct (Nat.eq_dec j 0) as [->|Hj0]; [left; reflexivity|]. right. intros v vp Hv Hvp.
    unfold pp, h1 in Hv. cbn [h_heap] in Hv. rewrite Lp in Hj.
    assert (Hjn : n <= j).
    { pose proof (Nat.div_mod n 2 ltac:(lia)) as Dm. pose proof (Nat.mod_upper_bound n 2 ltac:(lia)). lia. }
    destruct (nth_error (h_heap h0) j) eqn:Ej; [|discriminate].
    assert (j < length (h_heap h0)) by (apply nth_error_Some; congruence). lia.
Qed.

End HeapInv.
