(* C12 (part), exact rational arithmetic: every reported dissimilarity is >= 0
   when the inputs are, for all seven methods through primitive and generic and
   for the five NN-chain methods through nnchain (what `linkage` runs). *)
Require Import KV.Model.Prelude KV.Model.Condensed KV.Model.Dendrogram KV.Model.Methods KV.Model.State
  KV.Model.Primitive KV.Model.Chain KV.Model.Generic
  KV.Proofs.ShapeCheck KV.Proofs.SortProofs KV.Proofs.Criteria KV.Proofs.CriteriaRun KV.Proofs.ChainIter
  KV.Proofs.ChainInstances KV.Proofs.QInf KV.Proofs.GenericGreedyInstances KV.Proofs.NonNeg.
From Coq Require Import QArith Qabs Qfield Field Lqa.

Set Implicit Arguments.

Local Open Scope Q_scope.

Lemma qle_of_ltb_false a b : f_ltb QF a b = false -> b <= a.
Proof. apply qltb_false_iff. Qed.

Lemma upd_nonneg meth va vb md sa sb sx : size_ok meth sa sb sx ->
  0 <= va -> 0 <= vb -> 0 <= md -> md <= va -> md <= vb ->
  0 <= upd_of QF meth va vb md sa sb sx.
Proof.
  intros [Hab Hx] Pa Pb Pm Ma Mb. destruct meth; cbn [uses_sizes_ab uses_size_x] in *.
  - cbn. destruct (Qle_bool vb va); assumption.
  - cbn. destruct (Qle_bool va vb); assumption.
  - destruct (Hab eq_refl) as [Ha Hb]. cbn. fold (qn sa) (qn sb).
    pose proof (qn_pos' Ha). pose proof (qn_pos' Hb).
    apply Qle_shift_div_l; [lra|]. nra.
  - cbn. lra.
  - destruct (Hab eq_refl) as [Ha Hb]. pose proof (Hx eq_refl) as Hsx. cbn. fold (qn sa) (qn sb) (qn sx).
    pose proof (qn_pos' Ha). pose proof (qn_pos' Hb). pose proof (qn_pos' Hsx).
    apply Qle_shift_div_l; [lra|].
    assert (E1 : qn sx * md <= qn sx * va) by (apply Qmult_le_l; assumption).
    assert (E2 : 0 <= qn sa * va) by (apply Qmult_le_0_compat; lra).
    assert (E3 : 0 <= (qn sx + qn sb) * vb) by (apply Qmult_le_0_compat; lra).
    rewrite Qmult_0_l. setoid_replace ((qn sx + qn sa) * va) with (qn sx * va + qn sa * va) by ring. lra.
  - destruct (Hab eq_refl) as [Ha Hb]. cbn. fold (qn sa) (qn sb).
    pose proof (qn_pos' Ha) as P1. pose proof (qn_pos' Hb) as P2.
    set (S := qn sa + qn sb). assert (HS : 0 < S) by (unfold S; lra).
    assert (H1 : qn sa * qn sb * md / (S * S) <= (qn sa * va + qn sb * vb) / S).
    { apply Qle_shift_div_r; [apply Qmult_lt_0_compat; exact HS|].
      setoid_replace ((qn sa * va + qn sb * vb) / S * (S * S)) with ((qn sa * va + qn sb * vb) * S) by (field; lra).
      unfold S.
      assert (A1 : qn sa * md <= qn sa * va) by (apply Qmult_le_l; assumption).
      assert (A2 : qn sb * md <= qn sb * vb) by (apply Qmult_le_l; assumption).
      assert (B1 : (qn sa + qn sb) * md <= qn sa * va + qn sb * vb).
      { setoid_replace ((qn sa + qn sb) * md) with (qn sa * md + qn sb * md) by ring. lra. }
      assert (B2 : (qn sa + qn sb) * md * (qn sa + qn sb) <= (qn sa * va + qn sb * vb) * (qn sa + qn sb))
        by (apply Qmult_le_compat_r; [exact B1|lra]).
      assert (B3 : qn sa * qn sb * md <= (qn sa + qn sb) * md * (qn sa + qn sb)).
      { setoid_replace ((qn sa + qn sb) * md * (qn sa + qn sb))
          with (qn sa * qn sb * md + md * (qn sa * qn sa + qn sa * qn sb + qn sb * qn sb)) by ring.
        assert (0 <= qn sa * qn sa) by (apply Qmult_le_0_compat; lra).
        assert (0 <= qn sa * qn sb) by (apply Qmult_le_0_compat; lra).
        assert (0 <= qn sb * qn sb) by (apply Qmult_le_0_compat; lra).
        assert (0 <= md * (qn sa * qn sa + qn sa * qn sb + qn sb * qn sb)) by (apply Qmult_le_0_compat; lra).
        lra. }
      lra. }
    lra.
  - cbn. lra.
Qed.

Local Close Scope Q_scope.

Section QRuns.
Variable p : profile.
Variable rt : Q -> Q.
Hypothesis rt_nonneg : forall q, (0 <= q)%Q -> (0 <= rt q)%Q.

Notation KQ meth := (kops_of (QFr rt) meth).
Notation nn := (fun v : Q => (0 <= v)%Q).

Lemma sq_nonneg meth (m : list Q) : Forall nn m -> Forall nn (square_all (KQ meth) m).
Proof.
  intros H. unfold square_all. apply Forall_forall. intros v Hv. apply in_map_iff in Hv. destruct Hv as (x & <- & Hx).
  cbn [kops_of k_sq QFr f_mul]. destruct (on_squares meth).
  - destruct (Qlt_le_dec x 0) as [Hn|Hp]; nra.
  - rewrite Forall_forall in H. exact (H x Hx).
Qed.

Lemma KQ_upd_closed meth va vb md sa sb sx : size_ok meth sa sb sx ->
  nn va -> nn vb -> nn md -> k_ltb (KQ meth) va md = false -> k_ltb (KQ meth) vb md = false ->
  nn (k_upd (KQ meth) va vb md sa sb sx).
Proof.
  intros Hs Pa Pb Pm Ma Mb. cbn [kops_of k_upd k_ltb QFr f_ltb] in *. rewrite upd_QFr.
  apply upd_nonneg; try assumption; apply qle_of_ltb_false; assumption.
Qed.

Lemma KQ_rt_closed meth v : nn v -> nn (k_rt (KQ meth) v).
Proof. intros H. cbn [kops_of k_rt QFr f_sqrt]. destruct (on_squares meth); [apply rt_nonneg; exact H|exact H]. Qed.

Lemma KQ_sizes_irr meth : uses_sizes_ab meth = false ->
  forall va vb md sa sb sa' sb' sx, k_upd (KQ meth) va vb md sa sb sx = k_upd (KQ meth) va vb md sa' sb' sx.
Proof. intros E va vb md sa sb sa' sb' sx. cbn [kops_of k_upd]. rewrite !upd_QFr. destruct meth; try discriminate; reflexivity. Qed.

Theorem primitive_nonneg_Q meth s d (m : list Q) n s' d' m' :
  Forall nn m -> primitive_with (KQ meth) p meth s d m n = Ok (s', d', m') -> Forall nn (heights d').
Proof.
  intros Hm H.
  exact (@primitive_P Q (KQ meth) p meth qlt_irrefl qlt_trans nn (@KQ_upd_closed meth) (@KQ_rt_closed meth) (@KQ_sizes_irr meth)
           s d m n s' d' m' (sq_nonneg meth Hm) H).
Qed.

Theorem nnchain_nonneg_Q meth s d (m : list Q) n s' d' m' :
  meth = Single \/ meth = Complete \/ meth = Average \/ meth = Weighted \/ meth = Ward ->
  Forall nn m -> nnchain_with (KQ meth) p meth s d m n = Ok (s', d', m') -> Forall nn (heights d').
Proof.
  intros Hmeth Hm H.
  assert (Hred : forall va vb md sa sb sx, size_ok meth sa sb sx ->
            k_ltb (KQ meth) va md = false -> k_ltb (KQ meth) vb md = false ->
            k_ltb (KQ meth) (k_upd (KQ meth) va vb md sa sb sx) va = false
            \/ k_ltb (KQ meth) (k_upd (KQ meth) va vb md sa sb sx) vb = false).
  { destruct Hmeth as [->|[->|Hq]].
    - intros va vb md sa sb sx _ _ _. apply (@single_reducible Q (QFr rt) qlt_irrefl).
    - intros va vb md sa sb sx _ _ _. apply (@complete_reducible Q (QFr rt) qlt_irrefl).
    - apply q_reducible. exact Hq. }
  apply (@nnchain_P Q (KQ meth) p meth qlt_irrefl qlt_trans nn) with (s := s) (d := d) (m := m) (n := n) (s' := s') (m' := m').
  - exact (@KQ_upd_closed meth).
  - exact (@KQ_rt_closed meth).
  - exact qlt_negtrans.
  - exact Hred.
  - exact (sq_nonneg meth Hm).
  - exact H.
Qed.

(* generic: the carrier with the infinite sentinel *)
Notation KI meth := (kops_of (QI rt) meth).
Definition nni (v : qi) : Prop := exists q, v = Some q /\ (0 <= q)%Q.

Theorem generic_nonneg_QI meth s d (mq : list Q) n s' d' m' :
  Forall nn mq -> generic_with (KI meth) p meth s d (map Some mq) n = Ok (s', d', m') -> Forall nni (heights d').
Proof.
  intros Hm H.
  apply (@generic_P qi (KI meth) p meth qi_irrefl qi_trans nni) with (s := s) (d := d) (m := map Some mq) (n := n) (s' := s') (m' := m').
  - intros va vb md sa sb sx Hs (qa & -> & Pa) (qb & -> & Pb) (qm & -> & Pm) Ma Mb.
    cbn [kops_of k_upd k_ltb QI f_ltb qi_ltb] in *. rewrite upd_QI. eexists. split; [reflexivity|].
    apply upd_nonneg; try assumption; apply qle_of_ltb_false; assumption.
  - intros v (q & -> & Pq). cbn [kops_of k_rt QI f_sqrt]. destruct (on_squares meth); [|exists q; auto].
    cbn. eexists. split; [reflexivity|]. apply rt_nonneg. exact Pq.
  - exact qi_negtrans.
  - exact qi_eqb_refl.
  - exact qi_eqb_le.
  - exact (@KI_upd_below rt meth).
  - exact (@KI_rename_reducible rt meth).
  - exact (@KI_untracked_grows rt meth).
  - exact (squares_some rt meth mq).
  - unfold square_all. rewrite map_map. apply Forall_forall. intros v Hv. apply in_map_iff in Hv. destruct Hv as (x & <- & Hx).
    cbn [kops_of k_sq QI f_mul]. destruct (on_squares meth).
    + cbn. eexists. split; [reflexivity|]. destruct (Qlt_le_dec x 0) as [Hn|Hp]; nra.
    + exists x. split; [reflexivity|]. rewrite Forall_forall in Hm. exact (Hm x Hx).
  - exact H.
Qed.

End QRuns.
