(* C08: results are a pure function of the input: the scratch state and the
   dendrogram passed to a `_with` function never influence its output. *)
Require Import KV.Model.Prelude KV.Model.Condensed KV.Model.Active KV.Model.Heap
  KV.Model.UnionFind KV.Model.Dendrogram KV.Model.Methods KV.Model.State
  KV.Model.Primitive KV.Model.Mst KV.Model.Chain KV.Model.Generic KV.Model.Linkage
  KV.Model.History KV.Proofs.ResetCanon.

Set Implicit Arguments.

Section Pure.
Variable T : Type.
Variable p : profile.

Section PerAlgorithm.
Variable K : kops T.
Variables (s1 s2 : lstate T) (d1 d2 : dend T) (m : list T) (n : N).

Lemma primitive_pure meth :
  out_of (primitive_with K p meth s1 d1 m n) = out_of (primitive_with K p meth s2 d2 m n).
Proof.
  unfold primitive_with. destruct (prologue p (square_all K m) n) as [M|k|]; cbn [bind]; try reflexivity.
  destruct (m_obs M =? 0); [reflexivity|].
  rewrite (reset_canonical K s1 s2). reflexivity.
Qed.

Lemma mst_pure :
  out_of (mst_with K p s1 d1 m n) = out_of (mst_with K p s2 d2 m n).
Proof.
  unfold mst_with. destruct (prologue p m n) as [M|k|]; cbn [bind]; try reflexivity.
  destruct (m_obs M =? 0); [reflexivity|].
  rewrite (reset_canonical K s1 s2). reflexivity.
Qed.

Lemma nnchain_pure meth :
  out_of (nnchain_with K p meth s1 d1 m n) = out_of (nnchain_with K p meth s2 d2 m n).
Proof.
  unfold nnchain_with. destruct (prologue p (square_all K m) n) as [M|k|]; cbn [bind]; try reflexivity.
  destruct (m_obs M =? 0); [reflexivity|].
  rewrite (reset_canonical K s1 s2). reflexivity.
Qed.

Lemma generic_pure meth :
  out_of (generic_with K p meth s1 d1 m n) = out_of (generic_with K p meth s2 d2 m n).
Proof.
  unfold generic_with. destruct (prologue p (square_all K m) n) as [M|k|]; cbn [bind]; try reflexivity.
  destruct (m_obs M =? 0); [reflexivity|].
  rewrite (reset_canonical K s1 s2). reflexivity.
Qed.

End PerAlgorithm.

Variable F : fops T.

(* All five `_with` entry points, all methods: the caller-visible outcome
   (panic, or observation count + steps + matrix after) is the same for ANY
   two scratch states and ANY two dendrogram objects. *)
Theorem with_pure (a : algo) (meth : method) (s1 s2 : lstate T) (d1 d2 : dend T)
  (m : list T) (n : N) :
  out_of (run_with F p a meth s1 d1 m n) = out_of (run_with F p a meth s2 d2 m n).
Proof.
  destruct a; cbn [run_with].
  - unfold linkage_with. destruct meth; cbn [chain_capable];
      first [apply mst_pure | apply nnchain_pure | apply generic_pure].
  - apply mst_pure.
  - apply nnchain_pure.
  - apply generic_pure.
  - apply primitive_pure.
Qed.

(* The allocating wrapper is the `_with` form on fresh objects. *)
Theorem wrapper_is_with_fresh (a : algo) (meth : method) (m : list T) (n : N) :
  d_new_ok n = true ->
  forall s d, out_of (run_fresh F p a meth m n) = out_of (run_with F p a meth s d m n).
Proof.
  intros Hok s d. unfold run_fresh. rewrite Hok. apply with_pure.
Qed.

(* Histories: by induction over an arbitrary list of calls, every call's
   outcome equals that of the same call on fresh objects - whatever happened
   before (other sizes, methods, algorithms, panicking calls). *)
Definition fresh_outputs (calls : list (call T)) : list (res (dend T * list T)) :=
  map (fun c => out_of (run_call F p c (st_new T) (d_new T 0))) calls.

Lemma run_call_pure (c : call T) s1 s2 d1 d2 :
  out_of (run_call F p c s1 d1) = out_of (run_call F p c s2 d2).
Proof. destruct c as [[[a me] n] m]. apply with_pure. Qed.

Lemma run_history_outputs (calls : list (call T)) : forall s d outs,
  snd (fold_left (hist_step F p) calls (s, d, outs)) = outs ++ fresh_outputs calls.
Proof.
  induction calls as [|c calls IH]; intros s d outs.
  - cbn. rewrite app_nil_r. reflexivity.
  - cbn [fold_left]. unfold hist_step at 2.
    assert (E : out_of (run_call F p c s d) = out_of (run_call F p c (st_new T) (d_new T 0)))
      by apply run_call_pure.
    destruct (run_call F p c s d) as [[[s' d'] m']|k|] eqn:R;
      rewrite IH; unfold fresh_outputs; cbn [map]; rewrite <- E, <- app_assoc; reflexivity.
Qed.

Theorem history_pure (calls : list (call T)) (s0 : lstate T) (d0 : dend T) :
  history_outputs F p calls s0 d0 = fresh_outputs calls.
Proof. unfold history_outputs, run_history. rewrite run_history_outputs. reflexivity. Qed.

(* Repeating a call gives the identical outcome. *)
Corollary repeat_call (c : call T) (s0 : lstate T) (d0 : dend T) :
  match history_outputs F p [c; c] s0 d0 with
  | [o1; o2] => o1 = o2
  | _ => False
  end.
Proof. rewrite history_pure. cbn. reflexivity. Qed.

End Pure.
