(* Pure graph facts behind "the single-linkage heights are the weights of a
   minimum spanning tree": numbers of connected components, counted through
   lists of representatives, and Kruskal's bound - inside any spanning tree the
   edges lying in a subgraph H are at most as many as any edge set whose
   connectivity covers that of H. No weights, no carrier: only edge lists over
   natural-number vertices. *)
From Coq Require Import List Arith Bool Lia Relations Permutation.
Import ListNotations.
Set Implicit Arguments.

Definition eedge (E : list (nat * nat)) (a b : nat) : Prop := In (a, b) E \/ In (b, a) E.
Definition econn (E : list (nat * nat)) : nat -> nat -> Prop := clos_refl_sym_trans nat (eedge E).

Lemma econn_refl E x : econn E x x. Proof. apply rst_refl. Qed.
Lemma econn_sym E x y : econn E x y -> econn E y x. Proof. apply rst_sym. Qed.
Lemma econn_trans E x y z : econn E x y -> econn E y z -> econn E x z. Proof. apply rst_trans. Qed.

Lemma econn_incl E E' : (forall a b, In (a, b) E -> In (a, b) E' \/ In (b, a) E') ->
  forall x y, econn E x y -> econn E' x y.
Proof.
  intros Hi x y H. induction H as [x y [H|H]| | |].
  - apply rst_step. destruct (Hi _ _ H) as [H'|H']; [left|right]; exact H'.
  - apply rst_step. destruct (Hi _ _ H) as [H'|H']; [right|left]; exact H'.
  - apply rst_refl.
  - apply rst_sym. assumption.
  - eapply rst_trans; eassumption.
Qed.

Lemma econn_nil x y : econn [] x y -> x = y.
Proof. intros H. induction H as [x y [[]|[]]| | |]; congruence. Qed.

Lemma econn_head a b E : econn ((a, b) :: E) a b.
Proof. apply rst_step. left. left. reflexivity. Qed.

Lemma econn_tail e E x y : econn E x y -> econn (e :: E) x y.
Proof. apply econn_incl. intros a b H. left. right. exact H. Qed.

(* adding one edge merges at most two classes *)
Lemma econn_cons a b E x y :
  econn ((a, b) :: E) x y <->
  econn E x y \/ (econn E x a /\ econn E b y) \/ (econn E x b /\ econn E a y).
Proof.
  split.
  - intros H. induction H as [x y [[H|H]|[H|H]]|x|x y H IH|x y z H1 IH1 H2 IH2].
    + inversion H; subst. right. left. split; apply econn_refl.
    + left. apply rst_step. left. exact H.
    + inversion H; subst. right. right. split; apply econn_refl.
    + left. apply rst_step. right. exact H.
    + left. apply econn_refl.
    + destruct IH as [IH|[[I1 I2]|[I1 I2]]].
      * left. apply econn_sym. exact IH.
      * right. right. split; apply econn_sym; assumption.
      * right. left. split; apply econn_sym; assumption.
    + destruct IH1 as [A|[[A1 A2]|[A1 A2]]], IH2 as [B|[[B1 B2]|[B1 B2]]].
      * left. eapply econn_trans; eassumption.
      * right. left. split; [eapply econn_trans; eassumption|exact B2].
      * right. right. split; [eapply econn_trans; eassumption|exact B2].
      * right. left. split; [exact A1|eapply econn_trans; eassumption].
      * right. left. split; [exact A1|exact B2].
      * left. eapply econn_trans; [exact A1|exact B2].
      * right. right. split; [exact A1|eapply econn_trans; eassumption].
      * left. eapply econn_trans; [exact A1|exact B2].
      * right. right. split; [exact A1|exact B2].
  - intros [H|[[H1 H2]|[H1 H2]]].
    + apply econn_tail. exact H.
    + eapply econn_trans; [apply econn_tail; exact H1|]. eapply econn_trans; [apply econn_head|apply econn_tail; exact H2].
    + eapply econn_trans; [apply econn_tail; exact H1|]. eapply econn_trans; [apply econn_sym; apply econn_head|apply econn_tail; exact H2].
Qed.

(* an injective relation from l' into l *)
Lemma inj_length (P : nat -> nat -> Prop) : forall (l' l : list nat), NoDup l' ->
  (forall a, In a l' -> exists b, In b l /\ P a b) ->
  (forall a a' b, In a l' -> In a' l' -> P a b -> P a' b -> a = a') ->
  length l' <= length l.
Proof.
  induction l' as [|a l' IH]; intros l Hnd Hex Hinj; [cbn; lia|].
  destruct (Hex a (or_introl eq_refl)) as (b & Hb & Pab).
  apply in_split in Hb. destruct Hb as (l1 & l2 & ->).
  apply NoDup_cons_iff in Hnd. destruct Hnd as [Hna Hnd].
  assert (H : length l' <= length (l1 ++ l2)).
  { apply IH; [exact Hnd| |].
    - intros a' Ha'. destruct (Hex a' (or_intror Ha')) as (b' & Hb' & Pab').
      exists b'. split; [|exact Pab'].
      apply in_app_or in Hb'. apply in_or_app. destruct Hb' as [Hb'|[<-|Hb']]; [left; exact Hb'| |right; exact Hb'].
      exfalso. apply Hna. rewrite (Hinj a a' b (or_introl eq_refl) (or_intror Ha') Pab Pab'). exact Ha'.
    - intros x x' y Hx Hx'. apply Hinj; right; assumption. }
  rewrite app_length in *. cbn [length]. lia.
Qed.

Section Reps.
Variable V : list nat.

(* l lists exactly one representative of every class of R among V *)
Definition reps (R : nat -> nat -> Prop) (l : list nat) : Prop :=
  NoDup l /\ incl l V /\ (forall x, In x V -> exists r, In r l /\ R x r)
  /\ (forall r r', In r l -> In r' l -> R r r' -> r = r').

Lemma reps_mono (R R' : nat -> nat -> Prop) l l' :
  (forall x y, R x y -> R y x) -> (forall x y z, R x y -> R y z -> R x z) ->
  (forall x y, In x V -> In y V -> R x y -> R' x y) ->
  reps R l -> reps R' l' -> length l' <= length l.
Proof.
  intros Rs Rt Hsub (Hnd & Hin & Hcov & Hsep) (Hnd' & Hin' & Hcov' & Hsep').
  apply (@inj_length (fun a b => R a b)); [exact Hnd'| |].
  - intros a Ha. exact (Hcov a (Hin' a Ha)).
  - intros a a' b Ha Ha' H1 H2. apply Hsep'; [exact Ha|exact Ha'|].
    apply Hsub; [exact (Hin' a Ha)|exact (Hin' a' Ha')|]. exact (Rt _ _ _ H1 (Rs _ _ H2)).
Qed.

Lemma reps_connected (R : nat -> nat -> Prop) l :
  (forall x y, In x V -> In y V -> R x y) -> reps R l -> length l <= 1.
Proof.
  intros Hall (Hnd & Hin & _ & Hsep). destruct l as [|r [|r' l]]; cbn [length]; try lia.
  exfalso. assert (E : r = r').
  { apply Hsep; [left; reflexivity|right; left; reflexivity|]. apply Hall; apply Hin; [left|right; left]; reflexivity. }
  subst r'. apply NoDup_cons_iff in Hnd. apply (proj1 Hnd). left. reflexivity.
Qed.

Lemma reps_nil : NoDup V -> reps (econn []) V.
Proof.
  intros Hnd. split; [exact Hnd|]. split; [intros x Hx; exact Hx|]. split.
  - intros x Hx. exists x. split; [exact Hx|apply econn_refl].
  - intros r r' _ _ H. exact (econn_nil H).
Qed.

Lemma remove_length (l : list nat) r : NoDup l -> In r l ->
  length (filter (fun x => negb (x =? r)) l) + 1 = length l.
Proof.
  induction l as [|a l IH]; intros Hnd Hin; [destruct Hin|].
  apply NoDup_cons_iff in Hnd. destruct Hnd as [Hna Hnd]. cbn [filter].
  destruct (Nat.eqb_spec a r) as [->|Hne]; cbn [negb length].
  - assert (E : filter (fun x => negb (x =? r)) l = l).
    { clear - Hna. induction l as [|b l IH]; [reflexivity|]. cbn [filter].
      destruct (Nat.eqb_spec b r) as [->|_]; [exfalso; apply Hna; left; reflexivity|].
      cbn [negb]. f_equal. apply IH. intros H. apply Hna. right. exact H. }
    rewrite E. lia.
  - destruct Hin as [->|Hin]; [contradiction|]. rewrite <- (IH Hnd Hin). lia.
Qed.

(* one more edge: at most one class fewer, never more *)
Lemma reps_add_edge a b E l : In a V -> In b V -> reps (econn E) l ->
  exists l', reps (econn ((a, b) :: E)) l' /\ length l <= S (length l') /\ length l' <= length l.
Proof.
  intros Ha Hb (Hnd & Hin & Hcov & Hsep).
  destruct (Hcov a Ha) as (ra & Hra & Ca). destruct (Hcov b Hb) as (rb & Hrb & Cb).
  destruct (Nat.eq_dec ra rb) as [Heq|Hne].
  - (* a and b already connected *)
    subst rb. assert (Cab : econn E a b) by (eapply econn_trans; [exact Ca|apply econn_sym; exact Cb]).
    exists l. split; [|lia]. split; [exact Hnd|]. split; [exact Hin|]. split.
    + intros x Hx. destruct (Hcov x Hx) as (r & Hr & Cr). exists r. split; [exact Hr|apply econn_tail; exact Cr].
    + intros r r' Hr Hr' H. apply Hsep; [exact Hr|exact Hr'|]. apply econn_cons in H.
      destruct H as [H|[[H1 H2]|[H1 H2]]]; [exact H| |].
      * eapply econn_trans; [exact H1|]. eapply econn_trans; [exact Cab|exact H2].
      * eapply econn_trans; [exact H1|]. eapply econn_trans; [apply econn_sym; exact Cab|exact H2].
  - exists (filter (fun x => negb (x =? rb)) l).
    assert (Hf : forall x, In x (filter (fun x => negb (x =? rb)) l) <-> In x l /\ x <> rb).
    { intros x. rewrite filter_In, negb_true_iff, Nat.eqb_neq. reflexivity. }
    split; [|pose proof (@remove_length l rb Hnd Hrb); lia].
    split; [apply NoDup_filter; exact Hnd|]. split; [intros x Hx; apply Hin; apply Hf in Hx; exact (proj1 Hx)|]. split.
    + intros x Hx. destruct (Hcov x Hx) as (r & Hr & Cr).
      destruct (Nat.eq_dec r rb) as [->|Hr'].
      * exists ra. split; [apply Hf; split; assumption|].
        apply econn_cons. right. right. split; [eapply econn_trans; [exact Cr|apply econn_sym; exact Cb]|exact Ca].
      * exists r. split; [apply Hf; split; assumption|apply econn_tail; exact Cr].
    + intros r r' Hr Hr' H. apply Hf in Hr. apply Hf in Hr'. destruct Hr as [Hr Hrn], Hr' as [Hr' Hrn'].
      apply econn_cons in H. destruct H as [H|[[H1 H2]|[H1 H2]]].
      * apply Hsep; assumption.
      * exfalso. apply Hrn'. symmetry. apply Hsep; [exact Hrb|exact Hr'|].
        eapply econn_trans; [apply econn_sym; exact Cb|exact H2].
      * exfalso. apply Hrn. apply Hsep; [exact Hr|exact Hrb|]. eapply econn_trans; [exact H1|exact Cb].
Qed.

Definition edges_in (E : list (nat * nat)) : Prop := forall e, In e E -> In (fst e) V /\ In (snd e) V.

(* G on top of F: each edge of G removes at most one class *)
Lemma reps_add_edges : forall G F lF, edges_in G -> reps (econn F) lF ->
  exists l, reps (econn (G ++ F)) l /\ length lF <= length l + length G /\ length l <= length lF.
Proof.
  induction G as [|[a b] G IH]; intros F lF HG HF.
  - exists lF. split; [exact HF|cbn; lia].
  - destruct (IH F lF (fun e He => HG e (or_intror He)) HF) as (l & Hl & Hlen & Hle).
    destruct (HG (a, b) (or_introl eq_refl)) as [Ha Hb]. cbn [fst snd] in Ha, Hb.
    destruct (@reps_add_edge a b (G ++ F) l Ha Hb Hl) as (l' & Hl' & Hlen' & Hle').
    exists l'. split; [exact Hl'|cbn [length]; lia].
Qed.

Lemma reps_exists E : NoDup V -> edges_in E ->
  exists l, reps (econn E) l /\ length V <= length l + length E.
Proof.
  intros Hnd HE. destruct (@reps_add_edges E [] V HE (reps_nil Hnd)) as (l & Hl & Hlen & _).
  rewrite app_nil_r in Hl. exists l. split; [exact Hl|exact Hlen].
Qed.

(* a spanning tree of the complete graph on V: |V| - 1 edges that connect V *)
Definition spanning (E : list (nat * nat)) : Prop :=
  length E + 1 = length V /\ edges_in E /\ forall x y, In x V -> In y V -> econn E x y.

Lemma filter_split {A} (f : A -> bool) (l : list A) :
  Permutation l (filter (fun x => negb (f x)) l ++ filter f l).
Proof.
  induction l as [|a l IH]; [constructor|]. cbn [filter]. destruct (f a); cbn [negb].
  - apply Permutation_cons_app. exact IH.
  - cbn [app]. constructor. exact IH.
Qed.

(* Kruskal's bound: the edges of a spanning tree selected by f number at most
   |P| for ANY edge list P whose connectivity covers theirs *)
Theorem kruskal_bound (E' P : list (nat * nat)) (f : nat * nat -> bool) :
  NoDup V -> spanning E' -> edges_in P ->
  (forall a b, In (a, b) (filter f E') -> econn P a b) ->
  length (filter f E') <= length P.
Proof.
  intros Hnd (Hlen & Hin & Hconn) HP Hcov.
  set (F := filter f E'). set (G := filter (fun e => negb (f e)) E').
  assert (HF : edges_in F) by (intros e He; apply Hin; apply filter_In in He; exact (proj1 He)).
  assert (HG : edges_in G) by (intros e He; apply Hin; apply filter_In in He; exact (proj1 He)).
  destruct (reps_exists Hnd HF) as (lF & HlF & _).
  destruct (reps_add_edges HG HlF) as (l & Hl & Hl1 & _).
  assert (Hone : length l <= 1).
  { apply (reps_connected (R := econn (G ++ F))); [|exact Hl]. intros x y Hx Hy.
    apply (@econn_incl E'); [|exact (Hconn x y Hx Hy)]. intros a b Hab. left.
    apply (Permutation_in _ (filter_split f E')). exact Hab. }
  destruct (reps_exists Hnd HP) as (lP & HlP & HlP1).
  assert (Hmono : length lP <= length lF).
  { apply (@reps_mono (econn F) (econn P)); [apply econn_sym|apply econn_trans| |exact HlF|exact HlP].
    intros x y _ _ H. induction H as [x y [H|H]| | |].
    - exact (Hcov _ _ H).
    - apply econn_sym. exact (Hcov _ _ H).
    - apply econn_refl.
    - apply econn_sym. assumption.
    - eapply econn_trans; eassumption. }
  pose proof (Permutation_length (filter_split f E')) as Hpl. rewrite app_length in Hpl.
  fold F G in Hpl. lia.
Qed.

End Reps.
