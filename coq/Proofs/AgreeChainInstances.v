(* Instances of AgreeChain.nnchain_primitive_same_hierarchy:
   - single / complete over any carrier with a strict weak order
     (criterion: min / max over the cross pairs of the input matrix);
   - average / weighted / ward in exact rational arithmetic (closed-form
     criteria of CriteriaRun.v). *)
Require Import KV.Model.Prelude KV.Model.Condensed KV.Model.Active KV.Model.Dendrogram KV.Model.Methods KV.Model.State
  KV.Model.Primitive KV.Model.Chain
  KV.Proofs.ShapeCheck KV.Proofs.RelabelWF KV.Proofs.Criteria KV.Proofs.CriteriaRun KV.Proofs.ChainIter
  KV.Proofs.ChainCriterion KV.Proofs.LWInvariant KV.Proofs.UpdateSpec KV.Proofs.SortProofs KV.Proofs.ChainInstances
  KV.Proofs.RnnConfluence KV.Proofs.AgreeChain KV.Proofs.AgreeSingle KV.Proofs.AgreeChainFinal.
From Coq Require Import Permutation.
From Coq Require Import QArith Qfield Field Lqa.

Set Implicit Arguments.
Local Close Scope Q_scope.

Section Sel.
Variable T : Type.
Variable F : fops T.
Variable p : profile.
Hypothesis ltb_irrefl : forall a, f_ltb F a a = false.
Hypothesis ltb_trans : forall a b c, f_ltb F a b = true -> f_ltb F b c = true -> f_ltb F a c = true.
Hypothesis ltb_negtrans : forall a b c, f_ltb F a b = false -> f_ltb F b c = false -> f_ltb F a c = false.

Definition sel_crit (meth : method) (M0 : cmat T) : mtree -> mtree -> T -> Prop :=
  match meth with
  | Complete => is_max_over (f_ltb F) (cell_or (f_inf F) M0)
  | _ => is_min_over (f_ltb F) (cell_or (f_inf F) M0)
  end.

Lemma sel_crit_fun meth M0 A B v w : sel_crit meth M0 A B v -> sel_crit meth M0 A B w ->
  f_ltb F v w = false /\ f_ltb F w v = false.
Proof.
  assert (Hmin : forall v w, is_min_over (f_ltb F) (cell_or (f_inf F) M0) A B v ->
                   is_min_over (f_ltb F) (cell_or (f_inf F) M0) A B w -> f_ltb F v w = false).
  { intros v0 w0 [(x & y & Hx & Hy & ->) _] [_ Hb]. exact (Hb x y Hx Hy). }
  assert (Hmax : forall v w, is_max_over (f_ltb F) (cell_or (f_inf F) M0) A B v ->
                   is_max_over (f_ltb F) (cell_or (f_inf F) M0) A B w -> f_ltb F v w = false).
  { intros v0 w0 [_ Hb] [(x & y & Hx & Hy & ->) _]. exact (Hb x y Hx Hy). }
  destruct meth; cbn [sel_crit]; intros H1 H2; split; auto.
Qed.

Theorem selection_nnchain_primitive_same_hierarchy meth s1 d1 s2 d2 (m : list T) n sp dp mp sc dc mc M0 :
  meth = Single \/ meth = Complete ->
  prologue p m n = Ok M0 ->
  primitive_with (kops_of F meth) p meth s1 d1 m n = Ok (sp, dp, mp) ->
  nnchain_with (kops_of F meth) p meth s2 d2 m n = Ok (sc, dc, mc) ->
  distinct_from (kops_of F meth) (prim_iter (kops_of F meth) p meth) 0 (m_obs M0 - 1)
    (st_reset (kops_of F meth) s1 (m_obs M0)) (d_reset d1 (m_obs M0)) M0 ->
  distinct_from (kops_of F meth) (chain_iter (kops_of F meth) p meth) 0 (m_obs M0 - 1)
    (st_with_chain (st_reset (kops_of F meth) s2 (m_obs M0)) []) (d_reset d2 (m_obs M0)) M0 ->
  exists raw_p raw_c,
    length raw_p = m_obs M0 - 1 /\ length raw_c = m_obs M0 - 1
    /\ Permutation (heights dp) (map (@s_dis T) raw_p)
    /\ Permutation (heights dc) (map (@s_dis T) raw_c)
    /\ Permutation (nodes_of Leaf raw_p) (nodes_of Leaf raw_c)
    /\ (forall N v w, In (N, v) (node_heights Leaf raw_p) -> In (N, w) (node_heights Leaf raw_c) ->
          f_ltb F v w = false /\ f_ltb F w v = false).
Proof.
  intros Hm HM0 Hp Hc HDp HDc.
  assert (Hsq : square_all (kops_of F meth) m = m).
  { unfold square_all. destruct Hm as [-> | ->]; cbn [kops_of k_sq on_squares]; apply map_id. }
  destruct (@nnchain_primitive_same_hierarchy T (kops_of F meth) p meth ltb_irrefl ltb_trans ltb_negtrans) with
    (crit := sel_crit meth M0) (s1 := s1) (d1 := d1) (s2 := s2) (d2 := d2) (m := m) (n := n)
    (sp := sp) (dp := dp) (mp := mp) (sc := sc) (dc := dc) (mc := mc) (M0 := M0)
    as (raw_p & raw_c & H1 & H2 & H3 & H4 & H5 & H6).
  - intros va vb md sa sb sx _ _ _. destruct Hm as [-> | ->]; [apply single_reducible|apply complete_reducible]; exact ltb_irrefl.
  - destruct Hm as [-> | ->]; cbn [sel_crit]; [apply min_sym|apply max_sym]; apply cell_or_sym.
  - intros X A B va vb md Ha Hb _. destruct Hm as [-> | ->]; cbn [sel_crit kops_of k_upd] in *.
    + exact (@min_merge T (f_ltb F) ltb_trans ltb_negtrans _ X A B va vb Ha Hb).
    + exact (@max_merge T (f_ltb F) ltb_trans ltb_negtrans _ X A B va vb Ha Hb).
  - apply sizes_irrelevant_of.
  - intros A B v w. apply sel_crit_fun.
  - rewrite Hsq. exact HM0.
  - intros x y v Hxy Hx Hy Hv.
    destruct Hm as [-> | ->]; cbn [sel_crit]; (split;
      [exists x, y; cbn [leaves]; split; [left; reflexivity|]; split; [left; reflexivity|]; unfold cell_or; rewrite Hv; reflexivity
      |intros x' y' [<-|[]] [<-|[]]; unfold cell_or; rewrite Hv; apply ltb_irrefl]).
  - exact Hp.
  - exact Hc.
  - exact HDp.
  - exact HDc.
  - exists raw_p, raw_c. split; [exact H1|]. split; [exact H2|].
    assert (Hrt : forall l : list T, map (k_rt (kops_of F meth)) l = l).
    { intros l. destruct Hm as [-> | ->]; cbn [kops_of k_rt on_squares]; apply map_id. }
    rewrite Hrt in H3, H4. auto.
Qed.

(* ... and the same labelled dendrogram when the returned heights are pairwise distinct *)
Theorem selection_nnchain_primitive_same_dendrogram
  (eqb_nlt : forall a b, f_eqb F a b = true -> f_ltb F b a = false)
  meth s1 d1 s2 d2 (m : list T) n sp dp mp sc dc mc M0 :
  meth = Single \/ meth = Complete ->
  prologue p m n = Ok M0 -> 1 <= m_obs M0 ->
  primitive_with (kops_of F meth) p meth s1 d1 m n = Ok (sp, dp, mp) ->
  nnchain_with (kops_of F meth) p meth s2 d2 m n = Ok (sc, dc, mc) ->
  distinct_from (kops_of F meth) (prim_iter (kops_of F meth) p meth) 0 (m_obs M0 - 1)
    (st_reset (kops_of F meth) s1 (m_obs M0)) (d_reset d1 (m_obs M0)) M0 ->
  distinct_from (kops_of F meth) (chain_iter (kops_of F meth) p meth) 0 (m_obs M0 - 1)
    (st_with_chain (st_reset (kops_of F meth) s2 (m_obs M0)) []) (d_reset d2 (m_obs M0)) M0 ->
  strictly_lt (kops_of F meth) (heights dp) ->
  length (d_steps dp) = length (d_steps dc)
  /\ forall i t t', nth_error (d_steps dp) i = Some t -> nth_error (d_steps dc) i = Some t' ->
       s_c1 t = s_c1 t' /\ s_c2 t = s_c2 t' /\ s_size t = s_size t' /\ eqv (f_ltb F) (s_dis t) (s_dis t').
Proof.
  intros Hm HM0 Hn Hp Hc HDp HDc Hstrict.
  assert (Hsq : square_all (kops_of F meth) m = m).
  { unfold square_all. destruct Hm as [-> | ->]; cbn [kops_of k_sq on_squares]; apply map_id. }
  assert (Hrt : forall x, k_rt (kops_of F meth) x = x) by (intros x; destruct Hm as [-> | ->]; reflexivity).
  assert (Hlt : k_ltb (kops_of F meth) = f_ltb F) by (destruct Hm as [-> | ->]; reflexivity).
  destruct (@nnchain_primitive_same_dendrogram T (kops_of F meth) p meth) with
    (crit := sel_crit meth M0) (s1 := s1) (d1 := d1) (s2 := s2) (d2 := d2) (m := m) (n := n)
    (sp := sp) (dp := dp) (mp := mp) (sc := sc) (dc := dc) (mc := mc) (M0 := M0) as [HL HS].
  - rewrite Hlt. exact ltb_irrefl.
  - rewrite Hlt. exact ltb_trans.
  - rewrite Hlt. exact ltb_negtrans.
  - rewrite Hlt. destruct Hm as [-> | ->]; exact eqb_nlt.
  - intros va vb md sa sb sx _ _ _. destruct Hm as [-> | ->]; [apply single_reducible|apply complete_reducible]; exact ltb_irrefl.
  - destruct Hm as [-> | ->]; cbn [sel_crit]; [apply min_sym|apply max_sym]; apply cell_or_sym.
  - intros X A B va vb md Ha Hb _. destruct Hm as [-> | ->]; cbn [sel_crit kops_of k_upd] in *.
    + exact (@min_merge T (f_ltb F) ltb_trans ltb_negtrans _ X A B va vb Ha Hb).
    + exact (@max_merge T (f_ltb F) ltb_trans ltb_negtrans _ X A B va vb Ha Hb).
  - apply sizes_irrelevant_of.
  - intros A B v w. rewrite Hlt. apply sel_crit_fun.
  - destruct Hm as [-> | ->]; reflexivity.
  - rewrite Hsq. exact HM0.
  - exact Hn.
  - intros x y v Hxy Hx Hy Hv.
    destruct Hm as [-> | ->]; cbn [sel_crit]; (split;
      [exists x, y; cbn [leaves]; split; [left; reflexivity|]; split; [left; reflexivity|]; unfold cell_or; rewrite Hv; reflexivity
      |intros x' y' [<-|[]] [<-|[]]; unfold cell_or; rewrite Hv; apply ltb_irrefl]).
  - exact Hp.
  - exact Hc.
  - exact HDp.
  - exact HDc.
  - intros x y. rewrite !Hrt. auto.
  - exact Hstrict.
  - split; [exact HL|]. intros i t t' Ht Ht'. destruct (HS i t t' Ht Ht') as (E1 & E2 & E3 & h & h' & Eh & Eh' & Hv).
    split; [exact E1|]. split; [exact E2|]. split; [exact E3|]. rewrite Eh, Eh', !Hrt. rewrite Hlt in Hv. exact Hv.
Qed.

End Sel.

(* ---- exact rational arithmetic ---- *)
Lemma crit_of_fun meth M0 A B v w : crit_of meth M0 A B v -> crit_of meth M0 A B w ->
  f_ltb QF v w = false /\ f_ltb QF w v = false.
Proof.
  assert (Hq : forall x : Q, (v == x)%Q -> (w == x)%Q -> f_ltb QF v w = false /\ f_ltb QF w v = false).
  { intros x E1 E2. split; apply qltb_false_iff; rewrite E1, E2; apply Qle_refl. }
  destruct meth; cbn [crit_of].
  - intros [(x & y & Hx & Hy & ->) Hb1] [(x' & y' & Hx' & Hy' & ->) Hb2]. split; [exact (Hb2 x y Hx Hy)|exact (Hb1 x' y' Hx' Hy')].
  - intros [(x & y & Hx & Hy & ->) Hb1] [(x' & y' & Hx' & Hy' & ->) Hb2]. split; [exact (Hb1 x' y' Hx' Hy')|exact (Hb2 x y Hx Hy)].
  - unfold crit_average. apply Hq.
  - unfold crit_weighted. apply Hq.
  - unfold crit_ward. apply Hq.
  - unfold crit_centroid. apply Hq.
  - unfold crit_median. apply Hq.
Qed.

Section QRuns.
Variable p : profile.
Variable rt : Q -> Q.

Notation KQ meth := (kops_of (QFr rt) meth).

Theorem Q_nnchain_primitive_same_hierarchy meth s1 d1 s2 d2 (m : list Q) n sp dp mp sc dc mc M0 :
  meth = Average \/ meth = Weighted \/ meth = Ward ->
  prologue p (square_all (KQ meth) m) n = Ok M0 ->
  primitive_with (KQ meth) p meth s1 d1 m n = Ok (sp, dp, mp) ->
  nnchain_with (KQ meth) p meth s2 d2 m n = Ok (sc, dc, mc) ->
  distinct_from (KQ meth) (prim_iter (KQ meth) p meth) 0 (m_obs M0 - 1)
    (st_reset (KQ meth) s1 (m_obs M0)) (d_reset d1 (m_obs M0)) M0 ->
  distinct_from (KQ meth) (chain_iter (KQ meth) p meth) 0 (m_obs M0 - 1)
    (st_with_chain (st_reset (KQ meth) s2 (m_obs M0)) []) (d_reset d2 (m_obs M0)) M0 ->
  exists raw_p raw_c,
    length raw_p = (m_obs M0 - 1)%nat /\ length raw_c = (m_obs M0 - 1)%nat
    /\ Permutation (heights dp) (map (k_rt (KQ meth)) (map (@s_dis Q) raw_p))
    /\ Permutation (heights dc) (map (k_rt (KQ meth)) (map (@s_dis Q) raw_c))
    /\ Permutation (nodes_of Leaf raw_p) (nodes_of Leaf raw_c)
    /\ (forall N v w, In (N, v) (node_heights Leaf raw_p) -> In (N, w) (node_heights Leaf raw_c) ->
          f_ltb QF v w = false /\ f_ltb QF w v = false).
Proof.
  intros Hm HM0 Hp Hc HDp HDc.
  apply (@nnchain_primitive_same_hierarchy Q (KQ meth) p meth qlt_irrefl qlt_trans qlt_negtrans
           (q_reducible rt Hm) (crit_of meth M0) (@crit_of_sym meth M0)
           ltac:(intros X A B va vb md Ha Hb Hmd; cbn [kops_of k_upd]; rewrite upd_QFr; apply crit_of_merge; assumption)
           ltac:(intros E va vb md sa sb sa' sb' sx; cbn [kops_of k_upd]; rewrite !upd_QFr;
                 destruct meth; try discriminate; reflexivity)
           (@crit_of_fun meth M0)
           s1 d1 s2 d2 m n sp dp mp sc dc mc M0 HM0
           ltac:(intros x y v Hxy _ _ Hv; apply crit_of_leaf; assumption) Hp Hc HDp HDc).
Qed.

Lemma qeqb_nlt (a b : Q) : f_eqb QF a b = true -> f_ltb QF b a = false.
Proof.
  cbn [QF f_eqb f_ltb]. intros H. apply Qeq_bool_iff in H. apply negb_false_iff. apply Qle_bool_iff. rewrite H. apply Qle_refl.
Qed.

Theorem Q_nnchain_primitive_same_dendrogram meth s1 d1 s2 d2 (m : list Q) n sp dp mp sc dc mc M0 :
  meth = Average \/ meth = Weighted \/ meth = Ward ->
  prologue p (square_all (KQ meth) m) n = Ok M0 -> (1 <= m_obs M0)%nat ->
  primitive_with (KQ meth) p meth s1 d1 m n = Ok (sp, dp, mp) ->
  nnchain_with (KQ meth) p meth s2 d2 m n = Ok (sc, dc, mc) ->
  distinct_from (KQ meth) (prim_iter (KQ meth) p meth) 0 (m_obs M0 - 1)
    (st_reset (KQ meth) s1 (m_obs M0)) (d_reset d1 (m_obs M0)) M0 ->
  distinct_from (KQ meth) (chain_iter (KQ meth) p meth) 0 (m_obs M0 - 1)
    (st_with_chain (st_reset (KQ meth) s2 (m_obs M0)) []) (d_reset d2 (m_obs M0)) M0 ->
  (forall x y, f_ltb QF (k_rt (KQ meth) x) (k_rt (KQ meth) y) = true -> f_ltb QF x y = true) ->
  strictly_lt (KQ meth) (heights dp) ->
  length (d_steps dp) = length (d_steps dc)
  /\ forall i t t', nth_error (d_steps dp) i = Some t -> nth_error (d_steps dc) i = Some t' ->
       s_c1 t = s_c1 t' /\ s_c2 t = s_c2 t' /\ s_size t = s_size t'
       /\ exists h h', s_dis t = k_rt (KQ meth) h /\ s_dis t' = k_rt (KQ meth) h' /\ eqv (f_ltb QF) h h'.
Proof.
  intros Hm HM0 Hn Hp Hc HDp HDc Hrt Hstrict.
  assert (Hlt : k_ltb (KQ meth) = f_ltb QF) by (destruct meth; reflexivity).
  assert (Heqb : k_eqb (KQ meth) = f_eqb QF) by (destruct meth; reflexivity).
  rewrite <- Hlt.
  apply (@nnchain_primitive_same_dendrogram Q (KQ meth) p meth qlt_irrefl qlt_trans qlt_negtrans
           ltac:(rewrite Heqb, Hlt; exact qeqb_nlt)
           (q_reducible rt Hm) (crit_of meth M0) (@crit_of_sym meth M0)
           ltac:(intros X A B va vb md Ha Hb Hmd; cbn [kops_of k_upd]; rewrite upd_QFr; apply crit_of_merge; assumption)
           ltac:(intros E va vb md sa sb sa' sb' sx; cbn [kops_of k_upd]; rewrite !upd_QFr;
                 destruct meth; try discriminate; reflexivity)
           (@crit_of_fun meth M0)
           ltac:(destruct Hm as [-> | [-> | ->]]; reflexivity)
           s1 d1 s2 d2 m n sp dp mp sc dc mc M0 HM0 Hn
           ltac:(intros x y v Hxy _ _ Hv; apply crit_of_leaf; assumption) Hp Hc HDp HDc
           ltac:(rewrite Hlt; exact Hrt) Hstrict).
Qed.

End QRuns.
