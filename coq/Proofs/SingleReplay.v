(* C03 for Method::Single through EVERY entry point (mst and nnchain included), ties
   included: replaying the returned steps in order, when step j (height h) is applied no
   two observations lying in different current clusters are closer than h - the merge
   height is a lower bound of every inter-cluster dissimilarity at that moment, so the
   merged pair is a closest pair (its single-linkage dissimilarity is at most h whenever
   h is realised between the two clusters, which is the case when the heights are pairwise
   distinct: replay_realised). Consequence of the cut theorems alone. *)
Require Import KV.Model.Prelude KV.Model.Condensed KV.Model.Dendrogram KV.Model.Methods KV.Model.State KV.Model.Linkage
  KV.Proofs.SortProofs KV.Proofs.RelabelWF KV.Proofs.PrimThreshold KV.Proofs.MstCuts KV.Proofs.CriteriaRun
  KV.Proofs.PermSingle KV.Proofs.DendUnique KV.Proofs.AgreeSingle.
From Coq Require Import Relations.

Set Implicit Arguments.

Lemma labi_mono {T} (n : nat) (D : list (step T)) x y : forall j j', j <= j' ->
  labi n D j x = labi n D j y -> labi n D j' x = labi n D j' y.
Proof.
  intros j j' Hle. induction Hle as [|j' _ IH]; intros H; [exact H|].
  cbn [labi]. rewrite (IH H). reflexivity.
Qed.

Section Replay.
Variable T : Type.
Variable K : kops T.
Hypothesis ltb_irrefl : forall a, k_ltb K a a = false.
Hypothesis ltb_negtrans : forall a b c, k_ltb K a b = false -> k_ltb K b c = false -> k_ltb K a c = false.

Notation ltb := (k_ltb K).

(* no closer pair: from the cut property *)
Theorem replay_no_closer_pair (d : dend T) (M0 : cmat T) : cutprop K d M0 ->
  length (d_steps d) = m_obs M0 - 1 ->
  forall j t, nth_error (d_steps d) j = Some t ->
  forall x y, x < m_obs M0 -> y < m_obs M0 ->
    labi (m_obs M0) (d_steps d) j x <> labi (m_obs M0) (d_steps d) j y ->
    ltb (cell_or (k_inf K) M0 x y) (s_dis t) = false.
Proof.
  intros HC Hlen j t Ht x y Hx Hy Hne.
  destruct (ltb (cell_or (k_inf K) M0 x y) (s_dis t)) eqn:C; [exfalso|reflexivity].
  set (w := cell_or (k_inf K) M0 x y) in *.
  destruct (HC w) as (jw & Hjw & Hcut & Hp).
  (* position j is above the cut *)
  assert (Hle : jw <= j).
  { destruct (Nat.le_gt_cases jw j) as [H|H]; [exact H|exfalso].
    assert (Hh : nth_error (heights d) j = Some (s_dis t)) by (unfold heights; rewrite nth_error_map, Ht; reflexivity).
    pose proof (proj1 (Hcut j (s_dis t) Hh) H) as Hl. unfold le_t in Hl. congruence. }
  apply Hne. apply (labi_mono _ _ x y Hle). apply (Hp x y Hx Hy).
  apply rst_step. split; [apply in_seq; lia|]. split; [apply in_seq; lia|]. unfold le_t. apply ltb_irrefl.
Qed.

(* with pairwise distinct heights the merge height is realised between the two merged clusters *)
Theorem replay_realised (d : dend T) (M0 : cmat T) : cutprop K d M0 -> 1 <= m_obs M0 ->
  wf_dend (m_obs M0) (d_steps d) ->
  (forall i k a b, i < k -> nth_error (heights d) i = Some a -> nth_error (heights d) k = Some b -> ltb a b = true) ->
  (forall a b c, ltb a b = true -> ltb b c = true -> ltb a c = true) ->
  forall j t, nth_error (d_steps d) j = Some t ->
  exists x y, x < m_obs M0 /\ y < m_obs M0
    /\ labi (m_obs M0) (d_steps d) j x = s_c1 t /\ labi (m_obs M0) (d_steps d) j y = s_c2 t
    /\ ltb (s_dis t) (cell_or (k_inf K) M0 x y) = false.
Proof.
  intros HC Hn Hwf Hstrict ltb_trans j t Ht.
  set (n0 := m_obs M0) in *.
  assert (Hlen : length (d_steps d) = n0 - 1) by exact (proj1 Hwf).
  assert (Hj : j < n0 - 1) by (rewrite <- Hlen; apply nth_error_Some; congruence).
  assert (Hh : nth_error (heights d) j = Some (s_dis t)) by (unfold heights; rewrite nth_error_map, Ht; reflexivity).
  (* the cut at t = h_j is after step j *)
  destruct (HC (s_dis t)) as (jt & Hjt & Hcut & Hp).
  assert (Ejt : jt = S j).
  { assert (LD : length (heights d) = n0 - 1) by (unfold heights; rewrite map_length; exact Hlen).
    destruct (Nat.lt_trichotomy jt (S j)) as [Hlt|[He|Hgt]]; [|exact He|].
    - pose proof (proj2 (Hcut j (s_dis t) Hh) (ltb_irrefl _)). lia.
    - destruct (nth_error (heights d) (S j)) as [h|] eqn:Eh; [|apply nth_error_None in Eh; lia].
      pose proof (proj1 (Hcut (S j) h Eh) Hgt) as Hle. unfold le_t in Hle.
      pose proof (Hstrict j (S j) (s_dis t) h ltac:(lia) Hh Eh). congruence. }
  subst jt.
  (* members of the two merged clusters *)
  destruct (@wf_live T n0 (d_steps d) j t Hwf Ht) as (L1 & L2 & Hlt).
  destruct (@live_member T n0 (d_steps d) Hwf j ltac:(lia) _ L1) as (x0 & Hx0 & Ex0).
  destruct (@live_member T n0 (d_steps d) Hwf j ltac:(lia) _ L2) as (y0 & Hy0 & Ey0).
  assert (Hsame : labi n0 (d_steps d) (S j) x0 = labi n0 (d_steps d) (S j) y0).
  { cbn [labi]. rewrite Ht, Ex0, Ey0, !Nat.eqb_refl, orb_true_r. reflexivity. }
  apply (Hp x0 y0 Hx0 Hy0) in Hsame.
  set (f := labi n0 (d_steps d) j) in *.
  set (InAB := fun z => f z = s_c1 t \/ f z = s_c2 t).
  assert (Hlt_lab : forall z, z < n0 -> f z < n0 + j).
  { intros z Hz. unfold f. clear - Hz. induction j as [|j IH]; cbn [labi]; [lia|].
    destruct (nth_error (d_steps d) j); [|lia]. destruct ((_ =? _) || (_ =? _)); lia. }
  assert (HAB : forall z, z < n0 -> (InAB z <-> labi n0 (d_steps d) (S j) z = n0 + j)).
  { intros z Hz. cbn [labi]. rewrite Ht. fold f. unfold InAB. pose proof (Hlt_lab z Hz).
    destruct (Nat.eqb_spec (f z) (s_c1 t)), (Nat.eqb_spec (f z) (s_c2 t)); cbn [orb]; split; intros H'; try tauto; try lia. }
  assert (Hconn_AB : forall a b, a < n0 -> b < n0 -> conn ltb (cell_or (k_inf K) M0) (seq 0 n0) (s_dis t) a b -> InAB a -> InAB b).
  { intros a b Ha Hb Hc Hin. apply (HAB b Hb). pose proof (proj2 (Hp a b Ha Hb) Hc) as E. change (m_obs M0) with n0 in E.
    rewrite <- E. apply (HAB a Ha). exact Hin. }
  assert (G : forall a b, conn ltb (cell_or (k_inf K) M0) (seq 0 n0) (s_dis t) a b -> a < n0 -> b < n0 ->
            InAB a -> InAB b -> f a <> f b ->
            exists x y, x < n0 /\ y < n0 /\ f x = s_c1 t /\ f y = s_c2 t
              /\ ltb (s_dis t) (cell_or (k_inf K) M0 x y) = false).
  { intros a b Hc. induction Hc as [a b (Ha' & Hb' & Hle)|a|a b Hc IH|a c b H1 IH1 H2 IH2]; intros Ha Hb Ia Ib Hne.
    - unfold le_t in Hle. destruct Ia as [Ia|Ia], Ib as [Ib|Ib]; try congruence.
      + exists a, b. repeat split; assumption.
      + exists b, a. repeat split; try assumption. rewrite cell_or_sym. exact Hle.
    - congruence.
    - apply IH; try assumption. congruence.
    - assert (Hc : c < n0).
      { destruct (@conn_inV T ltb (cell_or (k_inf K) M0) (seq 0 n0) (s_dis t) a c H1) as [<-|[_ Hc]]; [exact Ha|apply in_seq in Hc; lia]. }
      assert (Ic : InAB c) by (exact (Hconn_AB a c Ha Hc H1 Ia)).
      destruct (Nat.eq_dec (f a) (f c)) as [E|N]; [apply IH2; try assumption; congruence|apply IH1; assumption]. }
  destruct (G x0 y0 Hsame Hx0 Hy0 (or_introl Ex0) (or_intror Ey0) ltac:(rewrite Ex0, Ey0; lia)) as (x & y & Hx & Hy & Fx & Fy & Hd).
  exists x, y. repeat split; assumption.
Qed.

End Replay.

(* ---- every entry point run with Method::Single ---- *)
Section Runs.
Variable T : Type.
Variable F : fops T.
Variable p : profile.
Hypothesis ltb_irrefl : forall a, f_ltb F a a = false.
Hypothesis ltb_trans : forall a b c, f_ltb F a b = true -> f_ltb F b c = true -> f_ltb F a c = true.
Hypothesis ltb_negtrans : forall a b c, f_ltb F a b = false -> f_ltb F b c = false -> f_ltb F a c = false.
Hypothesis eqb_nlt : forall a b, f_eqb F a b = true -> f_ltb F b a = false.
Hypothesis eqb_refl : forall a, f_eqb F a a = true.

Notation K := (kops_of F Single).

Theorem single_replay_greedy (a : algo) s d (m : list T) n s' d' m' M0 : (n < two32)%N ->
  run_with F p a Single s d m n = Ok (s', d', m') ->
  prologue p m n = Ok M0 -> 1 <= m_obs M0 ->
  Forall (fun v => f_ltb F v (f_inf F) = true) m ->
  (forall j t, nth_error (d_steps d') j = Some t ->
     forall x y, x < m_obs M0 -> y < m_obs M0 ->
       labi (m_obs M0) (d_steps d') j x <> labi (m_obs M0) (d_steps d') j y ->
       f_ltb F (cell_or (f_inf F) M0 x y) (s_dis t) = false)
  /\ (strictly F (heights d') ->
      forall j t, nth_error (d_steps d') j = Some t ->
      exists x y, x < m_obs M0 /\ y < m_obs M0
        /\ labi (m_obs M0) (d_steps d') j x = s_c1 t /\ labi (m_obs M0) (d_steps d') j y = s_c2 t
        /\ f_ltb F (s_dis t) (cell_or (f_inf F) M0 x y) = false).
Proof.
  intros Hn32 H HM0 Hn Hfin.
  pose proof (@good_of_run T F p ltb_irrefl ltb_trans ltb_negtrans eqb_nlt eqb_refl a s d m n s' d' m' M0 Hn32 H HM0 Hn Hfin) as G.
  split.
  - intros j t Ht x y Hx Hy Hne.
    exact (@replay_no_closer_pair T K ltb_irrefl d' M0 (g_cut G) (proj1 (g_wf G)) j t Ht x y Hx Hy Hne).
  - intros Hstrict j t Ht.
    exact (@replay_realised T K ltb_irrefl d' M0 (g_cut G) Hn (g_wf G) Hstrict ltb_trans j t Ht).
Qed.

End Runs.
