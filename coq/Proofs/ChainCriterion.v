(* C02 for nnchain_with (what `linkage` runs for complete, average, weighted,
   ward): every recorded height is the criterion of the two clusters merged.
   Generic in a symmetric relation `crit` satisfying the one-merge law of the
   update formula (as LWInvariant.v for primitive), under the chain invariant's
   hypotheses (strict weak order + reducibility). *)
Require Import KV.Model.Prelude KV.Model.Condensed KV.Model.Active KV.Model.Heap
  KV.Model.UnionFind KV.Model.Dendrogram KV.Model.Methods KV.Model.State KV.Model.Chain
  KV.Proofs.ResetCanon KV.Proofs.ActiveRefine KV.Proofs.CondensedIdx KV.Proofs.SortProofs KV.Proofs.Monotone
  KV.Proofs.MstCost KV.Proofs.Shape KV.Proofs.PrimitiveGreedy KV.Proofs.Forest KV.Proofs.UnionFindInv
  KV.Proofs.RelabelWF KV.Proofs.PrimitiveWF KV.Proofs.PrimitiveTotal KV.Proofs.UpdateSpec KV.Proofs.ShapeCheck
  KV.Proofs.LWInvariant KV.Proofs.ChainInv KV.Proofs.ChainIter.
From Coq Require Import Permutation.

Set Implicit Arguments.

Section ChainCriterion.
Variable T : Type.
Variable K : kops T.
Variable p : profile.
Variable meth : method.
Hypothesis ltb_irrefl : forall a, k_ltb K a a = false.
Hypothesis ltb_trans : forall a b c, k_ltb K a b = true -> k_ltb K b c = true -> k_ltb K a c = true.
Hypothesis ltb_negtrans : forall a b c, k_ltb K a b = false -> k_ltb K b c = false -> k_ltb K a c = false.
Hypothesis reducible : forall va vb md sa sb sx, size_ok meth sa sb sx ->
  k_ltb K va md = false -> k_ltb K vb md = false ->
  k_ltb K (k_upd K va vb md sa sb sx) va = false \/ k_ltb K (k_upd K va vb md sa sb sx) vb = false.

Variable crit : mtree -> mtree -> T -> Prop.
Hypothesis crit_sym : forall A B v, crit A B v -> crit B A v.
Hypothesis crit_merge : forall X A B va vb md,
  crit X A va -> crit X B vb -> crit A B md ->
  crit X (Node A B) (k_upd K va vb md (tsize A) (tsize B) (if uses_size_x meth then tsize X else 0)).
(* the methods that are not given the two sizes do not look at them *)
Hypothesis sizes_irrelevant : uses_sizes_ab meth = false ->
  forall va vb md sa sb sa' sb' sx, k_upd K va vb md sa sb sx = k_upd K va vb md sa' sb' sx.

Lemma lw_step s s' M M' L mem a b v :
  LWInv crit s M L mem -> merge_facts K meth s s' M M' L a b v -> In a L -> In b L -> a < b ->
  crit (mem a) (mem b) v /\ LWInv crit s' M' (without a L) (upd_mem mem a b).
Proof.
  intros (HW & HS) (Hcab & za & zb & sa & sb & Hza & Hzb & Hsz' & Hsab & Hin & Hsame) Ha Hb Hab.
  destruct (HW a b Ha Hb ltac:(lia)) as (v0 & Hv0 & Hc0). rewrite Hcab in Hv0. inversion Hv0; subst v0.
  split; [exact Hc0|].
  rewrite (HS a Ha) in Hza. rewrite (HS b Hb) in Hzb. inversion Hza; inversion Hzb; subst za zb.
  unfold LWInv. rewrite Hsz'. split.
  - intros x y Hx Hy Hxy. apply without_In in Hx. apply without_In in Hy.
    destruct Hx as [Hx Hxa], Hy as [Hy Hya]. unfold upd_mem.
    assert (Hgen : forall z, In z L -> z <> a -> z <> b ->
              exists w, wcell M' z b = Some w /\ crit (mem z) (Node (mem a) (mem b)) w).
    { intros z Hz Hza' Hzb'. destruct (Hin z Hz Hza' Hzb') as (va & vb & sx & Ca & Cb & Esx & Cn).
      destruct (HW z a Hz Ha Hza') as (va' & Ca' & Cra). destruct (HW z b Hz Hb Hzb') as (vb' & Cb' & Crb).
      rewrite Ca in Ca'. rewrite Cb in Cb'. inversion Ca'; inversion Cb'; subst va' vb'.
      assert (sx = if uses_size_x meth then tsize (mem z) else 0).
      { destruct (uses_size_x meth); [|inversion Esx; reflexivity].
        unfold vget in Esx. rewrite (HS z Hz) in Esx. inversion Esx. reflexivity. }
      subst sx. eexists. split; [exact Cn|].
      destruct (uses_sizes_ab meth) eqn:Eu.
      - destruct Hsab as [-> ->]. apply crit_merge; assumption.
      - rewrite (sizes_irrelevant eq_refl va vb v sa sb (tsize (mem a)) (tsize (mem b))). apply crit_merge; assumption. }
    destruct (Nat.eqb_spec x b) as [->|Hxb], (Nat.eqb_spec y b) as [->|Hyb].
    + contradiction.
    + destruct (Hgen y Hy Hya Hyb) as (w & Cw & Crw). exists w. split; [rewrite wcell_sym; exact Cw|apply crit_sym; exact Crw].
    + exact (Hgen x Hx Hxa Hxb).
    + destruct (HW x y Hx Hy Hxy) as (w & Cw & Crw). exists w. split; [|exact Crw].
      rewrite (Hsame x y Hx Hy Hxy Hxa Hxb Hya Hyb). exact Cw.
  - intros x Hx. apply without_In in Hx. destruct Hx as [Hx Hxa]. unfold upd_mem.
    destruct (Nat.eqb_spec x b) as [->|Hxb].
    + cbn [tsize]. apply nth_error_set_nth_eq. pose proof (HS b Hb) as Hsb. apply nth_error_Some. congruence.
    + rewrite nth_error_set_nth_neq by exact Hxb. exact (HS x Hx).
Qed.

Lemma chain_fold_criterion n0 : forall (k : nat) i s d M L mem,
  NInv K n0 s d M L -> LWInv crit s M L mem -> S k <= length L ->
  exists s' d' M' news tr L' mem',
    mfold (chain_iter K p meth) (seq i k) (s, d, M) = Ok (s', d', M')
    /\ d_steps d' = d_steps d ++ news /\ length news = k
    /\ mtrace L mem tr L' mem'
    /\ Forall2 (fun st (ab : mtree * mtree) => crit (fst ab) (snd ab) (s_dis st)) news tr.
Proof.
  induction k as [|k IH]; intros i s d M L mem HI HW Hk.
  - exists s, d, M, [], [], L, mem. split; [reflexivity|]. rewrite app_nil_r. split; [reflexivity|]. split; [reflexivity|].
    split; constructor.
  - cbn [seq mfold].
    destruct (@chain_iter_step_ext T K p meth ltb_irrefl ltb_trans ltb_negtrans reducible n0 s d M L i HI ltac:(lia))
      as (s1 & d1 & M1 & a & b & v & sz & Hstep & Ha & Hb & Hab & Hsteps & HI1 & Hmf & _).
    rewrite Hstep. cbn [bind].
    destruct (lw_step HW Hmf Ha Hb Hab) as [Hc HW1].
    pose proof HI as (_ & _ & _ & _ & Hnd & _).
    pose proof (without_length a Hnd Ha) as Hwl.
    destruct (IH (S i) s1 d1 M1 (without a L) (upd_mem mem a b) HI1 HW1 ltac:(lia))
      as (s' & d' & M' & news & tr & L' & mem' & Hf & Hs' & Hln & Htr & HF).
    exists s', d', M', (step_new a b v sz :: news), ((mem a, mem b) :: tr), L', mem'.
    split; [exact Hf|]. split; [rewrite Hs', Hsteps, <- app_assoc; reflexivity|].
    split; [cbn [length]; rewrite Hln; reflexivity|]. split; [apply mt_cons; assumption|].
    constructor; [|exact HF]. unfold step_new. destruct (b <? a); exact Hc.
Qed.

Theorem nnchain_criterion s d m n s' d' m' M0 :
  (n < two32)%N -> wf_shape n (N.of_nat (length m)) ->
  nnchain_with K p meth s d m n = Ok (s', d', m') ->
  prologue p (square_all K m) n = Ok M0 ->
  (forall x y v, x <> y -> x < m_obs M0 -> y < m_obs M0 -> wcell M0 x y = Some v -> crit (Leaf x) (Leaf y) v) ->
  exists raw tr L' mem',
    mtrace (seq 0 (m_obs M0)) Leaf tr L' mem'
    /\ Forall2 (fun st (ab : mtree * mtree) => crit (fst ab) (snd ab) (s_dis st)) raw tr
    /\ length raw = m_obs M0 - 1
    /\ Permutation (heights d') (map (k_rt K) (map (@s_dis T) raw)).
Proof.
  intros Hn Hshape H HM0 Hleaf. unfold nnchain_with in H. rewrite HM0 in H. cbn [bind] in H.
  destruct (Nat.eqb_spec (m_obs M0) 0) as [Hz|Hz].
  - inversion H; subst. exists [], [], (seq 0 (m_obs M0)), Leaf.
    split; [constructor|]. split; [constructor|]. split; [rewrite Hz; reflexivity|].
    unfold heights. cbn [d_reset d_steps map]. constructor.
  - destruct (prologue_wf _ _ _ HM0) as [Hwf _].
    set (n0 := m_obs M0) in *.
    assert (HI0 : NInv K n0 (st_with_chain (st_reset K s n0) []) (d_reset d n0) M0 (seq 0 n0)).
    { unfold NInv. cbn [st_with_chain st_reset st_active st_sizes st_chain d_reset d_obs d_steps length].
      split; [apply a_reset_inv|]. split; [exact Hwf|]. split; [reflexivity|].
      split; [rewrite a_reset_canonical; cbn; rewrite map_length, seq_length; reflexivity|].
      split; [apply seq_NoDup|]. unfold clear_resize. split; [rewrite vresize_length; reflexivity|].
      split.
      { intros x Hx. apply in_seq in Hx. exists 1. split; [|lia]. unfold vresize. rewrite firstn_nil. cbn [length app].
        rewrite Nat.sub_0_r. apply nth_error_repeat. lia. }
      split; [reflexivity|]. split; [rewrite seq_length; reflexivity|].
      exists [], []. split; [reflexivity|]. split; [right; split; reflexivity|constructor]. }
    assert (HW0 : LWInv crit (st_with_chain (st_reset K s n0) []) M0 (seq 0 n0) Leaf).
    { split.
      - intros x y Hx Hy Hxy. apply in_seq in Hx. apply in_seq in Hy.
        destruct (@wcell_some T p M0 x y Hwf Hxy ltac:(lia) ltac:(lia)) as (v & Hv).
        exists v. split; [exact Hv|]. apply Hleaf; [exact Hxy|lia|lia|exact Hv].
      - intros x Hx. apply in_seq in Hx. cbn [st_with_chain st_reset st_sizes tsize]. unfold clear_resize, vresize.
        rewrite firstn_nil. cbn [length app]. rewrite Nat.sub_0_r. apply nth_error_repeat. lia. }
    destruct (@chain_fold_criterion n0 (n0 - 1) 0 _ _ _ _ _ HI0 HW0 ltac:(rewrite seq_length; lia))
      as (s1 & d1 & M1 & news & tr & L' & mem' & Hfold & Hs & Hln & Htr & HF).
    rewrite Hfold in H. cbn [bind] in H.
    bind_inv H. destruct a as [u d2]. inversion H; subst s' d' m'. clear H.
    cbn [d_reset d_steps app] in Hs.
    exists news, tr, L', mem'. split; [exact Htr|]. split; [exact HF|]. split; [exact Hln|].
    assert (Hh1 : heights d1 = map (@s_dis T) news) by (unfold heights; rewrite Hs; reflexivity).
    rewrite heights_sqrt_all.
    destruct (requires_sorting meth) eqn:Hsort.
    + destruct (@relabel_heights T (k_ltb K) (k_eqb K) _ _ _ _ _ E) as [_ (l & Hl0 & Hh)].
      destruct (@sort_steps_ok T (k_ltb K) (k_eqb K) (@gt_flip T K) _ _ Hl0) as [_ Hperm].
      rewrite Hh, <- Hh1. apply Permutation_map. unfold heights.
      apply Permutation_map. apply Permutation_sym. exact Hperm.
    + pose proof (proj2 (@relabel_heights T (k_ltb K) (k_eqb K) _ _ _ _ _ E)) as Hh. cbn beta iota in Hh.
      rewrite Hh, Hh1. apply Permutation_refl.
Qed.

End ChainCriterion.
