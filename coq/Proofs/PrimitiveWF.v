(* C01 for the primitive algorithm: every Ok result is a well-formed stepwise
   dendrogram (the raw merges form a forest; relabel_wf does the rest). *)
Require Import KV.Model.Prelude KV.Model.Condensed KV.Model.Active KV.Model.Heap
  KV.Model.UnionFind KV.Model.Dendrogram KV.Model.Methods KV.Model.State KV.Model.Primitive
  KV.Proofs.ResetCanon KV.Proofs.ActiveRefine KV.Proofs.CondensedIdx KV.Proofs.SortProofs KV.Proofs.Monotone
  KV.Proofs.MstCost KV.Proofs.Shape KV.Proofs.PrimitiveGreedy KV.Proofs.Forest KV.Proofs.UnionFindInv
  KV.Proofs.RelabelWF KV.Proofs.ShapeCheck.
From Coq Require Import Sorting.Permutation.

Set Implicit Arguments.

Lemma all_nontrivial_snoc (R : rel) l a b :
  all_nontrivial R l -> ~ add_edges R l a b -> all_nontrivial R (l ++ [(a, b)]).
Proof.
  revert R. induction l as [|[x y] t IH]; intros R H Hn; cbn in *; [split; [exact Hn|exact I]|].
  destruct H as [H1 H2]. split; [exact H1|]. apply IH; assumption.
Qed.

Lemma prologue_wf {T} (p : profile) (m : list T) (n : N) (M : cmat T) :
  prologue p m n = Ok M -> wf_mat M /\ m_data M = m.
Proof.
  unfold prologue. intros H. bind_inv H. bind_inv H. inversion H; subst M. clear H.
  unfold wf_mat. cbn [m_data m_obs]. split; [|reflexivity].
  unfold obs_to_nat in E0. destruct (N.ltb_spec a two32) as [Ha|Ha]; [|discriminate]. inversion E0; subst a0. clear E0.
  unfold shape_check in E.
  destruct (N.eqb_spec (N.of_nat (length m)) 0) as [Hl0|Hl0].
  - destruct (N.leb_spec n 1); [|discriminate]. inversion E; subst a. cbn. lia.
  - destruct (N.ltb_spec n 2); [discriminate|].
    assert (Hlen : a = n /\ (N.of_nat (length m) = n * (n - 1) / 2)%N).
    { destruct p.
      - destruct (N.ltb_spec (n * (n - 1)) two64); [|discriminate].
        destruct (N.eqb_spec (n * (n - 1) / 2) (N.of_nat (length m))) as [e|]; [|discriminate].
        inversion E; subst a. split; [reflexivity|congruence].
      - destruct (N.eqb_spec ((n * (n - 1)) mod two64 / 2) (N.of_nat (length m))) as [e|]; [|discriminate].
        inversion E; subst a. rewrite N.mod_small in e by (apply prod_small; exact Ha). split; [reflexivity|congruence]. }
    destruct Hlen as [-> Hlen]. apply Nat2N.inj. rewrite Hlen.
    rewrite Nat2N.inj_div, Nat2N.inj_mul, Nat2N.inj_sub, N2Nat.id. reflexivity.
Qed.

Section PrimWF.
Variable T : Type.
Variable K : kops T.
Variable p : profile.
Hypothesis ltb_trans : forall a b c, k_ltb K a b = true -> k_ltb K b c = true -> k_ltb K a c = true.
Hypothesis ltb_irrefl : forall a, k_ltb K a a = false.

(* forest invariant of the raw steps *)
Definition FInv (n : nat) (d : dend T) (L : list nat) : Prop :=
  d_obs d = n
  /\ (forall x, In x L -> x < n)
  /\ (forall st, In st (d_steps d) -> s_c1 st < n /\ s_c2 st < n)
  /\ all_nontrivial eq (edges (d_steps d))
  /\ (forall x y, In x L -> In y L -> x <> y -> ~ add_edges eq (edges (d_steps d)) x y)
  /\ length (d_steps d) + length L = n.

Lemma without_In i L x : In x (without i L) <-> In x L /\ x <> i.
Proof.
  unfold without. rewrite filter_In. split; intros [H1 H2]; (split; [exact H1|]).
  - destruct (Nat.eqb_spec x i); [discriminate|assumption].
  - destruct (Nat.eqb_spec x i); [contradiction|reflexivity].
Qed.

Lemma prim_iter_forest meth n s d M i s' d' M' L :
  PInv s M L -> FInv n d L -> NoDup L ->
  prim_iter K p meth (s, d, M) i = Ok (s', d', M') ->
  exists a, In a L /\ PInv s' M' (without a L) /\ FInv n d' (without a L).
Proof.
  intros HP (Hobs & HLn & Hends & Hnt & Hsep & Hcount) Hnd H.
  pose proof (@prim_iter_shape T K p meth (s, d, M) i (s', d', M') H) as Hsh. unfold dproj, dshape in Hsh. cbn [fst snd] in Hsh.
  inversion Hsh as [[Hobs' Hlen']].
  destruct (@prim_iter_greedy T K p ltb_trans ltb_irrefl meth s d M i s' d' M' L HP H) as (a & b & v & sz & Ha & Hb & Hab & _ & _ & Hsteps & HP').
  exists a. split; [exact Ha|]. split; [exact HP'|].
  assert (Hnew : step_new a b v sz = {| s_c1 := a; s_c2 := b; s_dis := v; s_size := sz |}).
  { unfold step_new. destruct (Nat.ltb_spec b a); [lia|reflexivity]. }
  assert (Hedges : edges (d_steps d') = edges (d_steps d) ++ [(a, b)]).
  { rewrite Hsteps, Hnew. unfold edges. rewrite map_app. reflexivity. }
  unfold FInv. rewrite Hedges. split; [congruence|]. split.
  { intros x Hx. apply without_In in Hx. apply HLn. exact (proj1 Hx). }
  split.
  { intros st Hst. rewrite Hsteps in Hst. apply in_app_or in Hst. destruct Hst as [Hst|[<-|[]]]; [apply Hends; exact Hst|].
    rewrite Hnew. cbn. split; apply HLn; assumption. }
  split.
  { apply all_nontrivial_snoc; [exact Hnt|]. apply Hsep; [exact Ha|exact Hb|lia]. }
  split.
  { intros x y Hx Hy Hxy. apply without_In in Hx. apply without_In in Hy. destruct Hx as [Hx Hxa], Hy as [Hy Hya].
    rewrite add_edges_app. cbn [add_edges]. unfold add_edge.
    intros [H1|[[H1 H2]|[H1 H2]]].
    - exact (Hsep x y Hx Hy Hxy H1).
    - exact (Hsep x a Hx Ha Hxa H1).
    - exact (Hsep a y Ha Hy (fun E => Hya (eq_sym E)) H2). }
  rewrite Hsteps, app_length. cbn [length].
  pose proof (without_length a Hnd Ha). lia.
Qed.

Lemma prim_fold_forest meth n (idx : list nat) : forall s d M L s' d' M',
  PInv s M L -> FInv n d L -> NoDup L ->
  mfold (prim_iter K p meth) idx (s, d, M) = Ok (s', d', M') ->
  exists L', FInv n d' L' /\ length L' + length idx = length L.
Proof.
  induction idx as [|i idx IH]; intros s d M L s' d' M' HP HF Hnd H; cbn [mfold] in H.
  - inversion H; subst. exists L. split; [exact HF|cbn; lia].
  - bind_inv H. destruct a as [[s1 d1] M1].
    destruct (@prim_iter_forest meth n s d M i s1 d1 M1 L HP HF Hnd E) as (a & Ha & HP1 & HF1).
    assert (Hnd1 : NoDup (without a L)) by (apply NoDup_filter; exact Hnd).
    destruct (IH s1 d1 M1 (without a L) s' d' M' HP1 HF1 Hnd1 H) as (L' & HF' & Hl).
    exists L'. split; [exact HF'|]. pose proof (without_length a Hnd Ha). cbn [length]. lia.
Qed.

(* wf is about labels and sizes only: the sqrt post-pass keeps it *)
Lemma wf_dend_map_dis (n : nat) (f : T -> T) (l : list (step T)) :
  wf_dend n l -> wf_dend n (map (fun s => step_set_dis s (f (s_dis s))) l).
Proof.
  intros [Hlen Hwf]. split; [rewrite map_length; exact Hlen|].
  intros j t Ht. rewrite nth_error_map in Ht. destruct (nth_error l j) as [t0|] eqn:E; [|discriminate].
  inversion Ht; subst t. destruct (Hwf j t0 E) as (W1 & W2 & W3 & W4). unfold wf_step. cbn [step_set_dis s_c1 s_c2 s_size].
  split; [exact W1|]. split; [exact W2|]. split.
  - intros i t' Hi Ht'. rewrite nth_error_map in Ht'. destruct (nth_error l i) as [t1|] eqn:E1; [|discriminate].
    inversion Ht'; subst t'. cbn [step_set_dis s_c1 s_c2]. exact (W3 i t1 Hi E1).
  - rewrite W4. unfold csize. rewrite !nth_error_map.
    destruct (s_c1 t0 <? n), (s_c2 t0 <? n); try reflexivity;
      repeat match goal with |- context [nth_error l ?k] => destruct (nth_error l k) end; reflexivity.
Qed.

(* all 7 methods, any float type, both profiles, any prior state: an Ok
   result of primitive_with is a well-formed stepwise dendrogram *)
Theorem primitive_wf meth s d m n s' d' m' :
  primitive_with K p meth s d m n = Ok (s', d', m') -> wf_dend (d_obs d') (d_steps d').
Proof.
  intros H. unfold primitive_with in H. bind_inv H. rename a into M.
  destruct (Nat.eqb_spec (m_obs M) 0) as [Hz|Hz].
  - inversion H; subst. cbn [d_reset d_obs d_steps]. split; [rewrite Hz; reflexivity|]. intros j t Ht. destruct j; discriminate.
  - bind_inv H. destruct a as [[s1 d1] M1]. bind_inv H. destruct a as [u d2]. inversion H; subst s' d' m'. clear H.
    set (n0 := m_obs M) in *.
    (* the matrix is well formed *)
    destruct (prologue_wf _ _ _ E) as [Hwf _].
    pose proof (@prim_init T K s M Hwf) as HP0. fold n0 in HP0.
    assert (HF0 : FInv n0 (d_reset d n0) (seq 0 n0)).
    { unfold FInv. cbn [d_reset d_obs d_steps edges map all_nontrivial add_edges length].
      split; [reflexivity|]. split; [intros x Hx; apply in_seq in Hx; lia|]. split; [intros st []|].
      split; [exact I|]. split; [intros x y _ _ Hxy Heq; exact (Hxy Heq)|rewrite seq_length; reflexivity]. }
    destruct (@prim_fold_forest meth n0 _ _ _ _ _ _ _ _ HP0 HF0 (seq_NoDup _ _) E0) as (L' & (Hobs & _ & Hends & Hnt & _ & Hcount) & Hl).
    rewrite !seq_length in Hl.
    assert (Hlen1 : length (d_steps d1) = d_obs d1 - 1) by lia.
    (* relabel *)
    destruct (requires_sorting meth) eqn:Hsort.
    + destruct (@relabel_heights T (k_ltb K) (k_eqb K) _ _ _ _ _ E1) as [_ (l & Hl0 & _)].
      destruct (@relabel_wf T (k_ltb K) (k_eqb K) (st_set s1) d1 true l ltac:(lia) Hlen1
                  ltac:(rewrite Hobs; exact Hends) Hnt Hl0) as (u' & d' & Hrel & Hwfd & Hobs' & _).
      rewrite Hrel in E1. inversion E1; subst u' d'.
      unfold sqrt_all. cbn [d_obs d_steps]. rewrite Hobs'. apply wf_dend_map_dis. exact Hwfd.
    + destruct (@relabel_wf T (k_ltb K) (k_eqb K) (st_set s1) d1 false (d_steps d1) ltac:(lia) Hlen1
                  ltac:(rewrite Hobs; exact Hends) Hnt eq_refl) as (u' & d' & Hrel & Hwfd & Hobs' & _).
      rewrite Hrel in E1. inversion E1; subst u' d'.
      unfold sqrt_all. cbn [d_obs d_steps]. rewrite Hobs'. apply wf_dend_map_dis. exact Hwfd.
Qed.

End PrimWF.
