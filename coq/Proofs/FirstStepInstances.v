(* Instances of FirstStep.primitive_first_step / generic_first_step:
   - single, complete, centroid, median through primitive over ANY carrier whose `<` is
     transitive and irreflexive - in particular binary64 and binary32, every input (the
     selection formulas return one of their arguments; centroid and median are not sorted);
   - all seven methods through primitive in exact rational arithmetic;
   - all seven methods through generic over option Q (None = +infinity). *)
Require Import KV.Model.Prelude KV.Model.Condensed KV.Model.Active KV.Model.Dendrogram KV.Model.Methods KV.Model.State
  KV.Model.Primitive KV.Model.Generic KV.Run.F64 KV.Run.F32
  KV.Proofs.ShapeCheck KV.Proofs.SortProofs KV.Proofs.UpdateSpec KV.Proofs.Criteria KV.Proofs.CriteriaRun KV.Proofs.ChainIter
  KV.Proofs.ChainInstances KV.Proofs.QInf KV.Proofs.GenericGreedyInstances KV.Proofs.PermInstances KV.Proofs.NonNeg
  KV.Proofs.NonNegInstances KV.Proofs.FloatOrder KV.Proofs.AgreeChainInstances KV.Proofs.FirstStep.
Require Import KV.Model.Chain KV.Model.Linkage.
From Coq Require Import QArith Qabs Qfield Field Lqa Floats.
From Flocq Require Import Core.FLX IEEE754.BinarySingleNaN.

Set Implicit Arguments.
Local Close Scope Q_scope.

(* ---- no arithmetic needed ---- *)
Section NonArith.
Variable T : Type.
Variable F : fops T.
Variable p : profile.
Hypothesis ltb_irrefl : forall a, f_ltb F a a = false.
Hypothesis ltb_trans : forall a b c, f_ltb F a b = true -> f_ltb F b c = true -> f_ltb F a c = true.

Theorem primitive_first_step_nonarith meth s d (m : list T) n s' d' m' (M0 : cmat T) (a b : nat) (v : T) :
  meth = Single \/ meth = Complete \/ meth = Centroid \/ meth = Median ->
  primitive_with (kops_of F meth) p meth s d m n = Ok (s', d', m') ->
  prologue p (square_all (kops_of F meth) m) n = Ok M0 ->
  a < b -> b < m_obs M0 ->
  wcell M0 a b = Some v ->
  (forall x y w, x < y -> y < m_obs M0 -> (x, y) <> (a, b) -> wcell M0 x y = Some w -> f_ltb F v w = true) ->
  exists t, nth_error (d_steps d') 0 = Some t /\ s_c1 t = a /\ s_c2 t = b /\ s_size t = 2
    /\ s_dis t = k_rt (kops_of F meth) v.
Proof.
  intros Hmeth H HM0 Hab Hb Hv Huniq.
  apply (@primitive_first_step T (kops_of F meth) p meth ltb_irrefl ltb_trans (kops_sizes_irrelevant F meth) (fun _ => True))
    with (s := s) (d := d) (m := m) (n := n) (s' := s') (m' := m') (M0 := M0); try assumption.
  - intros; exact I.
  - intros Hsort v0 va vb md sa sb sx _ _ _ _ _ La Lb _ _ _.
    destruct Hmeth as [->|[->|[->| ->]]]; try discriminate Hsort; cbn [kops_of k_upd k_ltb upd_of formula feval].
    + destruct (f_ltb F va vb); assumption.
    + destruct (f_ltb F vb va); assumption.
  - apply Forall_forall. intros; exact I.
Qed.

(* nnchain, single / complete: a strict weak order is needed for the chain invariant *)
Hypothesis ltb_negtrans : forall a b c, f_ltb F a b = false -> f_ltb F b c = false -> f_ltb F a c = false.
Hypothesis eqb_nlt : forall a b, f_eqb F a b = true -> f_ltb F b a = false.

Theorem nnchain_first_step_selection meth s d (m : list T) n s' d' m' (M0 : cmat T) (a b : nat) (v : T) :
  meth = Single \/ meth = Complete ->
  nnchain_with (kops_of F meth) p meth s d m n = Ok (s', d', m') ->
  prologue p (square_all (kops_of F meth) m) n = Ok M0 ->
  a < b -> b < m_obs M0 ->
  wcell M0 a b = Some v ->
  (forall x y w, x < y -> y < m_obs M0 -> (x, y) <> (a, b) -> wcell M0 x y = Some w -> f_ltb F v w = true) ->
  exists t, nth_error (d_steps d') 0 = Some t /\ s_c1 t = a /\ s_c2 t = b /\ s_size t = 2
    /\ s_dis t = k_rt (kops_of F meth) v.
Proof.
  intros Hmeth H HM0 Hab Hb Hv Huniq.
  apply (@nnchain_first_step T (kops_of F meth) p meth ltb_irrefl ltb_trans (fun _ => True))
    with (s := s) (d := d) (m := m) (n := n) (s' := s') (m' := m') (M0 := M0); try assumption.
  - intros; exact I.
  - intros Hsort v0 va vb md sa sb sx _ _ _ _ _ La Lb _ _ _.
    destruct Hmeth as [->| ->]; cbn [kops_of k_upd k_ltb upd_of formula feval].
    + destruct (f_ltb F va vb); assumption.
    + destruct (f_ltb F vb va); assumption.
  - destruct Hmeth as [->| ->]; intros va vb md sa sb sx _ _ _.
    + apply (@single_reducible T F ltb_irrefl).
    + apply (@complete_reducible T F ltb_irrefl).
  - destruct Hmeth as [->| ->]; reflexivity.
  - intros v0 va vb md sa sb sx _ _ _ _ _ La Lb _ _ _.
    destruct Hmeth as [->| ->]; cbn [kops_of k_upd k_ltb upd_of formula feval].
    + destruct (f_ltb F va vb); assumption.
    + destruct (f_ltb F vb va); assumption.
  - apply Forall_forall. intros; exact I.
Qed.
End NonArith.

Theorem primitive_first_step_f64 (p : profile) meth s d (m : list PrimFloat.float) n s' d' m' M0 (a b : nat) v :
  meth = Single \/ meth = Complete \/ meth = Centroid \/ meth = Median ->
  primitive_with (kops_of F64 meth) p meth s d m n = Ok (s', d', m') ->
  prologue p (square_all (kops_of F64 meth) m) n = Ok M0 ->
  a < b -> b < m_obs M0 ->
  wcell M0 a b = Some v ->
  (forall x y w, x < y -> y < m_obs M0 -> (x, y) <> (a, b) -> wcell M0 x y = Some w -> PrimFloat.ltb v w = true) ->
  exists t, nth_error (d_steps d') 0 = Some t /\ s_c1 t = a /\ s_c2 t = b /\ s_size t = 2
    /\ s_dis t = k_rt (kops_of F64 meth) v.
Proof. apply (@primitive_first_step_nonarith _ F64 p f64_ltb_irrefl f64_ltb_trans). Qed.

Theorem primitive_first_step_f32 (p : profile) meth s d (m : list f32) n s' d' m' M0 (a b : nat) v :
  meth = Single \/ meth = Complete \/ meth = Centroid \/ meth = Median ->
  primitive_with (kops_of F32 meth) p meth s d m n = Ok (s', d', m') ->
  prologue p (square_all (kops_of F32 meth) m) n = Ok M0 ->
  a < b -> b < m_obs M0 ->
  wcell M0 a b = Some v ->
  (forall x y w, x < y -> y < m_obs M0 -> (x, y) <> (a, b) -> wcell M0 x y = Some w -> Bltb v w = true) ->
  exists t, nth_error (d_steps d') 0 = Some t /\ s_c1 t = a /\ s_c2 t = b /\ s_size t = 2
    /\ s_dis t = k_rt (kops_of F32 meth) v.
Proof. apply (@primitive_first_step_nonarith _ F32 p (@Bltb_irrefl 24 128) (@Bltb_trans 24 128)). Qed.

(* ---- exact arithmetic ---- *)
Local Open Scope Q_scope.

(* the five sorted formulas never go below a lower bound of their arguments when the
   merged pair is not farther than the two cells *)
Lemma upd_ge_Q meth v0 va vb md sa sb sx : requires_sorting meth = true -> size_ok meth sa sb sx ->
  v0 <= va -> v0 <= vb -> v0 <= md -> md <= va -> md <= vb ->
  v0 <= upd_of QF meth va vb md sa sb sx.
Proof.
  intros Hsort [Hab Hx] Pa Pb Pm Ma Mb. destruct meth; cbn [uses_sizes_ab uses_size_x] in *; try discriminate Hsort.
  - cbn. destruct (Qle_bool vb va); assumption.
  - cbn. destruct (Qle_bool va vb); assumption.
  - destruct (Hab eq_refl) as [Ha Hb]. cbn. fold (qn sa) (qn sb).
    pose proof (qn_pos' Ha). pose proof (qn_pos' Hb).
    apply Qle_shift_div_l; [lra|]. nra.
  - cbn. lra.
  - destruct (Hab eq_refl) as [Ha Hb]. pose proof (Hx eq_refl) as Hsx. cbn. fold (qn sa) (qn sb) (qn sx).
    pose proof (qn_pos' Ha). pose proof (qn_pos' Hb). pose proof (qn_pos' Hsx).
    apply Qle_shift_div_l; [lra|].
    assert (E1 : qn sx * md <= qn sx * va) by (apply Qmult_le_l; assumption).
    assert (E2 : qn sa * v0 <= qn sa * va) by (apply Qmult_le_l; assumption).
    assert (E3 : (qn sx + qn sb) * v0 <= (qn sx + qn sb) * vb) by (apply Qmult_le_l; [lra|assumption]).
    setoid_replace ((qn sx + qn sa) * va) with (qn sx * va + qn sa * va) by ring.
    setoid_replace (v0 * (qn sa + qn sb + qn sx)) with (qn sa * v0 + (qn sx + qn sb) * v0) by ring.
    lra.
Qed.

Lemma upd_gt_Q meth v0 va vb md sa sb sx : requires_sorting meth = true -> size_ok meth sa sb sx ->
  v0 < va -> v0 < vb -> v0 < md -> md <= va -> md <= vb ->
  v0 < upd_of QF meth va vb md sa sb sx.
Proof.
  intros Hm [Hab Hx] Pa Pb Pm Ma Mb. destruct meth; try discriminate Hm; cbn [uses_sizes_ab uses_size_x] in *.
  - cbn. destruct (Qle_bool vb va); assumption.
  - cbn. destruct (Qle_bool va vb); assumption.
  - destruct (Hab eq_refl) as [Ha Hb]. cbn. fold (qn sa) (qn sb).
    pose proof (qn_pos' Ha). pose proof (qn_pos' Hb).
    apply Qlt_shift_div_l; [lra|]. nra.
  - cbn. lra.
  - destruct (Hab eq_refl) as [Ha Hb]. pose proof (Hx eq_refl) as Hsx. cbn. fold (qn sa) (qn sb) (qn sx).
    pose proof (qn_pos' Ha). pose proof (qn_pos' Hb). pose proof (qn_pos' Hsx).
    apply Qlt_shift_div_l; [lra|].
    assert (E1 : qn sx * md <= qn sx * va) by (apply Qmult_le_l; assumption).
    assert (E2 : qn sa * v0 < qn sa * va) by (apply Qmult_lt_l; assumption).
    assert (E3 : (qn sx + qn sb) * v0 < (qn sx + qn sb) * vb) by (apply Qmult_lt_l; [lra|assumption]).
    setoid_replace ((qn sx + qn sa) * va) with (qn sx * va + qn sa * va) by ring.
    setoid_replace (v0 * (qn sa + qn sb + qn sx)) with (qn sa * v0 + (qn sx + qn sb) * v0) by ring.
    lra.
Qed.

Lemma qlt_of_ltb_true a b : f_ltb QF a b = true -> a < b.
Proof.
  intros H. destruct (Qlt_le_dec a b) as [L|L]; [exact L|]. apply qltb_false_iff in L. congruence.
Qed.

Lemma qltb_true_of_lt a b : a < b -> f_ltb QF a b = true.
Proof.
  intros H. destruct (f_ltb QF a b) eqn:E; [reflexivity|]. apply qltb_false_iff in E. lra.
Qed.

Local Close Scope Q_scope.

Section QRuns.
Variable p : profile.
Variable rt : Q -> Q.

Notation KQ meth := (kops_of (QFr rt) meth).

Theorem primitive_first_step_Q meth s d (m : list Q) n s' d' m' (M0 : cmat Q) (a b : nat) (v : Q) :
  primitive_with (KQ meth) p meth s d m n = Ok (s', d', m') ->
  prologue p (square_all (KQ meth) m) n = Ok M0 ->
  a < b -> b < m_obs M0 ->
  wcell M0 a b = Some v ->
  (forall x y w, x < y -> y < m_obs M0 -> (x, y) <> (a, b) -> wcell M0 x y = Some w -> (v < w)%Q) ->
  exists t, nth_error (d_steps d') 0 = Some t /\ s_c1 t = a /\ s_c2 t = b /\ s_size t = 2
    /\ s_dis t = k_rt (KQ meth) v.
Proof.
  intros H HM0 Hab Hb Hv Huniq.
  apply (@primitive_first_step Q (KQ meth) p meth qlt_irrefl qlt_trans (@KQ_sizes_irr rt meth) (fun _ => True))
    with (s := s) (d := d) (m := m) (n := n) (s' := s') (m' := m') (M0 := M0); try assumption.
  - intros; exact I.
  - intros Hsort v0 va vb md sa sb sx Hso _ _ _ _ La Lb Lm Ma Mb.
    cbn [kops_of k_upd k_ltb QFr f_ltb] in *. rewrite upd_QFr. apply qltb_false_iff.
    apply upd_ge_Q; try assumption; apply qle_of_ltb_false; assumption.
  - apply Forall_forall. intros; exact I.
  - intros x y w Hxy Hy Hne Hw. cbn [kops_of k_ltb QFr f_ltb]. apply qltb_true_of_lt. exact (Huniq x y w Hxy Hy Hne Hw).
Qed.

Theorem nnchain_first_step_Q meth s d (m : list Q) n s' d' m' (M0 : cmat Q) (a b : nat) (v : Q) :
  meth = Average \/ meth = Weighted \/ meth = Ward ->
  nnchain_with (KQ meth) p meth s d m n = Ok (s', d', m') ->
  prologue p (square_all (KQ meth) m) n = Ok M0 ->
  a < b -> b < m_obs M0 ->
  wcell M0 a b = Some v ->
  (forall x y w, x < y -> y < m_obs M0 -> (x, y) <> (a, b) -> wcell M0 x y = Some w -> (v < w)%Q) ->
  exists t, nth_error (d_steps d') 0 = Some t /\ s_c1 t = a /\ s_c2 t = b /\ s_size t = 2
    /\ s_dis t = k_rt (KQ meth) v.
Proof.
  intros Hm H HM0 Hab Hb Hv Huniq.
  assert (Hlt : k_ltb (KQ meth) = f_ltb QF) by (destruct meth; reflexivity).
  assert (Heqb : k_eqb (KQ meth) = f_eqb QF) by (destruct meth; reflexivity).
  apply (@nnchain_first_step Q (KQ meth) p meth qlt_irrefl qlt_trans (fun _ => True))
    with (s := s) (d := d) (m := m) (n := n) (s' := s') (m' := m') (M0 := M0); try assumption.
  - intros; exact I.
  - intros Hsort v0 va vb md sa sb sx Hso _ _ _ _ La Lb Lm Ma Mb.
    cbn [kops_of k_upd k_ltb QFr f_ltb] in *. rewrite upd_QFr. apply qltb_false_iff.
    apply upd_ge_Q; try assumption; apply qle_of_ltb_false; assumption.
  - exact qlt_negtrans.
  - rewrite Heqb, Hlt. exact qeqb_nlt.
  - exact (q_reducible rt Hm).
  - destruct Hm as [->|[->| ->]]; reflexivity.
  - intros v0 va vb md sa sb sx Hso _ _ _ _ La Lb Lm Ma Mb.
    cbn [kops_of k_upd k_ltb QFr f_ltb] in *. rewrite upd_QFr. apply qltb_true_of_lt.
    apply upd_gt_Q; try assumption; try (apply qlt_of_ltb_true; assumption); try (apply qle_of_ltb_false; assumption).
    destruct Hm as [->|[->| ->]]; reflexivity.
  - apply Forall_forall. intros; exact I.
  - intros x y w Hxy Hy Hne Hw. cbn [kops_of k_ltb QFr f_ltb]. apply qltb_true_of_lt. exact (Huniq x y w Hxy Hy Hne Hw).
Qed.

(* generic: the carrier with the infinite sentinel *)
Notation KI meth := (kops_of (QI rt) meth).
Definition fin_qi (v : qi) : Prop := exists q, v = Some q.

Theorem generic_first_step_QI meth s d (mq : list Q) n s' d' m' (M0 : cmat qi) (a b : nat) (v : Q) :
  generic_with (KI meth) p meth s d (map Some mq) n = Ok (s', d', m') ->
  prologue p (square_all (KI meth) (map Some mq)) n = Ok M0 ->
  a < b -> b < m_obs M0 ->
  wcell M0 a b = Some (Some v) ->
  (forall x y w, x < y -> y < m_obs M0 -> (x, y) <> (a, b) -> wcell M0 x y = Some (Some w) -> (v < w)%Q) ->
  exists t, nth_error (d_steps d') 0 = Some t /\ s_c1 t = a /\ s_c2 t = b /\ s_size t = 2
    /\ s_dis t = k_rt (KI meth) (Some v).
Proof.
  intros H HM0 Hab Hb Hv Huniq.
  assert (Hsome : Forall fin_qi (square_all (KI meth) (map Some mq))).
  { unfold square_all. rewrite map_map. apply Forall_forall. intros w Hw. apply in_map_iff in Hw. destruct Hw as (x & <- & _).
    cbn [kops_of k_sq QI f_mul]. destruct (on_squares meth); cbn; eexists; reflexivity. }
  apply (@generic_first_step qi (KI meth) p meth qi_irrefl qi_trans fin_qi)
    with (s := s) (d := d) (m := map Some mq) (n := n) (s' := s') (m' := m') (M0 := M0); try assumption.
  - intros va vb md sa sb sx _ (qa & ->) (qb & ->) (qm & ->). cbn [kops_of k_upd]. rewrite upd_QI. eexists. reflexivity.
  - intros Hsort v0 va vb md sa sb sx Hso (q0 & ->) (qa & ->) (qb & ->) (qm & ->) La Lb Lm Ma Mb.
    cbn [kops_of k_upd k_ltb QI f_ltb qi_ltb] in *. rewrite upd_QI. cbn [qi_ltb]. apply qltb_false_iff.
    apply upd_ge_Q; try assumption; apply qle_of_ltb_false; assumption.
  - exact qi_negtrans.
  - exact qi_eqb_refl.
  - exact qi_eqb_le.
  - exact (@KI_upd_below rt meth).
  - exact (@KI_rename_reducible rt meth).
  - exact (@KI_untracked_grows rt meth).
  - exact (squares_some rt meth mq).
  - intros x y w Hxy Hy Hne Hw. cbn [kops_of k_ltb QI f_ltb].
    assert (Fw : fin_qi w).
    { destruct (PrimitiveWF.prologue_wf _ _ _ HM0) as [_ Hdata]. rewrite Forall_forall in Hsome. apply Hsome. rewrite <- Hdata.
      unfold wcell, PrimitiveGreedy.mcell in Hw. eapply nth_error_In. exact Hw. }
    destruct Fw as (qw & ->). cbn [qi_ltb]. apply qltb_true_of_lt. exact (Huniq x y qw Hxy Hy Hne Hw).
Qed.

(* nnchain over option Q (all five of its methods), and what `linkage` runs for the six methods
   other than single (complete .. ward: nnchain; centroid, median: generic) *)
Theorem nnchain_first_step_QI meth s d (mq : list Q) n s' d' m' (M0 : cmat qi) (a b : nat) (v : Q) :
  requires_sorting meth = true ->
  nnchain_with (KI meth) p meth s d (map Some mq) n = Ok (s', d', m') ->
  prologue p (square_all (KI meth) (map Some mq)) n = Ok M0 ->
  a < b -> b < m_obs M0 ->
  wcell M0 a b = Some (Some v) ->
  (forall x y w, x < y -> y < m_obs M0 -> (x, y) <> (a, b) -> wcell M0 x y = Some (Some w) -> (v < w)%Q) ->
  exists t, nth_error (d_steps d') 0 = Some t /\ s_c1 t = a /\ s_c2 t = b /\ s_size t = 2
    /\ s_dis t = k_rt (KI meth) (Some v).
Proof.
  intros Hsort H HM0 Hab Hb Hv Huniq.
  assert (Hsome : Forall fin_qi (square_all (KI meth) (map Some mq))).
  { unfold square_all. rewrite map_map. apply Forall_forall. intros w Hw. apply in_map_iff in Hw. destruct Hw as (x & <- & _).
    cbn [kops_of k_sq QI f_mul]. destruct (on_squares meth); cbn; eexists; reflexivity. }
  apply (@nnchain_first_step qi (KI meth) p meth qi_irrefl qi_trans fin_qi)
    with (s := s) (d := d) (m := map Some mq) (n := n) (s' := s') (m' := m') (M0 := M0); try assumption.
  - intros va vb md sa sb sx _ (qa & ->) (qb & ->) (qm & ->). cbn [kops_of k_upd]. rewrite upd_QI. eexists. reflexivity.
  - intros _ v0 va vb md sa sb sx Hso (q0 & ->) (qa & ->) (qb & ->) (qm & ->) La Lb Lm Ma Mb.
    cbn [kops_of k_upd k_ltb QI f_ltb qi_ltb] in *. rewrite upd_QI. cbn [qi_ltb]. apply qltb_false_iff.
    apply upd_ge_Q; try assumption; apply qle_of_ltb_false; assumption.
  - exact qi_negtrans.
  - exact qi_eqb_le.
  - intros va vb md sa sb sx [Hs _] Ma Mb. apply (@KI_rename_reducible rt meth); try assumption.
    destruct meth; try discriminate Hsort; reflexivity.
  - intros v0 va vb md sa sb sx Hso (q0 & ->) (qa & ->) (qb & ->) (qm & ->) La Lb Lm Ma Mb.
    cbn [kops_of k_upd k_ltb QI f_ltb qi_ltb] in *. rewrite upd_QI. cbn [qi_ltb]. apply qltb_true_of_lt.
    apply upd_gt_Q; try assumption; try (apply qlt_of_ltb_true; assumption); apply qle_of_ltb_false; assumption.
  - intros x y w Hxy Hy Hne Hw. cbn [kops_of k_ltb QI f_ltb].
    assert (Fw : fin_qi w).
    { destruct (PrimitiveWF.prologue_wf _ _ _ HM0) as [_ Hdata]. rewrite Forall_forall in Hsome. apply Hsome. rewrite <- Hdata.
      unfold wcell, PrimitiveGreedy.mcell in Hw. eapply nth_error_In. exact Hw. }
    destruct Fw as (qw & ->). cbn [qi_ltb]. apply qltb_true_of_lt. exact (Huniq x y qw Hxy Hy Hne Hw).
Qed.

Theorem linkage_first_step_QI meth s d (mq : list Q) n s' d' m' (M0 : cmat qi) (a b : nat) (v : Q) :
  meth <> Single ->
  Linkage.linkage_with (QI rt) p meth s d (map Some mq) n = Ok (s', d', m') ->
  prologue p (square_all (KI meth) (map Some mq)) n = Ok M0 ->
  a < b -> b < m_obs M0 ->
  wcell M0 a b = Some (Some v) ->
  (forall x y w, x < y -> y < m_obs M0 -> (x, y) <> (a, b) -> wcell M0 x y = Some (Some w) -> (v < w)%Q) ->
  exists t, nth_error (d_steps d') 0 = Some t /\ s_c1 t = a /\ s_c2 t = b /\ s_size t = 2
    /\ s_dis t = k_rt (KI meth) (Some v).
Proof.
  intros Hns H. unfold Linkage.linkage_with in H.
  destruct meth; try congruence; cbn [chain_capable] in H.
  - exact (@nnchain_first_step_QI Complete s d mq n s' d' m' M0 a b v eq_refl H).
  - exact (@nnchain_first_step_QI Average s d mq n s' d' m' M0 a b v eq_refl H).
  - exact (@nnchain_first_step_QI Weighted s d mq n s' d' m' M0 a b v eq_refl H).
  - exact (@nnchain_first_step_QI Ward s d mq n s' d' m' M0 a b v eq_refl H).
  - exact (@generic_first_step_QI Centroid s d mq n s' d' m' M0 a b v H).
  - exact (@generic_first_step_QI Median s d mq n s' d' m' M0 a b v H).
Qed.

End QRuns.
