(* C12 for the primitive algorithm (all 7 methods): on every correctly shaped
   input the call returns; the only possible panic is the sort's NaN panic. *)
Require Import KV.Model.Prelude KV.Model.Condensed KV.Model.Active KV.Model.Heap
  KV.Model.UnionFind KV.Model.Dendrogram KV.Model.Methods KV.Model.State KV.Model.Primitive
  KV.Proofs.ResetCanon KV.Proofs.ActiveRefine KV.Proofs.CondensedIdx KV.Proofs.SortProofs KV.Proofs.Monotone
  KV.Proofs.MstCost KV.Proofs.Shape KV.Proofs.PrimitiveGreedy KV.Proofs.Forest KV.Proofs.UnionFindInv
  KV.Proofs.RelabelWF KV.Proofs.PrimitiveWF KV.Proofs.ShapeCheck.
From Coq Require Import Sorting.Sorted.

Set Implicit Arguments.

Section PrimTotal.
Variable T : Type.
Variable K : kops T.
Variable p : profile.
Hypothesis ltb_trans : forall a b c, k_ltb K a b = true -> k_ltb K b c = true -> k_ltb K a c = true.
Hypothesis ltb_irrefl : forall a, k_ltb K a a = false.

Lemma upd_cell_ok meth (sizes : list nat) (M : cmat T) r1 c1 r2 c2 x dist sa sb :
  wf_mat M -> r1 < c1 -> c1 < m_obs M -> r2 < c2 -> c2 < m_obs M -> x < length sizes ->
  exists M', upd_cell K p meth sizes M r1 c1 r2 c2 x dist sa sb = Ok M' /\ wf_mat M' /\ m_obs M' = m_obs M.
Proof.
  intros Hwf H1 H2 H3 H4 Hx. unfold upd_cell.
  destruct (mget_cell p Hwf H1 H2) as (va & _ & Ga). rewrite Ga. cbn [bind].
  destruct (mget_cell p Hwf H3 H4) as (vb & _ & Gb). rewrite Gb. cbn [bind].
  assert (Hsx : exists sx, (if uses_size_x meth then vget sizes x else Ok 0) = Ok sx).
  { destruct (uses_size_x meth); [|eexists; reflexivity]. unfold vget.
    destruct (nth_error sizes x) eqn:E; [eexists; reflexivity|apply nth_error_None in E; lia]. }
  destruct Hsx as (sx & Hsx). rewrite Hsx. cbn [bind].
  unfold mset. rewrite (mslot_ok p M r2 c2 H3 H4 Hwf). cbn [bind].
  eexists. split; [reflexivity|]. unfold wf_mat. cbn [m_data m_obs]. rewrite set_nth_length. split; [exact Hwf|reflexivity].
Qed.

Lemma fold_upd_ok meth (sizes : list nat) (rc : nat -> (nat * nat) * (nat * nat)) dist sa sb (xs : list nat) n0 :
  (forall x, In x xs -> fst (fst (rc x)) < snd (fst (rc x)) /\ snd (fst (rc x)) < n0
                        /\ fst (snd (rc x)) < snd (snd (rc x)) /\ snd (snd (rc x)) < n0 /\ x < length sizes) ->
  forall M, wf_mat M -> m_obs M = n0 ->
  exists M', mfold (fun M x => upd_cell K p meth sizes M (fst (fst (rc x))) (snd (fst (rc x)))
                                         (fst (snd (rc x))) (snd (snd (rc x))) x dist sa sb) xs M = Ok M'
    /\ wf_mat M' /\ m_obs M' = n0.
Proof.
  induction xs as [|x xs IH]; intros Hxs M Hwf Ho.
  - exists M. split; [reflexivity|]. split; assumption.
  - cbn [mfold]. destruct (Hxs x (or_introl eq_refl)) as (A1 & A2 & A3 & A4 & A5).
    destruct (@upd_cell_ok meth sizes M _ _ _ _ x dist sa sb Hwf A1 ltac:(lia) A3 ltac:(lia) A5) as (M1 & Hu & Hwf1 & Ho1).
    rewrite Hu. cbn [bind]. apply IH; [intros y Hy; apply Hxs; right; exact Hy|exact Hwf1|lia].
Qed.

(* elements strictly between two members of a sorted list *)
Lemma filter_between_sorted (L : list nat) (a b : nat) : StronglySorted lt L -> In a L -> a < b ->
  tl (filter (in_range a b) L) = filter (fun z => (a <? z) && (z <? b)) L.
Proof.
  induction 1 as [|x t Hs IH Hall]; intros Hin Hab; [destruct Hin|].
  rewrite Forall_forall in Hall. cbn [filter]. unfold in_range at 1. destruct Hin as [->|Hin].
  - rewrite Nat.leb_refl, Nat.ltb_irrefl. destruct (Nat.ltb_spec a b); [|lia]. cbn [andb tl].
    apply filter_ext_in. intros z Hz. apply Hall in Hz. unfold in_range.
    destruct (Nat.leb_spec a z), (Nat.ltb_spec a z); try lia; reflexivity.
  - pose proof (Hall a Hin). destruct (Nat.leb_spec a x); [lia|]. destruct (Nat.ltb_spec a x); [lia|].
    cbn [andb]. apply IH; assumption.
Qed.

Definition QInv (n0 : nat) (s : lstate T) (d : dend T) (M : cmat T) (L : list nat) : Prop :=
  PInv s M L /\ NoDup L /\ m_obs M = n0 /\ length (st_sizes s) = n0
  /\ d_obs d = n0 /\ length (d_steps d) + length L = n0.

Lemma prim_iter_progress meth n0 s d M i L :
  QInv n0 s d M L -> 2 <= length L ->
  exists s' d' M' a, prim_iter K p meth (s, d, M) i = Ok (s', d', M')
    /\ In a L /\ QInv n0 s' d' M' (without a L).
Proof.
  intros ((HA & Hwf & HN) & Hnd & HMo & Hsz & Hobs & Hcount) HL2.
  pose proof HA as (Hlen & Hl & Hdead).
  assert (HB : forall z, In z L -> z < n0) by (intros z Hz; apply (linked_bounds Hl) in Hz; lia).
  unfold prim_iter.
  destruct (argmin_some K p ltb_trans ltb_irrefl Hwf HA HN HL2) as (a & b & v & Harg & Ha & Hb & Hab & _ & _).
  rewrite Harg. cbn [bind opt_unwrap].
  pose proof (HB a Ha) as Han. pose proof (HB b Hb) as Hbn.
  unfold vget at 1. destruct (nth_error (st_sizes s) a) as [sa|] eqn:Esa; [|apply nth_error_None in Esa; lia]. cbn [bind].
  unfold vget at 1. destruct (nth_error (st_sizes s) b) as [sb|] eqn:Esb; [|apply nth_error_None in Esb; lia]. cbn [bind].
  (* the three update loops *)
  unfold update3.
  unfold a_below. rewrite (@a_range_spec _ _ Unb (Excl a) HA) by (cbn [lo_of hi_of]; pose proof (proj1 (linked_bounds Hl)); lia).
  cbn [bind lo_of hi_of].
  destruct (@fold_upd_ok meth (st_sizes s) (fun x => ((x, a), (x, b))) v sa sb
              (filter (in_range (a_start (st_active s)) a) L) n0) with (M := M) as (M1 & F1 & Hwf1 & Ho1).
  { intros x Hx. apply filter_In in Hx. destruct Hx as [Hx Hr]. unfold in_range in Hr.
    apply Bool.andb_true_iff in Hr. destruct Hr as [_ Hr]. apply Nat.ltb_lt in Hr. cbn [fst snd]. pose proof (HB x Hx). lia. }
  { exact Hwf. } { exact HMo. }
  cbn [fst snd] in F1. rewrite F1. cbn [bind].
  unfold a_between. rewrite (@a_range_spec _ _ (Incl a) (Excl b) HA) by (cbn [lo_of hi_of]; lia).
  cbn [bind lo_of hi_of]. rewrite (filter_between_sorted (linked_sorted Hl) Ha Hab).
  destruct (@fold_upd_ok meth (st_sizes s) (fun x => ((a, x), (x, b))) v sa sb
              (filter (fun z => (a <? z) && (z <? b)) L) n0) with (M := M1) as (M2 & F2 & Hwf2 & Ho2).
  { intros x Hx. apply filter_In in Hx. destruct Hx as [Hx Hr].
    apply Bool.andb_true_iff in Hr. destruct Hr as [Hr1 Hr2]. apply Nat.ltb_lt in Hr1, Hr2. cbn [fst snd]. pose proof (HB x Hx). lia. }
  { exact Hwf1. } { exact Ho1. }
  cbn [fst snd] in F2. rewrite F2. cbn [bind].
  rewrite (@a_above_spec (st_active s) L b HA Hb). cbn [bind].
  destruct (@fold_upd_ok meth (st_sizes s) (fun x => ((a, x), (b, x))) v sa sb
              (filter (fun z => b <? z) L) n0) with (M := M2) as (M3 & F3 & Hwf3 & Ho3).
  { intros x Hx. apply filter_In in Hx. destruct Hx as [Hx Hr]. apply Nat.ltb_lt in Hr. cbn [fst snd]. pose proof (HB x Hx). lia. }
  { exact Hwf2. } { exact Ho2. }
  cbn [fst snd] in F3. rewrite F3. cbn [bind].
  (* merge *)
  unfold st_merge.
  unfold vget at 1. rewrite Esa. cbn [bind]. unfold vget at 1. rewrite Esb. cbn [bind].
  unfold vset. destruct (Nat.ltb_spec b (length (st_sizes s))); [|lia]. cbn [bind].
  destruct (@a_remove_spec _ _ a HA ltac:(lia)) as (a' & Ha' & HA' & Hlen').
  rewrite Ha'. cbn [bind]. unfold vget at 1. rewrite nth_error_set_nth_eq by lia. cbn [bind].
  pose proof (without_length a Hnd Ha) as Hwl.
  unfold d_push, d_len, assert_. destruct (Nat.ltb_spec (length (d_steps d)) (d_obs d - 1)); [|lia]. cbn [bind].
  eexists _, _, _, a. split; [reflexivity|]. split; [exact Ha|].
  unfold QInv, PInv. cbn [st_with_active st_with_sizes st_active st_sizes d_steps d_obs].
  split; [split; [exact HA'|split; [exact Hwf3|rewrite Hlen', Ho3; lia]]|].
  split; [apply NoDup_filter; exact Hnd|]. split; [exact Ho3|]. split; [rewrite set_nth_length; exact Hsz|].
  split; [exact Hobs|]. rewrite app_length. cbn [length]. lia.
Qed.

Lemma prim_fold_progress meth n0 : forall (k : nat) i s d M L, QInv n0 s d M L -> S k <= length L ->
  exists s' d' M' L', mfold (prim_iter K p meth) (seq i k) (s, d, M) = Ok (s', d', M')
    /\ QInv n0 s' d' M' L' /\ length L' + k = length L.
Proof.
  induction k as [|k IH]; intros i s d M L HQ Hk.
  - eexists _, _, _, L. split; [reflexivity|]. split; [exact HQ|lia].
  - cbn [seq mfold].
    destruct (@prim_iter_progress meth n0 s d M i L HQ ltac:(lia)) as (s1 & d1 & M1 & a & Hstep & Hin & HQ1).
    rewrite Hstep. cbn [bind]. pose proof HQ as (_ & Hnd & _).
    pose proof (without_length a Hnd Hin) as Hwl.
    destruct (IH (S i) s1 d1 M1 (without a L) HQ1 ltac:(lia)) as (s' & d' & M' & L' & Hf & HQ' & Hl').
    eexists _, _, _, L'. split; [exact Hf|]. split; [exact HQ'|lia].
Qed.

Theorem primitive_total meth (s : lstate T) (d : dend T) (m : list T) (n : N) :
  (n < two32)%N -> wf_shape n (N.of_nat (length m)) ->
  (exists r, primitive_with K p meth s d m n = Ok r) \/ primitive_with K p meth s d m n = Panic PNaN.
Proof.
  intros Hn Hshape. unfold primitive_with, prologue.
  assert (Hshape' : wf_shape n (N.of_nat (length (square_all K m)))) by (unfold square_all; rewrite map_length; exact Hshape).
  rewrite (shape_check_ok p n _ Hn Hshape'). cbn [bind].
  unfold obs_to_nat. destruct (N.ltb_spec (if (n <=? 1)%N then 0%N else n) two32) as [_|Hbig];
    [|destruct (N.leb_spec n 1); unfold two32 in *; lia]. cbn [bind m_obs m_data].
  set (n0 := N.to_nat (if (n <=? 1)%N then 0%N else n)).
  destruct (Nat.eqb_spec n0 0) as [Hz|Hz]; [left; eexists; reflexivity|].
  set (M := {| m_data := square_all K m; m_obs := n0 |}).
  assert (Hwf : wf_mat M).
  { unfold wf_mat, M. cbn [m_data m_obs]. unfold wf_shape in Hshape'. unfold n0 in *.
    destruct (N.leb_spec n 1); [cbn in Hz; lia|].
    apply Nat2N.inj. rewrite Hshape'. rewrite Nat2N.inj_div, Nat2N.inj_mul, Nat2N.inj_sub, N2Nat.id. reflexivity. }
  pose proof (@prim_init T K s M Hwf) as HP0. change (m_obs M) with n0 in HP0.
  assert (HQ0 : QInv n0 (st_reset K s n0) (d_reset d n0) M (seq 0 n0)).
  { unfold QInv. split; [exact HP0|]. split; [apply seq_NoDup|]. split; [reflexivity|].
    cbn [st_reset st_sizes d_reset d_obs d_steps length]. unfold clear_resize. rewrite vresize_length, seq_length. repeat split; lia. }
  destruct (@prim_fold_progress meth n0 (n0 - 1) 0 _ _ _ _ HQ0 ltac:(rewrite seq_length; lia))
    as (s1 & d1 & M1 & L1 & Hfold & HQ1 & Hl1).
  change (m_obs M) with n0. fold M. rewrite Hfold. cbn [bind].
  assert (HF0 : FInv n0 (d_reset d n0) (seq 0 n0)).
  { unfold FInv. cbn [d_reset d_obs d_steps edges map all_nontrivial add_edges length].
    split; [reflexivity|]. split; [intros x Hx; apply in_seq in Hx; lia|]. split; [intros st []|].
    split; [exact I|]. split; [intros x y _ _ Hxy Heq; exact (Hxy Heq)|rewrite seq_length; reflexivity]. }
  destruct (@prim_fold_forest T K p ltb_trans ltb_irrefl meth n0 _ _ _ _ _ _ _ _ HP0 HF0 (seq_NoDup _ _) Hfold)
    as (L' & (Hobs & _ & Hends & Hnt & _ & Hcount) & Hl).
  rewrite !seq_length in Hl.
  assert (Hlend : length (d_steps d1) = d_obs d1 - 1) by lia.
  destruct (requires_sorting meth).
  - destruct (sort_steps_total (k_ltb K) (k_eqb K) (d_steps d1)) as [[l Hsort]|Hnan].
    + destruct (@relabel_wf T (k_ltb K) (k_eqb K) (st_set s1) d1 true l ltac:(lia) Hlend
                  ltac:(rewrite Hobs; exact Hends) Hnt Hsort) as (u' & d' & Hrel & _).
      rewrite Hrel. cbn [bind]. left. eexists. reflexivity.
    + right. unfold relabel. rewrite Hnan. reflexivity.
  - destruct (@relabel_wf T (k_ltb K) (k_eqb K) (st_set s1) d1 false (d_steps d1) ltac:(lia) Hlend
                ltac:(rewrite Hobs; exact Hends) Hnt eq_refl) as (u' & d' & Hrel & _).
    rewrite Hrel. cbn [bind]. left. eexists. reflexivity.
Qed.

End PrimTotal.
