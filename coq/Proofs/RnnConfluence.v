(* Agglomeration by reciprocal nearest neighbours is confluent.

   States are finite sets of merge trees with pairwise disjoint leaves; a step
   joins two trees that are STRICT reciprocal nearest neighbours (each is
   strictly closer to the other than to any third tree) w.r.t. a criterion
   `crit`.  If `crit` is reducible (joining two trees does not bring the join
   closer to a third tree than both parts were), then two strict-RNN pairs of
   one state are equal or disjoint, each survives the other's merge, the two
   merges commute - hence ALL maximal sequences of strict-RNN merges from one
   state create the same set of nodes.  The greedy (global minimum) sequence is
   one of them, the nearest-neighbour-chain sequence another. *)
Require Import KV.Model.Prelude KV.Proofs.LWInvariant.
From Coq Require Import Permutation.

Set Implicit Arguments.

Lemma NoDup_app_inv {A} (l1 l2 : list A) : NoDup (l1 ++ l2) ->
  NoDup l1 /\ NoDup l2 /\ forall x, In x l1 -> ~ In x l2.
Proof.
  induction l1 as [|a l1 IH]; cbn [app]; intros H.
  - split; [constructor|]. split; [exact H|intros x []].
  - inversion H as [|? ? Hn Hnd]; subst. destruct (IH Hnd) as (H1 & H2 & H3).
    split; [constructor; [intros Hi; apply Hn; apply in_or_app; left; exact Hi|exact H1]|].
    split; [exact H2|]. intros x [<-|Hx]; [intros Hi; apply Hn; apply in_or_app; right; exact Hi|exact (H3 x Hx)].
Qed.

Lemma mtree_eq_dec (x y : mtree) : {x = y} + {x <> y}.
Proof. decide equality. apply Nat.eq_dec. Defined.

Fixpoint maxleaf (t : mtree) : nat :=
  match t with Leaf i => i | Node l r => Nat.max (maxleaf l) (maxleaf r) end.

Lemma maxleaf_in t : In (maxleaf t) (leaves t).
Proof.
  induction t as [i|l IHl r IHr]; cbn [maxleaf leaves]; [left; reflexivity|].
  apply in_or_app. destruct (Nat.max_spec (maxleaf l) (maxleaf r)) as [[_ ->]|[_ ->]]; [right|left]; assumption.
Qed.

(* the join, oriented by the largest leaf (the slot the code keeps) *)
Definition mk (A B : mtree) : mtree := if maxleaf A <? maxleaf B then Node A B else Node B A.

Lemma mk_cases A B : mk A B = Node A B \/ mk A B = Node B A.
Proof. unfold mk. destruct (maxleaf A <? maxleaf B); auto. Qed.

Lemma mk_comm A B : maxleaf A <> maxleaf B -> mk A B = mk B A.
Proof. intros H. unfold mk. destruct (Nat.ltb_spec (maxleaf A) (maxleaf B)), (Nat.ltb_spec (maxleaf B) (maxleaf A)); try reflexivity; lia. Qed.

Lemma leaves_mk A B : Permutation (leaves (mk A B)) (leaves A ++ leaves B).
Proof. destruct (mk_cases A B) as [-> | ->]; cbn [leaves]; [apply Permutation_refl|apply Permutation_app_comm]. Qed.

Notation rmv := (remove mtree_eq_dec).
Definition rem (A B : mtree) (S : list mtree) : list mtree := rmv A (rmv B S).

Lemma in_rem A B S X : In X (rem A B S) <-> In X S /\ X <> A /\ X <> B.
Proof.
  unfold rem. split.
  - intros H. apply in_remove in H. destruct H as [H1 H2]. apply in_remove in H1. tauto.
  - intros (H1 & H2 & H3). apply in_in_remove; [exact H2|]. apply in_in_remove; assumption.
Qed.

Lemma remove_perm x (l l' : list mtree) : Permutation l l' -> Permutation (rmv x l) (rmv x l').
Proof.
  induction 1 as [|y l l' _ IH|y z l|l l' l'' _ IH1 _ IH2]; cbn [remove].
  - constructor.
  - destruct (mtree_eq_dec x y); [exact IH|constructor; exact IH].
  - destruct (mtree_eq_dec x z), (mtree_eq_dec x y); try apply Permutation_refl. apply perm_swap.
  - eapply Permutation_trans; eassumption.
Qed.

Lemma rem_perm A B S S' : Permutation S S' -> Permutation (rem A B S) (rem A B S').
Proof. intros H. unfold rem. apply remove_perm, remove_perm, H. Qed.

Lemma nodup_remove x (l : list mtree) : NoDup l -> NoDup (rmv x l).
Proof.
  induction 1 as [|y l Hn _ IH]; cbn [remove]; [constructor|].
  destruct (mtree_eq_dec x y); [exact IH|]. constructor; [|exact IH].
  intros H. apply in_remove in H. tauto.
Qed.

Lemma nodup_rem A B S : NoDup S -> NoDup (rem A B S).
Proof. intros H. unfold rem. apply nodup_remove, nodup_remove, H. Qed.

Lemma perm_split2 A B S : NoDup S -> In A S -> In B S -> A <> B -> Permutation S (A :: B :: rem A B S).
Proof.
  intros Hnd HA HB Hab. apply NoDup_Permutation; [exact Hnd| |].
  - constructor; [intros [E|H]; [congruence|apply in_rem in H; tauto]|].
    constructor; [intros H; apply in_rem in H; tauto|apply nodup_rem; exact Hnd].
  - intros X. split.
    + intros HX. destruct (mtree_eq_dec X A) as [->|NA]; [left; reflexivity|].
      destruct (mtree_eq_dec X B) as [->|NB]; [right; left; reflexivity|].
      right; right. apply in_rem. tauto.
    + intros [<-|[<-|H]]; [exact HA|exact HB|apply in_rem in H; tauto].
Qed.

Section Rnn.
Variable T : Type.
Variable ltb : T -> T -> bool.
Hypothesis ltb_irrefl : forall a, ltb a a = false.
Hypothesis ltb_trans : forall a b c, ltb a b = true -> ltb b c = true -> ltb a c = true.
Hypothesis ltb_negtrans : forall a b c, ltb a b = false -> ltb b c = false -> ltb a c = false.

Variable crit : mtree -> mtree -> T -> Prop.
Hypothesis crit_sym : forall A B v, crit A B v -> crit B A v.
Hypothesis crit_fun : forall A B v w, crit A B v -> crit A B w -> ltb v w = false /\ ltb w v = false.
Hypothesis crit_node : forall X A B va vb md,
  crit X A va -> crit X B vb -> crit A B md -> exists w, crit X (Node A B) w.
Hypothesis crit_reducible : forall X A B va vb md w,
  crit X A va -> crit X B vb -> crit A B md -> crit X (Node A B) w ->
  ltb md va = true -> ltb md vb = true -> ltb w va = false \/ ltb w vb = false.

(* order facts *)
Lemma lt_le_trans a b c : ltb a b = true -> ltb c b = false -> ltb a c = true.
Proof.
  intros H1 H2. destruct (ltb a c) eqn:C; [reflexivity|].
  pose proof (@ltb_negtrans _ _ _ C H2) as F. congruence.
Qed.

Lemma lt_eqv_r a b c : ltb a b = true -> ltb b c = false -> ltb c b = false -> ltb a c = true.
Proof. intros H1 _ H3. exact (lt_le_trans H1 H3). Qed.

Lemma lt_eqv_l a b c : ltb a b = true -> ltb a c = false -> ltb c a = false -> ltb c b = true.
Proof.
  intros H1 H2 _. destruct (ltb c b) eqn:C; [reflexivity|].
  pose proof (@ltb_negtrans _ _ _ H2 C) as F. congruence.
Qed.

Lemma lt_asym a b : ltb a b = true -> ltb b a = false.
Proof.
  intros H. destruct (ltb b a) eqn:C; [|reflexivity].
  pose proof (@ltb_trans _ _ _ H C) as F. rewrite ltb_irrefl in F. discriminate.
Qed.

(* ---- states ---- *)
Definition SInv (S : list mtree) : Prop :=
  NoDup (flat_map leaves S)
  /\ forall X Y, In X S -> In Y S -> X <> Y -> exists w, crit X Y w.

Lemma leaves_nonempty t : leaves t <> [].
Proof. intros E. pose proof (maxleaf_in t) as H. rewrite E in H. exact H. Qed.

Lemma flat_nodup_disjoint (S : list mtree) X Y i :
  NoDup (flat_map leaves S) -> In X S -> In Y S -> In i (leaves X) -> In i (leaves Y) -> X = Y.
Proof.
  induction S as [|Z S IH]; intros Hnd HX HY HiX HiY; [contradiction|].
  cbn [flat_map] in Hnd. apply NoDup_app_inv in Hnd.
  assert (Hcross : forall W, In W S -> In i (leaves Z) -> In i (leaves W) -> False).
  { intros W HW H1 H2. destruct Hnd as (_ & _ & Hd). apply (Hd i H1). apply in_flat_map. exists W. split; assumption. }
  destruct HX as [<-|HX], HY as [<-|HY]; [reflexivity| | |].
  - exfalso. exact (Hcross Y HY HiX HiY).
  - exfalso. exact (Hcross X HX HiY HiX).
  - apply IH; try assumption. exact (proj1 (proj2 Hnd)).
Qed.

Lemma sinv_nodup S : SInv S -> NoDup S.
Proof.
  intros [Hnd _]. induction S as [|X S IH]; [constructor|].
  cbn [flat_map] in Hnd. pose proof (NoDup_app_inv _ _ Hnd) as (_ & H2 & Hd).
  constructor; [|exact (IH H2)].
  intros HX. apply (Hd (maxleaf X) (maxleaf_in X)). apply in_flat_map. exists X. split; [exact HX|apply maxleaf_in].
Qed.

Lemma sinv_maxleaf S X Y : SInv S -> In X S -> In Y S -> X <> Y -> maxleaf X <> maxleaf Y.
Proof.
  intros [Hnd _] HX HY Hxy E. apply Hxy.
  apply (@flat_nodup_disjoint S X Y (maxleaf X) Hnd HX HY (maxleaf_in X)). rewrite E. apply maxleaf_in.
Qed.

Lemma sinv_perm S S' : Permutation S S' -> SInv S -> SInv S'.
Proof.
  intros HP [Hnd Hdef]. split.
  - eapply Permutation_NoDup; [|exact Hnd]. apply Permutation_flat_map. exact HP.
  - intros X Y HX HY. apply Hdef; eapply Permutation_in; try eassumption; apply Permutation_sym; exact HP.
Qed.

(* the new node is not one of the old trees *)
Lemma mk_fresh S A B X : SInv S -> In A S -> In B S -> A <> B -> In X S -> mk A B <> X.
Proof.
  intros HI HA HB Hab HX E. destruct HI as [Hnd _].
  (* X contains the largest leaf of A and that of B, so X = A and X = B *)
  assert (HlA : In (maxleaf A) (leaves X)).
  { rewrite <- E. eapply Permutation_in; [apply Permutation_sym, leaves_mk|]. apply in_or_app. left. apply maxleaf_in. }
  assert (HlB : In (maxleaf B) (leaves X)).
  { rewrite <- E. eapply Permutation_in; [apply Permutation_sym, leaves_mk|]. apply in_or_app. right. apply maxleaf_in. }
  apply Hab. transitivity X.
  - exact (@flat_nodup_disjoint S A X (maxleaf A) Hnd HA HX (maxleaf_in A) HlA).
  - symmetry. exact (@flat_nodup_disjoint S B X (maxleaf B) Hnd HB HX (maxleaf_in B) HlB).
Qed.

(* ---- strict reciprocal nearest neighbours ---- *)
Definition srnn (S : list mtree) (A B : mtree) : Prop :=
  In A S /\ In B S /\ A <> B
  /\ exists v, crit A B v
       /\ forall X w, In X S -> X <> A -> X <> B -> (crit A X w \/ crit B X w) -> ltb v w = true.

Lemma srnn_perm S S' A B : Permutation S S' -> srnn S A B -> srnn S' A B.
Proof.
  intros HP (HA & HB & Hab & v & Hv & Hfar).
  split; [eapply Permutation_in; eassumption|]. split; [eapply Permutation_in; eassumption|]. split; [exact Hab|].
  exists v. split; [exact Hv|]. intros X w HX. apply Hfar. eapply Permutation_in; [apply Permutation_sym; exact HP|exact HX].
Qed.

Lemma srnn_sym S A B : srnn S A B -> srnn S B A.
Proof.
  intros (HA & HB & Hab & v & Hv & Hfar).
  split; [exact HB|]. split; [exact HA|]. split; [congruence|]. exists v. split; [apply crit_sym; exact Hv|].
  intros X w HX H1 H2 [H|H]; apply (Hfar X w HX H2 H1); [right|left]; exact H.
Qed.

Definition after (A B : mtree) (S : list mtree) : list mtree := mk A B :: rem A B S.

Lemma sinv_after S A B : SInv S -> srnn S A B -> SInv (after A B S).
Proof.
  intros HI (HA & HB & Hab & v & Hv & _). pose proof (sinv_nodup HI) as HndS. destruct HI as [Hnd Hdef].
  split.
  - unfold after. cbn [flat_map].
    assert (HP : Permutation (flat_map leaves S) (leaves A ++ leaves B ++ flat_map leaves (rem A B S))).
    { rewrite (Permutation_flat_map leaves (perm_split2 HndS HA HB Hab)). cbn [flat_map]. apply Permutation_refl. }
    eapply Permutation_NoDup; [|exact Hnd].
    eapply Permutation_trans; [exact HP|]. rewrite app_assoc. apply Permutation_app_tail. apply Permutation_sym, leaves_mk.
  - assert (Hnew : forall X, In X (rem A B S) -> exists w, crit X (mk A B) w).
    { intros X HX. apply in_rem in HX. destruct HX as (HX & NA & NB).
      destruct (Hdef X A HX HA NA) as (va & Hva). destruct (Hdef X B HX HB NB) as (vb & Hvb).
      destruct (mk_cases A B) as [-> | ->].
      - exact (crit_node Hva Hvb Hv).
      - exact (crit_node Hvb Hva (crit_sym Hv)). }
    intros X Y [<-|HX] [<-|HY] Hxy.
    + congruence.
    + destruct (Hnew Y HY) as (w & Hw). exists w. apply crit_sym. exact Hw.
    + exact (Hnew X HX).
    + apply in_rem in HX. apply in_rem in HY. apply Hdef; tauto.
Qed.

(* two strict-RNN pairs of one state are equal or disjoint *)
Lemma srnn_overlap S A B D : srnn S A B -> srnn S A D -> B = D.
Proof.
  intros (HA & HB & Hab & v & Hv & Hfar) (_ & HD & Had & u & Hu & Hfar').
  destruct (mtree_eq_dec B D) as [E|NE]; [exact E|exfalso].
  pose proof (Hfar D u HD ltac:(congruence) ltac:(congruence) (or_introl Hu)) as H1.
  pose proof (Hfar' B v HB ltac:(congruence) NE (or_introl Hv)) as H2.
  rewrite (lt_asym H1) in H2. discriminate.
Qed.

Lemma srnn_cases S A B C D : srnn S A B -> srnn S C D ->
  (A = C /\ B = D) \/ (A = D /\ B = C) \/ (A <> C /\ A <> D /\ B <> C /\ B <> D).
Proof.
  intros H1 H2.
  destruct (mtree_eq_dec A C) as [->|NAC]; [left; split; [reflexivity|exact (srnn_overlap H1 H2)]|].
  destruct (mtree_eq_dec A D) as [->|NAD]; [right; left; split; [reflexivity|exact (srnn_overlap H1 (srnn_sym H2))]|].
  destruct (mtree_eq_dec B C) as [->|NBC].
  { exfalso. apply NAD. exact (srnn_overlap (srnn_sym H1) H2). }
  destruct (mtree_eq_dec B D) as [->|NBD].
  { exfalso. apply NAC. exact (srnn_overlap (srnn_sym H1) (srnn_sym H2)). }
  right; right. tauto.
Qed.

(* a strict-RNN pair survives the merge of a disjoint strict-RNN pair *)
Lemma srnn_persist S A B C D : SInv S -> srnn S A B -> srnn S C D ->
  A <> C -> A <> D -> B <> C -> B <> D -> srnn (after A B S) C D.
Proof.
  intros HI HAB HCD NAC NAD NBC NBD.
  pose proof HAB as (HA & HB & Hab & md & Hmd & HfarAB).
  pose proof HCD as (HC & HD & Hcd & v & Hv & HfarCD).
  destruct HI as [Hnd Hdef].
  split; [right; apply in_rem; repeat split; congruence|].
  split; [right; apply in_rem; repeat split; congruence|]. split; [exact Hcd|].
  exists v. split; [exact Hv|].
  intros X w [<-|HX] NXC NXD Hw.
  - (* the new node *)
    assert (Hone : forall E, (E = C \/ E = D) -> In E S -> E <> A -> E <> B ->
              (forall Y u, In Y S -> Y <> C -> Y <> D -> crit E Y u -> ltb v u = true) ->
              crit E (mk A B) w -> ltb v w = true).
    { intros E HE HES NEA NEB HfarE HwE.
      destruct (Hdef E A HES HA NEA) as (va & Hva). destruct (Hdef E B HES HB NEB) as (vb & Hvb).
      pose proof (HfarE A va HA ltac:(congruence) ltac:(congruence) Hva) as La.
      pose proof (HfarE B vb HB ltac:(congruence) ltac:(congruence) Hvb) as Lb.
      pose proof (HfarAB E va HES NEA NEB (or_introl (crit_sym Hva))) as Ma.
      pose proof (HfarAB E vb HES NEA NEB (or_intror (crit_sym Hvb))) as Mb.
      destruct (mk_cases A B) as [Em|Em]; rewrite Em in HwE.
      - destruct (crit_reducible Hva Hvb Hmd HwE Ma Mb) as [R|R]; [exact (lt_le_trans La R)|exact (lt_le_trans Lb R)].
      - destruct (crit_reducible Hvb Hva (crit_sym Hmd) HwE Mb Ma) as [R|R]; [exact (lt_le_trans Lb R)|exact (lt_le_trans La R)]. }
    destruct Hw as [Hw|Hw].
    + apply (Hone C (or_introl eq_refl) HC ltac:(congruence) ltac:(congruence)); [|exact Hw].
      intros Y u HY N1 N2 Hu. exact (HfarCD Y u HY N1 N2 (or_introl Hu)).
    + apply (Hone D (or_intror eq_refl) HD ltac:(congruence) ltac:(congruence)); [|exact Hw].
      intros Y u HY N1 N2 Hu. exact (HfarCD Y u HY N1 N2 (or_intror Hu)).
  - apply in_rem in HX. exact (HfarCD X w (proj1 HX) NXC NXD Hw).
Qed.

(* the two merges commute *)
Lemma after_comm S A B C D : SInv S -> srnn S A B -> srnn S C D ->
  A <> C -> A <> D -> B <> C -> B <> D ->
  Permutation (after C D (after A B S)) (after A B (after C D S)).
Proof.
  intros HI HAB HCD NAC NAD NBC NBD.
  pose proof HAB as (HA & HB & Hab & _). pose proof HCD as (HC & HD & Hcd & _).
  pose proof (sinv_after HI HAB) as HI1. pose proof (sinv_after HI HCD) as HI2.
  pose proof (srnn_persist HI HAB HCD NAC NAD NBC NBD) as HCD1.
  pose proof (srnn_persist HI HCD HAB ltac:(congruence) ltac:(congruence) ltac:(congruence) ltac:(congruence)) as HAB2.
  pose proof (sinv_nodup (sinv_after HI1 HCD1)) as N1. pose proof (sinv_nodup (sinv_after HI2 HAB2)) as N2.
  pose proof (fun X HX => @mk_fresh S A B X HI HA HB Hab HX) as FAB.
  pose proof (fun X HX => @mk_fresh S C D X HI HC HD Hcd HX) as FCD.
  apply NoDup_Permutation; [exact N1|exact N2|].
  intros X. unfold after. cbn [In]. rewrite !in_rem. cbn [In]. rewrite !in_rem.
  split.
  - intros [E|([E|(HX & N3 & N4)] & N5 & N6)].
    + right. split; [left; exact E|]. subst X. split; intros E'; [apply (FCD A HA)|apply (FCD B HB)]; exact E'.
    + left. exact E.
    + right. split; [right; tauto|tauto].
  - intros [E|([E|(HX & N3 & N4)] & N5 & N6)].
    + right. split; [left; exact E|]. subst X. split; intros E'; [apply (FAB C HC)|apply (FAB D HD)]; exact E'.
    + left. exact E.
    + right. split; [right; tauto|tauto].
Qed.

(* ---- maximal sequences of strict-RNN merges ---- *)
Inductive rseq : list mtree -> list mtree -> Prop :=
| rs_done S : length S <= 1 -> rseq S []
| rs_step S A B S' ns : srnn S A B -> Permutation S' (after A B S) -> rseq S' ns -> rseq S (mk A B :: ns).

Lemma after_perm A B S S' : Permutation S S' -> Permutation (after A B S) (after A B S').
Proof. intros H. unfold after. constructor. apply rem_perm. exact H. Qed.

Lemma rseq_perm S S' ns : Permutation S S' -> rseq S ns -> rseq S' ns.
Proof.
  intros HP H. revert S' HP. induction H as [S Hl|S A B S1 ns Hs HP1 H IH]; intros S' HP.
  - apply rs_done. rewrite <- (Permutation_length HP). exact Hl.
  - apply rs_step with (S' := S1); [exact (srnn_perm HP Hs)| |exact H].
    eapply Permutation_trans; [exact HP1|]. apply after_perm. exact HP.
Qed.

Lemma srnn_two S A B : srnn S A B -> SInv S -> 2 <= length S.
Proof.
  intros (HA & HB & Hab & _) HI. pose proof (perm_split2 (sinv_nodup HI) HA HB Hab) as HP.
  rewrite (Permutation_length HP). cbn [length]. lia.
Qed.

Lemma mk_sym_in S A B : SInv S -> In A S -> In B S -> A <> B -> mk A B = mk B A.
Proof. intros HI HA HB Hab. apply mk_comm. exact (sinv_maxleaf HI HA HB Hab). Qed.

Lemma after_sym S A B : SInv S -> srnn S A B -> Permutation (after A B S) (after B A S).
Proof.
  intros HI (HA & HB & Hab & _). unfold after. rewrite (mk_sym_in HI HA HB Hab). constructor.
  unfold rem. rewrite remove_remove_comm. apply Permutation_refl.
Qed.

(* any maximal sequence can be rearranged to start with a given strict-RNN pair *)
Lemma pull : forall S ns, rseq S ns -> SInv S -> forall C D, srnn S C D ->
  exists ns', Permutation ns (mk C D :: ns') /\ rseq (after C D S) ns'.
Proof.
  intros S ns H. induction H as [S Hl|S A B S1 ns Hs HP1 H IH]; intros HI C D HCD.
  - pose proof (srnn_two HCD HI). lia.
  - pose proof Hs as (HA & HB & Hab & _). pose proof HCD as (HC & HD & Hcd & _).
    destruct (srnn_cases Hs HCD) as [[-> ->]|[[-> ->]|(NAC & NAD & NBC & NBD)]].
    + exists ns. split; [apply Permutation_refl|]. exact (rseq_perm HP1 H).
    + exists ns. split; [rewrite (mk_sym_in HI HC HD Hcd); apply Permutation_refl|].
      apply (rseq_perm (S := S1)); [|exact H].
      eapply Permutation_trans; [exact HP1|]. exact (after_sym HI Hs).
    + pose proof (sinv_after HI Hs) as HI1.
      pose proof (srnn_persist HI Hs HCD NAC NAD NBC NBD) as HCD1.
      assert (HIS1 : SInv S1) by (apply (sinv_perm (Permutation_sym HP1)); exact HI1).
      destruct (IH HIS1 C D (srnn_perm (Permutation_sym HP1) HCD1)) as (ns' & Hperm & Hseq).
      exists (mk A B :: ns'). split.
      * eapply Permutation_trans; [apply perm_skip; exact Hperm|apply perm_swap].
      * pose proof (srnn_persist HI HCD Hs ltac:(congruence) ltac:(congruence) ltac:(congruence) ltac:(congruence)) as HAB2.
        apply rs_step with (S' := after C D S1); [exact HAB2| |exact Hseq].
        eapply Permutation_trans; [apply after_perm; exact HP1|].
        exact (after_comm HI Hs HCD NAC NAD NBC NBD).
Qed.

(* all maximal sequences from one state create the same nodes *)
Theorem rnn_confluence : forall S ns2, rseq S ns2 -> SInv S -> forall ns1, rseq S ns1 -> Permutation ns1 ns2.
Proof.
  intros S ns2 H. induction H as [S Hl|S C D S2 ns2 Hs HP2 H IH]; intros HI ns1 H1.
  - inversion H1 as [|? A B ? ? Hs' _ _]; subst; [constructor|]. pose proof (srnn_two Hs' HI). lia.
  - destruct (pull H1 HI Hs) as (ns1' & Hperm & Hseq).
    eapply Permutation_trans; [exact Hperm|]. apply perm_skip.
    apply IH; [apply (sinv_perm (Permutation_sym HP2)); exact (sinv_after HI Hs)|].
    exact (rseq_perm (Permutation_sym HP2) Hseq).
Qed.

End Rnn.
