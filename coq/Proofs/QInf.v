(* Exact rational arithmetic with an infinite sentinel: the carrier option Q,
   None = +infinity = max_value = infinity().  On it the order is a strict
   total order with top None, `==` is reflexive, and every update formula maps
   finite arguments to a finite value - so the hypotheses of
   GenericInv.generic_total_wf hold for ALL seven methods, and the criterion
   theorems of CriteriaRun.v carry over. *)
Require Import KV.Model.Prelude KV.Model.Condensed KV.Model.Dendrogram KV.Model.Methods KV.Model.State KV.Model.Generic
  KV.Proofs.ShapeCheck KV.Proofs.RelabelWF KV.Proofs.PrimitiveGreedy KV.Proofs.PrimitiveWF KV.Proofs.UpdateSpec KV.Proofs.SortProofs KV.Proofs.LWInvariant
  KV.Proofs.Criteria KV.Proofs.CriteriaRun KV.Proofs.GenericInv KV.Proofs.GenericCriterion.
From Coq Require Import QArith Qabs Permutation.

Set Implicit Arguments.
Local Close Scope Q_scope.

Definition qi := option Q.

Definition lift2 (f : Q -> Q -> Q) (a b : qi) : qi :=
  match a, b with Some x, Some y => Some (f x y) | _, _ => None end.
Definition lift1 (f : Q -> Q) (a : qi) : qi := match a with Some x => Some (f x) | None => None end.

Definition qi_ltb (a b : qi) : bool :=
  match a, b with
  | Some x, Some y => f_ltb QF x y
  | Some _, None => true
  | None, _ => false
  end.
Definition qi_eqb (a b : qi) : bool :=
  match a, b with
  | Some x, Some y => Qeq_bool x y
  | None, None => true
  | _, _ => false
  end.

Definition QI (rt : Q -> Q) : fops qi :=
  {| f_ltb := qi_ltb; f_eqb := qi_eqb;
     f_add := lift2 Qplus; f_sub := lift2 Qminus; f_mul := lift2 Qmult; f_div := lift2 Qdiv;
     f_sqrt := lift1 rt; f_abs := lift1 Qabs;
     f_of_nat := fun n => Some (inject_Z (Z.of_nat n));
     f_half := Some (1 # 2)%Q; f_quarter := Some (1 # 4)%Q;
     f_inf := None; f_max := None |}.

Lemma qi_irrefl a : qi_ltb a a = false.
Proof. destruct a; [apply qlt_irrefl|reflexivity]. Qed.

Lemma qi_trans a b c : qi_ltb a b = true -> qi_ltb b c = true -> qi_ltb a c = true.
Proof. destruct a, b, c; cbn; try discriminate; try reflexivity. apply qlt_trans. Qed.

Lemma qi_negtrans a b c : qi_ltb a b = false -> qi_ltb b c = false -> qi_ltb a c = false.
Proof. destruct a, b, c; cbn; try discriminate; try reflexivity. apply qlt_negtrans. Qed.

Lemma qi_eqb_refl a : qi_eqb a a = true.
Proof. destruct a; [apply Qeq_bool_iff; reflexivity|reflexivity]. Qed.

(* finite arguments give the finite value of the rational formula *)
Lemma feval_QI rt e (a b md : Q) sa sb sx :
  feval (QI rt) e (Some a) (Some b) (Some md) sa sb sx = Some (feval QF e a b md sa sb sx).
Proof.
  induction e; cbn [feval]; try reflexivity;
    try (rewrite IHe1, IHe2; reflexivity).
  rewrite IHe1, IHe2, IHe3, IHe4. cbn [QI f_ltb qi_ltb]. destruct (f_ltb QF _ _); reflexivity.
Qed.

Lemma upd_QI rt meth (a b md : Q) sa sb sx :
  upd_of (QI rt) meth (Some a) (Some b) (Some md) sa sb sx = Some (upd_of QF meth a b md sa sb sx).
Proof. unfold upd_of. apply feval_QI. Qed.

Lemma below_none (v : qi) : qi_ltb v None = true -> exists q, v = Some q.
Proof. destruct v; [eexists; reflexivity|discriminate]. Qed.

Section QIRuns.
Variable p : profile.
Variable rt : Q -> Q.
Variable meth : method.

Notation KI := (kops_of (QI rt) meth).

Lemma KI_upd_below va vb md sa sb sx :
  k_ltb KI va (k_inf KI) = true -> k_ltb KI vb (k_inf KI) = true -> k_ltb KI md (k_inf KI) = true ->
  k_ltb KI (k_upd KI va vb md sa sb sx) (k_inf KI) = true.
Proof.
  cbn [kops_of k_ltb k_inf k_upd QI f_ltb f_inf]. intros Ha Hb Hm.
  destruct (below_none _ Ha) as (qa & ->). destruct (below_none _ Hb) as (qb & ->). destruct (below_none _ Hm) as (qm & ->).
  rewrite upd_QI. reflexivity.
Qed.

Lemma squares_some (mq : list Q) :
  Forall (fun v => k_ltb KI v (k_inf KI) = true) (square_all KI (map Some mq)).
Proof.
  apply Forall_forall. intros v Hv. unfold square_all in Hv. rewrite map_map in Hv. apply in_map_iff in Hv.
  destruct Hv as (q & <- & _). cbn [kops_of k_sq k_ltb k_inf QI f_ltb f_inf f_mul]. destruct (on_squares meth); reflexivity.
Qed.

(* all seven methods: generic is total and returns well-formed dendrograms *)
Theorem generic_QI_total_wf s d (mq : list Q) (n : N) :
  (n < two32)%N -> wf_shape n (N.of_nat (length mq)) ->
  (exists s' d' m', generic_with KI p meth s d (map Some mq) n = Ok (s', d', m') /\ wf_dend (d_obs d') (d_steps d'))
  \/ generic_with KI p meth s d (map Some mq) n = Panic PNaN.
Proof.
  intros Hn Hs.
  apply (@generic_total_wf qi KI p meth qi_irrefl qi_trans qi_negtrans qi_eqb_refl KI_upd_below s d (map Some mq) n Hn
           ltac:(rewrite map_length; exact Hs) (squares_some mq)).
Qed.

(* the criterion of CriteriaRun.crit_of on the finite part *)
Definition unq (v : qi) : Q := match v with Some q => q | None => 0%Q end.
Definition Mq (M0 : cmat qi) : cmat Q := {| m_data := map unq (m_data M0); m_obs := m_obs M0 |}.
Definition critI (M0 : cmat qi) (A B : mtree) (v : qi) : Prop :=
  exists q, v = Some q /\ crit_of meth (Mq M0) A B q.

Lemma wcell_Mq (M0 : cmat qi) x y : wcell (Mq M0) x y = option_map unq (wcell M0 x y).
Proof. unfold wcell, mcell, Mq. cbn [m_data m_obs]. apply nth_error_map. Qed.

Theorem generic_QI_criterion s d (mq : list Q) (n : N) s' d' m' M0 :
  generic_with KI p meth s d (map Some mq) n = Ok (s', d', m') ->
  prologue p (square_all KI (map Some mq)) n = Ok M0 ->
  exists raw tr L' mem',
    mtrace (seq 0 (m_obs M0)) Leaf tr L' mem'
    /\ Forall2 (fun st (ab : mtree * mtree) => critI M0 (fst ab) (snd ab) (s_dis st)) raw tr
    /\ length raw = m_obs M0 - 1
    /\ Permutation (heights d') (map (k_rt KI) (map (@s_dis qi) raw)).
Proof.
  intros H HM0.
  apply (@generic_criterion qi KI p meth qi_irrefl qi_trans qi_negtrans qi_eqb_refl KI_upd_below (critI M0)
           ltac:(intros A B v (q & -> & Hc); exists q; split; [reflexivity|apply crit_of_sym; exact Hc])
           ltac:(intros X A B va vb md (qa & -> & Ha) (qb & -> & Hb) (qm & -> & Hm);
                 cbn [kops_of k_upd]; rewrite upd_QI; eexists; split; [reflexivity|]; apply crit_of_merge; assumption)
           ltac:(intros E va vb md sa sb sa' sb' sx; cbn [kops_of k_upd]; destruct meth; try discriminate; reflexivity)
           s d (map Some mq) n s' d' m' M0 (squares_some mq) H HM0).
  intros x y v Hxy Hx Hy Hv.
  (* every entry of the prologue's matrix is a squared input, hence finite *)
  destruct (prologue_wf _ _ _ HM0) as [_ Hdata].
  assert (Hsome : exists q, v = Some q).
  { apply below_none. pose proof (squares_some mq) as Hall. rewrite Forall_forall in Hall.
    apply (Hall v). rewrite <- Hdata. unfold wcell, mcell in Hv. eapply nth_error_In. exact Hv. }
  destruct Hsome as (q & ->). exists q. split; [reflexivity|].
  apply crit_of_leaf; [exact Hxy|]. rewrite wcell_Mq, Hv. reflexivity.
Qed.

End QIRuns.
