(* Why "at every threshold at least as many edges of weight <= t as any other
   spanning tree" (MstWeights.v) means "minimum total weight" whenever weights
   can be added: over Q, if two lists have the same length and B never has more
   entries <= t than A, then sum A <= sum B. (Repeatedly remove the two maxima.) *)
From Coq Require Import List Arith Lia QArith Permutation.
Import ListNotations.
Local Open Scope Q_scope.

Definition Qsum (l : list Q) : Q := fold_right Qplus 0 l.
Definition cnt (t : Q) (l : list Q) : nat := length (filter (fun v => Qle_bool v t) l).

Lemma Qsum_perm l l' : Permutation l l' -> Qsum l == Qsum l'.
Proof.
  intros H. induction H as [|x l l' H IH|x y l|l l' l'' H1 IH1 H2 IH2]; cbn [Qsum fold_right] in *.
  - reflexivity.
  - rewrite IH. reflexivity.
  - ring.
  - rewrite IH1. exact IH2.
Qed.

Lemma cnt_perm t l l' : Permutation l l' -> cnt t l = cnt t l'.
Proof.
  intros H. unfold cnt. apply Permutation_length.
  induction H as [|x l l' H IH|x y l|l l' l'' H1 IH1 H2 IH2]; cbn [filter].
  - constructor.
  - destruct (Qle_bool x t); [constructor|]; exact IH.
  - destruct (Qle_bool x t), (Qle_bool y t); try apply perm_swap; apply Permutation_refl.
  - eapply perm_trans; eassumption.
Qed.

Lemma cnt_cons t x l : cnt t (x :: l) = ((if Qle_bool x t then 1 else 0) + cnt t l)%nat.
Proof. unfold cnt. cbn [filter]. destruct (Qle_bool x t); reflexivity. Qed.

Lemma cnt_le_length t l : (cnt t l <= length l)%nat.
Proof. unfold cnt. induction l as [|a l IH]; cbn [filter length]; [lia|]. destruct (Qle_bool a t); cbn [length]; lia. Qed.

Lemma cnt_all t l : Forall (fun x => x <= t) l -> cnt t l = length l.
Proof.
  intros H. induction H as [|a l Ha _ IH]; [reflexivity|]. rewrite cnt_cons, IH.
  apply Qle_bool_iff in Ha. rewrite Ha. reflexivity.
Qed.

Lemma cnt_full t l : cnt t l = length l -> Forall (fun x => x <= t) l.
Proof.
  induction l as [|a l IH]; intros H; [constructor|]. rewrite cnt_cons in H. cbn [length] in H.
  pose proof (cnt_le_length t l). destruct (Qle_bool a t) eqn:E; [|lia].
  constructor; [apply Qle_bool_iff; exact E|apply IH; lia].
Qed.

Lemma max_split (l : list Q) : l <> [] -> exists m l', Permutation l (m :: l') /\ Forall (fun x => x <= m) l'.
Proof.
  induction l as [|a l IH]; [congruence|]. intros _. destruct l as [|b l0].
  - exists a, []. split; [apply Permutation_refl|constructor].
  - destruct (IH ltac:(discriminate)) as (m & l' & P & Fm).
    destruct (Qlt_le_dec m a) as [Hlt|Hle].
    + exists a, (b :: l0). split; [apply Permutation_refl|].
      apply (Permutation_Forall (Permutation_sym P)). constructor; [apply Qlt_le_weak; exact Hlt|].
      apply (Forall_impl _ (fun x Hx => Qle_trans _ _ _ Hx (Qlt_le_weak _ _ Hlt)) Fm).
    + exists m, (a :: l'). split; [|constructor; assumption].
      eapply perm_trans; [apply perm_skip; exact P|apply perm_swap].
Qed.

Theorem dominated_sum : forall (n : nat) (A B : list Q), length A = n -> length B = n ->
  (forall t, In t B -> (cnt t B <= cnt t A)%nat) -> Qsum A <= Qsum B.
Proof.
  induction n as [|n IH]; intros A B HA HB Hdom.
  - destruct A, B; [apply Qle_refl|discriminate|discriminate|discriminate].
  - destruct (max_split A ltac:(destruct A; [discriminate|congruence])) as (a & A' & PA & FA).
    destruct (max_split B ltac:(destruct B; [discriminate|congruence])) as (b & B' & PB & FB).
    assert (LA : length A' = n) by (apply Permutation_length in PA; cbn [length] in PA; lia).
    assert (LB : length B' = n) by (apply Permutation_length in PB; cbn [length] in PB; lia).
    assert (Hdom' : forall t, In t (b :: B') -> (cnt t (b :: B') <= cnt t (a :: A'))%nat).
    { intros t Ht. rewrite <- (cnt_perm t _ _ PA), <- (cnt_perm t _ _ PB). apply Hdom.
      apply (Permutation_in _ (Permutation_sym PB)). exact Ht. }
    (* the maximum of A is at most the maximum of B *)
    assert (Hab : a <= b).
    { pose proof (Hdom' b (or_introl eq_refl)) as H.
      rewrite (cnt_all b (b :: B')) in H by (constructor; [apply Qle_refl|exact FB]).
      pose proof (cnt_le_length b (a :: A')) as H2. cbn [length] in H, H2.
      assert (Hf : Forall (fun x => x <= b) (a :: A')) by (apply cnt_full; cbn [length]; lia).
      inversion Hf; assumption. }
    assert (Hrec : forall t, In t B' -> (cnt t B' <= cnt t A')%nat).
    { intros t Ht. pose proof (Hdom' t (or_intror Ht)) as H. rewrite !cnt_cons in H.
      pose proof (cnt_le_length t B') as HB'. pose proof (cnt_le_length t A') as HA'.
      destruct (Qle_bool a t) eqn:Ea.
      - apply Qle_bool_iff in Ea.
        rewrite (cnt_all t A') by (apply (Forall_impl _ (fun x Hx => Qle_trans _ _ _ Hx Ea) FA)). lia.
      - destruct (Qle_bool b t) eqn:Eb; [|lia].
        apply Qle_bool_iff in Eb. assert (Ea' : Qle_bool a t = true) by (apply Qle_bool_iff; exact (Qle_trans _ _ _ Hab Eb)).
        congruence. }
    rewrite (Qsum_perm _ _ PA), (Qsum_perm _ _ PB). cbn [Qsum fold_right].
    apply Qplus_le_compat; [exact Hab|]. exact (IH A' B' LA LB Hrec).
Qed.
