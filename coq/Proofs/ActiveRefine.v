(* Refinement of src/active.rs to "the increasing list of live indices". *)
Require Import KV.Model.Prelude KV.Model.Active KV.Proofs.ResetCanon.
From Coq Require Import Sorting.Sorted.

Set Implicit Arguments.

(* following `next` from cur visits exactly L and ends at N; prev[y-1] is the
   predecessor of every visited (or final) y except the first *)
Inductive linked (prev next : list nat) (N : nat) : nat -> list nat -> Prop :=
| l_nil : linked prev next N N []
| l_cons x y L : x < N -> nth_error next x = Some y -> x < y -> y <= N ->
    nth_error prev (y - 1) = Some x -> linked prev next N y L -> linked prev next N x (x :: L).

Definition AInv (a : active) (L : list nat) : Prop :=
  length (a_prev a) = length (a_next a)
  /\ linked (a_prev a) (a_next a) (length (a_next a)) (a_start a) L
  /\ (forall i, i < length (a_next a) -> ~ In i L -> nth_error (a_next a) i = Some 0).

Lemma linked_bounds prev next N cur L : linked prev next N cur L ->
  cur <= N /\ (forall x, In x L -> cur <= x /\ x < N) /\ (L = [] <-> cur = N).
Proof.
  induction 1 as [|x y L Hx Hn Hxy Hy Hp Hl IH].
  - split; [lia|]. split; [intros x []|]. split; reflexivity.
  - destruct IH as (I1 & I2 & I3). split; [lia|]. split.
    + intros z [<-|Hz]; [lia|]. apply I2 in Hz. lia.
    + split; [discriminate|lia].
Qed.

Lemma linked_head prev next N cur L : linked prev next N cur L -> cur < N -> exists L', L = cur :: L'.
Proof. destruct 1; [lia|]. intros _. eexists; reflexivity. Qed.

Lemma linked_sorted prev next N cur L : linked prev next N cur L -> StronglySorted lt L.
Proof.
  induction 1 as [|x y L Hx Hn Hxy Hy Hp Hl IH]; constructor; [exact IH|].
  apply Forall_forall. intros z Hz. apply (linked_bounds Hl) in Hz. lia.
Qed.

Lemma linked_length prev next N cur L : linked prev next N cur L -> cur + length L <= N.
Proof. induction 1; cbn; lia. Qed.

(* the list of live indices of a freshly reset list *)
Lemma linked_canonical (N k : nat) : k <= N ->
  linked (map (fun i => i) (seq 0 N)) (map (fun i => i + 1) (seq 0 N)) N k (seq k (N - k)).
Proof.
  intros Hk. remember (N - k) as r eqn:Er. revert k Hk Er.
  induction r as [|r IH]; intros k Hk Er.
  - assert (k = N) by lia. subst. constructor.
  - cbn [seq]. apply l_cons with (y := S k); try lia.
    + rewrite nth_error_map, (nth_error_nth' _ 0) by (rewrite seq_length; lia).
      rewrite seq_nth by lia. cbn. f_equal. lia.
    + replace (S k - 1) with k by lia.
      rewrite nth_error_map, (nth_error_nth' _ 0) by (rewrite seq_length; lia).
      rewrite seq_nth by lia. reflexivity.
    + apply IH; lia.
Qed.

Theorem a_reset_inv (a : active) (len : nat) : AInv (a_reset a len) (seq 0 len).
Proof.
  rewrite a_reset_canonical. unfold AInv, a_canonical. cbn [a_start a_prev a_next].
  rewrite !map_length, !seq_length. split; [reflexivity|]. split.
  - pose proof (@linked_canonical len 0 ltac:(lia)) as H. rewrite Nat.sub_0_r in H. exact H.
  - intros i Hi Hn. exfalso. apply Hn. apply in_seq. lia.
Qed.

(* ---- iteration --------------------------------------------------------- *)
(* elements of an increasing list below a bound *)
Fixpoint take_below (hi : nat) (L : list nat) : list nat :=
  match L with
  | [] => []
  | x :: t => if x <? hi then x :: take_below hi t else []
  end.

Lemma walk_linked prev next N cur L hi fuel :
  linked prev next N cur L -> N = length next -> length L < fuel ->
  a_walk fuel next cur hi = Ok (take_below hi L).
Proof.
  intros Hl. revert fuel. induction Hl as [|x y L Hx Hn Hxy Hy Hp Hl IH]; intros fuel HN Hf.
  - destruct fuel as [|f]; [cbn in Hf; lia|]. cbn [a_walk take_below].
    destruct (Nat.leb_spec (length next) N); [|lia]. rewrite Bool.orb_true_r. reflexivity.
  - destruct fuel as [|f]; [cbn in Hf; lia|]. cbn [a_walk take_below].
    destruct (Nat.leb_spec (length next) x); [lia|]. rewrite Bool.orb_false_r.
    destruct (Nat.leb_spec hi x) as [Hhi|Hhi].
    + destruct (Nat.ltb_spec x hi); [lia|reflexivity].
    + destruct (Nat.ltb_spec x hi); [|lia]. unfold vget. rewrite Hn. cbn [bind].
      rewrite IH by (cbn in Hf; lia). reflexivity.
Qed.

Lemma take_below_all hi L : (forall x, In x L -> x < hi) -> take_below hi L = L.
Proof.
  induction L as [|x t IH]; intros H; [reflexivity|]. cbn [take_below].
  destruct (Nat.ltb_spec x hi); [|specialize (H x (or_introl eq_refl)); lia].
  f_equal. apply IH. intros z Hz. apply H. right. exact Hz.
Qed.

Theorem a_iter_spec (a : active) (L : list nat) : AInv a L -> a_iter a = Ok L.
Proof.
  intros (Hlen & Hl & Hdead). unfold a_iter.
  rewrite (@walk_linked _ _ _ _ _ (length (a_next a)) (S (length (a_next a))) Hl eq_refl).
  - f_equal. apply take_below_all. intros x Hx. apply (linked_bounds Hl) in Hx. lia.
  - pose proof (linked_length Hl). lia.
Qed.

(* contains: next[i] > 0 exactly for live i *)
Lemma linked_next_pos prev next N cur L x : linked prev next N cur L -> In x L ->
  exists y, nth_error next x = Some y /\ x < y.
Proof.
  induction 1 as [|x0 y L Hx Hn Hxy Hy Hp Hl IH]; intros Hin; [destruct Hin|].
  destruct Hin as [<-|Hin]; [exists y; split; assumption|apply IH; exact Hin].
Qed.

Theorem a_contains_spec (a : active) (L : list nat) (i : nat) :
  AInv a L -> i < length (a_next a) ->
  a_contains a i = Ok (if in_dec Nat.eq_dec i L then true else false).
Proof.
  intros (Hlen & Hl & Hdead) Hi. unfold a_contains, vget.
  destruct (in_dec Nat.eq_dec i L) as [Hin|Hnin].
  - destruct (@linked_next_pos _ _ _ _ _ i Hl Hin) as (y & Hy & Hlt). rewrite Hy. cbn [bind]. f_equal.
    apply Nat.ltb_lt. lia.
  - rewrite (Hdead i Hi Hnin). reflexivity.
Qed.

(* ---- ranges ------------------------------------------------------------ *)
Lemma filter_all {A} (f : A -> bool) (l : list A) : (forall x, In x l -> f x = true) -> filter f l = l.
Proof.
  induction l as [|x t IH]; intros H; [reflexivity|]. cbn [filter].
  rewrite (H x (or_introl eq_refl)). f_equal. apply IH. intros z Hz. apply H. right. exact Hz.
Qed.

Lemma filter_none {A} (f : A -> bool) (l : list A) : (forall x, In x l -> f x = false) -> filter f l = [].
Proof.
  induction l as [|x t IH]; intros H; [reflexivity|]. cbn [filter].
  rewrite (H x (or_introl eq_refl)). apply IH. intros z Hz. apply H. right. exact Hz.
Qed.

Lemma take_below_filter hi L : StronglySorted lt L -> take_below hi L = filter (fun z => z <? hi) L.
Proof.
  induction 1 as [|x t Hs IH Hall]; [reflexivity|]. cbn [take_below filter].
  destruct (Nat.ltb_spec x hi) as [Hx|Hx]; [rewrite IH; reflexivity|].
  symmetry. apply filter_none. intros z Hz. rewrite Forall_forall in Hall. specialize (Hall z Hz).
  apply Nat.ltb_ge. lia.
Qed.

(* following the links from a live x yields the live elements >= x *)
Lemma linked_suffix prev next N cur L x : linked prev next N cur L -> In x L ->
  linked prev next N x (filter (fun z => x <=? z) L).
Proof.
  induction 1 as [|x0 y L Hx Hn Hxy Hy Hp Hl IH]; intros Hin; [destruct Hin|].
  assert (B := linked_bounds Hl). destruct B as (_ & B & _).
  cbn [filter]. destruct Hin as [<-|Hin].
  - rewrite Nat.leb_refl. rewrite filter_all.
    + apply l_cons with (y := y); assumption.
    + intros z Hz. apply B in Hz. apply Nat.leb_le. lia.
  - pose proof (B x Hin) as Bx. destruct (Nat.leb_spec x x0); [lia|]. apply IH. exact Hin.
Qed.

(* skip_dead: the least live index >= start, or N *)
Lemma skip_dead_spec (a : active) (L : list nat) : AInv a L ->
  forall k start fuel, start + k = length (a_next a) -> k < fuel ->
  exists c, a_skip_dead fuel (a_next a) start = Ok c
    /\ start <= c /\ (c = length (a_next a) \/ In c L)
    /\ (forall z, In z L -> start <= z -> c <= z).
Proof.
  intros (Hlen & Hl & Hdead). induction k as [|k IH]; intros start fuel Hk Hf.
  - destruct fuel as [|f]; [lia|]. exists start. cbn [a_skip_dead].
    destruct (Nat.leb_spec (length (a_next a)) start); [|lia].
    repeat split; lia.
  - destruct fuel as [|f]; [lia|]. cbn [a_skip_dead].
    destruct (Nat.leb_spec (length (a_next a)) start); [lia|].
    destruct (in_dec Nat.eq_dec start L) as [Hin|Hnin].
    + destruct (@linked_next_pos _ _ _ _ _ start Hl Hin) as (y & Hy & Hlt).
      unfold vget. rewrite Hy. cbn [bind]. destruct (Nat.ltb_spec 0 y); [|lia].
      exists start. repeat split; try lia. right. exact Hin.
    + unfold vget. rewrite (Hdead start ltac:(lia) Hnin). cbn [bind Nat.ltb Nat.leb].
      destruct (IH (S start) f ltac:(lia) ltac:(lia)) as (c & Hc & H1 & H2 & H3).
      exists c. repeat split; try assumption; try lia.
      intros z Hz Hsz. apply H3; [exact Hz|]. destruct (Nat.eq_dec z start); [subst; contradiction|lia].
Qed.

Definition in_range (lo hi : nat) (z : nat) : bool := (lo <=? z) && (z <? hi).

Definition lo_of (a : active) (b : bound) : nat :=
  match b with Unb => a_start a | Incl i => i | Excl i => i + 1 end.
Definition hi_of (a : active) (b : bound) : nat :=
  match b with Unb => length (a_next a) | Incl i => i + 1 | Excl i => i end.

(* range(lo..hi) iterates over exactly the live indices in [lo, hi), in
   increasing order (and panics only through its two assertions) *)
Lemma filter_filter' {A} (f g : A -> bool) (l : list A) :
  filter f (filter g l) = filter (fun z => g z && f z) l.
Proof.
  induction l as [|x t IH]; [reflexivity|]. cbn [filter].
  destruct (g x); cbn [filter andb]; [destruct (f x); rewrite IH; reflexivity|exact IH].
Qed.

Theorem a_range_spec (a : active) (L : list nat) (lo hi : bound) :
  AInv a L -> lo_of a lo <= length (a_next a) -> hi_of a hi <= length (a_next a) ->
  a_range a lo hi = Ok (filter (in_range (lo_of a lo) (hi_of a hi)) L).
Proof.
  intros HI Hlo Hhi. pose proof HI as (Hlen & Hl & Hdead).
  unfold a_range. fold (lo_of a lo). fold (hi_of a hi).
  unfold assert_. destruct (Nat.leb_spec (lo_of a lo) (length (a_next a))); [|lia].
  destruct (Nat.leb_spec (hi_of a hi) (length (a_next a))); [|lia]. cbn [bind].
  set (start1 := if lo_of a lo <? a_start a then a_start a else lo_of a lo).
  assert (Hs1 : start1 <= length (a_next a)).
  { unfold start1. destruct (Nat.ltb_spec (lo_of a lo) (a_start a)); [|lia].
    exact (proj1 (linked_bounds Hl)). }
  destruct (@skip_dead_spec a L HI (length (a_next a) - start1) start1 (S (length (a_next a))) ltac:(lia) ltac:(lia))
    as (c & Hc & Hc1 & Hc2 & Hc3).
  rewrite Hc. cbn [bind].
  assert (Hge : forall z, In z L -> a_start a <= z /\ z < length (a_next a)).
  { intros z Hz. apply (linked_bounds Hl) in Hz. lia. }
  assert (Hsame : filter (in_range (lo_of a lo) (hi_of a hi)) L
                  = filter (fun z => z <? hi_of a hi) (filter (fun z => c <=? z) L)).
  { rewrite filter_filter'. apply filter_ext_in. intros z Hz. unfold in_range.
    destruct (Hge z Hz) as [G1 G2].
    assert (E : (lo_of a lo <=? z) = (c <=? z)).
    { destruct (Nat.leb_spec (lo_of a lo) z) as [Hlz|Hlz], (Nat.leb_spec c z) as [Hcz|Hcz]; try reflexivity; exfalso.
      - assert (H1 : start1 <= z) by (unfold start1; destruct (Nat.ltb_spec (lo_of a lo) (a_start a)); lia).
        specialize (Hc3 z Hz H1). lia.
      - unfold start1 in Hc1. destruct (Nat.ltb_spec (lo_of a lo) (a_start a)); lia. }
    rewrite E. reflexivity. }
  rewrite Hsame.
  assert (Hlc : linked (a_prev a) (a_next a) (length (a_next a)) c (filter (fun z => c <=? z) L)).
  { destruct Hc2 as [->|Hin].
    - rewrite filter_none; [constructor|]. intros z Hz. apply Hge in Hz. apply Nat.leb_gt. lia.
    - apply linked_suffix with (cur := a_start a); assumption. }
  rewrite (@walk_linked _ _ _ _ _ (hi_of a hi) (S (length (a_next a))) Hlc eq_refl).
  - f_equal. apply take_below_filter. eapply linked_sorted. exact Hlc.
  - pose proof (linked_length Hlc). lia.
Qed.

(* ---- removal ----------------------------------------------------------- *)
Definition without (i : nat) (L : list nat) : list nat := filter (fun z => negb (z =? i)) L.

Lemma linked_frame prev next prev' next' N cur L :
  linked prev next N cur L ->
  (forall z, In z L -> nth_error next' z = nth_error next z) ->
  (forall k, cur <= k -> nth_error prev' k = nth_error prev k) ->
  linked prev' next' N cur L.
Proof.
  induction 1 as [|x y L Hx Hn Hxy Hy Hp Hl IH]; intros Hnext Hprev; [constructor|].
  apply l_cons with (y := y); try assumption.
  - rewrite Hnext by (left; reflexivity). exact Hn.
  - rewrite Hprev by lia. exact Hp.
  - apply IH.
    + intros z Hz. apply Hnext. right. exact Hz.
    + intros k Hk. apply Hprev. lia.
Qed.

Lemma nth_error_set_nth_eq {A} (l : list A) i v : i < length l -> nth_error (set_nth l i v) i = Some v.
Proof. intros H. rewrite nth_error_set_nth, Nat.eqb_refl. destruct (Nat.ltb_spec i (length l)); [reflexivity|lia]. Qed.

Lemma nth_error_set_nth_neq {A} (l : list A) i j v : j <> i -> nth_error (set_nth l i v) j = nth_error l j.
Proof. intros H. rewrite nth_error_set_nth. destruct (Nat.eqb_spec j i); [contradiction|reflexivity]. Qed.

Lemma without_above i L : (forall z, In z L -> i < z) -> without i L = L.
Proof.
  intros H. apply filter_all. intros z Hz. apply H in Hz. destruct (Nat.eqb_spec z i); [lia|reflexivity].
Qed.

Lemma linked_inv_cons prev next N cur x L : linked prev next N cur (x :: L) ->
  x = cur /\ cur < N /\ exists y, nth_error next cur = Some y /\ cur < y /\ y <= N
    /\ nth_error prev (y - 1) = Some cur /\ linked prev next N y L.
Proof.
  inversion 1; subst. split; [reflexivity|]. split; [assumption|]. eexists. repeat split; eassumption.
Qed.

Lemma remove_mid prev next N cur L i :
  length prev = N -> length next = N ->
  linked prev next N cur L -> In i L -> i <> cur ->
  exists pi ni, nth_error prev (i - 1) = Some pi /\ nth_error next i = Some ni
    /\ cur <= pi /\ pi < i /\ i < ni /\ ni <= N /\ In pi L
    /\ linked (set_nth prev (ni - 1) pi) (set_nth (set_nth next pi ni) i 0) N cur (without i L).
Proof.
  intros Hlp Hln Hl. induction Hl as [|x y1 L1 Hx Hn Hxy Hy Hp Hl1 IH]; intros Hin Hne; [destruct Hin|].
  destruct Hin as [->|Hin]; [contradiction|].
  assert (B1 := linked_bounds Hl1). destruct B1 as (_ & B1 & _).
  unfold without. cbn [filter]. destruct (Nat.eqb_spec x i) as [->|_]; [contradiction|]. cbn [negb].
  destruct (Nat.eq_dec y1 i) as [->|Hy1].
  - (* x is the predecessor of i *)
    destruct L1 as [|i' L2]; [destruct Hin|].
    destruct (linked_inv_cons Hl1) as (-> & Hi & ni & Hni & Hini & HniN & Hpni & Hl2).
    exists x, ni. assert (B2 := linked_bounds Hl2). destruct B2 as (_ & B2 & _).
    repeat split; try assumption; try lia; [left; reflexivity|].
    cbn [filter]. rewrite Nat.eqb_refl. cbn [negb].
    fold (without i L2). rewrite without_above by (intros z Hz; apply B2 in Hz; lia).
    apply l_cons with (y := ni); try lia.
    + rewrite nth_error_set_nth_neq by lia. apply nth_error_set_nth_eq. lia.
    + apply nth_error_set_nth_eq. lia.
    + apply linked_frame with (prev := prev) (next := next); [exact Hl2| |].
      * intros z Hz. apply B2 in Hz. rewrite !nth_error_set_nth_neq by lia. reflexivity.
      * intros k Hk. rewrite nth_error_set_nth_neq by lia. reflexivity.
  - (* i is further down *)
    assert (Hi1 : y1 < i) by (apply B1 in Hin; lia).
    destruct (IH Hin ltac:(lia)) as (pi & ni & H1 & H2 & H3 & H4 & H5 & H6 & H7 & H8).
    exists pi, ni. repeat split; try assumption; try lia; [right; exact H7|].
    apply l_cons with (y := y1); try assumption.
    + rewrite !nth_error_set_nth_neq by lia. exact Hn.
    + rewrite nth_error_set_nth_neq by lia. exact Hp.
Qed.

Theorem a_remove_spec (a : active) (L : list nat) (i : nat) :
  AInv a L -> i < length (a_next a) ->
  exists a', a_remove a i = Ok a' /\ AInv a' (without i L) /\ length (a_next a') = length (a_next a).
Proof.
  intros HI Hi. pose proof HI as (Hlen & Hl & Hdead).
  unfold a_remove. rewrite (a_contains_spec HI Hi).
  destruct (in_dec Nat.eq_dec i L) as [Hin|Hnin]; cbn [bind negb].
  2:{ exists a. split; [reflexivity|]. split; [|reflexivity].
      unfold without. rewrite filter_all; [exact HI|].
      intros z Hz. destruct (Nat.eqb_spec z i); [subst; contradiction|reflexivity]. }
  destruct (Nat.eqb_spec i (a_start a)) as [Hs|Hs].
  - (* removing the first live element *)
    destruct L as [|x L']; [destruct Hin|].
    destruct (linked_inv_cons Hl) as (Ex & Hx & y & Hn & Hxy & Hy & Hp & Hl'). subst x.
    rewrite <- Hs in *. unfold vget, vset. rewrite Hn. cbn [bind].
    destruct (Nat.ltb_spec i (length (a_next a))); [|lia]. cbn [bind].
    eexists. split; [reflexivity|].
    assert (B := linked_bounds Hl'). destruct B as (_ & B & _).
    unfold AInv. cbn [a_start a_prev a_next]. rewrite set_nth_length. split; [|reflexivity]. split; [exact Hlen|]. split.
    + unfold without. cbn [filter]. rewrite Nat.eqb_refl. cbn [negb]. fold (without i L').
      rewrite without_above by (intros z Hz; apply B in Hz; lia).
      apply linked_frame with (prev := a_prev a) (next := a_next a); [exact Hl'| |reflexivity].
      intros z Hz. apply B in Hz. apply nth_error_set_nth_neq. lia.
    + intros k Hk Hnk. destruct (Nat.eq_dec k i) as [->|Hki]; [apply nth_error_set_nth_eq; lia|].
      rewrite nth_error_set_nth_neq by exact Hki. apply Hdead; [exact Hk|].
      intros [->|Hk']; [contradiction|]. apply Hnk. unfold without. apply filter_In. split; [right; exact Hk'|].
      destruct (Nat.eqb_spec k i); [contradiction|reflexivity].
  - (* removing an inner element *)
    destruct (@remove_mid _ _ _ _ _ i Hlen eq_refl Hl Hin Hs) as (pi & ni & H1 & H2 & H3 & H4 & H5 & H6 & H7 & H8).
    unfold assert_. destruct (Nat.ltb_spec (a_start a) i); [|lia]. cbn [bind].
    unfold vget, vset. rewrite H1, H2. cbn [bind].
    destruct (Nat.ltb_spec (ni - 1) (length (a_prev a))); [|lia]. cbn [bind].
    destruct (Nat.ltb_spec pi (length (a_next a))); [|lia]. cbn [bind].
    rewrite set_nth_length. destruct (Nat.ltb_spec i (length (a_next a))); [|lia]. cbn [bind].
    eexists. split; [reflexivity|].
    unfold AInv. cbn [a_start a_prev a_next]. rewrite !set_nth_length. split; [|reflexivity].
    split; [exact Hlen|]. split; [exact H8|].
    intros k Hk Hnk. destruct (Nat.eq_dec k i) as [->|Hki].
    + apply nth_error_set_nth_eq. rewrite set_nth_length. lia.
    + rewrite nth_error_set_nth_neq by exact Hki.
      assert (Hk' : ~ In k L).
      { intros HkL. apply Hnk. unfold without. apply filter_In. split; [exact HkL|].
        destruct (Nat.eqb_spec k i); [contradiction|reflexivity]. }
      assert (k <> pi) by (intros ->; contradiction).
      rewrite nth_error_set_nth_neq by assumption. apply Hdead; assumption.
Qed.

Lemma without_length i L : NoDup L -> In i L -> S (length (without i L)) = length L.
Proof.
  induction L as [|x t IH]; intros Hnd Hin; [destruct Hin|].
  inversion Hnd; subst. unfold without. cbn [filter].
  destruct (Nat.eqb_spec x i) as [->|Hne]; cbn [negb length].
  - f_equal. fold (without i t). unfold without. apply f_equal. apply filter_all.
    intros z Hz. destruct (Nat.eqb_spec z i); [subst; contradiction|reflexivity].
  - destruct Hin as [->|Hin]; [contradiction|]. f_equal. apply IH; assumption.
Qed.
