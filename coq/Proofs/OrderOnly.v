(* C10 (and the selection part of C09): single and complete linkage depend
   only on the order of the input values.  Corollary of the abstraction
   theorem of the model (Proofs/Param.v). *)
From Param Require Import Param.
Require Import KV.Model.Prelude KV.Model.Condensed KV.Model.Active KV.Model.Heap
  KV.Model.UnionFind KV.Model.Dendrogram KV.Model.Methods KV.Model.State
  KV.Model.Primitive KV.Model.Mst KV.Model.Chain KV.Model.Generic KV.Model.Linkage
  KV.Model.History KV.Proofs.Param KV.Proofs.Purity.

Parametricity Recursive st_new.
Parametricity Recursive d_new.

Set Implicit Arguments.

Section OrderOnly.
Variables T1 T2 : Type.
Variable g : T1 -> T2.
Variable V : T1 -> Prop.            (* the values that may occur *)

Definition TR (x : T1) (y : T2) : Type := (V x * (y = g x))%type.

(* mapping results through g *)
Definition map_step (s : step T1) : step T2 :=
  {| s_c1 := s_c1 s; s_c2 := s_c2 s; s_dis := g (s_dis s); s_size := s_size s |}.
Definition map_dend (d : dend T1) : dend T2 :=
  {| d_steps := map map_step (d_steps d); d_obs := d_obs d |}.
Definition map_out (r : res (dend T1 * list T1)) : res (dend T2 * list T2) :=
  match r with
  | Ok (d, m) => Ok (map_dend d, map g m)
  | Panic k => Panic k
  | OutOfFuel => OutOfFuel
  end.

Lemma list_R_of_map (l : list T1) : Forall V l -> list_R T1 T2 TR l (map g l).
Proof.
  induction l as [|x t IH]; intros H; cbn; constructor.
  - split; [exact (Forall_inv H)|reflexivity].
  - apply IH. exact (Forall_inv_tail H).
Qed.

Lemma list_R_is_map (l1 : list T1) (l2 : list T2) : list_R T1 T2 TR l1 l2 -> l2 = map g l1.
Proof. induction 1 as [|x y [_ ->] l1 l2 _ IH]; cbn; congruence. Qed.

Lemma step_R_is_map (s1 : step T1) (s2 : step T2) : step_R T1 T2 TR s1 s2 -> s2 = map_step s1.
Proof.
  destruct 1 as [a1 a2 Ha b1 b2 Hb x y [_ ->] z1 z2 Hz].
  apply nat_R_eq in Ha, Hb, Hz. subst. reflexivity.
Qed.

Lemma steps_R_is_map (l1 : list (step T1)) (l2 : list (step T2)) :
  list_R _ _ (step_R T1 T2 TR) l1 l2 -> l2 = map map_step l1.
Proof. induction 1 as [|x y H l1 l2 _ IH]; cbn; [reflexivity|]. rewrite (step_R_is_map H), IH. reflexivity. Qed.

Lemma dend_R_is_map (d1 : dend T1) (d2 : dend T2) : dend_R T1 T2 TR d1 d2 -> d2 = map_dend d1.
Proof.
  destruct 1 as [l1 l2 Hl o1 o2 Ho]. apply nat_R_eq in Ho. subst.
  unfold map_dend. cbn. rewrite (steps_R_is_map Hl). reflexivity.
Qed.

Lemma panic_kind_R_eq k1 k2 : panic_kind_R k1 k2 -> k1 = k2.
Proof. destruct 1; reflexivity. Qed.

Lemma res_R_out (r1 : res (lstate T1 * dend T1 * list T1)) (r2 : res (lstate T2 * dend T2 * list T2)) :
  res_R _ _ (prod_R _ _ (prod_R _ _ (lstate_R T1 T2 TR) _ _ (dend_R T1 T2 TR)) _ _ (list_R T1 T2 TR)) r1 r2 ->
  out_of r2 = map_out (out_of r1).
Proof.
  destruct 1 as [a1 a2 Ha|k1 k2 Hk|]; cbn.
  - destruct Ha as [q1 q2 Hq m1 m2 Hm]. destruct Hq as [s1 s2 Hs d1 d2 Hd]. cbn.
    rewrite (dend_R_is_map Hd), (list_R_is_map Hm). reflexivity.
  - rewrite (panic_kind_R_eq Hk). reflexivity.
  - reflexivity.
Qed.

(* ---- the selection instances ------------------------------------------- *)
Variables (ltb1 eqb1 : T1 -> T1 -> bool) (max1 inf1 : T1).
Variables (ltb2 eqb2 : T2 -> T2 -> bool) (max2 inf2 : T2).

Definition sel_kops {T} (ltb eqb : T -> T -> bool) (mx inf : T) (complete : bool) : kops T :=
  {| k_ltb := ltb; k_eqb := eqb; k_max := mx; k_inf := inf;
     k_upd := fun a b _ _ _ _ => if complete then (if ltb b a then a else b) else (if ltb a b then a else b);
     k_sq := fun x => x; k_rt := fun x => x |}.

(* g preserves the comparisons on the values that occur, and maps the two
   sentinels to the sentinels *)
Hypothesis Hlt : forall x y, V x -> V y -> ltb2 (g x) (g y) = ltb1 x y.
Hypothesis Heq : forall x y, V x -> V y -> eqb2 (g x) (g y) = eqb1 x y.
Hypothesis Hmax : V max1 /\ max2 = g max1.
Hypothesis Hinf : V inf1 /\ inf2 = g inf1.

Lemma sel_kops_R (c : bool) :
  kops_R T1 T2 TR (sel_kops ltb1 eqb1 max1 inf1 c) (sel_kops ltb2 eqb2 max2 inf2 c).
Proof.
  constructor.
  - intros x1 x2 [Vx ->] y1 y2 [Vy ->]. rewrite Hlt by assumption. apply bool_R_refl.
  - intros x1 x2 [Vx ->] y1 y2 [Vy ->]. rewrite Heq by assumption. apply bool_R_refl.
  - destruct Hmax as [Vm ->]. split; [assumption|reflexivity].
  - destruct Hinf as [Vi ->]. split; [assumption|reflexivity].
  - intros a1 a2 [Va ->] b1 b2 [Vb ->] md1 md2 _ sa1 sa2 _ sb1 sb2 _ sx1 sx2 _.
    destruct c.
    + rewrite Hlt by assumption. destruct (ltb1 b1 a1); split; try assumption; reflexivity.
    + rewrite Hlt by assumption. destruct (ltb1 a1 b1); split; try assumption; reflexivity.
  - intros x1 x2 H. exact H.
  - intros x1 x2 H. exact H.
Qed.

Variable p : profile.

Lemma profile_R_refl (q : profile) : profile_R q q.
Proof. destruct q; constructor. Qed.
Lemma method_R_refl (m : method) : method_R m m.
Proof. destruct m; constructor. Qed.

Notation K1 c := (sel_kops ltb1 eqb1 max1 inf1 c).
Notation K2 c := (sel_kops ltb2 eqb2 max2 inf2 c).

Section PerRun.
Variables (c : bool) (meth : method) (m : list T1) (n : N).
Hypothesis Hm : Forall V m.

Let sR := st_new_R T1 T2 TR.
Let dR := d_new_R T1 T2 TR 0 0 nat_R_O_R.

Theorem primitive_order_only :
  out_of (primitive_with (K2 c) p meth (st_new T2) (d_new T2 0) (map g m) n)
  = map_out (out_of (primitive_with (K1 c) p meth (st_new T1) (d_new T1 0) m n)).
Proof.
  apply res_R_out.
  exact (primitive_with_R T1 T2 TR _ _ (sel_kops_R c) p p (profile_R_refl p) meth meth (method_R_refl meth)
           _ _ sR _ _ dR _ _ (list_R_of_map Hm) n n (N_R_refl n)).
Qed.

Theorem mst_order_only :
  out_of (mst_with (K2 c) p (st_new T2) (d_new T2 0) (map g m) n)
  = map_out (out_of (mst_with (K1 c) p (st_new T1) (d_new T1 0) m n)).
Proof.
  apply res_R_out.
  exact (mst_with_R T1 T2 TR _ _ (sel_kops_R c) p p (profile_R_refl p)
           _ _ sR _ _ dR _ _ (list_R_of_map Hm) n n (N_R_refl n)).
Qed.

Theorem nnchain_order_only :
  out_of (nnchain_with (K2 c) p meth (st_new T2) (d_new T2 0) (map g m) n)
  = map_out (out_of (nnchain_with (K1 c) p meth (st_new T1) (d_new T1 0) m n)).
Proof.
  apply res_R_out.
  exact (nnchain_with_R T1 T2 TR _ _ (sel_kops_R c) p p (profile_R_refl p) meth meth (method_R_refl meth)
           _ _ sR _ _ dR _ _ (list_R_of_map Hm) n n (N_R_refl n)).
Qed.

Theorem generic_order_only :
  out_of (generic_with (K2 c) p meth (st_new T2) (d_new T2 0) (map g m) n)
  = map_out (out_of (generic_with (K1 c) p meth (st_new T1) (d_new T1 0) m n)).
Proof.
  apply res_R_out.
  exact (generic_with_R T1 T2 TR _ _ (sel_kops_R c) p p (profile_R_refl p) meth meth (method_R_refl meth)
           _ _ sR _ _ dR _ _ (list_R_of_map Hm) n n (N_R_refl n)).
Qed.

End PerRun.
End OrderOnly.

(* ---- all entry points, through run_with -------------------------------- *)
Section RunWith.
Variables T1 T2 : Type.
Variable g : T1 -> T2.
Variable V : T1 -> Prop.
Variables (F1 : fops T1) (F2 : fops T2).
Variable p : profile.

Hypothesis Hlt : forall x y, V x -> V y -> f_ltb F2 (g x) (g y) = f_ltb F1 x y.
Hypothesis Heq : forall x y, V x -> V y -> f_eqb F2 (g x) (g y) = f_eqb F1 x y.
Hypothesis Hmax : V (f_max F1) /\ f_max F2 = g (f_max F1).
Hypothesis Hinf : V (f_inf F1) /\ f_inf F2 = g (f_inf F1).

Lemma kops_single {T} (F : fops T) :
  kops_of F Single = sel_kops (f_ltb F) (f_eqb F) (f_max F) (f_inf F) false.
Proof. reflexivity. Qed.
Lemma kops_complete {T} (F : fops T) :
  kops_of F Complete = sel_kops (f_ltb F) (f_eqb F) (f_max F) (f_inf F) true.
Proof. reflexivity. Qed.

(* Single and complete linkage, every entry point that accepts the method,
   ANY scratch states on either side, any n and matrix (ties included),
   possibly different float types on the two sides: applying g to the input
   applies g to every reported dissimilarity and to the matrix left behind,
   and changes nothing else (labels, sizes, order, panics). *)
Theorem order_only (a : algo) (meth : method) (m : list T1) (n : N)
  (s1 : lstate T1) (d1 : dend T1) (s2 : lstate T2) (d2 : dend T2) :
  meth = Single \/ meth = Complete -> Forall V m ->
  out_of (run_with F2 p a meth s2 d2 (map g m) n)
  = map_out g (out_of (run_with F1 p a meth s1 d1 m n)).
Proof.
  intros Hmeth Hm.
  rewrite (with_pure p F2 a meth s2 (st_new T2) d2 (d_new T2 0)).
  rewrite (with_pure p F1 a meth s1 (st_new T1) d1 (d_new T1 0)).
  destruct a; cbn [run_with]; unfold linkage_with;
    destruct Hmeth as [-> | ->]; cbn [chain_capable]; rewrite ?kops_single, ?kops_complete.
  - exact (@mst_order_only T1 T2 g V _ _ _ _ _ _ _ _ Hlt Heq Hmax Hinf p _ m n Hm).
  - exact (@nnchain_order_only T1 T2 g V _ _ _ _ _ _ _ _ Hlt Heq Hmax Hinf p _ _ m n Hm).
  - exact (@mst_order_only T1 T2 g V _ _ _ _ _ _ _ _ Hlt Heq Hmax Hinf p _ m n Hm).
  - exact (@mst_order_only T1 T2 g V _ _ _ _ _ _ _ _ Hlt Heq Hmax Hinf p _ m n Hm).
  - exact (@nnchain_order_only T1 T2 g V _ _ _ _ _ _ _ _ Hlt Heq Hmax Hinf p _ _ m n Hm).
  - exact (@nnchain_order_only T1 T2 g V _ _ _ _ _ _ _ _ Hlt Heq Hmax Hinf p _ _ m n Hm).
  - exact (@generic_order_only T1 T2 g V _ _ _ _ _ _ _ _ Hlt Heq Hmax Hinf p _ _ m n Hm).
  - exact (@generic_order_only T1 T2 g V _ _ _ _ _ _ _ _ Hlt Heq Hmax Hinf p _ _ m n Hm).
  - exact (@primitive_order_only T1 T2 g V _ _ _ _ _ _ _ _ Hlt Heq Hmax Hinf p _ _ m n Hm).
  - exact (@primitive_order_only T1 T2 g V _ _ _ _ _ _ _ _ Hlt Heq Hmax Hinf p _ _ m n Hm).
Qed.

End RunWith.

(* ---- general equivariance (used for C09) -------------------------------- *)
(* Any map g that commutes with everything the algorithm does to values (the
   comparisons, the sentinels, the update formula, the square pre-pass and the
   sqrt post-pass) on a set V of values closed under the update commutes with
   the whole run.  Scaling by a power of two is such a map as long as no value
   leaves the range where the float operations are exact-scaling. *)
Section Equivariance.
Variables T1 T2 : Type.
Variable g : T1 -> T2.
Variable V : T1 -> Prop.
Variables (K1 : kops T1) (K2 : kops T2).
Variable p : profile.

Hypothesis Hlt : forall x y, V x -> V y -> k_ltb K2 (g x) (g y) = k_ltb K1 x y.
Hypothesis Heq : forall x y, V x -> V y -> k_eqb K2 (g x) (g y) = k_eqb K1 x y.
Hypothesis Hmax : V (k_max K1) /\ k_max K2 = g (k_max K1).
Hypothesis Hinf : V (k_inf K1) /\ k_inf K2 = g (k_inf K1).
Hypothesis Hupd : forall a b md sa sb sx, V a -> V b -> V md ->
  V (k_upd K1 a b md sa sb sx) /\ k_upd K2 (g a) (g b) (g md) sa sb sx = g (k_upd K1 a b md sa sb sx).
Hypothesis Hsq : forall x, V x -> V (k_sq K1 x) /\ k_sq K2 (g x) = g (k_sq K1 x).
Hypothesis Hrt : forall x, V x -> V (k_rt K1 x) /\ k_rt K2 (g x) = g (k_rt K1 x).

Lemma general_kops_R : kops_R T1 T2 (TR g V) K1 K2.
Proof.
  destruct K1 as [l1 e1 mx1 in1 u1 q1 r1], K2 as [l2 e2 mx2 in2 u2 q2 r2].
  cbn [k_ltb k_eqb k_max k_inf k_upd k_sq k_rt] in *.
  constructor.
  - intros x1 x2 [Vx ->] y1 y2 [Vy ->]. rewrite Hlt by assumption. apply bool_R_refl.
  - intros x1 x2 [Vx ->] y1 y2 [Vy ->]. rewrite Heq by assumption. apply bool_R_refl.
  - destruct Hmax as [Vm E]. rewrite E. split; [assumption|reflexivity].
  - destruct Hinf as [Vi E]. rewrite E. split; [assumption|reflexivity].
  - intros a1 a2 [Va ->] b1 b2 [Vb ->] md1 md2 [Vm ->] sa1 sa2 Hsa sb1 sb2 Hsb sx1 sx2 Hsx.
    apply nat_R_eq in Hsa, Hsb, Hsx. subst.
    destruct (Hupd sa2 sb2 sx2 Va Vb Vm) as [Vu E]. rewrite E. split; [assumption|reflexivity].
  - intros x1 x2 [Vx ->]. destruct (Hsq Vx) as [Vs E]. rewrite E. split; [assumption|reflexivity].
  - intros x1 x2 [Vx ->]. destruct (Hrt Vx) as [Vs E]. rewrite E. split; [assumption|reflexivity].
Qed.

Variables (meth : method) (m : list T1) (n : N).
Hypothesis Hm : Forall V m.

Let sR := st_new_R T1 T2 (TR g V).
Let dR := d_new_R T1 T2 (TR g V) 0 0 nat_R_O_R.

Theorem primitive_equivariant :
  out_of (primitive_with K2 p meth (st_new T2) (d_new T2 0) (map g m) n)
  = map_out g (out_of (primitive_with K1 p meth (st_new T1) (d_new T1 0) m n)).
Proof.
  apply res_R_out with (V := V).
  exact (primitive_with_R T1 T2 (TR g V) _ _ general_kops_R p p (profile_R_refl p) meth meth (method_R_refl meth)
           _ _ sR _ _ dR _ _ (@list_R_of_map T1 T2 g V m Hm) n n (N_R_refl n)).
Qed.

Theorem mst_equivariant :
  out_of (mst_with K2 p (st_new T2) (d_new T2 0) (map g m) n)
  = map_out g (out_of (mst_with K1 p (st_new T1) (d_new T1 0) m n)).
Proof.
  apply res_R_out with (V := V).
  exact (mst_with_R T1 T2 (TR g V) _ _ general_kops_R p p (profile_R_refl p)
           _ _ sR _ _ dR _ _ (@list_R_of_map T1 T2 g V m Hm) n n (N_R_refl n)).
Qed.

Theorem nnchain_equivariant :
  out_of (nnchain_with K2 p meth (st_new T2) (d_new T2 0) (map g m) n)
  = map_out g (out_of (nnchain_with K1 p meth (st_new T1) (d_new T1 0) m n)).
Proof.
  apply res_R_out with (V := V).
  exact (nnchain_with_R T1 T2 (TR g V) _ _ general_kops_R p p (profile_R_refl p) meth meth (method_R_refl meth)
           _ _ sR _ _ dR _ _ (@list_R_of_map T1 T2 g V m Hm) n n (N_R_refl n)).
Qed.

Theorem generic_equivariant :
  out_of (generic_with K2 p meth (st_new T2) (d_new T2 0) (map g m) n)
  = map_out g (out_of (generic_with K1 p meth (st_new T1) (d_new T1 0) m n)).
Proof.
  apply res_R_out with (V := V).
  exact (generic_with_R T1 T2 (TR g V) _ _ general_kops_R p p (profile_R_refl p) meth meth (method_R_refl meth)
           _ _ sR _ _ dR _ _ (@list_R_of_map T1 T2 g V m Hm) n n (N_R_refl n)).
Qed.

End Equivariance.

(* ---- closure: selection methods only ever report input values ----------- *)
Section Closure.
Variable T : Type.
Variable V : T -> Prop.

Lemma list_R_V (l1 l2 : list T) : list_R T T (TR (fun x => x) V) l1 l2 -> Forall V l1.
Proof. induction 1 as [|x y [Vx _] l1 l2 _ IH]; constructor; assumption. Qed.

Lemma steps_R_V (l1 l2 : list (step T)) :
  list_R _ _ (step_R T T (TR (fun x => x) V)) l1 l2 -> Forall (fun s => V (s_dis s)) l1.
Proof.
  induction 1 as [|x y H l1 l2 _ IH]; constructor; [|assumption].
  destruct H as [a1 a2 _ b1 b2 _ u v [Vu _] z1 z2 _]. exact Vu.
Qed.

Definition out_in_V (r : res (dend T * list T)) : Prop :=
  match r with
  | Ok (d, m) => Forall (fun s => V (s_dis s)) (d_steps d) /\ Forall V m
  | _ => True
  end.

Lemma res_R_V (r1 r2 : res (lstate T * dend T * list T)) :
  res_R _ _ (prod_R _ _ (prod_R _ _ (lstate_R T T (TR (fun x => x) V)) _ _ (dend_R T T (TR (fun x => x) V))) _ _
                    (list_R T T (TR (fun x => x) V))) r1 r2 ->
  out_in_V (out_of r1).
Proof.
  destruct 1 as [a1 a2 Ha|k1 k2 Hk|]; cbn; try exact I.
  destruct Ha as [q1 q2 Hq m1 m2 Hm]. destruct Hq as [s1 s2 Hs d1 d2 Hd]. cbn.
  split; [|exact (list_R_V Hm)]. destruct Hd as [l1 l2 Hl o1 o2 Ho]. cbn. exact (steps_R_V Hl).
Qed.

Variable F : fops T.
Variable p : profile.
Hypothesis Vmax : V (f_max F).
Hypothesis Vinf : V (f_inf F).

(* Single and complete linkage, every entry point, any scratch state: every
   reported dissimilarity and every cell left in the caller's matrix is one of
   the input entries or one of the two sentinels - no arithmetic ever touches
   a value (bit-exactness of C04/C10 starts here). *)
Theorem selection_closed (a : algo) (meth : method) (m : list T) (n : N)
  (s : lstate T) (d : dend T) :
  meth = Single \/ meth = Complete -> Forall V m ->
  out_in_V (out_of (run_with F p a meth s d m n)).
Proof.
  intros Hmeth Hm.
  rewrite (with_pure p F a meth s (st_new T) d (d_new T 0)).
  assert (KR : forall c, kops_R T T (TR (fun x => x) V)
                 (sel_kops (f_ltb F) (f_eqb F) (f_max F) (f_inf F) c)
                 (sel_kops (f_ltb F) (f_eqb F) (f_max F) (f_inf F) c)).
  { intros c. apply (@sel_kops_R T T (fun x => x) V); auto. }
  assert (LM : list_R T T (TR (fun x => x) V) m m).
  { pose proof (@list_R_of_map T T (fun x => x) V m Hm) as L. rewrite map_id in L. exact L. }
  pose (sR := st_new_R T T (TR (fun x => x) V)).
  pose (dR := d_new_R T T (TR (fun x => x) V) 0 0 nat_R_O_R).
  destruct a; cbn [run_with]; unfold linkage_with;
    destruct Hmeth as [-> | ->]; cbn [chain_capable]; rewrite ?kops_single, ?kops_complete; eapply res_R_V.
  - exact (mst_with_R T T _ _ _ (KR false) p p (profile_R_refl p) _ _ sR _ _ dR _ _ LM n n (N_R_refl n)).
  - exact (nnchain_with_R T T _ _ _ (KR true) p p (profile_R_refl p) _ _ (method_R_refl Complete) _ _ sR _ _ dR _ _ LM n n (N_R_refl n)).
  - exact (mst_with_R T T _ _ _ (KR false) p p (profile_R_refl p) _ _ sR _ _ dR _ _ LM n n (N_R_refl n)).
  - exact (mst_with_R T T _ _ _ (KR false) p p (profile_R_refl p) _ _ sR _ _ dR _ _ LM n n (N_R_refl n)).
  - exact (nnchain_with_R T T _ _ _ (KR false) p p (profile_R_refl p) _ _ (method_R_refl Single) _ _ sR _ _ dR _ _ LM n n (N_R_refl n)).
  - exact (nnchain_with_R T T _ _ _ (KR true) p p (profile_R_refl p) _ _ (method_R_refl Complete) _ _ sR _ _ dR _ _ LM n n (N_R_refl n)).
  - exact (generic_with_R T T _ _ _ (KR false) p p (profile_R_refl p) _ _ (method_R_refl Single) _ _ sR _ _ dR _ _ LM n n (N_R_refl n)).
  - exact (generic_with_R T T _ _ _ (KR true) p p (profile_R_refl p) _ _ (method_R_refl Complete) _ _ sR _ _ dR _ _ LM n n (N_R_refl n)).
  - exact (primitive_with_R T T _ _ _ (KR false) p p (profile_R_refl p) _ _ (method_R_refl Single) _ _ sR _ _ dR _ _ LM n n (N_R_refl n)).
  - exact (primitive_with_R T T _ _ _ (KR true) p p (profile_R_refl p) _ _ (method_R_refl Complete) _ _ sR _ _ dR _ _ LM n n (N_R_refl n)).
Qed.

End Closure.
