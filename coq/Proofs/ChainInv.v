(* The nearest-neighbour chain of src/chain.rs: loop invariant.

   Under a strict weak order on the carrier and the REDUCIBILITY of the update
   formula (the merged cluster is never closer to a third cluster than the
   nearer of its two parts - true of single/complete for any such order and of
   average/weighted/ward in exact arithmetic), the chain always consists of
   distinct live clusters, each followed by one of its nearest neighbours, at
   strictly decreasing dissimilarities; the inner loop therefore terminates
   well inside its fuel, and every merge joins two distinct live clusters. *)
Require Import KV.Model.Prelude KV.Model.Condensed KV.Model.Active KV.Model.Heap
  KV.Model.UnionFind KV.Model.Dendrogram KV.Model.Methods KV.Model.State KV.Model.Chain
  KV.Proofs.ResetCanon KV.Proofs.ActiveRefine KV.Proofs.CondensedIdx KV.Proofs.SortProofs KV.Proofs.Monotone
  KV.Proofs.MstCost KV.Proofs.PrimitiveGreedy KV.Proofs.PrimitiveWF KV.Proofs.PrimitiveTotal KV.Proofs.UpdateSpec
  KV.Proofs.LWInvariant.
From Coq Require Import Sorting.Sorted.

Set Implicit Arguments.

Lemma vlast1_rev x (l : list nat) : vlast (rev (x :: l)) 1 = Ok x.
Proof.
  unfold vlast, vget. cbn [rev]. rewrite app_length. cbn [length].
  replace (length (rev l) + 1 - 1) with (length (rev l)) by lia.
  rewrite nth_error_app2 by lia. rewrite Nat.sub_diag. reflexivity.
Qed.

Lemma vlast2_rev x y (l : list nat) : vlast (rev (x :: y :: l)) 2 = Ok y.
Proof.
  unfold vlast, vget. cbn [rev]. rewrite !app_length. cbn [length].
  replace (length (rev l) + 1 + 1 - 2) with (length (rev l)) by lia.
  rewrite <- app_assoc. rewrite nth_error_app2 by lia. rewrite Nat.sub_diag. reflexivity.
Qed.

Section ChainInv.
Variable T : Type.
Variable K : kops T.
Variable p : profile.
Hypothesis ltb_irrefl : forall a, k_ltb K a a = false.
Hypothesis ltb_trans : forall a b c, k_ltb K a b = true -> k_ltb K b c = true -> k_ltb K a c = true.
Hypothesis ltb_negtrans : forall a b c, k_ltb K a b = false -> k_ltb K b c = false -> k_ltb K a c = false.

Notation ltb := (k_ltb K).

(* mn' is mn or strictly below it *)
Definition lower (mn' mn : T) : Prop := mn' = mn \/ ltb mn' mn = true.

Lemma lower_refl mn : lower mn mn. Proof. left. reflexivity. Qed.
Lemma lower_trans a b c : lower a b -> lower b c -> lower a c.
Proof.
  intros [->|H1] [->|H2]; [left; reflexivity|right; exact H2|right; exact H1|right; exact (@ltb_trans _ _ _ H1 H2)].
Qed.
Lemma lower_keeps a b v : lower a b -> ltb v b = false -> ltb v a = false.
Proof.
  intros [->|H] Hv; [exact Hv|]. destruct (ltb v a) eqn:C; [|reflexivity].
  rewrite (@ltb_trans _ _ _ C H) in Hv. discriminate.
Qed.

(* ---- the nearest-neighbour scan ---- *)
Lemma nn_scan_spec (M : cmat T) (r c : nat -> nat) (dv : nat -> T) (xs : list nat) :
  (forall x, In x xs -> mget p M (r x) (c x) = Ok (dv x)) ->
  forall mn who, exists mn' who',
    mfold (nn_scan K p M r c) xs (mn, who) = Ok (mn', who')
    /\ (forall x, In x xs -> ltb (dv x) mn' = false)
    /\ lower mn' mn
    /\ ((who' = who /\ mn' = mn) \/ (In who' xs /\ mn' = dv who' /\ ltb mn' mn = true)).
Proof.
  induction xs as [|x xs IH]; intros Hget mn who.
  - exists mn, who. split; [reflexivity|]. split; [intros x []|]. split; [apply lower_refl|left; split; reflexivity].
  - cbn [mfold]. unfold nn_scan at 1. rewrite (Hget x (or_introl eq_refl)). cbn [bind].
    destruct (ltb (dv x) mn) eqn:C.
    + destruct (IH (fun y Hy => Hget y (or_intror Hy)) (dv x) x) as (mn' & who' & Hf & Hall & Hlow & Hwho).
      exists mn', who'. split; [exact Hf|]. split.
      * intros y [<-|Hy]; [|apply Hall; exact Hy]. exact (@lower_keeps _ _ _ Hlow (ltb_irrefl (dv x))).
      * split; [apply lower_trans with (dv x); [exact Hlow|right; exact C]|].
        right. destruct Hwho as [[-> ->]|(Hin & E & Hlt)].
        -- split; [left; reflexivity|]. split; [reflexivity|exact C].
        -- split; [right; exact Hin|]. split; [exact E|exact (@ltb_trans _ _ _ Hlt C)].
    + destruct (IH (fun y Hy => Hget y (or_intror Hy)) mn who) as (mn' & who' & Hf & Hall & Hlow & Hwho).
      exists mn', who'. split; [exact Hf|]. split.
      * intros y [<-|Hy]; [|apply Hall; exact Hy]. exact (@lower_keeps _ _ _ Hlow C).
      * split; [exact Hlow|]. destruct Hwho as [[-> ->]|(Hin & E & Hlt)]; [left; split; reflexivity|].
        right. split; [right; exact Hin|]. split; assumption.
Qed.

(* ---- the working matrix as a symmetric function ---- *)
Variable M : cmat T.
Hypothesis Hwf : wf_mat M.
Variable L : list nat.
Hypothesis HLb : forall x, In x L -> x < m_obs M.

Definition cellv (x y : nat) (v : T) : Prop := wcell M x y = Some v.

Lemma cellv_sym x y v : cellv x y v -> cellv y x v.
Proof. unfold cellv. rewrite wcell_sym. auto. Qed.

Lemma cellv_fun x y v w : cellv x y v -> cellv x y w -> v = w.
Proof. unfold cellv. congruence. Qed.

Lemma cellv_ex x y : x <> y -> x < m_obs M -> y < m_obs M -> exists v, cellv x y v.
Proof. intros. apply (@wcell_some T p M x y Hwf); assumption. Qed.

(* y is a nearest neighbour of x among the live clusters, at dissimilarity v *)
Definition NN (x y : nat) (v : T) : Prop :=
  y <> x /\ cellv x y v /\ forall z w, In z L -> z <> x -> cellv x z w -> ltb w v = false.

(* the chain, top first *)
Inductive cinv : list nat -> Prop :=
| ci_nil : cinv []
| ci_one x : In x L -> cinv [x]
| ci_cons y x rest v : In y L -> NN x y v -> ~ In y (x :: rest) ->
    (forall z rest' w, rest = z :: rest' -> cellv z x w -> ltb v w = true) ->
    cinv (x :: rest) -> cinv (y :: x :: rest).

Lemma cinv_live l : cinv l -> forall c, In c l -> In c L.
Proof. induction 1 as [|x Hx|y x rest v Hy Hnn Hni Hst Hc IH]; intros c Hc'; [destruct Hc'|destruct Hc' as [<-|[]]; exact Hx|].
  destruct Hc' as [<-|Hc']; [exact Hy|apply IH; exact Hc']. Qed.

Lemma cinv_nodup l : cinv l -> NoDup l.
Proof. induction 1 as [|x Hx|y x rest v Hy Hnn Hni Hst Hc IH]; [constructor|constructor; [intros []|constructor]|constructor; assumption]. Qed.

Lemma cinv_tail x l : cinv (x :: l) -> cinv l.
Proof. inversion 1; subst; [constructor|assumption]. Qed.

(* no element below the top can be closer to a live x than the top link allows *)
Lemma cinv_far h rest : cinv (h :: rest) ->
  forall x v, In x L ->
  (forall z rest' w, rest = z :: rest' -> cellv z h w -> ltb v w = true) ->
  forall c, In c rest -> c <> x -> cellv c x v -> False.
Proof.
  revert h. induction rest as [|z rest' IH]; intros h Hc x v Hx Htop c Hin Hne Hcv; [destruct Hin|].
  inversion Hc as [| |y x0 r0 w Hy (Hnz & Hcw & Hmin) Hni Hst Hc']; subst.
  pose proof (Htop z rest' w eq_refl Hcw) as Hvw.
  destruct Hin as [<-|Hin].
  - pose proof (Hmin x v Hx (fun E => Hne (eq_sym E)) Hcv) as Hf. congruence.
  - refine (IH z Hc' x v Hx _ c Hin Hne Hcv).
    intros z2 r2 w2 E Hc2. exact (@ltb_trans _ _ _ Hvw (Hst z2 r2 w2 E Hc2)).
Qed.

Lemma cellv_in x y v : cellv x y v -> In v (m_data M).
Proof. unfold cellv, wcell, mcell. intros H. eapply nth_error_In. exact H. Qed.

Lemma mget_cellv r c : r < c -> c < m_obs M -> exists v, cellv r c v /\ mget p M r c = Ok v.
Proof.
  intros Hrc Hc. destruct (mget_cell p Hwf Hrc Hc) as (v & Hv & Hg). exists v. split; [|exact Hg].
  unfold cellv, wcell. rewrite Nat.min_l, Nat.max_r by lia. exact Hv.
Qed.

(* ---- the inner loop ---- *)
Variable s : lstate T.
Hypothesis HA : AInv (st_active s) L.
Hypothesis HN : length (a_next (st_active s)) = m_obs M.

Lemma below_spec b : b <= m_obs M -> a_below (st_active s) b = Ok (filter (fun z => z <? b) L).
Proof.
  intros Hb. pose proof HA as (Hlen & Hl & Hdead). unfold a_below.
  rewrite (@a_range_spec _ _ Unb (Excl b) HA) by (cbn [lo_of hi_of]; pose proof (proj1 (linked_bounds Hl)); lia).
  cbn [lo_of hi_of]. f_equal. apply filter_ext_in. intros z Hz. unfold in_range.
  apply (linked_bounds Hl) in Hz. destruct (Nat.leb_spec (a_start (st_active s)) z); [reflexivity|lia].
Qed.

(* number of matrix entries strictly below v: the termination measure *)
Definition cnt_lt (v : T) : nat := length (filter (fun w => ltb w v) (m_data M)).

Lemma filter_len_le {A} (f g : A -> bool) (l : list A) :
  (forall x, f x = true -> g x = true) -> length (filter f l) <= length (filter g l).
Proof.
  intros H. induction l as [|x l IH]; [reflexivity|]. cbn [filter].
  destruct (f x) eqn:Ef; [rewrite (H x Ef); cbn [length]; lia|]. destruct (g x); cbn [length]; lia.
Qed.

Lemma filter_len_lt {A} (f g : A -> bool) (l : list A) x :
  (forall y, f y = true -> g y = true) -> In x l -> g x = true -> f x = false ->
  length (filter f l) < length (filter g l).
Proof.
  intros H. induction l as [|y l IH]; intros Hin Hg Hf; [destruct Hin|]. cbn [filter].
  destruct Hin as [->|Hin].
  - rewrite Hg, Hf. cbn [length]. pose proof (filter_len_le f g l H). lia.
  - specialize (IH Hin Hg Hf). destruct (f y) eqn:Ef; [rewrite (H y Ef); cbn [length]; lia|].
    destruct (g y); cbn [length]; lia.
Qed.

Lemma cnt_lt_decr v' v : ltb v' v = true -> In v' (m_data M) -> cnt_lt v' < cnt_lt v.
Proof.
  intros Hlt Hin. unfold cnt_lt. apply filter_len_lt with (x := v').
  - intros w Hw. exact (@ltb_trans _ _ _ Hw Hlt).
  - exact Hin.
  - exact Hlt.
  - apply ltb_irrefl.
Qed.

(* one nearest-neighbour search around b, starting from candidate (mn, a) *)
Lemma nn_search a b mn : In a L -> In b L -> a <> b -> cellv b a mn ->
  exists mn2 a2,
    (do xs1 <- a_below (st_active s) b;
     do acc1 <- mfold (nn_scan K p M (fun x => x) (fun _ => b)) xs1 (mn, a);
     do xs2 <- a_above (st_active s) b;
     mfold (nn_scan K p M (fun _ => b) (fun x => x)) xs2 acc1) = Ok (mn2, a2)
    /\ NN b a2 mn2 /\ In a2 L
    /\ ((a2 = a /\ mn2 = mn) \/ (a2 <> a /\ ltb mn2 mn = true)).
Proof.
  intros Ha Hb Hab Hcab.
  pose proof (HLb b Hb) as Hbn.
  assert (Hble : b <= m_obs M) by lia.
  rewrite (below_spec Hble). cbn [bind].
  set (dv := fun x => match wcell M b x with Some v => v | None => mn end).
  assert (Hdv : forall x v, cellv b x v -> dv x = v) by (intros x v Hv; unfold dv; unfold cellv in Hv; rewrite Hv; reflexivity).
  destruct (@nn_scan_spec M (fun x => x) (fun _ => b) dv (filter (fun z => z <? b) L)) with (mn := mn) (who := a)
    as (m1 & w1 & F1 & All1 & Low1 & Who1).
  { intros x Hx. apply filter_In in Hx. destruct Hx as [Hx Hlt]. apply Nat.ltb_lt in Hlt.
    destruct (mget_cellv Hlt Hbn) as (v & Hv & Hg). rewrite Hg. f_equal. symmetry. apply Hdv. apply cellv_sym. exact Hv. }
  rewrite F1. cbn [bind]. rewrite (@a_above_spec (st_active s) L b HA Hb). cbn [bind].
  destruct (@nn_scan_spec M (fun _ => b) (fun x => x) dv (filter (fun z => b <? z) L)) with (mn := m1) (who := w1)
    as (m2 & w2 & F2 & All2 & Low2 & Who2).
  { intros x Hx. apply filter_In in Hx. destruct Hx as [Hx Hlt]. apply Nat.ltb_lt in Hlt.
    destruct (mget_cellv Hlt (HLb x Hx)) as (v & Hv & Hg). rewrite Hg. f_equal. symmetry. apply Hdv. exact Hv. }
  rewrite F2. exists m2, w2. split; [reflexivity|].
  (* who/min bookkeeping *)
  assert (Hcase : (w2 = a /\ m2 = mn) \/ (In w2 L /\ w2 <> b /\ m2 = dv w2 /\ ltb m2 mn = true)).
  { destruct Who2 as [[-> ->]|(Hin & E & Hlt)].
    - destruct Who1 as [[-> ->]|(Hin & E & Hlt)]; [left; split; reflexivity|].
      right. apply filter_In in Hin. destruct Hin as [Hin Hl']. apply Nat.ltb_lt in Hl'.
      split; [exact Hin|]. split; [lia|]. split; assumption.
    - right. apply filter_In in Hin. destruct Hin as [Hin Hl']. apply Nat.ltb_lt in Hl'.
      split; [exact Hin|]. split; [lia|]. split; [exact E|].
      destruct Low1 as [->|Hl1]; [exact Hlt|exact (@ltb_trans _ _ _ Hlt Hl1)]. }
  assert (Hmin : forall z w, In z L -> z <> b -> cellv b z w -> ltb w m2 = false).
  { intros z w Hz Hzb Hw. rewrite <- (Hdv z w Hw).
    destruct (Nat.lt_trichotomy z b) as [Hlt|[?|Hgt]]; [|contradiction|].
    - apply (@lower_keeps _ _ _ Low2). apply All1. apply filter_In. split; [exact Hz|apply Nat.ltb_lt; exact Hlt].
    - apply All2. apply filter_In. split; [exact Hz|apply Nat.ltb_lt; exact Hgt]. }
  destruct Hcase as [[-> ->]|(Hin & Hne & E & Hlt)].
  - split; [split; [exact Hab|split; [exact Hcab|exact Hmin]]|]. split; [exact Ha|left; split; reflexivity].
  - destruct (cellv_ex (not_eq_sym Hne) Hbn (HLb w2 Hin)) as (v & Hv).
    assert (Hv' : cellv b w2 v) by exact Hv.
    rewrite (Hdv w2 v Hv') in E. subst v.
    split; [split; [exact Hne|split; [exact Hv'|exact Hmin]]|]. split; [exact Hin|].
    right. split; [|exact Hlt]. intros ->. rewrite (@cellv_fun _ _ _ _ Hv' Hcab) in Hlt. rewrite ltb_irrefl in Hlt. discriminate.
Qed.

(* the inner loop: from a valid chain whose top a has nearest neighbour b, it
   stops - within the fuel - at a reciprocal nearest-neighbour pair on top of a
   valid chain *)
Theorem grow_spec : forall fuel rest a b mn,
  cnt_lt mn < fuel -> cinv (a :: rest) -> In b L -> NN a b mn ->
  (forall z rest' w, rest = z :: rest' -> cellv z a w -> ltb mn w = true) ->
  exists a1 b1 rest1 mn1,
    chain_grow K p fuel s M (rev (a :: rest)) a b mn = Ok (rev (a1 :: b1 :: rest1), a1, b1, mn1)
    /\ cinv (a1 :: b1 :: rest1) /\ NN b1 a1 mn1 /\ NN a1 b1 mn1.
Proof.
  induction fuel as [|fuel IH]; intros rest a b mn Hfuel Hc Hb (Hba & Hcab & Hmin) Hstrict; [lia|].
  pose proof (cinv_live Hc a (or_introl eq_refl)) as Ha.
  cbn [chain_grow].
  destruct (@nn_search a b mn Ha Hb (not_eq_sym Hba) (cellv_sym Hcab)) as (mn2 & a2 & Hs & Hnn2 & Ha2 & Hcase).
  (* unfold the four binds of the search *)
  destruct (a_below (st_active s) b) as [xs1| |]; cbn [bind] in Hs |- *; try discriminate.
  destruct (mfold (nn_scan K p M (fun x => x) (fun _ => b)) xs1 (mn, a)) as [acc1| |]; cbn [bind] in Hs |- *; try discriminate.
  destruct (a_above (st_active s) b) as [xs2| |]; cbn [bind] in Hs |- *; try discriminate.
  rewrite Hs. cbn [bind].
  change (rev (a :: rest) ++ [b]) with (rev (b :: a :: rest)).
  rewrite vlast1_rev, vlast2_rev. cbn [bind].
  (* the extended chain is valid *)
  assert (Hc1 : cinv (b :: a :: rest)).
  { apply ci_cons with (v := mn); [exact Hb|split; [exact Hba|split; [exact Hcab|exact Hmin]]| |exact Hstrict|exact Hc].
    intros [E|Hin]; [exact (Hba (eq_sym E))|].
    exact (@cinv_far a rest Hc a mn Ha Hstrict b Hin Hba (cellv_sym Hcab)). }
  destruct Hcase as [[-> ->]|[Hne Hlt]].
  - rewrite Nat.eqb_refl. exists b, a, rest, mn. split; [reflexivity|]. split; [exact Hc1|].
    split; [split; [exact Hba|split; [exact Hcab|exact Hmin]]|exact Hnn2].
  - destruct (Nat.eqb_spec a2 a) as [E|_]; [contradiction|].
    destruct Hnn2 as (Hn1 & Hn2 & Hn3).
    apply (IH (a :: rest) b a2 mn2).
    + pose proof (@cnt_lt_decr _ _ Hlt (@cellv_in _ _ _ Hn2)). lia.
    + exact Hc1.
    + exact Ha2.
    + split; [exact Hn1|split; [exact Hn2|exact Hn3]].
    + intros z rest' w E Hw. inversion E; subst z rest'.
      rewrite (@cellv_fun _ _ _ _ Hw Hcab). exact Hlt.
Qed.

End ChainInv.
