(* C05: the stable sort of relabel yields non-decreasing heights (or the NaN
   panic), as a permutation of its input. *)
Require Import KV.Model.Prelude KV.Model.Dendrogram KV.Model.UnionFind.
From Coq Require Import Sorting.Permutation Sorting.Sorted.

Set Implicit Arguments.

Section Sort.
Variable T : Type.
Variables ltb eqb : T -> T -> bool.

Notation pcmp := (pcmp ltb eqb).
Notation sort_insert := (sort_insert ltb eqb).
Notation sort_steps := (sort_steps ltb eqb).

(* x <= y in the float order, as the comparison the sort performs sees it *)
Definition le_step (x y : step T) : Prop :=
  pcmp (s_dis x) (s_dis y) = Some Lt \/ pcmp (s_dis x) (s_dis y) = Some Eq.

(* the one fact about the comparison the proof uses; it holds for `pcmp` by
   construction (see Monotone.gt_flip) *)
Hypothesis gt_flip : forall a b, pcmp a b = Some Gt -> pcmp b a = Some Lt.

Lemma sort_insert_perm x l l' : sort_insert x l = Ok l' -> Permutation (x :: l) l'.
Proof.
  revert l'. induction l as [|y t IH]; intros l' H.
  - cbn in H. inversion H. apply Permutation_refl.
  - cbn [UnionFind.sort_insert] in H. destruct (pcmp (s_dis x) (s_dis y)) as [[| |]|]; try discriminate.
    + inversion H. apply Permutation_refl.
    + inversion H. apply Permutation_refl.
    + destruct (sort_insert x t) as [t'| |] eqn:E; try discriminate. cbn in H. inversion H; subst.
      eapply Permutation_trans; [apply perm_swap|]. apply perm_skip. apply IH. reflexivity.
Qed.

Lemma sort_insert_sorted x l l' :
  Sorted le_step l -> sort_insert x l = Ok l' -> Sorted le_step l'.
Proof.
  revert l'. induction l as [|y t IH]; intros l' Hs H.
  - cbn in H. inversion H. repeat constructor.
  - cbn [UnionFind.sort_insert] in H. destruct (pcmp (s_dis x) (s_dis y)) as [[| |]|] eqn:C; try discriminate.
    + inversion H; subst. constructor; [exact Hs|]. constructor. right. exact C.
    + inversion H; subst. constructor; [exact Hs|]. constructor. left. exact C.
    + destruct (sort_insert x t) as [t'| |] eqn:E; try discriminate. cbn in H. inversion H; subst.
      inversion Hs; subst. specialize (IH t' H2 eq_refl). constructor; [exact IH|].
      (* head y is <= everything in t' = insert x t *)
      assert (Hyx : le_step y x) by (left; apply gt_flip; exact C).
      destruct t as [|z t2].
      * cbn in E. inversion E; subst. constructor. exact Hyx.
      * cbn [UnionFind.sort_insert] in E. destruct (pcmp (s_dis x) (s_dis z)) as [[| |]|]; try discriminate.
        -- inversion E; subst. constructor. exact Hyx.
        -- inversion E; subst. constructor. exact Hyx.
        -- destruct (sort_insert x t2); try discriminate. cbn in E. inversion E; subst.
           constructor. inversion H3; subst. assumption.
Qed.

Theorem sort_steps_ok l l' :
  sort_steps l = Ok l' -> Sorted le_step l' /\ Permutation l l'.
Proof.
  revert l'. induction l as [|x t IH]; intros l' H.
  - cbn in H. inversion H. split; constructor.
  - cbn [UnionFind.sort_steps] in H. destruct (sort_steps t) as [t'| |] eqn:E; try discriminate.
    cbn [bind] in H. destruct (IH t' eq_refl) as [Hs Hp]. split.
    + eapply sort_insert_sorted; eassumption.
    + eapply Permutation_trans; [apply perm_skip; exact Hp|]. apply sort_insert_perm. exact H.
Qed.

(* the sort never invents a result: it is Ok or the NaN panic *)
Theorem sort_steps_total l : (exists l', sort_steps l = Ok l') \/ sort_steps l = Panic PNaN.
Proof.
  assert (I : forall x l, (exists l', sort_insert x l = Ok l') \/ sort_insert x l = Panic PNaN).
  { intros x. induction l0 as [|y t IH]; [left; eexists; reflexivity|].
    cbn [UnionFind.sort_insert]. destruct (pcmp (s_dis x) (s_dis y)) as [[| |]|]; try (left; eexists; reflexivity); [|right; reflexivity].
    destruct IH as [[t' ->]| ->]; [left; eexists; reflexivity|right; reflexivity]. }
  induction l as [|x t IH]; [left; eexists; reflexivity|].
  cbn [UnionFind.sort_steps]. destruct IH as [[t' ->]| ->]; [cbn [bind]; apply I|right; reflexivity].
Qed.

End Sort.

(* relabel does not touch heights after sorting them *)
Section RelabelHeights.
Variable T : Type.
Variables ltb eqb : T -> T -> bool.

Definition heights (d : dend T) : list T := map (@s_dis T) (d_steps d).

Lemma map_set_nth_same {A B} (f : A -> B) (l : list A) i x y :
  nth_error l i = Some x -> f y = f x -> map f (set_nth l i y) = map f l.
Proof.
  revert i. induction l as [|h t IH]; intros [|i] H E; cbn in *; try discriminate.
  - inversion H; subst. rewrite E. reflexivity.
  - f_equal. apply IH; assumption.
Qed.

Lemma relabel_step_heights (st st' : ufind * dend T) i :
  relabel_step st i = Ok st' -> heights (snd st') = heights (snd st) /\ d_obs (snd st') = d_obs (snd st).
Proof.
  destruct st as [u d]. unfold relabel_step. intros H.
  destruct (d_get d i) as [s| |] eqn:G; cbn [bind] in H; try discriminate.
  destruct (u_find u (s_c1 s)) as [[n1 u1]| |]; cbn [bind] in H; try discriminate.
  destruct (u_find u1 (s_c2 s)) as [[n2 u2]| |]; cbn [bind] in H; try discriminate.
  destruct (u_union u2 n1 n2) as [u3| |]; cbn [bind] in H; try discriminate.
  destruct (d_cluster_size d n1) as [z1| |]; cbn [bind] in H; try discriminate.
  destruct (d_cluster_size d n2) as [z2| |]; cbn [bind] in H; try discriminate.
  unfold d_set, vset in H. destruct (i <? length (d_steps d)); cbn [bind] in H; try discriminate.
  inversion H; subst. cbn [snd]. unfold heights. cbn [d_steps d_obs]. split; [|reflexivity].
  unfold d_get, vget in G. destruct (nth_error (d_steps d) i) as [s0|] eqn:N; try discriminate.
  inversion G; subst. eapply map_set_nth_same; [exact N|].
  unfold step_set_size, step_set_clusters. destruct (n2 <? n1); reflexivity.
Qed.

Lemma relabel_fold_heights (idx : list nat) : forall st st',
  mfold (@relabel_step T) idx st = Ok st' -> heights (snd st') = heights (snd st) /\ d_obs (snd st') = d_obs (snd st).
Proof.
  induction idx as [|i idx IH]; intros st st' H; cbn [mfold] in H.
  - inversion H. split; reflexivity.
  - destruct (relabel_step st i) as [st1| |] eqn:E; cbn [bind] in H; try discriminate.
    destruct (relabel_step_heights _ _ E) as [H1 H2]. destruct (IH _ _ H) as [H3 H4].
    split; congruence.
Qed.

Theorem relabel_heights (u u' : ufind) (d d' : dend T) (sorting : bool) :
  relabel ltb eqb u d sorting = Ok (u', d') ->
  d_obs d' = d_obs d
  /\ if sorting then exists l, sort_steps ltb eqb (d_steps d) = Ok l /\ heights d' = map (@s_dis T) l
     else heights d' = heights d.
Proof.
  unfold relabel. intros H. destruct sorting.
  - destruct (sort_steps ltb eqb (d_steps d)) as [l| |] eqn:S; cbn [bind] in H; try discriminate.
    destruct (relabel_fold_heights _ _ H) as [H1 H2]. cbn [snd d_obs] in *. split; [exact H2|].
    exists l. split; [reflexivity|exact H1].
  - cbn [bind] in H. destruct (relabel_fold_heights _ _ H) as [H1 H2]. cbn [snd d_obs] in *.
    split; [exact H2|]. destruct d; exact H1.
Qed.

End RelabelHeights.
