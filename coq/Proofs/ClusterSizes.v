(* C19, last clause of the cluster_size contract: in a well-formed stepwise dendrogram
   (what C01 proves of every returned dendrogram) the size recorded by step j is the number
   of observations lying beneath label n + j, i.e. carried to that label by the first j + 1
   steps; more generally every label in use carries exactly `csize` observations. *)
Require Import KV.Model.Prelude KV.Model.Dendrogram KV.Proofs.RelabelWF KV.Proofs.DendUnique.

Set Implicit Arguments.

Section Sizes.
Variable T : Type.
Variable n : nat.
Variable D : list (step T).
Hypothesis W : wf_dend n D.

(* number of observations whose label after j steps is l *)
Definition members (j l : nat) : nat := length (filter (fun x => labi n D j x =? l) (seq 0 n)).

Lemma filter_count_ext {A} (f g : A -> bool) (l : list A) : (forall x, In x l -> f x = g x) ->
  length (filter f l) = length (filter g l).
Proof.
  induction l as [|a l IH]; intros H; [reflexivity|]. cbn [filter]. rewrite (H a (or_introl eq_refl)).
  destruct (g a); cbn [length]; rewrite IH; auto; intros x Hx; apply H; right; exact Hx.
Qed.

Lemma filter_count_or {A} (f g : A -> bool) (l : list A) : (forall x, In x l -> f x = true -> g x = true -> False) ->
  length (filter (fun x => f x || g x) l) = length (filter f l) + length (filter g l).
Proof.
  induction l as [|a l IH]; intros H; [reflexivity|]. cbn [filter].
  assert (IH' : length (filter (fun x => f x || g x) l) = length (filter f l) + length (filter g l))
    by (apply IH; intros x Hx; apply H; right; exact Hx).
  destruct (f a) eqn:Fa, (g a) eqn:Ga; cbn [orb length]; try lia.
  exfalso. exact (H a (or_introl eq_refl) Fa Ga).
Qed.

Lemma members_zero l : l < n -> members 0 l = 1.
Proof.
  intros Hl. unfold members. cbn [labi].
  assert (G : forall k m, length (filter (fun x => x =? l) (seq k m)) = if (k <=? l) && (l <? k + m) then 1 else 0).
  { intros k m. revert k. induction m as [|m IH]; intros k; cbn [seq filter].
    - destruct (Nat.leb_spec k l), (Nat.ltb_spec l (k + 0)); cbn; try reflexivity; lia.
    - destruct (Nat.eqb_spec k l) as [->|Hne]; cbn [length]; rewrite IH.
      + destruct (Nat.leb_spec (S l) l), (Nat.leb_spec l l), (Nat.ltb_spec l (l + S m)), (Nat.ltb_spec l (S l + m)); cbn; try lia.
      + destruct (Nat.leb_spec (S k) l), (Nat.ltb_spec l (S k + m)), (Nat.leb_spec k l), (Nat.ltb_spec l (k + S m)); cbn; try lia. }
  rewrite G. destruct (Nat.leb_spec 0 l), (Nat.ltb_spec l (0 + n)); cbn; try lia.
Qed.

(* every label in use carries exactly csize observations *)
Theorem members_csize : forall j, j <= length D -> forall l, live n D j l -> members j l = csize n D l.
Proof.
  induction j as [|j IH]; intros Hj l [Hl Hnu].
  - rewrite members_zero by lia. unfold csize. destruct (Nat.ltb_spec l n); [reflexivity|lia].
  - destruct (nth_error D j) as [t|] eqn:Ht; [|apply nth_error_None in Ht; lia].
    destruct (@wf_live T n D j t W Ht) as (L1 & L2 & Hlt).
    destruct W as [_ Hw]. destruct (Hw j t Ht) as (_ & _ & _ & Hsz).
    assert (Hstep : forall x, labi n D (S j) x = if (labi n D j x =? s_c1 t) || (labi n D j x =? s_c2 t) then n + j else labi n D j x).
    { intros x. cbn [labi]. rewrite Ht. reflexivity. }
    assert (Hlt_lab : forall x, x < n -> labi n D j x < n + j).
    { intros x Hx. clear - Hx. induction j as [|j IHj]; cbn [labi]; [lia|].
      destruct (nth_error D j); [|lia]. destruct ((_ =? _) || (_ =? _)); lia. }
    destruct (Nat.eq_dec l (n + j)) as [->|Hne].
    + (* the new label: the members of the two merged clusters *)
      unfold members.
      rewrite (filter_count_ext _ (fun x => (labi n D j x =? s_c1 t) || (labi n D j x =? s_c2 t))).
      * rewrite filter_count_or.
        -- fold (members j (s_c1 t)). fold (members j (s_c2 t)).
           rewrite (IH ltac:(lia) _ L1), (IH ltac:(lia) _ L2).
           unfold csize at 3. destruct (Nat.ltb_spec (n + j) n); [lia|].
           replace (n + j - n) with j by lia. rewrite Ht. symmetry. exact Hsz.
        -- intros x _ E1 E2. apply Nat.eqb_eq in E1. apply Nat.eqb_eq in E2. lia.
      * intros x Hx. apply in_seq in Hx. rewrite Hstep. pose proof (Hlt_lab x ltac:(lia)).
        destruct ((labi n D j x =? s_c1 t) || (labi n D j x =? s_c2 t)); [apply Nat.eqb_refl|apply Nat.eqb_neq; lia].
    + (* an older label, untouched by step j *)
      assert (Hl' : live n D j l) by (split; [lia|]; intros i t' Hi Ht'; apply (Hnu i t'); [lia|exact Ht']).
      rewrite <- (IH ltac:(lia) _ Hl'). unfold members. apply filter_count_ext.
      intros x Hx. rewrite Hstep. destruct (Hnu j t ltac:(lia) Ht) as [N1 N2].
      destruct (Nat.eqb_spec (labi n D j x) (s_c1 t)) as [E|E]; cbn [orb].
      * rewrite E. destruct (Nat.eqb_spec (n + j) l); [lia|]. destruct (Nat.eqb_spec (s_c1 t) l); [congruence|reflexivity].
      * destruct (Nat.eqb_spec (labi n D j x) (s_c2 t)) as [E2|E2]; [|reflexivity].
        rewrite E2. destruct (Nat.eqb_spec (n + j) l); [lia|]. destruct (Nat.eqb_spec (s_c2 t) l); [congruence|reflexivity].
Qed.

(* the size recorded by step j = number of observations beneath label n + j *)
Corollary size_is_member_count j t : nth_error D j = Some t -> s_size t = members (S j) (n + j).
Proof.
  intros Ht. assert (Hj : j < length D) by (apply nth_error_Some; congruence).
  rewrite (@members_csize (S j) ltac:(lia) (n + j)).
  - unfold csize. destruct (Nat.ltb_spec (n + j) n); [lia|]. replace (n + j - n) with j by lia. rewrite Ht. reflexivity.
  - split; [lia|]. intros i t' Hi Ht'. destruct W as [_ Hw]. destruct (Hw i t' Ht') as (H1 & H2 & _). lia.
Qed.

End Sizes.
