(* C19, last clause of the cluster_size contract: in a well-formed stepwise dendrogram
   (what C01 proves of every returned dendrogram) the size recorded by step j is the number
   of observations lying beneath label n + j, i.e. carried to that label by the first j + 1
   steps; more generally every label in use carries exactly `csize` observations. *)
Require Import KV.Model.Prelude KV.Model.Dendrogram KV.Proofs.RelabelWF KV.Proofs.DendUnique.
From Coq Require Import Bool.

Set Implicit Arguments.

Lemma firstn_in_nth {A} (l : list A) : forall j x, In x (firstn j l) -> exists k, k < j /\ nth_error l k = Some x.
Proof.
  induction l as [|a l IH]; intros j x H; [destruct j; destruct H|].
  destruct j as [|j]; [destruct H|]. cbn [firstn] in H. destruct H as [<-|H]; [exists 0; split; [lia|reflexivity]|].
  destruct (IH j x H) as (k & Hk & Hn). exists (S k). split; [lia|exact Hn].
Qed.

Lemma nodup_app {A} (l l' : list A) : NoDup l -> NoDup l' -> (forall x, In x l -> In x l' -> False) -> NoDup (l ++ l').
Proof.
  induction 1 as [|a l Ha Hnd IH]; intros Hnd' Hdis; [exact Hnd'|]. cbn [app]. constructor.
  - intros Hin. apply in_app_or in Hin. destruct Hin as [Hin|Hin]; [exact (Ha Hin)|exact (Hdis a (or_introl eq_refl) Hin)].
  - apply IH; [exact Hnd'|]. intros x Hx. apply Hdis. right. exact Hx.
Qed.

Section Sizes.
Variable T : Type.
Variable n : nat.
Variable D : list (step T).
Hypothesis W : wf_dend n D.

(* number of observations whose label after j steps is l *)
Definition members (j l : nat) : nat := length (filter (fun x => labi n D j x =? l) (seq 0 n)).

Lemma filter_count_ext {A} (f g : A -> bool) (l : list A) : (forall x, In x l -> f x = g x) ->
  length (filter f l) = length (filter g l).
Proof.
  induction l as [|a l IH]; intros H; [reflexivity|]. cbn [filter]. rewrite (H a (or_introl eq_refl)).
  destruct (g a); cbn [length]; rewrite IH; auto; intros x Hx; apply H; right; exact Hx.
Qed.

Lemma filter_count_or {A} (f g : A -> bool) (l : list A) : (forall x, In x l -> f x = true -> g x = true -> False) ->
  length (filter (fun x => f x || g x) l) = length (filter f l) + length (filter g l).
Proof.
  induction l as [|a l IH]; intros H; [reflexivity|]. cbn [filter].
  assert (IH' : length (filter (fun x => f x || g x) l) = length (filter f l) + length (filter g l))
    by (apply IH; intros x Hx; apply H; right; exact Hx).
  destruct (f a) eqn:Fa, (g a) eqn:Ga; cbn [orb length]; try lia.
  exfalso. exact (H a (or_introl eq_refl) Fa Ga).
Qed.

Lemma members_zero l : l < n -> members 0 l = 1.
Proof.
  intros Hl. unfold members. cbn [labi].
  assert (G : forall k m, length (filter (fun x => x =? l) (seq k m)) = if (k <=? l) && (l <? k + m) then 1 else 0).
  { intros k m. revert k. induction m as [|m IH]; intros k; cbn [seq filter].
    - destruct (Nat.leb_spec k l), (Nat.ltb_spec l (k + 0)); cbn; try reflexivity; lia.
    - destruct (Nat.eqb_spec k l) as [->|Hne]; cbn [length]; rewrite IH.
      + destruct (Nat.leb_spec (S l) l), (Nat.leb_spec l l), (Nat.ltb_spec l (l + S m)), (Nat.ltb_spec l (S l + m)); cbn; try lia.
      + destruct (Nat.leb_spec (S k) l), (Nat.ltb_spec l (S k + m)), (Nat.leb_spec k l), (Nat.ltb_spec l (k + S m)); cbn; try lia. }
  rewrite G. destruct (Nat.leb_spec 0 l), (Nat.ltb_spec l (0 + n)); cbn; try lia.
Qed.

(* every label in use carries exactly csize observations *)
Theorem members_csize : forall j, j <= length D -> forall l, live n D j l -> members j l = csize n D l.
Proof.
  induction j as [|j IH]; intros Hj l [Hl Hnu].
  - rewrite members_zero by lia. unfold csize. destruct (Nat.ltb_spec l n); [reflexivity|lia].
  - destruct (nth_error D j) as [t|] eqn:Ht; [|apply nth_error_None in Ht; lia].
    destruct (@wf_live T n D j t W Ht) as (L1 & L2 & Hlt).
    destruct W as [_ Hw]. destruct (Hw j t Ht) as (_ & _ & _ & Hsz).
    assert (Hstep : forall x, labi n D (S j) x = if (labi n D j x =? s_c1 t) || (labi n D j x =? s_c2 t) then n + j else labi n D j x).
    { intros x. cbn [labi]. rewrite Ht. reflexivity. }
    assert (Hlt_lab : forall x, x < n -> labi n D j x < n + j).
    { intros x Hx. clear - Hx. induction j as [|j IHj]; cbn [labi]; [lia|].
      destruct (nth_error D j); [|lia]. destruct ((_ =? _) || (_ =? _)); lia. }
    destruct (Nat.eq_dec l (n + j)) as [->|Hne].
    + (* the new label: the members of the two merged clusters *)
      unfold members.
      rewrite (filter_count_ext _ (fun x => (labi n D j x =? s_c1 t) || (labi n D j x =? s_c2 t))).
      * rewrite filter_count_or.
        -- fold (members j (s_c1 t)). fold (members j (s_c2 t)).
           rewrite (IH ltac:(lia) _ L1), (IH ltac:(lia) _ L2).
           unfold csize at 3. destruct (Nat.ltb_spec (n + j) n); [lia|].
           replace (n + j - n) with j by lia. rewrite Ht. symmetry. exact Hsz.
        -- intros x _ E1 E2. apply Nat.eqb_eq in E1. apply Nat.eqb_eq in E2. lia.
      * intros x Hx. apply in_seq in Hx. rewrite Hstep. pose proof (Hlt_lab x ltac:(lia)).
        destruct ((labi n D j x =? s_c1 t) || (labi n D j x =? s_c2 t)); [apply Nat.eqb_refl|apply Nat.eqb_neq; lia].
    + (* an older label, untouched by step j *)
      assert (Hl' : live n D j l) by (split; [lia|]; intros i t' Hi Ht'; apply (Hnu i t'); [lia|exact Ht']).
      rewrite <- (IH ltac:(lia) _ Hl'). unfold members. apply filter_count_ext.
      intros x Hx. rewrite Hstep. destruct (Hnu j t ltac:(lia) Ht) as [N1 N2].
      destruct (Nat.eqb_spec (labi n D j x) (s_c1 t)) as [E|E]; cbn [orb].
      * rewrite E. destruct (Nat.eqb_spec (n + j) l); [lia|]. destruct (Nat.eqb_spec (s_c1 t) l); [congruence|reflexivity].
      * destruct (Nat.eqb_spec (labi n D j x) (s_c2 t)) as [E2|E2]; [|reflexivity].
        rewrite E2. destruct (Nat.eqb_spec (n + j) l); [lia|]. destruct (Nat.eqb_spec (s_c2 t) l); [congruence|reflexivity].
Qed.

(* the size recorded by step j = number of observations beneath label n + j *)
Corollary size_is_member_count j t : nth_error D j = Some t -> s_size t = members (S j) (n + j).
Proof.
  intros Ht. assert (Hj : j < length D) by (apply nth_error_Some; congruence).
  rewrite (@members_csize (S j) ltac:(lia) (n + j)).
  - unfold csize. destruct (Nat.ltb_spec (n + j) n); [lia|]. replace (n + j - n) with j by lia. rewrite Ht. reflexivity.
  - split; [lia|]. intros i t' Hi Ht'. destruct W as [_ Hw]. destruct (Hw i t' Ht') as (H1 & H2 & _). lia.
Qed.

(* ---- "hence every label in [0, 2n-2) is consumed exactly once, the last step has size n" ---- *)
Definition used : list nat := flat_map (fun t => [s_c1 t; s_c2 t]) D.

Lemma used_firstn_bound : forall k, k <= length D -> forall l, In l (flat_map (fun t => [s_c1 t; s_c2 t]) (firstn k D)) -> l < n + k - 1.
Proof.
  destruct W as [_ Hw]. induction k as [|k IH]; intros Hk l Hl; [destruct Hl|].
  destruct (nth_error D k) as [t|] eqn:Ht; [|apply nth_error_None in Ht; lia].
  assert (E : firstn (S k) D = firstn k D ++ [t]).
  { clear - Ht. revert k Ht. induction D as [|a l IHl]; intros k Ht; [destruct k; discriminate|].
    destruct k as [|k]; cbn [nth_error] in Ht; [inversion Ht; reflexivity|]. cbn [firstn app]. f_equal. apply IHl. exact Ht. }
  rewrite E, flat_map_app in Hl. apply in_app_or in Hl. destruct Hl as [Hl|Hl].
  - pose proof (IH ltac:(lia) l Hl). lia.
  - destruct (Hw k t Ht) as (H1 & H2 & _). cbn [flat_map app] in Hl. destruct Hl as [<-|[<-|[]]]; lia.
Qed.

Lemma used_nodup : NoDup used.
Proof.
  destruct W as [_ Hw]. unfold used.
  assert (G : forall k, k <= length D -> NoDup (flat_map (fun t => [s_c1 t; s_c2 t]) (firstn k D))).
  { induction k as [|k IH]; intros Hk; [constructor|].
    destruct (nth_error D k) as [t|] eqn:Ht; [|apply nth_error_None in Ht; lia].
    assert (E : firstn (S k) D = firstn k D ++ [t]).
    { clear - Ht. revert k Ht. induction D as [|a l IHl]; intros k Ht; [destruct k; discriminate|].
      destruct k as [|k]; cbn [nth_error] in Ht; [inversion Ht; reflexivity|]. cbn [firstn app]. f_equal. apply IHl. exact Ht. }
    rewrite E, flat_map_app. cbn [flat_map app].
    destruct (Hw k t Ht) as (H1 & H2 & H3 & _).
    assert (Hfresh : forall l, In l (flat_map (fun t0 => [s_c1 t0; s_c2 t0]) (firstn k D)) -> l <> s_c1 t /\ l <> s_c2 t).
    { intros l Hl. apply in_flat_map in Hl. destruct Hl as (t' & Ht' & Hl).
      destruct (firstn_in_nth _ _ _ Ht') as (i & Hik & Hi).
      destruct (H3 i t' Hik Hi) as (A & B & C & E'). destruct Hl as [<-|[<-|[]]]; split; congruence. }
    apply nodup_app; [exact (IH ltac:(lia))| |].
    - constructor; [intros [E'|[]]; lia|]. constructor; [intros []|constructor].
    - intros l Hl [<-|[<-|[]]]; destruct (Hfresh _ Hl) as [A B]; congruence. }
  rewrite <- (firstn_all D). apply G. lia.
Qed.

Lemma used_length : length used = 2 * length D.
Proof.
  unfold used. generalize D as l. induction l as [|a l IH]; [reflexivity|]. cbn [flat_map app length]. rewrite IH. lia.
Qed.

(* every label below 2n-2 is one of the two labels of exactly one step *)
Theorem every_label_consumed_once : 2 <= n ->
  NoDup used /\ forall l, l < 2 * n - 2 <-> In l used.
Proof.
  intros Hn. split; [exact used_nodup|].
  assert (Hlen : length D = n - 1) by exact (proj1 W).
  assert (Hinc : incl used (seq 0 (2 * n - 2))).
  { intros l Hl. unfold used in Hl. rewrite <- (firstn_all D) in Hl.
    pose proof (used_firstn_bound (Nat.le_refl _) l Hl). apply in_seq. lia. }
  intros l. split.
  - intros Hl. apply (@NoDup_length_incl nat used (seq 0 (2 * n - 2)) used_nodup); [rewrite used_length, seq_length; lia|exact Hinc|apply in_seq; lia].
  - intros Hl. apply Hinc in Hl. apply in_seq in Hl. lia.
Qed.

(* the label of every observation is in use *)
Lemma labi_live : forall j, j <= length D -> forall x, x < n -> live n D j (labi n D j x).
Proof.
  induction j as [|j IH]; intros Hj x Hx.
  - cbn [labi]. split; [lia|]. intros i t Hi. lia.
  - destruct (nth_error D j) as [t|] eqn:Ht; [|apply nth_error_None in Ht; lia].
    destruct (IH ltac:(lia) x Hx) as [Hb Hnu].
    destruct W as [_ Hw]. destruct (Hw j t Ht) as (H1 & H2 & _).
    cbn [labi]. rewrite Ht.
    destruct ((labi n D j x =? s_c1 t) || (labi n D j x =? s_c2 t)) eqn:E.
    + split; [lia|]. intros i t' Hi Ht'. destruct (Hw i t' Ht') as (A & B & _). lia.
    + apply orb_false_iff in E. destruct E as [E1 E2]. apply Nat.eqb_neq in E1. apply Nat.eqb_neq in E2.
      split; [lia|]. intros i t' Hi Ht'. destruct (Nat.eq_dec i j) as [->|Hne].
      * rewrite Ht in Ht'. inversion Ht'; subst t'. split; congruence.
      * apply (Hnu i t'); [lia|exact Ht'].
Qed.

(* after all steps every observation carries the root label, and the last step has size n *)
Theorem last_step_size : 2 <= n -> forall t, nth_error D (n - 2) = Some t ->
  (forall x, x < n -> labi n D (n - 1) x = 2 * n - 2) /\ s_size t = n.
Proof.
  intros Hn t Ht.
  assert (Hlen : length D = n - 1) by exact (proj1 W).
  destruct (every_label_consumed_once Hn) as [Hnd Hall].
  assert (Hroot : forall x, x < n -> labi n D (n - 1) x = 2 * n - 2).
  { intros x Hx. destruct (labi_live (j := n - 1) ltac:(lia) Hx) as [Hb Hnu].
    destruct (Nat.eq_dec (labi n D (n - 1) x) (2 * n - 2)) as [E|N]; [exact E|exfalso].
    assert (Hin : In (labi n D (n - 1) x) used) by (apply Hall; lia).
    unfold used in Hin. apply in_flat_map in Hin. destruct Hin as (t' & Ht' & Hl).
    apply In_nth_error in Ht'. destruct Ht' as (i & Hi).
    assert (Hi' : i < n - 1) by (rewrite <- Hlen; apply nth_error_Some; congruence).
    destruct (Hnu i t' Hi' Hi) as [A B]. destruct Hl as [E|[E|[]]]; congruence. }
  split; [exact Hroot|].
  rewrite (size_is_member_count (n - 2) Ht). unfold members.
  replace (S (n - 2)) with (n - 1) by lia. replace (n + (n - 2)) with (2 * n - 2) by lia.
  rewrite (filter_count_ext _ (fun _ => true)).
  - rewrite <- (seq_length n 0) at 2. generalize (seq 0 n) as l. clear.
    induction l as [|a l IH]; [reflexivity|]. cbn [filter length]. rewrite IH. reflexivity.
  - intros x Hx. apply in_seq in Hx. rewrite (Hroot x ltac:(lia)). apply Nat.eqb_refl.
Qed.

End Sizes.
