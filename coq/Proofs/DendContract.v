(* C19: Dendrogram container contract, for all operation sequences. *)
Require Import KV.Model.Prelude KV.Model.Dendrogram KV.Model.DendOps KV.Proofs.ResetCanon.

Set Implicit Arguments.

Section Contract.
Variable T : Type.

(* push succeeds exactly while len < n - 1 (saturating), appends, keeps n *)
Theorem push_spec (d : dend T) (s : step T) :
  (d_len d < d_obs d - 1 /\ d_push d s = Ok {| d_steps := d_steps d ++ [s]; d_obs := d_obs d |})
  \/ (~ d_len d < d_obs d - 1 /\ d_push d s = Panic PAssert).
Proof.
  unfold d_push. destruct (Nat.ltb_spec (d_len d) (d_obs d - 1)) as [H|H].
  - left. split; [exact H|reflexivity].
  - right. split; [lia|reflexivity].
Qed.

Definition Inv (d : dend T) : Prop := d_len d <= d_obs d - 1.

Lemma push_inv d s d' : Inv d -> d_push d s = Ok d' -> Inv d' /\ d_len d' = S (d_len d) /\ d_obs d' = d_obs d.
Proof.
  intros HI H. destruct (push_spec d s) as [[Hlt E]|[_ E]]; rewrite E in H; [|discriminate].
  inversion H; subst d'. unfold Inv, d_len in *. cbn. rewrite app_length. cbn. lia.
Qed.

(* A dendrogram for n observations accepts exactly n-1 pushes: pushing the
   list ss after reset(n) succeeds iff |ss| <= n-1; the first excess push
   panics (immediately for n <= 1). *)
Theorem pushes_after_reset (d0 : dend T) (n : nat) (ss : list (step T)) :
  (length ss <= n - 1 /\ mfold (@d_push T) ss (d_reset d0 n) = Ok {| d_steps := ss; d_obs := n |})
  \/ (n - 1 < length ss /\ mfold (@d_push T) ss (d_reset d0 n) = Panic PAssert).
Proof.
  assert (G : forall ss pre, length pre <= n - 1 ->
    (length pre + length ss <= n - 1 /\
       mfold (@d_push T) ss {| d_steps := pre; d_obs := n |} = Ok {| d_steps := pre ++ ss; d_obs := n |})
    \/ (n - 1 < length pre + length ss /\
       mfold (@d_push T) ss {| d_steps := pre; d_obs := n |} = Panic PAssert)).
  { clear ss. induction ss as [|s ss IH]; intros pre Hpre.
    - left. cbn. rewrite app_nil_r. split; [lia|reflexivity].
    - cbn [mfold length]. unfold d_push at 1 3. unfold d_len. cbn [d_steps d_obs].
      destruct (Nat.ltb_spec (length pre) (n - 1)) as [Hlt|Hge]; cbn [assert_ bind].
      + destruct (IH (pre ++ [s])) as [[Hl E]|[Hl E]].
        * rewrite app_length; cbn; lia.
        * left. rewrite app_length in Hl. cbn in Hl. split; [lia|].
          rewrite E. rewrite <- app_assoc. reflexivity.
        * right. rewrite app_length in Hl. cbn in Hl. split; [lia|exact E].
      + right. split; [lia|reflexivity]. }
  destruct (G ss [] ltac:(cbn; lia)) as [[Hl E]|[Hl E]]; cbn in Hl.
  - left. split; [exact Hl|exact E].
  - right. split; [exact Hl|exact E].
Qed.

(* reset empties and sets n *)
Theorem reset_spec (d : dend T) (n : nat) : d_len (d_reset d n) = 0 /\ d_obs (d_reset d n) = n.
Proof. split; reflexivity. Qed.

(* Step::new and set_clusters store the smaller label first, always *)
Theorem step_new_sorted (c1 c2 : nat) (x : T) (sz : nat) :
  let s := step_new c1 c2 x sz in
  s_c1 s = Nat.min c1 c2 /\ s_c2 s = Nat.max c1 c2 /\ s_dis s = x /\ s_size s = sz.
Proof. unfold step_new. destruct (Nat.ltb_spec c2 c1); cbn; repeat split; lia. Qed.

Theorem set_clusters_sorted (s : step T) (c1 c2 : nat) :
  let s' := step_set_clusters s c1 c2 in
  s_c1 s' = Nat.min c1 c2 /\ s_c2 s' = Nat.max c1 c2 /\ s_dis s' = s_dis s /\ s_size s' = s_size s.
Proof. unfold step_set_clusters. destruct (Nat.ltb_spec c2 c1); cbn; repeat split; lia. Qed.

(* cluster_size: 1 below n, otherwise the size recorded by step label-n
   (index panic when that step does not exist) *)
Theorem cluster_size_spec (d : dend T) (label : nat) :
  (label < d_obs d /\ d_cluster_size d label = Ok 1)
  \/ (d_obs d <= label /\ exists s, nth_error (d_steps d) (label - d_obs d) = Some s
                                    /\ d_cluster_size d label = Ok (s_size s))
  \/ (d_obs d <= label /\ d_len d <= label - d_obs d /\ d_cluster_size d label = Panic PIndex).
Proof.
  unfold d_cluster_size, d_get, vget. destruct (Nat.ltb_spec label (d_obs d)) as [H|H].
  - left. split; [exact H|reflexivity].
  - right. destruct (nth_error (d_steps d) (label - d_obs d)) as [s|] eqn:E.
    + left. split; [exact H|]. exists s. split; reflexivity.
    + right. apply nth_error_None in E. repeat split; try assumption.
Qed.

(* ---- eq_with_epsilon ------------------------------------------------- *)
Variables (eqb ltb : T -> T -> bool) (sub : T -> T -> T) (abs : T -> T).

Definition same_keys (s1 s2 : step T) : bool :=
  (s_c1 s1 =? s_c1 s2) && (s_c2 s1 =? s_c2 s2) && (s_size s1 =? s_size s2).

(* identical labels and size, and dissimilarities equal or not further apart
   than eps in the rounded float subtraction the code performs *)
Definition step_close (s1 s2 : step T) (eps : T) : bool :=
  same_keys s1 s2
  && (eqb (s_dis s1) (s_dis s2) || negb (ltb eps (abs (sub (s_dis s1) (s_dis s2))))).

Theorem step_eq_eps_spec (s1 s2 : step T) (eps : T) :
  step_eq_eps eqb ltb sub abs s1 s2 eps = step_close s1 s2 eps.
Proof.
  unfold step_eq_eps, step_close, step_eqb, same_keys.
  destruct (s_c1 s1 =? s_c1 s2), (s_c2 s1 =? s_c2 s2), (s_size s1 =? s_size s2),
    (eqb (s_dis s1) (s_dis s2)), (ltb eps (abs (sub (s_dis s1) (s_dis s2)))); reflexivity.
Qed.

Theorem eq_eps_spec (d1 d2 : dend T) (eps : T) :
  d_eq_eps eqb ltb sub abs d1 d2 eps = true
  <-> length (d_steps d1) = length (d_steps d2)
      /\ Forall2 (fun s1 s2 => step_close s1 s2 eps = true) (d_steps d1) (d_steps d2).
Proof.
  unfold d_eq_eps, d_len. destruct (Nat.eqb_spec (length (d_steps d1)) (length (d_steps d2))) as [E|E]; cbn [negb].
  - generalize dependent (d_steps d2). generalize (d_steps d1). clear d1 d2.
    induction l as [|s1 t1 IH]; intros [|s2 t2] E; try discriminate.
    + split; [intros _; split; [reflexivity|constructor]|reflexivity].
    + cbn [steps_eq_eps]. rewrite step_eq_eps_spec. cbn in E. injection E as E.
      destruct (step_close s1 s2 eps) eqn:C.
      * rewrite IH by exact E. split.
        -- intros [_ H]. split; [cbn; congruence|constructor; assumption].
        -- intros [_ H]. inversion H; subst. split; assumption.
      * split; [discriminate|]. intros [_ H]. inversion H; subst. congruence.
  - split; [discriminate|]. intros [H _]. contradiction.
Qed.

(* ---- all operation sequences ---------------------------------------- *)
Lemma dstep_inv (st : dstate T) (o : dop T) :
  Inv (fst st) -> Inv (snd st) ->
  Inv (fst (fst (dstep eqb ltb sub abs st o))) /\ Inv (snd (fst (dstep eqb ltb sub abs st o))).
Proof.
  intros H0 H1. destruct st as [a b]. cbn [fst snd] in *.
  assert (Hset : forall r d, Inv d -> Inv (fst (set_reg (a, b) r d)) /\ Inv (snd (set_reg (a, b) r d))).
  { intros [|] d Hd; cbn; split; assumption. }
  assert (Hreg : forall r, Inv (reg (a, b) r)) by (intros [|]; assumption).
  destruct o; cbn [dstep]; try (cbn; split; assumption).
  - apply Hset. unfold Inv, d_len. cbn. lia.
  - apply Hset. unfold Inv, d_len. cbn. lia.
  - unfold of_res. destruct (d_push (reg (a, b) r) (step_new c1 c2 x size)) as [d| |] eqn:E;
      try (cbn; split; assumption).
    apply Hset. eapply push_inv; [apply Hreg|exact E].
  - unfold of_res. destruct (d_get (reg (a, b) r) i); cbn; split; assumption.
  - unfold of_res, d_set, d_get, vset, vget.
    destruct (nth_error (d_steps (reg (a, b) r)) i); cbn [bind]; try (cbn; split; assumption).
    destruct (i <? length (d_steps (reg (a, b) r))); cbn [bind]; try (cbn; split; assumption).
    apply Hset. pose proof (Hreg r) as Hr. unfold Inv, d_len in *. cbn. 
    rewrite KV.Proofs.ResetCanon.set_nth_length. exact Hr.
  - unfold of_res, d_set, d_get, vset, vget.
    destruct (nth_error (d_steps (reg (a, b) r)) i); cbn [bind]; try (cbn; split; assumption).
    destruct (i <? length (d_steps (reg (a, b) r))); cbn [bind]; try (cbn; split; assumption).
    apply Hset. pose proof (Hreg r) as Hr. unfold Inv, d_len in *. cbn.
    rewrite KV.Proofs.ResetCanon.set_nth_length. exact Hr.
  - unfold of_res. destruct (d_cluster_size (reg (a, b) r) label); cbn; split; assumption.
Qed.

(* After ANY sequence of new/reset/push/index/set_clusters/cluster_size/
   eq_with_epsilon operations both dendrograms hold at most n-1 steps. *)
Theorem capacity_invariant (ops : list (dop T)) :
  let st := fst (drun eqb ltb sub abs ops) in Inv (fst st) /\ Inv (snd st).
Proof.
  unfold drun.
  assert (G : forall ops st outs, Inv (fst st) -> Inv (snd st) ->
    let st' := fst (fold_left (fun acc o => let '(st, outs) := acc in
                          let '(st', out) := dstep eqb ltb sub abs st o in (st', outs ++ [out])) ops (st, outs)) in
    Inv (fst st') /\ Inv (snd st')).
  { clear ops. induction ops as [|o ops IH]; intros st outs H0 H1; [cbn; split; assumption|].
    cbn [fold_left]. destruct (dstep eqb ltb sub abs st o) as [st' out] eqn:E.
    pose proof (dstep_inv st o H0 H1) as [I0 I1]. rewrite E in I0, I1. cbn [fst] in I0, I1.
    apply IH; assumption. }
  apply G; unfold Inv, d_len; cbn; lia.
Qed.

End Contract.
