(* Exact effect of the three-range Lance-Williams update on the working
   matrix: for every other live cluster x the cell {x,b} becomes
   upd(cell{x,a}, cell{x,b}); every other cell is unchanged. *)
Require Import KV.Model.Prelude KV.Model.Condensed KV.Model.Active KV.Model.Methods KV.Model.State
  KV.Proofs.ResetCanon KV.Proofs.ActiveRefine KV.Proofs.CondensedIdx KV.Proofs.Monotone
  KV.Proofs.PrimitiveGreedy KV.Proofs.PrimitiveTotal.
From Coq Require Import Sorting.Sorted.

Set Implicit Arguments.

Section UpdateSpec.
Variable T : Type.
Variable K : kops T.
Variable p : profile.

(* cell of an unordered pair *)
Definition wcell (M : cmat T) (x y : nat) : option T := mcell M (Nat.min x y) (Nat.max x y).

Lemma mcell_set_same (M : cmat T) r c v : wf_mat M -> r < c -> c < m_obs M ->
  mcell {| m_data := set_nth (m_data M) (cidx_nat (m_obs M) r c) v; m_obs := m_obs M |} r c = Some v.
Proof.
  intros Hwf Hrc Hc. unfold mcell. cbn [m_data m_obs]. apply nth_error_set_nth_eq.
  pose proof (cidx_in_range (m_obs M) r c Hrc Hc). unfold wf_mat in Hwf. lia.
Qed.

Lemma mcell_set_other (M : cmat T) r c v r' c' : r < c -> c < m_obs M -> r' < c' -> c' < m_obs M ->
  (r', c') <> (r, c) ->
  mcell {| m_data := set_nth (m_data M) (cidx_nat (m_obs M) r c) v; m_obs := m_obs M |} r' c' = mcell M r' c'.
Proof.
  intros H1 H2 H3 H4 Hne. unfold mcell. cbn [m_data m_obs]. apply nth_error_set_nth_neq.
  intros E. apply Hne. apply (cidx_injective (m_obs M)); assumption.
Qed.

(* one cell update *)
Lemma upd_cell_spec meth (sizes : list nat) (M M' : cmat T) r1 c1 r2 c2 x dist sa sb :
  wf_mat M -> r1 < c1 -> c1 < m_obs M -> r2 < c2 -> c2 < m_obs M ->
  upd_cell K p meth sizes M r1 c1 r2 c2 x dist sa sb = Ok M' ->
  exists va vb sx, mcell M r1 c1 = Some va /\ mcell M r2 c2 = Some vb
    /\ (if uses_size_x meth then vget sizes x else Ok 0) = Ok sx
    /\ mcell M' r2 c2 = Some (k_upd K va vb dist sa sb sx)
    /\ (forall r c, r < c -> c < m_obs M -> (r, c) <> (r2, c2) -> mcell M' r c = mcell M r c)
    /\ wf_mat M' /\ m_obs M' = m_obs M.
Proof.
  intros Hwf H1 H2 H3 H4 H. unfold upd_cell in H.
  destruct (mget_cell p Hwf H1 H2) as (va & Ca & Ga). rewrite Ga in H. cbn [bind] in H.
  destruct (mget_cell p Hwf H3 H4) as (vb & Cb & Gb). rewrite Gb in H. cbn [bind] in H.
  destruct (if uses_size_x meth then vget sizes x else Ok 0) as [sx| |] eqn:Esx; cbn [bind] in H; try discriminate.
  unfold mset in H. rewrite (mslot_ok p M r2 c2 H3 H4 Hwf) in H. cbn [bind] in H. inversion H; subst M'.
  exists va, vb, sx. split; [exact Ca|]. split; [exact Cb|]. split; [reflexivity|].
  split; [apply mcell_set_same; assumption|]. split.
  - intros r c Hrc Hc Hne. apply mcell_set_other; assumption.
  - unfold wf_mat. cbn [m_data m_obs]. rewrite set_nth_length. split; [exact Hwf|reflexivity].
Qed.

(* a fold of cell updates whose targets are distinct and never read as a
   first argument by a later step *)
Lemma fold_upd_spec meth (sizes : list nat) (src tgt : nat -> nat * nat) dist sa sb n0 :
  forall (xs : list nat) (M M' : cmat T), NoDup xs ->
  (forall x, In x xs -> fst (src x) < snd (src x) /\ snd (src x) < n0
                        /\ fst (tgt x) < snd (tgt x) /\ snd (tgt x) < n0) ->
  (forall x y, In x xs -> In y xs -> x <> y -> tgt x <> tgt y) ->
  (forall x y, In x xs -> In y xs -> src x <> tgt y) ->
  wf_mat M -> m_obs M = n0 ->
  mfold (fun M x => upd_cell K p meth sizes M (fst (src x)) (snd (src x)) (fst (tgt x)) (snd (tgt x)) x dist sa sb) xs M = Ok M' ->
  wf_mat M' /\ m_obs M' = n0
  /\ (forall x, In x xs -> exists va vb sx, mcell M (fst (src x)) (snd (src x)) = Some va
         /\ mcell M (fst (tgt x)) (snd (tgt x)) = Some vb
         /\ (if uses_size_x meth then vget sizes x else Ok 0) = Ok sx
         /\ mcell M' (fst (tgt x)) (snd (tgt x)) = Some (k_upd K va vb dist sa sb sx))
  /\ (forall r c, r < c -> c < n0 -> (forall x, In x xs -> (r, c) <> tgt x) -> mcell M' r c = mcell M r c).
Proof.
  induction xs as [|x xs IH]; intros M M' Hnd Hb Htt Hst Hwf Ho H; cbn [mfold] in H.
  - injection H as <-. split; [exact Hwf|]. split; [exact Ho|]. split; [intros x []|]. intros; reflexivity.
  - bind_inv H. rename a into M1. inversion Hnd as [|x0 xs0 Hnin Hnd' Ex]. subst x0 xs0.
    destruct (Hb x (or_introl eq_refl)) as (B1 & B2 & B3 & B4).
    destruct (@upd_cell_spec meth sizes M M1 _ _ _ _ x dist sa sb Hwf B1 ltac:(lia) B3 ltac:(lia) E)
      as (va & vb & sx & Ca & Cb & Esx & Cnew & Cother & Hwf1 & Ho1).
    destruct (IH M1 M' Hnd' (fun y Hy => Hb y (or_intror Hy))
                 (fun y z Hy Hz => Htt y z (or_intror Hy) (or_intror Hz))
                 (fun y z Hy Hz => Hst y z (or_intror Hy) (or_intror Hz)) Hwf1 ltac:(lia) H)
      as (Hwf' & Ho' & Hin & Hout).
    split; [exact Hwf'|]. split; [exact Ho'|]. split.
    + intros y [<-|Hy].
      * exists va, vb, sx. split; [exact Ca|]. split; [exact Cb|]. split; [exact Esx|].
        rewrite Hout; [exact Cnew|lia|lia|].
        intros z Hz Heq. apply (Htt x z (or_introl eq_refl) (or_intror Hz)); [intros ->; contradiction|].
        destruct (tgt x), (tgt z); cbn [fst snd] in *. exact Heq.
      * destruct (Hin y Hy) as (va' & vb' & sx' & Ca' & Cb' & Esx' & Cnew').
        destruct (Hb y (or_intror Hy)) as (D1 & D2 & D3 & D4).
        exists va', vb', sx'.
        assert (Ea : mcell M1 (fst (src y)) (snd (src y)) = mcell M (fst (src y)) (snd (src y))).
        { apply Cother; [lia|lia|]. intros Heq. apply (Hst y x (or_intror Hy) (or_introl eq_refl)).
          destruct (src y), (tgt x); cbn [fst snd] in *. exact Heq. }
        assert (Eb : mcell M1 (fst (tgt y)) (snd (tgt y)) = mcell M (fst (tgt y)) (snd (tgt y))).
        { apply Cother; [lia|lia|]. intros Heq. apply (Htt y x (or_intror Hy) (or_introl eq_refl)); [intros ->; contradiction|].
          destruct (tgt y), (tgt x); cbn [fst snd] in *. exact Heq. }
        rewrite Ea in Ca'. rewrite Eb in Cb'.
        repeat split; assumption.
    + intros r c Hrc Hc Hnt. rewrite Hout by (try assumption; intros z Hz; apply Hnt; right; exact Hz).
      apply Cother; try lia. intros Heq. apply (Hnt x (or_introl eq_refl)).
      destruct (tgt x); cbn [fst snd] in *. exact Heq.
Qed.


(* the whole three-range update *)
Theorem update3_spec meth (s : lstate T) (M M' : cmat T) (L : list nat) a b dist sa sb :
  AInv (st_active s) L -> wf_mat M -> length (a_next (st_active s)) = m_obs M ->
  In a L -> In b L -> a < b ->
  update3 K p meth s M a b dist sa sb = Ok M' ->
  wf_mat M' /\ m_obs M' = m_obs M
  /\ (forall x, In x L -> x <> a -> x <> b ->
        exists va vb sx, wcell M x a = Some va /\ wcell M x b = Some vb
          /\ (if uses_size_x meth then vget (st_sizes s) x else Ok 0) = Ok sx
          /\ wcell M' x b = Some (k_upd K va vb dist sa sb sx))
  /\ (forall r c, r < c -> c < m_obs M ->
        (forall x, In x L -> x <> a -> x <> b -> (r, c) <> (Nat.min x b, Nat.max x b)) ->
        mcell M' r c = mcell M r c).
Proof.
  intros HA Hwf HN Ha Hb Hab H.
  pose proof HA as (Hlen & Hl & Hdead). pose proof (linked_sorted Hl) as Hsorted.
  assert (HB : forall z, In z L -> z < m_obs M) by (intros z Hz; apply (linked_bounds Hl) in Hz; lia).
  assert (HndL : NoDup L).
  { clear - Hsorted. induction Hsorted as [|x t Hs IH Hall]; constructor; [|exact IH].
    intros Hin. rewrite Forall_forall in Hall. apply Hall in Hin. lia. }
  unfold update3 in H.
  unfold a_below in H. rewrite (@a_range_spec _ _ Unb (Excl a) HA) in H
    by (cbn [lo_of hi_of]; pose proof (proj1 (linked_bounds Hl)); pose proof (HB a Ha); lia).
  cbn [bind lo_of hi_of] in H. bind_inv H. rename a0 into M1.
  unfold a_between in H. rewrite (@a_range_spec _ _ (Incl a) (Excl b) HA) in H
    by (cbn [lo_of hi_of]; pose proof (HB a Ha); pose proof (HB b Hb); lia).
  cbn [bind lo_of hi_of] in H. rewrite (filter_between_sorted Hsorted Ha Hab) in H.
  bind_inv H. rename a0 into M2.
  rewrite (@a_above_spec (st_active s) L b HA Hb) in H. cbn [bind] in H.
  set (xs1 := filter (in_range (a_start (st_active s)) a) L) in *.
  set (xs2 := filter (fun z => (a <? z) && (z <? b)) L) in *.
  set (xs3 := filter (fun z => b <? z) L) in *.
  assert (X1 : forall x, In x xs1 <-> In x L /\ x < a).
  { intros x. unfold xs1. rewrite filter_In. unfold in_range. split.
    - intros [Hx Hr]. apply Bool.andb_true_iff in Hr. destruct Hr as [_ Hr]. apply Nat.ltb_lt in Hr. tauto.
    - intros [Hx Hr]. split; [exact Hx|]. apply Bool.andb_true_iff. split; [|apply Nat.ltb_lt; exact Hr].
      apply Nat.leb_le. apply (linked_bounds Hl) in Hx. lia. }
  assert (X2 : forall x, In x xs2 <-> In x L /\ a < x /\ x < b).
  { intros x. unfold xs2. rewrite filter_In, Bool.andb_true_iff, !Nat.ltb_lt. tauto. }
  assert (X3 : forall x, In x xs3 <-> In x L /\ b < x).
  { intros x. unfold xs3. rewrite filter_In, Nat.ltb_lt. tauto. }
  pose proof (HB a Ha) as Han. pose proof (HB b Hb) as Hbn.
  (* loop 1 *)
  destruct (@fold_upd_spec meth (st_sizes s) (fun x => (x, a)) (fun x => (x, b)) dist sa sb (m_obs M) xs1 M M1
              (NoDup_filter _ HndL)) as (Hwf1 & Ho1 & In1 & Out1); try assumption; try reflexivity.
  { intros x Hx. apply X1 in Hx. cbn [fst snd]. lia. }
  { intros x y _ _ Hxy Eq. inversion Eq. contradiction. }
  { intros x y Hx Hy Eq. inversion Eq. lia. }
  (* loop 2 *)
  destruct (@fold_upd_spec meth (st_sizes s) (fun x => (a, x)) (fun x => (x, b)) dist sa sb (m_obs M) xs2 M1 M2
              (NoDup_filter _ HndL)) as (Hwf2 & Ho2 & In2 & Out2); try assumption.
  { intros x Hx. apply X2 in Hx. cbn [fst snd]. lia. }
  { intros x y _ _ Hxy Eq. inversion Eq. contradiction. }
  { intros x y Hx Hy Eq. inversion Eq. apply X2 in Hx. apply X2 in Hy. lia. }
  (* loop 3 *)
  destruct (@fold_upd_spec meth (st_sizes s) (fun x => (a, x)) (fun x => (b, x)) dist sa sb (m_obs M) xs3 M2 M'
              (NoDup_filter _ HndL)) as (Hwf3 & Ho3 & In3 & Out3); try assumption.
  { intros x Hx. apply X3 in Hx. pose proof (HB x (proj1 Hx)). cbn [fst snd]. lia. }
  { intros x y _ _ Hxy Eq. inversion Eq. contradiction. }
  { intros x y Hx Hy Eq. inversion Eq. lia. }
  split; [exact Hwf3|]. split; [exact Ho3|]. split.
  - intros x Hx Hxa Hxb. pose proof (HB x Hx) as Hxn. unfold wcell.
    destruct (Nat.lt_trichotomy x a) as [Hlt|[Heq|Hgt]]; [|contradiction|].
    + (* x < a < b: loop 1 *)
      rewrite !Nat.min_l, !Nat.max_r by lia.
      destruct (In1 x (proj2 (X1 x) (conj Hx Hlt))) as (va & vb & sx & Ca & Cb & Esx & Cn). cbn [fst snd] in *.
      exists va, vb, sx. split; [exact Ca|]. split; [exact Cb|]. split; [exact Esx|].
      rewrite Out3 by (try lia; intros z Hz Eq; inversion Eq; apply X3 in Hz; lia).
      rewrite Out2 by (try lia; intros z Hz Eq; inversion Eq; apply X2 in Hz; lia). exact Cn.
    + destruct (Nat.lt_trichotomy x b) as [Hlt|[Heq|Hgt2]]; [|contradiction|].
      * (* a < x < b: loop 2 *)
        rewrite (Nat.min_r x a), (Nat.max_l x a), (Nat.min_l x b), (Nat.max_r x b) by lia.
        destruct (In2 x (proj2 (X2 x) (conj Hx (conj Hgt Hlt)))) as (va & vb & sx & Ca & Cb & Esx & Cn). cbn [fst snd] in *.
        rewrite Out1 in Ca by (try lia; intros z Hz Eq; inversion Eq; apply X1 in Hz; lia).
        rewrite Out1 in Cb by (try lia; intros z Hz Eq; inversion Eq; apply X1 in Hz; lia).
        exists va, vb, sx. split; [exact Ca|]. split; [exact Cb|]. split; [exact Esx|].
        rewrite Out3 by (try lia; intros z Hz Eq; inversion Eq; apply X3 in Hz; lia). exact Cn.
      * (* a < b < x: loop 3 *)
        rewrite (Nat.min_r x a), (Nat.max_l x a), (Nat.min_r x b), (Nat.max_l x b) by lia.
        destruct (In3 x (proj2 (X3 x) (conj Hx Hgt2))) as (va & vb & sx & Ca & Cb & Esx & Cn). cbn [fst snd] in *.
        rewrite Out2 in Ca by (try lia; intros z Hz Eq; inversion Eq; apply X2 in Hz; lia).
        rewrite Out1 in Ca by (try lia; intros z Hz Eq; inversion Eq; apply X1 in Hz; lia).
        rewrite Out2 in Cb by (try lia; intros z Hz Eq; inversion Eq; apply X2 in Hz; lia).
        rewrite Out1 in Cb by (try lia; intros z Hz Eq; inversion Eq; apply X1 in Hz; lia).
        exists va, vb, sx. repeat split; assumption.
  - intros r c Hrc Hc Hnt.
    rewrite Out3 by (try assumption; intros z Hz Eq; apply X3 in Hz; destruct Hz as [Hz Hzb];
                     apply (Hnt z Hz ltac:(lia) ltac:(lia)); rewrite Nat.min_r, Nat.max_l by lia; exact Eq).
    rewrite Out2 by (try assumption; intros z Hz Eq; apply X2 in Hz; destruct Hz as [Hz [Hz1 Hz2]];
                     apply (Hnt z Hz ltac:(lia) ltac:(lia)); rewrite Nat.min_l, Nat.max_r by lia; exact Eq).
    apply Out1; try assumption. intros z Hz Eq. apply X1 in Hz. destruct Hz as [Hz Hza].
    apply (Hnt z Hz ltac:(lia) ltac:(lia)). rewrite Nat.min_l, Nat.max_r by lia. exact Eq.
Qed.

End UpdateSpec.
