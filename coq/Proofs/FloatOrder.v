(* The order laws that the carrier-generic theorems take as hypotheses,
   discharged for the two carriers the correspondence check evaluates the
   model on: IEEE binary32 (Flocq binary_float 24 128) and binary64 (Coq's
   primitive floats, through Flocq's PrimFloat equivalence).

   `<` is irreflexive and transitive on ALL values (NaN included);
   on non-NaN values it is a strict weak order and `==` is consistent with it.

   These proofs go through the real-number semantics of Flocq, so they depend
   on the axioms of Coq's classical real numbers (listed by Print Assumptions
   under the theorems that use them). *)
From Coq Require Import ZArith Reals Lra Floats.
From Flocq Require Import Core.Zaux Core.Raux Core.Defs Core.Generic_fmt Core.FLX Core.FLT IEEE754.BinarySingleNaN IEEE754.PrimFloat.

Section Order.
Variables prec emax : Z.
Context (prec_gt_0_ : FLX.Prec_gt_0 prec).
Context (prec_lt_emax_ : Prec_lt_emax prec emax).

Notation bf := (binary_float prec emax).

Local Open Scope R_scope.

(* an order-embedding of the non-NaN floats into the reals *)
Definition score (x : bf) : R :=
  match x with
  | B754_infinity false => 2 * bpow radix2 emax
  | B754_infinity true => - (2 * bpow radix2 emax)
  | B754_nan => 0
  | _ => B2R x
  end.

Lemma finite_score (x : bf) : is_finite x = true -> score x = B2R x /\ Rabs (B2R x) < bpow radix2 emax.
Proof.
  intros H. split; [destruct x as [s|[|]| |s m e B]; try reflexivity; discriminate|].
  apply abs_B2R_lt_emax.
Qed.

Lemma Bltb_score (x y : bf) : is_nan x = false -> is_nan y = false ->
  Bltb x y = Rlt_bool (score x) (score y).
Proof.
  intros Hx Hy.
  assert (Hp : 0 < bpow radix2 emax) by apply bpow_gt_0.
  destruct (is_finite x) eqn:Fx, (is_finite y) eqn:Fy.
  - rewrite (Bltb_correct _ _ x y Fx Fy).
    rewrite (proj1 (finite_score x Fx)), (proj1 (finite_score y Fy)). reflexivity.
  - (* y infinite *)
    destruct (finite_score x Fx) as [Sx Bx]. rewrite Sx.
    apply Rabs_def2 in Bx.
    destruct y as [s|[|]| |s m e B]; try discriminate; cbn [score].
    + (* -inf *) rewrite Rlt_bool_false by lra. now destruct x as [s|[|]| |s m e B].
    + rewrite Rlt_bool_true by lra. now destruct x as [s|[|]| |s m e B].
  - destruct (finite_score y Fy) as [Sy By]. rewrite Sy.
    apply Rabs_def2 in By.
    destruct x as [s|[|]| |s m e B]; try discriminate; cbn [score].
    + rewrite Rlt_bool_true by lra. now destruct y as [s|[|]| |s m e B].
    + rewrite Rlt_bool_false by lra. now destruct y as [s|[|]| |s m e B].
  - destruct x as [s|[|]| |s m e B]; try discriminate; destruct y as [s'|[|]| |s' m' e' B']; try discriminate; cbn [score].
    + rewrite Rlt_bool_false by lra. reflexivity.
    + rewrite Rlt_bool_true by lra. reflexivity.
    + rewrite Rlt_bool_false by lra. reflexivity.
    + rewrite Rlt_bool_false by lra. reflexivity.
Qed.

Lemma Bltb_nan_l (x y : bf) : is_nan x = true -> Bltb x y = false.
Proof. destruct x as [s|[|]| |s m e B]; try discriminate. reflexivity. Qed.

Lemma Bltb_nan_r (x y : bf) : is_nan y = true -> Bltb x y = false.
Proof. destruct y as [s|[|]| |s m e B]; try discriminate. now destruct x as [s|[|]| |s m e B]. Qed.

Lemma Bltb_true_not_nan (x y : bf) : Bltb x y = true -> is_nan x = false /\ is_nan y = false.
Proof.
  intros H. split.
  - destruct (is_nan x) eqn:E; [rewrite (Bltb_nan_l x y E) in H; discriminate|reflexivity].
  - destruct (is_nan y) eqn:E; [rewrite (Bltb_nan_r x y E) in H; discriminate|reflexivity].
Qed.

Theorem Bltb_irrefl (x : bf) : Bltb x x = false.
Proof.
  destruct (is_nan x) eqn:E; [apply Bltb_nan_l; exact E|].
  rewrite (Bltb_score x x E E). apply Rlt_bool_false. lra.
Qed.

Theorem Bltb_trans (x y z : bf) : Bltb x y = true -> Bltb y z = true -> Bltb x z = true.
Proof.
  intros H1 H2. destruct (Bltb_true_not_nan _ _ H1) as [Nx Ny]. destruct (Bltb_true_not_nan _ _ H2) as [_ Nz].
  rewrite (Bltb_score x y Nx Ny) in H1. rewrite (Bltb_score y z Ny Nz) in H2. rewrite (Bltb_score x z Nx Nz).
  revert H1 H2. case Rlt_bool_spec; [|discriminate]. intros A _. case Rlt_bool_spec; [|discriminate]. intros B _.
  apply Rlt_bool_true. lra.
Qed.

Theorem Bltb_negtrans (x y z : bf) : is_nan x = false -> is_nan y = false -> is_nan z = false ->
  Bltb x y = false -> Bltb y z = false -> Bltb x z = false.
Proof.
  intros Nx Ny Nz H1 H2.
  rewrite (Bltb_score x y Nx Ny) in H1. rewrite (Bltb_score y z Ny Nz) in H2. rewrite (Bltb_score x z Nx Nz).
  revert H1 H2. case Rlt_bool_spec; [discriminate|]. intros A _. case Rlt_bool_spec; [discriminate|]. intros B _.
  apply Rlt_bool_false. lra.
Qed.

Lemma Beqb_score (x y : bf) : is_nan x = false -> is_nan y = false ->
  Beqb x y = Req_bool (score x) (score y).
Proof.
  intros Hx Hy.
  assert (Hp : 0 < bpow radix2 emax) by apply bpow_gt_0.
  destruct (is_finite x) eqn:Fx, (is_finite y) eqn:Fy.
  - rewrite (Beqb_correct _ _ x y Fx Fy).
    rewrite (proj1 (finite_score x Fx)), (proj1 (finite_score y Fy)). reflexivity.
  - destruct (finite_score x Fx) as [Sx Bx]. rewrite Sx. apply Rabs_def2 in Bx.
    destruct y as [s|[|]| |s m e B]; try discriminate; cbn [score];
      (rewrite Req_bool_false by lra); now destruct x as [s|[|]| |s m e B].
  - destruct (finite_score y Fy) as [Sy By]. rewrite Sy. apply Rabs_def2 in By.
    destruct x as [s|[|]| |s m e B]; try discriminate; cbn [score];
      (rewrite Req_bool_false by lra); now destruct y as [s|[|]| |s m e B].
  - destruct x as [s|[|]| |s m e B]; try discriminate; destruct y as [s'|[|]| |s' m' e' B']; try discriminate; cbn [score].
    + rewrite Req_bool_true by lra. reflexivity.
    + rewrite Req_bool_false by lra. reflexivity.
    + rewrite Req_bool_false by lra. reflexivity.
    + rewrite Req_bool_true by lra. reflexivity.
Qed.

Lemma Beqb_true_not_nan (x y : bf) : Beqb x y = true -> is_nan x = false /\ is_nan y = false.
Proof.
  intros H. split.
  - destruct x as [s|[|]| |s m e B]; try reflexivity. discriminate.
  - destruct y as [s|[|]| |s m e B]; try reflexivity. now destruct x as [s|[|]| |s m e B].
Qed.

Theorem Beqb_not_lt (x y : bf) : Beqb x y = true -> Bltb y x = false.
Proof.
  intros H. destruct (Beqb_true_not_nan _ _ H) as [Nx Ny].
  rewrite (Beqb_score x y Nx Ny) in H. rewrite (Bltb_score y x Ny Nx).
  revert H. case Req_bool_spec; [|discriminate]. intros A _. apply Rlt_bool_false. lra.
Qed.

(* the correctly rounded square root is monotone for `<=` as the comparison sees
   it (x <= y or one of them NaN), on ALL values: a negative argument gives NaN,
   which compares false with everything *)
Lemma score_le_top (a : bf) : is_nan a = false -> score a <= 2 * bpow radix2 emax.
Proof.
  intros Ha. assert (Hp : 0 < bpow radix2 emax) by apply bpow_gt_0.
  destruct (is_finite a) eqn:Fa.
  - destruct (finite_score a Fa) as [Sa Ba]. rewrite Sa. apply Rabs_def2 in Ba. lra.
  - destruct a as [s|[|]| |s m e B]; try discriminate; cbn [score]; lra.
Qed.

Theorem Bsqrt_mono (x y : bf) : Bltb y x = false -> Bltb (Bsqrt mode_NE y) (Bsqrt mode_NE x) = false.
Proof.
  intros H.
  destruct (is_nan (Bsqrt mode_NE x)) eqn:Nsx; [apply Bltb_nan_r; exact Nsx|].
  destruct (is_nan (Bsqrt mode_NE y)) eqn:Nsy; [apply Bltb_nan_l; exact Nsy|].
  assert (Nx : is_nan x = false) by (destruct x as [s|[|]| |s m e B]; try reflexivity; discriminate).
  assert (Ny : is_nan y = false) by (destruct y as [s|[|]| |s m e B]; try reflexivity; discriminate).
  rewrite (Bltb_score y x Ny Nx) in H. rewrite (Bltb_score _ _ Nsy Nsx). apply Rlt_bool_false.
  revert H. case Rlt_bool_spec; [discriminate|]. intros Hxy _.
  assert (Hp : 0 < bpow radix2 emax) by apply bpow_gt_0.
  destruct (Bsqrt_correct prec emax _ _ mode_NE x) as (Rx & Fx & _).
  destruct (Bsqrt_correct prec emax _ _ mode_NE y) as (Ry & Fy & _).
  (* y = +infinity: the root of x is below the top *)
  destruct y as [sy|[|]| |[|] my ey By]; try discriminate Nsy.
  2: { cbn [Bsqrt]. cbn [score]. apply score_le_top. exact Nsx. }
  - (* y = +-0 *)
    destruct x as [sx|[|]| |[|] mx ex Bx]; try discriminate Nsx.
    + rewrite (proj1 (finite_score _ Fx)), (proj1 (finite_score _ Fy)), Rx, Ry. cbn [B2R]. lra.
    + exfalso. cbn [score B2R] in Hxy. lra.
    + rewrite (proj1 (finite_score _ Fx)), (proj1 (finite_score _ Fy)), Rx, Ry.
      apply round_le; [typeclasses eauto|typeclasses eauto|]. apply sqrt_le_1_alt. exact Hxy.
  - (* y finite positive *)
    destruct x as [sx|[|]| |[|] mx ex Bx]; try discriminate Nsx.
    + rewrite (proj1 (finite_score _ Fx)), (proj1 (finite_score _ Fy)), Rx, Ry.
      apply round_le; [typeclasses eauto|typeclasses eauto|]. apply sqrt_le_1_alt. exact Hxy.
    + exfalso. cbn [score] in Hxy.
      pose proof (abs_B2R_lt_emax _ _ (B754_finite false my ey By)) as Hb. apply Rabs_def2 in Hb. lra.
    + rewrite (proj1 (finite_score _ Fx)), (proj1 (finite_score _ Fy)), Rx, Ry.
      apply round_le; [typeclasses eauto|typeclasses eauto|]. apply sqrt_le_1_alt. exact Hxy.
Qed.

(* x <= y as partial_cmp sees it (x < y, or x == y): preserved by the square root
   whenever neither root is NaN *)
Theorem Bsqrt_le (x y : bf) :
  is_nan (Bsqrt mode_NE x) = false -> is_nan (Bsqrt mode_NE y) = false ->
  Bltb x y = true \/ Beqb x y = true ->
  Bltb (Bsqrt mode_NE x) (Bsqrt mode_NE y) = true
  \/ (Bltb (Bsqrt mode_NE x) (Bsqrt mode_NE y) = false /\ Beqb (Bsqrt mode_NE x) (Bsqrt mode_NE y) = true).
Proof.
  intros Nsx Nsy Hle.
  assert (Hyx : Bltb y x = false).
  { destruct Hle as [H|H]; [|apply Beqb_not_lt; exact H].
    destruct (Bltb y x) eqn:E; [|reflexivity]. pose proof (Bltb_trans _ _ _ H E) as C. rewrite Bltb_irrefl in C. discriminate. }
  pose proof (Bsqrt_mono x y Hyx) as Hm.
  destruct (Bltb (Bsqrt mode_NE x) (Bsqrt mode_NE y)) eqn:E; [left; reflexivity|right]. split; [reflexivity|].
  rewrite (Bltb_score _ _ Nsx Nsy) in E. rewrite (Bltb_score _ _ Nsy Nsx) in Hm. rewrite (Beqb_score _ _ Nsx Nsy).
  revert E Hm. case Rlt_bool_spec; [discriminate|]. intros A _. case Rlt_bool_spec; [discriminate|]. intros B _.
  apply Req_bool_true. lra.
Qed.

End Order.

(* ---- binary64: Coq's primitive floats ---- *)
Section F64.
Local Instance p64 : FLX.Prec_gt_0 FloatOps.prec := eq_refl.
Local Instance e64 : Prec_lt_emax FloatOps.prec FloatOps.emax := eq_refl.

Theorem f64_ltb_irrefl (x : PrimFloat.float) : PrimFloat.ltb x x = false.
Proof. rewrite ltb_equiv. apply Bltb_irrefl. Qed.

Theorem f64_ltb_trans (x y z : PrimFloat.float) :
  PrimFloat.ltb x y = true -> PrimFloat.ltb y z = true -> PrimFloat.ltb x z = true.
Proof. rewrite !ltb_equiv. apply Bltb_trans. Qed.

Theorem f64_ltb_negtrans (x y z : PrimFloat.float) :
  PrimFloat.is_nan x = false -> PrimFloat.is_nan y = false -> PrimFloat.is_nan z = false ->
  PrimFloat.ltb x y = false -> PrimFloat.ltb y z = false -> PrimFloat.ltb x z = false.
Proof. rewrite !is_nan_equiv, !ltb_equiv. apply Bltb_negtrans. Qed.

Theorem f64_eqb_not_lt (x y : PrimFloat.float) : PrimFloat.eqb x y = true -> PrimFloat.ltb y x = false.
Proof. rewrite eqb_equiv, ltb_equiv. apply Beqb_not_lt. Qed.

Theorem f64_sqrt_mono (x y : PrimFloat.float) :
  PrimFloat.ltb y x = false -> PrimFloat.ltb (PrimFloat.sqrt y) (PrimFloat.sqrt x) = false.
Proof. rewrite !ltb_equiv, !sqrt_equiv. apply Bsqrt_mono. Qed.

Theorem f64_sqrt_le (x y : PrimFloat.float) :
  PrimFloat.is_nan (PrimFloat.sqrt x) = false -> PrimFloat.is_nan (PrimFloat.sqrt y) = false ->
  PrimFloat.ltb x y = true \/ PrimFloat.eqb x y = true ->
  PrimFloat.ltb (PrimFloat.sqrt x) (PrimFloat.sqrt y) = true
  \/ (PrimFloat.ltb (PrimFloat.sqrt x) (PrimFloat.sqrt y) = false /\ PrimFloat.eqb (PrimFloat.sqrt x) (PrimFloat.sqrt y) = true).
Proof. rewrite !is_nan_equiv, !ltb_equiv, !eqb_equiv, !sqrt_equiv. apply Bsqrt_le. Qed.
End F64.
