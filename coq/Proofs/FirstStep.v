(* C07, observable consequence, for primitive_with and ALL seven methods: if exactly one
   entry of the (squared, for Ward/centroid/median) matrix is strictly smallest, the first
   returned step merges exactly that pair of observations, has size 2, and its height is
   the post-pass image of that entry.

   Route: the first iteration merges the argmin of the input matrix (prim_iter_facts); for
   the sorting methods every later raw height is not below it (NonNeg.prim_fold_P with the
   predicate "not below v": the update formula never goes below a lower bound of its
   arguments when the merged pair is not farther than the two cells), so the stable sort
   keeps the first raw step first; relabel_cuts then pins the labels of the first returned
   step. Centroid and median are not sorted at all. *)
Require Import KV.Model.Prelude KV.Model.Condensed KV.Model.Active KV.Model.Heap
  KV.Model.UnionFind KV.Model.Dendrogram KV.Model.Methods KV.Model.State KV.Model.Primitive KV.Model.Chain KV.Model.Generic
  KV.Proofs.ResetCanon KV.Proofs.ActiveRefine KV.Proofs.CondensedIdx KV.Proofs.SortProofs KV.Proofs.Monotone
  KV.Proofs.MstCost KV.Proofs.Shape KV.Proofs.PrimitiveGreedy KV.Proofs.Forest KV.Proofs.UnionFindInv
  KV.Proofs.RelabelWF KV.Proofs.PrimitiveWF KV.Proofs.PrimitiveTotal KV.Proofs.UpdateSpec KV.Proofs.ShapeCheck
  KV.Proofs.LWInvariant KV.Proofs.ChainInv KV.Proofs.ChainIter KV.Proofs.ChainCriterion
  KV.Proofs.HeapInv KV.Proofs.GenericInv KV.Proofs.GenericGreedy KV.Proofs.AgreePG KV.Proofs.NonNeg.
From Coq Require Import Permutation.

Set Implicit Arguments.

Section SortHead.
Variable T : Type.
Variable ltb eqb : T -> T -> bool.

Lemma sort_insert_head (x : step T) l l' :
  (forall y, In y l -> ltb (s_dis y) (s_dis x) = false) ->
  sort_insert ltb eqb x l = Ok l' -> exists t, l' = x :: t.
Proof.
  intros Hge H. destruct l as [|y t]; cbn [sort_insert] in H.
  - inversion H. exists []. reflexivity.
  - pose proof (Hge y (or_introl eq_refl)) as Hy. unfold pcmp in H.
    destruct (ltb (s_dis x) (s_dis y)); [inversion H; exists (y :: t); reflexivity|].
    destruct (eqb (s_dis x) (s_dis y)); [inversion H; exists (y :: t); reflexivity|].
    rewrite Hy in H. discriminate.
Qed.

Lemma sort_steps_head (gt_flip : forall a b, pcmp ltb eqb a b = Some Gt -> pcmp ltb eqb b a = Some Lt) (x : step T) l l' :
  (forall y, In y l -> ltb (s_dis y) (s_dis x) = false) ->
  sort_steps ltb eqb (x :: l) = Ok l' -> exists t, l' = x :: t.
Proof.
  intros Hge H. cbn [sort_steps] in H.
  destruct (sort_steps ltb eqb l) as [t'| |] eqn:E; cbn [bind] in H; try discriminate.
  destruct (@sort_steps_ok T ltb eqb gt_flip _ _ E) as [_ Hperm].
  apply (@sort_insert_head x t' l'); [|exact H].
  intros y Hy. apply Hge. apply Permutation_in with t'; [apply Permutation_sym; exact Hperm|exact Hy].
Qed.

(* x is strictly below everything that preceded it and not above anything that followed it *)
Lemma sort_steps_mid (gt_flip : forall a b, pcmp ltb eqb a b = Some Gt -> pcmp ltb eqb b a = Some Lt)
  (ltb_asym : forall a b, ltb a b = true -> ltb b a = false)
  (eqb_nlt : forall a b, eqb a b = true -> ltb b a = false)
  (x : step T) pre post : forall l',
  Forall (fun y => ltb (s_dis x) (s_dis y) = true) pre ->
  (forall y, In y post -> ltb (s_dis y) (s_dis x) = false) ->
  sort_steps ltb eqb (pre ++ x :: post) = Ok l' -> exists t, l' = x :: t.
Proof.
  induction pre as [|y pre IH]; intros l' Hpre Hpost H.
  - exact (@sort_steps_head gt_flip x post l' Hpost H).
  - cbn [app sort_steps] in H.
    destruct (sort_steps ltb eqb (pre ++ x :: post)) as [t'| |] eqn:E; cbn [bind] in H; try discriminate.
    inversion Hpre as [|? ? Hy Hpre']; subst.
    destruct (IH t' Hpre' Hpost eq_refl) as (rest & ->).
    cbn [sort_insert] in H. unfold pcmp in H.
    rewrite (ltb_asym _ _ Hy) in H.
    destruct (eqb (s_dis y) (s_dis x)) eqn:Eq; [apply eqb_nlt in Eq; congruence|].
    rewrite Hy in H.
    destruct (sort_insert ltb eqb y rest) as [t''| |]; cbn [bind] in H; try discriminate.
    inversion H. exists t''. reflexivity.
Qed.
End SortHead.

Section FirstStep.
Variable T : Type.
Variable K : kops T.
Variable p : profile.
Variable meth : method.
Hypothesis ltb_irrefl : forall a, k_ltb K a a = false.
Hypothesis ltb_trans : forall a b c, k_ltb K a b = true -> k_ltb K b c = true -> k_ltb K a c = true.
Hypothesis sizes_irrelevant : uses_sizes_ab meth = false ->
  forall va vb md sa sb sa' sb' sx, k_upd K va vb md sa sb sx = k_upd K va vb md sa' sb' sx.
(* sorting methods: the formula never goes below a lower bound v0 of its three arguments
   when the merged pair is not farther than the two cells *)
(* "finite": a predicate the formula keeps (True for most carriers; "is not the infinite
   sentinel" for option Q) *)
Variable Fin : T -> Prop.
Hypothesis fin_closed : forall va vb md sa sb sx, size_ok meth sa sb sx ->
  Fin va -> Fin vb -> Fin md -> Fin (k_upd K va vb md sa sb sx).
Hypothesis upd_ge : requires_sorting meth = true ->
  forall v0 va vb md sa sb sx, size_ok meth sa sb sx ->
  Fin v0 -> Fin va -> Fin vb -> Fin md ->
  k_ltb K va v0 = false -> k_ltb K vb v0 = false -> k_ltb K md v0 = false ->
  k_ltb K va md = false -> k_ltb K vb md = false ->
  k_ltb K (k_upd K va vb md sa sb sx) v0 = false.

Notation ltb := (k_ltb K).
Notation eqb := (k_eqb K).

Lemma labi1 (n : nat) (l : list (step T)) (t : step T) x :
  nth_error l 0 = Some t -> labi n l 1 x = if (x =? s_c1 t) || (x =? s_c2 t) then n + 0 else x.
Proof. intros E. cbn [labi]. rewrite E. reflexivity. Qed.

(* the relabelling part: a forest of raw steps that starts with (a, b, v) and, for the sorting
   methods, has no later height below v *)
Lemma relabel_first_gen (u u2 : ufind) (d1 d2 : dend T) (n0 a b : nat) (v : T) (sz : nat) :
  2 <= n0 -> d_obs d1 = n0 -> length (d_steps d1) = n0 - 1 ->
  (forall st, In st (d_steps d1) -> s_c1 st < n0 /\ s_c2 st < n0) ->
  all_nontrivial eq (edges (d_steps d1)) ->
  a < b -> b < n0 ->
  (forall steps0, (if requires_sorting meth then sort_steps ltb eqb (d_steps d1) = Ok steps0 else steps0 = d_steps d1) ->
     exists rest, steps0 = {| s_c1 := a; s_c2 := b; s_dis := v; s_size := sz |} :: rest) ->
  relabel ltb eqb u d1 (requires_sorting meth) = Ok (u2, d2) ->
  exists t, nth_error (d_steps (sqrt_all K d2)) 0 = Some t /\ s_c1 t = a /\ s_c2 t = b /\ s_size t = 2
    /\ s_dis t = k_rt K v.
Proof.
  intros Hn2 Hobs Hlen1 Hends Hnt Hab Hb Hhead0 E0.
  set (x0 := {| s_c1 := a; s_c2 := b; s_dis := v; s_size := sz |}) in *.
  assert (Hhead : exists steps0 rest,
            (if requires_sorting meth then sort_steps ltb eqb (d_steps d1) = Ok steps0 else steps0 = d_steps d1)
            /\ steps0 = x0 :: rest).
  { destruct (requires_sorting meth) eqn:Hsort.
    - destruct (@relabel_heights T ltb eqb _ _ _ _ _ E0) as [_ (l & Hl0 & _)].
      destruct (Hhead0 l Hl0) as (rest & ->). exists (x0 :: rest), rest. split; [exact Hl0|reflexivity].
    - destruct (Hhead0 (d_steps d1) eq_refl) as (rest & Hr). exists (d_steps d1), rest. split; [reflexivity|exact Hr]. }
  destruct Hhead as (steps0 & rest & Hsort0 & Hst0).
  destruct (@relabel_cuts T ltb eqb u d1 (requires_sorting meth) steps0 ltac:(lia) ltac:(rewrite Hobs; exact Hlen1)
              ltac:(rewrite Hobs; exact Hends) Hnt Hsort0) as (u' & d2' & Hrel & Hwfd & Hobs2 & Hdis & Hhist).
  rewrite Hrel in E0. inversion E0; subst u' d2'. clear E0.
  rewrite Hobs in *.
  destruct Hwfd as [Hlen2 Hwfs].
  destruct (nth_error (d_steps d2) 0) as [t2|] eqn:Et2; [|apply nth_error_None in Et2; lia].
  destruct (Hwfs 0 t2 Et2) as (W1 & W2 & _ & W4).
  assert (Hlab : labi n0 (d_steps d2) 1 a = labi n0 (d_steps d2) 1 b).
  { apply (Hhist 1 a b ltac:(lia) ltac:(lia) ltac:(lia)). rewrite Hst0. cbn [firstn edges map edge_of add_edges x0 s_c1 s_c2].
    right. left. split; reflexivity. }
  rewrite !(labi1 n0 _ a Et2), !(labi1 n0 _ b Et2) in Hlab.
  assert (Hc : s_c1 t2 = a /\ s_c2 t2 = b).
  { destruct (Nat.eqb_spec a (s_c1 t2)), (Nat.eqb_spec a (s_c2 t2)), (Nat.eqb_spec b (s_c1 t2)), (Nat.eqb_spec b (s_c2 t2));
      cbn [orb] in Hlab; lia. }
  destruct Hc as [Hc1 Hc2].
  assert (Hd2 : s_dis t2 = v).
  { assert (Hh : nth_error (map (@s_dis T) (d_steps d2)) 0 = Some (s_dis t2)) by (rewrite nth_error_map, Et2; reflexivity).
    rewrite Hdis, Hst0 in Hh. cbn in Hh. inversion Hh. reflexivity. }
  exists (step_set_dis t2 (k_rt K (s_dis t2))).
  split; [unfold sqrt_all; cbn [d_steps]; rewrite nth_error_map, Et2; reflexivity|].
  cbn [step_set_dis s_c1 s_c2 s_size s_dis].
  split; [exact Hc1|]. split; [exact Hc2|]. split; [|rewrite Hd2; reflexivity].
  rewrite W4. unfold csize.
  destruct (Nat.ltb_spec (s_c1 t2) n0), (Nat.ltb_spec (s_c2 t2) n0); lia.
Qed.

Lemma relabel_first (u u2 : ufind) (d1 d2 : dend T) (n0 a b : nat) (v : T) (sz : nat) (news : list (step T)) :
  2 <= n0 -> d_obs d1 = n0 -> length (d_steps d1) = n0 - 1 ->
  (forall st, In st (d_steps d1) -> s_c1 st < n0 /\ s_c2 st < n0) ->
  all_nontrivial eq (edges (d_steps d1)) ->
  d_steps d1 = {| s_c1 := a; s_c2 := b; s_dis := v; s_size := sz |} :: news -> a < b -> b < n0 ->
  (requires_sorting meth = true -> Forall (fun st => ltb (s_dis st) v = false) news) ->
  relabel ltb eqb u d1 (requires_sorting meth) = Ok (u2, d2) ->
  exists t, nth_error (d_steps (sqrt_all K d2)) 0 = Some t /\ s_c1 t = a /\ s_c2 t = b /\ s_size t = 2
    /\ s_dis t = k_rt K v.
Proof.
  intros Hn2 Hobs Hlen1 Hends Hnt Hs1 Hab Hb HFn E0.
  apply (@relabel_first_gen u u2 d1 d2 n0 a b v sz Hn2 Hobs Hlen1 Hends Hnt Hab Hb); [|exact E0].
  intros steps0 Hs0. destruct (requires_sorting meth) eqn:Hsort.
  - rewrite Hs1 in Hs0.
    apply (@sort_steps_head T ltb eqb (@gt_flip T K) _ news steps0); [|exact Hs0].
    intros y Hy. pose proof (HFn eq_refl) as HF. rewrite Forall_forall in HF. exact (HF y Hy).
  - exists news. rewrite Hs0. exact Hs1.
Qed.

(* the predicate "not below v", or nothing for the methods that are not sorted *)
Definition PV (v : T) : T -> Prop := fun w => Fin w /\ (Fin v -> if requires_sorting meth then ltb w v = false else True).

Lemma PV_closed v va vb md sa0 sb0 sx : size_ok meth sa0 sb0 sx ->
  PV v va -> PV v vb -> PV v md -> ltb va md = false -> ltb vb md = false -> PV v (k_upd K va vb md sa0 sb0 sx).
Proof.
  unfold PV. intros Hso [Fa Pa] [Fb Pb] [Fm Pm] La Lb. split; [apply fin_closed; assumption|]. intros Fv.
  specialize (Pa Fv). specialize (Pb Fv). specialize (Pm Fv).
  destruct (requires_sorting meth) eqn:Hsort; [|exact I].
  apply (upd_ge eq_refl); assumption.
Qed.

Lemma PV_cells (M0 : cmat T) L v : Forall Fin (m_data M0) ->
  (forall x y w, In x L -> In y L -> x < y -> wcell M0 x y = Some w -> ltb w v = false) -> CellsP (PV v) M0 L.
Proof.
  intros HFin Hmin x y w Hx Hy Hxy Hw. unfold PV. split.
  { rewrite Forall_forall in HFin. apply HFin. unfold wcell, mcell in Hw. eapply nth_error_In. exact Hw. }
  intros _. destruct (requires_sorting meth); [|exact I]. rewrite <- wcell_mm_ in Hw.
  apply (Hmin (Nat.min x y) (Nat.max x y) w); [| |lia|exact Hw].
  - destruct (Nat.min_spec x y) as [[_ ->]|[_ ->]]; assumption.
  - destruct (Nat.max_spec x y) as [[_ ->]|[_ ->]]; assumption.
Qed.

Lemma PV_news v (news : list (step T)) : Fin v -> Forall (fun st => PV v (s_dis st)) news ->
  requires_sorting meth = true -> Forall (fun st => ltb (s_dis st) v = false) news.
Proof.
  unfold PV. intros Fv H E. rewrite E in H. apply Forall_forall. intros st Hst. rewrite Forall_forall in H.
  exact (proj2 (H st Hst) Fv).
Qed.

(* the merged pair of the first iteration is the unique strict minimum *)
Lemma unique_min_pair (M0 : cmat T) n0 a b v a1 b1 v1 : a < b -> b < n0 -> a1 < b1 -> b1 < n0 ->
  wcell M0 a b = Some v -> wcell M0 a1 b1 = Some v1 ->
  (forall x y w, x < y -> y < n0 -> (x, y) <> (a, b) -> wcell M0 x y = Some w -> ltb v w = true) ->
  (forall x y w, In x (seq 0 n0) -> In y (seq 0 n0) -> x < y -> wcell M0 x y = Some w -> ltb w v1 = false) ->
  a1 = a /\ b1 = b /\ v1 = v.
Proof.
  intros Hab Hb Hab1 Hb1 Hv Hv1 Huniq Hmin.
  destruct (Nat.eq_dec a1 a) as [->|Na].
  - destruct (Nat.eq_dec b1 b) as [->|Nb]; [split; [reflexivity|split; [reflexivity|congruence]]|].
    exfalso. assert (Hne : (a, b1) <> (a, b)) by congruence.
    pose proof (Huniq a b1 v1 Hab1 Hb1 Hne Hv1) as C.
    rewrite (Hmin a b v ltac:(apply in_seq; lia) ltac:(apply in_seq; lia) Hab Hv) in C. discriminate.
  - exfalso. assert (Hne : (a1, b1) <> (a, b)) by congruence.
    pose proof (Huniq a1 b1 v1 Hab1 Hb1 Hne Hv1) as C.
    rewrite (Hmin a b v ltac:(apply in_seq; lia) ltac:(apply in_seq; lia) Hab Hv) in C. discriminate.
Qed.

Lemma seq_split1 n0 : 2 <= n0 -> seq 0 (n0 - 1) = 0 :: seq 1 (n0 - 2).
Proof. intros H. destruct n0 as [|[|k]]; [lia|lia|]. cbn [Nat.sub seq]. rewrite Nat.sub_0_r. reflexivity. Qed.

Theorem primitive_first_step s d m n s' d' m' (M0 : cmat T) (a b : nat) (v : T) :
  Forall Fin (square_all K m) ->
  primitive_with K p meth s d m n = Ok (s', d', m') ->
  prologue p (square_all K m) n = Ok M0 ->
  a < b -> b < m_obs M0 ->
  wcell M0 a b = Some v ->
  (forall x y w, x < y -> y < m_obs M0 -> (x, y) <> (a, b) -> wcell M0 x y = Some w -> ltb v w = true) ->
  exists t, nth_error (d_steps d') 0 = Some t /\ s_c1 t = a /\ s_c2 t = b /\ s_size t = 2
    /\ s_dis t = k_rt K v.
Proof.
  intros HFin H HM0 Hab Hb Hv Huniq. unfold primitive_with in H. rewrite HM0 in H. cbn [bind] in H.
  set (n0 := m_obs M0) in *.
  destruct (Nat.eqb_spec n0 0) as [Hz|Hz]; [lia|].
  bind_inv H. destruct a0 as [[s1 d1] M1]. bind_inv H. destruct a0 as [u d2]. inversion H; subst s' d' m'. clear H.
  destruct (prologue_wf _ _ _ HM0) as [Hwf Hdata]. rewrite <- Hdata in HFin.
  assert (Fv : Fin v).
  { rewrite Forall_forall in HFin. apply HFin. unfold wcell, mcell in Hv. eapply nth_error_In. exact Hv. }
  pose proof (@prim_init T K s M0 Hwf) as HP0. fold n0 in HP0.
  assert (HF0 : FInv n0 (d_reset d n0) (seq 0 n0)).
  { unfold FInv. cbn [d_reset d_obs d_steps edges map all_nontrivial add_edges length].
    split; [reflexivity|]. split; [intros x Hx; apply in_seq in Hx; lia|]. split; [intros st []|].
    split; [exact I|]. split; [intros x y _ _ Hxy Heq; exact (Hxy Heq)|rewrite seq_length; reflexivity]. }
  destruct (@prim_fold_forest T K p ltb_trans ltb_irrefl meth n0 _ _ _ _ _ _ _ _ HP0 HF0 (seq_NoDup _ _) E)
    as (L' & (Hobs & _ & Hends & Hnt & _ & Hcount) & Hl).
  rewrite !seq_length in Hl.
  assert (Hlen1 : length (d_steps d1) = n0 - 1) by lia.
  rewrite (@seq_split1 n0 ltac:(lia)) in E. cbn [mfold] in E.
  destruct (prim_iter K p meth (st_reset K s n0, d_reset d n0, M0) 0) as [[[sa da] Ma]| |] eqn:E1; cbn [bind] in E; try discriminate.
  destruct (@prim_iter_facts T K p meth ltb_irrefl ltb_trans sizes_irrelevant _ _ _ _ _ _ _ _ HP0 E1)
    as (a1 & b1 & v1 & za & zb & Ha1 & Hb1 & Hab1 & Hv1 & Hmin & Hza & Hzb & Hsteps & Hobs1 & HP1 & Hmf).
  apply in_seq in Ha1. apply in_seq in Hb1.
  destruct (@unique_min_pair M0 n0 a b v a1 b1 v1 Hab Hb Hab1 ltac:(lia) Hv Hv1 Huniq Hmin) as (-> & -> & ->).
  cbn [d_reset d_steps app] in Hsteps.
  assert (Hnew : step_new a b v (za + zb) = {| s_c1 := a; s_c2 := b; s_dis := v; s_size := za + zb |}).
  { unfold step_new. destruct (Nat.ltb_spec b a); [lia|reflexivity]. }
  assert (Ha : In a (seq 0 n0)) by (apply in_seq; lia).
  assert (Hbi : In b (seq 0 n0)) by (apply in_seq; lia).
  pose proof (@spos_init T K s n0) as HS0.
  destruct (@cells_step T K meth (PV v) (@PV_closed v) _ _ _ _ _ _ _ _ Hmf (@PV_cells M0 _ v HFin Hmin) HS0 Ha Hbi ltac:(lia)
              (@far_of_min T K M0 (seq 0 n0) a b v Hmin Ha Hbi)) as [_ HC1].
  pose proof (@spos_step T K meth _ _ _ _ _ _ _ _ Hmf HS0 Ha Hbi) as HS1.
  destruct (@prim_fold_P T K p meth ltb_irrefl ltb_trans (PV v) (@PV_closed v) sizes_irrelevant _ _ _ _ _ _ _ _ _ HP1 HC1 HS1 E)
    as (news & Hs1 & HFn).
  rewrite Hsteps, Hnew in Hs1. cbn [app] in Hs1.
  exact (@relabel_first _ _ _ _ n0 a b v _ news ltac:(lia) Hobs Hlen1 Hends Hnt Hs1 Hab Hb (@PV_news v news Fv HFn) E0).
Qed.

(* ---- generic ---- *)
Section Gen.
Hypothesis ltb_negtrans : forall a b c, k_ltb K a b = false -> k_ltb K b c = false -> k_ltb K a c = false.
Hypothesis eqb_refl : forall a, k_eqb K a a = true.
Hypothesis eqb_le : forall u v, k_eqb K u v = true -> k_ltb K v u = false.
Hypothesis upd_below_max : forall va vb md sa sb sx,
  k_ltb K va (k_inf K) = true -> k_ltb K vb (k_inf K) = true -> k_ltb K md (k_inf K) = true ->
  k_ltb K (k_upd K va vb md sa sb sx) (k_inf K) = true.
Hypothesis rename_reducible : below_kind_of meth = BelowRename ->
  forall va vb md sa sb sx, (uses_sizes_ab meth = true -> 0 < sa /\ 0 < sb) ->
  k_ltb K va md = false -> k_ltb K vb md = false ->
  k_ltb K (k_upd K va vb md sa sb sx) va = false \/ k_ltb K (k_upd K va vb md sa sb sx) vb = false.
Hypothesis untracked_grows : tracks_candidates meth = false ->
  forall va vb md sa sb sx, k_ltb K (k_upd K va vb md sa sb sx) vb = false.

Theorem generic_first_step s d m n s' d' m' (M0 : cmat T) (a b : nat) (v : T) :
  Forall (fun w => ltb w (k_inf K) = true) (square_all K m) ->
  Forall Fin (square_all K m) ->
  generic_with K p meth s d m n = Ok (s', d', m') ->
  prologue p (square_all K m) n = Ok M0 ->
  a < b -> b < m_obs M0 ->
  wcell M0 a b = Some v ->
  (forall x y w, x < y -> y < m_obs M0 -> (x, y) <> (a, b) -> wcell M0 x y = Some w -> ltb v w = true) ->
  exists t, nth_error (d_steps d') 0 = Some t /\ s_c1 t = a /\ s_c2 t = b /\ s_size t = 2
    /\ s_dis t = k_rt K v.
Proof.
  intros Hall HFin H HM0 Hab Hb Hv Huniq. unfold generic_with in H. rewrite HM0 in H. cbn [bind] in H.
  destruct (Nat.eqb_spec (m_obs M0) 0) as [Hz|Hz]; [lia|].
  destruct (prologue_wf _ _ _ HM0) as [Hwf Hdata].
  assert (HFin0 : Forall Fin (m_data M0)) by (rewrite Hdata; exact HFin).
  assert (Fv : Fin v).
  { rewrite Forall_forall in HFin0. apply HFin0. unfold wcell, mcell in Hv. eapply nth_error_In. exact Hv. }
  set (n0 := m_obs M0) in *.
  assert (EM : M0 = {| m_data := square_all K m; m_obs := n0 |}) by (destruct M0; cbn in *; subst; reflexivity).
  assert (Hlen : length (square_all K m) = n0 * (n0 - 1) / 2) by (unfold wf_mat in Hwf; rewrite <- Hdata; exact Hwf).
  destruct (@generic_init T K p ltb_irrefl ltb_trans s d m n0 Hz Hlen Hall) as (s1 & Hinit & HG0).
  pose proof (@generic_init_lb T K p ltb_irrefl ltb_trans s d m n0 Hz Hlen Hall s1 Hinit) as HLB0.
  cbn zeta in Hinit, HG0, HLB0. rewrite <- EM in Hinit, HG0, HLB0.
  destruct (mfold (init_row K p M0) (seq 0 (n0 - 1))
              (h_prio (h_heapify_pre (k_inf K) (st_queue (st_reset K s n0))), st_nearest (st_reset K s n0)))
    as [[dists nearest]| |]; cbn [bind] in Hinit, H; try discriminate.
  destruct (h_heapify_post (k_ltb K) (h_heapify_pre (k_inf K) (st_queue (st_reset K s n0))) dists) as [q1| |];
    cbn [bind] in Hinit, H; try discriminate.
  inversion Hinit as [Es1]. rewrite Es1 in H.
  assert (HSP0 : SPos (st_sizes s1) (seq 0 n0)).
  { rewrite <- Es1. cbn [st_with_nearest st_with_queue st_sizes]. apply spos_init. }
  (* forest facts of the whole raw run *)
  assert (HF0 : FInv n0 (d_reset d n0) (seq 0 n0)).
  { unfold FInv. cbn [d_reset d_obs d_steps edges map all_nontrivial add_edges length].
    split; [reflexivity|]. split; [intros x Hx; apply in_seq in Hx; lia|]. split; [intros st []|].
    split; [exact I|]. split; [intros x y _ _ Hxy Heq; exact (Hxy Heq)|rewrite seq_length; reflexivity]. }
  destruct (@gen_fold_progress T K p meth ltb_irrefl ltb_trans ltb_negtrans eqb_refl upd_below_max n0 (n0 - 1) 0 _ _ _ _ HG0 HF0
              ltac:(rewrite seq_length; lia))
    as (s2 & d1 & M1 & L1 & Hfold & _ & (Hobs & _ & Hends & Hnt & _ & Hcount) & Hl1).
  rewrite seq_length in Hl1.
  assert (Hlen1 : length (d_steps d1) = n0 - 1) by lia.
  rewrite Hfold in H. cbn [bind] in H.
  bind_inv H. destruct a0 as [u d2]. inversion H; subst s' d' m'. clear H.
  (* the first iteration *)
  rewrite (@seq_split1 n0 ltac:(lia)) in Hfold. cbn [mfold] in Hfold.
  destruct (@gen_iter_step_ext T K p meth ltb_irrefl ltb_trans ltb_negtrans eqb_refl upd_below_max n0 s1 (d_reset d n0) M0 (seq 0 n0) 0 HG0
              ltac:(rewrite seq_length; lia))
    as (sa & da & Ma & a1 & b1 & v1 & sz & Hstep & Ha1 & Hb1 & Hab1 & Hsteps & HI1 & Hmf).
  rewrite Hstep in Hfold. cbn [bind] in Hfold.
  destruct (@gen_iter_greedy T K p meth ltb_irrefl ltb_trans ltb_negtrans eqb_refl upd_below_max rename_reducible untracked_grows eqb_le
              n0 s1 (d_reset d n0) M0 (seq 0 n0) 0 HG0 HLB0 HSP0 ltac:(rewrite seq_length; lia) sa da Ma a1 b1 v1 sz Hstep Hsteps Hab1)
    as (Hmin & HLB1 & _).
  pose proof Hmf as (Hv1 & _).
  apply in_seq in Ha1. apply in_seq in Hb1.
  destruct (@unique_min_pair M0 n0 a b v a1 b1 v1 Hab Hb Hab1 ltac:(lia) Hv Hv1 Huniq Hmin) as (-> & -> & ->).
  cbn [d_reset d_steps app] in Hsteps.
  assert (Hnew : step_new a b v sz = {| s_c1 := a; s_c2 := b; s_dis := v; s_size := sz |}).
  { unfold step_new. destruct (Nat.ltb_spec b a); [lia|reflexivity]. }
  assert (Ha : In a (seq 0 n0)) by (apply in_seq; lia).
  assert (Hbi : In b (seq 0 n0)) by (apply in_seq; lia).
  destruct (@cells_step T K meth (PV v) (@PV_closed v) _ _ _ _ _ _ _ _ Hmf (@PV_cells M0 _ v HFin0 Hmin) HSP0 Ha Hbi ltac:(lia)
              (@far_of_min T K M0 (seq 0 n0) a b v Hmin Ha Hbi)) as [_ HC1].
  pose proof (@spos_step T K meth _ _ _ _ _ _ _ _ Hmf HSP0 Ha Hbi) as HS1.
  pose proof (without_length a (seq_NoDup n0 0) Ha) as Hwl. rewrite seq_length in Hwl.
  destruct (@gen_fold_P T K p meth ltb_irrefl ltb_trans (PV v) (@PV_closed v) ltb_negtrans eqb_refl eqb_le upd_below_max
              rename_reducible untracked_grows n0 (n0 - 2) 1 _ _ _ _ HI1 HLB1 HC1 HS1 ltac:(lia))
    as (s3 & d3 & M3 & news & Hf3 & Hs3 & HFn).
  rewrite Hf3 in Hfold. inversion Hfold; subst s3 d3 M3.
  rewrite Hsteps, Hnew in Hs3. cbn [app] in Hs3.
  exact (@relabel_first _ _ _ _ n0 a b v _ news ltac:(lia) Hobs Hlen1 Hends Hnt Hs3 Hab Hb (@PV_news v news Fv HFn) E).
Qed.

End Gen.

(* ---- nnchain: the unique strict minimum is a reciprocal nearest neighbour pair from the start and
   stays one until it is merged; every merge before it is strictly higher, every merge after it is
   not lower, so the stable sort puts it first ---- *)
Section Chain.
Hypothesis ltb_negtrans : forall a b c, k_ltb K a b = false -> k_ltb K b c = false -> k_ltb K a c = false.
Hypothesis eqb_nlt : forall a b, k_eqb K a b = true -> k_ltb K b a = false.
Hypothesis reducible : forall va vb md sa sb sx, size_ok meth sa sb sx ->
  k_ltb K va md = false -> k_ltb K vb md = false ->
  k_ltb K (k_upd K va vb md sa sb sx) va = false \/ k_ltb K (k_upd K va vb md sa sb sx) vb = false.
Hypothesis sorting : requires_sorting meth = true.
(* strict version of upd_ge *)
Hypothesis upd_gt : forall v0 va vb md sa sb sx, size_ok meth sa sb sx ->
  Fin v0 -> Fin va -> Fin vb -> Fin md ->
  k_ltb K v0 va = true -> k_ltb K v0 vb = true -> k_ltb K v0 md = true ->
  k_ltb K va md = false -> k_ltb K vb md = false ->
  k_ltb K v0 (k_upd K va vb md sa sb sx) = true.

Lemma ltb_asym x y : ltb x y = true -> ltb y x = false.
Proof.
  intros H. destruct (ltb y x) eqn:C; [|reflexivity]. pose proof (ltb_trans _ _ _ H C) as C2. rewrite ltb_irrefl in C2. discriminate.
Qed.

(* (a, b) is live at value v and every other live cell is finite and strictly above v *)
Definition JInv (a b : nat) (v : T) (M : cmat T) (L : list nat) : Prop :=
  In a L /\ In b L /\ wcell M a b = Some v
  /\ forall x y w, In x L -> In y L -> x <> y -> ~ (x = a /\ y = b) -> ~ (x = b /\ y = a) -> wcell M x y = Some w ->
       Fin w /\ ltb v w = true.

Lemma jinv_step a b v s s' (M M' : cmat T) L a' b' v' : a <> b -> Fin v ->
  merge_facts K meth s s' M M' L a' b' v' -> JInv a b v M L -> SPos (st_sizes s) L ->
  In a' L -> In b' L -> a' <> b' -> a' <> a -> a' <> b -> b' <> a -> b' <> b ->
  (forall x w, In x L -> x <> a' -> x <> b' -> (wcell M x a' = Some w \/ wcell M x b' = Some w) -> ltb w v' = false) ->
  JInv a b v M' (without a' L).
Proof.
  intros Hab Fv (Hcab & za & zb & sa & sb & Hza & Hzb & Hsz' & Hsab & Hin & Hsame) (Ja & Jb & Jv & Jall) HSP Ha' Hb' Hne N1 N2 N3 N4 Hfar.
  destruct (Jall a' b' v' Ha' Hb' Hne ltac:(intros [? ?]; congruence) ltac:(intros [? ?]; congruence) Hcab) as [Fv' Lv'].
  assert (Hgen : forall x w, In x L -> x <> a' -> x <> b' -> wcell M' x b' = Some w -> Fin w /\ ltb v w = true).
  { intros x w Hx Hxa Hxb Hw. destruct (Hin x Hx Hxa Hxb) as (va & vb & sx & Ca & Cb & Esx & Cn).
    rewrite Cn in Hw. inversion Hw; subst w.
    destruct (Jall x a' va Hx Ha' Hxa ltac:(intros [? ?]; congruence) ltac:(intros [? ?]; congruence) Ca) as [Fa La].
    destruct (Jall x b' vb Hx Hb' Hxb ltac:(intros [? ?]; congruence) ltac:(intros [? ?]; congruence) Cb) as [Fb Lb].
    assert (Hso : size_ok meth sa sb sx).
    { split.
      + intros U. rewrite U in Hsab. destruct Hsab as [-> ->].
        destruct (HSP a' Ha') as (qa & Eqa & Pa). destruct (HSP b' Hb') as (qb & Eqb & Pb).
        assert (qa = za) by congruence. assert (qb = zb) by congruence. subst. split; assumption.
      + intros U. rewrite U in Esx. destruct (HSP x Hx) as (qx & Eqx & Px). unfold vget in Esx. rewrite Eqx in Esx. inversion Esx; subst. exact Px. }
    split; [apply fin_closed; assumption|].
    apply upd_gt; try assumption.
    - exact (Hfar x va Hx Hxa Hxb (or_introl Ca)).
    - exact (Hfar x vb Hx Hxa Hxb (or_intror Cb)). }
  split; [apply without_In; split; [exact Ja|congruence]|].
  split; [apply without_In; split; [exact Jb|congruence]|].
  split.
  { rewrite (Hsame a b Ja Jb Hab ltac:(congruence) ltac:(congruence) ltac:(congruence) ltac:(congruence)). exact Jv. }
  intros x y w Hx Hy Hxy E1 E2 Hw. apply without_In in Hx. apply without_In in Hy.
  destruct Hx as [Hx Hxa], Hy as [Hy Hya].
  destruct (Nat.eq_dec y b') as [->|Hyb]; [exact (Hgen x w Hx Hxa Hxy Hw)|].
  destruct (Nat.eq_dec x b') as [->|Hxb]; [rewrite wcell_sym in Hw; exact (Hgen y w Hy Hya Hyb Hw)|].
  rewrite (Hsame x y Hx Hy Hxy Hxa Hxb Hya Hyb) in Hw. exact (Jall x y w Hx Hy Hxy E1 E2 Hw).
Qed.

Lemma two_in_length (L : list nat) a b : In a L -> In b L -> a <> b -> 2 <= length L.
Proof.
  intros Ha Hb Hab. destruct L as [|x [|y L]]; [destruct Ha| |cbn [length]; lia].
  destruct Ha as [<-|[]], Hb as [<-|[]]. congruence.
Qed.

Lemma chain_fold_first n0 a b v : a < b -> Fin v -> forall (k : nat) i s d M L,
  NInv K n0 s d M L -> JInv a b v M L -> length L = S k ->
  exists s' d' M' pre sz post,
    mfold (chain_iter K p meth) (seq i k) (s, d, M) = Ok (s', d', M')
    /\ d_steps d' = d_steps d ++ pre ++ {| s_c1 := a; s_c2 := b; s_dis := v; s_size := sz |} :: post
    /\ Forall (fun st => ltb v (s_dis st) = true) pre
    /\ Forall (fun st => ltb (s_dis st) v = false) post.
Proof.
  intros Hab Fv. induction k as [|k IH]; intros i s d M L HI HJ Hk.
  - exfalso. destruct HJ as (Ja & Jb & _). pose proof (@two_in_length L a b Ja Jb ltac:(lia)). lia.
  - cbn [seq mfold].
    destruct (@chain_iter_step_ext T K p meth ltb_irrefl ltb_trans ltb_negtrans reducible n0 s d M L i HI ltac:(lia))
      as (s1 & d1 & M1 & a' & b' & v' & sz & Hstep & Ha' & Hb' & Hab' & Hsteps & HI1 & Hmf & Hfar).
    rewrite Hstep. cbn [bind].
    pose proof HI as (_ & _ & _ & _ & Hnd & _ & Hpos & _).
    pose proof HJ as (Ja & Jb & Jv & Jall).
    pose proof Hmf as (Hv' & _).
    pose proof (without_length a' Hnd Ha') as Hwl.
    assert (Hnew : step_new a' b' v' sz = {| s_c1 := a'; s_c2 := b'; s_dis := v'; s_size := sz |}).
    { unfold step_new. destruct (Nat.ltb_spec b' a'); [lia|reflexivity]. }
    assert (Jv' : wcell M b a = Some v) by (rewrite wcell_sym; exact Jv).
    (* a merge that touches a or b is the merge of (a, b) *)
    assert (Hcase : (a' = a /\ b' = b) \/ (a' <> a /\ a' <> b /\ b' <> a /\ b' <> b)).
    { destruct (Nat.eq_dec a' a) as [Ea|Na]; [destruct (Nat.eq_dec b' b) as [Eb|Nb]; [left; split; assumption|]|].
      - exfalso. subst a'.
        destruct (Jall a b' v' Ha' Hb' ltac:(lia) ltac:(intros [? ?]; congruence) ltac:(intros [? ?]; lia) Hv') as [_ C].
        rewrite (Hfar b v Jb ltac:(lia) ltac:(congruence) (or_introl Jv')) in C. discriminate.
      - destruct (Nat.eq_dec a' b) as [Ea|Na2].
        + exfalso. subst a'.
          destruct (Jall b b' v' Ha' Hb' ltac:(lia) ltac:(intros [? ?]; lia) ltac:(intros [? ?]; lia) Hv') as [_ C].
          rewrite (Hfar a v Ja ltac:(lia) ltac:(lia) (or_introl Jv)) in C. discriminate.
        + destruct (Nat.eq_dec b' a) as [Eb|Nb].
          * exfalso. subst b'.
            destruct (Jall a' a v' Ha' Hb' ltac:(lia) ltac:(intros [? ?]; lia) ltac:(intros [? ?]; lia) Hv') as [_ C].
            rewrite (Hfar b v Jb ltac:(congruence) ltac:(lia) (or_intror Jv')) in C. discriminate.
          * destruct (Nat.eq_dec b' b) as [Eb|Nb2]; [|right; repeat split; assumption].
            exfalso. subst b'.
            destruct (Jall a' b v' Ha' Hb' ltac:(lia) ltac:(intros [? ?]; congruence) ltac:(intros [? ?]; lia) Hv') as [_ C].
            rewrite (Hfar a v Ja ltac:(congruence) ltac:(lia) (or_intror Jv)) in C. discriminate. }
    destruct Hcase as [[-> ->]|(N1 & N2 & N3 & N4)].
    + (* the merge of (a, b): from here on nothing is below v *)
      assert (Ev : v' = v) by congruence. subst v'.
      assert (HC : CellsP (PV v) M L).
      { intros x y w Hx Hy Hxy Hw. unfold PV. rewrite sorting.
        destruct (Nat.eq_dec x a) as [->|Nxa].
        - destruct (Nat.eq_dec y b) as [->|Nyb].
          + assert (w = v) by congruence. subst w. split; [exact Fv|intros _; apply ltb_irrefl].
          + destruct (Jall a y w Hx Hy Hxy ltac:(intros [? ?]; congruence) ltac:(intros [? ?]; lia) Hw) as [Fw Lw].
            split; [exact Fw|intros _; exact (ltb_asym _ _ Lw)].
        - destruct (Nat.eq_dec x b) as [->|Nxb].
          + destruct (Nat.eq_dec y a) as [->|Nya].
            * rewrite wcell_sym in Hw. assert (w = v) by congruence. subst w. split; [exact Fv|intros _; apply ltb_irrefl].
            * destruct (Jall b y w Hx Hy Hxy ltac:(intros [? ?]; lia) ltac:(intros [? ?]; congruence) Hw) as [Fw Lw].
              split; [exact Fw|intros _; exact (ltb_asym _ _ Lw)].
          + destruct (Jall x y w Hx Hy Hxy ltac:(intros [? ?]; congruence) ltac:(intros [? ?]; congruence) Hw) as [Fw Lw].
            split; [exact Fw|intros _; exact (ltb_asym _ _ Lw)]. }
      destruct (@cells_step T K meth (PV v) (@PV_closed v) s s1 M M1 L a b v Hmf HC Hpos Ha' Hb' ltac:(lia) Hfar) as [_ HC1].
      destruct (@chain_fold_P T K p meth ltb_irrefl ltb_trans (PV v) (@PV_closed v) ltb_negtrans reducible n0 k (S i) s1 d1 M1 (without a L)
                  HI1 HC1 ltac:(lia)) as (s' & d' & M' & news & Hf & Hs' & HF).
      exists s', d', M', [], sz, news. split; [exact Hf|].
      split; [rewrite Hs', Hsteps, Hnew, <- app_assoc; reflexivity|].
      split; [constructor|]. exact (@PV_news v news Fv HF sorting).
    + (* an unrelated merge: strictly above v *)
      destruct (Jall a' b' v' Ha' Hb' ltac:(lia) ltac:(intros [? ?]; congruence) ltac:(intros [? ?]; congruence) Hv') as [_ Lv'].
      pose proof (@jinv_step a b v s s1 M M1 L a' b' v' ltac:(lia) Fv Hmf HJ Hpos Ha' Hb' ltac:(lia) N1 N2 N3 N4 Hfar) as HJ1.
      destruct (IH (S i) s1 d1 M1 (without a' L) HI1 HJ1 ltac:(lia)) as (s' & d' & M' & pre & sz' & post & Hf & Hs' & Hpre & Hpost).
      exists s', d', M', ({| s_c1 := a'; s_c2 := b'; s_dis := v'; s_size := sz |} :: pre), sz', post.
      split; [exact Hf|]. split; [rewrite Hs', Hsteps, Hnew, <- app_assoc; reflexivity|].
      split; [constructor; [exact Lv'|exact Hpre]|exact Hpost].
Qed.

Theorem nnchain_first_step s d m n s' d' m' (M0 : cmat T) (a b : nat) (v : T) :
  Forall Fin (square_all K m) ->
  nnchain_with K p meth s d m n = Ok (s', d', m') ->
  prologue p (square_all K m) n = Ok M0 ->
  a < b -> b < m_obs M0 ->
  wcell M0 a b = Some v ->
  (forall x y w, x < y -> y < m_obs M0 -> (x, y) <> (a, b) -> wcell M0 x y = Some w -> ltb v w = true) ->
  exists t, nth_error (d_steps d') 0 = Some t /\ s_c1 t = a /\ s_c2 t = b /\ s_size t = 2
    /\ s_dis t = k_rt K v.
Proof.
  intros HFin H HM0 Hab Hb Hv Huniq. unfold nnchain_with in H. rewrite HM0 in H. cbn [bind] in H.
  destruct (Nat.eqb_spec (m_obs M0) 0) as [Hz|Hz]; [lia|].
  destruct (prologue_wf _ _ _ HM0) as [Hwf Hdata].
  assert (HFin0 : Forall Fin (m_data M0)) by (rewrite Hdata; exact HFin).
  assert (Fcell : forall x y w, wcell M0 x y = Some w -> Fin w).
  { intros x y w Hw. rewrite Forall_forall in HFin0. apply HFin0. unfold wcell, mcell in Hw. eapply nth_error_In. exact Hw. }
  pose proof (Fcell a b v Hv) as Fv.
  set (n0 := m_obs M0) in *.
  assert (HI0 : NInv K n0 (st_with_chain (st_reset K s n0) []) (d_reset d n0) M0 (seq 0 n0)).
  { unfold NInv. cbn [st_with_chain st_reset st_active st_sizes st_chain d_reset d_obs d_steps length].
    split; [apply a_reset_inv|]. split; [exact Hwf|]. split; [reflexivity|].
    split; [rewrite a_reset_canonical; cbn; rewrite map_length, seq_length; reflexivity|].
    split; [apply seq_NoDup|]. unfold clear_resize. split; [rewrite vresize_length; reflexivity|].
    split.
    { intros x Hx. apply in_seq in Hx. exists 1. split; [|lia]. unfold vresize. rewrite firstn_nil. cbn [length app].
      rewrite Nat.sub_0_r. apply nth_error_repeat. lia. }
    split; [reflexivity|]. split; [rewrite seq_length; reflexivity|].
    exists [], []. split; [reflexivity|]. split; [right; split; reflexivity|constructor]. }
  assert (HJ0 : JInv a b v M0 (seq 0 n0)).
  { split; [apply in_seq; lia|]. split; [apply in_seq; lia|]. split; [exact Hv|].
    intros x y w Hx Hy Hxy E1 E2 Hw. apply in_seq in Hx. apply in_seq in Hy. split; [exact (Fcell x y w Hw)|].
    destruct (Nat.lt_ge_cases x y) as [Hlt|Hge].
    - apply (Huniq x y w Hlt ltac:(lia)); [intros E; inversion E; subst; apply E1; split; reflexivity|exact Hw].
    - rewrite wcell_sym in Hw. apply (Huniq y x w ltac:(lia) ltac:(lia)); [intros E; inversion E; subst; apply E2; split; reflexivity|exact Hw]. }
  (* forest facts and the shape of the raw trace *)
  assert (HF0 : FInv n0 (d_reset d n0) (seq 0 n0)).
  { unfold FInv. cbn [d_reset d_obs d_steps edges map all_nontrivial add_edges length].
    split; [reflexivity|]. split; [intros x Hx; apply in_seq in Hx; lia|]. split; [intros st []|].
    split; [exact I|]. split; [intros x y _ _ Hxy Heq; exact (Hxy Heq)|rewrite seq_length; reflexivity]. }
  destruct (@chain_fold_progress T K p meth ltb_irrefl ltb_trans ltb_negtrans reducible n0 (n0 - 1) 0 _ _ _ _ HI0 HF0
              ltac:(rewrite seq_length; lia))
    as (s2 & d1 & M1 & L1 & Hfold & _ & (Hobs & _ & Hends & Hnt & _ & Hcount) & Hl1).
  rewrite seq_length in Hl1.
  assert (Hlen1 : length (d_steps d1) = n0 - 1) by lia.
  destruct (@chain_fold_first n0 a b v Hab Fv (n0 - 1) 0 _ _ _ _ HI0 HJ0 ltac:(rewrite seq_length; lia))
    as (s3 & d3 & M3 & pre & sz & post & Hf3 & Hs3 & Hpre & Hpost).
  rewrite Hf3 in Hfold. inversion Hfold; subst s3 d3 M3. clear Hfold.
  rewrite Hf3 in H. cbn [bind] in H. cbn [d_reset d_steps app] in Hs3.
  rewrite sorting in H. bind_inv H. destruct a0 as [u d2]. inversion H; subst s' d' m'. clear H.
  rewrite <- sorting in E.
  eapply (@relabel_first_gen _ _ _ _ n0 a b v sz ltac:(lia) Hobs Hlen1 Hends Hnt Hab Hb); [|exact E].
  intros steps0 Hs0. rewrite sorting in Hs0. rewrite Hs3 in Hs0.
  apply (@sort_steps_mid T ltb eqb (@gt_flip T K) ltb_asym eqb_nlt _ pre post steps0); [exact Hpre| |exact Hs0].
  intros y Hy. rewrite Forall_forall in Hpost. exact (Hpost y Hy).
Qed.

End Chain.

End FirstStep.
