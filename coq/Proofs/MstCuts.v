(* C04 at the level of the RETURNED dendrogram of mst_with (= linkage with the
   single method): applying all returned steps of height <= t - labels read
   as in C01 - yields exactly the connected components of the threshold graph
   on the input matrix, for every t. *)
Require Import KV.Model.Prelude KV.Model.Condensed KV.Model.Active KV.Model.Heap
  KV.Model.UnionFind KV.Model.Dendrogram KV.Model.Methods KV.Model.State KV.Model.Mst
  KV.Proofs.ResetCanon KV.Proofs.ActiveRefine KV.Proofs.SortProofs KV.Proofs.Monotone
  KV.Proofs.MstCost KV.Proofs.Shape KV.Proofs.PrimitiveGreedy KV.Proofs.Forest KV.Proofs.UnionFindInv
  KV.Proofs.RelabelWF KV.Proofs.PrimitiveWF KV.Proofs.MstWF KV.Proofs.UpdateSpec KV.Proofs.PrimThreshold KV.Proofs.MstPrim.
From Coq Require Import Permutation Relations Sorted.

Set Implicit Arguments.

(* add_edges from the discrete partition = reflexive-symmetric-transitive
   closure of the listed pairs *)
Definition pair_in (l : list (nat * nat)) (a b : nat) : Prop := In (a, b) l.

Lemma add_edges_incl (R : rel) l x y : R x y -> add_edges R l x y.
Proof. revert R. induction l as [|[a b] t IH]; intros R H; cbn; [exact H|]. apply IH. left. exact H. Qed.

Lemma add_edges_pair (R : rel) l a b : Forest.equiv R -> In (a, b) l -> add_edges R l a b.
Proof.
  revert R. induction l as [|[a' b'] t IH]; intros R HR Hin; [destruct Hin|]. cbn.
  destruct Hin as [E|Hin].
  - inversion E; subst. apply add_edges_incl. apply add_edge_joins. exact HR.
  - apply IH; [apply add_edge_equiv; exact HR|exact Hin].
Qed.

Lemma add_edges_closure l x y :
  add_edges eq l x y <-> clos_refl_sym_trans nat (pair_in l) x y.
Proof.
  split.
  - assert (G : forall (R : rel) l, (forall u v, R u v -> clos_refl_sym_trans nat (pair_in l) u v) ->
                  forall l0, (forall a b, In (a, b) l0 -> In (a, b) l) ->
                  forall u v, add_edges R l0 u v -> clos_refl_sym_trans nat (pair_in l) u v).
    { intros R l1 HR l0. revert R HR. induction l0 as [|[a b] t IH]; intros R HR Hsub u v H; cbn in H; [apply HR; exact H|].
      apply (IH (add_edge R a b)); [|intros a' b' Hin; apply Hsub; right; exact Hin|exact H].
      assert (Hab : clos_refl_sym_trans nat (pair_in l1) a b) by (apply rst_step; apply Hsub; left; reflexivity).
      intros u' v' [H1|[[H1 H2]|[H1 H2]]].
      - apply HR. exact H1.
      - apply rst_trans with a; [apply HR; exact H1|]. apply rst_trans with b; [exact Hab|apply HR; exact H2].
      - apply rst_trans with b; [apply HR; exact H1|]. apply rst_trans with a; [apply rst_sym; exact Hab|apply HR; exact H2]. }
    apply (G eq l); [intros u v ->; apply rst_refl|auto].
  - pose proof (@add_edges_equiv eq l eq_equiv) as [Er Es Et].
    induction 1 as [a b Hab| | |].
    + apply add_edges_pair; [exact eq_equiv|exact Hab].
    + apply Er.
    + apply Es. assumption.
    + eapply Et; eassumption.
Qed.

Section MstCuts.
Variable T : Type.
Variable K : kops T.
Variable p : profile.
Hypothesis ltb_irrefl : forall a, k_ltb K a a = false.
Hypothesis ltb_trans : forall a b c, k_ltb K a b = true -> k_ltb K b c = true -> k_ltb K a c = true.
Hypothesis ltb_negtrans : forall a b c, k_ltb K a b = false -> k_ltb K b c = false -> k_ltb K a c = false.

Notation le := (le_t (k_ltb K)).

(* the first j steps of `srt` are exactly those of weight <= t *)
Definition cut_at (t : T) (j : nat) (hs : list T) : Prop :=
  forall k h, nth_error hs k = Some h -> (k < j <-> le h t).

Lemma link_perm t (l l' : list (step T)) : Permutation l l' -> forall x y, link (k_ltb K) t l x y -> link (k_ltb K) t l' x y.
Proof.
  intros Hp x y H. induction H as [a b (st & Hin & Hle & Hab)| | |].
  - apply rst_step. exists st. split; [eapply Permutation_in; eassumption|]. split; assumption.
  - apply rst_refl.
  - apply rst_sym. assumption.
  - eapply rst_trans; eassumption.
Qed.

Lemma firstn_In_nth {A} (l : list A) j x : In x (firstn j l) -> exists k, k < j /\ nth_error l k = Some x.
Proof.
  revert j. induction l as [|h t IH]; intros [|j] H; cbn in H; try destruct H.
  - subst. exists 0. split; [lia|reflexivity].
  - destruct (IH j H) as (k & Hk & Hn). exists (S k). split; [lia|exact Hn].
Qed.

Lemma nth_firstn_In {A} (l : list A) j k x : k < j -> nth_error l k = Some x -> In x (firstn j l).
Proof.
  revert j k. induction l as [|h t IH]; intros j k Hk Hn; [destruct k; discriminate|].
  destruct j as [|j]; [lia|]. destruct k as [|k]; cbn in *; [inversion Hn; left; reflexivity|].
  right. apply (IH j k); [lia|exact Hn].
Qed.

(* prefix up to the cut = the steps of weight <= t *)
Lemma prefix_closure t j (srt : list (step T)) x y :
  cut_at t j (map (@s_dis T) srt) ->
  (clos_refl_sym_trans nat (pair_in (edges (firstn j srt))) x y <-> link (k_ltb K) t srt x y).
Proof.
  intros Hcut. split; intros H.
  - induction H as [a b Hab| | |]; [|apply rst_refl|apply rst_sym; assumption|eapply rst_trans; eassumption].
    unfold pair_in, edges in Hab. apply in_map_iff in Hab. destruct Hab as (st & Hst & Hin).
    destruct (@firstn_In_nth _ _ _ _ Hin) as (k & Hk & Hn).
    apply rst_step. exists st. split; [eapply nth_error_In; exact Hn|]. split.
    + apply (Hcut k (s_dis st)); [rewrite nth_error_map, Hn; reflexivity|exact Hk].
    + left. unfold edge_of in Hst. inversion Hst. auto.
  - induction H as [a b (st & Hin & Hle & Hab)| | |]; [|apply rst_refl|apply rst_sym; assumption|eapply rst_trans; eassumption].
    apply In_nth_error in Hin. destruct Hin as (k & Hn).
    assert (Hk : k < j) by (apply (Hcut k (s_dis st)); [rewrite nth_error_map, Hn; reflexivity|exact Hle]).
    assert (Hp : pair_in (edges (firstn j srt)) (s_c1 st) (s_c2 st)).
    { unfold pair_in, edges. apply in_map_iff. exists st. split; [reflexivity|]. exact (@nth_firstn_In _ _ _ _ _ Hk Hn). }
    destruct Hab as [[-> ->]|[-> ->]]; [apply rst_step; exact Hp|apply rst_sym; apply rst_step; exact Hp].
Qed.

Theorem mst_cuts s d m n s' d' m' M0 :
  mst_with K p s d m n = Ok (s', d', m') ->
  prologue p m n = Ok M0 ->
  (forall x y, x <> y -> x < m_obs M0 -> y < m_obs M0 -> k_ltb K (dcell K M0 x y) (k_inf K) = true) ->
  forall (t : T) (j : nat), j <= m_obs M0 - 1 ->
  cut_at t j (heights d') ->
  forall x y, x < m_obs M0 -> y < m_obs M0 ->
  (labi (m_obs M0) (d_steps d') j x = labi (m_obs M0) (d_steps d') j y
   <-> conn (k_ltb K) (dcell K M0) (0 :: seq 1 (m_obs M0 - 1)) t x y).
Proof.
  intros H HM0 Hinf t j Hj Hcut x y Hx Hy.
  pose proof H as Hrun. unfold mst_with in H. rewrite HM0 in H. cbn [bind] in H.
  destruct (Nat.eqb_spec (m_obs M0) 0) as [Hz|Hz]; [lia|].
  bind_inv H. rename a into act. bind_inv H. destruct a as [[s1 d1] c1]. bind_inv H. destruct a as [u d2].
  inversion H; subst s' d' m'. clear H.
  set (n0 := m_obs M0) in *.
  pose proof (a_reset_inv (st_active s) n0) as HA0.
  assert (Hlen0 : length (a_next (a_reset (st_active s) n0)) = n0).
  { rewrite a_reset_canonical. cbn. rewrite map_length, seq_length. reflexivity. }
  change (st_active (st_reset K s n0)) with (a_reset (st_active s) n0) in E.
  destruct (@a_remove_spec _ _ 0 HA0 ltac:(lia)) as (a' & Ha' & HA' & Hlen').
  rewrite Ha' in E. inversion E; subst act. clear E.
  pose proof (without0_seq n0) as HL. rewrite HL in HA'.
  assert (HMI : MInv (st_with_active (st_reset K s n0) a') 0 (seq 1 (n0 - 1))).
  { unfold MInv. cbn [st_with_active st_active]. split; [exact HA'|]. split.
    - intros Hin. apply in_seq in Hin. lia.
    - rewrite Hlen', Hlen0. lia. }
  assert (HT0 : TInv n0 (d_reset d n0) 0 (seq 1 (n0 - 1))).
  { unfold TInv. cbn [d_reset d_obs d_steps edges map all_nontrivial add_edges length].
    split; [reflexivity|]. split; [lia|]. split; [intros z Hz'; apply in_seq in Hz'; lia|]. split; [intros st []|].
    split; [exact I|]. split; [intros a b _ Hab; split; congruence|rewrite seq_length; lia]. }
  destruct (@mst_fold_forest T K p M0 n0 _ _ _ _ _ _ _ _ HMI HT0 (seq_NoDup _ _) E0)
    as (L' & (Hobs & _ & _ & Hends & Hnt & _ & Hcount) & Hl).
  rewrite !seq_length in Hl.
  assert (Hlen1 : length (d_steps d1) = d_obs d1 - 1) by lia.
  destruct (@relabel_heights T (k_ltb K) (k_eqb K) _ _ _ _ _ E1) as [_ (l & Hl0 & _)].
  destruct (@relabel_cuts T (k_ltb K) (k_eqb K) (st_set s1) d1 true l ltac:(lia) Hlen1
              ltac:(rewrite Hobs; exact Hends) Hnt Hl0) as (u' & d' & Hrel & Hwfd & Hobs' & Hdis & Hcuts).
  rewrite Hrel in E1. inversion E1; subst u' d'. clear E1.
  rewrite Hobs in Hcuts. cbn [d_steps].
  rewrite (Hcuts j x y Hj Hx Hy), add_edges_closure.
  (* the sorted raw steps, cut at j *)
  assert (Hcut' : cut_at t j (map (@s_dis T) l)) by (unfold heights in Hcut; cbn [d_steps] in Hcut; rewrite Hdis in Hcut; exact Hcut).
  rewrite (@prefix_closure t j l x y Hcut').
  destruct (@sort_steps_ok T (k_ltb K) (k_eqb K) (@gt_flip T K) _ _ Hl0) as [_ Hperm].
  (* the raw steps are a Prim trace *)
  destruct (prologue_wf _ _ _ HM0) as [Hwf _].
  assert (HQ0 : QInv K M0 (st_with_active (st_reset K s n0) a') 0 (seq 1 (n0 - 1)) []).
  { unfold QInv. split; [exact HMI|]. cbn [st_with_active st_active st_min st_reset].
    split; [rewrite Hlen', Hlen0; reflexivity|]. split; [intros z []|].
    intros z Hz'. apply in_seq in Hz'. exists (k_inf K). split; [|left; split; reflexivity].
    unfold clear_resize, vresize. rewrite firstn_nil. cbn [length app]. rewrite Nat.sub_0_r.
    assert (Hz'' : z < n0) by lia. clear - Hz''. revert Hz''. generalize n0.
    induction z as [|z IH]; intros k Hk; (destruct k as [|k]; [lia|]); cbn [repeat nth_error]; [reflexivity|apply IH; lia]. }
  destruct (@mst_fold_prim T K p ltb_irrefl ltb_trans ltb_negtrans M0 Hwf Hinf _ _ _ _ _ _ _ _ _ HQ0
              (seq_NoDup _ _) ltac:(rewrite !seq_length; reflexivity) E0) as (news & Hs & Hln & Htr).
  cbn [d_reset d_steps app] in Hs. rewrite Hs in Hperm.
  rewrite <- (threshold_components ltb_negtrans (dcell_sym K M0) t Htr x y).
  split; apply link_perm; [apply Permutation_sym; exact Hperm|exact Hperm].
Qed.

(* for every threshold a cut position exists (the returned heights are sorted) *)
Hypothesis eqb_nlt : forall a b, k_eqb K a b = true -> k_ltb K b a = false.

Lemma le_t_ge (a b : T) : Monotone.le_t K a b -> k_ltb K b a = false.
Proof.
  unfold Monotone.le_t, pcmp. intros [H|H].
  - destruct (k_ltb K a b) eqn:C; [|destruct (k_eqb K a b); [discriminate|destruct (k_ltb K b a); discriminate]].
    destruct (k_ltb K b a) eqn:C2; [|reflexivity].
    pose proof (@ltb_trans _ _ _ C C2) as C3. rewrite ltb_irrefl in C3. discriminate.
  - destruct (k_ltb K a b); [discriminate|]. destruct (k_eqb K a b) eqn:Eq; [apply eqb_nlt; exact Eq|].
    destruct (k_ltb K b a); discriminate.
Qed.

Lemma cut_exists (t : T) (hs : list T) :
  StronglySorted (fun a b => k_ltb K b a = false) hs -> exists j, j <= length hs /\ cut_at t j hs.
Proof.
  induction 1 as [|h rest Hs IH Hall].
  - exists 0. split; [reflexivity|]. intros k h Hk. destruct k; discriminate.
  - destruct (k_ltb K t h) eqn:C.
    + exists 0. split; [lia|]. intros k hk Hk. split; [lia|]. intros Hle. exfalso.
      destruct k as [|k]; cbn in Hk.
      * inversion Hk; subst hk. unfold le_t in Hle. congruence.
      * rewrite Forall_forall in Hall. pose proof (Hall hk (nth_error_In _ _ Hk)) as Hh.
        unfold le_t in Hle. pose proof (@ltb_negtrans _ _ _ Hle Hh). congruence.
    + destruct IH as (j & Hj & Hcut). exists (S j). split; [cbn [length]; lia|].
      intros k hk Hk. destruct k as [|k]; cbn in Hk.
      * inversion Hk; subst hk. split; [intros _; exact C|lia].
      * rewrite <- (Hcut k hk Hk). lia.
Qed.

Theorem mst_cuts_all s d m n s' d' m' M0 :
  mst_with K p s d m n = Ok (s', d', m') ->
  prologue p m n = Ok M0 ->
  (forall x y, x <> y -> x < m_obs M0 -> y < m_obs M0 -> k_ltb K (dcell K M0 x y) (k_inf K) = true) ->
  forall t : T, exists j, j <= m_obs M0 - 1 /\ cut_at t j (heights d')
    /\ forall x y, x < m_obs M0 -> y < m_obs M0 ->
        (labi (m_obs M0) (d_steps d') j x = labi (m_obs M0) (d_steps d') j y
         <-> conn (k_ltb K) (dcell K M0) (0 :: seq 1 (m_obs M0 - 1)) t x y).
Proof.
  intros H HM0 Hinf t.
  assert (Hsorted : StronglySorted (fun a b => k_ltb K b a = false) (heights d')).
  { pose proof (@mst_monotone T K p s d m n s' d' m' H) as Hs.
    apply Sorted_StronglySorted.
    - intros a b c H1 H2. exact (@ltb_negtrans _ _ _ H2 H1).
    - clear - Hs ltb_irrefl ltb_trans eqb_nlt. induction Hs as [|a l Hs IH Hd]; constructor; [exact IH|].
      destruct Hd; constructor. apply le_t_ge. assumption. }
  destruct (cut_exists t Hsorted) as (j & Hj & Hcut).
  assert (Hlen : length (heights d') = m_obs M0 - 1).
  { destruct (@mst_prim T K p ltb_irrefl ltb_trans ltb_negtrans _ _ _ _ _ _ _ _ H HM0 Hinf) as (raw & _ & Hl & Hp).
    rewrite (Permutation_length Hp), map_length. exact Hl. }
  exists j. split; [lia|]. split; [exact Hcut|].
  intros x y Hx Hy. apply (@mst_cuts s d m n s' d' m' M0 H HM0 Hinf t j ltac:(lia) Hcut x y Hx Hy).
Qed.

End MstCuts.
