(* C01 for mst (= linkage with the single method): every Ok result is a
   well-formed stepwise dendrogram. *)
Require Import KV.Model.Prelude KV.Model.Condensed KV.Model.Active KV.Model.Heap
  KV.Model.UnionFind KV.Model.Dendrogram KV.Model.Methods KV.Model.State KV.Model.Mst
  KV.Proofs.ResetCanon KV.Proofs.ActiveRefine KV.Proofs.SortProofs KV.Proofs.Monotone
  KV.Proofs.MstCost KV.Proofs.Shape KV.Proofs.PrimitiveGreedy KV.Proofs.Forest KV.Proofs.UnionFindInv
  KV.Proofs.RelabelWF KV.Proofs.PrimitiveWF.

Set Implicit Arguments.

Section MstWF.
Variable T : Type.
Variable K : kops T.
Variable p : profile.

(* one iteration of mst_with on the linked list *)
Lemma mst_iter_step (M : cmat T) s d cluster i s' d' cluster' L :
  MInv s cluster L -> mst_iter K p M (s, d, cluster) i = Ok (s', d', cluster') ->
  In cluster' L /\ MInv s' cluster' (without cluster' L)
  /\ exists v sz, d_steps d' = d_steps d ++ [step_new cluster' cluster v sz].
Proof.
  intros (HA & Hnc & Hc) H.
  pose proof HA as (Hlen & Hl & Hdead).
  assert (HB : forall z, In z L -> a_start (st_active s) <= z /\ z < length (a_next (st_active s))).
  { intros z Hz. apply (linked_bounds Hl) in Hz. lia. }
  assert (Hstart : a_start (st_active s) <= length (a_next (st_active s))) by exact (proj1 (linked_bounds Hl)).
  unfold mst_iter in H. rewrite (a_iter_spec HA) in H. cbn [bind] in H.
  rewrite (@a_range_spec _ _ Unb (Excl cluster) HA) in H by (cbn [lo_of hi_of]; lia).
  rewrite (@a_range_spec _ _ (Incl cluster) Unb HA) in H by (cbn [lo_of hi_of]; lia).
  cbn [bind lo_of hi_of] in H.
  destruct (hd_error L) as [l0|] eqn:Hhd; cbn [opt_unwrap bind] in H; [|discriminate].
  assert (Hl0 : In l0 L) by (destruct L; cbn in Hhd; [discriminate|inversion Hhd; left; reflexivity]).
  destruct (vget (st_min s) l0) as [md0| |] eqn:Em; cbn [bind] in H; try discriminate.
  destruct (mfold (mst_scan K p M (fun x => x) (fun _ => cluster)) _ (st_min s, l0, md0)) as [[[mins1 mo1] md1]| |] eqn:E1;
    cbn [bind] in H; try discriminate.
  destruct (mfold (mst_scan K p M (fun _ => cluster) (fun x => x)) _ (mins1, mo1, md1)) as [[[mins2 mo2] md2]| |] eqn:E2;
    cbn [bind] in H; try discriminate.
  destruct (st_merge (st_with_min s mins2) d mo2 cluster md2) as [[s2 d2]| |] eqn:E3; cbn [bind] in H; try discriminate.
  inversion H; subst s' d' cluster'. clear H.
  assert (Hmo : In mo2 L).
  { destruct (@mst_scan_who T K p M _ _ _ _ _ E2) as [W|W]; cbn [fst snd] in W.
    - subst mo2. destruct (@mst_scan_who T K p M _ _ _ _ _ E1) as [W|W]; cbn [fst snd] in W.
      + subst mo1. exact Hl0.
      + apply filter_In in W. exact (proj1 W).
    - apply filter_In in W. exact (proj1 W). }
  split; [exact Hmo|].
  destruct (@st_merge_spec T _ _ _ _ _ _ _ E3) as (sz & Hrem & Hsteps). cbn [st_with_min st_active] in Hrem.
  destruct (@a_remove_spec _ _ mo2 HA (proj2 (HB mo2 Hmo))) as (a' & Ha' & HA' & Hlen').
  rewrite Ha' in Hrem. inversion Hrem as [Eact].
  split.
  - unfold MInv. rewrite <- Eact. split; [exact HA'|]. split.
    + intros Hin. apply without_In in Hin. destruct Hin as [_ Hne]. apply Hne. reflexivity.
    + rewrite Hlen'. exact (proj2 (HB mo2 Hmo)).
  - exists md2, sz. exact Hsteps.
Qed.

(* forest invariant: the live observations are singleton classes *)
Definition TInv (n : nat) (d : dend T) (cluster : nat) (L : list nat) : Prop :=
  d_obs d = n /\ cluster < n
  /\ (forall x, In x L -> x < n)
  /\ (forall st, In st (d_steps d) -> s_c1 st < n /\ s_c2 st < n)
  /\ all_nontrivial eq (edges (d_steps d))
  /\ (forall x y, In x L -> x <> y -> ~ add_edges eq (edges (d_steps d)) x y /\ ~ add_edges eq (edges (d_steps d)) y x)
  /\ length (d_steps d) + length L + 1 = n.

Lemma edge_of_step_new (a b : nat) (v : T) (sz : nat) :
  edge_of (step_new a b v sz) = (a, b) \/ edge_of (step_new a b v sz) = (b, a).
Proof. unfold step_new, edge_of. destruct (b <? a); cbn; auto. Qed.

Lemma mst_iter_forest (M : cmat T) n s d cluster i s' d' cluster' L :
  MInv s cluster L -> TInv n d cluster L -> NoDup L ->
  mst_iter K p M (s, d, cluster) i = Ok (s', d', cluster') ->
  In cluster' L /\ MInv s' cluster' (without cluster' L) /\ TInv n d' cluster' (without cluster' L).
Proof.
  intros HM (Hobs & Hcl & HLn & Hends & Hnt & Hsep & Hcount) Hnd H.
  pose proof (@mst_iter_shape T K p M (s, d, cluster) i (s', d', cluster') H) as Hsh.
  unfold dproj, dshape in Hsh. cbn [fst snd] in Hsh. inversion Hsh as [[Hobs' Hlen']].
  destruct (@mst_iter_step M s d cluster i s' d' cluster' L HM H) as (Hin & HM' & v & sz & Hsteps).
  split; [exact Hin|]. split; [exact HM'|].
  assert (Hne : cluster' <> cluster) by (intros ->; destruct HM as (_ & Hnc & _); contradiction).
  assert (Hends' : s_c1 (step_new cluster' cluster v sz) < n /\ s_c2 (step_new cluster' cluster v sz) < n).
  { pose proof (HLn _ Hin). unfold step_new. destruct (cluster <? cluster'); cbn; lia. }
  assert (Hxcl : forall x, In x L -> x <> cluster) by (intros x Hx ->; destruct HM as (_ & Hnc & _); contradiction).
  set (R := add_edges eq (edges (d_steps d))) in *.
  (* whichever way round the edge is stored *)
  assert (Hcases : exists a b, edge_of (step_new cluster' cluster v sz) = (a, b)
            /\ ~ R a b
            /\ forall x y, In x L -> x <> cluster' -> x <> y ->
                  ~ add_edge R a b x y /\ ~ add_edge R a b y x).
  { destruct (edge_of_step_new cluster' cluster v sz) as [E|E]; rewrite E.
    - exists cluster', cluster. split; [reflexivity|]. split; [exact (proj1 (Hsep cluster' cluster Hin Hne))|].
      intros x y Hx Hxc Hxy. unfold add_edge. split; intros [H1|[[H1 H2]|[H1 H2]]].
      + exact (proj1 (Hsep x y Hx Hxy) H1).
      + exact (proj1 (Hsep x cluster' Hx Hxc) H1).
      + exact (proj1 (Hsep x cluster Hx (Hxcl x Hx)) H1).
      + exact (proj2 (Hsep x y Hx Hxy) H1).
      + exact (proj2 (Hsep x cluster Hx (Hxcl x Hx)) H2).
      + exact (proj2 (Hsep x cluster' Hx Hxc) H2).
    - exists cluster, cluster'. split; [reflexivity|]. split; [exact (proj2 (Hsep cluster' cluster Hin Hne))|].
      intros x y Hx Hxc Hxy. unfold add_edge. split; intros [H1|[[H1 H2]|[H1 H2]]].
      + exact (proj1 (Hsep x y Hx Hxy) H1).
      + exact (proj1 (Hsep x cluster Hx (Hxcl x Hx)) H1).
      + exact (proj1 (Hsep x cluster' Hx Hxc) H1).
      + exact (proj2 (Hsep x y Hx Hxy) H1).
      + exact (proj2 (Hsep x cluster' Hx Hxc) H2).
      + exact (proj2 (Hsep x cluster Hx (Hxcl x Hx)) H2). }
  destruct Hcases as (ea & eb & Ee & Hnab & Hsep').
  assert (Hedges : edges (d_steps d') = edges (d_steps d) ++ [(ea, eb)]).
  { rewrite Hsteps. unfold edges. rewrite map_app. cbn [map]. rewrite Ee. reflexivity. }
  unfold TInv. rewrite Hedges. split; [congruence|]. split; [apply HLn; exact Hin|]. split.
  { intros x Hx. apply without_In in Hx. apply HLn. exact (proj1 Hx). }
  split.
  { intros st Hst. rewrite Hsteps in Hst. apply in_app_or in Hst. destruct Hst as [Hst|[<-|[]]]; [apply Hends; exact Hst|exact Hends']. }
  split.
  { apply all_nontrivial_snoc; [exact Hnt|exact Hnab]. }
  split.
  { intros x y Hx Hxy. apply without_In in Hx. destruct Hx as [Hx Hxc].
    rewrite add_edges_app. cbn [add_edges]. apply Hsep'; assumption. }
  rewrite Hsteps, app_length. cbn [length]. pose proof (without_length cluster' Hnd Hin). lia.
Qed.

Lemma mst_fold_forest (M : cmat T) n (idx : list nat) : forall s d cluster L s' d' cluster',
  MInv s cluster L -> TInv n d cluster L -> NoDup L ->
  mfold (mst_iter K p M) idx (s, d, cluster) = Ok (s', d', cluster') ->
  exists L', TInv n d' cluster' L' /\ length L' + length idx = length L.
Proof.
  induction idx as [|i idx IH]; intros s d cluster L s' d' cluster' HM HT Hnd H; cbn [mfold] in H.
  - inversion H; subst. exists L. split; [exact HT|cbn; lia].
  - bind_inv H. destruct a as [[s1 d1] c1].
    destruct (@mst_iter_forest M n s d cluster i s1 d1 c1 L HM HT Hnd E) as (Hin & HM1 & HT1).
    assert (Hnd1 : NoDup (without c1 L)) by (apply NoDup_filter; exact Hnd).
    destruct (IH s1 d1 c1 (without c1 L) s' d' cluster' HM1 HT1 Hnd1 H) as (L' & HT' & Hl).
    exists L'. split; [exact HT'|]. pose proof (without_length c1 Hnd Hin). cbn [length]. lia.
Qed.

(* any float type, both profiles, any prior state, any input: an Ok result of
   mst_with is a well-formed stepwise dendrogram (no hypothesis on the float
   comparison at all) *)
Theorem mst_wf s d m n s' d' m' :
  mst_with K p s d m n = Ok (s', d', m') -> wf_dend (d_obs d') (d_steps d').
Proof.
  intros H. unfold mst_with in H. bind_inv H. rename a into M.
  destruct (Nat.eqb_spec (m_obs M) 0) as [Hz|Hz].
  - inversion H; subst. cbn [d_reset d_obs d_steps]. split; [rewrite Hz; reflexivity|]. intros j t Ht. destruct j; discriminate.
  - bind_inv H. rename a into act. bind_inv H. destruct a as [[s1 d1] c1]. bind_inv H. destruct a as [u d2].
    inversion H; subst s' d' m'. clear H.
    set (n0 := m_obs M) in *.
    pose proof (a_reset_inv (st_active s) n0) as HA0.
    assert (Hlen0 : length (a_next (a_reset (st_active s) n0)) = n0).
    { rewrite a_reset_canonical. cbn. rewrite map_length, seq_length. reflexivity. }
    change (st_active (st_reset K s n0)) with (a_reset (st_active s) n0) in E0.
    destruct (@a_remove_spec _ _ 0 HA0 ltac:(lia)) as (a' & Ha' & HA' & Hlen').
    rewrite Ha' in E0. inversion E0; subst act. clear E0.
    assert (HL : without 0 (seq 0 n0) = seq 1 (n0 - 1)).
    { destruct n0 as [|k]; [lia|]. cbn [seq]. unfold without. cbn [filter Nat.eqb negb].
      replace (S k - 1) with k by lia. apply filter_all. intros z Hz'. apply in_seq in Hz'.
      destruct (Nat.eqb_spec z 0); [lia|reflexivity]. }
    rewrite HL in HA'.
    assert (HM0 : MInv (st_with_active (st_reset K s n0) a') 0 (seq 1 (n0 - 1))).
    { unfold MInv. cbn [st_with_active st_active]. split; [exact HA'|]. split.
      - intros Hin. apply in_seq in Hin. lia.
      - rewrite Hlen', Hlen0. lia. }
    assert (HT0 : TInv n0 (d_reset d n0) 0 (seq 1 (n0 - 1))).
    { unfold TInv. cbn [d_reset d_obs d_steps edges map all_nontrivial add_edges length].
      split; [reflexivity|]. split; [lia|]. split; [intros x Hx; apply in_seq in Hx; lia|]. split; [intros st []|].
      split; [exact I|]. split; [intros x y _ Hxy; split; congruence|rewrite seq_length; lia]. }
    destruct (@mst_fold_forest M n0 _ _ _ _ _ _ _ _ HM0 HT0 (seq_NoDup _ _) E1)
      as (L' & (Hobs & _ & _ & Hends & Hnt & _ & Hcount) & Hl).
    rewrite !seq_length in Hl.
    assert (Hlen1 : length (d_steps d1) = d_obs d1 - 1) by lia.
    destruct (@relabel_heights T (k_ltb K) (k_eqb K) _ _ _ _ _ E2) as [_ (l & Hl0 & _)].
    destruct (@relabel_wf T (k_ltb K) (k_eqb K) (st_set s1) d1 true l ltac:(lia) Hlen1
                ltac:(rewrite Hobs; exact Hends) Hnt Hl0) as (u' & d' & Hrel & Hwfd & Hobs' & _).
    rewrite Hrel in E2. inversion E2; subst u' d'. rewrite Hobs'. exact Hwfd.
Qed.

End MstWF.
