(* C04, second sentence, for whole runs: through each of the five entry points
   with Method::Single the heights of the RETURNED dendrogram are, up to order
   and bit for bit, the edge weights of a minimum spanning tree of the complete
   graph on the observations (MstWeights.v), under any pattern of ties, for any
   carrier whose `<` is a strict weak order. *)
Require Import KV.Model.Prelude KV.Model.Condensed KV.Model.Active KV.Model.Heap
  KV.Model.UnionFind KV.Model.Dendrogram KV.Model.Methods KV.Model.State KV.Model.Mst KV.Model.Primitive KV.Model.Chain KV.Model.Generic
  KV.Proofs.ActiveRefine KV.Proofs.CondensedIdx KV.Proofs.SortProofs KV.Proofs.Monotone
  KV.Proofs.PrimitiveGreedy KV.Proofs.RelabelWF KV.Proofs.PrimitiveWF KV.Proofs.LWInvariant KV.Proofs.CriteriaRun
  KV.Proofs.PrimThreshold KV.Proofs.MstPrim KV.Proofs.MstCuts KV.Proofs.SingleThreshold KV.Proofs.SingleCuts
  KV.Proofs.SpanningTrees KV.Proofs.MstWeights.
From Coq Require Import Permutation Relations.

Set Implicit Arguments.

(* ---- mst_with (what linkage runs for Method::Single) ---- *)
Section MstRun.
Variable T : Type.
Variable K : kops T.
Variable p : profile.
Hypothesis ltb_irrefl : forall a, k_ltb K a a = false.
Hypothesis ltb_trans : forall a b c, k_ltb K a b = true -> k_ltb K b c = true -> k_ltb K a c = true.
Hypothesis ltb_negtrans : forall a b c, k_ltb K a b = false -> k_ltb K b c = false -> k_ltb K a c = false.

Theorem mst_weights_mst s d m n s' d' m' M0 :
  mst_with K p s d m n = Ok (s', d', m') ->
  prologue p m n = Ok M0 -> 1 <= m_obs M0 ->
  (forall x y, x <> y -> x < m_obs M0 -> y < m_obs M0 -> k_ltb K (dcell K M0 x y) (k_inf K) = true) ->
  mst_weights (k_ltb K) (dcell K M0) (m_obs M0) (heights d').
Proof.
  intros H HM0 Hn Hinf.
  destruct (@mst_prim T K p ltb_irrefl ltb_trans ltb_negtrans _ _ _ _ _ _ _ _ H HM0 Hinf) as (raw & Htr & Hlen & Hperm).
  assert (EV : seq 0 (m_obs M0) = 0 :: seq 1 (m_obs M0 - 1)).
  { destruct (m_obs M0) as [|k]; [lia|]. cbn [seq]. rewrite Nat.sub_succ, Nat.sub_0_r. reflexivity. }
  destruct (@prim_weights_mst T (k_ltb K) ltb_negtrans (dcell K M0) (dcell_sym K M0) 0 (seq 1 (m_obs M0 - 1)) raw
              ltac:(rewrite <- EV; apply seq_NoDup) Htr ltac:(rewrite seq_length; exact Hlen)) as (E & Hsp & Hw & Hmin).
  exists E. rewrite EV. split; [exact Hsp|]. split; [rewrite Hw; exact Hperm|].
  intros E' HE' t. rewrite (count_le_perm (k_ltb K) t Hperm). exact (Hmin E' HE' t).
Qed.

End MstRun.

(* ---- primitive, nnchain, generic ---- *)
Section Others.
Variable T : Type.
Variable F : fops T.
Variable p : profile.
Hypothesis ltb_irrefl : forall a, f_ltb F a a = false.
Hypothesis ltb_trans : forall a b c, f_ltb F a b = true -> f_ltb F b c = true -> f_ltb F a c = true.
Hypothesis ltb_negtrans : forall a b c, f_ltb F a b = false -> f_ltb F b c = false -> f_ltb F a c = false.

Notation K := (kops_of F Single).
Notation ltb := (f_ltb F).

Lemma weights_of_single_trace (M0 : cmat T) (d' : dend T) : 1 <= m_obs M0 ->
  single_trace F M0 (m_obs M0) d' ->
  mst_weights ltb (cell_or (f_inf F) M0) (m_obs M0) (heights d').
Proof.
  intros Hn (u & u' & d1 & _ & Hlen & Htr & Hrel).
  destruct (@relabel_heights T (k_ltb K) (k_eqb K) _ _ _ _ _ Hrel) as [_ (l & Hl0 & Hh)].
  destruct (@sort_steps_ok T (k_ltb K) (k_eqb K) (@gt_flip T K) _ _ Hl0) as [_ Hperm].
  assert (HP : Permutation (heights d') (map (@s_dis T) (d_steps d1))).
  { rewrite Hh. apply Permutation_map. apply Permutation_sym. exact Hperm. }
  destruct (@sl_weights_mst T ltb ltb_negtrans (cell_or (f_inf F) M0) (cell_or_sym (f_inf F) M0) (seq 0 (m_obs M0)) (m_obs M0)
              (d_steps d1) eq_refl Htr ltac:(lia)) as (E & Hsp & Hw & Hmin).
  exists E. split; [exact Hsp|]. split; [rewrite Hw; exact HP|].
  intros E' HE' t. rewrite (count_le_perm ltb t HP). exact (Hmin E' HE' t).
Qed.

Theorem primitive_weights_mst s d m n s' d' m' M0 :
  primitive_with K p Single s d m n = Ok (s', d', m') -> prologue p m n = Ok M0 -> 1 <= m_obs M0 ->
  mst_weights ltb (cell_or (f_inf F) M0) (m_obs M0) (heights d').
Proof.
  intros H HM0 Hn. apply weights_of_single_trace; [exact Hn|].
  exact (@primitive_single_trace T F p ltb_irrefl ltb_trans ltb_negtrans s d m n s' d' m' M0 H HM0 Hn).
Qed.

Theorem nnchain_weights_mst s d m n s' d' m' M0 :
  nnchain_with K p Single s d m n = Ok (s', d', m') -> prologue p m n = Ok M0 -> 1 <= m_obs M0 ->
  mst_weights ltb (cell_or (f_inf F) M0) (m_obs M0) (heights d').
Proof.
  intros H HM0 Hn. apply weights_of_single_trace; [exact Hn|].
  exact (@nnchain_single_trace T F p ltb_irrefl ltb_trans ltb_negtrans s d m n s' d' m' M0 H HM0 Hn).
Qed.

Theorem generic_weights_mst (eqb_refl : forall a, f_eqb F a a = true)
  (eqb_le : forall u v, f_eqb F u v = true -> f_ltb F v u = false) s d m n s' d' m' M0 :
  Forall (fun v => f_ltb F v (f_inf F) = true) m ->
  generic_with K p Single s d m n = Ok (s', d', m') -> prologue p m n = Ok M0 -> 1 <= m_obs M0 ->
  mst_weights ltb (cell_or (f_inf F) M0) (m_obs M0) (heights d').
Proof.
  intros Hall H HM0 Hn. apply weights_of_single_trace; [exact Hn|].
  exact (@generic_single_trace T F p ltb_irrefl ltb_trans ltb_negtrans eqb_refl eqb_le s d m n s' d' m' M0 Hall H HM0 Hn).
Qed.

End Others.
