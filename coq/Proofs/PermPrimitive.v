(* C11 for primitive_with: renumbering the observations does not change the
   hierarchy.  If the matrix M0' is M0 with rows and columns permuted by pi, and
   the run on M0 is tie-free (the minimum over the pairs of live clusters is
   attained once at every iteration), then the two runs merge CORRESPONDING
   clusters (same sets of observations, up to pi) at EQUAL heights, step by
   step, and the returned height sequences are equal.

   Simulation with a bijection sg between the live slots of the two runs; which
   slot survives a merge depends on the numbering, so the update formula must be
   symmetric in the two merged clusters (C11_upd_symmetric). *)
Require Import KV.Model.Prelude KV.Model.Condensed KV.Model.Active KV.Model.Heap
  KV.Model.UnionFind KV.Model.Dendrogram KV.Model.Methods KV.Model.State KV.Model.Primitive
  KV.Proofs.ResetCanon KV.Proofs.ActiveRefine KV.Proofs.CondensedIdx KV.Proofs.SortProofs KV.Proofs.Monotone
  KV.Proofs.MstCost KV.Proofs.Shape KV.Proofs.PrimitiveGreedy KV.Proofs.PrimitiveWF KV.Proofs.UpdateSpec
  KV.Proofs.LWInvariant KV.Proofs.ChainIter KV.Proofs.GenericInv KV.Proofs.AgreePG.
From Coq Require Import Permutation.

Set Implicit Arguments.

(* the sorted height sequence depends on the height sequence only *)
Section SortKeys.
Variable T : Type.
Variable ltb eqb : T -> T -> bool.

Lemma sort_insert_keys (x x' : step T) : s_dis x = s_dis x' -> forall l l' r r',
  map (@s_dis T) l = map (@s_dis T) l' ->
  sort_insert ltb eqb x l = Ok r -> sort_insert ltb eqb x' l' = Ok r' ->
  map (@s_dis T) r = map (@s_dis T) r'.
Proof.
  intros Hx. induction l as [|y t IH]; intros l' r r' Hm H H'.
  - destruct l'; [|discriminate]. cbn in H, H'. inversion H; inversion H'; subst. cbn. rewrite Hx. reflexivity.
  - destruct l' as [|y' t']; [discriminate|]. cbn [map] in Hm. inversion Hm as [[Hy Ht]].
    cbn [sort_insert] in H, H'. rewrite <- Hx, <- Hy in H'.
    destruct (pcmp ltb eqb (s_dis x) (s_dis y)) as [[| |]|]; try discriminate.
    + inversion H; inversion H'; subst. cbn [map]. rewrite Hx, Hy, Ht. reflexivity.
    + inversion H; inversion H'; subst. cbn [map]. rewrite Hx, Hy, Ht. reflexivity.
    + destruct (sort_insert ltb eqb x t) as [r1| |] eqn:E1; cbn [bind] in H; try discriminate.
      destruct (sort_insert ltb eqb x' t') as [r1'| |] eqn:E1'; cbn [bind] in H'; try discriminate.
      inversion H; inversion H'; subst. cbn [map]. rewrite Hy. f_equal. exact (IH t' r1 r1' Ht eq_refl E1').
Qed.

Lemma sort_steps_keys : forall l l' r r',
  map (@s_dis T) l = map (@s_dis T) l' ->
  sort_steps ltb eqb l = Ok r -> sort_steps ltb eqb l' = Ok r' ->
  map (@s_dis T) r = map (@s_dis T) r'.
Proof.
  induction l as [|x t IH]; intros l' r r' Hm H H'.
  - destruct l'; [|discriminate]. cbn in H, H'. inversion H; inversion H'; reflexivity.
  - destruct l' as [|x' t']; [discriminate|]. cbn [map] in Hm. inversion Hm as [[Hx Ht]].
    cbn [sort_steps] in H, H'.
    destruct (sort_steps ltb eqb t) as [r1| |] eqn:E1; cbn [bind] in H; try discriminate.
    destruct (sort_steps ltb eqb t') as [r1'| |] eqn:E1'; cbn [bind] in H'; try discriminate.
    exact (sort_insert_keys x x' Hx r1 r1' (IH t' r1 r1' Ht eq_refl E1') H H').
Qed.

End SortKeys.

Section Perm.
Variable T : Type.
Variable K : kops T.
Variable p : profile.
Variable meth : method.
Hypothesis ltb_irrefl : forall a, k_ltb K a a = false.
Hypothesis ltb_trans : forall a b c, k_ltb K a b = true -> k_ltb K b c = true -> k_ltb K a c = true.
Hypothesis sizes_irrelevant : uses_sizes_ab meth = false ->
  forall va vb md sa sb sa' sb' sx, k_upd K va vb md sa sb sx = k_upd K va vb md sa' sb' sx.
(* the update does not care which of the two merged clusters is called a *)
Hypothesis upd_sym : forall va vb md sa sb sx, k_upd K va vb md sa sb sx = k_upd K vb va md sb sa sx.

Notation ltb := (k_ltb K).

Definition bij (sg : nat -> nat) (L' L : list nat) : Prop :=
  (forall x', In x' L' -> In (sg x') L)
  /\ (forall x' y', In x' L' -> In y' L' -> sg x' = sg y' -> x' = y')
  /\ (forall x, In x L -> exists x', In x' L' /\ sg x' = x).

(* the same observations, up to pi *)
Definition lcorr (pi : nat -> nat) (A' A : mtree) : Prop := Permutation (map pi (leaves A')) (leaves A).

Definition Iso (pi sg : nat -> nat)
  (s' : lstate T) (d' : dend T) (M' : cmat T) (L' : list nat) (mem' : nat -> mtree)
  (s : lstate T) (d : dend T) (M : cmat T) (L : list nat) (mem : nat -> mtree) : Prop :=
  PInv s' M' L' /\ PInv s M L /\ bij sg L' L
  /\ (forall x' y', In x' L' -> In y' L' -> x' <> y' -> wcell M' x' y' = wcell M (sg x') (sg y'))
  /\ (forall x', In x' L' -> nth_error (st_sizes s') x' = nth_error (st_sizes s) (sg x'))
  /\ (forall x', In x' L' -> lcorr pi (mem' x') (mem (sg x')))
  /\ map (@s_dis T) (d_steps d') = map (@s_dis T) (d_steps d)
  /\ map (@s_size T) (d_steps d') = map (@s_size T) (d_steps d)
  /\ d_obs d' = d_obs d.

Lemma s_dis_step_new a b (v : T) sz : s_dis (step_new a b v sz) = v.
Proof. unfold step_new. destruct (b <? a); reflexivity. Qed.
Lemma s_size_step_new a b (v : T) sz : s_size (step_new a b v sz) = sz.
Proof. unfold step_new. destruct (b <? a); reflexivity. Qed.

Lemma wcell_minmax (M : cmat T) x y : wcell M (Nat.min x y) (Nat.max x y) = wcell M x y.
Proof.
  unfold wcell. destruct (Nat.le_ge_cases x y).
  - rewrite (Nat.min_l x y), (Nat.max_r x y) by lia. rewrite Nat.min_l, Nat.max_r by lia. reflexivity.
  - rewrite (Nat.min_r x y), (Nat.max_l x y) by lia. rewrite Nat.min_l, Nat.max_r by lia. reflexivity.
Qed.

Lemma iso_step pi sg s' d' M' L' mem' s d M L mem i s1' d1' M1' s1 d1 M1 :
  Iso pi sg s' d' M' L' mem' s d M L mem -> min_unique K M L ->
  prim_iter K p meth (s', d', M') i = Ok (s1', d1', M1') ->
  prim_iter K p meth (s, d, M) i = Ok (s1, d1, M1) ->
  exists a' b' a b sg1,
    In a' L' /\ In b' L' /\ a' < b' /\ In a L /\ In b L /\ a < b
    /\ lcorr pi (Node (mem' a') (mem' b')) (Node (mem a) (mem b))
    /\ Iso pi sg1 s1' d1' M1' (without a' L') (upd_mem mem' a' b') s1 d1 M1 (without a L) (upd_mem mem a b).
Proof.
  intros (HP' & HP & (Hb1 & Hb2 & Hb3) & Hcells & Hsz & Hmem & Hdis & Hsize & Hobs) HTF H' H.
  destruct (@prim_iter_facts T K p meth ltb_irrefl ltb_trans sizes_irrelevant s' d' M' i s1' d1' M1' L' HP' H')
    as (a' & b' & v' & za' & zb' & Ha' & Hb' & Hab' & Hv' & Hmin' & Hza' & Hzb' & Hst' & Ho' & HP1' & Hmf').
  destruct (@prim_iter_facts T K p meth ltb_irrefl ltb_trans sizes_irrelevant s d M i s1 d1 M1 L HP H)
    as (a & b & v & za & zb & Ha & Hb & Hab & Hv & Hmin & Hza & Hzb & Hst & Ho & HP1 & Hmf).
  set (pa := sg a'). set (pb := sg b').
  assert (Hpa : In pa L) by (apply Hb1; exact Ha').
  assert (Hpb : In pb L) by (apply Hb1; exact Hb').
  assert (Hpab : pa <> pb) by (intros E; apply Hb2 in E; [lia|exact Ha'|exact Hb']).
  assert (Hvp : wcell M pa pb = Some v') by (unfold pa, pb; rewrite <- (Hcells a' b' Ha' Hb' ltac:(lia)); exact Hv').
  (* the image of the primed pair is the unprimed pair *)
  assert (Hpair : (a, b) = (Nat.min pa pb, Nat.max pa pb)).
  { destruct (pair_eq_dec (a, b) (Nat.min pa pb, Nat.max pa pb)) as [E|NE]; [exact E|exfalso].
    assert (Hlo : In (Nat.min pa pb) L) by (destruct (Nat.min_spec pa pb) as [[_ ->]|[_ ->]]; assumption).
    assert (Hhi : In (Nat.max pa pb) L) by (destruct (Nat.max_spec pa pb) as [[_ ->]|[_ ->]]; assumption).
    pose proof (HTF a b (Nat.min pa pb) (Nat.max pa pb) v v' Ha Hb Hab Hlo Hhi ltac:(lia) NE Hv
                  ltac:(rewrite wcell_minmax; exact Hvp) Hmin) as Hlt.
    destruct (Hb3 a Ha) as (xa & Hxa & Exa). destruct (Hb3 b Hb) as (xb & Hxb & Exb).
    assert (Hxab : xa <> xb) by (intros E; subst xb; lia).
    assert (Hc : wcell M' xa xb = Some v) by (rewrite (Hcells xa xb Hxa Hxb Hxab), Exa, Exb; exact Hv).
    assert (Hlo' : In (Nat.min xa xb) L') by (destruct (Nat.min_spec xa xb) as [[_ ->]|[_ ->]]; assumption).
    assert (Hhi' : In (Nat.max xa xb) L') by (destruct (Nat.max_spec xa xb) as [[_ ->]|[_ ->]]; assumption).
    rewrite (Hmin' (Nat.min xa xb) (Nat.max xa xb) v Hlo' Hhi' ltac:(lia) ltac:(rewrite wcell_minmax; exact Hc)) in Hlt.
    discriminate. }
  assert (Hcase : (pa = a /\ pb = b) \/ (pa = b /\ pb = a)).
  { inversion Hpair as [[E1 E2]]. destruct (Nat.min_spec pa pb) as [[Hl Em]|[Hl Em]], (Nat.max_spec pa pb) as [[Hl2 Ex]|[Hl2 Ex]]; lia. }
  assert (Hvv : v' = v).
  { destruct Hcase as [[E1 E2]|[E1 E2]]; rewrite E1, E2 in Hvp; [|rewrite wcell_sym in Hvp]; congruence. }
  subst v'.
  (* sizes of the merged pair *)
  assert (Hcz : (pa = a /\ pb = b /\ za' = za /\ zb' = zb) \/ (pa = b /\ pb = a /\ za' = zb /\ zb' = za)).
  { pose proof (Hsz a' Ha') as Sa. pose proof (Hsz b' Hb') as Sb. fold pa in Sa. fold pb in Sb.
    destruct Hcase as [[E1 E2]|[E1 E2]]; rewrite E1 in Sa; rewrite E2 in Sb; [left|right];
      (split; [exact E1|]; split; [exact E2|]; split; congruence). }
  assert (Hsum : za' + zb' = za + zb) by (destruct Hcz as [(_ & _ & -> & ->)|(_ & _ & -> & ->)]; lia).
  (* facts about slots other than the merged pair *)
  assert (Hother : forall x', In x' L' -> x' <> a' -> x' <> b' -> sg x' <> a /\ sg x' <> b).
  { intros x' Hx' Hxa Hxb.
    assert (sg x' <> pa) by (intros E; apply Hb2 in E; [contradiction|exact Hx'|exact Ha']).
    assert (sg x' <> pb) by (intros E; apply Hb2 in E; [contradiction|exact Hx'|exact Hb']).
    destruct Hcase as [[E1 E2]|[E1 E2]]; rewrite E1, E2 in *; split; assumption. }
  set (sg1 := fun x' => if x' =? b' then b else sg x').
  assert (Sg1b : sg1 b' = b) by (unfold sg1; rewrite Nat.eqb_refl; reflexivity).
  assert (Sg1o : forall x', x' <> b' -> sg1 x' = sg x') by (intros x' Hx; unfold sg1; destruct (Nat.eqb_spec x' b'); [contradiction|reflexivity]).
  exists a', b', a, b, sg1.
  split; [exact Ha'|]. split; [exact Hb'|]. split; [exact Hab'|]. split; [exact Ha|]. split; [exact Hb|]. split; [exact Hab|].
  assert (Hlc : lcorr pi (Node (mem' a') (mem' b')) (Node (mem a) (mem b))).
  { unfold lcorr. cbn [leaves]. rewrite map_app.
    pose proof (Hmem a' Ha') as Ma. pose proof (Hmem b' Hb') as Mb. fold pa in Ma. fold pb in Mb. unfold lcorr in Ma, Mb.
    destruct Hcase as [[E1 E2]|[E1 E2]]; rewrite E1 in Ma; rewrite E2 in Mb.
    - apply Permutation_app; assumption.
    - eapply Permutation_trans; [apply Permutation_app; eassumption|apply Permutation_app_comm]. }
  split; [exact Hlc|].
  (* the invariant is re-established *)
  destruct Hmf' as (_ & za2' & zb2' & sa' & sb' & Hza2' & Hzb2' & Hsz1' & Hsab' & Hin' & Hsame').
  destruct Hmf as (_ & za2 & zb2 & sa & sb & Hza2 & Hzb2 & Hsz1 & Hsab & Hin & Hsame).
  assert (za2' = za') by congruence. assert (zb2' = zb') by congruence.
  assert (za2 = za) by congruence. assert (zb2 = zb) by congruence. subst za2' zb2' za2 zb2.
  unfold Iso. split; [exact HP1'|]. split; [exact HP1|].
  split.
  { split; [|split].
    - intros x' Hx'. apply without_In in Hx'. destruct Hx' as [Hx' Hxa]. apply without_In.
      destruct (Nat.eq_dec x' b') as [->|Hxb]; [rewrite Sg1b; split; [exact Hb|lia]|].
      rewrite (Sg1o x' Hxb). split; [apply Hb1; exact Hx'|exact (proj1 (Hother x' Hx' Hxa Hxb))].
    - intros x' y' Hx' Hy' E. apply without_In in Hx'. apply without_In in Hy'.
      destruct Hx' as [Hx' Hxa], Hy' as [Hy' Hya].
      destruct (Nat.eq_dec x' b') as [->|Hxb], (Nat.eq_dec y' b') as [->|Hyb]; [reflexivity| | |].
      + rewrite Sg1b, (Sg1o y' Hyb) in E. destruct (Hother y' Hy' Hya Hyb) as [_ N]. congruence.
      + rewrite Sg1b, (Sg1o x' Hxb) in E. destruct (Hother x' Hx' Hxa Hxb) as [_ N]. congruence.
      + rewrite (Sg1o x' Hxb), (Sg1o y' Hyb) in E. exact (Hb2 x' y' Hx' Hy' E).
    - intros x Hx. apply without_In in Hx. destruct Hx as [Hx Hxa].
      destruct (Nat.eq_dec x b) as [->|Hxb].
      + exists b'. split; [apply without_In; split; [exact Hb'|lia]|exact Sg1b].
      + destruct (Hb3 x Hx) as (x' & Hx' & E).
        assert (x' <> a') by (intros ->; fold pa in E; destruct Hcase as [[E1 _]|[E1 _]]; congruence).
        assert (x' <> b') by (intros ->; fold pb in E; destruct Hcase as [[_ E2]|[_ E2]]; congruence).
        exists x'. split; [apply without_In; split; assumption|]. rewrite Sg1o by assumption. exact E. }
  assert (Hgen : forall x', In x' L' -> x' <> a' -> x' <> b' -> wcell M1' x' b' = wcell M1 (sg x') b).
  { intros x' Hx' Hxa Hxb. destruct (Hother x' Hx' Hxa Hxb) as [Na Nb].
    destruct (Hin' x' Hx' Hxa Hxb) as (va' & vb' & sx' & Ca' & Cb' & Esx' & Cn').
    destruct (Hin (sg x') (Hb1 x' Hx') Na Nb) as (va & vb & sx & Ca & Cb & Esx & Cn).
    rewrite Cn', Cn. f_equal.
    assert (sx' = sx).
    { destruct (uses_size_x meth); [|congruence]. unfold vget in Esx', Esx. rewrite (Hsz x' Hx') in Esx'. congruence. }
    subst sx'.
    rewrite (Hcells x' a' Hx' Ha' Hxa) in Ca'. rewrite (Hcells x' b' Hx' Hb' Hxb) in Cb'. fold pa in Ca'. fold pb in Cb'.
    destruct Hcz as [(E1 & E2 & Z1 & Z2)|(E1 & E2 & Z1 & Z2)]; rewrite E1 in Ca'; rewrite E2 in Cb'.
    - assert (va' = va) by congruence. assert (vb' = vb) by congruence. subst va' vb'.
      assert (sa' = sa /\ sb' = sb) as [-> ->].
      { destruct (uses_sizes_ab meth); destruct Hsab as [-> ->], Hsab' as [-> ->]; split; congruence. }
      reflexivity.
    - assert (va' = vb) by congruence. assert (vb' = va) by congruence. subst va' vb'.
      rewrite upd_sym.
      assert (sb' = sa /\ sa' = sb) as [-> ->].
      { destruct (uses_sizes_ab meth); destruct Hsab as [-> ->], Hsab' as [-> ->]; split; congruence. }
      reflexivity. }
  split.
  { intros x' y' Hx' Hy' Hxy. apply without_In in Hx'. apply without_In in Hy'.
    destruct Hx' as [Hx' Hxa], Hy' as [Hy' Hya].
    destruct (Nat.eq_dec y' b') as [->|Hyb].
    - rewrite Sg1b, (Sg1o x' Hxy). apply Hgen; assumption.
    - destruct (Nat.eq_dec x' b') as [->|Hxb].
      + rewrite Sg1b, (Sg1o y' Hyb). rewrite (wcell_sym M1'), (wcell_sym M1). apply Hgen; assumption.
      + rewrite (Sg1o x' Hxb), (Sg1o y' Hyb).
        destruct (Hother x' Hx' Hxa Hxb) as [Nxa Nxb]. destruct (Hother y' Hy' Hya Hyb) as [Nya Nyb].
        rewrite (Hsame' x' y' Hx' Hy' Hxy Hxa Hxb Hya Hyb).
        rewrite (Hsame (sg x') (sg y') (Hb1 x' Hx') (Hb1 y' Hy') ltac:(intros E; apply Hxy; exact (Hb2 x' y' Hx' Hy' E)) Nxa Nxb Nya Nyb).
        apply Hcells; assumption. }
  split.
  { intros x' Hx'. apply without_In in Hx'. destruct Hx' as [Hx' Hxa]. rewrite Hsz1', Hsz1.
    destruct (Nat.eq_dec x' b') as [->|Hxb].
    - rewrite Sg1b. rewrite !nth_error_set_nth_eq by (apply nth_error_Some; congruence). rewrite Hsum. reflexivity.
    - rewrite (Sg1o x' Hxb). destruct (Hother x' Hx' Hxa Hxb) as [_ Nb].
      rewrite !nth_error_set_nth_neq by assumption. apply Hsz. exact Hx'. }
  split.
  { intros x' Hx'. apply without_In in Hx'. destruct Hx' as [Hx' Hxa]. unfold upd_mem.
    destruct (Nat.eqb_spec x' b') as [->|Hxb].
    - rewrite Sg1b, Nat.eqb_refl. exact Hlc.
    - rewrite (Sg1o x' Hxb). destruct (Hother x' Hx' Hxa Hxb) as [_ Nb].
      destruct (Nat.eqb_spec (sg x') b); [contradiction|]. apply Hmem. exact Hx'. }
  rewrite Hst', Hst, !map_app. cbn [map]. rewrite !s_dis_step_new, !s_size_step_new, Hdis, Hsize, Hsum.
  split; [reflexivity|]. split; [reflexivity|]. congruence.
Qed.

(* ---- the whole loop ---- *)
Definition pair_corr (pi : nat -> nat) (ab' ab : mtree * mtree) : Prop :=
  lcorr pi (Node (fst ab') (snd ab')) (Node (fst ab) (snd ab)).

Lemma iso_fold pi : forall (k : nat) i sg s' d' M' L' mem' s d M L mem s1' d1' M1' s1 d1 M1,
  Iso pi sg s' d' M' L' mem' s d M L mem ->
  tie_free_from K p meth i k s d M ->
  mfold (prim_iter K p meth) (seq i k) (s', d', M') = Ok (s1', d1', M1') ->
  mfold (prim_iter K p meth) (seq i k) (s, d, M) = Ok (s1, d1, M1) ->
  exists tr' tr Lf' Lf memf' memf,
    mtrace L' mem' tr' Lf' memf' /\ mtrace L mem tr Lf memf
    /\ Forall2 (pair_corr pi) tr' tr /\ length tr = k
    /\ map (@s_dis T) (d_steps d1') = map (@s_dis T) (d_steps d1)
    /\ map (@s_size T) (d_steps d1') = map (@s_size T) (d_steps d1)
    /\ d_obs d1' = d_obs d1.
Proof.
  induction k as [|k IH]; intros i sg s' d' M' L' mem' s d M L mem s1' d1' M1' s1 d1 M1 HI HTF H' H.
  - cbn [seq mfold] in H', H. inversion H'; inversion H; subst.
    destruct HI as (_ & _ & _ & _ & _ & _ & Hdis & Hsize & Hobs).
    exists [], [], L', L, mem', mem. split; [constructor|]. split; [constructor|]. split; [constructor|].
    split; [reflexivity|]. split; [exact Hdis|]. split; [exact Hsize|exact Hobs].
  - cbn [seq mfold] in H', H.
    destruct (prim_iter K p meth (s', d', M') i) as [[[s2' d2'] M2']| |] eqn:E'; cbn [bind] in H'; try discriminate.
    destruct (prim_iter K p meth (s, d, M) i) as [[[s2 d2] M2]| |] eqn:E; cbn [bind] in H; try discriminate.
    assert (HTF0 : min_unique K M L).
    { apply (HTF 0 s d M L ltac:(lia) eq_refl). exact (proj1 (proj1 (proj2 HI))). }
    destruct (@iso_step pi sg s' d' M' L' mem' s d M L mem i s2' d2' M2' s2 d2 M2 HI HTF0 E' E)
      as (a' & b' & a & b & sg1 & Ha' & Hb' & Hab' & Ha & Hb & Hab & Hlc & HI1).
    assert (HTF1 : tie_free_from K p meth (S i) k s2 d2 M2).
    { intros j s3 d3 M3 L3 Hj Hrun HA3. apply (HTF (S j) s3 d3 M3 L3 ltac:(lia)); [|exact HA3].
      cbn [seq mfold]. rewrite E. cbn [bind]. exact Hrun. }
    destruct (IH (S i) sg1 _ _ _ _ _ _ _ _ _ _ _ _ _ _ _ _ HI1 HTF1 H' H)
      as (tr' & tr & Lf' & Lf & memf' & memf & Ht' & Ht & HF & Hlen & Hdis & Hsize & Hobs).
    exists ((mem' a', mem' b') :: tr'), ((mem a, mem b) :: tr), Lf', Lf, memf', memf.
    split; [apply mt_cons; assumption|]. split; [apply mt_cons; assumption|].
    split; [constructor; [exact Hlc|exact HF]|]. split; [cbn [length]; rewrite Hlen; reflexivity|].
    split; [exact Hdis|]. split; [exact Hsize|exact Hobs].
Qed.

(* ---- whole runs ---- *)
Theorem primitive_perm_invariant (pi : nat -> nat) s1 d1 s2 d2 m m' n sp dp mp sp' dp' mp' M0 M0' :
  prologue p (square_all K m) n = Ok M0 ->
  prologue p (square_all K m') n = Ok M0' ->
  m_obs M0' = m_obs M0 ->
  bij pi (seq 0 (m_obs M0)) (seq 0 (m_obs M0)) ->
  (forall x y, x < m_obs M0 -> y < m_obs M0 -> x <> y -> wcell M0' x y = wcell M0 (pi x) (pi y)) ->
  primitive_with K p meth s1 d1 m n = Ok (sp, dp, mp) ->
  primitive_with K p meth s2 d2 m' n = Ok (sp', dp', mp') ->
  tie_free_from K p meth 0 (m_obs M0 - 1) (st_reset K s1 (m_obs M0)) (d_reset d1 (m_obs M0)) M0 ->
  heights dp' = heights dp
  /\ exists tr' tr Lf' Lf memf' memf,
       mtrace (seq 0 (m_obs M0)) Leaf tr' Lf' memf' /\ mtrace (seq 0 (m_obs M0)) Leaf tr Lf memf
       /\ Forall2 (pair_corr pi) tr' tr /\ length tr = m_obs M0 - 1.
Proof.
  intros HM0 HM0' Hobs Hbij Hcells Hp Hp' HTF.
  unfold primitive_with in Hp, Hp'. rewrite HM0 in Hp. rewrite HM0' in Hp'. cbn [bind] in Hp, Hp'. rewrite Hobs in Hp'.
  destruct (Nat.eqb_spec (m_obs M0) 0) as [Hz|Hz].
  - inversion Hp; inversion Hp'; subst. split; [reflexivity|].
    exists [], [], (seq 0 (m_obs M0)), (seq 0 (m_obs M0)), Leaf, Leaf.
    split; [constructor|]. split; [constructor|]. split; [constructor|]. rewrite Hz. reflexivity.
  - set (n0 := m_obs M0) in *.
    destruct (prologue_wf _ _ _ HM0) as [Hwf _]. destruct (prologue_wf _ _ _ HM0') as [Hwf' _].
    destruct (mfold (prim_iter K p meth) (seq 0 (n0 - 1)) (st_reset K s1 n0, d_reset d1 n0, M0)) as [[[s3 d3] M3]| |] eqn:F;
      cbn [bind] in Hp; try discriminate.
    destruct (mfold (prim_iter K p meth) (seq 0 (n0 - 1)) (st_reset K s2 n0, d_reset d2 n0, M0')) as [[[s3' d3'] M3']| |] eqn:F';
      cbn [bind] in Hp'; try discriminate.
    assert (HI0 : Iso pi pi (st_reset K s2 n0) (d_reset d2 n0) M0' (seq 0 n0) Leaf
                     (st_reset K s1 n0) (d_reset d1 n0) M0 (seq 0 n0) Leaf).
    { unfold Iso. split; [rewrite <- Hobs; exact (@prim_init T K s2 M0' Hwf')|]. split; [exact (@prim_init T K s1 M0 Hwf)|].
      split; [exact Hbij|]. split.
      { intros x' y' Hx' Hy' Hxy. apply in_seq in Hx'. apply in_seq in Hy'. apply Hcells; lia. }
      split.
      { intros x' Hx'. pose proof (proj1 Hbij x' Hx') as Hpx. apply in_seq in Hx'. apply in_seq in Hpx.
        cbn [st_reset st_sizes]. unfold clear_resize, vresize. rewrite !firstn_nil. cbn [length app]. rewrite !Nat.sub_0_r.
        rewrite !nth_error_repeat by lia. reflexivity. }
      split; [intros x' _; unfold lcorr; cbn [leaves map]; apply Permutation_refl|].
      cbn [d_reset d_steps d_obs map]. auto. }
    destruct (@iso_fold pi (n0 - 1) 0 pi _ _ _ _ _ _ _ _ _ _ _ _ _ _ _ _ HI0 HTF F' F)
      as (tr' & tr & Lf' & Lf & memf' & memf & Ht' & Ht & HF & Hlen & Hdis & Hsize & Hobs3).
    split; [|exists tr', tr, Lf', Lf, memf', memf; auto].
    bind_inv Hp. destruct a as [u dd]. bind_inv Hp'. destruct a as [u' dd']. inversion Hp; inversion Hp'; subst dp dp'.
    rewrite !heights_sqrt_all. f_equal.
    destruct (requires_sorting meth).
    + destruct (@relabel_heights T (k_ltb K) (k_eqb K) _ _ _ _ _ E) as [_ (l & Hl & Hh)].
      destruct (@relabel_heights T (k_ltb K) (k_eqb K) _ _ _ _ _ E0) as [_ (l' & Hl' & Hh')].
      rewrite Hh, Hh'. exact (sort_steps_keys (k_ltb K) (k_eqb K) _ _ Hdis Hl' Hl).
    + pose proof (proj2 (@relabel_heights T (k_ltb K) (k_eqb K) _ _ _ _ _ E)) as Hh.
      pose proof (proj2 (@relabel_heights T (k_ltb K) (k_eqb K) _ _ _ _ _ E0)) as Hh'. cbn beta iota in Hh, Hh'.
      rewrite Hh, Hh'. unfold heights. exact Hdis.
Qed.

End Perm.
