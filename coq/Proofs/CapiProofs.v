(* C15 / C16: the C API's length arithmetic, step copy and handle store. *)
Require Import KV.Model.Prelude KV.Model.Condensed KV.Model.Dendrogram
  KV.Model.Methods KV.Model.State KV.Model.Linkage KV.Model.Capi KV.Proofs.ShapeCheck.

Set Implicit Arguments.

Local Open Scope N_scope.

(* The shipped code (before the fix) aborts for zero observations in a
   dev-profile build while the release build returns length 0: the result
   depended on the build profile.  Witness of the defect fixed in /repo. *)
Theorem capi_len_unfixed_refuted :
  capi_len_unfixed Debug 0 = Panic POverflow /\ capi_len_unfixed Release 0 = Ok 0.
Proof. split; vm_compute; reflexivity. Qed.

(* After the fix: both profiles compute n(n-1)/2 for every n < 2^32. *)
Theorem capi_len_ok (p : profile) (n : N) : n < two32 -> capi_len p n = Ok (n * (n - 1) / 2).
Proof.
  intros Hn. unfold capi_len.
  assert (E : (if n =? 0 then 0 else n - 1) = n - 1).
  { destruct (N.eqb_spec n 0); [subst; reflexivity|reflexivity]. }
  rewrite E. pose proof (@prod_small n Hn) as Hp.
  destruct p.
  - destruct (N.ltb_spec (n * (n - 1)) two64); [reflexivity|lia].
  - rewrite N.mod_small by exact Hp. reflexivity.
Qed.

(* the unfixed and fixed computations agree for every n >= 1 *)
Theorem capi_len_fix_conservative (p : profile) (n : N) :
  1 <= n -> capi_len p n = capi_len_unfixed p n.
Proof.
  intros Hn. unfold capi_len, capi_len_unfixed.
  destruct (N.eqb_spec n 0); [lia|]. reflexivity.
Qed.

Local Close Scope N_scope.

Section CapiSteps.
Variable T D : Type.
Variable F : fops T.
Variable widen : T -> D.

(* C15: for a correctly sized buffer the C entry point returns exactly the Rust
   linkage result: same steps field by field (dissimilarity widened), the
   observation count passed in; and it aborts exactly when linkage panics. *)
Theorem capi_steps (p : profile) (meth : method) (m : list T) (n : N) :
  (n < two32)%N -> N.of_nat (length m) = (n * (n - 1) / 2)%N ->
  match run_fresh F p ALinkage meth m n with
  | Ok (_, d, m') =>
      capi_linkage F widen p meth m n
      = Ok ({| c_steps := map (widen_step widen) (d_steps d); c_obs := n |}, m')
  | Panic k => capi_linkage F widen p meth m n = Panic k
  | OutOfFuel => capi_linkage F widen p meth m n = OutOfFuel
  end.
Proof.
  intros Hn Hlen. unfold capi_linkage. rewrite (capi_len_ok p Hn). cbn [bind].
  rewrite <- Hlen. rewrite N.ltb_irrefl. rewrite Nat2N.id.
  rewrite firstn_all, skipn_all.
  destruct (run_fresh F p ALinkage meth m n) as [[[s d] m']|k|]; cbn [bind]; try reflexivity.
  rewrite app_nil_r. reflexivity.
Qed.

(* ---- C16: the handle store is a map ---------------------------------- *)
Notation store := (store D).

Lemma lookup_remove_same (s : store) h : lookup (remove s h) h = None.
Proof.
  induction s as [|[k d] t IH]; [reflexivity|]. cbn [remove].
  destruct (Nat.eqb_spec k h); [exact IH|]. cbn [lookup].
  destruct (Nat.eqb_spec k h); [contradiction|exact IH].
Qed.

Lemma lookup_remove_other (s : store) h h' : h <> h' -> lookup (remove s h) h' = lookup s h'.
Proof.
  intros Hne. induction s as [|[k d] t IH]; [reflexivity|]. cbn [remove lookup].
  destruct (Nat.eqb_spec k h) as [E|E].
  - subst k. destruct (Nat.eqb_spec h h'); [contradiction|exact IH].
  - cbn [lookup]. destruct (Nat.eqb_spec k h'); [reflexivity|exact IH].
Qed.

(* handles in the store are below the fresh counter *)
Definition fresh_ok (st : nat * store) : Prop := forall h, fst st <= h -> lookup (snd st) h = None.

Lemma cstep_fresh_ok p st o : fresh_ok st -> fresh_ok (fst (cstep F widen p st o)).
Proof.
  intros H. destruct st as [next s]. destruct o; cbn [cstep].
  - destruct (capi_linkage F widen p meth buf n) as [[d b]|k|]; cbn [fst]; try exact H.
    intros h Hh. cbn [fst snd lookup] in *. destruct (Nat.eqb_spec next h); [lia|]. apply H. cbn. lia.
  - destruct (lookup s h); exact H.
  - exact H.
  - destruct (lookup s h) eqn:E; cbn [fst]; [|exact H].
    intros h' Hh'. cbn [fst snd] in *. destruct (Nat.eq_dec h h') as [->|Hne].
    + apply lookup_remove_same.
    + rewrite lookup_remove_other by exact Hne. apply H. exact Hh'.
Qed.

(* One step against the abstract map: a create binds a fresh handle to the
   computed dendrogram and changes no other binding; read returns the binding;
   scribbling over an input changes nothing; free removes exactly that binding. *)
Theorem cstep_map_spec p (st : nat * store) (o : cop T) : fresh_ok st ->
  let '(st', out) := cstep F widen p st o in
  match o with
  | CCreate meth buf n =>
      match capi_linkage F widen p meth buf n with
      | Ok (d, _) => out = CHandle (fst st) d /\ lookup (snd st') (fst st) = Some d
                     /\ (forall h, h <> fst st -> lookup (snd st') h = lookup (snd st) h)
      | _ => out = CAbort /\ st' = st
      end
  | CRead h => st' = st /\ (out = match lookup (snd st) h with Some d => CValue d | None => CInvalid end)
  | CScribble _ => st' = st /\ out = CDone
  | CFree h =>
      match lookup (snd st) h with
      | Some _ => lookup (snd st') h = None /\ (forall h', h' <> h -> lookup (snd st') h' = lookup (snd st) h')
      | None => st' = st /\ out = CInvalid
      end
  end.
Proof.
  intros Hf. destruct st as [next s]. destruct o; cbn [cstep fst snd].
  - destruct (capi_linkage F widen p meth buf n) as [[d b]|k|]; cbn [fst snd]; try (split; reflexivity).
    split; [reflexivity|]. split.
    + cbn [lookup]. rewrite Nat.eqb_refl. reflexivity.
    + intros h Hne. cbn [lookup]. destruct (Nat.eqb_spec next h); [congruence|reflexivity].
  - destruct (lookup s h); split; reflexivity.
  - split; reflexivity.
  - destruct (lookup s h) eqn:E; cbn [fst snd].
    + split; [apply lookup_remove_same|]. intros h' Hne. apply lookup_remove_other. congruence.
    + split; reflexivity.
Qed.

(* Over ALL client histories: a handle keeps exactly the dendrogram computed at
   its creation through any suffix of operations that does not free it. *)
Definition frees (h : nat) (o : cop T) : bool := match o with CFree k => k =? h | _ => false end.

Theorem handle_stable p (ops : list (cop T)) : forall (st : nat * store) h d,
  fresh_ok st -> lookup (snd st) h = Some d -> existsb (frees h) ops = false ->
  lookup (snd (fst (fold_left (fun acc o => let '(st, outs) := acc in
                          let '(st', out) := cstep F widen p st o in (st', outs ++ [out]))
            ops (st, @nil (cout D))))) h = Some d.
Proof.
  assert (G : forall ops (st : nat * store) outs h d,
    fresh_ok st -> lookup (snd st) h = Some d -> existsb (frees h) ops = false ->
    lookup (snd (fst (fold_left (fun acc o => let '(st, outs) := acc in
                          let '(st', out) := cstep F widen p st o in (st', outs ++ [out]))
            ops (st, outs)))) h = Some d).
  { clear ops. induction ops as [|o ops IH]; intros st outs h d Hf Hl Hnf; [exact Hl|].
    cbn [fold_left existsb] in *. apply Bool.orb_false_iff in Hnf. destruct Hnf as [Ho Hops].
    pose proof (@cstep_map_spec p st o Hf) as Hs. pose proof (@cstep_fresh_ok p st o Hf) as Hf'.
    destruct (cstep F widen p st o) as [st' out]. cbn [fst] in Hf'.
    apply IH; try assumption.
    destruct o; cbn [frees] in Ho.
    - destruct (capi_linkage F widen p meth buf n) as [[d0 b]|k|].
      + destruct Hs as (_ & _ & Hother). rewrite Hother; [exact Hl|].
        intros ->. rewrite (Hf (fst st)) in Hl by lia. discriminate.
      + destruct Hs as [_ ->]. exact Hl.
      + destruct Hs as [_ ->]. exact Hl.
    - destruct Hs as [-> _]. exact Hl.
    - destruct Hs as [-> _]. exact Hl.
    - destruct (lookup (snd st) h0) eqn:E.
      + destruct Hs as [_ Hother]. rewrite Hother; [exact Hl|].
        apply Nat.eqb_neq in Ho. congruence.
      + destruct Hs as [-> _]. exact Hl. }
  intros st h d. apply G.
Qed.

(* freeing every live handle leaves the store empty: nothing is retained *)
Lemma lookup_fold_remove_none (ks : list nat) : forall (s : store) h,
  lookup s h = None -> lookup (fold_left (fun s k => remove s k) ks s) h = None.
Proof.
  induction ks as [|k ks IH]; intros s h Hn; [exact Hn|].
  cbn [fold_left]. apply IH. destruct (Nat.eq_dec k h) as [->|Hne]; [apply lookup_remove_same|].
  rewrite lookup_remove_other by exact Hne. exact Hn.
Qed.

Theorem free_all_empty (ks : list nat) : forall (s : store),
  (forall x, lookup s x <> None -> In x ks) ->
  forall h, lookup (fold_left (fun s k => remove s k) ks s) h = None.
Proof.
  induction ks as [|k ks IH]; intros s Hs h.
  - cbn [fold_left]. destruct (lookup s h) eqn:E; [|reflexivity].
    exfalso. apply (Hs h). congruence.
  - cbn [fold_left]. destruct (Nat.eq_dec k h) as [->|Hne].
    + apply lookup_fold_remove_none, lookup_remove_same.
    + apply IH. intros x Hx. destruct (Nat.eq_dec k x) as [->|Hkx].
      * rewrite lookup_remove_same in Hx. congruence.
      * rewrite lookup_remove_other in Hx by exact Hkx. apply Hs in Hx.
        destruct Hx; [congruence|assumption].
Qed.

End CapiSteps.
